/-
  Property C03, proofs part 2: elementary facts about the state accessors of the concurrent model
  (`nodeAt`, the field updates performed by `stepThread`, `upd`), the ring / mirror lemma and the
  closed form of the probe sequence.
-/
import Babylon.Swiss.ConcInv

namespace Babylon.Swiss.Conc
open Babylon.Core Babylon.Gen.Swiss Babylon.Gen.SwissConc Babylon.Swiss

/-! ### `upd` -/

@[simp] theorem upd_same {α : Type} (f : Nat → α) (i : Nat) (v : α) : upd f i v i = v := by simp [upd]
theorem upd_other {α : Type} (f : Nat → α) {i j : Nat} (v : α) (h : j ≠ i) : upd f i v j = f j := by
  simp [upd, h]

/-! ### `nodeAt` -/

theorem nodeAt_set (ns : List Node) (tb tb' : Nat) (nd : Node) (h : tb < ns.length) :
    nodeAt (ns.set tb nd) tb' = if tb' = tb then nd else nodeAt ns tb' := by
  unfold nodeAt
  exact getD_set' ns tb tb' nd _ h

theorem nodeAt_set_same (ns : List Node) (tb : Nat) (nd : Node) (h : tb < ns.length) :
    nodeAt (ns.set tb nd) tb = nd := by rw [nodeAt_set _ _ _ _ h, if_pos rfl]

theorem nodeAt_set_other (ns : List Node) {tb tb' : Nat} (nd : Node) (h : tb' ≠ tb) :
    nodeAt (ns.set tb nd) tb' = nodeAt ns tb' := by
  unfold nodeAt
  rw [List.getD_eq_getElem?_getD, List.getD_eq_getElem?_getD, List.getElem?_set]
  have : ¬ tb = tb' := fun e => h e.symm
  simp [this]

theorem nodeAt_append_lt (ns : List Node) (x : Node) {tb : Nat} (h : tb < ns.length) :
    nodeAt (ns ++ [x]) tb = nodeAt ns tb := by
  unfold nodeAt
  rw [List.getD_eq_getElem?_getD, List.getD_eq_getElem?_getD, List.getElem?_append_left h]

theorem nodeAt_append_eq (ns : List Node) (x : Node) : nodeAt (ns ++ [x]) ns.length = x := by
  unfold nodeAt
  rw [List.getD_eq_getElem?_getD, List.getElem?_append_right (Nat.le_refl _)]
  simp

/-! ### field updates -/

theorem ctl_setCtrl (T : Table) (x y : Nat) (v : Ctl) (h : x < T.ctrl.length) :
    ({ T with ctrl := T.ctrl.set x v } : Table).ctl y = if y = x then v else T.ctl y := by
  unfold Table.ctl
  exact getD_set' T.ctrl x y v _ h

theorem val_setVals (T : Table) (i y : Nat) (e : Option Elem) (h : i < T.vals.length) :
    ({ T with vals := T.vals.set i e } : Table).val y = if y = i then e else T.val y := by
  unfold Table.val
  exact getD_set' T.vals i y e _ h

theorem claimAt_setClaim (nd : Node) (i y : Nat) (k : Option Nat) (tab : Table) (nx : Option Nat)
    (h : i < nd.claim.length) :
    claimAt ({ tab := tab, next := nx, claim := nd.claim.set i k } : Node) y =
      if y = i then k else claimAt nd y := by
  unfold claimAt
  exact getD_set' nd.claim i y k _ h

theorem claimAt_replicate (n i : Nat) (tab : Table) (nx : Option Nat) :
    claimAt ({ tab := tab, next := nx, claim := List.replicate n none } : Node) i = none := by
  unfold claimAt
  simp only [List.getD_eq_getElem?_getD, List.getElem?_replicate]
  split <;> rfl

theorem claimAt_ofTable (t : Table) (i : Nat) : claimAt (Node.ofTable t) i = none :=
  claimAt_replicate _ _ _ _

/-! ### control byte constants -/

theorem busy_neg : busyCtl < 0 := by decide
theorem empty_neg : emptyCtl < 0 := by decide
theorem dummy_neg : dummyCtl < 0 := by decide
theorem casExpected_eq : casExpected = emptyCtl := by decide
theorem casDesired_eq : casDesired = busyCtl := by decide

theorem tagOf_ne_busy (h : Nat) : tagOf h ≠ busyCtl := by
  intro heq
  have := tagOf_nonneg h
  rw [heq] at this
  exact absurd this (by decide)

theorem tagOf_ne_dummy (h : Nat) : tagOf h ≠ dummyCtl := by
  intro heq
  have := tagOf_nonneg h
  rw [heq] at this
  exact absurd this (by decide)

/-! ### shape of a real node -/

structure Real (nd : Node) : Prop where
  notDummy : nd.tab.dummy = false
  pow2 : ∃ k, nd.tab.n = 2 ^ k
  ge16 : 16 ≤ nd.tab.n
  ctrlLen : nd.tab.ctrl.length = nd.tab.n + 16
  valsLen : nd.tab.vals.length = nd.tab.n
  claimLen : nd.claim.length = nd.tab.n

theorem NodeOK.real {hash : Nat → Nat} {nd : Node} (h : NodeOK hash nd) (hd : nd.tab.dummy = false) :
    Real nd := by
  rcases h.shape with hp | ⟨h1, h2, h3, h4, h5⟩
  · rw [hp] at hd; cases hd
  · exact ⟨h1, h2, h3, h4, h5, h.claimLen⟩

theorem NodeOK.placeholder_of_dummy {hash : Nat → Nat} {nd : Node} (h : NodeOK hash nd)
    (hd : nd.tab.dummy = true) : nd.tab = Table.placeholder := by
  rcases h.shape with hp | ⟨h1, _⟩
  · exact hp
  · rw [h1] at hd; cases hd

/-- `n = 16 * 2^k'` for a real node -/
theorem Real.n_eq {nd : Node} (h : Real nd) : ∃ k', nd.tab.n = 16 * 2 ^ k' := by
  obtain ⟨k, hk⟩ := h.pow2
  have h16 := h.ge16
  have hk4 : 4 ≤ k := by
    apply Classical.byContradiction
    intro hlt
    have : 2 ^ k < 2 ^ 4 := Nat.pow_lt_pow_right (by decide) (by omega)
    omega
  obtain ⟨k', rfl⟩ : ∃ k', k = k' + 4 := ⟨k - 4, by omega⟩
  exact ⟨k', by rw [hk, Nat.pow_add]; omega⟩

theorem Real.npos {nd : Node} (h : Real nd) : 0 < nd.tab.n := by have := h.ge16; omega

/-- the status of a bucket, by the sign of its control byte -/
theorem NodeOK.slot_nonneg {hash : Nat → Nat} {nd : Node} (h : NodeOK hash nd)
    (hd : nd.tab.dummy = false) {i : Nat} (hi : i < nd.tab.n) (hc : 0 ≤ nd.tab.ctl i) :
    ∃ k v, nd.tab.ctl i = tagOf (hash k) ∧ nd.tab.val i = some (k, v) ∧ claimAt nd i = some k := by
  rcases h.slot hd i hi with ⟨h1, _⟩ | ⟨k, h1, _⟩ | hh
  · rw [h1] at hc; exact absurd hc (by decide)
  · rw [h1] at hc; exact absurd hc (by decide)
  · exact hh

theorem NodeOK.slot_empty {hash : Nat → Nat} {nd : Node} (h : NodeOK hash nd)
    (hd : nd.tab.dummy = false) {i : Nat} (hi : i < nd.tab.n) (hc : nd.tab.ctl i = emptyCtl) :
    nd.tab.val i = none ∧ claimAt nd i = none := by
  rcases h.slot hd i hi with ⟨_, h2, h3⟩ | ⟨k, h1, _⟩ | ⟨k, v, h1, _⟩
  · exact ⟨h2, h3⟩
  · rw [h1] at hc; exact absurd hc (by decide)
  · exact absurd (hc ▸ h1).symm (tagOf_ne_empty _)

/-- a claimed bucket is not EMPTY -/
theorem NodeOK.claim_not_empty {hash : Nat → Nat} {nd : Node} (h : NodeOK hash nd)
    (hd : nd.tab.dummy = false) {i k : Nat} (hi : i < nd.tab.n) (hc : claimAt nd i = some k) :
    nd.tab.ctl i ≠ emptyCtl := by
  intro he
  have := (h.slot_empty hd hi he).2
  rw [this] at hc; cases hc

/-- claims live below `n` -/
theorem NodeOK.claim_lt {hash : Nat → Nat} {nd : Node} (h : NodeOK hash nd) {i k : Nat}
    (hc : claimAt nd i = some k) : i < nd.tab.n := by
  apply Classical.byContradiction
  intro hge
  unfold claimAt at hc
  rw [List.getD_eq_getElem?_getD, List.getElem?_eq_none (by rw [h.claimLen]; omega)] at hc
  cases hc

/-- no control byte of a real table is DUMMY (below `n`) -/
theorem NodeOK.ctl_ne_dummy {hash : Nat → Nat} {nd : Node} (h : NodeOK hash nd)
    (hd : nd.tab.dummy = false) {i : Nat} (hi : i < nd.tab.n) : nd.tab.ctl i ≠ dummyCtl := by
  rcases h.slot hd i hi with ⟨h1, _⟩ | ⟨k, h1, _⟩ | ⟨k, v, h1, _⟩
  · rw [h1]; decide
  · rw [h1]; decide
  · rw [h1]; exact tagOf_ne_dummy _

/-! ### the ring: reading a window near the end goes through the mirrored bytes -/

theorem ring_index {n b j : Nat} (h16 : 16 ≤ n) (hb : b < n) (hj : j < 16) (hge : n ≤ b + j) :
    (b + j) % n = b + j - n ∧ b + j - n < 15 := by
  constructor
  · rw [Nat.mod_eq_sub_mod hge, Nat.mod_eq_of_lt (by omega)]
  · omega

/-- a non-negative byte read in a window is the main byte of its bucket -/
theorem NodeOK.ring {hash : Nat → Nat} {nd : Node} (h : NodeOK hash nd) (hd : nd.tab.dummy = false)
    {b j : Nat} (hb : b < nd.tab.n) (hj : j < 16) (hc : 0 ≤ nd.tab.ctl (b + j)) :
    nd.tab.ctl ((b + j) % nd.tab.n) = nd.tab.ctl (b + j) := by
  have hr := h.real hd
  by_cases hlt : b + j < nd.tab.n
  · rw [Nat.mod_eq_of_lt hlt]
  · obtain ⟨e, hl⟩ := ring_index hr.ge16 hb hj (by omega)
    rw [e]
    have hm := h.mirror hd (b + j - nd.tab.n) hl
    have hrw : nd.tab.n + (b + j - nd.tab.n) = b + j := by omega
    rw [hrw] at hm
    rcases hm with hm | ⟨_, hm⟩
    · rw [hm] at hc; exact absurd hc (by decide)
    · exact hm.symm

/-- a full window means non-negative main bytes -/
theorem NodeOK.ring_nonneg {hash : Nat → Nat} {nd : Node} (h : NodeOK hash nd)
    (hd : nd.tab.dummy = false) {b j : Nat} (hb : b < nd.tab.n) (hj : j < 16)
    (hc : 0 ≤ nd.tab.ctl (b + j)) : 0 ≤ nd.tab.ctl ((b + j) % nd.tab.n) := by
  rw [h.ring hd hb hj hc]; exact hc

/-! ### the probe sequence -/

theorem wbase_lt {n b0 m : Nat} (hn : 0 < n) : wbase n b0 m < n := Nat.mod_lt _ hn

theorem wbase_zero {n b0 : Nat} (hb : b0 < n) : wbase n b0 0 = b0 := by
  simp [wbase, tri, Nat.mod_eq_of_lt hb]

/-- `base = (base + step) & mask` with `step = 16 (m + 1)` is the next triangular window -/
theorem wbase_succ (n b0 m : Nat) :
    (wbase n b0 m + (16 * m + 16)) % n = wbase n b0 (m + 1) := by
  unfold wbase
  rw [Nat.mod_add_mod]
  congr 1
  simp only [tri]; omega

theorem baseOf_lt (T : Table) (h : Nat) (hn : 0 < T.n) : T.baseOf h < T.n := Nat.mod_lt _ hn

/-- every bucket of a real table lies in one of the `n / 16` windows of any probe sequence -/
theorem Real.cover {nd : Node} (h : Real nd) {b0 i : Nat} (hb : b0 < nd.tab.n) (hi : i < nd.tab.n) :
    ∃ m j, m < nd.tab.n / 16 ∧ j < 16 ∧ (wbase nd.tab.n b0 m + j) % nd.tab.n = i := by
  obtain ⟨k', hk⟩ := h.n_eq
  obtain ⟨m, j, hm, hj, hmj⟩ := probe_cover hk hb hi
  refine ⟨m, j, ?_, hj, hmj⟩
  rw [hk, Nat.mul_div_cancel_left _ (by decide : 0 < 16)]
  exact hm

end Babylon.Swiss.Conc
