/-
  Property C03, proofs part 3: monotonicity.  `NodeLe a b` = node `b` is a possible later state of
  node `a` (non-negative control bytes, value cells, claims and `next` pointers are final; a claim
  appears only on an EMPTY bucket).  Everything a thread knows that does not concern the bucket it
  owns is stable under `NodesLe` and under extension of the chain.
-/
import Babylon.Swiss.ConcBasic

namespace Babylon.Swiss.Conc
open Babylon.Core Babylon.Gen.Swiss Babylon.Gen.SwissConc Babylon.Swiss

structure NodeLe (a b : Node) : Prop where
  dummy : b.tab.dummy = a.tab.dummy
  n : b.tab.n = a.tab.n
  ctl : ∀ x, 0 ≤ a.tab.ctl x → b.tab.ctl x = a.tab.ctl x
  val : ∀ i e, a.tab.val i = some e → b.tab.val i = some e
  claim : ∀ i k, claimAt a i = some k → claimAt b i = some k
  claimNew : ∀ i, claimAt a i = none → claimAt b i ≠ none →
    a.tab.dummy = false ∧ i < a.tab.n ∧ a.tab.ctl i = emptyCtl
  next : ∀ x, a.next = some x → b.next = some x

theorem NodeLe.refl (a : Node) : NodeLe a a :=
  ⟨rfl, rfl, fun _ _ => rfl, fun _ _ h => h, fun _ _ h => h, fun _ h h' => absurd h h', fun _ h => h⟩

def NodesLe (ns ns' : List Node) : Prop :=
  ns.length ≤ ns'.length ∧ ∀ tb, tb < ns.length → NodeLe (nodeAt ns tb) (nodeAt ns' tb)

theorem NodesLe.refl (ns : List Node) : NodesLe ns ns := ⟨Nat.le_refl _, fun _ _ => NodeLe.refl _⟩

/-- replacing one node by a later state of it -/
theorem NodesLe.set {ns : List Node} {tb : Nat} {nd : Node} (h : tb < ns.length)
    (hle : NodeLe (nodeAt ns tb) nd) : NodesLe ns (ns.set tb nd) := by
  refine ⟨by simp, fun tb' _ => ?_⟩
  rw [nodeAt_set _ _ _ _ h]
  split
  · next e => subst e; exact hle
  · exact NodeLe.refl _

theorem NodesLe.append (ns : List Node) (x : Node) : NodesLe ns (ns ++ [x]) := by
  refine ⟨by simp, fun tb h => ?_⟩
  rw [nodeAt_append_lt _ _ h]
  exact NodeLe.refl _

namespace NodeLe
variable {a b : Node}

theorem baseOf (h : NodeLe a b) (x : Nat) : b.tab.baseOf x = a.tab.baseOf x := by
  unfold Table.baseOf; rw [h.n]

theorem winFull (h : NodeLe a b) {x : Nat} (hf : winFull a.tab x) : Conc.winFull b.tab x := by
  intro j hj
  rw [h.ctl _ (hf j hj)]; exact hf j hj

theorem keyAt (h : NodeLe a b) {i k : Nat} (hk : a.tab.keyAt i = some k) : b.tab.keyAt i = some k := by
  unfold Table.keyAt at hk ⊢
  cases hv : a.tab.val i with
  | none => rw [hv] at hk; cases hk
  | some e => rw [hv] at hk; rw [h.val i e hv]; exact hk

theorem reachC (h : NodeLe a b) {b0 i : Nat} (hr : ReachC a.tab b0 i) : ReachC b.tab b0 i := by
  obtain ⟨m, j, h1, h2, h3, h4, h5⟩ := hr
  refine ⟨m, j, by rw [h.n]; exact h1, h2, by rw [h.n]; exact h3, ?_, ?_⟩
  · intro m' hm'; rw [h.n]; exact h.winFull (h4 m' hm')
  · intro j' hj'; rw [h.n, h.ctl _ (h5 j' hj')]; exact h5 j' hj'

theorem vis (h : NodeLe a b) {b0 i : Nat} {tag : Ctl} (ht : 0 ≤ tag) (hr : Vis a.tab b0 i tag) :
    Vis b.tab b0 i tag := by
  obtain ⟨m, j, h1, h2, h3, h4, h5⟩ := hr
  refine ⟨m, j, by rw [h.n]; exact h1, h2, by rw [h.n]; exact h3, ?_, ?_⟩
  · intro m' hm'; rw [h.n]; exact h.winFull (h4 m' hm')
  · rw [h.n, h.ctl _ (by rw [h5]; exact ht)]; exact h5

theorem pub {hash : Nat → Nat} (h : NodeLe a b) {i key : Nat} (hp : Pub hash a i key) :
    Pub hash b i key := by
  obtain ⟨h1, h2, h3, h4, h5, h6⟩ := hp
  refine ⟨by rw [h.dummy]; exact h1, by rw [h.n]; exact h2, h.keyAt h3, h.claim _ _ h4, ?_, ?_⟩
  · rw [h.ctl _ (by rw [h5]; exact tagOf_nonneg _)]; exact h5
  · rw [h.baseOf]; exact h.vis (tagOf_nonneg _) h6

theorem sat (h : NodeLe a b) (hs : a.tab.Sat) : b.tab.Sat := by
  rcases hs with hd | hs
  · left; rw [h.dummy]; exact hd
  · right; intro i hi
    rw [h.n] at hi
    rw [h.ctl _ (hs i hi)]; exact hs i hi

theorem full (h : NodeLe a b) {key : Nat} (hf : Full a key) : Full b key := by
  refine ⟨h.sat hf.1, fun i hc => ?_⟩
  cases ha : claimAt a i with
  | some k =>
    have := h.claim i k ha
    rw [this] at hc
    cases hc
    exact hf.2 i ha
  | none =>
    obtain ⟨hd, hi, he⟩ := h.claimNew i ha (by rw [hc]; simp)
    rcases hf.1 with hd' | hs
    · rw [hd] at hd'; cases hd'
    · have := hs i hi
      rw [he] at this
      exact absurd this (by decide)

end NodeLe

/-! ### lists -/

theorem getD_prefix {α : Type} {l l' : List α} (h : l <+: l') {p : Nat} (hp : p < l.length) (d : α) :
    l'.getD p d = l.getD p d := by
  obtain ⟨t, rfl⟩ := h
  rw [List.getD_eq_getElem?_getD, List.getD_eq_getElem?_getD, List.getElem?_append_left hp]

theorem getD_mem {l : List Nat} {p : Nat} (hp : p < l.length) : l.getD p 0 ∈ l := by
  rw [List.getD_eq_getElem?_getD, List.getElem?_eq_getElem hp]
  exact List.getElem_mem hp

theorem mem_matchTag {w : List Ctl} {tag : Ctl} {j : Nat} :
    j ∈ matchTag w tag ↔ j < w.length ∧ w.getD j 0 = tag := by
  unfold matchTag
  rw [List.mem_filter, List.mem_range]
  simp

theorem firstNeg_some {w : List Ctl} {j : Nat} (h : firstNeg w = some j) :
    j < w.length ∧ w.getD j 0 < 0 ∧ ∀ j', j' < j → 0 ≤ w.getD j' 0 := by
  unfold firstNeg at h
  have hm := List.mem_of_find?_eq_some h
  have hp := List.find?_some h
  refine ⟨List.mem_range.1 hm, by simpa using hp, ?_⟩
  intro j' hj'
  rw [List.find?_range_eq_some] at h
  have := h.2.2 j' hj'
  simpa using this

theorem firstNeg_none {w : List Ctl} (h : firstNeg w = none) : ∀ j, j < w.length → 0 ≤ w.getD j 0 := by
  unfold firstNeg at h
  rw [List.find?_eq_none] at h
  intro j hj
  have := h j (List.mem_range.2 hj)
  simpa using this

/-! ### frames -/

theorem FrameOK.mono {hash : Nat → Nat} {ns ns' : List Node} {ch ch' : List Nat} {f : Frame} {p : Nat}
    (hlt : ∀ x ∈ ch, x < ns.length) (hle : NodesLe ns ns') (hch : ch <+: ch')
    (h : FrameOK hash ns ch f p) : FrameOK hash ns' ch' f p := by
  have hlen : ch.length ≤ ch'.length := hch.length_le
  refine ⟨Nat.lt_of_lt_of_le h.pos hlen, ?_, Nat.lt_of_lt_of_le h.lt hle.1, ?_, h.fixed0, ?_, ?_⟩
  · rw [getD_prefix hch h.pos]; exact h.atPos
  · rw [(hle.2 _ h.lt).n]; exact h.nEq
  · intro hk q hq
    have hq' : q < ch.length := Nat.lt_trans hq h.pos
    rw [getD_prefix hch hq']
    have hx := hlt _ (getD_mem hq')
    exact (hle.2 _ hx).full (h.earlier hk q hq)
  · intro tbs is hm hu
    obtain ⟨ps, h1, h2, h3, h4⟩ := h.must tbs is hm hu
    refine ⟨ps, h1, Nat.lt_of_lt_of_le h2 hlen, ?_, ?_⟩
    · rw [getD_prefix hch h2]; exact h3
    · have hx : tbs < ns.length := by rw [← h3]; exact hlt _ (getD_mem h2)
      exact (hle.2 _ hx).pub h4

theorem ProbeOK.mono {hash : Nat → Nat} {ns ns' : List Node} {f : Frame}
    (hlt : f.tb < ns.length) (hok : NodeOK hash (nodeAt ns f.tb)) (hn : f.n = (nodeAt ns f.tb).tab.n)
    (hle : NodesLe ns ns') (h : ProbeOK hash ns f) : ProbeOK hash ns' f := by
  have le := hle.2 _ hlt
  refine ⟨h.notBuilt, h.wLen, ?_, ?_, ?_, ?_, ?_, ?_⟩
  · intro hd; exact h.dummyCase (by rw [← le.dummy]; exact hd)
  · intro hd; rw [le.baseOf]; exact h.stepEq (by rw [← le.dummy]; exact hd)
  · intro hd m' hm'; rw [le.baseOf]
    exact le.winFull (h.prefixFull (by rw [← le.dummy]; exact hd) m' hm')
  · intro hd hk m' hm' j hj hc
    have hd' : (nodeAt ns f.tb).tab.dummy = false := by rw [← le.dummy]; exact hd
    rw [le.baseOf] at hc
    have hr := hok.real hd'
    have hold := h.passed hd' hk m' hm' j hj
    cases ha : claimAt (nodeAt ns f.tb) ((wbase f.n ((nodeAt ns f.tb).tab.baseOf (hash f.e.1)) m' + j) % f.n) with
    | some k =>
      have := le.claim _ _ ha
      rw [this] at hc
      cases hc
      exact hold ha
    | none =>
      obtain ⟨_, _, he⟩ := le.claimNew _ ha (by rw [hc]; simp)
      have hfull := h.prefixFull hd' m' hm' j hj
      have hb : wbase f.n ((nodeAt ns f.tb).tab.baseOf (hash f.e.1)) m' < (nodeAt ns f.tb).tab.n := by
        rw [hn]; exact wbase_lt hr.npos
      have := hok.ring_nonneg hd' hb hj hfull
      rw [← hn, he] at this
      exact absurd this (by decide)
  · intro j hj hc
    rw [le.ctl _ (by rw [h.snap j hj hc]; exact hc)]
    exact h.snap j hj hc
  · intro is hm hu
    obtain ⟨ms, js, h1, h2, h3, h4, h5, h6, h7, h8⟩ := h.mustHere is hm hu
    refine ⟨ms, js, h1, h2, h3, ?_, ?_, ?_, h7, h8⟩
    · rw [le.baseOf]; exact h4
    · intro m' hm'; rw [le.baseOf]; exact le.winFull (h5 m' hm')
    · rw [le.baseOf, le.ctl _ (by rw [h6]; exact tagOf_nonneg _)]; exact h6

/-- the key of a bucket whose tag a snapshot has seen is final -/
theorem snap_keyAt_stable {hash : Nat → Nat} {ns ns' : List Node} {f : Frame}
    (hlt : f.tb < ns.length) (hok : NodeOK hash (nodeAt ns f.tb)) (hn : f.n = (nodeAt ns f.tb).tab.n)
    (hd : (nodeAt ns f.tb).tab.dummy = false) (hle : NodesLe ns ns') (h : ProbeOK hash ns f)
    {j : Nat} (hj : j ∈ matchTag f.w (tagOf (hash f.e.1)))
    (hk : (nodeAt ns f.tb).tab.keyAt ((f.base + j) % f.n) ≠ some f.e.1) :
    (nodeAt ns' f.tb).tab.keyAt ((f.base + j) % f.n) ≠ some f.e.1 := by
  have le := hle.2 _ hlt
  have hr := hok.real hd
  obtain ⟨hjl, hjt⟩ := mem_matchTag.1 hj
  have hj16 : j < 16 := Nat.lt_of_lt_of_le hjl h.wLen
  have hc := h.snap j hjl (by rw [hjt]; exact tagOf_nonneg _)
  have hb : f.base < (nodeAt ns f.tb).tab.n := by
    rw [(h.stepEq hd).2.2, ← hn]; exact wbase_lt (by rw [hn]; exact hr.npos)
  have hnn : 0 ≤ (nodeAt ns f.tb).tab.ctl (f.base + j) := by rw [hc, hjt]; exact tagOf_nonneg _
  have hmain := hok.ring_nonneg hd hb hj16 hnn
  have hidx : (f.base + j) % (nodeAt ns f.tb).tab.n < (nodeAt ns f.tb).tab.n := Nat.mod_lt _ hr.npos
  obtain ⟨k, v, _, hv, _⟩ := hok.slot_nonneg hd hidx hmain
  rw [← hn] at hv
  intro hk'
  have hv' := le.val _ _ hv
  unfold Table.keyAt at hk hk'
  rw [hv] at hk
  rw [hv'] at hk'
  exact hk hk'

/-! ### threads -/

/-- the bucket owned by a thread is untouched -/
def SlotSame (a b : Node) (i : Nat) : Prop :=
  b.tab.ctl i = a.tab.ctl i ∧ b.tab.val i = a.tab.val i ∧ b.tab.ctl (a.tab.n + i) = a.tab.ctl (a.tab.n + i)

theorem OwnOK.mono {hash : Nat → Nat} {ns ns' : List Node} {f : Frame} {i : Nat}
    (hlt : f.tb < ns.length) (hle : NodesLe ns ns') (h : OwnOK hash ns f i) : OwnOK hash ns' f i := by
  have le := hle.2 _ hlt
  exact ⟨h.notFind, by rw [le.dummy]; exact h.real, h.lt, le.claim _ _ h.claim, h.noMust⟩

theorem ThreadOK.mono {hash : Nat → Nat} {ns ns' : List Node} {ch ch' : List Nat}
    (hnodes : ∀ tb, tb < ns.length → NodeOK hash (nodeAt ns tb))
    (hlt : ∀ x ∈ ch, x < ns.length) (h0 : 0 < ns.length) (hle : NodesLe ns ns') (hch : ch <+: ch') (pc : Pc)
    (hown : ∀ tb i, ownerOf pc = some (tb, i) → SlotSame (nodeAt ns tb) (nodeAt ns' tb) i)
    (hnw : ∀ f nw, pc = .nextCas f nw → nw ∉ ch' ∧ (nodeAt ns' nw).tab = (nodeAt ns nw).tab)
    (h : ThreadOK hash ns ch pc) : ThreadOK hash ns' ch' pc := by
  have fmono : ∀ {f p}, FrameOK hash ns ch f p → FrameOK hash ns' ch' f p :=
    fun hf => hf.mono hlt hle hch
  have pmono : ∀ {f p}, FrameOK hash ns ch f p → ProbeOK hash ns f → ProbeOK hash ns' f :=
    fun hf hp => hp.mono hf.lt (hnodes _ hf.lt) hf.nEq hle
  cases pc with
  | idle => trivial
  | load f =>
    obtain ⟨p, hf, hp, hw⟩ := h
    exact ⟨p, fmono hf, pmono hf hp, hw⟩
  | cmp f ms =>
    obtain ⟨p, hf, hp, hw, hd, hms, pre, hpre, hcmp⟩ := h
    refine ⟨p, fmono hf, pmono hf hp, hw, by rw [(hle.2 _ hf.lt).dummy]; exact hd, hms, pre, hpre, ?_⟩
    intro j hj
    exact snap_keyAt_stable hf.lt (hnodes _ hf.lt) hf.nEq hd hle hp
      (by rw [hpre]; exact List.mem_append_left _ hj) (hcmp j hj)
  | cas f i =>
    obtain ⟨p, hf, hp, hw, hk, hnm, j0, h1, h2, h3⟩ := h
    refine ⟨p, fmono hf, pmono hf hp, hw, hk, hnm, j0, h1, h2, ?_⟩
    intro hd j hj
    have hd' : (nodeAt ns f.tb).tab.dummy = false := by rw [← (hle.2 _ hf.lt).dummy]; exact hd
    exact snap_keyAt_stable hf.lt (hnodes _ hf.lt) hf.nEq hd' hle hp hj (h3 hd' j hj)
  | yield f =>
    obtain ⟨p, hf, hp, hk⟩ := h
    exact ⟨p, fmono hf, pmono hf hp, hk⟩
  | construct f i =>
    obtain ⟨p, hf, ho, hb, h1, h2⟩ := h
    obtain ⟨s1, s2, _⟩ := hown f.tb i rfl
    exact ⟨p, fmono hf, ho.mono hf.lt hle, hb, by rw [s1]; exact h1, by rw [s2]; exact h2⟩
  | st1 f i =>
    obtain ⟨p, hf, ho, hb, h1, h2⟩ := h
    obtain ⟨s1, s2, _⟩ := hown f.tb i rfl
    exact ⟨p, fmono hf, ho.mono hf.lt hle, hb, by rw [s1]; exact h1, by rw [s2]; exact h2⟩
  | st2 f i =>
    obtain ⟨p, hf, ho, hb, h1, h2, h3⟩ := h
    obtain ⟨s1, s2, s3⟩ := hown f.tb i rfl
    refine ⟨p, fmono hf, ho.mono hf.lt hle, hb, by rw [s1]; exact h1, by rw [s2]; exact h2, ?_⟩
    intro hi
    rw [hf.nEq, s3, ← hf.nEq]; exact h3 hi
  | sz f i =>
    obtain ⟨p, hf, ho, hb, h1, h2⟩ := h
    exact ⟨p, fmono hf, ho.mono hf.lt hle, hb, (hle.2 _ hf.lt).pub h1, (hle.2 _ hf.lt).val _ _ h2⟩
  | nextLd f =>
    obtain ⟨p, hf, h1, h2, h3, h4⟩ := h
    exact ⟨p, fmono hf, h1, h2, fun hk => (hle.2 _ hf.lt).full (h3 hk), h4⟩
  | nextCas f nw =>
    obtain ⟨p, hf, h1, h2, h3, h4, h5, h6, h7⟩ := h
    obtain ⟨n1, n2⟩ := hnw f nw rfl
    exact ⟨p, fmono hf, h1, h2, (hle.2 _ hf.lt).full h3, h4,
      Nat.lt_of_lt_of_le h5 hle.1, n1, by rw [n2]; exact h7⟩
  | ret f r =>
    cases r with
    | slot tb i ins =>
      obtain ⟨h1, h2, h3, h4, h5, h6⟩ := h
      exact ⟨h1, Nat.lt_of_lt_of_le h2 hle.1, (hle.2 _ h2).pub h3, h4, h5, h6⟩
    | none =>
      obtain ⟨h1, h2, h3⟩ := h
      refine ⟨h1, h2, fun hk => ?_⟩
      obtain ⟨h4, h5⟩ := h3 hk
      refine ⟨h4, ?_⟩
      exact (hle.2 _ h0).sat h5

end Babylon.Swiss.Conc
