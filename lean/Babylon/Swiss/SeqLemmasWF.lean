/-
  Helper lemmas for property C18, part 2: the table-level invariant `Table.WF` and the
  behaviour of the probe loops of `find` / `emplace` on one table.
-/
import Babylon.Swiss.SeqLemmas

namespace Babylon.Swiss
open Babylon.Gen.Swiss

/-- Slot `i` is reached by the probe sequence (`fuel` iterations left, current `step`, `base`)
before the sequence meets a window with a free byte: `i` lies in the current window, or the
current window is full and `i` is reached from the next window. -/
def Table.Reach (t : Table) (i : Nat) : Nat → Nat → Nat → Prop
  | 0, _, _ => False
  | k + 1, step, base =>
    (∃ j, j < 16 ∧ (base + j) % t.n = i) ∨
    (firstNeg (t.window base) = none ∧
      t.Reach i k (step + groupSize) ((base + (step + groupSize)) % t.n))

/-- Every window of the probe sequence (`fuel` iterations) is full. -/
def Table.FullPath (t : Table) : Nat → Nat → Nat → Prop
  | 0, _, _ => True
  | k + 1, step, base =>
    firstNeg (t.window base) = none ∧
      t.FullPath k (step + groupSize) ((base + (step + groupSize)) % t.n)

/-- Well-formedness of a real (non-placeholder) table. -/
structure Table.WF (hash : Nat → Nat) (t : Table) : Prop where
  notDummy : t.dummy = false
  pow2 : ∃ k, t.n = 2 ^ k
  ge16 : 16 ≤ t.n
  ctrlLen : t.ctrl.length = t.n + 16
  valsLen : t.vals.length = t.n
  /-- the 15 mirrored tail bytes -/
  mirror : ∀ j, j < 15 → t.ctl (t.n + j) = t.ctl j
  /-- each bucket is (EMPTY, no value) or (tag of the stored key, value) -/
  bucket : ∀ i, i < t.n → (t.ctl i = emptyCtl ∧ t.val i = none) ∨
      (∃ k v, t.ctl i = tagOf (hash k) ∧ t.val i = some (k, v))
  sizeEq : t.size = t.elems.length
  /-- keys pairwise distinct -/
  distinct : ∀ i j k, i < t.n → j < t.n → t.keyAt i = some k → t.keyAt j = some k → i = j
  /-- probe-prefix-full: every window probed before the one holding a key is full -/
  reach : ∀ i k, i < t.n → t.keyAt i = some k → t.Reach i (t.n / 16) 0 (t.baseOf (hash k))

/-- the table refuses insertions: placeholder, or every bucket occupied -/
def Table.Sat (t : Table) : Prop := t.dummy = true ∨ ∀ i, i < t.n → 0 ≤ t.ctl i

/-- key `k` is stored nowhere in `t` -/
def Table.Absent (t : Table) (k : Nat) : Prop := ∀ i, i < t.n → t.keyAt i ≠ some k

namespace Table.WF
variable {hash : Nat → Nat} {t : Table}

theorem npos (h : t.WF hash) : 0 < t.n := by have := h.ge16; omega

/-- reading a window at an unaligned base near the end uses the mirrored bytes: it is the
ring read. -/
theorem ring (h : t.WF hash) {b j : Nat} (hb : b < t.n) (hj : j < 16) :
    t.ctl (b + j) = t.ctl ((b + j) % t.n) := by
  have h16 := h.ge16
  by_cases hlt : b + j < t.n
  · rw [Nat.mod_eq_of_lt hlt]
  · have e : (b + j) % t.n = b + j - t.n := by
      rw [Nat.mod_eq_sub_mod (by omega), Nat.mod_eq_of_lt (by omega)]
    rw [e]
    have := h.mirror (b + j - t.n) (by omega)
    rw [← this]
    congr 1; omega

theorem keyAt_some (h : t.WF hash) {i k : Nat} (hi : i < t.n) (hk : t.keyAt i = some k) :
    t.ctl i = tagOf (hash k) ∧ ∃ v, t.val i = some (k, v) := by
  rcases h.bucket i hi with ⟨_, hv⟩ | ⟨k', v, hc, hv⟩
  · simp [Table.keyAt, hv] at hk
  · simp [Table.keyAt, hv] at hk
    subst hk
    exact ⟨hc, v, hv⟩

theorem ctl_neg (h : t.WF hash) {i : Nat} (hi : i < t.n) (hc : t.ctl i < 0) :
    t.ctl i = emptyCtl ∧ t.val i = none := by
  rcases h.bucket i hi with hh | ⟨k', v, hc', _⟩
  · exact hh
  · have := tagOf_nonneg (hash k')
    rw [hc'] at hc
    exact absurd this (Int.not_le.2 hc)

theorem ctl_nonneg (h : t.WF hash) {i : Nat} (hi : i < t.n) (hc : 0 ≤ t.ctl i) :
    ∃ k v, t.ctl i = tagOf (hash k) ∧ t.val i = some (k, v) := by
  rcases h.bucket i hi with ⟨hh, _⟩ | hh
  · rw [hh] at hc; exact absurd hc (by decide)
  · exact hh

end Table.WF

/-! ### `find` on one table -/

theorem findLoop_sound {t : Table} {tag : Ctl} {key : Nat} (hn : 0 < t.n) :
    ∀ fuel step base i, t.findLoop tag key fuel step base = some i →
      i < t.n ∧ t.keyAt i = some key := by
  intro fuel
  induction fuel with
  | zero => intro step base i h; simp [Table.findLoop] at h
  | succ k ih =>
    intro step base i h
    simp only [Table.findLoop] at h
    split at h
    · rename_i i' hm
      obtain ⟨j, _, rfl, _, hk⟩ := matchKey_some hm
      cases h
      exact ⟨Nat.mod_lt _ hn, hk⟩
    · split at h
      · cases h
      · exact ih _ _ _ h

theorem findLoop_of_reach {hash : Nat → Nat} {t : Table} (hw : t.WF hash) {key i : Nat}
    (hi : i < t.n) (hk : t.keyAt i = some key) :
    ∀ fuel step base, base < t.n → t.Reach i fuel step base →
      t.findLoop (tagOf (hash key)) key fuel step base = some i := by
  intro fuel
  induction fuel with
  | zero => intro step base _ h; exact absurd h (by simp [Table.Reach])
  | succ k ih =>
    intro step base hb h
    simp only [Table.findLoop]
    split
    · rename_i i' hm
      obtain ⟨j, _, rfl, _, hk'⟩ := matchKey_some hm
      congr 1
      exact hw.distinct _ _ key (Nat.mod_lt _ hw.npos) hi hk' hk
    · rename_i hm
      simp only [Table.Reach] at h
      rcases h with ⟨j, hj, rfl⟩ | ⟨hfull, hr⟩
      · exfalso
        have hc := (hw.keyAt_some hi hk).1
        rw [← hw.ring hb hj] at hc
        exact matchKey_none hm j hj hc hk
      · rw [hfull]
        simp only [Option.isSome_none, Bool.false_eq_true, if_false]
        exact ih _ _ (Nat.mod_lt _ hw.npos) hr

theorem Table.find_sound {hash : Nat → Nat} {t : Table} (hn : 0 < t.n) {key i : Nat}
    (h : t.find hash key = some i) : i < t.n ∧ t.keyAt i = some key :=
  findLoop_sound hn _ _ _ _ h

theorem Table.WF.find_of_mem {hash : Nat → Nat} {t : Table} (hw : t.WF hash) {key i : Nat}
    (hi : i < t.n) (hk : t.keyAt i = some key) : t.find hash key = some i :=
  findLoop_of_reach hw hi hk _ _ _ (Nat.mod_lt _ hw.npos) (hw.reach i key hi hk)

theorem Table.WF.find_none {hash : Nat → Nat} {t : Table} (hw : t.WF hash) {key : Nat}
    (h : t.find hash key = none) : t.Absent key := by
  intro i hi hk
  rw [hw.find_of_mem hi hk] at h
  cases h

/-! ### `emplace` on one table -/

theorem emplaceLoop_of_reach {hash : Nat → Nat} {t : Table} (hw : t.WF hash) {e : Elem} {i : Nat}
    (hi : i < t.n) (hk : t.keyAt i = some e.1) :
    ∀ fuel step base, base < t.n → t.Reach i fuel step base →
      t.emplaceLoop (tagOf (hash e.1)) e fuel step base = (t, .found i) := by
  intro fuel
  induction fuel with
  | zero => intro step base _ h; exact absurd h (by simp [Table.Reach])
  | succ k ih =>
    intro step base hb h
    simp only [Table.emplaceLoop]
    split
    · rename_i i' hm
      obtain ⟨j, _, rfl, _, hk'⟩ := matchKey_some hm
      congr 2
      exact hw.distinct _ _ e.1 (Nat.mod_lt _ hw.npos) hi hk' hk
    · rename_i hm
      simp only [Table.Reach] at h
      rcases h with ⟨j, hj, rfl⟩ | ⟨hfull, hr⟩
      · exfalso
        have hc := (hw.keyAt_some hi hk).1
        rw [← hw.ring hb hj] at hc
        exact matchKey_none hm j hj hc hk
      · rw [hfull]
        exact ih _ _ (Nat.mod_lt _ hw.npos) hr

/-- the three possible outcomes of the emplace probe loop on a well-formed table
(in particular never `.stuck`). -/
theorem emplaceLoop_cases {hash : Nat → Nat} {t : Table} (hw : t.WF hash) (tag : Ctl) (e : Elem) :
    ∀ fuel step base, base < t.n →
      (∃ i, t.emplaceLoop tag e fuel step base = (t, .found i) ∧ i < t.n ∧
          t.keyAt i = some e.1) ∨
      (∃ i, t.emplaceLoop tag e fuel step base = (t.put i tag e, .inserted i) ∧ i < t.n ∧
          t.ctl i = emptyCtl ∧ t.Reach i fuel step base) ∨
      (t.emplaceLoop tag e fuel step base = (t, .full) ∧ t.FullPath fuel step base) := by
  intro fuel
  induction fuel with
  | zero =>
    intro step base _
    exact Or.inr (Or.inr ⟨rfl, trivial⟩)
  | succ k ih =>
    intro step base hb
    simp only [Table.emplaceLoop]
    split
    · rename_i i' hm
      obtain ⟨j, _, rfl, _, hk'⟩ := matchKey_some hm
      exact Or.inl ⟨_, rfl, Nat.mod_lt _ hw.npos, hk'⟩
    · split
      · rename_i j hf
        obtain ⟨hj, hneg⟩ := firstNeg_window_some hf
        rw [hw.ring hb hj] at hneg
        have hlt : (base + j) % t.n < t.n := Nat.mod_lt _ hw.npos
        have hemp := (hw.ctl_neg hlt hneg).1
        refine Or.inr (Or.inl ⟨(base + j) % t.n, ?_, hlt, hemp, ?_⟩)
        · simp [hemp]
        · simp only [Table.Reach]
          exact Or.inl ⟨j, hj, rfl⟩
      · rename_i hf
        rcases ih (step + groupSize) ((base + (step + groupSize)) % t.n)
            (Nat.mod_lt _ hw.npos) with ⟨i, h1, h2, h3⟩ | ⟨i, h1, h2, h3, h4⟩ | ⟨h1, h2⟩
        · exact Or.inl ⟨i, h1, h2, h3⟩
        · refine Or.inr (Or.inl ⟨i, h1, h2, h3, ?_⟩)
          simp only [Table.Reach]
          exact Or.inr ⟨hf, h4⟩
        · refine Or.inr (Or.inr ⟨h1, ?_⟩)
          simp only [Table.FullPath]
          exact ⟨hf, h2⟩

end Babylon.Swiss
