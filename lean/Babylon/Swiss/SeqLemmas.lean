/-
  Helper lemmas for property C18, part 1: control bytes, probe windows, the table-level
  well-formedness invariant `Table.WF`, and the behaviour of `find` / `emplace` on one table.
  Core Lean only.
-/
import Babylon.Swiss.Seq

namespace Babylon.Swiss
open Babylon.Gen.Swiss

/-! ### constants -/

@[simp] theorem groupSize_eq : groupSize = 16 := rfl
@[simp] theorem groupMask_eq : groupMask = 15 := rfl
@[simp] theorem checkerMask_eq : checkerMask = 127 := rfl
@[simp] theorem checkerBits_eq : checkerBits = 7 := rfl
@[simp] theorem dummyLen_eq : dummyLen = 32 := rfl
@[simp] theorem emptyCtl_eq : emptyCtl = -128 := rfl
@[simp] theorem dummyCtl_eq : dummyCtl = -126 := rfl

theorem tagOf_nonneg (h : Nat) : 0 ≤ tagOf h := by
  unfold tagOf; exact Int.natCast_nonneg _

theorem tagOf_ne_empty (h : Nat) : tagOf h ≠ emptyCtl := by
  intro heq
  have := tagOf_nonneg h
  rw [heq] at this
  exact absurd this (by decide)

/-! ### windows -/

theorem window_length (t : Table) (b : Nat) : (t.window b).length = 16 := by
  simp [Table.window]

theorem window_getD (t : Table) (b j : Nat) (hj : j < 16) :
    (t.window b).getD j 0 = t.ctl (b + j) := by
  simp [Table.window, List.getD_eq_getElem?_getD, List.getElem?_range hj]

theorem firstNeg_window_none {t : Table} {b : Nat} :
    firstNeg (t.window b) = none ↔ ∀ j, j < 16 → 0 ≤ t.ctl (b + j) := by
  unfold firstNeg
  rw [List.find?_eq_none, window_length]
  constructor
  · intro h j hj
    have := h j (by simpa using hj)
    rw [window_getD t b j hj] at this
    simpa using this
  · intro h j hj
    have hj' : j < 16 := by simpa using hj
    rw [window_getD t b j hj']
    have := h j hj'
    simpa using this

theorem firstNeg_window_some {t : Table} {b j : Nat} (h : firstNeg (t.window b) = some j) :
    j < 16 ∧ t.ctl (b + j) < 0 := by
  unfold firstNeg at h
  have hm := List.mem_of_find?_eq_some h
  have hp := List.find?_some h
  rw [window_length] at hm
  have hj : j < 16 := by simpa using hm
  rw [window_getD t b j hj] at hp
  exact ⟨hj, by simpa using hp⟩

theorem mem_matchTag_window {t : Table} {b : Nat} {tag : Ctl} {j : Nat} :
    j ∈ matchTag (t.window b) tag ↔ j < 16 ∧ t.ctl (b + j) = tag := by
  unfold matchTag
  rw [List.mem_filter, window_length]
  constructor
  · rintro ⟨hm, hp⟩
    have hj : j < 16 := by simpa using hm
    rw [window_getD t b j hj] at hp
    exact ⟨hj, by simpa using hp⟩
  · rintro ⟨hj, hp⟩
    refine ⟨by simpa using hj, ?_⟩
    rw [window_getD t b j hj]
    simpa using hp

theorem matchKey_some {t : Table} {b : Nat} {tag : Ctl} {key i : Nat}
    (h : t.matchKey b tag key = some i) :
    ∃ j, j < 16 ∧ i = (b + j) % t.n ∧ t.ctl (b + j) = tag ∧ t.keyAt i = some key := by
  unfold Table.matchKey at h
  have hm := List.mem_of_find?_eq_some h
  have hp := List.find?_some h
  rw [List.mem_map] at hm
  obtain ⟨j, hj, rfl⟩ := hm
  rw [mem_matchTag_window] at hj
  exact ⟨j, hj.1, rfl, hj.2, by simpa using hp⟩

theorem matchKey_none {t : Table} {b : Nat} {tag : Ctl} {key : Nat}
    (h : t.matchKey b tag key = none) :
    ∀ j, j < 16 → t.ctl (b + j) = tag → t.keyAt ((b + j) % t.n) ≠ some key := by
  unfold Table.matchKey at h
  rw [List.find?_eq_none] at h
  intro j hj hc
  have := h ((b + j) % t.n) (List.mem_map.2 ⟨j, mem_matchTag_window.2 ⟨hj, hc⟩, rfl⟩)
  simpa using this

end Babylon.Swiss
