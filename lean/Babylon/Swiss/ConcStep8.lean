/-
  Property C03, proofs part 11: calls and returns, the assembly `Inv.step` over every `Step`, the
  history invariant `LogOK`, and reachability: every reachable state satisfies `Inv ∧ LogOK`.
-/
import Babylon.Swiss.ConcStep7
import Babylon.Core.Reach

namespace Babylon.Swiss.Conc
open Babylon.Core Babylon.Gen.Swiss Babylon.Gen.SwissConc Babylon.Swiss

variable {hash : Nat → Nat}

/-! ### the history -/

theorem doneOf_some {log : List Event} {key tb i : Nat} (h : doneOf log key = some (tb, i)) :
    ∃ t k e ins b m, Event.ret t k e (.slot tb i ins) b m ∈ log ∧ e.1 = key := by
  unfold doneOf at h
  obtain ⟨ev, hev, hf⟩ := List.exists_of_findSome?_eq_some h
  cases ev with
  | call t k e => simp at hf
  | ret t k e r b m =>
    cases r with
    | none => simp at hf
    | slot tb' i' ins =>
      simp only at hf
      split at hf
      · next he =>
        cases hf
        exact ⟨t, k, e, ins, b, m, hev, he⟩
      · cases hf

theorem RetOK.mono {ns ns' : List Node} (hle : NodesLe ns ns') (h0 : 0 < ns.length) {ev : Event}
    (h : RetOK hash ns ev) : RetOK hash ns' ev := by
  cases ev with
  | call t k e => trivial
  | ret t k e r b m =>
    cases r with
    | slot tb i ins =>
      obtain ⟨h1, h2, h3, h4, h5⟩ := h
      exact ⟨Nat.lt_of_lt_of_le h1 hle.1, (hle.2 _ h1).pub h2, h3, h4, h5⟩
    | none =>
      obtain ⟨h1, h2, h3⟩ := h
      refine ⟨h1, h2, fun hk => ?_⟩
      obtain ⟨h4, h5⟩ := h3 hk
      exact ⟨h4, (hle.2 _ h0).sat h5⟩

theorem Inv.zero_lt {s : State} (h : Inv hash s) : 0 < s.nodes.length := by
  have := h.chain.zero_lt
  have hm : s.chain.getD 0 0 ∈ s.chain := getD_mem this.1
  rw [this.2] at hm
  exact h.chain.lt 0 hm

/-! ### call -/

theorem inv_call {s : State} (h : Inv hash s) (hl : LogOK hash s) {t : Nat} (hpc : s.pc t = .idle)
    (k : Kind) (e : Elem) : Inv hash (doCall hash s t k e) := by
  have hz := h.chain.zero_lt
  have h0 := h.zero_lt
  apply h.pcOnly (s' := doCall hash s t k e) t (.load (entered hash s.nodes
    { kind := k, e := e, tb := 0, n := 0, step := 0, base := 0, w := [], must := doneOf s.log e.1 } 0)) rfl rfl rfl
  · apply enter_ok _ 0 0 (h.nodes 0 h0) rfl
    refine ⟨hz.1, hz.2, h0, rfl, fun _ => rfl, fun _ q hq => absurd hq (Nat.not_lt_zero _), ?_⟩
    intro tbs si hm _
    simp only [entered_must, entered_e] at hm ⊢
    obtain ⟨t', k', e', ins, b, m, hmem, hkey⟩ := doneOf_some hm
    obtain ⟨hlt, hpub, _⟩ := hl.rets _ hmem
    rw [hkey] at hpub
    have hin : tbs ∈ s.chain := by
      apply Classical.byContradiction
      intro hnm
      have := (h.offChain tbs hlt hnm).2 si
      rw [hpub.2.2.2.1] at this; cases this
    obtain ⟨ps, hps, hat⟩ := h.chain.pos_of_mem hin
    exact ⟨ps, Nat.zero_le _, hps, hat, hpub⟩
  · left; rfl
  · intro g nw hh; cases hh

/-! ### return -/

theorem inv_ret {s : State} (h : Inv hash s) {t : Nat} {f : Frame} {r : Res} (_hpc : s.pc t = .ret f r) :
    Inv hash (doRet s t f r) := by
  apply h.pcOnly (s' := doRet s t f r) t .idle rfl rfl rfl trivial (Or.inl rfl)
  intro g nw hh; cases hh

/-! ### program counters that own no bucket and no private node -/

def Quiet (pc : Pc) : Prop := ownerOf pc = none ∧ ∀ g nw, pc ≠ .nextCas g nw

theorem quiet_load (f : Frame) : Quiet (.load f) := ⟨rfl, fun _ _ h => by cases h⟩
theorem quiet_cmp (f : Frame) (ms : List Nat) : Quiet (.cmp f ms) := ⟨rfl, fun _ _ h => by cases h⟩
theorem quiet_cas (f : Frame) (i : Nat) : Quiet (.cas f i) := ⟨rfl, fun _ _ h => by cases h⟩
theorem quiet_yield (f : Frame) : Quiet (.yield f) := ⟨rfl, fun _ _ h => by cases h⟩
theorem quiet_nextLd (f : Frame) : Quiet (.nextLd f) := ⟨rfl, fun _ _ h => by cases h⟩
theorem quiet_retNone (f : Frame) : Quiet (.ret f .none) := ⟨rfl, fun _ _ h => by cases h⟩
theorem quiet_retFound (f : Frame) (tb i : Nat) : Quiet (.ret f (.slot tb i false)) := ⟨rfl, fun _ _ h => by cases h⟩

theorem quiet_tableEnd (f : Frame) : Quiet (tableEnd f) := by
  unfold tableEnd
  split
  · exact quiet_nextLd f
  · exact quiet_retNone f

theorem quiet_advance (f : Frame) : Quiet (advance f) := by
  rw [advance_eq]
  split
  · exact quiet_load _
  · exact quiet_tableEnd f

theorem quiet_afterMatch (f : Frame) : Quiet (afterMatch f) := by
  unfold afterMatch
  split
  · split
    · exact quiet_tableEnd f
    · exact quiet_advance f
  · split
    · exact quiet_cas _ _
    · exact quiet_advance f

theorem quiet_afterCmp (f : Frame) (ms : List Nat) : Quiet (afterCmp f ms) := by
  unfold afterCmp
  split
  · exact quiet_afterMatch f
  · exact quiet_cmp _ _

theorem quiet_afterLoad (f : Frame) : Quiet (afterLoad hash f) := by
  unfold afterLoad
  split
  · exact quiet_afterMatch f
  · exact quiet_cmp _ _

theorem Inv.quietStep {s s' : State} (h : Inv hash s) (t : Nat) (p' : Pc)
    (hpc : s'.pc = upd s.pc t p') (hn : s'.nodes = s.nodes) (hc : s'.chain = s.chain)
    (hthr : ThreadOK hash s.nodes s.chain p') (hq : Quiet p') : Inv hash s' :=
  h.pcOnly t p' hpc hn hc hthr (Or.inl hq.1) hq.2

/-! ### every action of a thread -/

theorem casExpected_beq (c : Ctl) : (c == casExpected) = true ↔ c = emptyCtl := by
  rw [beq_iff_eq, casExpected_eq]

theorem Inv.step_act {s s' : State} {t : Nat} {l : Label} (h : Inv hash s)
    (hst : stepThread hash s t = some (s', l)) : Inv hash s' := by
  unfold stepThread at hst
  split at hst
  · cases hst
  · cases hst
  · next f hpc =>
    -- load
    simp only [Option.some.injEq, Prod.mk.injEq] at hst
    obtain ⟨rfl, _⟩ := hst
    have := load_ok h.chain h.nodes (by have := h.thr t; rw [hpc] at this; exact this)
    refine h.quietStep t _ rfl rfl rfl this ?_
    split
    · exact quiet_load _
    · exact quiet_afterLoad _
  · cases hst
  · next f j ms hpc =>
    -- fence + compare
    simp only [Option.some.injEq, Prod.mk.injEq] at hst
    obtain ⟨rfl, _⟩ := hst
    have := cmp_ok h.chain h.nodes h.distinct (by have := h.thr t; rw [hpc] at this; exact this)
    refine h.quietStep t _ rfl rfl rfl this ?_
    split
    · exact quiet_retFound _ _ _
    · exact quiet_afterCmp _ _
  · next f i hpc =>
    -- slot CAS
    dsimp only at hst
    split at hst
    · next hc =>
      simp only [Option.some.injEq, Prod.mk.injEq] at hst
      obtain ⟨rfl, _⟩ := hst
      exact inv_cas_win h hpc ((casExpected_beq _).1 hc)
    · next hc =>
      have hne : (nodeAt s.nodes f.tb).tab.ctl i ≠ emptyCtl := fun e => hc ((casExpected_beq _).2 e)
      have hok := cas_fail_ok h.chain h.nodes (by have := h.thr t; rw [hpc] at this; exact this) hne
      split at hst
      · next hdm =>
        simp only [Option.some.injEq, Prod.mk.injEq] at hst
        obtain ⟨rfl, _⟩ := hst
        have hdm' : ((nodeAt s.nodes f.tb).tab.ctl i == dummyCtl) = true := hdm
        rw [if_pos hdm'] at hok
        exact h.quietStep t _ rfl rfl rfl hok (quiet_tableEnd f)
      · next hdm =>
        have hdm' : ¬ ((nodeAt s.nodes f.tb).tab.ctl i == dummyCtl) = true := hdm
        rw [if_neg hdm'] at hok
        split at hst
        · next hbz =>
          simp only [Option.some.injEq, Prod.mk.injEq] at hst
          obtain ⟨rfl, _⟩ := hst
          have hbz' : ((nodeAt s.nodes f.tb).tab.ctl i == busyCtl) = true := hbz
          rw [if_pos hbz'] at hok
          exact h.quietStep t _ rfl rfl rfl hok (quiet_yield f)
        · next hbz =>
          simp only [Option.some.injEq, Prod.mk.injEq] at hst
          obtain ⟨rfl, _⟩ := hst
          have hbz' : ¬ ((nodeAt s.nodes f.tb).tab.ctl i == busyCtl) = true := hbz
          rw [if_neg hbz'] at hok
          exact h.quietStep t _ rfl rfl rfl hok (quiet_load _)
  · next f hpc =>
    -- yield
    simp only [Option.some.injEq, Prod.mk.injEq] at hst
    obtain ⟨rfl, _⟩ := hst
    have := yield_ok (by have := h.thr t; rw [hpc] at this; exact this)
    exact h.quietStep t _ rfl rfl rfl this (quiet_load _)
  · next f i hpc =>
    simp only [Option.some.injEq, Prod.mk.injEq] at hst
    obtain ⟨rfl, _⟩ := hst
    exact inv_construct h hpc
  · next f i hpc =>
    simp only [Option.some.injEq, Prod.mk.injEq] at hst
    obtain ⟨rfl, _⟩ := hst
    exact inv_st1 h hpc
  · next f i hpc =>
    simp only [Option.some.injEq, Prod.mk.injEq] at hst
    obtain ⟨rfl, _⟩ := hst
    exact inv_st2 h hpc
  · next f i hpc =>
    simp only [Option.some.injEq, Prod.mk.injEq] at hst
    obtain ⟨rfl, _⟩ := hst
    exact inv_sz h hpc
  · next f hpc =>
    -- `next` load
    have hthr : ThreadOK hash s.nodes s.chain (.nextLd f) := by have := h.thr t; rw [hpc] at this; exact this
    obtain ⟨p, hf, hset, hb, hfull, hm⟩ := hthr
    dsimp only at hst
    split at hst
    · next nx hnx =>
      simp only [Option.some.injEq, Prod.mk.injEq] at hst
      obtain ⟨rfl, _⟩ := hst
      have := enter_next_ok h.chain h.nodes hf hset hb hfull hm hnx
      exact h.quietStep t _ rfl rfl rfl this (quiet_load _)
    · next hnx =>
      split at hst
      · next hfind =>
        simp only [Option.some.injEq, Prod.mk.injEq] at hst
        obtain ⟨rfl, _⟩ := hst
        have := find_end_ok h.chain hf hset hfind hb hm hnx
        exact h.quietStep t _ rfl rfl rfl this (quiet_retNone f)
      · next hfind =>
        simp only [Option.some.injEq, Prod.mk.injEq] at hst
        obtain ⟨rfl, _⟩ := hst
        exact inv_alloc h hpc hnx (by simpa using hfind)
  · next f nw hpc =>
    -- growth CAS
    have hthr : ThreadOK hash s.nodes s.chain (.nextCas f nw) := by have := h.thr t; rw [hpc] at this; exact this
    obtain ⟨p, hf, hkind, hb, hfull, hnm, _, _, _⟩ := hthr
    dsimp only at hst
    split at hst
    · next hnx =>
      simp only [Option.some.injEq, Prod.mk.injEq] at hst
      obtain ⟨rfl, _⟩ := hst
      exact inv_link h hpc hnx
    · next nx hnx =>
      simp only [Option.some.injEq, Prod.mk.injEq] at hst
      obtain ⟨rfl, _⟩ := hst
      have hset : f.kind.isSet = true := by rw [hkind]; rfl
      have := enter_next_ok h.chain h.nodes hf hset hb (fun _ => hfull)
        (fun tbs si hmu _ => hnm tbs si hmu (Or.inl hset)) hnx
      exact h.quietStep t _ rfl rfl rfl this (quiet_load _)

theorem Inv.step {s s' : State} (h : Inv hash s) (hl : LogOK hash s) (hs : Step hash s s') :
    Inv hash s' := by
  cases hs with
  | act t _ l hst => exact h.step_act hst
  | call t k e hpc => exact inv_call h hl hpc k e
  | ret t f r hpc => exact inv_ret h hpc

end Babylon.Swiss.Conc
