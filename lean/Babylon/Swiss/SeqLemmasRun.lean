/-
  Helper lemmas for property C18, part 8: operation sequences over two container registers
  (exactly the operations interpreted by `lean/Drivers/C18.lean` and `harness/c18.cpp`), the
  reference semantics (association lists, first insertion wins), and the step-wise refinement.
-/
import Babylon.Swiss.SeqLemmasOps

namespace Babylon.Swiss
open Babylon.Gen.Swiss

/-- the two container registers of the driver / harness -/
inductive Reg | A | B
  deriving DecidableEq, Repr

/-- operations of the line protocol (`bc` — `bucket_count()` — is not part of the property) -/
inductive Op
  | newDefault (r : Reg)                 -- `new r default`
  | newBuckets (r : Reg) (n : Nat)       -- `new r n`
  | emplace (r : Reg) (k v : Nat)        -- `r emplace k v`
  | find (r : Reg) (k : Nat)             -- `r find k`
  | size (r : Reg)                       -- `r size`
  | iter (r : Reg)                       -- `r iter`
  | clear (r : Reg)                      -- `r clear`
  | reserve (r : Reg) (n : Nat)          -- `r reserve n`
  | rehash (r : Reg) (n : Nat)           -- `r rehash n`
  | copy (src dst : Reg)                 -- `copyctor src dst` / `assign src dst`
  | move (src dst : Reg)                 -- `move src dst` (move assignment is `swap` in the code)
  | swap (r1 r2 : Reg)                   -- `swap r1 r2`
  deriving Repr

/-- observable result of one operation -/
inductive Out
  | ok
  | emplaced (inserted : Bool) (stored : Option Nat)   -- `ins <flag> val <mapped value at the returned iterator>`
  | found (v : Option Nat)                             -- `some v` / `none`
  | size (n : Nat)
  | elems (l : List Elem)                              -- iteration, in iteration order
  | stuck                                              -- model only: `emplace` would spin
  deriving Repr, DecidableEq

/-- outputs agree: equal, except that iteration order is unspecified (same multiset) -/
def Out.Equiv : Out → Out → Prop
  | .elems l₁, .elems l₂ => l₁.Perm l₂
  | o₁, o₂ => o₁ = o₂

structure Regs (α : Type) where
  a : α
  b : α

def Regs.get {α : Type} (s : Regs α) : Reg → α
  | .A => s.a
  | .B => s.b

def Regs.set {α : Type} (s : Regs α) : Reg → α → Regs α
  | .A, x => { s with a := x }
  | .B, x => { s with b := x }

theorem Regs.get_set {α : Type} (s : Regs α) (r r' : Reg) (x : α) :
    (s.set r x).get r' = if r' = r then x else s.get r' := by
  cases r <;> cases r' <;> rfl

theorem Regs.set_get_self {α : Type} (s : Regs α) (r : Reg) : s.set r (s.get r) = s := by
  cases r <;> cases s <;> rfl

/-- one step of the model (mirrors `step` of `lean/Drivers/C18.lean`, for an arbitrary hash) -/
def mstep (hash : Nat → Nat) (s : Regs HSet) : Op → Regs HSet × Out
  | .newDefault r => (s.set r HSet.default, .ok)
  | .newBuckets r n => (s.set r (HSet.withBuckets n), .ok)
  | .emplace r k v =>
    let (h', res) := (s.get r).emplace hash (k, v)
    match res with
    | .done ti i ins => (s.set r h', .emplaced ins ((h'.at ti i).map (·.2)))
    | .stuck => (s.set r h', .stuck)
  | .find r k => (s, .found (((s.get r).find hash k).map (·.2)))
  | .size r => (s, .size (s.get r).size)
  | .iter r => (s, .elems (s.get r).iter)
  | .clear r => (s.set r (s.get r).clear, .ok)
  | .reserve r n => (s.set r ((s.get r).reserve hash n), .ok)
  | .rehash r n => (s.set r ((s.get r).rehash hash n), .ok)
  | .copy src dst => (s.set dst ((s.get src).copy hash), .ok)
  | .move src dst => if src = dst then (s, .ok) else ((s.set dst (s.get src)).set src (s.get dst), .ok)
  | .swap r1 r2 => if r1 = r2 then (s, .ok) else ((s.set r2 (s.get r1)).set r1 (s.get r2), .ok)

/-- one step of the reference semantics: each register is an association list holding the
distinct keys inserted since the last clear with their first-inserted values -/
def sstep (s : Regs (List Elem)) : Op → Regs (List Elem) × Out
  | .newDefault r => (s.set r [], .ok)
  | .newBuckets r _ => (s.set r [], .ok)
  | .emplace r k v =>
    let m := s.get r
    (s.set r (specInsert m (k, v)), .emplaced (m.lookup k).isNone (some ((m.lookup k).getD v)))
  | .find r k => (s, .found ((s.get r).lookup k))
  | .size r => (s, .size (s.get r).length)
  | .iter r => (s, .elems (s.get r))
  | .clear r => (s.set r [], .ok)
  | .reserve _ _ => (s, .ok)
  | .rehash _ _ => (s, .ok)
  | .copy src dst => (s.set dst (s.get src), .ok)
  | .move src dst => if src = dst then (s, .ok) else ((s.set dst (s.get src)).set src (s.get dst), .ok)
  | .swap r1 r2 => if r1 = r2 then (s, .ok) else ((s.set r2 (s.get r1)).set r1 (s.get r2), .ok)

/-- run a list of operations, collecting the outputs -/
def runOps {σ : Type} (step : σ → Op → σ × Out) : σ → List Op → σ × List Out
  | s, [] => (s, [])
  | s, op :: ops =>
    let (s', o) := step s op
    let (s'', os) := runOps step s' ops
    (s'', o :: os)

/-- output lists agree position by position -/
inductive OutsEquiv : List Out → List Out → Prop
  | nil : OutsEquiv [] []
  | cons {o o' : Out} {os os' : List Out} : Out.Equiv o o' → OutsEquiv os os' →
      OutsEquiv (o :: os) (o' :: os')

/-- register-wise refinement -/
def RefS (hash : Nat → Nat) (ms : Regs HSet) (ss : Regs (List Elem)) : Prop :=
  ∀ r, Refines hash (ms.get r) (ss.get r)

theorem RefS.set {hash : Nat → Nat} {ms : Regs HSet} {ss : Regs (List Elem)} (h : RefS hash ms ss)
    (r : Reg) {x : HSet} {y : List Elem} (hxy : Refines hash x y) :
    RefS hash (ms.set r x) (ss.set r y) := by
  intro r'
  rw [Regs.get_set, Regs.get_set]
  split
  · exact hxy
  · exact h r'

theorem Refines.trans_perm {hash : Nat → Nat} {s : HSet} {m m' : List Elem}
    (h : Refines hash s m) (hp : m.Perm m') : Refines hash s m' :=
  ⟨h.1, h.2.trans hp⟩

theorem Out.Equiv.rfl' (o : Out) : Out.Equiv o o := by
  cases o <;> simp [Out.Equiv]

/-- every operation preserves the refinement and produces the reference output -/
theorem step_refines {hash : Nat → Nat} {ms : Regs HSet} {ss : Regs (List Elem)}
    (h : RefS hash ms ss) (op : Op) :
    RefS hash (mstep hash ms op).1 (sstep ss op).1 ∧
      Out.Equiv (mstep hash ms op).2 (sstep ss op).2 := by
  cases op with
  | newDefault r => exact ⟨h.set r (default_refines hash), rfl⟩
  | newBuckets r n => exact ⟨h.set r (withBuckets_refines hash n), rfl⟩
  | emplace r k v =>
    obtain ⟨href, ti, i, hres, hat⟩ := (h r).emplace (k, v)
    simp only [mstep, sstep]
    cases hem : (ms.get r).emplace hash (k, v) with
    | mk h' res =>
      rw [hem] at href hres hat
      simp only at href hres hat
      subst hres
      simp only
      refine ⟨h.set r href, ?_⟩
      rw [hat]
      rfl
  | find r k =>
    refine ⟨h, ?_⟩
    simp only [mstep, sstep]
    rw [(h r).1.find_eq k, lookup_perm (h r).2 (h r).1.nodup k]
    cases (ss.get r).lookup k <;> rfl
  | size r =>
    refine ⟨h, ?_⟩
    simp only [mstep, sstep]
    rw [(h r).1.size_eq, (h r).2.length_eq]
    rfl
  | iter r =>
    refine ⟨h, ?_⟩
    simp only [mstep, sstep]
    rw [HSet.iter_eq]
    exact (h r).2
  | clear r => exact ⟨h.set r (h r).1.clear, rfl⟩
  | reserve r n =>
    have := h.set r (((h r).1.reserve n).trans_perm (h r).2)
    rw [Regs.set_get_self] at this
    exact ⟨this, rfl⟩
  | rehash r n =>
    have := h.set r (((h r).1.rehash n).trans_perm (h r).2)
    rw [Regs.set_get_self] at this
    exact ⟨this, rfl⟩
  | copy src dst =>
    exact ⟨h.set dst (((h src).1.copy).trans_perm (h src).2), rfl⟩
  | move src dst =>
    simp only [mstep, sstep]
    split
    · exact ⟨h, rfl⟩
    · exact ⟨(h.set dst (h src)).set src (h dst), rfl⟩
  | swap r1 r2 =>
    simp only [mstep, sstep]
    split
    · exact ⟨h, rfl⟩
    · exact ⟨(h.set r2 (h r1)).set r1 (h r2), rfl⟩

theorem run_refines {hash : Nat → Nat} : ∀ (ops : List Op) {ms : Regs HSet}
    {ss : Regs (List Elem)}, RefS hash ms ss →
    RefS hash (runOps (mstep hash) ms ops).1 (runOps sstep ss ops).1 ∧
      OutsEquiv (runOps (mstep hash) ms ops).2 (runOps sstep ss ops).2 := by
  intro ops
  induction ops with
  | nil => intro ms ss h; exact ⟨h, OutsEquiv.nil⟩
  | cons op ops ih =>
    intro ms ss h
    obtain ⟨h1, h2⟩ := step_refines h op
    obtain ⟨g1, g2⟩ := ih h1
    simp only [runOps]
    exact ⟨g1, OutsEquiv.cons h2 g2⟩

end Babylon.Swiss
