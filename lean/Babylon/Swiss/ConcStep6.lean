/-
  Property C03, proofs part 9: `Inv` is preserved by the five steps of a winning insert
  (slot CAS, construct, main store, mirror store, size add), stated on the exact successor states
  that `stepThread` builds.
-/
import Babylon.Swiss.ConcStep5

namespace Babylon.Swiss.Conc
open Babylon.Core Babylon.Gen.Swiss Babylon.Gen.SwissConc Babylon.Swiss

variable {hash : Nat → Nat}

def Frame.setBuilt (f : Frame) : Frame := { f with built := true }

theorem bump_le (nd : Node) : NodeLe nd nd.bump :=
  ⟨rfl, rfl, fun _ _ => rfl, fun _ _ h => h, fun _ _ h => h, fun _ hn hne => absurd hn hne, fun _ h => h⟩

theorem FrameOK.mem {ns : List Node} {ch : List Nat} {f : Frame} {p : Nat} (hf : FrameOK hash ns ch f p) :
    f.tb ∈ ch := by rw [← hf.atPos]; exact getD_mem hf.pos

/-! ### the winning slot CAS -/

theorem inv_cas_win {s : State} (h : Inv hash s) {t : Nat} {f : Frame} {i : Nat}
    (hpc : s.pc t = .cas f i) (he : (nodeAt s.nodes f.tb).tab.ctl i = emptyCtl) :
    Inv hash (setPc (s.setNode f.tb (((nodeAt s.nodes f.tb).setCtl i busyCtl).setClaim i f.e.1)) t
      (.construct f i)) := by
  have hthr := h.thr t
  rw [hpc] at hthr
  obtain ⟨p, hf, hp, hw, hk, _, j0, hj0, hi, hcmp⟩ := hthr
  have hok := h.nodes _ hf.lt
  -- the table is real: the placeholder has no EMPTY byte
  have hd : (nodeAt s.nodes f.tb).tab.dummy = false := by
    cases hd : (nodeAt s.nodes f.tb).tab.dummy with
    | false => rfl
    | true =>
      exfalso
      have hpl := hok.placeholder_of_dummy hd
      have hlt : i < 32 := by
        rw [hi, hf.nEq, hpl]
        have : (f.base + j0) % Table.placeholder.n < 16 := Nat.mod_lt _ (by decide)
        omega
      rw [hpl, placeholder_ctl_lt hlt] at he
      exact absurd he (by decide)
  have hr := hok.real hd
  have hilt : i < (nodeAt s.nodes f.tb).tab.n := by rw [hi, hf.nEq]; exact Nat.mod_lt _ hr.npos
  have hnone := no_claim_at_cas h hf hp hw hk hd hj0 hi (hcmp hd) he
  have hreach := reach_at_cas hok hf hp hw hd hj0 hi
  have hle := casWin_le (key := f.e.1) hok hd hilt he
  have hok' := hok.casWin hd hilt he hreach
  have hil : i < (nodeAt s.nodes f.tb).tab.ctrl.length := by rw [hr.ctrlLen]; omega
  have hcll : i < ((nodeAt s.nodes f.tb).setCtl i busyCtl).claim.length := by
    rw [setCtl_claim, hr.claimLen]; exact hilt
  have hle' : NodesLe s.nodes (s.nodes.set f.tb (((nodeAt s.nodes f.tb).setCtl i busyCtl).setClaim i f.e.1)) :=
    NodesLe.set hf.lt hle
  -- claims of the new node list
  have hcl : ∀ tb' x k, tb' < s.nodes.length →
      claimAt (nodeAt (s.nodes.set f.tb (((nodeAt s.nodes f.tb).setCtl i busyCtl).setClaim i f.e.1)) tb') x = some k →
      (tb' = f.tb ∧ x = i ∧ k = f.e.1) ∨ claimAt (nodeAt s.nodes tb') x = some k := by
    intro tb' x k _ hc
    rw [nodeAt_set _ _ _ _ hf.lt] at hc
    split at hc
    · next e =>
      subst e
      rw [setClaim_claimAt _ _ _ hcll] at hc
      split at hc
      · next e2 => cases hc; exact Or.inl ⟨rfl, e2, rfl⟩
      · exact Or.inr hc
    · exact Or.inr hc
  apply h.setNode t f.tb i (.construct f i) _ hf.lt hf.mem hilt hle hok' rfl
  · intro x hx _
    show ((nodeAt s.nodes f.tb).setCtl i busyCtl).tab.ctl x = _
    rw [setCtl_ctl _ _ _ hil, if_neg hx]
  · intro y _; rfl
  · intro t' _ ho
    exact ((h.thr t').owner_facts ho).2.2.2 he
  · intro tb1 i1 tb2 i2 k h1 h2 c1 c2
    rcases hcl tb1 i1 k h1 c1 with ⟨e1, e2, e3⟩ | o1
    · rcases hcl tb2 i2 k h2 c2 with ⟨e4, e5, _⟩ | o2
      · exact ⟨e1.trans e4.symm, e2.trans e5.symm⟩
      · subst e3; exact absurd o2 (hnone tb2 i2 h2)
    · rcases hcl tb2 i2 k h2 c2 with ⟨_, _, e6⟩ | o2
      · subst e6; exact absurd o1 (hnone tb1 i1 h1)
      · exact h.distinct tb1 i1 tb2 i2 k h1 h2 o1 o2
  · intro p' q x k hpq hq hc
    have hp'l : s.chain.getD p' 0 < s.nodes.length := h.chain.lt _ (getD_mem (by omega))
    have hql : s.chain.getD q 0 < s.nodes.length := h.chain.lt _ (getD_mem hq)
    rcases hcl _ x k hql hc with ⟨e1, _, e3⟩ | o
    · -- the new claim: the inserter has left every earlier table saturated
      have : q = p := h.chain.getD_inj hq hf.pos (by rw [e1, hf.atPos])
      subst this
      exact (hle'.2 _ hp'l).sat (hf.earlier hk p' hpq).1
    · exact (hle'.2 _ hp'l).sat (h.later p' q x k hpq hq o)
  · refine ⟨p, hf.mono h.chain.lt hle' (List.prefix_refl _), ?_, hp.notBuilt, ?_, ?_⟩
    · refine ⟨hk, ?_, by rw [hi]; exact Nat.mod_lt _ (by rw [hf.nEq]; exact hr.npos), ?_, ?_⟩
      · rw [nodeAt_set_same _ _ _ hf.lt]; exact hd
      · rw [nodeAt_set_same _ _ _ hf.lt, setClaim_claimAt _ _ _ hcll, if_pos rfl]
      · intro tbs si hm hu
        obtain ⟨ps, _, hps, hat, hpub⟩ := hf.must tbs si hm hu
        have hlt' : tbs < s.nodes.length := by rw [← hat]; exact h.chain.lt _ (getD_mem hps)
        exact hnone tbs si hlt' hpub.2.2.2.1
    · rw [nodeAt_set_same _ _ _ hf.lt]
      show ((nodeAt s.nodes f.tb).setCtl i busyCtl).tab.ctl i = busyCtl
      rw [setCtl_ctl _ _ _ hil, if_pos rfl]
    · rw [nodeAt_set_same _ _ _ hf.lt]
      exact (hok.slot_empty hd hilt he).1
  · rfl
  · intro g nw hh; cases hh

/-! ### construct -/

theorem inv_construct {s : State} (h : Inv hash s) {t : Nat} {f : Frame} {i : Nat}
    (hpc : s.pc t = .construct f i) :
    Inv hash (setPc (s.setNode f.tb ((nodeAt s.nodes f.tb).build i f.e)) t (.st1 f.setBuilt i)) := by
  have hthr := h.thr t
  rw [hpc] at hthr
  obtain ⟨p, hf, hown, _, hc, hv⟩ := hthr
  have hok := h.nodes _ hf.lt
  have hd := hown.real
  have hr := hok.real hd
  have hilt : i < (nodeAt s.nodes f.tb).tab.n := by rw [← hf.nEq]; exact hown.lt
  have hle := build_le hok hd f.e hilt hv
  have hle' : NodesLe s.nodes (s.nodes.set f.tb ((nodeAt s.nodes f.tb).build i f.e)) := NodesLe.set hf.lt hle
  have hval : ∀ y, ((nodeAt s.nodes f.tb).build i f.e).tab.val y = if y = i then some f.e else (nodeAt s.nodes f.tb).tab.val y :=
    fun y => build_val _ _ _ (by rw [hr.valsLen]; exact hilt) y
  apply h.slotStep t f.tb i _ _ (by rw [hpc]; rfl) hf.lt hf.mem hilt hle
    (hok.build hd f.e hilt hc hown.claim) rfl (fun _ => rfl) (fun _ _ _ => rfl)
  · intro y hy; rw [hval, if_neg hy]
  · refine ⟨p, (hf.mono h.chain.lt hle' (List.prefix_refl _)).congr rfl rfl rfl rfl rfl, ?_, rfl, ?_, ?_⟩
    · exact ⟨hown.notFind, by rw [show f.setBuilt.tb = f.tb from rfl, nodeAt_set_same _ _ _ hf.lt]; exact hd,
        hown.lt, by rw [show f.setBuilt.tb = f.tb from rfl, nodeAt_set_same _ _ _ hf.lt]; exact hown.claim,
        hown.noMust⟩
    · rw [show f.setBuilt.tb = f.tb from rfl, nodeAt_set_same _ _ _ hf.lt]; exact hc
    · rw [show f.setBuilt.tb = f.tb from rfl, nodeAt_set_same _ _ _ hf.lt, hval, if_pos rfl]; rfl
  · rfl
  · intro g nw hh; cases hh

/-! ### the release store of the tag into the main byte -/

theorem inv_st1 {s : State} (h : Inv hash s) {t : Nat} {f : Frame} {i : Nat}
    (hpc : s.pc t = .st1 f i) :
    Inv hash (setPc (s.setNode f.tb ((nodeAt s.nodes f.tb).setCtl i (tagOf (hash f.e.1)))) t (.st2 f i)) := by
  have hthr := h.thr t
  rw [hpc] at hthr
  obtain ⟨p, hf, hown, hb, hc, hv⟩ := hthr
  have hok := h.nodes _ hf.lt
  have hd := hown.real
  have hr := hok.real hd
  have hilt : i < (nodeAt s.nodes f.tb).tab.n := by rw [← hf.nEq]; exact hown.lt
  have hle := st1_le hok hd (tagOf (hash f.e.1)) hilt hc
  have hle' : NodesLe s.nodes (s.nodes.set f.tb ((nodeAt s.nodes f.tb).setCtl i (tagOf (hash f.e.1)))) :=
    NodesLe.set hf.lt hle
  have hctl : ∀ y, ((nodeAt s.nodes f.tb).setCtl i (tagOf (hash f.e.1))).tab.ctl y =
      if y = i then tagOf (hash f.e.1) else (nodeAt s.nodes f.tb).tab.ctl y :=
    fun y => setCtl_ctl _ _ _ (by rw [hr.ctrlLen]; omega) y
  apply h.slotStep t f.tb i _ _ (by rw [hpc]; rfl) hf.lt hf.mem hilt hle
    (hok.st1 hd hilt hc hv hown.claim) rfl (fun _ => rfl)
  · intro x hx _; rw [hctl, if_neg hx]
  · intro y _; rfl
  · refine ⟨p, hf.mono h.chain.lt hle' (List.prefix_refl _), hown.mono hf.lt hle', hb, ?_, ?_, ?_⟩
    · rw [nodeAt_set_same _ _ _ hf.lt, hctl, if_pos rfl]
    · rw [nodeAt_set_same _ _ _ hf.lt]; exact hv
    · intro h15
      have hn0 : 0 < f.n := by rw [hf.nEq]; exact hr.npos
      rw [nodeAt_set_same _ _ _ hf.lt, hctl, if_neg (by omega), hf.nEq]
      exact hok.mirror_empty hd h15 (by rw [hc]; decide)
  · rfl
  · intro g nw hh; cases hh

/-! ### the release store of the tag into the mirrored byte -/

theorem inv_st2 {s : State} (h : Inv hash s) {t : Nat} {f : Frame} {i : Nat}
    (hpc : s.pc t = .st2 f i) :
    Inv hash (setPc (s.setNode f.tb ((nodeAt s.nodes f.tb).setCtl ((nodeAt s.nodes f.tb).tab.clonedIndex i)
      (tagOf (hash f.e.1)))) t (.sz f i)) := by
  have hthr := h.thr t
  rw [hpc] at hthr
  obtain ⟨p, hf, hown, hb, hc, hv, hm⟩ := hthr
  have hok := h.nodes _ hf.lt
  have hd := hown.real
  have hr := hok.real hd
  have hilt : i < (nodeAt s.nodes f.tb).tab.n := by rw [← hf.nEq]; exact hown.lt
  have hm' : i < 15 → (nodeAt s.nodes f.tb).tab.ctl ((nodeAt s.nodes f.tb).tab.n + i) = emptyCtl := by
    intro h15; rw [← hf.nEq]; exact hm h15
  have hle := st2_le hok hd hilt hc hm'
  have hok' := hok.st2 hd hilt (tagOf_nonneg _) hc hm'
  have hle' : NodesLe s.nodes (s.nodes.set f.tb ((nodeAt s.nodes f.tb).setCtl
      ((nodeAt s.nodes f.tb).tab.clonedIndex i) (tagOf (hash f.e.1)))) := NodesLe.set hf.lt hle
  have hci := clonedIndex_eq hr.ge16 hilt
  have hctl : ∀ y, ((nodeAt s.nodes f.tb).setCtl ((nodeAt s.nodes f.tb).tab.clonedIndex i) (tagOf (hash f.e.1))).tab.ctl y =
      if y = (nodeAt s.nodes f.tb).tab.clonedIndex i then tagOf (hash f.e.1) else (nodeAt s.nodes f.tb).tab.ctl y :=
    fun y => setCtl_ctl _ _ _ (by rw [hr.ctrlLen, hci]; split <;> omega) y
  apply h.slotStep t f.tb i _ _ (by rw [hpc]; rfl) hf.lt hf.mem hilt hle hok' rfl (fun _ => rfl)
  · intro x hx hx'
    rw [hctl, if_neg]
    rw [hci]; split <;> omega
  · intro y _; rfl
  · refine ⟨p, hf.mono h.chain.lt hle' (List.prefix_refl _), hown.mono hf.lt hle', hb, ?_, ?_⟩
    · rw [nodeAt_set_same _ _ _ hf.lt]
      apply pub_after_st2 hok' hd hilt _ hv hown.claim
      · intro h15
        show ((nodeAt s.nodes f.tb).setCtl _ _).tab.ctl ((nodeAt s.nodes f.tb).tab.n + i) = _
        rw [hctl, if_pos (by rw [hci, if_pos h15]; omega)]
      · rw [hctl]
        split
        · rfl
        · exact hc
    · rw [nodeAt_set_same _ _ _ hf.lt]; exact hv
  · rfl
  · intro g nw hh; cases hh

/-! ### the size add; the insert returns `true` -/

theorem inv_sz {s : State} (h : Inv hash s) {t : Nat} {f : Frame} {i : Nat}
    (hpc : s.pc t = .sz f i) :
    Inv hash (setPc (s.setNode f.tb (nodeAt s.nodes f.tb).bump) t (.ret f (.slot f.tb i true))) := by
  have hthr := h.thr t
  rw [hpc] at hthr
  obtain ⟨p, hf, hown, hb, hpub, _⟩ := hthr
  have hok := h.nodes _ hf.lt
  have hd := hown.real
  have hilt : i < (nodeAt s.nodes f.tb).tab.n := by rw [← hf.nEq]; exact hown.lt
  apply h.slotStep t f.tb i _ _ (by rw [hpc]; rfl) hf.lt hf.mem hilt (bump_le _) (hok.bump hd) rfl
    (fun _ => rfl) (fun _ _ _ => rfl) (fun _ _ => rfl)
  · refine ⟨rfl, by rw [List.length_set]; exact hf.lt, ?_, hb.symm, ?_, ?_⟩
    · rw [nodeAt_set_same _ _ _ hf.lt]; exact (bump_le _).pub hpub
    · intro hk; rw [hown.notFind] at hk; cases hk
    · intro tbs si hm hu; exact absurd hu (hown.noMust tbs si hm)
  · rfl
  · intro g nw hh; cases hh

end Babylon.Swiss.Conc
