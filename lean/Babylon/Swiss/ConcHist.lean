/-
  Property C03, proofs part 15: the ghost `must` of a call is what the history says.  Every step of a
  thread keeps the call's `kind`, argument and `must`; every `ret` event of the history has a matching
  `call` event of the same thread before it, with no event of that thread in between, and its
  `must` is `doneOf` of the history before that call.  This turns `swiss_find_after_insert` into a
  statement about the history alone.
-/
import Babylon.Swiss.ConcThm

namespace Babylon.Swiss.Conc
open Babylon.Core Babylon.Gen.Swiss Babylon.Gen.SwissConc Babylon.Swiss

variable {hash : Nat → Nat}

def frameOf : Pc → Option Frame
  | .idle => none
  | .load f | .cmp f _ | .cas f _ | .yield f | .construct f _ | .st1 f _ | .st2 f _ | .sz f _
  | .nextLd f | .nextCas f _ | .ret f _ => some f

def evTid : Event → Nat
  | .call t _ _ => t
  | .ret t _ _ _ _ _ => t

/-- same call: kind, argument and `must` agree -/
def Rel (f g : Frame) : Prop := g.kind = f.kind ∧ g.e = f.e ∧ g.must = f.must

theorem Rel.refl (f : Frame) : Rel f f := ⟨rfl, rfl, rfl⟩

/-- every frame of `p` belongs to the call of `f` -/
def FrameRel (f : Frame) (p : Pc) : Prop := ∀ g, frameOf p = some g → Rel f g

theorem frel_of {f g : Frame} {p : Pc} (hp : frameOf p = some g) (h : Rel f g) : FrameRel f p := by
  intro g' hg'; rw [hp] at hg'; cases hg'; exact h

theorem frel_tableEnd (f : Frame) : FrameRel f (tableEnd f) := by
  unfold tableEnd; split <;> exact frel_of rfl (Rel.refl f)

theorem frel_advance (f : Frame) : FrameRel f (advance f) := by
  rw [advance_eq]; split
  · exact frel_of rfl ⟨rfl, rfl, rfl⟩
  · exact frel_tableEnd f

theorem frel_afterMatch (f : Frame) : FrameRel f (afterMatch f) := by
  unfold afterMatch
  split
  · split
    · exact frel_tableEnd f
    · exact frel_advance f
  · split
    · exact frel_of rfl (Rel.refl f)
    · exact frel_advance f

theorem frel_afterCmp (f : Frame) (ms : List Nat) : FrameRel f (afterCmp f ms) := by
  unfold afterCmp; split
  · exact frel_afterMatch f
  · exact frel_of rfl (Rel.refl f)

theorem frel_afterLoad (f : Frame) : FrameRel f (afterLoad hash f) := by
  unfold afterLoad; split
  · exact frel_afterMatch f
  · exact frel_of rfl (Rel.refl f)

theorem FrameRel.trans {f g : Frame} {p : Pc} (h : Rel f g) (hp : FrameRel g p) : FrameRel f p := by
  intro g' hg'
  obtain ⟨h1, h2, h3⟩ := hp g' hg'
  exact ⟨h1.trans h.1, h2.trans h.2.1, h3.trans h.2.2⟩

/-- one action keeps the acting thread inside the same call, leaves the other threads and the
history alone -/
theorem step_frame {s s' : State} {t : Nat} {l : Label} (hst : stepThread hash s t = some (s', l)) :
    s'.log = s.log ∧ (∀ t', t' ≠ t → s'.pc t' = s.pc t') ∧
    ∃ f, frameOf (s.pc t) = some f ∧ FrameRel f (s'.pc t) := by
  have hset : ∀ (s0 : State) (p : Pc), (setPc s0 t p).pc t = p := fun s0 p => upd_same _ _ _
  have hoth : ∀ (s0 : State) (p : Pc) t', t' ≠ t → (setPc s0 t p).pc t' = s0.pc t' :=
    fun s0 p t' ht' => upd_other _ _ ht'
  unfold stepThread at hst
  split at hst
  · cases hst
  · cases hst
  · next f hpc =>
    simp only [Option.some.injEq, Prod.mk.injEq] at hst
    obtain ⟨rfl, _⟩ := hst
    refine ⟨rfl, hoth _ _, f, by rw [hpc]; rfl, ?_⟩
    rw [hset]
    split
    · exact frel_of rfl ⟨rfl, rfl, rfl⟩
    · exact FrameRel.trans ⟨rfl, rfl, rfl⟩ (frel_afterLoad _)
  · cases hst
  · next f j ms hpc =>
    simp only [Option.some.injEq, Prod.mk.injEq] at hst
    obtain ⟨rfl, _⟩ := hst
    refine ⟨rfl, hoth _ _, f, by rw [hpc]; rfl, ?_⟩
    rw [hset]
    split
    · exact frel_of rfl (Rel.refl f)
    · exact frel_afterCmp f ms
  · next f i hpc =>
    dsimp only at hst
    split at hst
    · simp only [Option.some.injEq, Prod.mk.injEq] at hst
      obtain ⟨rfl, _⟩ := hst
      exact ⟨rfl, hoth _ _, f, by rw [hpc]; rfl, by rw [hset]; exact frel_of rfl (Rel.refl f)⟩
    · split at hst
      · simp only [Option.some.injEq, Prod.mk.injEq] at hst
        obtain ⟨rfl, _⟩ := hst
        exact ⟨rfl, hoth _ _, f, by rw [hpc]; rfl, by rw [hset]; exact frel_tableEnd f⟩
      · split at hst
        · simp only [Option.some.injEq, Prod.mk.injEq] at hst
          obtain ⟨rfl, _⟩ := hst
          exact ⟨rfl, hoth _ _, f, by rw [hpc]; rfl, by rw [hset]; exact frel_of rfl (Rel.refl f)⟩
        · simp only [Option.some.injEq, Prod.mk.injEq] at hst
          obtain ⟨rfl, _⟩ := hst
          exact ⟨rfl, hoth _ _, f, by rw [hpc]; rfl, by rw [hset]; exact frel_of rfl ⟨rfl, rfl, rfl⟩⟩
  · next f hpc =>
    simp only [Option.some.injEq, Prod.mk.injEq] at hst
    obtain ⟨rfl, _⟩ := hst
    exact ⟨rfl, hoth _ _, f, by rw [hpc]; rfl, by rw [hset]; exact frel_of rfl ⟨rfl, rfl, rfl⟩⟩
  · next f i hpc =>
    simp only [Option.some.injEq, Prod.mk.injEq] at hst
    obtain ⟨rfl, _⟩ := hst
    exact ⟨rfl, hoth _ _, f, by rw [hpc]; rfl, by rw [hset]; exact frel_of rfl ⟨rfl, rfl, rfl⟩⟩
  · next f i hpc =>
    simp only [Option.some.injEq, Prod.mk.injEq] at hst
    obtain ⟨rfl, _⟩ := hst
    exact ⟨rfl, hoth _ _, f, by rw [hpc]; rfl, by rw [hset]; exact frel_of rfl (Rel.refl f)⟩
  · next f i hpc =>
    simp only [Option.some.injEq, Prod.mk.injEq] at hst
    obtain ⟨rfl, _⟩ := hst
    exact ⟨rfl, hoth _ _, f, by rw [hpc]; rfl, by rw [hset]; exact frel_of rfl (Rel.refl f)⟩
  · next f i hpc =>
    simp only [Option.some.injEq, Prod.mk.injEq] at hst
    obtain ⟨rfl, _⟩ := hst
    exact ⟨rfl, hoth _ _, f, by rw [hpc]; rfl, by rw [hset]; exact frel_of rfl (Rel.refl f)⟩
  · next f hpc =>
    dsimp only at hst
    split at hst
    · simp only [Option.some.injEq, Prod.mk.injEq] at hst
      obtain ⟨rfl, _⟩ := hst
      exact ⟨rfl, hoth _ _, f, by rw [hpc]; rfl, by rw [hset]; exact frel_of rfl ⟨rfl, rfl, rfl⟩⟩
    · split at hst
      · simp only [Option.some.injEq, Prod.mk.injEq] at hst
        obtain ⟨rfl, _⟩ := hst
        exact ⟨rfl, hoth _ _, f, by rw [hpc]; rfl, by rw [hset]; exact frel_of rfl (Rel.refl f)⟩
      · simp only [Option.some.injEq, Prod.mk.injEq] at hst
        obtain ⟨rfl, _⟩ := hst
        exact ⟨rfl, hoth _ _, f, by rw [hpc]; rfl, by rw [hset]; exact frel_of rfl (Rel.refl f)⟩
  · next f nw hpc =>
    dsimp only at hst
    split at hst
    · simp only [Option.some.injEq, Prod.mk.injEq] at hst
      obtain ⟨rfl, _⟩ := hst
      exact ⟨rfl, hoth _ _, f, by rw [hpc]; rfl, by rw [hset]; exact frel_of rfl ⟨rfl, rfl, rfl⟩⟩
    · simp only [Option.some.injEq, Prod.mk.injEq] at hst
      obtain ⟨rfl, _⟩ := hst
      exact ⟨rfl, hoth _ _, f, by rw [hpc]; rfl, by rw [hset]; exact frel_of rfl ⟨rfl, rfl, rfl⟩⟩

/-! ### the history invariant -/

/-- the call a running thread is in: its `call` event is the last event of the thread in the
history, and `must` is `doneOf` of the history before it -/
def CallAt (log : List Event) (t : Nat) (k : Kind) (e : Elem) (must : Option (Nat × Nat)) (q : Nat) : Prop :=
  ∃ p, p < q ∧ q ≤ log.length ∧ log[p]? = some (.call t k e) ∧
    (∀ x, p < x → x < q → ∀ ev, log[x]? = some ev → evTid ev ≠ t) ∧ must = doneOf (log.take p) e.1

structure Hist (s : State) : Prop where
  running : ∀ t f, frameOf (s.pc t) = some f → CallAt s.log t f.kind f.e f.must s.log.length
  returned : ∀ q t k e r b m, s.log[q]? = some (.ret t k e r b m) → CallAt s.log t k e m q

theorem CallAt.append {log : List Event} {t : Nat} {k : Kind} {e : Elem} {m : Option (Nat × Nat)} {q : Nat}
    (h : CallAt log t k e m q) (ev : Event) : CallAt (log ++ [ev]) t k e m q := by
  obtain ⟨p, h1, h2, h3, h4, h5⟩ := h
  refine ⟨p, h1, by simp; omega, ?_, ?_, ?_⟩
  · rw [List.getElem?_append_left (by omega)]; exact h3
  · intro x hx1 hx2 ev' hev'
    rw [List.getElem?_append_left (by omega)] at hev'
    exact h4 x hx1 hx2 ev' hev'
  · rw [List.take_append_of_le_length (by omega)]; exact h5

theorem CallAt.extend {log : List Event} {t : Nat} {k : Kind} {e : Elem} {m : Option (Nat × Nat)}
    (h : CallAt log t k e m log.length) (ev : Event) (hev : evTid ev ≠ t) :
    CallAt (log ++ [ev]) t k e m (log ++ [ev]).length := by
  obtain ⟨p, h1, h2, h3, h4, h5⟩ := h
  refine ⟨p, by simp; omega, Nat.le_refl _, ?_, ?_, ?_⟩
  · rw [List.getElem?_append_left (by omega)]; exact h3
  · intro x hx1 hx2 ev' hev'
    have hx2' : x < log.length + 1 := by simpa using hx2
    rcases Nat.lt_or_ge x log.length with hl | hl
    · rw [List.getElem?_append_left hl] at hev'
      exact h4 x hx1 hl ev' hev'
    · have : x = log.length := by omega
      subst this
      rw [List.getElem?_append_right (Nat.le_refl _)] at hev'
      simp at hev'; subst hev'; exact hev
  · rw [List.take_append_of_le_length (by omega)]; exact h5

theorem hist_init {s : State} (h : Init s) : Hist s := by
  rcases h with ⟨m, rfl⟩ | rfl <;>
  exact ⟨fun t f hf => by simp [State.init, frameOf] at hf, fun q t k e r b m hq => by simp [State.init] at hq⟩

theorem Hist.step {s s' : State} (h : Hist s) (hst : Step hash s s') : Hist s' := by
  cases hst with
  | act t _ l hs =>
    obtain ⟨hlog, hoth, f, hf, hrel⟩ := step_frame hs
    refine ⟨?_, ?_⟩
    · intro t' g hg
      rw [hlog]
      by_cases ht : t' = t
      · subst ht
        obtain ⟨h1, h2, h3⟩ := hrel g hg
        rw [h1, h2, h3]; exact h.running t' f hf
      · rw [hoth t' ht] at hg; exact h.running t' g hg
    · intro q t' k e r b m hq
      rw [hlog] at hq ⊢; exact h.returned q t' k e r b m hq
  | call t k e hpc =>
    refine ⟨?_, ?_⟩
    · intro t' g hg
      show CallAt (s.log ++ [Event.call t k e]) t' g.kind g.e g.must (s.log ++ [Event.call t k e]).length
      by_cases ht : t' = t
      · subst ht
        have e1 : (doCall hash s t' k e).pc t' = enter hash s _ 0 := upd_same _ _ _
        rw [e1] at hg
        simp only [enter, frameOf, Option.some.injEq] at hg
        subst hg
        refine ⟨s.log.length, by simp, Nat.le_refl _, ?_, ?_, ?_⟩
        · rw [List.getElem?_append_right (Nat.le_refl _)]; simp
        · intro x hx1 hx2; simp at hx2; omega
        · show doneOf s.log e.1 = _
          rw [List.take_append_of_le_length (Nat.le_refl _), List.take_length]
      · have e1 : (doCall hash s t k e).pc t' = s.pc t' := upd_other _ _ ht
        rw [e1] at hg
        exact (h.running t' g hg).extend _ (fun e2 => ht e2.symm)
    · intro q t' k' e' r b m hq
      change (s.log ++ [Event.call t k e])[q]? = _ at hq
      rcases Nat.lt_or_ge q s.log.length with hl | hl
      · rw [List.getElem?_append_left hl] at hq
        exact (h.returned q t' k' e' r b m hq).append _
      · rcases Nat.lt_or_ge s.log.length q with hl2 | hl2
        · rw [List.getElem?_eq_none (by simp; omega)] at hq; cases hq
        · have : q = s.log.length := by omega
          subst this
          rw [List.getElem?_append_right (Nat.le_refl _)] at hq
          simp at hq
  | ret t f r hpc =>
    have hrun := h.running t f (by rw [hpc]; rfl)
    refine ⟨?_, ?_⟩
    · intro t' g hg
      show CallAt (s.log ++ [Event.ret t f.kind f.e r f.built f.must]) t' g.kind g.e g.must
        (s.log ++ [Event.ret t f.kind f.e r f.built f.must]).length
      by_cases ht : t' = t
      · subst ht
        have e1 : (doRet s t' f r).pc t' = Pc.idle := upd_same _ _ _
        rw [e1] at hg; simp [frameOf] at hg
      · have e1 : (doRet s t f r).pc t' = s.pc t' := upd_other _ _ ht
        rw [e1] at hg
        exact (h.running t' g hg).extend _ (fun e2 => ht e2.symm)
    · intro q t' k' e' r' b m hq
      change (s.log ++ [Event.ret t f.kind f.e r f.built f.must])[q]? = _ at hq
      rcases Nat.lt_or_ge q s.log.length with hl | hl
      · rw [List.getElem?_append_left hl] at hq
        exact (h.returned q t' k' e' r' b m hq).append _
      · rcases Nat.lt_or_ge s.log.length q with hl2 | hl2
        · rw [List.getElem?_eq_none (by simp; omega)] at hq; cases hq
        · have : q = s.log.length := by omega
          subst this
          rw [List.getElem?_append_right (Nat.le_refl _)] at hq
          simp only [Nat.sub_self, List.getElem?_cons_zero, Option.some.injEq, Event.ret.injEq] at hq
          obtain ⟨rfl, rfl, rfl, rfl, rfl, rfl⟩ := hq
          exact hrun.append _

theorem reachable_hist {s : State} (h : Reach hash s) : Hist s := by
  induction h with
  | base hi => exact hist_init hi
  | tail _ hst ih => exact ih.step hst

/-! ### `doneOf` finds a returned bucket when there is one -/

theorem doneOf_isSome {log : List Event} {key : Nat} {t : Nat} {k : Kind} {e : Elem} {tb i : Nat} {ins b : Bool}
    {m : Option (Nat × Nat)} (hmem : Event.ret t k e (.slot tb i ins) b m ∈ log) (hk : e.1 = key) :
    ∃ tb' i', doneOf log key = some (tb', i') := by
  cases hd : doneOf log key with
  | some o => exact ⟨o.1, o.2, rfl⟩
  | none =>
    exfalso
    unfold doneOf at hd
    rw [List.findSome?_eq_none_iff] at hd
    have := hd _ hmem
    simp [hk] at this

end Babylon.Swiss.Conc
