/-
  Property C03, proofs part 6: the steps that change only the stepping thread's program counter —
  byte load, fence + key comparison, failed slot CAS, yield, `next` load that finds a node (or gives
  up, for `find`), lost growth CAS.  Each lemma: `ThreadOK` of the successor pc.
-/
import Babylon.Swiss.ConcStep2

namespace Babylon.Swiss.Conc
open Babylon.Core Babylon.Gen.Swiss Babylon.Gen.SwissConc Babylon.Swiss

variable {hash : Nat → Nat}

theorem groupLoads_eq : groupLoads = 16 := rfl

theorem getD_append_lt {α : Type} (l1 l2 : List α) (d : α) {j : Nat} (h : j < l1.length) :
    (l1 ++ l2).getD j d = l1.getD j d := by
  rw [List.getD_eq_getElem?_getD, List.getD_eq_getElem?_getD, List.getElem?_append_left h]

theorem getD_append_len {α : Type} (l1 : List α) (c d : α) : (l1 ++ [c]).getD l1.length d = c := by
  rw [List.getD_eq_getElem?_getD, List.getElem?_append_right (Nat.le_refl _)]
  simp

/-! ### one relaxed byte load -/

theorem push_probe {ns : List Node} {ch : List Nat} {f : Frame} {p : Nat}
    (hok : NodeOK hash (nodeAt ns f.tb)) (hf : FrameOK hash ns ch f p) (hp : ProbeOK hash ns f)
    (hw : f.w.length < 16) :
    ProbeOK hash ns (f.push ((nodeAt ns f.tb).tab.ctl (f.base + f.w.length))) := by
  refine ⟨hp.notBuilt, by simp only [push_w, List.length_append, List.length_singleton]; omega, ?_, ?_, ?_, ?_, ?_, ?_⟩
  · intro hd
    simp only [push_tb] at hd
    obtain ⟨h1, h2, h3⟩ := hp.dummyCase hd
    refine ⟨h1, h2, ?_⟩
    intro c hc
    simp only [push_w, List.mem_append, List.mem_singleton] at hc
    rcases hc with hc | hc
    · exact h3 c hc
    · rw [hc, hok.placeholder_of_dummy hd]
      exact placeholder_ctl_lt (by omega)
  · intro hd; exact hp.stepEq hd
  · intro hd; exact hp.prefixFull hd
  · intro hd hk; exact hp.passed hd hk
  · intro j hj hc
    simp only [push_w, List.length_append, List.length_singleton] at hj
    simp only [push_w, push_tb, push_base] at hc ⊢
    rcases Nat.lt_or_ge j f.w.length with h1 | h1
    · rw [getD_append_lt _ _ _ h1] at hc ⊢
      exact hp.snap j h1 hc
    · have : j = f.w.length := by omega
      subst this
      rw [getD_append_len]
  · intro si hm hu
    obtain ⟨ms, js, h1, h2, h3, h4, h5, h6, h7, h8⟩ := hp.mustHere si hm hu
    refine ⟨ms, js, h1, h2, h3, h4, h5, h6, ?_, ?_⟩
    · intro hlt c hc
      simp only [push_w, List.mem_append, List.mem_singleton] at hc
      rcases hc with hc | hc
      · exact h7 hlt c hc
      · rw [hc]
        have hd : (nodeAt ns f.tb).tab.dummy = false := (hf.pub_here hm hu).1
        have := h5 (f.step / 16) hlt f.w.length hw
        rw [← (hp.stepEq hd).2.2] at this
        exact this
    · intro he hj
      simp only [push_w, List.length_append, List.length_singleton] at hj
      simp only [push_w]
      rcases Nat.lt_or_ge js f.w.length with h1' | h1'
      · rw [getD_append_lt _ _ _ h1']; exact h8 he h1'
      · have : js = f.w.length := by omega
        subst this
        rw [getD_append_len]
        have hd : (nodeAt ns f.tb).tab.dummy = false := (hf.pub_here hm hu).1
        have hb := (hp.stepEq hd).2.2
        have he' : f.step / 16 = ms := he
        rw [he'] at hb
        rw [hb]; exact h6

theorem load_ok {ns : List Node} {ch : List Nat} {f : Frame}
    (hc : ChainOK ns ch) (hnodes : ∀ tb, tb < ns.length → NodeOK hash (nodeAt ns tb))
    (h : ThreadOK hash ns ch (.load f)) :
    ThreadOK hash ns ch
      (if (f.push ((nodeAt ns f.tb).tab.ctl (f.base + f.w.length))).w.length < groupLoads
        then .load (f.push ((nodeAt ns f.tb).tab.ctl (f.base + f.w.length)))
        else afterLoad hash (f.push ((nodeAt ns f.tb).tab.ctl (f.base + f.w.length)))) := by
  obtain ⟨p, hf, hp, hw⟩ := h
  have hok := hnodes _ hf.lt
  have hp' := push_probe hok hf hp hw
  have hf' : FrameOK hash ns ch (f.push ((nodeAt ns f.tb).tab.ctl (f.base + f.w.length))) p :=
    hf.congr rfl rfl rfl rfl rfl
  split
  · next hlt => exact ⟨p, hf', hp', by simpa [groupLoads_eq] using hlt⟩
  · next hge =>
    have hlen : (f.push ((nodeAt ns f.tb).tab.ctl (f.base + f.w.length))).w.length = 16 := by
      simp only [push_w, List.length_append, List.length_singleton, groupLoads_eq] at hge ⊢
      omega
    unfold afterLoad
    split
    · next hnil =>
      apply afterMatch_ok (f := f.push ((nodeAt ns f.tb).tab.ctl (f.base + f.w.length))) hc hok hf' hp' hlen
      intro _ j hj
      simp only [push_e] at hnil hj
      rw [hnil] at hj; cases hj
    · next ms hne =>
      have hd : (nodeAt ns f.tb).tab.dummy = false := by
        cases hd : (nodeAt ns f.tb).tab.dummy with
        | false => rfl
        | true =>
          exfalso
          obtain ⟨_, _, hall⟩ := hp'.dummyCase hd
          cases hms : matchTag (f.push ((nodeAt ns f.tb).tab.ctl (f.base + f.w.length))).w
              (tagOf (hash (f.push ((nodeAt ns f.tb).tab.ctl (f.base + f.w.length))).e.1)) with
          | nil => exact hne hms
          | cons j rest =>
            have hj : j ∈ matchTag (f.push ((nodeAt ns f.tb).tab.ctl (f.base + f.w.length))).w
              (tagOf (hash (f.push ((nodeAt ns f.tb).tab.ctl (f.base + f.w.length))).e.1)) := by
              rw [hms]; exact List.mem_cons_self
            obtain ⟨hjl, hjt⟩ := mem_matchTag.1 hj
            have := hall _ (getD_mem' hjl 0)
            rw [hjt] at this
            exact tagOf_ne_dummy _ this
      exact ⟨p, hf', hp', hlen, hd, hne, [], by simp, by simp⟩

/-! ### fence + key comparison -/

theorem pub_of_hit {ns : List Node} {ch : List Nat} {f : Frame} {p j : Nat}
    (hok : NodeOK hash (nodeAt ns f.tb)) (hf : FrameOK hash ns ch f p) (hp : ProbeOK hash ns f)
    (hw : f.w.length = 16) (hd : (nodeAt ns f.tb).tab.dummy = false)
    (hj : j ∈ matchTag f.w (tagOf (hash f.e.1)))
    (hit : (nodeAt ns f.tb).tab.keyAt ((f.base + j) % f.n) = some f.e.1) :
    Pub hash (nodeAt ns f.tb) ((f.base + j) % f.n) f.e.1 := by
  have hr := hok.real hd
  have hn := hf.nEq
  obtain ⟨hjl, hjt⟩ := mem_matchTag.1 hj
  have hj16 : j < 16 := by rw [hw] at hjl; exact hjl
  have hc := hp.snap j hjl (by rw [hjt]; exact tagOf_nonneg _)
  obtain ⟨hs1, hs2, hs3⟩ := hp.stepEq hd
  have hb : f.base < (nodeAt ns f.tb).tab.n := by
    rw [hs3, ← hn]; exact wbase_lt (by rw [hn]; exact hr.npos)
  have hnn : 0 ≤ (nodeAt ns f.tb).tab.ctl (f.base + j) := by rw [hc, hjt]; exact tagOf_nonneg _
  have hring := hok.ring hd hb hj16 hnn
  have hidx : (f.base + j) % (nodeAt ns f.tb).tab.n < (nodeAt ns f.tb).tab.n := Nat.mod_lt _ hr.npos
  obtain ⟨k, v, h1, h2, h3⟩ := hok.slot_nonneg hd hidx (by rw [hring]; exact hnn)
  rw [← hn] at h1 h2 h3 hring hidx
  have hk : k = f.e.1 := by
    unfold Table.keyAt at hit
    rw [h2] at hit
    simpa using hit
  subst hk
  refine ⟨hd, by rw [← hn]; exact hidx, hit, h3, h1, ?_⟩
  refine ⟨f.step / 16, j, ?_, hj16, ?_, ?_, ?_⟩
  · exact hr.window_lt (by rw [← hs1, ← hn]; exact hs2)
  · rw [← hn, ← hs3]
  · intro m' hm'; rw [← hn]; exact hp.prefixFull hd m' hm'
  · rw [← hn, ← hs3, hc, hjt]

theorem cmp_ok {ns : List Node} {ch : List Nat} {f : Frame} {j : Nat} {ms : List Nat}
    (hc : ChainOK ns ch) (hnodes : ∀ tb, tb < ns.length → NodeOK hash (nodeAt ns tb))
    (hdist : ∀ tb i tb' i' k, tb < ns.length → tb' < ns.length →
      claimAt (nodeAt ns tb) i = some k → claimAt (nodeAt ns tb') i' = some k → tb = tb' ∧ i = i')
    (h : ThreadOK hash ns ch (.cmp f (j :: ms))) :
    ThreadOK hash ns ch
      (if (nodeAt ns f.tb).tab.keyAt ((f.base + j) % f.n) == some f.e.1
        then .ret f (.slot f.tb ((f.base + j) % f.n) false)
        else afterCmp f ms) := by
  obtain ⟨p, hf, hp, hw, hd, _, pre, hpre, hcmp⟩ := h
  have hok := hnodes _ hf.lt
  have hjm : j ∈ matchTag f.w (tagOf (hash f.e.1)) := by rw [hpre]; simp
  split
  · next hit =>
    have hit' : (nodeAt ns f.tb).tab.keyAt ((f.base + j) % f.n) = some f.e.1 := by simpa using hit
    have hpub := pub_of_hit hok hf hp hw hd hjm hit'
    refine ⟨rfl, hf.lt, hpub, hp.notBuilt.symm, fun _ => rfl, ?_⟩
    intro tbs si hm hu
    obtain ⟨ps, _, hps, hat, hpub'⟩ := hf.must tbs si hm hu
    have hlt' : tbs < ns.length := by rw [← hat]; exact hc.lt _ (getD_mem hps)
    obtain ⟨e1, e2⟩ := hdist _ _ _ _ _ hlt' hf.lt hpub'.2.2.2.1 hpub.2.2.2.1
    exact ⟨e1, e2, rfl⟩
  · next hmiss =>
    have hmiss' : (nodeAt ns f.tb).tab.keyAt ((f.base + j) % f.n) ≠ some f.e.1 := by simpa using hmiss
    have hall : ∀ j' ∈ pre ++ [j], (nodeAt ns f.tb).tab.keyAt ((f.base + j') % f.n) ≠ some f.e.1 := by
      intro j' hj'
      rcases List.mem_append.1 hj' with h1 | h1
      · exact hcmp j' h1
      · simp at h1; subst h1; exact hmiss'
    cases ms with
    | nil =>
      show ThreadOK hash ns ch (afterMatch f)
      apply afterMatch_ok hc hok hf hp hw
      intro _ j' hj'
      rw [hpre] at hj'
      exact hall j' hj'
    | cons j2 rest =>
      show ThreadOK hash ns ch (.cmp f (j2 :: rest))
      exact ⟨p, hf, hp, hw, hd, by simp, pre ++ [j], by rw [hpre]; simp, hall⟩

/-! ### failed slot CAS, yield -/

theorem reload_probe {ns : List Node} {f : Frame} (hp : ProbeOK hash ns f) : ProbeOK hash ns f.reload := by
  refine ⟨by simpa using hp.notBuilt, by simp, ?_, hp.stepEq, hp.prefixFull, hp.passed, ?_, ?_⟩
  · intro hd
    obtain ⟨h1, h2, _⟩ := hp.dummyCase hd
    exact ⟨h1, h2, by simp⟩
  · intro j hj; simp at hj
  · intro si hm hu
    obtain ⟨ms, js, h1, h2, h3, h4, h5, h6, _, _⟩ := hp.mustHere si hm hu
    exact ⟨ms, js, h1, h2, h3, h4, h5, h6, fun _ c hc => by simp at hc, fun _ hj => by simp at hj⟩

theorem reload_ok {ns : List Node} {ch : List Nat} {f : Frame} {p : Nat}
    (hf : FrameOK hash ns ch f p) (hp : ProbeOK hash ns f) : ThreadOK hash ns ch (.load f.reload) :=
  ⟨p, hf.congr rfl rfl rfl rfl rfl, reload_probe hp, by simp⟩

/-- the three ways the slot CAS fails -/
theorem cas_fail_ok {ns : List Node} {ch : List Nat} {f : Frame} {i : Nat}
    (hc : ChainOK ns ch) (hnodes : ∀ tb, tb < ns.length → NodeOK hash (nodeAt ns tb))
    (h : ThreadOK hash ns ch (.cas f i)) (hne : (nodeAt ns f.tb).tab.ctl i ≠ emptyCtl) :
    ThreadOK hash ns ch
      (if (nodeAt ns f.tb).tab.ctl i == dummyCtl then tableEnd f
       else if (nodeAt ns f.tb).tab.ctl i == busyCtl then .yield f
       else .load f.reload) := by
  obtain ⟨p, hf, hp, hw, hk, hnm, j0, hj0, hi, _⟩ := h
  have hok := hnodes _ hf.lt
  split
  · next hdm =>
    have hdm' : (nodeAt ns f.tb).tab.ctl i = dummyCtl := by simpa using hdm
    have hd : (nodeAt ns f.tb).tab.dummy = true := by
      cases hd : (nodeAt ns f.tb).tab.dummy with
      | true => rfl
      | false =>
        exfalso
        have hr := hok.real hd
        exact hok.ctl_ne_dummy hd (by rw [hi, hf.nEq]; exact Nat.mod_lt _ hr.npos) hdm'
    apply tableEnd_ok hc hf hp.notBuilt
    · intro _
      exact ⟨Or.inl hd, fun x hx => by rw [hok.dummyClaim hd x] at hx; cases hx⟩
    · exact no_must_in_dummy hf hd
  · split
    · exact ⟨p, hf, hp, hk⟩
    · exact reload_ok hf hp

theorem yield_ok {ns : List Node} {ch : List Nat} {f : Frame} (h : ThreadOK hash ns ch (.yield f)) :
    ThreadOK hash ns ch (.load f.reload) := by
  obtain ⟨p, hf, hp, _⟩ := h
  exact reload_ok hf hp

/-! ### walking the chain -/

/-- entering the successor of the current node -/
theorem enter_next_ok {ns : List Node} {ch : List Nat} {f : Frame} {p nx : Nat}
    (hc : ChainOK ns ch) (hnodes : ∀ tb, tb < ns.length → NodeOK hash (nodeAt ns tb))
    (hf : FrameOK hash ns ch f p) (hset : f.kind.isSet = true) (hb : f.built = false)
    (hfull : f.kind.isFind = false → Full (nodeAt ns f.tb) f.e.1)
    (hm : ∀ tbs si, f.must = some (tbs, si) → tbs ≠ f.tb)
    (hn : (nodeAt ns f.tb).next = some nx) :
    ThreadOK hash ns ch (.load (entered hash ns f nx)) := by
  obtain ⟨hp1, hat1⟩ := hc.next_some hf.pos (by rw [hf.atPos]; exact hn)
  have hlt : nx < ns.length := by rw [← hat1]; exact hc.lt _ (getD_mem hp1)
  apply enter_ok f nx (p + 1) (hnodes _ hlt) hb
  refine ⟨hp1, hat1, hlt, rfl, ?_, ?_, ?_⟩
  · intro hk; simp only [entered_kind] at hk; rw [hset] at hk; cases hk
  · intro hk q hq
    simp only [entered_kind, entered_e] at hk ⊢
    rcases Nat.lt_or_ge q p with h1 | h1
    · exact hf.earlier hk q h1
    · have : q = p := by omega
      subst this
      rw [hf.atPos]; exact hfull hk
  · intro tbs si hmu hu
    simp only [entered_must, entered_e] at hmu ⊢
    have hu' : usable f tbs := Or.inl hset
    obtain ⟨ps, h1, h2, h3, h4⟩ := hf.must tbs si hmu hu'
    refine ⟨ps, ?_, h2, h3, h4⟩
    rcases Nat.lt_or_ge p ps with h5 | h5
    · exact h5
    · exfalso
      have : ps = p := by omega
      subst this
      exact hm tbs si hmu (by rw [← h3, hf.atPos])

/-- `find` reaches the end of the chain -/
theorem find_end_ok {ns : List Node} {ch : List Nat} {f : Frame} {p : Nat}
    (hc : ChainOK ns ch) (hf : FrameOK hash ns ch f p) (hset : f.kind.isSet = true)
    (hfind : f.kind.isFind = true) (hb : f.built = false)
    (hm : ∀ tbs si, f.must = some (tbs, si) → tbs ≠ f.tb)
    (hn : (nodeAt ns f.tb).next = none) : ThreadOK hash ns ch (.ret f .none) := by
  refine ⟨hb, ?_, fun hk => by rw [hfind] at hk; cases hk⟩
  intro tbs si hmu _
  obtain ⟨ps, h1, h2, h3, _⟩ := hf.must tbs si hmu (Or.inl hset)
  have hlast := hc.next_none hf.pos (by rw [hf.atPos]; exact hn)
  have : ps = p := by omega
  subst this
  exact hm tbs si hmu (by rw [← h3, hf.atPos])

/-- no earlier result binds a call that has seen the end of the chain -/
theorem noMust_at_end {ns : List Node} {ch : List Nat} {f : Frame} {p : Nat}
    (hc : ChainOK ns ch) (hf : FrameOK hash ns ch f p) (hset : f.kind.isSet = true)
    (hm : ∀ tbs si, f.must = some (tbs, si) → tbs ≠ f.tb)
    (hn : (nodeAt ns f.tb).next = none) : NoMust f := by
  intro tbs si hmu _
  obtain ⟨ps, h1, h2, h3, _⟩ := hf.must tbs si hmu (Or.inl hset)
  have hlast := hc.next_none hf.pos (by rw [hf.atPos]; exact hn)
  have : ps = p := by omega
  subst this
  exact hm tbs si hmu (by rw [← h3, hf.atPos])

end Babylon.Swiss.Conc
