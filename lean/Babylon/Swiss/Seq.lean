/-
  Sequential model of `ConcurrentFixedSwissTable` / `ConcurrentTransientHashSet` / `…HashMap`
  (src/babylon/concurrent/transient_hash_table.hpp), written to follow the code statement by
  statement: control bytes with the 15-byte mirrored tail, the 16-byte probe window read at an
  *unaligned* base, triangular probing, the placeholder ("dummy") head table of a
  default-constructed set, the chain of doubling tables, and the set-level glue
  (begin / ++ / size / clear / reserve / rehash / copy / move / swap).

  Keys and mapped values are `Nat`; the hash function is a parameter, so theorems hold for every
  hash (colliding hashes and equal 7-bit tags included).  Core Lean only (links into the driver).
-/
import Babylon.Gen.Swiss

namespace Babylon.Swiss
open Babylon.Gen.Swiss

abbrev Ctl := Int
abbrev Elem := Nat × Nat            -- (key, mapped value); a set uses value 0

/-- `absl::bit_ceil`: least power of two `≥ x` (and `1` for `x ≤ 1`). -/
def bitCeilAux : Nat → Nat → Nat → Nat
  | 0, p, _ => p
  | fuel + 1, p, x => if x ≤ p then p else bitCeilAux fuel (2 * p) x
def bitCeil (x : Nat) : Nat := bitCeilAux x 1 x

structure Table where
  dummy : Bool                      -- `_controls == Group::s_dummy_controls`
  n : Nat                           -- `bucket_count()` = `_bucket_mask + 1`
  ctrl : List Ctl                   -- `n + 16` control bytes (placeholder: the 32 shared DUMMY bytes)
  vals : List (Option Elem)         -- `n` value cells
  size : Nat                        -- `_size`
  deriving Repr, DecidableEq

/-- `ConcurrentFixedSwissTable()` -/
def Table.placeholder : Table :=
  { dummy := true, n := groupMask + 1, ctrl := List.replicate dummyLen dummyCtl, vals := [], size := 0 }

/-- `construct_with_bucket(min_bucket_count)` -/
def Table.mk' (minBuckets : Nat) : Table :=
  let n := bitCeil (max minBuckets groupSize)
  { dummy := false, n := n, ctrl := List.replicate (n + groupSize) emptyCtl,
    vals := List.replicate n none, size := 0 }

def Table.ctl (t : Table) (i : Nat) : Ctl := t.ctrl.getD i emptyCtl
def Table.val (t : Table) (i : Nat) : Option Elem := (t.vals.getD i none)
def Table.keyAt (t : Table) (i : Nat) : Option Nat := (t.val i).map (·.1)

/-- `Group {_controls + base}`: the 16 control bytes starting at (unaligned) `base`. -/
def Table.window (t : Table) (base : Nat) : List Ctl :=
  (List.range groupSize).map (fun j => t.ctl (base + j))

def tagOf (h : Nat) : Ctl := ((h % (checkerMask + 1) : Nat) : Int)
def Table.baseOf (t : Table) (h : Nat) : Nat := (h / 2 ^ checkerBits) % t.n

/-- offsets `j` (ascending) with `w[j] = tag` — `Group::match`. -/
def matchTag (w : List Ctl) (tag : Ctl) : List Nat :=
  (List.range w.length).filter (fun j => w.getD j 0 == tag)
/-- first offset with a negative byte — `*Group::match_empty()`. -/
def firstNeg (w : List Ctl) : Option Nat :=
  (List.range w.length).find? (fun j => w.getD j 0 < 0)

/-- Key comparison pass of one probe window: the first tag match whose stored key equals `key`. -/
def Table.matchKey (t : Table) (base : Nat) (tag : Ctl) (key : Nat) : Option Nat :=
  ((matchTag (t.window base) tag).map (fun j => (base + j) % t.n)).find?
    (fun i => t.keyAt i == some key)

/-- `find`: `k` = remaining iterations of `while (step <= _bucket_mask)` (initially `n / 16`). -/
def Table.findLoop (t : Table) (tag : Ctl) (key : Nat) : Nat → Nat → Nat → Option Nat
  | 0, _, _ => none
  | k + 1, step, base =>
    match t.matchKey base tag key with
    | some i => some i
    | none =>
      if (firstNeg (t.window base)).isSome then none
      else t.findLoop tag key k (step + groupSize) ((base + (step + groupSize)) % t.n)

def Table.find (hash : Nat → Nat) (t : Table) (key : Nat) : Option Nat :=
  t.findLoop (tagOf (hash key)) key (t.n / groupSize) 0 (t.baseOf (hash key))

inductive EmplaceRes
  | found (i : Nat)        -- `{{*this, index}, false}`
  | inserted (i : Nat)     -- `{{*this, index}, true}`
  | full                   -- `{end(), false}`
  | stuck                  -- the `continue` branches: another thread is mid-insert (BUSY) or has just
                           -- finished; sequentially unreachable (proved), kept so the model is total
  deriving Repr, DecidableEq

/-- the redundant mirror position: `((index - GROUP_MASK) & mask) + (GROUP_MASK & mask)` in
wrapping `size_t` arithmetic (`n` divides `2^64`, `n ≥ 16`). -/
def Table.clonedIndex (t : Table) (index : Nat) : Nat :=
  (index + t.n - groupMask) % t.n + groupMask % t.n

def Table.put (t : Table) (index : Nat) (tag : Ctl) (e : Elem) : Table :=
  { t with ctrl := (t.ctrl.set index tag).set (t.clonedIndex index) tag,
           vals := t.vals.set index (some e), size := t.size + 1 }

def Table.emplaceLoop (t : Table) (tag : Ctl) (e : Elem) : Nat → Nat → Nat → Table × EmplaceRes
  | 0, _, _ => (t, .full)
  | k + 1, step, base =>
    match t.matchKey base tag e.1 with
    | some i => (t, .found i)
    | none =>
      match firstNeg (t.window base) with
      | some j =>
        let index := (base + j) % t.n
        let c := t.ctl index
        if c == emptyCtl then (t.put index tag e, .inserted index)
        else if c == dummyCtl then (t, .full)
        else (t, .stuck)
      | none => t.emplaceLoop tag e k (step + groupSize) ((base + (step + groupSize)) % t.n)

def Table.emplace (hash : Nat → Nat) (t : Table) (e : Elem) : Table × EmplaceRes :=
  t.emplaceLoop (tagOf (hash e.1)) e (t.n / groupSize) 0 (t.baseOf (hash e.1))

/-- occupied bucket indices in iteration order (`begin()`/`++`: aligned groups ascending,
`match_non_empty` offsets ascending). -/
def Table.occupied (t : Table) : List Nat :=
  (List.range t.n).filter (fun i => decide (0 ≤ t.ctl i))

def Table.elems (t : Table) : List Elem :=
  t.occupied.filterMap t.val

/-- `clear()` -/
def Table.clear (t : Table) : Table :=
  if t.dummy then Table.mk' groupSize
  else if t.size == 0 then t
  else { t with ctrl := List.replicate (t.n + groupSize) emptyCtl, vals := List.replicate t.n none, size := 0 }

/-- re-insert all elements of `saved` (iteration order) into `t` with table-level `emplace`
(results ignored, as the code does). -/
def Table.emplaceAll (hash : Nat → Nat) (t : Table) (es : List Elem) : Table :=
  es.foldl (fun t e => (t.emplace hash e).1) t

/-- `reserve(min_size)` -/
def Table.reserve (hash : Nat → Nat) (t : Table) (minSize : Nat) : Table :=
  if t.dummy then Table.mk' minSize
  else if minSize > t.n then (Table.mk' minSize).emplaceAll hash t.elems
  else t

/-- `rehash(min_bucket_count)` -/
def Table.rehash (hash : Nat → Nat) (t : Table) (minBuckets : Nat) : Table :=
  if t.dummy then Table.mk' minBuckets
  else
    let nb := bitCeil minBuckets
    if nb == t.n then t
    else (Table.mk' (max nb t.size)).emplaceAll hash t.elems

/-! ### the growing set -/

structure HSet where
  head : Table
  chain : List Table                -- `_head.next`, `->next`, … in order
  deriving Repr, DecidableEq

def HSet.default : HSet := { head := Table.placeholder, chain := [] }       -- `ConcurrentTransientHashSet()`
def HSet.withBuckets (n : Nat) : HSet := { head := Table.mk' n, chain := [] } -- `…(min_bucket_count)`

def HSet.tables (s : HSet) : List Table := s.head :: s.chain

inductive SetEmplaceRes
  | done (table : Nat) (slot : Nat) (inserted : Bool)
  | stuck
  deriving Repr, DecidableEq

/-- the `while (true)` walk of `emplace` over the nodes from position `pos` on;
`prevN` = bucket count of the node we came from (for `new TableNode {bucket_count() << 1}`). -/
def emplaceChain (hash : Nat → Nat) (e : Elem) : List Table → Nat → Nat → List Table × SetEmplaceRes
  | [], prevN, pos =>
    -- `next == nullptr`: append a node twice as large and retry there
    let (t', r) := (Table.mk' (prevN * 2)).emplace hash e
    match r with
    | .found i => ([t'], .done pos i false)
    | .inserted i => ([t'], .done pos i true)
    | _ => ([t'], .stuck)       -- a fresh table cannot refuse (proved); the code would loop on
  | t :: rest, _, pos =>
    let (t', r) := t.emplace hash e
    match r with
    | .found i => (t' :: rest, .done pos i false)
    | .inserted i => (t' :: rest, .done pos i true)
    | .stuck => (t' :: rest, .stuck)
    | .full =>
      let (rest', r') := emplaceChain hash e rest t.n (pos + 1)
      (t' :: rest', r')

def HSet.emplace (hash : Nat → Nat) (s : HSet) (e : Elem) : HSet × SetEmplaceRes :=
  match emplaceChain hash e s.tables 0 0 with
  | (t :: ts, r) => ({ head := t, chain := ts }, r)
  | ([], r) => (s, r)      -- unreachable: `tables` is non-empty

/-- element stored at a `(table, slot)` position -/
def HSet.at (s : HSet) (ti slot : Nat) : Option Elem :=
  (s.tables.getD ti Table.placeholder).val slot

/-- `find`: head first, then each chained node in order. -/
def findChain (hash : Nat → Nat) (key : Nat) : List Table → Nat → Option (Nat × Nat)
  | [], _ => none
  | t :: rest, pos =>
    match t.find hash key with
    | some i => some (pos, i)
    | none => findChain hash key rest (pos + 1)

def HSet.find (hash : Nat → Nat) (s : HSet) (key : Nat) : Option Elem :=
  match findChain hash key s.tables 0 with
  | some (ti, i) => s.at ti i
  | none => none

/-- `total_size` seeded as the source seeds it (`Gen.Swiss.totalSizeSeed`). -/
def HSet.totalSizeFrom (seed : Nat) : List Table → Nat
  | [] => seed                              -- not reached (`size()` handles the no-chain case)
  | [last] => seed + last.size
  | t :: rest => HSet.totalSizeFrom (seed + t.n) rest

def HSet.size (s : HSet) : Nat :=
  match s.chain with
  | [] => s.head.size
  | c => HSet.totalSizeFrom (if totalSizeSeed == "size" then s.head.size else s.head.n) c

/-- Iterator state of the set: remaining elements of the current table, and `_next`. -/
structure SetIter where
  cur : List Elem
  next : List Table
  deriving Repr

/-- the loop shared by `begin()` and `operator++`: first non-empty table from `node` on. -/
def skipEmpty : List Table → SetIter
  | [] => { cur := [], next := [] }
  | t :: rest => if t.elems.isEmpty then skipEmpty rest else { cur := t.elems, next := rest }

def HSet.begin (s : HSet) : SetIter :=
  if s.head.elems.isEmpty then skipEmpty s.chain else { cur := s.head.elems, next := s.chain }

def SetIter.atEnd (it : SetIter) : Bool := it.cur.isEmpty
def SetIter.deref (it : SetIter) : Option Elem := it.cur.head?
def SetIter.incr (it : SetIter) : SetIter :=
  match it.cur with
  | _ :: (e :: es) => { it with cur := e :: es }
  | _ => skipEmpty it.next

/-- `for (auto& v : set)` with an explicit bound on the number of `++` (every run ends earlier). -/
def iterFrom : Nat → SetIter → List Elem
  | 0, _ => []
  | fuel + 1, it =>
    match it.deref with
    | none => []
    | some e => e :: iterFrom fuel it.incr

def HSet.capacityBound (s : HSet) : Nat := (s.tables.map (·.n)).sum + 1
def HSet.iter (s : HSet) : List Elem := iterFrom s.capacityBound s.begin

def HSet.emplaceAll (hash : Nat → Nat) (s : HSet) (es : List Elem) : HSet :=
  es.foldl (fun s e => (s.emplace hash e).1) s

/-- `clear()` -/
def HSet.clear (s : HSet) : HSet :=
  match s.chain with
  | [] => { s with head := s.head.clear }
  | _ => HSet.withBuckets s.size

/-- `reserve(min_size)` -/
def HSet.reserve (hash : Nat → Nat) (s : HSet) (minSize : Nat) : HSet :=
  match s.chain with
  | [] => { s with head := s.head.reserve hash minSize }
  | _ => (HSet.withBuckets (max s.size minSize)).emplaceAll hash s.iter

/-- `rehash(min_bucket_count)` -/
def HSet.rehash (hash : Nat → Nat) (s : HSet) (minBuckets : Nat) : HSet :=
  match s.chain with
  | [] => { s with head := s.head.rehash hash minBuckets }
  | _ => (HSet.withBuckets (max s.size minBuckets)).emplaceAll hash s.iter

/-- copy constructor: `_head {other.size()}` then *table-level* emplace of every element. -/
def HSet.copy (hash : Nat → Nat) (s : HSet) : HSet :=
  { head := (Table.mk' s.size).emplaceAll hash s.iter, chain := [] }

def HSet.bucketCount (s : HSet) : Nat := s.head.n

end Babylon.Swiss
