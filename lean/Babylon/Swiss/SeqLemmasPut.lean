/-
  Helper lemmas for property C18, part 4: the element list of a table and the effect of one
  insertion (`Table.put`) on control bytes, values, the element list and the invariant.
-/
import Babylon.Swiss.SeqLemmasProbe

namespace Babylon.Swiss
open Babylon.Gen.Swiss

/-! ### generic list facts -/

theorem getD_set' {α : Type} (l : List α) (a x : Nat) (v d : α) (ha : a < l.length) :
    (l.set a v).getD x d = if x = a then v else l.getD x d := by
  rw [List.getD_eq_getElem?_getD, List.getD_eq_getElem?_getD, List.getElem?_set]
  by_cases h : a = x
  · subst h; simp [ha]
  · have : ¬ x = a := fun e => h e.symm
    simp [h, this]

theorem filterMap_congr' {α β : Type} {f g : α → Option β} :
    ∀ {l : List α}, (∀ x ∈ l, f x = g x) → l.filterMap f = l.filterMap g := by
  intro l
  induction l with
  | nil => intro _; rfl
  | cons x xs ih =>
    intro h
    rw [List.filterMap_cons, List.filterMap_cons, h x List.mem_cons_self,
      ih (fun y hy => h y (List.mem_cons_of_mem _ hy))]

theorem filterMap_update_perm {α : Type} {g g' : Nat → Option α} {i : Nat} {e : α} :
    ∀ {l : List Nat}, l.Nodup → i ∈ l → g i = none → g' i = some e →
      (∀ x ∈ l, x ≠ i → g' x = g x) → (l.filterMap g').Perm (e :: l.filterMap g) := by
  intro l
  induction l with
  | nil => intro _ hi; cases hi
  | cons x xs ih =>
    intro hn hi hg hg' hsame
    have hnx := (List.nodup_cons.1 hn)
    by_cases hx : x = i
    · subst hx
      have hcongr : xs.filterMap g' = xs.filterMap g := by
        apply filterMap_congr'
        intro y hy
        exact hsame y (List.mem_cons_of_mem _ hy) (fun e => hnx.1 (e ▸ hy))
      rw [List.filterMap_cons_some hg', List.filterMap_cons_none hg, hcongr]
    · have hi' : i ∈ xs := by
        rcases List.mem_cons.1 hi with h | h
        · exact absurd h.symm hx
        · exact h
      have ih' := ih hnx.2 hi' hg hg' (fun y hy => hsame y (List.mem_cons_of_mem _ hy))
      have hxe := hsame x (List.mem_cons_self) hx
      cases hgx : g x with
      | none =>
        rw [List.filterMap_cons_none (hxe.trans hgx), List.filterMap_cons_none hgx]
        exact ih'
      | some a =>
        rw [List.filterMap_cons_some (hxe.trans hgx), List.filterMap_cons_some hgx]
        exact (List.Perm.cons a ih').trans (List.Perm.swap e a _)

theorem filterMap_length_of_isSome {α : Type} {g : Nat → Option α} :
    ∀ {l : List Nat}, (∀ x ∈ l, (g x).isSome) → (l.filterMap g).length = l.length := by
  intro l
  induction l with
  | nil => intro _; rfl
  | cons x xs ih =>
    intro h
    have hx := h x List.mem_cons_self
    obtain ⟨a, ha⟩ := Option.isSome_iff_exists.1 hx
    rw [List.filterMap_cons_some ha]
    simp [ih (fun y hy => h y (List.mem_cons_of_mem _ hy))]

/-! ### elements of a table -/

/-- value cell guarded by its control byte -/
def Table.cell (t : Table) (x : Nat) : Option Elem := if 0 ≤ t.ctl x then t.val x else none

theorem Table.elems_eq (t : Table) : t.elems = (List.range t.n).filterMap t.cell := by
  unfold Table.elems Table.occupied Table.cell
  rw [List.filterMap_filter]
  apply filterMap_congr'
  intro x _
  by_cases h : 0 ≤ t.ctl x <;> simp [h]

theorem Table.mem_elems {t : Table} {e : Elem} :
    e ∈ t.elems ↔ ∃ x, x < t.n ∧ 0 ≤ t.ctl x ∧ t.val x = some e := by
  rw [Table.elems_eq, List.mem_filterMap]
  constructor
  · rintro ⟨x, hx, hc⟩
    unfold Table.cell at hc
    split at hc
    · exact ⟨x, List.mem_range.1 hx, ‹_›, hc⟩
    · cases hc
  · rintro ⟨x, hx, h0, hv⟩
    exact ⟨x, List.mem_range.2 hx, by simp [Table.cell, h0, hv]⟩

theorem Table.elems_length_le (t : Table) : t.elems.length ≤ t.n := by
  rw [Table.elems_eq]
  have := List.length_filterMap_le t.cell (List.range t.n)
  simpa using this

namespace Table.WF
variable {hash : Nat → Nat} {t : Table}

theorem mem_elems (hw : t.WF hash) {e : Elem} :
    e ∈ t.elems ↔ ∃ x, x < t.n ∧ t.val x = some e := by
  rw [Table.mem_elems]
  constructor
  · rintro ⟨x, hx, _, hv⟩; exact ⟨x, hx, hv⟩
  · rintro ⟨x, hx, hv⟩
    refine ⟨x, hx, ?_, hv⟩
    rcases hw.bucket x hx with ⟨_, hn⟩ | ⟨k, v, hc, _⟩
    · rw [hn] at hv; cases hv
    · rw [hc]; exact tagOf_nonneg _

theorem absent_iff (hw : t.WF hash) {k : Nat} :
    t.Absent k ↔ ∀ e ∈ t.elems, e.1 ≠ k := by
  constructor
  · intro ha e he hk
    obtain ⟨x, hx, hv⟩ := hw.mem_elems.1 he
    exact ha x hx (by simp [Table.keyAt, hv, hk])
  · intro h x hx hk
    obtain ⟨_, v, hv⟩ := hw.keyAt_some hx hk
    exact h (k, v) (hw.mem_elems.2 ⟨x, hx, hv⟩) rfl

/-- a table whose buckets are all occupied holds `n` elements -/
theorem sat_size (hw : t.WF hash) (hs : t.Sat) : t.size = t.n := by
  rcases hs with hd | hs
  · rw [hw.notDummy] at hd; cases hd
  · rw [hw.sizeEq, Table.elems_eq, filterMap_length_of_isSome, List.length_range]
    intro x hx
    have hx' := List.mem_range.1 hx
    obtain ⟨k, v, _, hv⟩ := hw.ctl_nonneg hx' (hs x hx')
    simp [Table.cell, hs x hx', hv]

theorem size_le (hw : t.WF hash) : t.size ≤ t.n := by
  rw [hw.sizeEq]; exact t.elems_length_le

end Table.WF

/-! ### `put` -/

theorem clonedIndex_eq {t : Table} {i : Nat} (h16 : 16 ≤ t.n) (hi : i < t.n) :
    t.clonedIndex i = if i < 15 then i + t.n else i := by
  unfold Table.clonedIndex
  simp only [groupMask_eq]
  rw [Nat.mod_eq_of_lt (show 15 < t.n by omega)]
  split
  · rw [Nat.mod_eq_of_lt (by omega)]; omega
  · rw [show i + t.n - 15 = (i - 15) + t.n by omega, Nat.add_mod_right,
      Nat.mod_eq_of_lt (by omega)]
    omega

@[simp] theorem put_n (t : Table) (i : Nat) (tag : Ctl) (e : Elem) : (t.put i tag e).n = t.n := rfl
@[simp] theorem put_dummy (t : Table) (i : Nat) (tag : Ctl) (e : Elem) :
    (t.put i tag e).dummy = t.dummy := rfl
@[simp] theorem put_size (t : Table) (i : Nat) (tag : Ctl) (e : Elem) :
    (t.put i tag e).size = t.size + 1 := rfl

theorem put_ctl {hash : Nat → Nat} {t : Table} (hw : t.WF hash) {i : Nat} (hi : i < t.n)
    (tag : Ctl) (e : Elem) (x : Nat) :
    (t.put i tag e).ctl x = if x = i ∨ x = t.clonedIndex i then tag else t.ctl x := by
  have h16 := hw.ge16
  have hlen := hw.ctrlLen
  have hc := clonedIndex_eq h16 hi
  unfold Table.ctl Table.put
  simp only
  rw [getD_set' _ _ _ _ _ (by rw [List.length_set]; split at hc <;> omega),
    getD_set' _ _ _ _ _ (by omega)]
  by_cases h1 : x = t.clonedIndex i
  · simp [h1]
  · by_cases h2 : x = i
    · simp [h2]
    · simp [h1, h2]

theorem put_val {hash : Nat → Nat} {t : Table} (hw : t.WF hash) {i : Nat} (hi : i < t.n)
    (tag : Ctl) (e : Elem) (x : Nat) :
    (t.put i tag e).val x = if x = i then some e else t.val x := by
  unfold Table.val Table.put
  simp only
  rw [getD_set' _ _ _ _ _ (by rw [hw.valsLen]; exact hi)]

/-- for positions below `n` only the slot itself changes -/
theorem put_ctl_lt {hash : Nat → Nat} {t : Table} (hw : t.WF hash) {i : Nat} (hi : i < t.n)
    (tag : Ctl) (e : Elem) {x : Nat} (hx : x < t.n) :
    (t.put i tag e).ctl x = if x = i then tag else t.ctl x := by
  rw [put_ctl hw hi]
  have hc := clonedIndex_eq hw.ge16 hi
  by_cases h : x = i
  · simp [h]
  · have : ¬ x = t.clonedIndex i := by rw [hc]; split <;> omega
    simp [h, this]

theorem put_ctl_mono {hash : Nat → Nat} {t : Table} (hw : t.WF hash) {i : Nat} (hi : i < t.n)
    {tag : Ctl} (htag : 0 ≤ tag) (e : Elem) {x : Nat} (hx : 0 ≤ t.ctl x) :
    0 ≤ (t.put i tag e).ctl x := by
  rw [put_ctl hw hi]
  split
  · exact htag
  · exact hx

theorem reach_mono {t t' : Table} (hn : t'.n = t.n)
    (hfull : ∀ b, firstNeg (t.window b) = none → firstNeg (t'.window b) = none) (i : Nat) :
    ∀ fuel step base, t.Reach i fuel step base → t'.Reach i fuel step base := by
  intro fuel
  induction fuel with
  | zero => intro _ _ h; exact h
  | succ k ih =>
    intro step base h
    simp only [Table.Reach] at h ⊢
    rw [hn]
    rcases h with h | ⟨h1, h2⟩
    · exact Or.inl h
    · exact Or.inr ⟨hfull _ h1, ih _ _ h2⟩

theorem put_elems_perm {hash : Nat → Nat} {t : Table} (hw : t.WF hash) {i : Nat} (hi : i < t.n)
    (hemp : t.ctl i = emptyCtl) {tag : Ctl} (htag : 0 ≤ tag) (e : Elem) :
    (t.put i tag e).elems.Perm (e :: t.elems) := by
  rw [Table.elems_eq, Table.elems_eq, put_n]
  apply filterMap_update_perm (List.nodup_range) (List.mem_range.2 hi)
  · simp [Table.cell, hemp]
  · simp [Table.cell, put_ctl_lt hw hi tag e hi, put_val hw hi, htag]
  · intro x hx hne
    have hx' := List.mem_range.1 hx
    simp [Table.cell, put_ctl_lt hw hi tag e hx', put_val hw hi, hne]

/-- inserting an absent key into a free, reachable slot preserves the invariant -/
theorem Table.WF.put {hash : Nat → Nat} {t : Table} (hw : t.WF hash) {i : Nat} (hi : i < t.n)
    (hemp : t.ctl i = emptyCtl) (e : Elem) (habs : t.Absent e.1)
    (hreach : t.Reach i (t.n / 16) 0 (t.baseOf (hash e.1))) :
    (t.put i (tagOf (hash e.1)) e).WF hash := by
  have h16 := hw.ge16
  have htag := tagOf_nonneg (hash e.1)
  have hkey : ∀ x, (t.put i (tagOf (hash e.1)) e).keyAt x = if x = i then some e.1 else t.keyAt x := by
    intro x
    unfold Table.keyAt
    rw [put_val hw hi]
    split <;> rfl
  have hmono : ∀ b, firstNeg (t.window b) = none →
      firstNeg ((t.put i (tagOf (hash e.1)) e).window b) = none := by
    intro b hb
    rw [firstNeg_window_none] at hb ⊢
    intro j hj
    exact put_ctl_mono hw hi htag e (hb j hj)
  refine ⟨hw.notDummy, hw.pow2, h16, ?_, ?_, ?_, ?_, ?_, ?_, ?_⟩
  · simp [Table.put, hw.ctrlLen]
  · simp [Table.put, hw.valsLen]
  · intro j hj
    simp only [put_n]
    rw [put_ctl hw hi, put_ctl hw hi]
    have hc := clonedIndex_eq h16 hi
    have hm := hw.mirror j hj
    by_cases hji : j = i
    · have h1 : t.n + j = t.clonedIndex i := by rw [hc, if_pos (by omega)]; omega
      rw [if_pos (Or.inr h1), if_pos (Or.inl hji)]
    · have h1 : ¬ (t.n + j = i ∨ t.n + j = t.clonedIndex i) := by
        rw [hc]; split <;> omega
      have h2 : ¬ (j = i ∨ j = t.clonedIndex i) := by rw [hc]; split <;> omega
      rw [if_neg h1, if_neg h2]; exact hm
  · intro x hx
    rw [put_ctl_lt hw hi _ _ hx, put_val hw hi]
    by_cases hxi : x = i
    · subst hxi
      exact Or.inr ⟨e.1, e.2, by simp, by simp⟩
    · simp only [hxi, if_false]
      exact hw.bucket x hx
  · rw [put_size, hw.sizeEq, (put_elems_perm hw hi hemp htag e).length_eq]
    simp
  · intro x y k hx hy hkx hky
    rw [put_n] at hx hy
    rw [hkey] at hkx hky
    by_cases hxi : x = i
    · by_cases hyi : y = i
      · omega
      · exfalso
        simp only [hxi, hyi, if_true, if_false] at hkx hky
        cases hkx
        exact habs y hy hky
    · by_cases hyi : y = i
      · exfalso
        simp only [hxi, hyi, if_true, if_false] at hkx hky
        cases hky
        exact habs x hx hkx
      · simp only [hxi, hyi, if_false] at hkx hky
        exact hw.distinct x y k hx hy hkx hky
  · intro x k hx hkx
    rw [put_n] at hx ⊢
    rw [hkey] at hkx
    have hb : (t.put i (tagOf (hash e.1)) e).baseOf (hash k) = t.baseOf (hash k) := rfl
    rw [hb]
    apply reach_mono (put_n _ _ _ _) hmono
    by_cases hxi : x = i
    · simp only [hxi, if_true] at hkx
      cases hkx
      rw [hxi]
      exact hreach
    · simp only [hxi, if_false] at hkx
      exact hw.reach x k hx hkx

end Babylon.Swiss
