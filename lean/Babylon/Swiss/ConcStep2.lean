/-
  Property C03, proofs part 5: thread-local lemmas of the probe loop — what a thread knows after a
  byte load, after the comparisons of a group, when it advances to the next window, when it gives
  up on a table, and when a CAS fails.
-/
import Babylon.Swiss.ConcStep1

namespace Babylon.Swiss.Conc
open Babylon.Core Babylon.Gen.Swiss Babylon.Gen.SwissConc Babylon.Swiss

variable {hash : Nat → Nat}

theorem getD_mem' {α : Type} {l : List α} {p : Nat} (hp : p < l.length) (d : α) : l.getD p d ∈ l := by
  rw [List.getD_eq_getElem?_getD, List.getElem?_eq_getElem hp]
  exact List.getElem_mem hp

/-! ### frames derived from a frame -/

def Frame.reload (f : Frame) : Frame := { f with w := [] }
def Frame.push (f : Frame) (c : Ctl) : Frame := { f with w := f.w ++ [c] }
def Frame.adv (f : Frame) : Frame :=
  { f with step := f.step + groupSize, base := (f.base + (f.step + groupSize)) % f.n, w := [] }

@[simp] theorem adv_tb (f : Frame) : f.adv.tb = f.tb := rfl
@[simp] theorem adv_n (f : Frame) : f.adv.n = f.n := rfl
@[simp] theorem adv_step (f : Frame) : f.adv.step = f.step + groupSize := rfl
@[simp] theorem adv_base (f : Frame) : f.adv.base = (f.base + (f.step + groupSize)) % f.n := rfl
@[simp] theorem adv_w (f : Frame) : f.adv.w = [] := rfl
@[simp] theorem adv_kind (f : Frame) : f.adv.kind = f.kind := rfl
@[simp] theorem adv_e (f : Frame) : f.adv.e = f.e := rfl
@[simp] theorem adv_built (f : Frame) : f.adv.built = f.built := rfl
@[simp] theorem adv_must (f : Frame) : f.adv.must = f.must := rfl
@[simp] theorem reload_tb (f : Frame) : f.reload.tb = f.tb := rfl
@[simp] theorem reload_n (f : Frame) : f.reload.n = f.n := rfl
@[simp] theorem reload_step (f : Frame) : f.reload.step = f.step := rfl
@[simp] theorem reload_base (f : Frame) : f.reload.base = f.base := rfl
@[simp] theorem reload_w (f : Frame) : f.reload.w = [] := rfl
@[simp] theorem reload_kind (f : Frame) : f.reload.kind = f.kind := rfl
@[simp] theorem reload_e (f : Frame) : f.reload.e = f.e := rfl
@[simp] theorem reload_built (f : Frame) : f.reload.built = f.built := rfl
@[simp] theorem reload_must (f : Frame) : f.reload.must = f.must := rfl
@[simp] theorem push_tb (f : Frame) (c : Ctl) : (f.push c).tb = f.tb := rfl
@[simp] theorem push_n (f : Frame) (c : Ctl) : (f.push c).n = f.n := rfl
@[simp] theorem push_step (f : Frame) (c : Ctl) : (f.push c).step = f.step := rfl
@[simp] theorem push_base (f : Frame) (c : Ctl) : (f.push c).base = f.base := rfl
@[simp] theorem push_w (f : Frame) (c : Ctl) : (f.push c).w = f.w ++ [c] := rfl
@[simp] theorem push_kind (f : Frame) (c : Ctl) : (f.push c).kind = f.kind := rfl
@[simp] theorem push_e (f : Frame) (c : Ctl) : (f.push c).e = f.e := rfl
@[simp] theorem push_built (f : Frame) (c : Ctl) : (f.push c).built = f.built := rfl
@[simp] theorem push_must (f : Frame) (c : Ctl) : (f.push c).must = f.must := rfl

theorem advance_eq (f : Frame) :
    advance f = if f.step + groupSize < f.n then .load f.adv else tableEnd f := rfl

/-- `FrameOK` only looks at `tb`, `n`, `kind`, `e`, `must` -/
theorem FrameOK.congr {ns : List Node} {ch : List Nat} {f g : Frame} {p : Nat}
    (h : FrameOK hash ns ch f p) (h1 : g.tb = f.tb) (h2 : g.n = f.n) (h3 : g.kind = f.kind)
    (h4 : g.e = f.e) (h5 : g.must = f.must) : FrameOK hash ns ch g p := by
  refine ⟨h.pos, by rw [h1]; exact h.atPos, by rw [h1]; exact h.lt, by rw [h1, h2]; exact h.nEq,
    by rw [h3]; exact h.fixed0, by rw [h3, h4]; exact h.earlier, ?_⟩
  intro tbs si hm hu
  rw [h5] at hm
  rw [h4]
  exact h.must tbs si hm (by unfold usable at hu ⊢; rw [h3] at hu; exact hu)

/-! ### `m < n / 16` -/

theorem Real.window_lt {nd : Node} (hr : Real nd) {m : Nat} (h : 16 * m < nd.tab.n) : m < nd.tab.n / 16 := by
  obtain ⟨k', hk⟩ := hr.n_eq
  rw [hk, Nat.mul_div_cancel_left _ (by decide : 0 < 16)]
  rw [hk] at h
  omega

theorem Real.window_last {nd : Node} (hr : Real nd) {m m' : Nat} (h : ¬ 16 * m + 16 < nd.tab.n)
    (hm' : m' < nd.tab.n / 16) : m' ≤ m := by
  obtain ⟨k', hk⟩ := hr.n_eq
  rw [hk, Nat.mul_div_cancel_left _ (by decide : 0 < 16)] at hm'
  rw [hk] at h
  omega

/-! ### the key that binds this call cannot have been passed -/

/-- In a fully loaded window all of whose tag matches have been compared without success, a slot of
this table that binds the call lies strictly ahead, and the whole window is non-negative. -/
theorem must_ahead {ns : List Node} {ch : List Nat} {f : Frame} {p : Nat}
    (hf : FrameOK hash ns ch f p) (hp : ProbeOK hash ns f) (hw : f.w.length = 16)
    (hd : (nodeAt ns f.tb).tab.dummy = false)
    (hcmp : ∀ j ∈ matchTag f.w (tagOf (hash f.e.1)),
      (nodeAt ns f.tb).tab.keyAt ((f.base + j) % f.n) ≠ some f.e.1)
    {si : Nat} (hm : f.must = some (f.tb, si)) (hu : usable f f.tb) :
    ∃ ms js, f.step / 16 < ms ∧ ms < f.n / 16 ∧ js < 16 ∧
      (wbase f.n ((nodeAt ns f.tb).tab.baseOf (hash f.e.1)) ms + js) % f.n = si ∧
      (∀ m', m' < ms → winFull (nodeAt ns f.tb).tab (wbase f.n ((nodeAt ns f.tb).tab.baseOf (hash f.e.1)) m')) ∧
      (nodeAt ns f.tb).tab.ctl (wbase f.n ((nodeAt ns f.tb).tab.baseOf (hash f.e.1)) ms + js) = tagOf (hash f.e.1) ∧
      ∀ c ∈ f.w, 0 ≤ c := by
  obtain ⟨ms, js, h1, h2, h3, h4, h5, h6, h7, h8⟩ := hp.mustHere si hm hu
  rcases Nat.lt_or_ge (f.step / 16) ms with hlt | hge
  · exact ⟨ms, js, hlt, h2, h3, h4, h5, h6, h7 hlt⟩
  · exfalso
    have he : f.step / 16 = ms := Nat.le_antisymm h1 hge
    have hwj := h8 he (by rw [hw]; exact h3)
    have hmem : js ∈ matchTag f.w (tagOf (hash f.e.1)) := mem_matchTag.2 ⟨by rw [hw]; exact h3, hwj⟩
    have hk := hcmp js hmem
    have hb := (hp.stepEq hd).2.2
    rw [he] at hb
    rw [hb, h4] at hk
    exact hk (hf.pub_here hm hu).2.2.1

/-! ### giving up on a table -/

theorem tableEnd_ok {ns : List Node} {ch : List Nat} {f : Frame} {p : Nat}
    (hc : ChainOK ns ch) (hf : FrameOK hash ns ch f p) (hb : f.built = false)
    (hfull : f.kind.isFind = false → Full (nodeAt ns f.tb) f.e.1)
    (hnm : ∀ si, f.must = some (f.tb, si) → usable f f.tb → False) :
    ThreadOK hash ns ch (tableEnd f) := by
  unfold tableEnd
  cases hk : f.kind.isSet with
  | true =>
    simp only [if_true]
    refine ⟨p, hf, hk, hb, hfull, ?_⟩
    intro tbs si hm he
    subst he
    exact hnm si hm (Or.inl hk)
  | false =>
    simp only [Bool.false_eq_true, if_false]
    refine ⟨hb, ?_, ?_⟩
    · intro tbs si hm hu
      have := hf.must_tb_of_fixed hc hk hu
      subst this
      exact hnm si hm hu
    · intro hfind
      have h0 := hf.fixed0 hk
      subst h0
      have htb : f.tb = 0 := by rw [← hf.atPos]; exact hc.zero_lt.2
      refine ⟨?_, by rw [← htb]; exact (hfull hfind).1⟩
      cases hkk : f.kind <;> simp [hkk, Kind.isSet, Kind.isFind] at hk hfind ⊢

/-- a `must` slot cannot lie in the placeholder -/
theorem no_must_in_dummy {ns : List Node} {ch : List Nat} {f : Frame} {p : Nat}
    (hf : FrameOK hash ns ch f p) (hd : (nodeAt ns f.tb).tab.dummy = true) :
    ∀ si, f.must = some (f.tb, si) → usable f f.tb → False := by
  intro si hm hu
  have := (hf.pub_here hm hu).1
  rw [hd] at this; cases this

/-! ### the end of a group -/

/-- the current window, once seen full, is full -/
theorem ProbeOK.cur_full {ns : List Node} {f : Frame} (hp : ProbeOK hash ns f) (hw : f.w.length = 16)
    (hnn : ∀ j, j < 16 → 0 ≤ f.w.getD j 0) : winFull (nodeAt ns f.tb).tab f.base := by
  intro j hj
  rw [hp.snap j (by rw [hw]; exact hj) (hnn j hj)]
  exact hnn j hj

/-- no bucket of the current window is claimed for the key, once all its bytes are non-negative and
all tag matches have been compared without success -/
theorem ProbeOK.cur_unclaimed {ns : List Node} {f : Frame} (hok : NodeOK hash (nodeAt ns f.tb))
    (hn : f.n = (nodeAt ns f.tb).tab.n) (hd : (nodeAt ns f.tb).tab.dummy = false)
    (hp : ProbeOK hash ns f) (hw : f.w.length = 16)
    (hcmp : ∀ j ∈ matchTag f.w (tagOf (hash f.e.1)),
      (nodeAt ns f.tb).tab.keyAt ((f.base + j) % f.n) ≠ some f.e.1)
    {j : Nat} (hj : j < 16) (hnn : 0 ≤ f.w.getD j 0) :
    claimAt (nodeAt ns f.tb) ((f.base + j) % f.n) ≠ some f.e.1 := by
  intro hcl
  have hr := hok.real hd
  have hc := hp.snap j (by rw [hw]; exact hj) hnn
  have hb : f.base < (nodeAt ns f.tb).tab.n := by
    rw [(hp.stepEq hd).2.2, ← hn]; exact wbase_lt (by rw [hn]; exact hr.npos)
  have hnn' : 0 ≤ (nodeAt ns f.tb).tab.ctl (f.base + j) := by rw [hc]; exact hnn
  have hring := hok.ring hd hb hj hnn'
  have hidx : (f.base + j) % (nodeAt ns f.tb).tab.n < (nodeAt ns f.tb).tab.n := Nat.mod_lt _ hr.npos
  obtain ⟨k, v, h1, h2, h3⟩ := hok.slot_nonneg hd hidx (by rw [hring]; exact hnn')
  rw [← hn] at h1 h2 h3 hring
  rw [h3] at hcl
  cases hcl
  have hmem : j ∈ matchTag f.w (tagOf (hash f.e.1)) :=
    mem_matchTag.2 ⟨by rw [hw]; exact hj, by rw [← hc, ← hring, h1]⟩
  apply hcmp j hmem
  unfold Table.keyAt
  rw [h2]; rfl

theorem adv_ok {ns : List Node} {ch : List Nat} {f : Frame} {p : Nat}
    (hok : NodeOK hash (nodeAt ns f.tb)) (hf : FrameOK hash ns ch f p) (hp : ProbeOK hash ns f)
    (hw : f.w.length = 16) (hd : (nodeAt ns f.tb).tab.dummy = false)
    (hnn : ∀ j, j < 16 → 0 ≤ f.w.getD j 0)
    (hcmp : ∀ j ∈ matchTag f.w (tagOf (hash f.e.1)),
      (nodeAt ns f.tb).tab.keyAt ((f.base + j) % f.n) ≠ some f.e.1)
    (hlt : f.step + groupSize < f.n) : ThreadOK hash ns ch (.load f.adv) := by
  obtain ⟨hs1, hs2, hs3⟩ := hp.stepEq hd
  have hdiv : (f.step + groupSize) / 16 = f.step / 16 + 1 := by
    simp only [groupSize_eq]; omega
  have hbase : (f.base + (f.step + groupSize)) % f.n =
      wbase f.n ((nodeAt ns f.tb).tab.baseOf (hash f.e.1)) (f.step / 16 + 1) := by
    rw [hs3, ← wbase_succ]
    simp only [groupSize_eq]
    congr 2; omega
  refine ⟨p, hf.congr rfl rfl rfl rfl rfl, ?_, by simp⟩
  refine ⟨by simpa using hp.notBuilt, by simp, ?_, ?_, ?_, ?_, ?_, ?_⟩
  · intro hd'; rw [adv_tb, hd] at hd'; cases hd'
  · intro _
    simp only [adv_tb, adv_n, adv_step, adv_base, adv_e]
    refine ⟨by rw [hdiv]; simp only [groupSize_eq]; omega, hlt, ?_⟩
    rw [hdiv]; exact hbase
  · intro _ m' hm'
    simp only [adv_tb, adv_n, adv_step, adv_e] at hm' ⊢
    rw [hdiv] at hm'
    rcases Nat.lt_or_ge m' (f.step / 16) with h1 | h1
    · exact hp.prefixFull hd m' h1
    · have : m' = f.step / 16 := by omega
      subst this
      rw [← hs3]; exact hp.cur_full hw hnn
  · intro _ hk m' hm' j hj
    simp only [adv_tb, adv_n, adv_step, adv_e, adv_kind] at hm' hk ⊢
    rw [hdiv] at hm'
    rcases Nat.lt_or_ge m' (f.step / 16) with h1 | h1
    · exact hp.passed hd hk m' h1 j hj
    · have : m' = f.step / 16 := by omega
      subst this
      rw [← hs3]; exact hp.cur_unclaimed hok hf.nEq hd hw hcmp hj (hnn j hj)
  · intro j hj; simp at hj
  · intro si hm hu
    simp only [adv_tb, adv_must] at hm
    have hu' : usable f f.tb := hu
    obtain ⟨ms, js, h1, h2, h3, h4, h5, h6, _⟩ := must_ahead hf hp hw hd hcmp hm hu'
    simp only [adv_tb, adv_n, adv_step, adv_e, adv_w]
    refine ⟨ms, js, ?_, h2, h3, h4, h5, h6, fun _ c hc => ?_, fun _ hj => ?_⟩
    · rw [hdiv]; exact h1
    · simp at hc
    · simp at hj

/-- all windows full and unclaimed = the table refuses the key -/
theorem full_of_last {ns : List Node} {ch : List Nat} {f : Frame} {p : Nat}
    (hok : NodeOK hash (nodeAt ns f.tb)) (hf : FrameOK hash ns ch f p) (hp : ProbeOK hash ns f)
    (hw : f.w.length = 16) (hd : (nodeAt ns f.tb).tab.dummy = false)
    (hnn : ∀ j, j < 16 → 0 ≤ f.w.getD j 0)
    (hcmp : ∀ j ∈ matchTag f.w (tagOf (hash f.e.1)),
      (nodeAt ns f.tb).tab.keyAt ((f.base + j) % f.n) ≠ some f.e.1)
    (hk : f.kind.isFind = false) (hlast : ¬ f.step + groupSize < f.n) :
    Full (nodeAt ns f.tb) f.e.1 := by
  have hr := hok.real hd
  obtain ⟨hs1, hs2, hs3⟩ := hp.stepEq hd
  have hn := hf.nEq
  have hb0 : (nodeAt ns f.tb).tab.baseOf (hash f.e.1) < (nodeAt ns f.tb).tab.n := base_lt_of_real hr _
  have hlast' : ¬ 16 * (f.step / 16) + 16 < (nodeAt ns f.tb).tab.n := by
    rw [← hs1, ← hn]; simpa using hlast
  have hwf : ∀ m', m' < (nodeAt ns f.tb).tab.n / 16 →
      winFull (nodeAt ns f.tb).tab (wbase f.n ((nodeAt ns f.tb).tab.baseOf (hash f.e.1)) m') := by
    intro m' hm'
    have hle := hr.window_last hlast' hm'
    rcases Nat.lt_or_ge m' (f.step / 16) with h1 | h1
    · exact hp.prefixFull hd m' h1
    · have : m' = f.step / 16 := by omega
      subst this
      rw [← hs3]; exact hp.cur_full hw hnn
  constructor
  · right
    intro i hi
    obtain ⟨m, j, hm, hj, hmj⟩ := hr.cover hb0 hi
    have := hwf m hm j hj
    rw [hn] at this
    have h2 := hok.ring_nonneg hd (wbase_lt hr.npos) hj this
    rw [hmj] at h2; exact h2
  · intro i hcl
    have hi := hok.claim_lt hcl
    obtain ⟨m, j, hm, hj, hmj⟩ := hr.cover hb0 hi
    have hle := hr.window_last hlast' hm
    rw [← hmj, ← hn] at hcl
    rcases Nat.lt_or_ge m (f.step / 16) with h1 | h1
    · exact hp.passed hd hk m h1 j hj hcl
    · have : m = f.step / 16 := by omega
      subst this
      rw [← hs3] at hcl
      exact hp.cur_unclaimed hok hn hd hw hcmp hj (hnn j hj) hcl

theorem afterMatch_ok {ns : List Node} {ch : List Nat} {f : Frame} {p : Nat}
    (hc : ChainOK ns ch) (hok : NodeOK hash (nodeAt ns f.tb))
    (hf : FrameOK hash ns ch f p) (hp : ProbeOK hash ns f) (hw : f.w.length = 16)
    (hcmp : (nodeAt ns f.tb).tab.dummy = false → ∀ j ∈ matchTag f.w (tagOf (hash f.e.1)),
      (nodeAt ns f.tb).tab.keyAt ((f.base + j) % f.n) ≠ some f.e.1) :
    ThreadOK hash ns ch (afterMatch f) := by
  unfold afterMatch
  cases hd : (nodeAt ns f.tb).tab.dummy with
  | true =>
    -- the placeholder: every byte is DUMMY, so the group has a "free" byte
    obtain ⟨_, _, hall⟩ := hp.dummyCase hd
    have hneg : firstNeg f.w ≠ none := by
      intro hn
      have h0 := firstNeg_none hn 0 (by rw [hw]; decide)
      have := hall _ (getD_mem' (by rw [hw]; decide : 0 < f.w.length) 0)
      rw [this] at h0
      exact absurd h0 (by decide)
    cases hfn : firstNeg f.w with
    | none => exact absurd hfn hneg
    | some j0 =>
      cases hk : f.kind.isFind with
      | true =>
        simp only [if_true, Option.isSome_some]
        exact tableEnd_ok hc hf hp.notBuilt (by intro h; rw [hk] at h; cases h) (no_must_in_dummy hf hd)
      | false =>
        simp only [Bool.false_eq_true, if_false]
        exact ⟨p, hf, hp, hw, hk, no_must_in_dummy hf hd, j0, hfn, rfl,
          fun hd' => by rw [hd] at hd'; cases hd'⟩
  | false =>
    have hcmp' := hcmp hd
    cases hfn : firstNeg f.w with
    | some j0 =>
      obtain ⟨hj0, hneg, _⟩ := firstNeg_some hfn
      have hnm : ∀ si, f.must = some (f.tb, si) → usable f f.tb → False := by
        intro si hm hu
        obtain ⟨_, _, _, _, _, _, _, _, hall⟩ := must_ahead hf hp hw hd hcmp' hm hu
        have := hall _ (getD_mem' hj0 0)
        exact absurd this (Int.not_le.2 hneg)
      cases hk : f.kind.isFind with
      | true =>
        simp only [if_true, Option.isSome_some]
        exact tableEnd_ok hc hf hp.notBuilt (by intro h; rw [hk] at h; cases h) hnm
      | false =>
        simp only [Bool.false_eq_true, if_false]
        exact ⟨p, hf, hp, hw, hk, hnm, j0, hfn, rfl, fun _ => hcmp'⟩
    | none =>
      have hnn : ∀ j, j < 16 → 0 ≤ f.w.getD j 0 := fun j hj => firstNeg_none hfn j (by rw [hw]; exact hj)
      have hadv : ThreadOK hash ns ch (advance f) := by
        rw [advance_eq]
        split
        · next hlt => exact adv_ok hok hf hp hw hd hnn hcmp' hlt
        · next hlast =>
          apply tableEnd_ok hc hf hp.notBuilt
          · intro hk; exact full_of_last hok hf hp hw hd hnn hcmp' hk hlast
          · intro si hm hu
            obtain ⟨ms, js, h1, h2, _⟩ := must_ahead hf hp hw hd hcmp' hm hu
            have hr := hok.real hd
            obtain ⟨hs1, _, _⟩ := hp.stepEq hd
            have hlast' : ¬ 16 * (f.step / 16) + 16 < (nodeAt ns f.tb).tab.n := by
              rw [← hs1, ← hf.nEq]; simpa using hlast
            have := hr.window_last hlast' (by rw [← hf.nEq]; exact h2)
            omega
      cases hk : f.kind.isFind with
      | true => simp only [if_true, Option.isSome_none, Bool.false_eq_true, if_false]; exact hadv
      | false => simp only [Bool.false_eq_true, if_false]; exact hadv

end Babylon.Swiss.Conc
