/-
  Property C03, proofs part 8: `Inv` is preserved by the steps that rewrite one bucket of one chained
  node — construct, the two release stores, the size add (`Inv.slotStep`) and the winning slot CAS
  (`Inv.casStep`, with the key lemma `no_claim_at_cas`: one winner per key).
-/
import Babylon.Swiss.ConcStep4

namespace Babylon.Swiss.Conc
open Babylon.Core Babylon.Gen.Swiss Babylon.Gen.SwissConc Babylon.Swiss

variable {hash : Nat → Nat}

/-! ### replacing one node -/

theorem chainOK_set {ns : List Node} {ch : List Nat} {tb : Nat} {nd' : Node} (h : ChainOK ns ch)
    (hlt : tb < ns.length) (hnext : nd'.next = (nodeAt ns tb).next) : ChainOK (ns.set tb nd') ch := by
  refine ⟨h.head, fun x hx => by rw [List.length_set]; exact h.lt x hx, h.nodup, ?_⟩
  intro idx hidx
  rw [nodeAt_set _ _ _ _ hlt]
  split
  · next e => rw [hnext, ← e]; exact h.link idx hidx
  · exact h.link idx hidx

/-- what every owner of a bucket knows about it -/
theorem ThreadOK.owner_facts {ns : List Node} {ch : List Nat} {pc : Pc} {tb i : Nat}
    (h : ThreadOK hash ns ch pc) (ho : ownerOf pc = some (tb, i)) :
    tb < ns.length ∧ i < (nodeAt ns tb).tab.n ∧ (nodeAt ns tb).tab.dummy = false ∧
      (nodeAt ns tb).tab.ctl i ≠ emptyCtl := by
  cases pc with
  | construct f i' =>
    obtain ⟨p, hf, hown, _, hc, _⟩ := h
    simp only [ownerOf, Option.some.injEq, Prod.mk.injEq] at ho
    obtain ⟨rfl, rfl⟩ := ho
    exact ⟨hf.lt, by rw [← hf.nEq]; exact hown.lt, hown.real, by rw [hc]; decide⟩
  | st1 f i' =>
    obtain ⟨p, hf, hown, _, hc, _⟩ := h
    simp only [ownerOf, Option.some.injEq, Prod.mk.injEq] at ho
    obtain ⟨rfl, rfl⟩ := ho
    exact ⟨hf.lt, by rw [← hf.nEq]; exact hown.lt, hown.real, by rw [hc]; decide⟩
  | st2 f i' =>
    obtain ⟨p, hf, hown, _, hc, _⟩ := h
    simp only [ownerOf, Option.some.injEq, Prod.mk.injEq] at ho
    obtain ⟨rfl, rfl⟩ := ho
    exact ⟨hf.lt, by rw [← hf.nEq]; exact hown.lt, hown.real, by rw [hc]; exact tagOf_ne_empty _⟩
  | sz f i' =>
    obtain ⟨p, hf, hown, _, hpub, _⟩ := h
    simp only [ownerOf, Option.some.injEq, Prod.mk.injEq] at ho
    obtain ⟨rfl, rfl⟩ := ho
    exact ⟨hf.lt, by rw [← hf.nEq]; exact hown.lt, hown.real, by rw [hpub.2.2.2.2.1]; exact tagOf_ne_empty _⟩
  | ret f r =>
    cases r with
    | none => simp [ownerOf] at ho
    | slot tb' i' ins =>
      cases ins with
      | false => simp [ownerOf] at ho
      | true =>
        obtain ⟨_, hlt, hpub, _⟩ := h
        simp only [ownerOf, Option.some.injEq, Prod.mk.injEq] at ho
        obtain ⟨rfl, rfl⟩ := ho
        exact ⟨hlt, hpub.2.1, hpub.1, by rw [hpub.2.2.2.2.1]; exact tagOf_ne_empty _⟩
  | idle => simp [ownerOf] at ho
  | load f => simp [ownerOf] at ho
  | cmp f ms => simp [ownerOf] at ho
  | cas f i' => simp [ownerOf] at ho
  | yield f => simp [ownerOf] at ho
  | nextLd f => simp [ownerOf] at ho
  | nextCas f nw => simp [ownerOf] at ho

/-- a bucket other than the rewritten one is untouched -/
theorem slotSame_set {ns : List Node} {tb : Nat} {nd' : Node} (hlt : tb < ns.length) {i : Nat}
    (hi : i < (nodeAt ns tb).tab.n)
    (hfoot : ∀ x, x ≠ i → x ≠ (nodeAt ns tb).tab.n + i → nd'.tab.ctl x = (nodeAt ns tb).tab.ctl x)
    (hfootv : ∀ y, y ≠ i → nd'.tab.val y = (nodeAt ns tb).tab.val y)
    {tb' i' : Nat} (hi' : i' < (nodeAt ns tb').tab.n) (hne : ¬ (tb' = tb ∧ i' = i)) :
    SlotSame (nodeAt ns tb') (nodeAt (ns.set tb nd') tb') i' := by
  rw [nodeAt_set _ _ _ _ hlt]
  split
  · next e =>
    subst e
    have hii : i' ≠ i := fun e => hne ⟨rfl, e⟩
    exact ⟨hfoot i' hii (by omega), hfootv i' hii, hfoot _ (by omega) (by omega)⟩
  · exact SlotSame.refl _ _

/-- shared part of the two bucket-rewriting lemmas -/
theorem Inv.setNode {s : State} (h : Inv hash s) (t : Nat) (tb i : Nat) (p' : Pc) (nd' : Node)
    (hlt : tb < s.nodes.length) (hmem : tb ∈ s.chain)
    (hi : i < (nodeAt s.nodes tb).tab.n)
    (hle : NodeLe (nodeAt s.nodes tb) nd') (hok : NodeOK hash nd')
    (hnext : nd'.next = (nodeAt s.nodes tb).next)
    (hfoot : ∀ x, x ≠ i → x ≠ (nodeAt s.nodes tb).tab.n + i → nd'.tab.ctl x = (nodeAt s.nodes tb).tab.ctl x)
    (hfootv : ∀ y, y ≠ i → nd'.tab.val y = (nodeAt s.nodes tb).tab.val y)
    (hothers : ∀ t', t' ≠ t → ownerOf (s.pc t') ≠ some (tb, i))
    (hdist : ∀ tb1 i1 tb2 i2 k, tb1 < s.nodes.length → tb2 < s.nodes.length →
      claimAt (nodeAt (s.nodes.set tb nd') tb1) i1 = some k →
      claimAt (nodeAt (s.nodes.set tb nd') tb2) i2 = some k → tb1 = tb2 ∧ i1 = i2)
    (hlater : ∀ p q x k, p < q → q < s.chain.length →
      claimAt (nodeAt (s.nodes.set tb nd') (s.chain.getD q 0)) x = some k →
      (nodeAt (s.nodes.set tb nd') (s.chain.getD p 0)).tab.Sat)
    (hthr : ThreadOK hash (s.nodes.set tb nd') s.chain p')
    (hown' : ownerOf p' = some (tb, i))
    (hnc : ∀ g nw, p' ≠ .nextCas g nw) :
    Inv hash (setPc (s.setNode tb nd') t p') := by
  have hle' : NodesLe s.nodes (s.nodes.set tb nd') := NodesLe.set hlt hle
  apply h.update (s' := setPc (s.setNode tb nd') t p') t p' rfl hle' (List.prefix_refl _)
  · intro tb' htb'
    rw [show (setPc (s.setNode tb nd') t p').nodes = s.nodes.set tb nd' from rfl] at htb' ⊢
    rw [List.length_set] at htb'
    rw [nodeAt_set _ _ _ _ hlt]
    split
    · exact hok
    · exact h.nodes tb' htb'
  · exact chainOK_set h.chain hlt hnext
  · intro tb' htb' hnm
    rw [show (setPc (s.setNode tb nd') t p').nodes = s.nodes.set tb nd' from rfl] at htb' ⊢
    rw [List.length_set] at htb'
    have : tb' ≠ tb := fun e => hnm (e ▸ hmem)
    rw [nodeAt_set_other _ _ this]
    exact h.offChain tb' htb' hnm
  · intro tb1 i1 tb2 i2 k h1 h2
    rw [show (setPc (s.setNode tb nd') t p').nodes = s.nodes.set tb nd' from rfl] at h1 h2 ⊢
    rw [List.length_set] at h1 h2
    exact hdist tb1 i1 tb2 i2 k h1 h2
  · exact hlater
  · exact hthr
  · intro t' ht' tb' i' ho
    obtain ⟨_, hi', _, _⟩ := (h.thr t').owner_facts ho
    apply slotSame_set hlt hi hfoot hfootv hi'
    rintro ⟨rfl, rfl⟩
    exact hothers t' ht' ho
  · intro t' ht' f nw hp
    obtain ⟨p, _, _, _, _, _, _, hnw, _⟩ := (by have := h.thr t'; rw [hp] at this; exact this :
      ThreadOK hash s.nodes s.chain (.nextCas f nw))
    refine ⟨hnw, ?_⟩
    have : nw ≠ tb := fun e => hnw (e ▸ hmem)
    show (nodeAt (s.nodes.set tb nd') nw).tab = _
    rw [nodeAt_set_other _ _ this]
  · intro o ho t' ht' ho'
    rw [hown'] at ho
    cases ho
    exact hothers t' ht' ho'
  · intro f nw hp; exact absurd hp (hnc f nw)

/-- construct, the release stores, the size add: the claims do not change -/
theorem Inv.slotStep {s : State} (h : Inv hash s) (t : Nat) (tb i : Nat) (p' : Pc) (nd' : Node)
    (hown : ownerOf (s.pc t) = some (tb, i))
    (hlt : tb < s.nodes.length) (hmem : tb ∈ s.chain) (hi : i < (nodeAt s.nodes tb).tab.n)
    (hle : NodeLe (nodeAt s.nodes tb) nd') (hok : NodeOK hash nd')
    (hnext : nd'.next = (nodeAt s.nodes tb).next)
    (hclaim : ∀ x, claimAt nd' x = claimAt (nodeAt s.nodes tb) x)
    (hfoot : ∀ x, x ≠ i → x ≠ (nodeAt s.nodes tb).tab.n + i → nd'.tab.ctl x = (nodeAt s.nodes tb).tab.ctl x)
    (hfootv : ∀ y, y ≠ i → nd'.tab.val y = (nodeAt s.nodes tb).tab.val y)
    (hthr : ThreadOK hash (s.nodes.set tb nd') s.chain p')
    (hown' : ownerOf p' = some (tb, i))
    (hnc : ∀ g nw, p' ≠ .nextCas g nw) :
    Inv hash (setPc (s.setNode tb nd') t p') := by
  have hcl : ∀ tb' x, claimAt (nodeAt (s.nodes.set tb nd') tb') x = claimAt (nodeAt s.nodes tb') x := by
    intro tb' x
    rw [nodeAt_set _ _ _ _ hlt]
    split
    · next e => subst e; exact hclaim x
    · rfl
  apply h.setNode t tb i p' nd' hlt hmem hi hle hok hnext hfoot hfootv
  · intro t' ht'; exact h.owners t t' (tb, i) (fun e => ht' e.symm) hown
  · intro tb1 i1 tb2 i2 k h1 h2 c1 c2
    rw [hcl] at c1 c2
    exact h.distinct tb1 i1 tb2 i2 k h1 h2 c1 c2
  · intro p q x k hpq hq hc
    rw [hcl] at hc
    have hp : s.chain.getD p 0 < s.nodes.length := h.chain.lt _ (getD_mem (by omega))
    exact ((NodesLe.set hlt hle).2 _ hp).sat (h.later p q x k hpq hq hc)
  · exact hthr
  · exact hown'
  · exact hnc

/-! ### one winner per key -/

/-- When the slot CAS of an inserter is about to succeed, no bucket of any table is claimed for its
key: earlier tables are saturated without the key, a claim in a later table would mean this table
is saturated, and inside this table the probe-prefix-full facts of both parties exclude it. -/
theorem no_claim_at_cas {s : State} (h : Inv hash s) {f : Frame} {i p j0 : Nat}
    (hf : FrameOK hash s.nodes s.chain f p) (hp : ProbeOK hash s.nodes f) (hw : f.w.length = 16)
    (hk : f.kind.isFind = false) (hd : (nodeAt s.nodes f.tb).tab.dummy = false)
    (hj0 : firstNeg f.w = some j0) (hi : i = (f.base + j0) % f.n)
    (hcmp : ∀ j ∈ matchTag f.w (tagOf (hash f.e.1)),
      (nodeAt s.nodes f.tb).tab.keyAt ((f.base + j) % f.n) ≠ some f.e.1)
    (he : (nodeAt s.nodes f.tb).tab.ctl i = emptyCtl) :
    ∀ tb' x, tb' < s.nodes.length → claimAt (nodeAt s.nodes tb') x ≠ some f.e.1 := by
  intro tb' x htb' hcl
  have hok := h.nodes _ hf.lt
  have hr := hok.real hd
  have hn := hf.nEq
  obtain ⟨hj0l, _, hbefore⟩ := firstNeg_some hj0
  have hj016 : j0 < 16 := by rw [hw] at hj0l; exact hj0l
  obtain ⟨hs1, hs2, hs3⟩ := hp.stepEq hd
  have hb : f.base < (nodeAt s.nodes f.tb).tab.n := by
    rw [hs3, ← hn]; exact wbase_lt (by rw [hn]; exact hr.npos)
  have hilt : i < (nodeAt s.nodes f.tb).tab.n := by rw [hi, hn]; exact Nat.mod_lt _ hr.npos
  -- a non-negative byte at offset `j0` of the current window contradicts the EMPTY bucket
  have hcontra : 0 ≤ (nodeAt s.nodes f.tb).tab.ctl (f.base + j0) → False := by
    intro hnn
    have := hok.ring_nonneg hd hb hj016 hnn
    rw [← hn, ← hi, he] at this
    exact absurd this (by decide)
  -- the claimed bucket lies in a chained table
  have hmem : tb' ∈ s.chain := by
    apply Classical.byContradiction
    intro hnm
    rw [(h.offChain tb' htb' hnm).2 x] at hcl; cases hcl
  obtain ⟨q, hq, hqat⟩ := h.chain.pos_of_mem hmem
  rcases Nat.lt_trichotomy q p with hlt | heq | hgt
  · have := (hf.earlier hk q hlt).2 x
    rw [hqat] at this
    exact this hcl
  · subst heq
    have htb : tb' = f.tb := by rw [← hqat, hf.atPos]
    subst htb
    have hx := hok.claim_lt hcl
    obtain ⟨m', j', h1, h2, h3, h4, h5⟩ := hok.reach hd x f.e.1 hx hcl
    rw [← hn] at h1 h3 h4 h5
    rcases Nat.lt_trichotomy m' (f.step / 16) with hm | hm | hm
    · exact hp.passed hd hk m' hm j' h2 (by rw [h3]; exact hcl)
    · subst hm
      rw [← hs3] at h3 h5
      rcases Nat.lt_trichotomy j' j0 with hj | hj | hj
      · exact hp.cur_unclaimed hok hn hd hw hcmp h2 (hbefore j' hj) (by rw [h3]; exact hcl)
      · subst hj
        rw [← hi] at h3
        subst h3
        rw [(hok.slot_empty hd hilt he).2] at hcl; cases hcl
      · exact hcontra (h5 j0 hj)
    · have := h4 (f.step / 16) hm j0 hj016
      rw [← hs3] at this
      exact hcontra this
  · have hsat := h.later p q x f.e.1 hgt hq (by rw [hqat]; exact hcl)
    rw [hf.atPos] at hsat
    rcases hsat with hd' | hall
    · rw [hd] at hd'; cases hd'
    · have := hall i hilt
      rw [he] at this
      exact absurd this (by decide)

/-- the probe-prefix-full fact of the bucket an inserter is about to claim -/
theorem reach_at_cas {ns : List Node} {ch : List Nat} {f : Frame} {i p j0 : Nat}
    (hok : NodeOK hash (nodeAt ns f.tb)) (hf : FrameOK hash ns ch f p) (hp : ProbeOK hash ns f)
    (hw : f.w.length = 16) (hd : (nodeAt ns f.tb).tab.dummy = false)
    (hj0 : firstNeg f.w = some j0) (hi : i = (f.base + j0) % f.n) :
    ReachC (nodeAt ns f.tb).tab ((nodeAt ns f.tb).tab.baseOf (hash f.e.1)) i := by
  have hr := hok.real hd
  have hn := hf.nEq
  obtain ⟨hj0l, _, hbefore⟩ := firstNeg_some hj0
  have hj016 : j0 < 16 := by rw [hw] at hj0l; exact hj0l
  obtain ⟨hs1, hs2, hs3⟩ := hp.stepEq hd
  refine ⟨f.step / 16, j0, hr.window_lt (by rw [← hs1, ← hn]; exact hs2), hj016, ?_, ?_, ?_⟩
  · rw [← hn, ← hs3, hi]
  · intro m' hm'; rw [← hn]; exact hp.prefixFull hd m' hm'
  · intro j' hj'
    rw [← hn, ← hs3, hp.snap j' (by omega) (hbefore j' hj')]
    exact hbefore j' hj'

end Babylon.Swiss.Conc
