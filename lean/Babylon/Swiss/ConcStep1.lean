/-
  Property C03, proofs part 4: the generic update lemma for `Inv` and the thread-local lemmas of the
  probe loop (entering a table, one byte load, the end of a group, advancing, giving up).
-/
import Babylon.Swiss.ConcStable

namespace Babylon.Swiss.Conc
open Babylon.Core Babylon.Gen.Swiss Babylon.Gen.SwissConc Babylon.Swiss

variable {hash : Nat → Nat}

/-! ### the generic update lemma -/

theorem Inv.update {s s' : State} (h : Inv hash s) (t : Nat) (p' : Pc)
    (hpc : s'.pc = upd s.pc t p')
    (hle : NodesLe s.nodes s'.nodes) (hch : s.chain <+: s'.chain)
    (hnodes : ∀ tb, tb < s'.nodes.length → NodeOK hash (nodeAt s'.nodes tb))
    (hchain : ChainOK s'.nodes s'.chain)
    (hoff : ∀ tb, tb < s'.nodes.length → tb ∉ s'.chain →
      (nodeAt s'.nodes tb).next = none ∧ ∀ i, claimAt (nodeAt s'.nodes tb) i = none)
    (hdist : ∀ tb i tb' i' k, tb < s'.nodes.length → tb' < s'.nodes.length →
      claimAt (nodeAt s'.nodes tb) i = some k → claimAt (nodeAt s'.nodes tb') i' = some k → tb = tb' ∧ i = i')
    (hlater : ∀ p q x k, p < q → q < s'.chain.length →
      claimAt (nodeAt s'.nodes (s'.chain.getD q 0)) x = some k → (nodeAt s'.nodes (s'.chain.getD p 0)).tab.Sat)
    (hthr : ThreadOK hash s'.nodes s'.chain p')
    (hsame : ∀ t', t' ≠ t → ∀ tb i, ownerOf (s.pc t') = some (tb, i) →
      SlotSame (nodeAt s.nodes tb) (nodeAt s'.nodes tb) i)
    (hnw : ∀ t', t' ≠ t → ∀ f nw, s.pc t' = .nextCas f nw →
      nw ∉ s'.chain ∧ (nodeAt s'.nodes nw).tab = (nodeAt s.nodes nw).tab)
    (hown : ∀ o, ownerOf p' = some o → ∀ t', t' ≠ t → ownerOf (s.pc t') ≠ some o)
    (hfresh : ∀ f nw, p' = .nextCas f nw → ∀ t', t' ≠ t → ∀ f' nw', s.pc t' = .nextCas f' nw' → nw ≠ nw') :
    Inv hash s' := by
  have h0 : 0 < s.nodes.length := by
    have := h.chain.head
    cases hc : s.chain with
    | nil => rw [hc] at this; cases this
    | cons a l =>
      rw [hc] at this
      simp at this
      subst this
      exact h.chain.lt 0 (by rw [hc]; exact List.mem_cons_self)
  refine ⟨hnodes, hchain, hoff, hdist, hlater, ?_, ?_, ?_⟩
  · intro t'
    rw [hpc]
    by_cases ht : t' = t
    · subst ht; rw [upd_same]; exact hthr
    · rw [upd_other _ _ ht]
      exact ThreadOK.mono h.nodes h.chain.lt h0 hle hch (s.pc t') (hsame t' ht) (hnw t' ht) (h.thr t')
  · intro t1 t2 o hne h1 h2
    rw [hpc] at h1 h2
    by_cases ht1 : t1 = t
    · subst ht1
      rw [upd_same] at h1
      rw [upd_other _ _ (fun e => hne e.symm)] at h2
      exact hown o h1 t2 (fun e => hne e.symm) h2
    · rw [upd_other _ _ ht1] at h1
      by_cases ht2 : t2 = t
      · subst ht2
        rw [upd_same] at h2
        exact hown o h2 t1 ht1 h1
      · rw [upd_other _ _ ht2] at h2
        exact h.owners t1 t2 o hne h1 h2
  · intro t1 t2 f nw f' nw' hne h1 h2
    rw [hpc] at h1 h2
    by_cases ht1 : t1 = t
    · subst ht1
      rw [upd_same] at h1
      rw [upd_other _ _ (fun e => hne e.symm)] at h2
      exact hfresh f nw h1 t2 (fun e => hne e.symm) f' nw' h2
    · rw [upd_other _ _ ht1] at h1
      by_cases ht2 : t2 = t
      · subst ht2
        rw [upd_same] at h2
        exact fun e => hfresh f' nw' h2 t1 ht1 f nw h1 e.symm
      · rw [upd_other _ _ ht2] at h2
        exact h.fresh t1 t2 f nw f' nw' hne h1 h2

theorem SlotSame.refl (a : Node) (i : Nat) : SlotSame a a i := ⟨rfl, rfl, rfl⟩

/-- a step that changes only the program counter of thread `t` (and possibly the log) -/
theorem Inv.pcOnly {s s' : State} (h : Inv hash s) (t : Nat) (p' : Pc)
    (hpc : s'.pc = upd s.pc t p') (hn : s'.nodes = s.nodes) (hc : s'.chain = s.chain)
    (hthr : ThreadOK hash s.nodes s.chain p')
    (hown : ownerOf p' = none ∨ ownerOf p' = ownerOf (s.pc t))
    (hfresh : ∀ f nw, p' ≠ .nextCas f nw) : Inv hash s' := by
  apply h.update t p' hpc
  · rw [hn]; exact NodesLe.refl _
  · rw [hc]; exact List.prefix_refl _
  · rw [hn]; exact h.nodes
  · rw [hn, hc]; exact h.chain
  · rw [hn, hc]; exact h.offChain
  · rw [hn]; exact h.distinct
  · rw [hn, hc]; exact h.later
  · rw [hn, hc]; exact hthr
  · intro t' _ tb i _; rw [hn]; exact SlotSame.refl _ _
  · intro t' ht' f nw hp
    rw [hn, hc]
    obtain ⟨p, _, _, _, _, _, _, hnw, _⟩ := (by have := h.thr t'; rw [hp] at this; exact this :
      ThreadOK hash s.nodes s.chain (.nextCas f nw))
    exact ⟨hnw, rfl⟩
  · intro o ho t' ht' ho'
    rcases hown with hn' | he
    · rw [hn'] at ho; cases ho
    · rw [he] at ho
      exact h.owners t t' o (fun e => ht' e.symm) ho ho'
  · intro f nw hp; exact absurd hp (hfresh f nw)

/-! ### chain facts -/

theorem ChainOK.zero_lt {ns : List Node} {ch : List Nat} (h : ChainOK ns ch) : 0 < ch.length ∧ ch.getD 0 0 = 0 := by
  have := h.head
  cases ch with
  | nil => cases this
  | cons a l => simp at this; subst this; exact ⟨by simp, rfl⟩

theorem ChainOK.getD_inj {ns : List Node} {ch : List Nat} (h : ChainOK ns ch) {p q : Nat}
    (hp : p < ch.length) (hq : q < ch.length) (he : ch.getD p 0 = ch.getD q 0) : p = q := by
  exact (List.getD_inj hp hq h.nodup).1 he

theorem ChainOK.pos_of_mem {ns : List Node} {ch : List Nat} (_h : ChainOK ns ch) {tb : Nat} (hm : tb ∈ ch) :
    ∃ p, p < ch.length ∧ ch.getD p 0 = tb := by
  obtain ⟨p, hp, he⟩ := List.getElem_of_mem hm
  exact ⟨p, hp, by rw [List.getD_eq_getElem?_getD, List.getElem?_eq_getElem hp]; simpa using he⟩

/-- the successor of position `p` -/
theorem ChainOK.next_some {ns : List Node} {ch : List Nat} (h : ChainOK ns ch) {p nx : Nat}
    (hp : p < ch.length) (hn : (nodeAt ns (ch.getD p 0)).next = some nx) :
    p + 1 < ch.length ∧ ch.getD (p + 1) 0 = nx := by
  rw [h.link p hp] at hn
  have hlt : p + 1 < ch.length := by
    apply Classical.byContradiction
    intro hge
    rw [List.getElem?_eq_none (by omega)] at hn
    cases hn
  refine ⟨hlt, ?_⟩
  rw [List.getD_eq_getElem?_getD, hn]; rfl

theorem ChainOK.next_none {ns : List Node} {ch : List Nat} (h : ChainOK ns ch) {p : Nat}
    (hp : p < ch.length) (hn : (nodeAt ns (ch.getD p 0)).next = none) : p + 1 = ch.length := by
  rw [h.link p hp] at hn
  apply Classical.byContradiction
  intro hne
  rw [List.getElem?_eq_getElem (by omega)] at hn
  cases hn

/-! ### a `must` slot in a table this call does not (or no longer) look at -/

/-- a table operation is bound only by slots of node 0, which is where it is -/
theorem FrameOK.must_tb_of_fixed {ns : List Node} {ch : List Nat} {f : Frame} {p : Nat}
    (hc : ChainOK ns ch) (hf : FrameOK hash ns ch f p) (hk : f.kind.isSet = false)
    {tbs : Nat} (hu : usable f tbs) : tbs = f.tb := by
  rcases hu with hu | hu
  · rw [hk] at hu; cases hu
  · subst hu
    have hp0 := hf.fixed0 hk
    subst hp0
    rw [← hf.atPos]; exact hc.zero_lt.2.symm

theorem FrameOK.pub_here {ns : List Node} {ch : List Nat} {f : Frame} {p : Nat}
    (hf : FrameOK hash ns ch f p) {si : Nat} (hm : f.must = some (f.tb, si)) (hu : usable f f.tb) :
    Pub hash (nodeAt ns f.tb) si f.e.1 := by
  obtain ⟨_, _, _, _, hp⟩ := hf.must _ _ hm hu
  exact hp

/-! ### entering a table -/

theorem base_lt_of_real {nd : Node} (hr : Real nd) (x : Nat) : nd.tab.baseOf x < nd.tab.n :=
  Nat.mod_lt _ hr.npos

/-- the frame with which `enter` starts probing node `tb'` -/
def entered (hash : Nat → Nat) (ns : List Node) (f : Frame) (tb' : Nat) : Frame :=
  { f with tb := tb', n := (nodeAt ns tb').tab.n, step := 0, base := (nodeAt ns tb').tab.baseOf (hash f.e.1), w := [] }

@[simp] theorem entered_tb (ns : List Node) (f : Frame) (tb' : Nat) : (entered hash ns f tb').tb = tb' := rfl
@[simp] theorem entered_n (ns : List Node) (f : Frame) (tb' : Nat) : (entered hash ns f tb').n = (nodeAt ns tb').tab.n := rfl
@[simp] theorem entered_step (ns : List Node) (f : Frame) (tb' : Nat) : (entered hash ns f tb').step = 0 := rfl
@[simp] theorem entered_base (ns : List Node) (f : Frame) (tb' : Nat) :
    (entered hash ns f tb').base = (nodeAt ns tb').tab.baseOf (hash f.e.1) := rfl
@[simp] theorem entered_w (ns : List Node) (f : Frame) (tb' : Nat) : (entered hash ns f tb').w = [] := rfl
@[simp] theorem entered_kind (ns : List Node) (f : Frame) (tb' : Nat) : (entered hash ns f tb').kind = f.kind := rfl
@[simp] theorem entered_e (ns : List Node) (f : Frame) (tb' : Nat) : (entered hash ns f tb').e = f.e := rfl
@[simp] theorem entered_built (ns : List Node) (f : Frame) (tb' : Nat) : (entered hash ns f tb').built = f.built := rfl
@[simp] theorem entered_must (ns : List Node) (f : Frame) (tb' : Nat) : (entered hash ns f tb').must = f.must := rfl

theorem enter_eq (s : State) (f : Frame) (tb' : Nat) :
    enter hash s f tb' = .load (entered hash s.nodes f tb') := rfl

theorem enter_ok {ns : List Node} {ch : List Nat} (f : Frame) (tb' p' : Nat)
    (hok : NodeOK hash (nodeAt ns tb')) (hb : f.built = false)
    (hfr : FrameOK hash ns ch (entered hash ns f tb') p') :
    ThreadOK hash ns ch (.load (entered hash ns f tb')) := by
  refine ⟨p', hfr, ?_, by simp⟩
  refine ⟨by simpa using hb, by simp, ?_, ?_, ?_, ?_, ?_, ?_⟩
  · intro hd
    simp only [entered_tb] at hd
    refine ⟨by simp, ?_, by simp⟩
    simp only [entered_base]
    have := hok.placeholder_of_dummy hd
    unfold Table.baseOf
    rw [this]
    exact Nat.mod_lt _ (by decide)
  · intro hd
    simp only [entered_tb] at hd
    have hr := hok.real hd
    simp only [entered_step, entered_n, entered_base, entered_tb, entered_e, Nat.zero_div, Nat.mul_zero, true_and]
    exact ⟨hr.npos, (wbase_zero (base_lt_of_real hr _)).symm⟩
  · intro _ m' hm'; simp at hm'
  · intro _ _ m' hm'; simp at hm'
  · intro j hj; simp at hj
  · intro si hm hu
    obtain ⟨hd, _, _, _, _, m, j, h1, h2, h3, h4, h5⟩ := hfr.pub_here hm hu
    simp only [entered_tb, entered_e] at h1 h2 h3 h4 h5
    simp only [entered_step, entered_n, entered_tb, entered_e, entered_w, Nat.zero_div]
    exact ⟨m, j, Nat.zero_le _, h1, h2, h3, h4, h5, fun _ c hc => by simp at hc, fun _ hj => by simp at hj⟩

end Babylon.Swiss.Conc
