/-
  Property C03, proofs part 13: a syntactic classification of the actions of `stepThread`
  (`ActKind`), and two facts derived from it: every control byte only moves
  EMPTY → BUSY → tag (mirrored byte: EMPTY → tag), and a mirrored byte differs from its main byte only
  while the inserter of that bucket is between its CAS and its second release store.
-/
import Babylon.Swiss.ConcLog

namespace Babylon.Swiss.Conc
open Babylon.Core Babylon.Gen.Swiss Babylon.Gen.SwissConc Babylon.Swiss

variable {hash : Nat → Nat}

/-- what one action of thread `t` is -/
inductive ActKind (hash : Nat → Nat) (s s' : State) (t : Nat) : Prop
  | quiet (p' : Pc) : ownerOf (s.pc t) = none → Quiet p' → s' = setPc s t p' → ActKind hash s s' t
  | casWin (f : Frame) (i : Nat) : s.pc t = .cas f i → (nodeAt s.nodes f.tb).tab.ctl i = emptyCtl →
      s' = setPc (s.setNode f.tb (((nodeAt s.nodes f.tb).setCtl i busyCtl).setClaim i f.e.1)) t (.construct f i) →
      ActKind hash s s' t
  | build (f : Frame) (i : Nat) : s.pc t = .construct f i →
      s' = setPc (s.setNode f.tb ((nodeAt s.nodes f.tb).build i f.e)) t (.st1 f.setBuilt i) → ActKind hash s s' t
  | st1 (f : Frame) (i : Nat) : s.pc t = .st1 f i →
      s' = setPc (s.setNode f.tb ((nodeAt s.nodes f.tb).setCtl i (tagOf (hash f.e.1)))) t (.st2 f i) →
      ActKind hash s s' t
  | st2 (f : Frame) (i : Nat) : s.pc t = .st2 f i →
      s' = setPc (s.setNode f.tb ((nodeAt s.nodes f.tb).setCtl ((nodeAt s.nodes f.tb).tab.clonedIndex i)
        (tagOf (hash f.e.1)))) t (.sz f i) → ActKind hash s s' t
  | sz (f : Frame) (i : Nat) : s.pc t = .sz f i →
      s' = setPc (s.setNode f.tb (nodeAt s.nodes f.tb).bump) t (.ret f (.slot f.tb i true)) → ActKind hash s s' t
  | alloc (f : Frame) : s.pc t = .nextLd f →
      s' = setPc { s with nodes := s.nodes ++ [Node.ofTable (Table.mk' (f.n * 2 ^ growShift))] } t
        (.nextCas f s.nodes.length) → ActKind hash s s' t
  | link (f : Frame) (nw : Nat) : s.pc t = .nextCas f nw → (nodeAt s.nodes f.tb).next = none →
      s' = setPc { s.setNode f.tb ((nodeAt s.nodes f.tb).link nw) with chain := s.chain ++ [nw] } t
        (.load (entered hash (s.nodes.set f.tb ((nodeAt s.nodes f.tb).link nw)) f nw)) → ActKind hash s s' t

theorem step_act_kind {s s' : State} {t : Nat} {l : Label}
    (hst : stepThread hash s t = some (s', l)) : ActKind hash s s' t := by
  unfold stepThread at hst
  split at hst
  · cases hst
  · cases hst
  · next f hpc =>
    simp only [Option.some.injEq, Prod.mk.injEq] at hst
    obtain ⟨rfl, _⟩ := hst
    refine .quiet _ (by rw [hpc]; rfl) ?_ rfl
    split
    · exact quiet_load _
    · exact quiet_afterLoad _
  · cases hst
  · next f j ms hpc =>
    simp only [Option.some.injEq, Prod.mk.injEq] at hst
    obtain ⟨rfl, _⟩ := hst
    refine .quiet _ (by rw [hpc]; rfl) ?_ rfl
    split
    · exact quiet_retFound _ _ _
    · exact quiet_afterCmp _ _
  · next f i hpc =>
    dsimp only at hst
    split at hst
    · next hc =>
      simp only [Option.some.injEq, Prod.mk.injEq] at hst
      obtain ⟨rfl, _⟩ := hst
      exact .casWin f i hpc ((casExpected_beq _).1 hc) rfl
    · split at hst
      · simp only [Option.some.injEq, Prod.mk.injEq] at hst
        obtain ⟨rfl, _⟩ := hst
        exact .quiet _ (by rw [hpc]; rfl) (quiet_tableEnd f) rfl
      · split at hst
        · simp only [Option.some.injEq, Prod.mk.injEq] at hst
          obtain ⟨rfl, _⟩ := hst
          exact .quiet _ (by rw [hpc]; rfl) (quiet_yield f) rfl
        · simp only [Option.some.injEq, Prod.mk.injEq] at hst
          obtain ⟨rfl, _⟩ := hst
          exact .quiet _ (by rw [hpc]; rfl) (quiet_load _) rfl
  · next f hpc =>
    simp only [Option.some.injEq, Prod.mk.injEq] at hst
    obtain ⟨rfl, _⟩ := hst
    exact .quiet _ (by rw [hpc]; rfl) (quiet_load _) rfl
  · next f i hpc =>
    simp only [Option.some.injEq, Prod.mk.injEq] at hst
    obtain ⟨rfl, _⟩ := hst
    exact .build f i hpc rfl
  · next f i hpc =>
    simp only [Option.some.injEq, Prod.mk.injEq] at hst
    obtain ⟨rfl, _⟩ := hst
    exact .st1 f i hpc rfl
  · next f i hpc =>
    simp only [Option.some.injEq, Prod.mk.injEq] at hst
    obtain ⟨rfl, _⟩ := hst
    exact .st2 f i hpc rfl
  · next f i hpc =>
    simp only [Option.some.injEq, Prod.mk.injEq] at hst
    obtain ⟨rfl, _⟩ := hst
    exact .sz f i hpc rfl
  · next f hpc =>
    dsimp only at hst
    split at hst
    · simp only [Option.some.injEq, Prod.mk.injEq] at hst
      obtain ⟨rfl, _⟩ := hst
      exact .quiet _ (by rw [hpc]; rfl) (quiet_load _) rfl
    · split at hst
      · simp only [Option.some.injEq, Prod.mk.injEq] at hst
        obtain ⟨rfl, _⟩ := hst
        exact .quiet _ (by rw [hpc]; rfl) (quiet_retNone f) rfl
      · simp only [Option.some.injEq, Prod.mk.injEq] at hst
        obtain ⟨rfl, _⟩ := hst
        exact .alloc f hpc rfl
  · next f nw hpc =>
    dsimp only at hst
    split at hst
    · next hnx =>
      simp only [Option.some.injEq, Prod.mk.injEq] at hst
      obtain ⟨rfl, _⟩ := hst
      exact .link f nw hpc hnx rfl
    · simp only [Option.some.injEq, Prod.mk.injEq] at hst
      obtain ⟨rfl, _⟩ := hst
      exact .quiet _ (by rw [hpc]; rfl) (quiet_load _) rfl

/-! ### control bytes only move EMPTY → BUSY → tag -/

/-- allowed change of the control byte at offset `x` of a table with `n` buckets in one step:
none; main byte EMPTY → BUSY; main byte BUSY → tag; mirrored byte EMPTY → tag -/
def CtlMove (n x : Nat) (a b : Ctl) : Prop :=
  a = b ∨ (x < n ∧ a = emptyCtl ∧ b = busyCtl) ∨ (x < n ∧ a = busyCtl ∧ 0 ≤ b) ∨
    (n ≤ x ∧ a = emptyCtl ∧ 0 ≤ b)

theorem ctlMove_set {ns : List Node} {tb : Nat} {nd' : Node} (hlt : tb < ns.length)
    (hmove : ∀ x, CtlMove (nodeAt ns tb).tab.n x ((nodeAt ns tb).tab.ctl x) (nd'.tab.ctl x)) :
    ∀ tb' x, CtlMove (nodeAt ns tb').tab.n x ((nodeAt ns tb').tab.ctl x)
      ((nodeAt (ns.set tb nd') tb').tab.ctl x) := by
  intro tb' x
  rw [nodeAt_set _ _ _ _ hlt]
  split
  · next e => subst e; exact hmove x
  · exact Or.inl rfl

theorem act_ctl_move {s s' : State} {t : Nat} (h : Inv hash s) (k : ActKind hash s s' t) :
    ∀ tb, tb < s.nodes.length → ∀ x, CtlMove (nodeAt s.nodes tb).tab.n x
      ((nodeAt s.nodes tb).tab.ctl x) ((nodeAt s'.nodes tb).tab.ctl x) := by
  intro tb htb x
  cases k with
  | quiet p' _ _ he => subst he; exact Or.inl rfl
  | casWin f i hpc hemp he =>
    subst he
    have hthr : ThreadOK hash s.nodes s.chain (.cas f i) := by have := h.thr t; rw [hpc] at this; exact this
    obtain ⟨p, hf, hp, hw, hk, _, j0, hj0, hi, hcmp⟩ := hthr
    have hok := h.nodes _ hf.lt
    have hd : (nodeAt s.nodes f.tb).tab.dummy = false := by
      cases hd : (nodeAt s.nodes f.tb).tab.dummy with
      | false => rfl
      | true =>
        exfalso
        have hpl := hok.placeholder_of_dummy hd
        have hlt : i < 32 := by
          rw [hi, hf.nEq, hpl]
          have : (f.base + j0) % Table.placeholder.n < 16 := Nat.mod_lt _ (by decide)
          omega
        rw [hpl, placeholder_ctl_lt hlt] at hemp
        exact absurd hemp (by decide)
    have hr := hok.real hd
    have hilt : i < (nodeAt s.nodes f.tb).tab.n := by rw [hi, hf.nEq]; exact Nat.mod_lt _ hr.npos
    apply ctlMove_set hf.lt
    intro y
    show CtlMove _ y _ (((nodeAt s.nodes f.tb).setCtl i busyCtl).tab.ctl y)
    rw [setCtl_ctl _ _ _ (by rw [hr.ctrlLen]; omega)]
    split
    · next e => subst e; exact Or.inr (Or.inl ⟨hilt, hemp, rfl⟩)
    · exact Or.inl rfl
  | build f i hpc he =>
    subst he
    have hthr : ThreadOK hash s.nodes s.chain (.construct f i) := by have := h.thr t; rw [hpc] at this; exact this
    obtain ⟨p, hf, _⟩ := hthr
    exact ctlMove_set (nd' := (nodeAt s.nodes f.tb).build i f.e) hf.lt (fun _ => Or.inl rfl) tb x
  | st1 f i hpc he =>
    subst he
    have hthr : ThreadOK hash s.nodes s.chain (.st1 f i) := by have := h.thr t; rw [hpc] at this; exact this
    obtain ⟨p, hf, hown, _, hc, _⟩ := hthr
    have hr := (h.nodes _ hf.lt).real hown.real
    have hilt : i < (nodeAt s.nodes f.tb).tab.n := by rw [← hf.nEq]; exact hown.lt
    apply ctlMove_set hf.lt
    intro y
    rw [setCtl_ctl _ _ _ (by rw [hr.ctrlLen]; omega)]
    split
    · next e => subst e; exact Or.inr (Or.inr (Or.inl ⟨hilt, hc, tagOf_nonneg _⟩))
    · exact Or.inl rfl
  | st2 f i hpc he =>
    subst he
    have hthr : ThreadOK hash s.nodes s.chain (.st2 f i) := by have := h.thr t; rw [hpc] at this; exact this
    obtain ⟨p, hf, hown, _, hc, _, hm⟩ := hthr
    have hr := (h.nodes _ hf.lt).real hown.real
    have hilt : i < (nodeAt s.nodes f.tb).tab.n := by rw [← hf.nEq]; exact hown.lt
    have hci := clonedIndex_eq hr.ge16 hilt
    apply ctlMove_set hf.lt
    intro y
    rw [setCtl_ctl _ _ _ (by rw [hr.ctrlLen, hci]; split <;> omega)]
    split
    · next e =>
      rw [hci] at e
      split at e
      · next h15 =>
        subst e
        refine Or.inr (Or.inr (Or.inr ⟨by omega, ?_, tagOf_nonneg _⟩))
        rw [Nat.add_comm, ← hf.nEq]; exact hm h15
      · subst e; exact Or.inl hc
    · exact Or.inl rfl
  | sz f i hpc he =>
    subst he
    have hthr : ThreadOK hash s.nodes s.chain (.sz f i) := by have := h.thr t; rw [hpc] at this; exact this
    obtain ⟨p, hf, _⟩ := hthr
    exact ctlMove_set (nd' := (nodeAt s.nodes f.tb).bump) hf.lt (fun _ => Or.inl rfl) tb x
  | alloc f hpc he =>
    subst he
    show CtlMove _ x _ ((nodeAt (s.nodes ++ [_]) tb).tab.ctl x)
    rw [nodeAt_append_lt _ _ htb]; exact Or.inl rfl
  | link f nw hpc hnx he =>
    subst he
    have hthr : ThreadOK hash s.nodes s.chain (.nextCas f nw) := by have := h.thr t; rw [hpc] at this; exact this
    obtain ⟨p, hf, _⟩ := hthr
    exact ctlMove_set (nd' := (nodeAt s.nodes f.tb).link nw) hf.lt (fun _ => Or.inl rfl) tb x

/-! ### the mirrored byte lags only during one insert -/

/-- the inserter of bucket `j` of node `tb` is between its CAS and its second release store -/
def Inserting (s : State) (tb j : Nat) : Prop :=
  ∃ t f, (s.pc t = .construct f j ∨ s.pc t = .st1 f j ∨ s.pc t = .st2 f j) ∧ f.tb = tb

def InvMirror (s : State) : Prop :=
  ∀ tb, tb < s.nodes.length → (nodeAt s.nodes tb).tab.dummy = false → ∀ j, j < 15 →
    (nodeAt s.nodes tb).tab.ctl j ≠ emptyCtl →
    (nodeAt s.nodes tb).tab.ctl ((nodeAt s.nodes tb).tab.n + j) = emptyCtl → Inserting s tb j

theorem pc_ne_ins {p : Pc} (hown : ownerOf p = none) (g : Frame) (j : Nat) :
    p ≠ .construct g j ∧ p ≠ .st1 g j ∧ p ≠ .st2 g j := by
  refine ⟨?_, ?_, ?_⟩ <;> (intro e; rw [e] at hown; simp [ownerOf] at hown)

theorem Inserting.other {s s' : State} {t tb j : Nat} (hpc : ∀ t', t' ≠ t → s'.pc t' = s.pc t')
    (h : Inserting s tb j) (hne : ∀ f, s.pc t ≠ .construct f j ∧ s.pc t ≠ .st1 f j ∧ s.pc t ≠ .st2 f j ∨ f.tb ≠ tb) :
    Inserting s' tb j := by
  obtain ⟨t0, f, hp, hf⟩ := h
  have : t0 ≠ t := by
    intro e
    subst e
    rcases hne f with ⟨h1, h2, h3⟩ | h4
    · rcases hp with hp | hp | hp
      · exact h1 hp
      · exact h2 hp
      · exact h3 hp
    · exact h4 hf
  exact ⟨t0, f, by rw [hpc t0 this]; exact hp, hf⟩

theorem invMirror_step {s s' : State} {t : Nat} (h : Inv hash s) (h' : Inv hash s') (hm : InvMirror s)
    (k : ActKind hash s s' t) : InvMirror s' := by
  have hothers : ∀ p s0, (∀ t', t' ≠ t → (setPc s0 t p).pc t' = s0.pc t') :=
    fun p s0 t' ht' => upd_other _ _ ht'
  -- a step that leaves the control bytes alone and whose thread is not between CAS and second store
  have hsame : ∀ (p' : Pc), s'.nodes.length = s.nodes.length →
      (∀ tb x, (nodeAt s'.nodes tb).tab.ctl x = (nodeAt s.nodes tb).tab.ctl x) →
      (∀ tb, (nodeAt s'.nodes tb).tab.dummy = (nodeAt s.nodes tb).tab.dummy) →
      (∀ tb, (nodeAt s'.nodes tb).tab.n = (nodeAt s.nodes tb).tab.n) →
      (∀ t', t' ≠ t → s'.pc t' = s.pc t') →
      (∀ tb j, Inserting s tb j → (∃ f, (s.pc t = .construct f j ∨ s.pc t = .st1 f j ∨ s.pc t = .st2 f j) ∧ f.tb = tb) →
        Inserting s' tb j) → InvMirror s' := by
    intro p' hlen hctl hdum hn hpc hkeep tb htb hd j hj h1 h2
    rw [hctl, hn] at h2
    rw [hctl] at h1
    have hins := hm tb (by rw [← hlen]; exact htb) (by rw [← hdum]; exact hd) j hj h1 h2
    by_cases hself : ∃ f, (s.pc t = .construct f j ∨ s.pc t = .st1 f j ∨ s.pc t = .st2 f j) ∧ f.tb = tb
    · exact hkeep tb j hins hself
    · apply hins.other hpc
      intro f
      by_cases hf : f.tb = tb
      · left
        refine ⟨fun e => hself ⟨f, Or.inl e, hf⟩, fun e => hself ⟨f, Or.inr (Or.inl e), hf⟩,
          fun e => hself ⟨f, Or.inr (Or.inr e), hf⟩⟩
      · exact Or.inr hf
  cases k with
  | quiet p' hown hq he =>
    subst he
    apply hsame p' rfl (fun _ _ => rfl) (fun _ => rfl) (fun _ => rfl) (hothers _ _)
    intro tb j _ ⟨f, hp, _⟩
    rcases hp with hp | hp | hp <;> (rw [hp] at hown; simp [ownerOf] at hown)
  | casWin f i hpc hemp he =>
    subst he
    have hthr : ThreadOK hash s.nodes s.chain (.cas f i) := by have := h.thr t; rw [hpc] at this; exact this
    obtain ⟨p, hf, _, _, _, _, j0, _, hi, _⟩ := hthr
    intro tb htb hd j hj h1 h2
    have htb' : tb < s.nodes.length := by
      have : tb < (s.nodes.set f.tb _).length := htb
      rwa [List.length_set] at this
    change (nodeAt (s.nodes.set f.tb _) tb).tab.ctl j ≠ emptyCtl at h1
    change (nodeAt (s.nodes.set f.tb _) tb).tab.ctl ((nodeAt (s.nodes.set f.tb _) tb).tab.n + j) = emptyCtl at h2
    change (nodeAt (s.nodes.set f.tb _) tb).tab.dummy = false at hd
    have hnotme : ∀ g : Frame, s.pc t ≠ .construct g j ∧ s.pc t ≠ .st1 g j ∧ s.pc t ≠ .st2 g j ∨ g.tb ≠ tb := by
      intro g; left; rw [hpc]
      exact pc_ne_ins rfl g j
    by_cases e : tb = f.tb
    · subst e
      rw [nodeAt_set_same _ _ _ hf.lt] at h1 h2 hd
      have hd0 : (nodeAt s.nodes f.tb).tab.dummy = false := hd
      have hr := (h.nodes _ hf.lt).real hd0
      have hilt : i < (nodeAt s.nodes f.tb).tab.n := by rw [hi, hf.nEq]; exact Nat.mod_lt _ hr.npos
      have hil : i < (nodeAt s.nodes f.tb).tab.ctrl.length := by rw [hr.ctrlLen]; omega
      by_cases hji : j = i
      · subst hji
        exact ⟨t, f, Or.inl (setPc_pc_same _ _ _), rfl⟩
      · have h1' : ((nodeAt s.nodes f.tb).setCtl i busyCtl).tab.ctl j ≠ emptyCtl := h1
        have h2' : ((nodeAt s.nodes f.tb).setCtl i busyCtl).tab.ctl ((nodeAt s.nodes f.tb).tab.n + j) = emptyCtl := h2
        rw [setCtl_ctl _ _ _ hil, if_neg hji] at h1'
        rw [setCtl_ctl _ _ _ hil, if_neg (by omega)] at h2'
        exact (hm f.tb hf.lt hd0 j hj h1' h2').other (hothers _ _) hnotme
    · rw [nodeAt_set_other _ _ e] at h1 h2 hd
      exact (hm tb htb' hd j hj h1 h2).other (hothers _ _) hnotme
  | build f i hpc he =>
    subst he
    have hthr : ThreadOK hash s.nodes s.chain (.construct f i) := by have := h.thr t; rw [hpc] at this; exact this
    obtain ⟨p, hf, _⟩ := hthr
    have hnode : ∀ tb, (nodeAt (s.nodes.set f.tb ((nodeAt s.nodes f.tb).build i f.e)) tb).tab.ctl =
        (nodeAt s.nodes tb).tab.ctl ∧
        (nodeAt (s.nodes.set f.tb ((nodeAt s.nodes f.tb).build i f.e)) tb).tab.dummy = (nodeAt s.nodes tb).tab.dummy ∧
        (nodeAt (s.nodes.set f.tb ((nodeAt s.nodes f.tb).build i f.e)) tb).tab.n = (nodeAt s.nodes tb).tab.n := by
      intro tb
      rw [nodeAt_set _ _ _ _ hf.lt]; split
      · next e => subst e; exact ⟨rfl, rfl, rfl⟩
      · exact ⟨rfl, rfl, rfl⟩
    apply hsame (.st1 f.setBuilt i) (by show (s.nodes.set _ _).length = _; simp)
      (fun tb x => by show (nodeAt (s.nodes.set _ _) tb).tab.ctl x = _; rw [(hnode tb).1])
      (fun tb => (hnode tb).2.1) (fun tb => (hnode tb).2.2) (hothers _ _)
    intro tb j _ ⟨g, hp, hg⟩
    rw [hpc] at hp
    rcases hp with hp | hp | hp
    · cases hp
      exact ⟨t, f.setBuilt, Or.inr (Or.inl (setPc_pc_same _ _ _)), hg⟩
    · cases hp
    · cases hp
  | st1 f i hpc he =>
    subst he
    have hthr : ThreadOK hash s.nodes s.chain (.st1 f i) := by have := h.thr t; rw [hpc] at this; exact this
    obtain ⟨p, hf, hown, _, hc, _⟩ := hthr
    have hr := (h.nodes _ hf.lt).real hown.real
    have hilt : i < (nodeAt s.nodes f.tb).tab.n := by rw [← hf.nEq]; exact hown.lt
    have hil : i < (nodeAt s.nodes f.tb).tab.ctrl.length := by rw [hr.ctrlLen]; omega
    intro tb htb hd j hj h1 h2
    have htb' : tb < s.nodes.length := by
      have : tb < (s.nodes.set f.tb _).length := htb
      rwa [List.length_set] at this
    change (nodeAt (s.nodes.set f.tb _) tb).tab.ctl j ≠ emptyCtl at h1
    change (nodeAt (s.nodes.set f.tb _) tb).tab.ctl ((nodeAt (s.nodes.set f.tb _) tb).tab.n + j) = emptyCtl at h2
    change (nodeAt (s.nodes.set f.tb _) tb).tab.dummy = false at hd
    by_cases e : tb = f.tb
    · subst e
      rw [nodeAt_set_same _ _ _ hf.lt] at h1 h2 hd
      by_cases hji : j = i
      · subst hji
        exact ⟨t, f, Or.inr (Or.inr (setPc_pc_same _ _ _)), rfl⟩
      · rw [setCtl_ctl _ _ _ hil, if_neg hji] at h1
        rw [setCtl_n, setCtl_ctl _ _ _ hil, if_neg (by omega)] at h2
        apply (hm f.tb hf.lt hown.real j hj h1 h2).other (hothers _ _)
        intro g; left; rw [hpc]
        refine ⟨(fun e2 => nomatch e2), ?_, (fun e2 => nomatch e2)⟩
        intro e2; cases e2; exact hji rfl
    · rw [nodeAt_set_other _ _ e] at h1 h2 hd
      apply (hm tb htb' hd j hj h1 h2).other (hothers _ _)
      intro g
      by_cases hg : g.tb = tb
      · left; rw [hpc]
        refine ⟨(fun e2 => nomatch e2), ?_, (fun e2 => nomatch e2)⟩
        intro e2; cases e2; exact e hg.symm
      · exact Or.inr hg
  | st2 f i hpc he =>
    subst he
    have hthr : ThreadOK hash s.nodes s.chain (.st2 f i) := by have := h.thr t; rw [hpc] at this; exact this
    obtain ⟨p, hf, hown, _, hc, _, hmir⟩ := hthr
    have hr := (h.nodes _ hf.lt).real hown.real
    have hilt : i < (nodeAt s.nodes f.tb).tab.n := by rw [← hf.nEq]; exact hown.lt
    have hci := clonedIndex_eq hr.ge16 hilt
    have h16 := hr.ge16
    have hctl : ∀ y, ((nodeAt s.nodes f.tb).setCtl ((nodeAt s.nodes f.tb).tab.clonedIndex i) (tagOf (hash f.e.1))).tab.ctl y =
        if y = (nodeAt s.nodes f.tb).tab.clonedIndex i then tagOf (hash f.e.1) else (nodeAt s.nodes f.tb).tab.ctl y :=
      fun y => setCtl_ctl _ _ _ (by rw [hr.ctrlLen, hci]; split <;> omega) y
    intro tb htb hd j hj h1 h2
    have htb' : tb < s.nodes.length := by
      have : tb < (s.nodes.set f.tb _).length := htb
      rwa [List.length_set] at this
    change (nodeAt (s.nodes.set f.tb _) tb).tab.ctl j ≠ emptyCtl at h1
    change (nodeAt (s.nodes.set f.tb _) tb).tab.ctl ((nodeAt (s.nodes.set f.tb _) tb).tab.n + j) = emptyCtl at h2
    change (nodeAt (s.nodes.set f.tb _) tb).tab.dummy = false at hd
    by_cases e : tb = f.tb
    · subst e
      rw [nodeAt_set_same _ _ _ hf.lt] at h1 h2 hd
      by_cases hji : j = i
      · -- the mirrored byte of this very bucket has just been written
        subst hji
        exfalso
        rw [setCtl_n, hctl, hci, if_pos hj, if_pos (by omega)] at h2
        exact tagOf_ne_empty _ h2
      · rw [hctl, if_neg (by rw [hci]; split <;> omega)] at h1
        rw [setCtl_n, hctl, if_neg (by rw [hci]; split <;> omega)] at h2
        apply (hm f.tb hf.lt hown.real j hj h1 h2).other (hothers _ _)
        intro g; left; rw [hpc]
        refine ⟨(fun e2 => nomatch e2), (fun e2 => nomatch e2), ?_⟩
        intro e2; cases e2; exact hji rfl
    · rw [nodeAt_set_other _ _ e] at h1 h2 hd
      apply (hm tb htb' hd j hj h1 h2).other (hothers _ _)
      intro g
      by_cases hg : g.tb = tb
      · left; rw [hpc]
        refine ⟨(fun e2 => nomatch e2), (fun e2 => nomatch e2), ?_⟩
        intro e2; cases e2; exact e hg.symm
      · exact Or.inr hg
  | sz f i hpc he =>
    subst he
    have hthr : ThreadOK hash s.nodes s.chain (.sz f i) := by have := h.thr t; rw [hpc] at this; exact this
    obtain ⟨p, hf, _⟩ := hthr
    have hnode : ∀ tb, (nodeAt (s.nodes.set f.tb (nodeAt s.nodes f.tb).bump) tb).tab.ctl = (nodeAt s.nodes tb).tab.ctl ∧
        (nodeAt (s.nodes.set f.tb (nodeAt s.nodes f.tb).bump) tb).tab.dummy = (nodeAt s.nodes tb).tab.dummy ∧
        (nodeAt (s.nodes.set f.tb (nodeAt s.nodes f.tb).bump) tb).tab.n = (nodeAt s.nodes tb).tab.n := by
      intro tb
      rw [nodeAt_set _ _ _ _ hf.lt]; split
      · next e => subst e; exact ⟨rfl, rfl, rfl⟩
      · exact ⟨rfl, rfl, rfl⟩
    apply hsame (.ret f (.slot f.tb i true)) (by show (s.nodes.set _ _).length = _; simp)
      (fun tb x => by show (nodeAt (s.nodes.set _ _) tb).tab.ctl x = _; rw [(hnode tb).1])
      (fun tb => (hnode tb).2.1) (fun tb => (hnode tb).2.2) (hothers _ _)
    intro tb j _ ⟨g, hp, _⟩
    rw [hpc] at hp
    rcases hp with hp | hp | hp <;> cases hp
  | alloc f hpc he =>
    subst he
    intro tb htb hd j hj h1 h2
    have hlen : tb < s.nodes.length + 1 := by
      have : tb < (s.nodes ++ [_]).length := htb
      simpa using this
    change (nodeAt (s.nodes ++ [_]) tb).tab.ctl j ≠ emptyCtl at h1
    rcases Nat.lt_or_ge tb s.nodes.length with hl | hl
    · change (nodeAt (s.nodes ++ [_]) tb).tab.ctl ((nodeAt (s.nodes ++ [_]) tb).tab.n + j) = emptyCtl at h2
      change (nodeAt (s.nodes ++ [_]) tb).tab.dummy = false at hd
      rw [nodeAt_append_lt _ _ hl] at h1 h2 hd
      have := hm tb hl hd j hj h1 h2
      apply this.other (hothers _ _)
      intro g
      left; rw [hpc]; exact pc_ne_ins rfl g j
    · have : tb = s.nodes.length := by omega
      subst this
      rw [nodeAt_append_eq] at h1
      exact absurd (by rw [show (Node.ofTable (Table.mk' _)).tab = Table.fresh _ from rfl]; exact fresh_ctl _ _) h1
  | link f nw hpc hnx he =>
    subst he
    have hthr : ThreadOK hash s.nodes s.chain (.nextCas f nw) := by have := h.thr t; rw [hpc] at this; exact this
    obtain ⟨p, hf, _⟩ := hthr
    have hnode : ∀ tb, (nodeAt (s.nodes.set f.tb ((nodeAt s.nodes f.tb).link nw)) tb).tab = (nodeAt s.nodes tb).tab := by
      intro tb
      rw [nodeAt_set _ _ _ _ hf.lt]; split
      · next e => subst e; rfl
      · rfl
    apply hsame (.load (entered hash (s.nodes.set f.tb ((nodeAt s.nodes f.tb).link nw)) f nw))
      (by show (s.nodes.set _ _).length = _; simp)
      (fun tb x => by show (nodeAt (s.nodes.set _ _) tb).tab.ctl x = _; rw [hnode tb])
      (fun tb => by show (nodeAt (s.nodes.set _ _) tb).tab.dummy = _; rw [hnode tb])
      (fun tb => by show (nodeAt (s.nodes.set _ _) tb).tab.n = _; rw [hnode tb]) (hothers _ _)
    intro tb j _ ⟨g, hp, _⟩
    rw [hpc] at hp
    rcases hp with hp | hp | hp <;> cases hp

end Babylon.Swiss.Conc
