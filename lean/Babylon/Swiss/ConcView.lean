/-
  Property C03, weak-memory part: publication of a bucket and of a grown table node under the
  release/acquire VIEW model `Babylon.Core.MemView` (stale reads included).  Generic message-passing
  lemmas for the two patterns the hash table uses:

    * inserter: plain write of the value cell, then a store of the tag into a control byte;
      reader: a load of that control byte (one of the 16 byte loads of the group), later a fence,
      later a plain read of the value cell                                   (`publication_store_fence`);
    * winner of the growth race: plain writes into the new node / its control bytes, then the CAS
      on `next`; reader: a load of `next`, or the FAILED CAS of the loser, later plain reads of the
      node                                              (`publication_cas_load`, `publication_cas_cas`).

  A plain (non-atomic) access is modelled as an access of arbitrary order `ov` (so in particular
  the weakest, relaxed): "the reader sees the constructed cell in every execution" = the message it
  may read is not older than the constructing write, and is that write if the cell is written once.
  Other threads' and the two threads' own intermediate actions are arbitrary (`Mem.Ext`).
  Core Lean only.
-/
import Babylon.Core.MemView

namespace Babylon.Swiss.ConcView
open Babylon.Core Babylon.Core.MemView

variable {L : Type} [DecidableEq L]

/-- a fence whose order acquires moves `acq` into `cur` -/
theorem fence_acquires (m : Mem L) (t : Nat) (o : Core.Ord) (h : o.acquires = true) :
    (m.tv t).acq ≤ ((m.fence t o).tv t).cur := by
  cases o <;> simp [Core.Ord.acquires] at h
  · simp [Mem.fence]; exact View.le_join_right _ _
  · simp [Mem.fence]; exact View.le_join_right _ _
  · simp [Mem.fence]; exact View.le_trans (View.le_join_right _ _) (View.le_join_left _ _)

/-- the thread that wrote `(l, m.len l)` knows it -/
theorem write_cur_ts (m : Mem L) (t : Nat) (l : L) (o : Core.Ord) (v : Nat) :
    m.len l ≤ ((m.write t l o v).tv t).cur.get l := by
  simp [Mem.write, TView.wrote]; omega

theorem write_msg (m : Mem L) (t : Nat) (l : L) (o : Core.Ord) (v : Nat) :
    ∃ W, ((m.write t l o v).hist l)[m.len l]? = some ⟨v, W⟩ ∧ (o.releases = true → (m.tv t).cur ≤ W) := by
  refine ⟨((m.tv t).wrote l (m.len l)).relView l (m.len l) o, ?_, ?_⟩
  · rw [Mem.write_hist_same]; simp [Mem.len]
  · intro hr
    simp only [TView.relView, hr, if_true, TView.wrote]
    exact View.le_bump _ _ _

/-- Message passing, store → load → fence: the storing thread's view at the store is part of the
reader's view after a later acquiring fence, whatever the order of the load. -/
theorem mp_store_load_fence (m : Mem L) (a b : Nat) (c : L) (os ol of : Core.Ord) (v : Nat)
    {m2 m3 m4 : Mem L} {v' : Nat}
    (hrel : os.releases = true) (hacq : of.acquires = true)
    (hext : (m.write a c os v).Ext m2) (h : m2.read b c ol (m.len c) = some (m3, v')) (hext2 : m3.Ext m4) :
    v' = v ∧ (m.tv a).cur ≤ ((m4.fence b of).tv b).cur := by
  obtain ⟨W, hmsg, hW⟩ := write_msg m a c os v
  have hmsg2 := hext.get? c _ _ hmsg
  obtain ⟨msg, hm, hv, _, rfl⟩ := Mem.read_spec h
  rw [hmsg2] at hm
  cases hm
  refine ⟨hv, ?_⟩
  have h2 := hext2.acq b
  simp only [upd_same] at h2
  have h1 := TView.read_acq_view (m2.tv b) (⟨v, W⟩ : Msg L) c (m.len c) ol
  exact View.le_trans (hW hrel) (View.le_trans h1 (View.le_trans h2 (fence_acquires m4 b of hacq)))

/-- **Publication of a bucket.**  Thread `a` writes the value cell `vl` (plain), later stores `tag`
into the control byte `c` with a releasing order; thread `b` loads that message of `c` (any order),
later executes an acquiring fence, later reads `vl` (plain): the message it reads is not older than
the constructing write — in every execution, stale reads included — and it is that write (value
`e`) if the cell has been written only once. -/
theorem publication_store_fence (m : Mem L) (a b : Nat) (vl c : L) (ov ov' os ol of : Core.Ord) (e tag : Nat)
    {m1 m2 m3 m4 m5 m6 : Mem L} {v ts' v' : Nat}
    (hrel : os.releases = true) (hacq : of.acquires = true)
    (h1 : (m.write a vl ov e).Ext m1)
    (h2 : (m1.write a c os tag).Ext m2)
    (h3 : m2.read b c ol (m1.len c) = some (m3, v))
    (h4 : m3.Ext m4)
    (h5 : (m4.fence b of).Ext m5)
    (h6 : m5.read b vl ov' ts' = some (m6, v')) :
    v = tag ∧ m.len vl ≤ ts' ∧ (m5.len vl = m.len vl + 1 → v' = e) := by
  obtain ⟨hv, hle⟩ := mp_store_load_fence m1 a b c os ol of tag hrel hacq h2 h3 h4
  have k1 := write_cur_ts m a vl ov e
  have k2 := h1.cur a vl
  have k3 := hle vl
  have k4 := h5.cur b vl
  have k5 := read_respects_view h6
  have hts : m.len vl ≤ ts' := by omega
  refine ⟨hv, hts, fun hlen => ?_⟩
  have hlt := Mem.read_ts_lt h6
  have hte : ts' = m.len vl := by omega
  subst hte
  obtain ⟨W, hmsg, _⟩ := write_msg m a vl ov e
  have e1 := h1.get? vl _ _ hmsg
  have e2 := (Mem.write_ext m1 a c os tag).get? vl _ _ e1
  have e3 := h2.get? vl _ _ e2
  have e4 := (Mem.read_ext h3).get? vl _ _ e3
  have e5 := h4.get? vl _ _ e4
  have e6 := (Mem.fence_ext m4 b of).get? vl _ _ e5
  have e7 := h5.get? vl _ _ e6
  obtain ⟨msg, hm, hvv, _, _⟩ := Mem.read_spec h6
  rw [e7] at hm
  cases hm
  exact hvv

/-- the message appended by a successful CAS -/
theorem cas_msg {m m1 : Mem L} {a : Nat} {nx : L} {so fo : Core.Ord} {e d ts obs : Nat}
    (hc : m.cas a nx so fo e d ts = some (m1, true, obs)) :
    ∃ W, (m1.hist nx)[m.len nx]? = some ⟨d, W⟩ ∧ (so.releases = true → (m.tv a).cur ≤ W) ∧ m.Ext m1 := by
  have hext := Mem.cas_ext hc
  rcases Mem.cas_spec hc with ⟨_, _, hr⟩ | ⟨hf, _⟩
  · obtain ⟨msg, W, _, _, hh, _, _, _, hrel, _⟩ := Mem.rmw_facts hr
    refine ⟨W, ?_, hrel, hext⟩
    rw [hh]; simp [Mem.len]
  · cases hf

/-- Message passing, CAS → acquiring load of the CAS's message. -/
theorem mp_cas_load (m : Mem L) (a b : Nat) (nx : L) (so fo ol : Core.Ord) (e d ts : Nat)
    {m1 m2 m3 : Mem L} {obs v : Nat}
    (hrel : so.releases = true) (hacq : ol.acquires = true)
    (hc : m.cas a nx so fo e d ts = some (m1, true, obs)) (hext : m1.Ext m2)
    (h : m2.read b nx ol (m.len nx) = some (m3, v)) : v = d ∧ (m.tv a).cur ≤ (m3.tv b).cur := by
  obtain ⟨W, hmsg, hW, _⟩ := cas_msg hc
  have hmsg2 := hext.get? nx _ _ hmsg
  obtain ⟨msg, hm, hv, _, rfl⟩ := Mem.read_spec h
  rw [hmsg2] at hm
  cases hm
  refine ⟨hv, ?_⟩
  simp only [upd_same]
  exact View.le_trans (hW hrel)
    (TView.read_acquires (m2.tv b) (⟨d, W⟩ : Msg L) nx (m.len nx) ol hacq)

/-- **Publication of a grown table node, reader = a load of `next`.**  Thread `a` writes a field /
control byte `nf` of the new node (plain), later wins the CAS on `nx` with a releasing success
order; thread `b` loads the CAS's message with an acquiring order, later reads `nf` (plain): it
cannot read a message older than the winner's write, and reads exactly it if `nf` has been written
once. -/
theorem publication_cas_load (m : Mem L) (a b : Nat) (nf nx : L) (ov ov' so fo ol : Core.Ord) (x e d ts : Nat)
    {m1 m2 m3 m4 m5 m6 : Mem L} {obs v ts' v' : Nat}
    (hrel : so.releases = true) (hacq : ol.acquires = true)
    (h1 : (m.write a nf ov x).Ext m1)
    (h2 : m1.cas a nx so fo e d ts = some (m2, true, obs))
    (h3 : m2.Ext m3)
    (h4 : m3.read b nx ol (m1.len nx) = some (m4, v))
    (h5 : m4.Ext m5)
    (h6 : m5.read b nf ov' ts' = some (m6, v')) :
    v = d ∧ m.len nf ≤ ts' ∧ (m5.len nf = m.len nf + 1 → v' = x) := by
  obtain ⟨hv, hle⟩ := mp_cas_load m1 a b nx so fo ol e d ts hrel hacq h2 h3 h4
  have k1 := write_cur_ts m a nf ov x
  have k2 := h1.cur a nf
  have k3 := hle nf
  have k4 := h5.cur b nf
  have k5 := read_respects_view h6
  have hts : m.len nf ≤ ts' := by omega
  refine ⟨hv, hts, fun hlen => ?_⟩
  have hlt := Mem.read_ts_lt h6
  have hte : ts' = m.len nf := by omega
  subst hte
  obtain ⟨W, hmsg, _⟩ := write_msg m a nf ov x
  have e1 := h1.get? nf _ _ hmsg
  have e2 := (Mem.cas_ext h2).get? nf _ _ e1
  have e3 := h3.get? nf _ _ e2
  have e4 := (Mem.read_ext h4).get? nf _ _ e3
  have e5 := h5.get? nf _ _ e4
  obtain ⟨msg, hm, hvv, _, _⟩ := Mem.read_spec h6
  rw [e5] at hm
  cases hm
  exact hvv

/-- **Publication of a grown table node, reader = the loser of the growth race**: its CAS on `nx`
fails reading the winner's message (failure order acquiring) and hands back the winner's node. -/
theorem publication_cas_cas (m : Mem L) (a b : Nat) (nf nx : L) (ov ov' so fo so' fo' : Core.Ord)
    (x e d ts e' d' : Nat) {m1 m2 m3 m4 m5 m6 : Mem L} {obs obs' ts' v' : Nat}
    (hrel : so.releases = true) (hacq : fo'.acquires = true)
    (h1 : (m.write a nf ov x).Ext m1)
    (h2 : m1.cas a nx so fo e d ts = some (m2, true, obs))
    (h3 : m2.Ext m3)
    (h4 : m3.cas b nx so' fo' e' d' (m1.len nx) = some (m4, false, obs'))
    (h5 : m4.Ext m5)
    (h6 : m5.read b nf ov' ts' = some (m6, v')) :
    obs' = d ∧ m.len nf ≤ ts' ∧ (m5.len nf = m.len nf + 1 → v' = x) := by
  rcases Mem.cas_spec h4 with ⟨ht, _⟩ | ⟨_, _, hr⟩
  · cases ht
  · exact publication_cas_load m a b nf nx ov ov' so fo fo' x e d ts hrel hacq h1 h2 h3 hr h5 h6

end Babylon.Swiss.ConcView
