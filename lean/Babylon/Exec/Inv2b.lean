/-
  Three more facts about tickets: a worker waiting for global pop ticket `i` is the only one, the cell
  of its ticket has not been released, and the balance thread forwards only tasks.
-/
import Babylon.Exec.Inv2Pres
import Babylon.Exec.QLemmas

namespace Babylon.Exec
open Babylon.Core

structure Inv2b (s : State) : Prop where
  g5 : ∀ w i, s.pc w = .wGWait i → s.g.stAt i ≠ some .free
  g2u : ∀ w w' i, s.pc w = .wGWait i → s.pc w' = .wGWait i → w = w'
  l9 : ∀ t x k, s.pc t = .gTake x (.bSweep k) → x.isTask = true

theorem Inv2b.init (c : Cfg) : Inv2b (State.init c) := by
  have hp := init_pc c
  refine ⟨?_, ?_, ?_⟩
  · intro w i h; rcases hp w with h1 | h1 | h1 <;> rw [h1] at h <;> cases h
  · intro w w' i h; rcases hp w with h1 | h1 | h1 <;> rw [h1] at h <;> cases h
  · intro t x k h; rcases hp t with h1 | h1 | h1 <;> rw [h1] at h <;> cases h

macro "b_close" : tactic => `(tactic| (
  (try simp only [exec_proj, upd_same, Q.claim_fold, Q.bump_fold] at *)
  first
    | done
    | grind [upd, Pc.plain, claimPc, dispatchPc, PopCtx.onEmpty, Item.isTask, afterLdRunS, afterLdRunB, afterJoinW,
        afterSubmit, afterSize,
        Q.stAt_setSt, Q.stAt_take, Q.length_take, Q.length_setSt, Q.popIdx_setSt, Q.popIdx_take,
        Q.stAt_bump, Q.popIdx_bump, Q.length_bump, Q.stAt_some_lt]))

section
variable {c : Cfg} {s s' : State} {t : Nat} {lb : Lbl}

set_option maxHeartbeats 4000000 in
theorem Inv2b.step_g5 (I : Inv1 c s) (J : Inv2 c s) (B : Inv2b s) (h : StepCase c s t lb s') :
    ∀ w i, s'.pc w = .wGWait i → s'.g.stAt i ≠ some .free := by
  intro w i hp
  have g5 := B.g5
  have g2u := B.g2u
  have g0 := J.g0
  have g2 := J.g2
  have l4 := J.l4
  have hwf := I.wf t
  have hd := plain_dispatchPc
  have hoe := plain_onEmpty
  have hmc := plain_markChain c
  have has := plain_afterStore c
  have hcl := plain_claimPc
  have hk : ∀ p k, s.pc t = .gPub p k → k.plain := by
    intro p k hp; rw [hp] at hwf; exact plain_cont c none k hwf
  clear I J B hwf
  cases h
  case wGPop k0 hpc =>
    clear l4
    have hg0 : ∀ st, s.g.stAt s.g.popIdx = some st → st ≠ .free := by
      intro st hst hf
      obtain ⟨hl⟩ : s.g.popIdx < s.g.cells.length ∧ True := ⟨Q.stAt_some_lt _ _ _ hst, trivial⟩
      have hget : s.g.cells[s.g.popIdx]? = some (s.g.cells[s.g.popIdx]) := by simp [hl]
      have := g0 _ _ hget (Nat.le_refl _)
      apply this
      simp [Q.stAt, hget] at hst
      rw [hst, hf]
    b_close
  case wRecv i0 cl hpc hcell hfull =>
    have hc2 := Q.stAt_eq _ _ _ hcell
    have hc3 : i0 < s.g.cells.length := Q.stAt_some_lt _ _ _ hc2
    rw [hfull] at hc2
    clear hcell l4
    cases hx : cl.item <;> simp only [hx] at * <;> b_close
  case gPublish p k hpc hfree hst =>
    have hc3 : p < s.g.cells.length := Q.stAt_some_lt _ _ _ hst
    clear l4; b_close
  all_goals (clear l4; try b_close)

set_option maxHeartbeats 4000000 in
theorem Inv2b.step_g2u (I : Inv1 c s) (J : Inv2 c s) (B : Inv2b s) (h : StepCase c s t lb s') :
    ∀ w w' i, s'.pc w = .wGWait i → s'.pc w' = .wGWait i → w = w' := by
  intro w w' i hp hp'
  have g2u := B.g2u
  have g2 := J.g2
  have hwf := I.wf t
  have hd := plain_dispatchPc
  have hoe := plain_onEmpty
  have hmc := plain_markChain c
  have has := plain_afterStore c
  have hcl := plain_claimPc
  have hk : ∀ p k, s.pc t = .gPub p k → k.plain := by
    intro p k hp; rw [hp] at hwf; exact plain_cont c none k hwf
  clear I J B hwf
  cases h
  all_goals (try b_close)

set_option maxHeartbeats 4000000 in
theorem Inv2b.step_l9 (I : Inv1 c s) (J : Inv2 c s) (B : Inv2b s) (h : StepCase c s t lb s') :
    ∀ t' x k, s'.pc t' = .gTake x (.bSweep k) → x.isTask = true := by
  intro t' x k hp
  have l9 := B.l9
  have l4 := J.l4
  have hwf := I.wf t
  have hne : ∀ n x k, markChain c n ≠ .gTake x (.bSweep k) := by
    intro n x k hh
    rcases markChain_cases c n with h1 | h1 | ⟨m, h1⟩
    · rw [h1] at hh; cases hh
    · rw [h1] at hh; cases hh
    · rw [h1] at hh
      injection hh with _ hk2
      have := markChain_role c m
      rw [hk2] at this; simp [Pc.role] at this
  have hk : ∀ p k0, s.pc t = .gPub p k0 → ∀ x k, k0 ≠ .gTake x (.bSweep k) := by
    intro p k0 hp x k hh
    rw [hp, hh] at hwf
    have hwf' : ((none : Option Item) = none ∨ (none : Option Item) = some .stop) ∧
        ∃ n, Pc.gTake x (.bSweep k) = markChain c n := hwf
    obtain ⟨_, n, hn⟩ := hwf'
    exact hne n x k hn.symm
  have has : ∀ x k, afterStore c ≠ .gTake x (.bSweep k) := by
    intro x k; unfold afterStore; split
    · simp
    · exact hne _ x k
  clear I J B hwf
  cases h
  case popClaim ctx i0 k0 nr cl hpc hq hi hcell hfull =>
    have hit := l4 k0 i0 cl hcell
    clear hcell l4
    cases ctx <;> cases hx : cl.item <;> simp only [hx] at * <;> b_close
  case wRecv i0 cl hpc hcell hfull =>
    clear hcell l4
    cases hx : cl.item <;> simp only [hx] at * <;> b_close
  case popEmpty ctx i0 k0 hpc hq hi0 =>
    clear l4
    cases ctx <;> b_close
  all_goals (clear l4; try b_close)

end
end Babylon.Exec
