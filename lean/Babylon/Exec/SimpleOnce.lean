/-
  The always-new-thread executor, exactly once: every task gets one thread (`::std::thread` inside the
  one `invoke` that accepted it), that thread runs it once, and it is not the submitting thread.
-/
import Babylon.Exec.SimpleLemmas

namespace Babylon.Exec.Simple
open Babylon.Core

structure InvX (s : State) : Prop where
  x2a : ∀ t id par, s.npc t = .nSub id par → s.runs id = 0 ∧ id ∉ s.spawned ∧ s.subBy id = some t
  x2b : ∀ t id par, s.npc t = .nSpawn id par → s.runs id = 0 ∧ id ∉ s.spawned ∧ s.subBy id = some t
  x3 : s.spawned.Nodup
  x4 : ∀ id, id ∈ s.spawned → s.runs id = 0
  x5 : ∀ id, s.runs id ≤ 1
  x6a : ∀ id, s.accepted id = true → id ∈ s.spawned ∨ s.runs id = 1
  x6b : ∀ t id par, s.npc t = .nRet id par → id ∈ s.spawned ∨ s.runs id = 1
  x7a1 : ∀ t id, s.npc t = .tRun id → s.runs id = 1
  x7a2 : ∀ t c p, s.npc t = .nSub c (some p) → s.runs p = 1
  x7a3 : ∀ t c p, s.npc t = .nSpawn c (some p) → s.runs p = 1
  x7a4 : ∀ t c p, s.npc t = .nRet c (some p) → s.runs p = 1
  x7c : ∀ t id, s.npc t = .tDec id → s.runs id = 1
  x7d : ∀ id, s.done id = true → s.runs id = 1
  x8 : ∀ id, s.futReady id = s.done id
  b1 : ∀ u id, s.bornFor u = some id → s.known id = true ∧ s.subBy id ≠ none ∧ s.subBy id ≠ some u
  b3 : ∀ id u, s.ranOn id = some u → s.bornFor u = some id
  b4 : ∀ id, s.known id = false → s.ranOn id = none

theorem InvX.init : InvX State.init := by
  refine ⟨?_, ?_, ?_, ?_, ?_, ?_, ?_, ?_, ?_, ?_, ?_, ?_, ?_, ?_, ?_, ?_, ?_⟩ <;> intros <;> simp_all [State.init]

macro "x_close" : tactic => `(tactic| (
  first
    | done
    | grind [upd, List.nodup_cons]))

section
variable {s s' : State} {t : Nat}

set_option maxHeartbeats 4000000 in
theorem InvX.step_x2a (N : InvN s) (A : InvX s) (hc : NCase s t s') :
    ∀ t id par, s'.npc t = .nSub id par → s'.runs id = 0 ∧ id ∉ s'.spawned ∧ s'.subBy id = some t := by
  obtain ⟨x2a, x2b, x3, x4, x5, x6a, x6b, x7a1, x7a2, x7a3, x7a4, x7c, x7d, x8, b1, b3, b4⟩ := A
  have n9 := N.n9
  have n10a := N.n10a
  have n10b := N.n10b
  have n10c := N.n10c
  have n11 := N.n11
  have n12a := N.n12a
  have n12b := N.n12b
  have n12c := N.n12c
  clear N
  have he1 := @List.Nodup.erase Nat _
  have he2 := @List.mem_erase_of_ne Nat _
  have he3 := @List.Nodup.mem_erase_iff Nat _
  have he4 := @List.mem_of_mem_erase Nat _
  cases hc
  case accept id0 par hpc => cases par <;> x_close
  case submit id0 par hpc hk hr => rcases hpc with ⟨hpc, rfl⟩ | ⟨p, hpc, rfl⟩ <;> x_close
  case spawn id0 par u hpc hu hb => cases par <;> x_close
  case inc id0 par hpc => cases par <;> x_close
  all_goals x_close

set_option maxHeartbeats 4000000 in
theorem InvX.step_x2b (N : InvN s) (A : InvX s) (hc : NCase s t s') :
    ∀ t id par, s'.npc t = .nSpawn id par → s'.runs id = 0 ∧ id ∉ s'.spawned ∧ s'.subBy id = some t := by
  obtain ⟨x2a, x2b, x3, x4, x5, x6a, x6b, x7a1, x7a2, x7a3, x7a4, x7c, x7d, x8, b1, b3, b4⟩ := A
  have n9 := N.n9
  have n10a := N.n10a
  have n10b := N.n10b
  have n10c := N.n10c
  have n11 := N.n11
  have n12a := N.n12a
  have n12b := N.n12b
  have n12c := N.n12c
  clear N
  have he1 := @List.Nodup.erase Nat _
  have he2 := @List.mem_erase_of_ne Nat _
  have he3 := @List.Nodup.mem_erase_iff Nat _
  have he4 := @List.mem_of_mem_erase Nat _
  cases hc
  case accept id0 par hpc => cases par <;> x_close
  case submit id0 par hpc hk hr => rcases hpc with ⟨hpc, rfl⟩ | ⟨p, hpc, rfl⟩ <;> x_close
  case spawn id0 par u hpc hu hb => cases par <;> x_close
  case inc id0 par hpc => cases par <;> x_close
  all_goals x_close

set_option maxHeartbeats 4000000 in
theorem InvX.step_x3 (N : InvN s) (A : InvX s) (hc : NCase s t s') :
    s'.spawned.Nodup := by
  obtain ⟨x2a, x2b, x3, x4, x5, x6a, x6b, x7a1, x7a2, x7a3, x7a4, x7c, x7d, x8, b1, b3, b4⟩ := A
  have n9 := N.n9
  have n10a := N.n10a
  have n10b := N.n10b
  have n10c := N.n10c
  have n11 := N.n11
  have n12a := N.n12a
  have n12b := N.n12b
  have n12c := N.n12c
  clear N
  have he1 := @List.Nodup.erase Nat _
  have he2 := @List.mem_erase_of_ne Nat _
  have he3 := @List.Nodup.mem_erase_iff Nat _
  have he4 := @List.mem_of_mem_erase Nat _
  cases hc
  case accept id0 par hpc => cases par <;> x_close
  case submit id0 par hpc hk hr => rcases hpc with ⟨hpc, rfl⟩ | ⟨p, hpc, rfl⟩ <;> x_close
  case spawn id0 par u hpc hu hb => cases par <;> x_close
  case inc id0 par hpc => cases par <;> x_close
  all_goals x_close

set_option maxHeartbeats 4000000 in
theorem InvX.step_x4 (N : InvN s) (A : InvX s) (hc : NCase s t s') :
    ∀ id, id ∈ s'.spawned → s'.runs id = 0 := by
  obtain ⟨x2a, x2b, x3, x4, x5, x6a, x6b, x7a1, x7a2, x7a3, x7a4, x7c, x7d, x8, b1, b3, b4⟩ := A
  have n9 := N.n9
  have n10a := N.n10a
  have n10b := N.n10b
  have n10c := N.n10c
  have n11 := N.n11
  have n12a := N.n12a
  have n12b := N.n12b
  have n12c := N.n12c
  clear N
  have he1 := @List.Nodup.erase Nat _
  have he2 := @List.mem_erase_of_ne Nat _
  have he3 := @List.Nodup.mem_erase_iff Nat _
  have he4 := @List.mem_of_mem_erase Nat _
  cases hc
  case accept id0 par hpc => cases par <;> x_close
  case submit id0 par hpc hk hr => rcases hpc with ⟨hpc, rfl⟩ | ⟨p, hpc, rfl⟩ <;> x_close
  case spawn id0 par u hpc hu hb => cases par <;> x_close
  case inc id0 par hpc => cases par <;> x_close
  all_goals x_close

set_option maxHeartbeats 4000000 in
theorem InvX.step_x5 (N : InvN s) (A : InvX s) (hc : NCase s t s') :
    ∀ id, s'.runs id ≤ 1 := by
  obtain ⟨x2a, x2b, x3, x4, x5, x6a, x6b, x7a1, x7a2, x7a3, x7a4, x7c, x7d, x8, b1, b3, b4⟩ := A
  have n9 := N.n9
  have n10a := N.n10a
  have n10b := N.n10b
  have n10c := N.n10c
  have n11 := N.n11
  have n12a := N.n12a
  have n12b := N.n12b
  have n12c := N.n12c
  clear N
  have he1 := @List.Nodup.erase Nat _
  have he2 := @List.mem_erase_of_ne Nat _
  have he3 := @List.Nodup.mem_erase_iff Nat _
  have he4 := @List.mem_of_mem_erase Nat _
  cases hc
  case accept id0 par hpc => cases par <;> x_close
  case submit id0 par hpc hk hr => rcases hpc with ⟨hpc, rfl⟩ | ⟨p, hpc, rfl⟩ <;> x_close
  case spawn id0 par u hpc hu hb => cases par <;> x_close
  case inc id0 par hpc => cases par <;> x_close
  all_goals x_close

set_option maxHeartbeats 4000000 in
theorem InvX.step_x6a (N : InvN s) (A : InvX s) (hc : NCase s t s') :
    ∀ id, s'.accepted id = true → id ∈ s'.spawned ∨ s'.runs id = 1 := by
  obtain ⟨x2a, x2b, x3, x4, x5, x6a, x6b, x7a1, x7a2, x7a3, x7a4, x7c, x7d, x8, b1, b3, b4⟩ := A
  have n9 := N.n9
  have n10a := N.n10a
  have n10b := N.n10b
  have n10c := N.n10c
  have n11 := N.n11
  have n12a := N.n12a
  have n12b := N.n12b
  have n12c := N.n12c
  clear N
  have he1 := @List.Nodup.erase Nat _
  have he2 := @List.mem_erase_of_ne Nat _
  have he3 := @List.Nodup.mem_erase_iff Nat _
  have he4 := @List.mem_of_mem_erase Nat _
  cases hc
  case accept id0 par hpc => cases par <;> x_close
  case submit id0 par hpc hk hr => rcases hpc with ⟨hpc, rfl⟩ | ⟨p, hpc, rfl⟩ <;> x_close
  case spawn id0 par u hpc hu hb => cases par <;> x_close
  case inc id0 par hpc => cases par <;> x_close
  all_goals x_close

set_option maxHeartbeats 4000000 in
theorem InvX.step_x6b (N : InvN s) (A : InvX s) (hc : NCase s t s') :
    ∀ t id par, s'.npc t = .nRet id par → id ∈ s'.spawned ∨ s'.runs id = 1 := by
  obtain ⟨x2a, x2b, x3, x4, x5, x6a, x6b, x7a1, x7a2, x7a3, x7a4, x7c, x7d, x8, b1, b3, b4⟩ := A
  have n9 := N.n9
  have n10a := N.n10a
  have n10b := N.n10b
  have n10c := N.n10c
  have n11 := N.n11
  have n12a := N.n12a
  have n12b := N.n12b
  have n12c := N.n12c
  clear N
  have he1 := @List.Nodup.erase Nat _
  have he2 := @List.mem_erase_of_ne Nat _
  have he3 := @List.Nodup.mem_erase_iff Nat _
  have he4 := @List.mem_of_mem_erase Nat _
  cases hc
  case accept id0 par hpc => cases par <;> x_close
  case submit id0 par hpc hk hr => rcases hpc with ⟨hpc, rfl⟩ | ⟨p, hpc, rfl⟩ <;> x_close
  case spawn id0 par u hpc hu hb => cases par <;> x_close
  case inc id0 par hpc => cases par <;> x_close
  all_goals x_close

set_option maxHeartbeats 4000000 in
theorem InvX.step_x7a1 (N : InvN s) (A : InvX s) (hc : NCase s t s') :
    ∀ t id, s'.npc t = .tRun id → s'.runs id = 1 := by
  obtain ⟨x2a, x2b, x3, x4, x5, x6a, x6b, x7a1, x7a2, x7a3, x7a4, x7c, x7d, x8, b1, b3, b4⟩ := A
  have n9 := N.n9
  have n10a := N.n10a
  have n10b := N.n10b
  have n10c := N.n10c
  have n11 := N.n11
  have n12a := N.n12a
  have n12b := N.n12b
  have n12c := N.n12c
  clear N
  have he1 := @List.Nodup.erase Nat _
  have he2 := @List.mem_erase_of_ne Nat _
  have he3 := @List.Nodup.mem_erase_iff Nat _
  have he4 := @List.mem_of_mem_erase Nat _
  cases hc
  case accept id0 par hpc => cases par <;> x_close
  case submit id0 par hpc hk hr => rcases hpc with ⟨hpc, rfl⟩ | ⟨p, hpc, rfl⟩ <;> x_close
  case spawn id0 par u hpc hu hb => cases par <;> x_close
  case inc id0 par hpc => cases par <;> x_close
  all_goals x_close

set_option maxHeartbeats 4000000 in
theorem InvX.step_x7a2 (N : InvN s) (A : InvX s) (hc : NCase s t s') :
    ∀ t c p, s'.npc t = .nSub c (some p) → s'.runs p = 1 := by
  obtain ⟨x2a, x2b, x3, x4, x5, x6a, x6b, x7a1, x7a2, x7a3, x7a4, x7c, x7d, x8, b1, b3, b4⟩ := A
  have n9 := N.n9
  have n10a := N.n10a
  have n10b := N.n10b
  have n10c := N.n10c
  have n11 := N.n11
  have n12a := N.n12a
  have n12b := N.n12b
  have n12c := N.n12c
  clear N
  have he1 := @List.Nodup.erase Nat _
  have he2 := @List.mem_erase_of_ne Nat _
  have he3 := @List.Nodup.mem_erase_iff Nat _
  have he4 := @List.mem_of_mem_erase Nat _
  cases hc
  case accept id0 par hpc => cases par <;> x_close
  case submit id0 par hpc hk hr => rcases hpc with ⟨hpc, rfl⟩ | ⟨p, hpc, rfl⟩ <;> x_close
  case spawn id0 par u hpc hu hb => cases par <;> x_close
  case inc id0 par hpc => cases par <;> x_close
  all_goals x_close

set_option maxHeartbeats 4000000 in
theorem InvX.step_x7a3 (N : InvN s) (A : InvX s) (hc : NCase s t s') :
    ∀ t c p, s'.npc t = .nSpawn c (some p) → s'.runs p = 1 := by
  obtain ⟨x2a, x2b, x3, x4, x5, x6a, x6b, x7a1, x7a2, x7a3, x7a4, x7c, x7d, x8, b1, b3, b4⟩ := A
  have n9 := N.n9
  have n10a := N.n10a
  have n10b := N.n10b
  have n10c := N.n10c
  have n11 := N.n11
  have n12a := N.n12a
  have n12b := N.n12b
  have n12c := N.n12c
  clear N
  have he1 := @List.Nodup.erase Nat _
  have he2 := @List.mem_erase_of_ne Nat _
  have he3 := @List.Nodup.mem_erase_iff Nat _
  have he4 := @List.mem_of_mem_erase Nat _
  cases hc
  case accept id0 par hpc => cases par <;> x_close
  case submit id0 par hpc hk hr => rcases hpc with ⟨hpc, rfl⟩ | ⟨p, hpc, rfl⟩ <;> x_close
  case spawn id0 par u hpc hu hb => cases par <;> x_close
  case inc id0 par hpc => cases par <;> x_close
  all_goals x_close

set_option maxHeartbeats 4000000 in
theorem InvX.step_x7a4 (N : InvN s) (A : InvX s) (hc : NCase s t s') :
    ∀ t c p, s'.npc t = .nRet c (some p) → s'.runs p = 1 := by
  obtain ⟨x2a, x2b, x3, x4, x5, x6a, x6b, x7a1, x7a2, x7a3, x7a4, x7c, x7d, x8, b1, b3, b4⟩ := A
  have n9 := N.n9
  have n10a := N.n10a
  have n10b := N.n10b
  have n10c := N.n10c
  have n11 := N.n11
  have n12a := N.n12a
  have n12b := N.n12b
  have n12c := N.n12c
  clear N
  have he1 := @List.Nodup.erase Nat _
  have he2 := @List.mem_erase_of_ne Nat _
  have he3 := @List.Nodup.mem_erase_iff Nat _
  have he4 := @List.mem_of_mem_erase Nat _
  cases hc
  case accept id0 par hpc => cases par <;> x_close
  case submit id0 par hpc hk hr => rcases hpc with ⟨hpc, rfl⟩ | ⟨p, hpc, rfl⟩ <;> x_close
  case spawn id0 par u hpc hu hb => cases par <;> x_close
  case inc id0 par hpc => cases par <;> x_close
  all_goals x_close

set_option maxHeartbeats 4000000 in
theorem InvX.step_x7c (N : InvN s) (A : InvX s) (hc : NCase s t s') :
    ∀ t id, s'.npc t = .tDec id → s'.runs id = 1 := by
  obtain ⟨x2a, x2b, x3, x4, x5, x6a, x6b, x7a1, x7a2, x7a3, x7a4, x7c, x7d, x8, b1, b3, b4⟩ := A
  have n9 := N.n9
  have n10a := N.n10a
  have n10b := N.n10b
  have n10c := N.n10c
  have n11 := N.n11
  have n12a := N.n12a
  have n12b := N.n12b
  have n12c := N.n12c
  clear N
  have he1 := @List.Nodup.erase Nat _
  have he2 := @List.mem_erase_of_ne Nat _
  have he3 := @List.Nodup.mem_erase_iff Nat _
  have he4 := @List.mem_of_mem_erase Nat _
  cases hc
  case accept id0 par hpc => cases par <;> x_close
  case submit id0 par hpc hk hr => rcases hpc with ⟨hpc, rfl⟩ | ⟨p, hpc, rfl⟩ <;> x_close
  case spawn id0 par u hpc hu hb => cases par <;> x_close
  case inc id0 par hpc => cases par <;> x_close
  all_goals x_close

set_option maxHeartbeats 4000000 in
theorem InvX.step_x7d (N : InvN s) (A : InvX s) (hc : NCase s t s') :
    ∀ id, s'.done id = true → s'.runs id = 1 := by
  obtain ⟨x2a, x2b, x3, x4, x5, x6a, x6b, x7a1, x7a2, x7a3, x7a4, x7c, x7d, x8, b1, b3, b4⟩ := A
  have n9 := N.n9
  have n10a := N.n10a
  have n10b := N.n10b
  have n10c := N.n10c
  have n11 := N.n11
  have n12a := N.n12a
  have n12b := N.n12b
  have n12c := N.n12c
  clear N
  have he1 := @List.Nodup.erase Nat _
  have he2 := @List.mem_erase_of_ne Nat _
  have he3 := @List.Nodup.mem_erase_iff Nat _
  have he4 := @List.mem_of_mem_erase Nat _
  cases hc
  case accept id0 par hpc => cases par <;> x_close
  case submit id0 par hpc hk hr => rcases hpc with ⟨hpc, rfl⟩ | ⟨p, hpc, rfl⟩ <;> x_close
  case spawn id0 par u hpc hu hb => cases par <;> x_close
  case inc id0 par hpc => cases par <;> x_close
  all_goals x_close

set_option maxHeartbeats 4000000 in
theorem InvX.step_x8 (N : InvN s) (A : InvX s) (hc : NCase s t s') :
    ∀ id, s'.futReady id = s'.done id := by
  obtain ⟨x2a, x2b, x3, x4, x5, x6a, x6b, x7a1, x7a2, x7a3, x7a4, x7c, x7d, x8, b1, b3, b4⟩ := A
  have n9 := N.n9
  have n10a := N.n10a
  have n10b := N.n10b
  have n10c := N.n10c
  have n11 := N.n11
  have n12a := N.n12a
  have n12b := N.n12b
  have n12c := N.n12c
  clear N
  have he1 := @List.Nodup.erase Nat _
  have he2 := @List.mem_erase_of_ne Nat _
  have he3 := @List.Nodup.mem_erase_iff Nat _
  have he4 := @List.mem_of_mem_erase Nat _
  cases hc
  case accept id0 par hpc => cases par <;> x_close
  case submit id0 par hpc hk hr => rcases hpc with ⟨hpc, rfl⟩ | ⟨p, hpc, rfl⟩ <;> x_close
  case spawn id0 par u hpc hu hb => cases par <;> x_close
  case inc id0 par hpc => cases par <;> x_close
  all_goals x_close

set_option maxHeartbeats 4000000 in
theorem InvX.step_b1 (N : InvN s) (A : InvX s) (hc : NCase s t s') :
    ∀ u id, s'.bornFor u = some id → s'.known id = true ∧ s'.subBy id ≠ none ∧ s'.subBy id ≠ some u := by
  obtain ⟨x2a, x2b, x3, x4, x5, x6a, x6b, x7a1, x7a2, x7a3, x7a4, x7c, x7d, x8, b1, b3, b4⟩ := A
  have n9 := N.n9
  have n10a := N.n10a
  have n10b := N.n10b
  have n10c := N.n10c
  have n11 := N.n11
  have n12a := N.n12a
  have n12b := N.n12b
  have n12c := N.n12c
  clear N
  have he1 := @List.Nodup.erase Nat _
  have he2 := @List.mem_erase_of_ne Nat _
  have he3 := @List.Nodup.mem_erase_iff Nat _
  have he4 := @List.mem_of_mem_erase Nat _
  cases hc
  case accept id0 par hpc => cases par <;> x_close
  case submit id0 par hpc hk hr => rcases hpc with ⟨hpc, rfl⟩ | ⟨p, hpc, rfl⟩ <;> x_close
  case spawn id0 par u hpc hu hb => cases par <;> x_close
  case inc id0 par hpc => cases par <;> x_close
  all_goals x_close

set_option maxHeartbeats 4000000 in
theorem InvX.step_b3 (N : InvN s) (A : InvX s) (hc : NCase s t s') :
    ∀ id u, s'.ranOn id = some u → s'.bornFor u = some id := by
  obtain ⟨x2a, x2b, x3, x4, x5, x6a, x6b, x7a1, x7a2, x7a3, x7a4, x7c, x7d, x8, b1, b3, b4⟩ := A
  have n9 := N.n9
  have n10a := N.n10a
  have n10b := N.n10b
  have n10c := N.n10c
  have n11 := N.n11
  have n12a := N.n12a
  have n12b := N.n12b
  have n12c := N.n12c
  clear N
  have he1 := @List.Nodup.erase Nat _
  have he2 := @List.mem_erase_of_ne Nat _
  have he3 := @List.Nodup.mem_erase_iff Nat _
  have he4 := @List.mem_of_mem_erase Nat _
  cases hc
  case accept id0 par hpc => cases par <;> x_close
  case submit id0 par hpc hk hr => rcases hpc with ⟨hpc, rfl⟩ | ⟨p, hpc, rfl⟩ <;> x_close
  case spawn id0 par u hpc hu hb => cases par <;> x_close
  case inc id0 par hpc => cases par <;> x_close
  all_goals x_close

set_option maxHeartbeats 4000000 in
theorem InvX.step_b4 (N : InvN s) (A : InvX s) (hc : NCase s t s') :
    ∀ id, s'.known id = false → s'.ranOn id = none := by
  obtain ⟨x2a, x2b, x3, x4, x5, x6a, x6b, x7a1, x7a2, x7a3, x7a4, x7c, x7d, x8, b1, b3, b4⟩ := A
  have n9 := N.n9
  have n10a := N.n10a
  have n10b := N.n10b
  have n10c := N.n10c
  have n11 := N.n11
  have n12a := N.n12a
  have n12b := N.n12b
  have n12c := N.n12c
  clear N
  have he1 := @List.Nodup.erase Nat _
  have he2 := @List.mem_erase_of_ne Nat _
  have he3 := @List.Nodup.mem_erase_iff Nat _
  have he4 := @List.mem_of_mem_erase Nat _
  cases hc
  case accept id0 par hpc => cases par <;> x_close
  case submit id0 par hpc hk hr => rcases hpc with ⟨hpc, rfl⟩ | ⟨p, hpc, rfl⟩ <;> x_close
  case spawn id0 par u hpc hu hb => cases par <;> x_close
  case inc id0 par hpc => cases par <;> x_close
  all_goals x_close

theorem InvX.step (N : InvN s) (A : InvX s) (h : StepN s s') : InvX s' := by
  obtain ⟨t, e, hst⟩ := h
  have hc := stepN_cases hst
  exact ⟨A.step_x2a N hc, A.step_x2b N hc, A.step_x3 N hc, A.step_x4 N hc, A.step_x5 N hc, A.step_x6a N hc, A.step_x6b N hc, A.step_x7a1 N hc, A.step_x7a2 N hc, A.step_x7a3 N hc, A.step_x7a4 N hc, A.step_x7c N hc, A.step_x7d N hc, A.step_x8 N hc, A.step_b1 N hc, A.step_b3 N hc, A.step_b4 N hc⟩

end

theorem InvX.reachable {s : State} (h : ReachN s) : InvN s ∧ InvX s := by
  refine Reachable.invariant (fun s => InvN s ∧ InvX s) ?_ ?_ s h
  · intro s hs; subst hs; exact ⟨InvN.init, InvX.init⟩
  · intro s s' hI hstep; exact ⟨hI.1.step hstep, hI.2.step hI.1 hstep⟩

end Babylon.Exec.Simple
