/-
  Case analysis of one step of the executor model: `step c s t lb = some s'` holds iff one of the
  named cases of `StepCase` applies.  Every invariant proof in `Lemmas*.lean` starts from here.
-/
import Babylon.Exec.Model
import Babylon.Exec.Tactics

namespace Babylon.Exec

/-- the cases of `step`, with the guards that made them enabled and the successor state -/
inductive StepCase (c : Cfg) (s : State) (t : Nat) : Lbl → State → Prop
  -- threads outside the pool
  | submitExt (id : Nat) (hpc : s.pc t = .idle) (hk : s.known id = false) (hr : s.rejected id = false) :
      StepCase c s t (.submit id false)
        { s with pc := upd s.pc t (.gTake (.task id) (.xRet id)), known := upd s.known id true,
                 loc := upd s.loc id (.hand t) }
  | rejectExt (id : Nat) (hpc : s.pc t = .idle) (hk : s.known id = false) (hr : s.rejected id = false) :
      StepCase c s t (.reject id) { s with rejected := upd s.rejected id true }
  | wakeup (hpc : s.pc t = .idle) : StepCase c s t .wakeup (setPc s t (.gTake .wakeup .xWkRet))
  | stopBegin (hpc : s.pc t = .idle) (hs : s.stopCalled = false) :
      StepCase c s t .stopBegin { s with pc := upd s.pc t .sLd, stopCalled := true, stopper := some t }
  | joinIdle (u : Nat) (hpc : s.pc t = .idle) (hu : s.pc u = .exited) : StepCase c s t (.join u) s
  | exitIdle (hpc : s.pc t = .idle) : StepCase c s t .exit (setPc s t .exited)
  | acceptExt (id : Nat) (hpc : s.pc t = .xRet id) : StepCase c s t (.accept id) (setPc (acceptTask s id) t .idle)
  | wakeupRet (hpc : s.pc t = .xWkRet) : StepCase c s t .wakeupRet (setPc s t .idle)
  -- generic global push
  | gTakeTask (id : Nat) (k : Pc) (hpc : s.pc t = .gTake (.task id) k) :
      StepCase c s t (.gPushTk s.g.cells.length)
        { s with g := s.g.take (.task id), pc := upd s.pc t (.gPub s.g.cells.length k),
                 loc := upd s.loc id (.gq s.g.cells.length), gTicket := upd s.gTicket id (some s.g.cells.length) }
  | gTakeStop (k : Pc) (hpc : s.pc t = .gTake .stop k) :
      StepCase c s t (.gPushTk s.g.cells.length)
        { s with g := s.g.take .stop, pc := upd s.pc t (.gPub s.g.cells.length k), markers := s.markers + 1,
                 firstMarker := noteMarker s.firstMarker s.g.cells.length }
  | gTakeWakeup (k : Pc) (hpc : s.pc t = .gTake .wakeup k) :
      StepCase c s t (.gPushTk s.g.cells.length)
        { s with g := s.g.take .wakeup, pc := upd s.pc t (.gPub s.g.cells.length k) }
  | gPublish (p : Nat) (k : Pc) (hpc : s.pc t = .gPub p k) (hfree : s.g.slotFree c.gslots p = true)
      (hst : s.g.stAt p = some .reserved) :
      StepCase c s t .publish { s with g := s.g.setSt p .full, pc := upd s.pc t k }
  -- stop()
  | sLd (hpc : s.pc t = .sLd) :
      StepCase c s t (.ldRun s.running) (setPc s t (afterLdRunS s.running))
  | sSt (hpc : s.pc t = .sSt) : StepCase c s t .stRun { s with running := false, pc := upd s.pc t (afterStore c) }
  | sJoinB (u : Nat) (hpc : s.pc t = .sJoinB) (hb : c.bal = some u) (hu : s.pc u = .exited) :
      StepCase c s t (.join u) (setPc s t (markChain c c.workers.length))
  | sJoinW (n u : Nat) (hpc : s.pc t = .sJoinW n) (hw : c.workers[n]? = some u) (hu : s.pc u = .exited) :
      StepCase c s t (.join u) (setPc s t (afterJoinW c n))
  | sEnd (hpc : s.pc t = .sEnd) : StepCase c s t .stopEnd { s with pc := upd s.pc t .idle, stopReturned := true }
  -- worker
  | wInit (k : Nat) (hpc : s.pc t = .wInit) (hav : slotAvailable s k = true) :
      StepCase c s t (.ldPop k (s.l k).popIdx)
        { s with own := upd s.own t (some k), owner := upd s.owner k (some t),
                 pc := upd s.pc t (.chk .own (s.l k).popIdx (!(s.l k).ready (s.l k).popIdx)) }
  | wTop (k : Nat) (hpc : s.pc t = .wTop) (hown : s.own t = some k) :
      StepCase c s t (.ldPop k (s.l k).popIdx)
        (setPc s t (.chk .own (s.l k).popIdx (!(s.l k).ready (s.l k).popIdx)))
  | wStealLd (k : Nat) (hpc : s.pc t = .wSteal k) (hsteal : c.steal = true) :
      StepCase c s t (.ldPop k (s.l k).popIdx)
        (setPc s t (.chk (.steal k) (s.l k).popIdx (!(s.l k).ready (s.l k).popIdx)))
  | wGPop (k : Nat) (hpc : s.pc t = .wSteal k) :
      StepCase c s t (.gPopTk s.g.popIdx)
        { s with g := { s.g with popIdx := s.g.popIdx + 1 }, pc := upd s.pc t (.wGWait s.g.popIdx) }
  -- try_pop
  | popEmpty (ctx : PopCtx) (i k : Nat) (hpc : s.pc t = .chk ctx i true) (hq : ctx.queue s t = some k)
      (hi : i = (s.l k).popIdx) :
      StepCase c s t (.ldPop k i) (setPc s t ctx.onEmpty)
  | popReload (ctx : PopCtx) (i k : Nat) (nr : Bool) (hpc : s.pc t = .chk ctx i nr) (hq : ctx.queue s t = some k)
      (hne : (s.l k).popIdx ≠ i) :
      StepCase c s t (.ldPop k (s.l k).popIdx)
        (setPc s t (.chk ctx (s.l k).popIdx (!(s.l k).ready (s.l k).popIdx)))
  | popClaim (ctx : PopCtx) (i k : Nat) (nr : Bool) (cl : Cell) (hpc : s.pc t = .chk ctx i nr)
      (hq : ctx.queue s t = some k) (hi : (s.l k).popIdx = i) (hcell : (s.l k).cells[i]? = some cl)
      (hfull : cl.st = .full) :
      StepCase c s t (.casPop k i true i) (ctx.onClaim (claimLocal s k i) t cl.item)
  | popCasFail (ctx : PopCtx) (i k : Nat) (nr : Bool) (hpc : s.pc t = .chk ctx i nr) (hq : ctx.queue s t = some k) :
      StepCase c s t (.casPop k i false (s.l k).popIdx)
        (setPc s t (.chk ctx (s.l k).popIdx (!(s.l k).ready (s.l k).popIdx)))
  | wRecv (i : Nat) (cl : Cell) (hpc : s.pc t = .wGWait i) (hcell : s.g.cells[i]? = some cl) (hfull : cl.st = .full) :
      StepCase c s t .receive (dispatch { s with g := s.g.setSt i .free } t cl.item (some i))
  | wRunTask (id : Nat) (hpc : s.pc t = .wPre id) (hscope : s.scope t = 0) :
      StepCase c s t (.run id true) { s with pc := upd s.pc t (.wRun id), runs := upd s.runs id (s.runs id + 1) }
  | wExit (hpc : s.pc t = .wStopping) : StepCase c s t .exit (setPc s t .exited)
  -- inside a task
  | submitIn (id cid : Nat) (hpc : s.pc t = .wRun id) (hk : s.known cid = false) (hr : s.rejected cid = false) :
      StepCase c s t (.submit cid (s.scope t == 0))
        { s with pc := upd s.pc t (afterSubmit c (s.scope t == 0) id cid),
                 known := upd s.known cid true, loc := upd s.loc cid (.hand t) }
  | rejectIn (id cid : Nat) (hpc : s.pc t = .wRun id) (hk : s.known cid = false) (hr : s.rejected cid = false) :
      StepCase c s t (.reject cid) { s with rejected := upd s.rejected cid true }
  | scopeEnter (id : Nat) (hpc : s.pc t = .wRun id) :
      StepCase c s t .scopeEnter { s with scope := upd s.scope t (s.scope t + 1) }
  | scopeLeave (id : Nat) (hpc : s.pc t = .wRun id) (hpos : 0 < s.scope t) :
      StepCase c s t .scopeLeave { s with scope := upd s.scope t (s.scope t - 1) }
  | taskDone (id : Nat) (hpc : s.pc t = .wRun id) (hscope : s.scope t = 0) :
      StepCase c s t (.done id)
        { s with pc := upd s.pc t .wTop, done := upd s.done id true, futReady := upd s.futReady id true,
                 loc := upd s.loc id .fin }
  | rSz0 (id cid k : Nat) (hpc : s.pc t = .rSz0 id cid) (hown : s.own t = some k) :
      StepCase c s t (.ldPop k (s.l k).popIdx) (setPc s t (.rSz1 id cid (s.l k).popIdx))
  | rSz1 (id cid a k : Nat) (hpc : s.pc t = .rSz1 id cid a) (hown : s.own t = some k) :
      StepCase c s t (.ldPush k (s.l k).cells.length)
        (setPc s t (afterSize c (s.l k).cells.length a id cid))
  | rLLd (id cid k : Nat) (hpc : s.pc t = .rLLd id cid) (hown : s.own t = some k) :
      StepCase c s t (.ldPush k (s.l k).cells.length) (setPc s t (.rLSt id cid (s.l k).cells.length))
  | rLSt (id cid p k : Nat) (hpc : s.pc t = .rLSt id cid p) (hown : s.own t = some k) (hp : p = (s.l k).cells.length) :
      StepCase c s t (.stPush k (p + 1))
        { s with l := upd s.l k ((s.l k).take (.task cid)), pc := upd s.pc t (.rLPub id cid p),
                 loc := upd s.loc cid (.lq k p), viaLocal := upd s.viaLocal cid true }
  | rLPub (id cid p k : Nat) (hpc : s.pc t = .rLPub id cid p) (hown : s.own t = some k)
      (hfree : (s.l k).slotFree c.lslots p = true) (hst : (s.l k).stAt p = some .reserved) :
      StepCase c s t .publish { s with l := upd s.l k ((s.l k).setSt p .full), pc := upd s.pc t (.rRet id cid) }
  | acceptIn (id cid : Nat) (hpc : s.pc t = .rRet id cid) :
      StepCase c s t (.accept cid) (setPc (acceptTask s cid) t (.wRun id))
  -- keep_balance
  | bLdRun (hpc : s.pc t = .bTop ∨ ∃ k, s.pc t = .bSweep k) :
      StepCase c s t (.ldRun s.running) (setPc s t (afterLdRunB s.running))
  | bSweepLd (k : Nat) (hpc : s.pc t = .bSweep k) :
      StepCase c s t (.ldPop k (s.l k).popIdx)
        (setPc s t (.chk (.bal k) (s.l k).popIdx (!(s.l k).ready (s.l k).popIdx)))
  | bExit (hpc : s.pc t = .bStopping) : StepCase c s t .exit (setPc s t .exited)

theorem step_cases {c : Cfg} {s s' : State} {t : Nat} {lb : Lbl} (h : step c s t lb = some s') :
    StepCase c s t lb s' := by
  unfold step at h
  split at h
  all_goals try simp only [loadPop] at h
  all_goals repeat' (split at h)
  all_goals try (simp only [reduceCtorEq] at h; done)
  all_goals (simp only [Option.some.injEq] at h; subst h)
  all_goals split_ands
  all_goals subst_vars
  all_goals first
    | (constructor <;> (first | assumption | (simp_all; done)))
    | skip
  all_goals first
    | (apply StepCase.wExit; assumption)
    | (apply StepCase.bExit; assumption)
    | (apply StepCase.rejectIn <;> assumption)
    | (apply StepCase.bSweepLd; assumption)
    | (rename_i ok hok _ _; cases ok <;> first | (exact absurd rfl hok) | (apply StepCase.popCasFail <;> assumption))

end Babylon.Exec
