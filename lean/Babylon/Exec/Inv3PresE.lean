/-
  `Inv3` (place of every task, futures, global tickets) is inductive — part E.
-/
import Babylon.Exec.Inv3
import Babylon.Exec.Inv2Pres

namespace Babylon.Exec
open Babylon.Core

/-- closing tactic for the place goals -/
macro "p_close" : tactic => `(tactic| (
  (try simp only [exec_proj, upd_same, Q.claim_fold, Q.bump_fold] at *)
  first
    | done
    | grind [upd, Pc.role, Pc.carry, Pc.exec, claimPc, dispatchPc, PopCtx.onEmpty, PopCtx.role, PopCtx.queue, afterLdRunS,
        afterLdRunB, afterJoinW, role_chk, popctx_role,
        Q.itemAt_setSt, Q.stAt_setSt, Q.itemAt_take, Q.stAt_take, Q.length_take, Q.length_setSt, Q.popIdx_setSt, Q.popIdx_take,
        Q.itemAt_claim, Q.stAt_claim, Q.popIdx_claim, Q.length_claim, Q.itemAt_bump, Q.stAt_bump, Q.popIdx_bump, Q.length_bump,
        Item.isTask]))

section
variable {c : Cfg} {s s' : State} {t : Nat} {lb : Lbl}

set_option maxHeartbeats 4000000 in
theorem Inv3.step_f1 (I : Inv1 c s) (J : Inv2 c s) (K : Inv3 c s) (h : StepCase c s t lb s') :
    ∀ id, s'.rejected id = true → s'.known id = false := by
  intro id hr
  have f1 := K.f1
  have l4 := J.l4
  have hwf := I.wf t
  have hx1 := carry_dispatchPc
  have hx2 := carry_onEmpty
  have hx3 := exec_onEmpty
  have hx4 := carry_markChain c
  have hx5 := markChain_exec c
  have hx6 := carry_afterStore c
  have hx7 := exec_afterStore c
  have hx8 := carry_afterSubmit c
  have hx9 := exec_afterSubmit c
  have hx10 := carry_afterSize c
  have hx11 := exec_afterSize c
  have hx14 := role_afterSubmit c
  have hx15 := role_afterSize c
  have hk : ∀ p k, s.pc t = .gPub p k → k.carry = none := by
    intro p k hp; rw [hp] at hwf; exact carry_cont c none k hwf
  clear I J K hwf
  cases h
  case popClaim ctx i0 k0 nr cl hpc hq hi hcell hfull =>
    have hit := (isTask_iff cl.item).mp (l4 k0 i0 cl hcell)
    obtain ⟨idx, hidx⟩ := hit
    have hc1 := Q.itemAt_eq _ _ _ hcell
    have hc2 := Q.stAt_eq _ _ _ hcell
    have hc3 : i0 < (s.l k0).cells.length := Q.stAt_some_lt _ _ _ hc2
    rw [hidx] at hc1; rw [hfull] at hc2
    clear hcell l4
    cases ctx <;> simp only [hidx] at * <;> p_close
  case wRecv i0 cl hpc hcell hfull =>
    have hc1 := Q.itemAt_eq _ _ _ hcell
    have hc2 := Q.stAt_eq _ _ _ hcell
    have hc3 : i0 < s.g.cells.length := Q.stAt_some_lt _ _ _ hc2
    rw [hfull] at hc2
    clear hcell l4
    cases hx : cl.item <;> simp only [hx] at * <;> p_close
  case gPublish p k hpc hfree hst =>
    have hc3 : p < s.g.cells.length := Q.stAt_some_lt _ _ _ hst
    clear l4; p_close
  case rLPub id0 cid p k0 hpc hown hfree hst =>
    have hc3 : p < (s.l k0).cells.length := Q.stAt_some_lt _ _ _ hst
    clear l4; p_close
  all_goals (clear l4; try p_close)
  all_goals (trace_state; sorry)

set_option maxHeartbeats 4000000 in
theorem Inv3.step_f2 (I : Inv1 c s) (J : Inv2 c s) (K : Inv3 c s) (h : StepCase c s t lb s') :
    ∀ id, s'.accepted id = true → s'.known id = true ∧ s'.futValid id = true := by
  intro id ha
  have f2 := K.f2
  have b3c := K.b3c
  have b3e := K.b3e
  have a5 := K.a5
  have l4 := J.l4
  have hwf := I.wf t
  have hx1 := carry_dispatchPc
  have hx2 := carry_onEmpty
  have hx3 := exec_onEmpty
  have hx4 := carry_markChain c
  have hx5 := markChain_exec c
  have hx6 := carry_afterStore c
  have hx7 := exec_afterStore c
  have hx8 := carry_afterSubmit c
  have hx9 := exec_afterSubmit c
  have hx10 := carry_afterSize c
  have hx11 := exec_afterSize c
  have hx14 := role_afterSubmit c
  have hx15 := role_afterSize c
  have hk : ∀ p k, s.pc t = .gPub p k → k.carry = none := by
    intro p k hp; rw [hp] at hwf; exact carry_cont c none k hwf
  clear I J K hwf
  cases h
  case popClaim ctx i0 k0 nr cl hpc hq hi hcell hfull =>
    have hit := (isTask_iff cl.item).mp (l4 k0 i0 cl hcell)
    obtain ⟨idx, hidx⟩ := hit
    have hc1 := Q.itemAt_eq _ _ _ hcell
    have hc2 := Q.stAt_eq _ _ _ hcell
    have hc3 : i0 < (s.l k0).cells.length := Q.stAt_some_lt _ _ _ hc2
    rw [hidx] at hc1; rw [hfull] at hc2
    clear hcell l4
    cases ctx <;> simp only [hidx] at * <;> p_close
  case wRecv i0 cl hpc hcell hfull =>
    have hc1 := Q.itemAt_eq _ _ _ hcell
    have hc2 := Q.stAt_eq _ _ _ hcell
    have hc3 : i0 < s.g.cells.length := Q.stAt_some_lt _ _ _ hc2
    rw [hfull] at hc2
    clear hcell l4
    cases hx : cl.item <;> simp only [hx] at * <;> p_close
  case gPublish p k hpc hfree hst =>
    have hc3 : p < s.g.cells.length := Q.stAt_some_lt _ _ _ hst
    clear l4; p_close
  case rLPub id0 cid p k0 hpc hown hfree hst =>
    have hc3 : p < (s.l k0).cells.length := Q.stAt_some_lt _ _ _ hst
    clear l4; p_close
  all_goals (clear l4; try p_close)
  all_goals (trace_state; sorry)

set_option maxHeartbeats 4000000 in
theorem Inv3.step_f3 (I : Inv1 c s) (J : Inv2 c s) (K : Inv3 c s) (h : StepCase c s t lb s') :
    ∀ id, s'.done id = true → s'.futReady id = true := by
  intro id hd
  have f3 := K.f3
  have l4 := J.l4
  have hwf := I.wf t
  have hx1 := carry_dispatchPc
  have hx2 := carry_onEmpty
  have hx3 := exec_onEmpty
  have hx4 := carry_markChain c
  have hx5 := markChain_exec c
  have hx6 := carry_afterStore c
  have hx7 := exec_afterStore c
  have hx8 := carry_afterSubmit c
  have hx9 := exec_afterSubmit c
  have hx10 := carry_afterSize c
  have hx11 := exec_afterSize c
  have hx14 := role_afterSubmit c
  have hx15 := role_afterSize c
  have hk : ∀ p k, s.pc t = .gPub p k → k.carry = none := by
    intro p k hp; rw [hp] at hwf; exact carry_cont c none k hwf
  clear I J K hwf
  cases h
  case popClaim ctx i0 k0 nr cl hpc hq hi hcell hfull =>
    have hit := (isTask_iff cl.item).mp (l4 k0 i0 cl hcell)
    obtain ⟨idx, hidx⟩ := hit
    have hc1 := Q.itemAt_eq _ _ _ hcell
    have hc2 := Q.stAt_eq _ _ _ hcell
    have hc3 : i0 < (s.l k0).cells.length := Q.stAt_some_lt _ _ _ hc2
    rw [hidx] at hc1; rw [hfull] at hc2
    clear hcell l4
    cases ctx <;> simp only [hidx] at * <;> p_close
  case wRecv i0 cl hpc hcell hfull =>
    have hc1 := Q.itemAt_eq _ _ _ hcell
    have hc2 := Q.stAt_eq _ _ _ hcell
    have hc3 : i0 < s.g.cells.length := Q.stAt_some_lt _ _ _ hc2
    rw [hfull] at hc2
    clear hcell l4
    cases hx : cl.item <;> simp only [hx] at * <;> p_close
  case gPublish p k hpc hfree hst =>
    have hc3 : p < s.g.cells.length := Q.stAt_some_lt _ _ _ hst
    clear l4; p_close
  case rLPub id0 cid p k0 hpc hown hfree hst =>
    have hc3 : p < (s.l k0).cells.length := Q.stAt_some_lt _ _ _ hst
    clear l4; p_close
  all_goals (clear l4; try p_close)
  all_goals (trace_state; sorry)

set_option maxHeartbeats 4000000 in
theorem Inv3.step_f4 (I : Inv1 c s) (J : Inv2 c s) (K : Inv3 c s) (h : StepCase c s t lb s') :
    ∀ id, s'.futValid id = true → s'.accepted id = true := by
  intro id hv
  have f4 := K.f4
  have l4 := J.l4
  have hwf := I.wf t
  have hx1 := carry_dispatchPc
  have hx2 := carry_onEmpty
  have hx3 := exec_onEmpty
  have hx4 := carry_markChain c
  have hx5 := markChain_exec c
  have hx6 := carry_afterStore c
  have hx7 := exec_afterStore c
  have hx8 := carry_afterSubmit c
  have hx9 := exec_afterSubmit c
  have hx10 := carry_afterSize c
  have hx11 := exec_afterSize c
  have hx14 := role_afterSubmit c
  have hx15 := role_afterSize c
  have hk : ∀ p k, s.pc t = .gPub p k → k.carry = none := by
    intro p k hp; rw [hp] at hwf; exact carry_cont c none k hwf
  clear I J K hwf
  cases h
  case popClaim ctx i0 k0 nr cl hpc hq hi hcell hfull =>
    have hit := (isTask_iff cl.item).mp (l4 k0 i0 cl hcell)
    obtain ⟨idx, hidx⟩ := hit
    have hc1 := Q.itemAt_eq _ _ _ hcell
    have hc2 := Q.stAt_eq _ _ _ hcell
    have hc3 : i0 < (s.l k0).cells.length := Q.stAt_some_lt _ _ _ hc2
    rw [hidx] at hc1; rw [hfull] at hc2
    clear hcell l4
    cases ctx <;> simp only [hidx] at * <;> p_close
  case wRecv i0 cl hpc hcell hfull =>
    have hc1 := Q.itemAt_eq _ _ _ hcell
    have hc2 := Q.stAt_eq _ _ _ hcell
    have hc3 : i0 < s.g.cells.length := Q.stAt_some_lt _ _ _ hc2
    rw [hfull] at hc2
    clear hcell l4
    cases hx : cl.item <;> simp only [hx] at * <;> p_close
  case gPublish p k hpc hfree hst =>
    have hc3 : p < s.g.cells.length := Q.stAt_some_lt _ _ _ hst
    clear l4; p_close
  case rLPub id0 cid p k0 hpc hown hfree hst =>
    have hc3 : p < (s.l k0).cells.length := Q.stAt_some_lt _ _ _ hst
    clear l4; p_close
  all_goals (clear l4; try p_close)
  all_goals (trace_state; sorry)

set_option maxHeartbeats 4000000 in
theorem Inv3.step_f5 (I : Inv1 c s) (J : Inv2 c s) (K : Inv3 c s) (h : StepCase c s t lb s') :
    ∀ id, s'.preStop id = true → s'.accepted id = true := by
  intro id hp
  have f5 := K.f5
  have l4 := J.l4
  have hwf := I.wf t
  have hx1 := carry_dispatchPc
  have hx2 := carry_onEmpty
  have hx3 := exec_onEmpty
  have hx4 := carry_markChain c
  have hx5 := markChain_exec c
  have hx6 := carry_afterStore c
  have hx7 := exec_afterStore c
  have hx8 := carry_afterSubmit c
  have hx9 := exec_afterSubmit c
  have hx10 := carry_afterSize c
  have hx11 := exec_afterSize c
  have hx14 := role_afterSubmit c
  have hx15 := role_afterSize c
  have hk : ∀ p k, s.pc t = .gPub p k → k.carry = none := by
    intro p k hp; rw [hp] at hwf; exact carry_cont c none k hwf
  clear I J K hwf
  cases h
  case popClaim ctx i0 k0 nr cl hpc hq hi hcell hfull =>
    have hit := (isTask_iff cl.item).mp (l4 k0 i0 cl hcell)
    obtain ⟨idx, hidx⟩ := hit
    have hc1 := Q.itemAt_eq _ _ _ hcell
    have hc2 := Q.stAt_eq _ _ _ hcell
    have hc3 : i0 < (s.l k0).cells.length := Q.stAt_some_lt _ _ _ hc2
    rw [hidx] at hc1; rw [hfull] at hc2
    clear hcell l4
    cases ctx <;> simp only [hidx] at * <;> p_close
  case wRecv i0 cl hpc hcell hfull =>
    have hc1 := Q.itemAt_eq _ _ _ hcell
    have hc2 := Q.stAt_eq _ _ _ hcell
    have hc3 : i0 < s.g.cells.length := Q.stAt_some_lt _ _ _ hc2
    rw [hfull] at hc2
    clear hcell l4
    cases hx : cl.item <;> simp only [hx] at * <;> p_close
  case gPublish p k hpc hfree hst =>
    have hc3 : p < s.g.cells.length := Q.stAt_some_lt _ _ _ hst
    clear l4; p_close
  case rLPub id0 cid p k0 hpc hown hfree hst =>
    have hc3 : p < (s.l k0).cells.length := Q.stAt_some_lt _ _ _ hst
    clear l4; p_close
  all_goals (clear l4; try p_close)
  all_goals (trace_state; sorry)

set_option maxHeartbeats 4000000 in
theorem Inv3.step_f6 (I : Inv1 c s) (J : Inv2 c s) (K : Inv3 c s) (h : StepCase c s t lb s') :
    ∀ id, s'.viaLocal id = true → s'.known id = true := by
  intro id hv
  have f6 := K.f6
  have b3c := K.b3c
  have a5 := K.a5
  have l4 := J.l4
  have hwf := I.wf t
  have hx1 := carry_dispatchPc
  have hx2 := carry_onEmpty
  have hx3 := exec_onEmpty
  have hx4 := carry_markChain c
  have hx5 := markChain_exec c
  have hx6 := carry_afterStore c
  have hx7 := exec_afterStore c
  have hx8 := carry_afterSubmit c
  have hx9 := exec_afterSubmit c
  have hx10 := carry_afterSize c
  have hx11 := exec_afterSize c
  have hx14 := role_afterSubmit c
  have hx15 := role_afterSize c
  have hk : ∀ p k, s.pc t = .gPub p k → k.carry = none := by
    intro p k hp; rw [hp] at hwf; exact carry_cont c none k hwf
  clear I J K hwf
  cases h
  case popClaim ctx i0 k0 nr cl hpc hq hi hcell hfull =>
    have hit := (isTask_iff cl.item).mp (l4 k0 i0 cl hcell)
    obtain ⟨idx, hidx⟩ := hit
    have hc1 := Q.itemAt_eq _ _ _ hcell
    have hc2 := Q.stAt_eq _ _ _ hcell
    have hc3 : i0 < (s.l k0).cells.length := Q.stAt_some_lt _ _ _ hc2
    rw [hidx] at hc1; rw [hfull] at hc2
    clear hcell l4
    cases ctx <;> simp only [hidx] at * <;> p_close
  case wRecv i0 cl hpc hcell hfull =>
    have hc1 := Q.itemAt_eq _ _ _ hcell
    have hc2 := Q.stAt_eq _ _ _ hcell
    have hc3 : i0 < s.g.cells.length := Q.stAt_some_lt _ _ _ hc2
    rw [hfull] at hc2
    clear hcell l4
    cases hx : cl.item <;> simp only [hx] at * <;> p_close
  case gPublish p k hpc hfree hst =>
    have hc3 : p < s.g.cells.length := Q.stAt_some_lt _ _ _ hst
    clear l4; p_close
  case rLPub id0 cid p k0 hpc hown hfree hst =>
    have hc3 : p < (s.l k0).cells.length := Q.stAt_some_lt _ _ _ hst
    clear l4; p_close
  all_goals (clear l4; try p_close)
  all_goals (trace_state; sorry)

set_option maxHeartbeats 4000000 in
theorem Inv3.step_v2 (I : Inv1 c s) (J : Inv2 c s) (K : Inv3 c s) (h : StepCase c s t lb s') :
    ∀ t' id, (s'.pc t').carry = some id → (s'.pc t').role ≠ .bal → s'.viaLocal id = false ∧ s'.accepted id = false := by
  intro t' id hcar hrole
  have v2 := K.v2
  have f2 := K.f2
  have f6 := K.f6
  have a5 := K.a5
  have b3c := K.b3c
  have a6 := K.a6
  have l4 := J.l4
  have hwf := I.wf t
  have hx1 := carry_dispatchPc
  have hx2 := carry_onEmpty
  have hx3 := exec_onEmpty
  have hx4 := carry_markChain c
  have hx5 := markChain_exec c
  have hx6 := carry_afterStore c
  have hx7 := exec_afterStore c
  have hx8 := carry_afterSubmit c
  have hx9 := exec_afterSubmit c
  have hx10 := carry_afterSize c
  have hx11 := exec_afterSize c
  have hx14 := role_afterSubmit c
  have hx15 := role_afterSize c
  have hk : ∀ p k, s.pc t = .gPub p k → k.carry = none := by
    intro p k hp; rw [hp] at hwf; exact carry_cont c none k hwf
  clear I J K hwf
  cases h
  case popClaim ctx i0 k0 nr cl hpc hq hi hcell hfull =>
    have hit := (isTask_iff cl.item).mp (l4 k0 i0 cl hcell)
    obtain ⟨idx, hidx⟩ := hit
    have hc1 := Q.itemAt_eq _ _ _ hcell
    have hc2 := Q.stAt_eq _ _ _ hcell
    have hc3 : i0 < (s.l k0).cells.length := Q.stAt_some_lt _ _ _ hc2
    rw [hidx] at hc1; rw [hfull] at hc2
    clear hcell l4
    cases ctx <;> simp only [hidx] at * <;> p_close
  case wRecv i0 cl hpc hcell hfull =>
    have hc1 := Q.itemAt_eq _ _ _ hcell
    have hc2 := Q.stAt_eq _ _ _ hcell
    have hc3 : i0 < s.g.cells.length := Q.stAt_some_lt _ _ _ hc2
    rw [hfull] at hc2
    clear hcell l4
    cases hx : cl.item <;> simp only [hx] at * <;> p_close
  case gPublish p k hpc hfree hst =>
    have hc3 : p < s.g.cells.length := Q.stAt_some_lt _ _ _ hst
    clear l4; p_close
  case rLPub id0 cid p k0 hpc hown hfree hst =>
    have hc3 : p < (s.l k0).cells.length := Q.stAt_some_lt _ _ _ hst
    clear l4; p_close
  all_goals (clear l4; try p_close)
  all_goals (trace_state; sorry)

end
end Babylon.Exec
