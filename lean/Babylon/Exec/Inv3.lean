/-
  Third layer of invariants: where every task is (the ghost `loc` agrees with the queues and the
  program counters, in both directions), how often it has run, what its future looks like, and its
  global ticket.
-/
import Babylon.Exec.Inv2
import Babylon.Exec.QLemmas

namespace Babylon.Exec
open Babylon.Core

/-! ### what the helper program counters carry / execute -/

theorem carry_markChain (c : Cfg) (n : Nat) : (markChain c n).carry = none := by
  rcases markChain_cases c n with h | h | ⟨m, h⟩ <;> simp [h, Pc.carry]
theorem carry_cont (c : Cfg) (x : Option Item) (k : Pc) (h : ContOK c x k) : k.carry = none := by
  cases k <;> first
    | rfl
    | (obtain ⟨_, n, hn⟩ := h; rw [hn]; exact carry_markChain c n)
theorem carry_afterStore (c : Cfg) : (afterStore c).carry = none := by
  unfold afterStore; split
  · rfl
  · exact carry_markChain c _
theorem exec_afterStore (c : Cfg) : (afterStore c).exec = none := by
  unfold afterStore; split
  · rfl
  · exact markChain_exec c _
theorem carry_dispatchPc (x : Item) : (dispatchPc x).carry = none := by cases x <;> rfl
theorem exec_dispatchPc_task (id : Nat) : (dispatchPc (.task id)).exec = some id := rfl
theorem exec_dispatchPc_stop : (dispatchPc .stop).exec = none := rfl
theorem exec_dispatchPc_wakeup : (dispatchPc .wakeup).exec = none := rfl
theorem carry_onEmpty (ctx : PopCtx) : ctx.onEmpty.carry = none := by cases ctx <;> rfl
theorem exec_onEmpty (ctx : PopCtx) : ctx.onEmpty.exec = none := by cases ctx <;> rfl
theorem carry_afterLdRunS (v : Bool) : (afterLdRunS v).carry = none := by cases v <;> rfl
theorem exec_afterLdRunS (v : Bool) : (afterLdRunS v).exec = none := by cases v <;> rfl
theorem carry_afterLdRunB (v : Bool) : (afterLdRunB v).carry = none := by cases v <;> rfl
theorem exec_afterLdRunB (v : Bool) : (afterLdRunB v).exec = none := by cases v <;> rfl
theorem carry_afterJoinW (c : Cfg) (n : Nat) : (afterJoinW c n).carry = none := by unfold afterJoinW; split <;> rfl
theorem exec_afterJoinW (c : Cfg) (n : Nat) : (afterJoinW c n).exec = none := by unfold afterJoinW; split <;> rfl
theorem carry_afterSubmit (c : Cfg) (b : Bool) (id cid : Nat) : (afterSubmit c b id cid).carry = some cid := by
  unfold afterSubmit; split <;> rfl
theorem exec_afterSubmit (c : Cfg) (b : Bool) (id cid : Nat) : (afterSubmit c b id cid).exec = some id := by
  unfold afterSubmit; split <;> rfl
theorem carry_afterSize (c : Cfg) (p a id cid : Nat) : (afterSize c p a id cid).carry = some cid := by
  unfold afterSize; split <;> rfl
theorem exec_afterSize (c : Cfg) (p a id cid : Nat) : (afterSize c p a id cid).exec = some id := by
  unfold afterSize; split <;> rfl
theorem ne_wPre_afterSubmit (c : Cfg) (b : Bool) (id cid x : Nat) : afterSubmit c b id cid ≠ .wPre x := by
  unfold afterSubmit; split <;> simp
theorem ne_wPre_afterSize (c : Cfg) (p a id cid x : Nat) : afterSize c p a id cid ≠ .wPre x := by
  unfold afterSize; split <;> simp
theorem role_afterSubmit' (c : Cfg) (b : Bool) (id cid : Nat) : (afterSubmit c b id cid).role ≠ .bal := by simp
theorem cont_ne_wPre (c : Cfg) (x : Option Item) (k : Pc) (h : ContOK c x k) (y : Nat) : k ≠ .wPre y := by
  cases k <;> first
    | (simp; done)
    | (exfalso; obtain ⟨_, n, hn⟩ := h
       rcases markChain_cases c n with h1 | h1 | ⟨m, h1⟩ <;> rw [h1] at hn <;> cases hn)

/-- run counter of task `id` as determined by its place -/
def runsOK (s : State) (id : Nat) : Prop :=
  match s.loc id with
  | .nowhere => s.runs id = 0
  | .gq _ => s.runs id = 0
  | .lq _ _ => s.runs id = 0
  | .fin => s.runs id = 1
  | .hand t => if (s.pc t).exec = some id ∧ s.pc t ≠ .wPre id then s.runs id = 1 else s.runs id = 0

structure Inv3 (c : Cfg) (s : State) : Prop where
  /-- the ghost place is real -/
  a1 : ∀ id i, s.loc id = .gq i → s.g.itemAt i = some (.task id) ∧ s.g.stAt i ≠ some .free
  a2 : ∀ id k i, s.loc id = .lq k i → (s.l k).itemAt i = some (.task id) ∧ (s.l k).stAt i ≠ some .free
  a3 : ∀ id t, s.loc id = .hand t → (s.pc t).carry = some id ∨ (s.pc t).exec = some id
  a4 : ∀ id, s.loc id = .fin ↔ s.done id = true
  a5 : ∀ id, s.loc id = .nowhere ↔ s.known id = false
  /-- every real place is the ghost place -/
  b1 : ∀ (i id : Nat), s.g.itemAt i = some (.task id) → s.g.stAt i ≠ some .free → s.loc id = .gq i
  b2 : ∀ (k i id : Nat), (s.l k).itemAt i = some (.task id) → (s.l k).stAt i ≠ some .free → s.loc id = .lq k i
  b3c : ∀ t id, (s.pc t).carry = some id → s.loc id = .hand t
  b3e : ∀ t id, (s.pc t).exec = some id → s.loc id = .hand t
  a6 : ∀ t a b, (s.pc t).carry = some a → (s.pc t).exec = some b → a ≠ b
  /-- run counter -/
  u : ∀ id, runsOK s id
  /-- futures, rejected submissions -/
  f1 : ∀ id, s.rejected id = true → s.known id = false
  f2 : ∀ id, s.accepted id = true → s.known id = true ∧ s.futValid id = true
  f3 : ∀ id, s.done id = true → s.futReady id = true
  f4 : ∀ id, s.futValid id = true → s.accepted id = true
  f5 : ∀ id, s.preStop id = true → s.accepted id = true
  f6 : ∀ id, s.viaLocal id = true → s.known id = true
  /-- a task carried by a thread other than the balance thread is fresh -/
  v2 : ∀ t id, (s.pc t).carry = some id → (s.pc t).role ≠ .bal → s.viaLocal id = false ∧ s.accepted id = false
  /-- global tickets -/
  t1 : ∀ id i, s.loc id = .gq i → s.gTicket id = some i
  t2 : ∀ id i, s.gTicket id = some i → i < s.g.cells.length
  t3a : ∀ id, s.loc id = .nowhere → s.gTicket id = none
  t3b : ∀ id k i, s.loc id = .lq k i → s.gTicket id = none
  t3c : ∀ t id, (s.pc t).carry = some id → s.gTicket id = none

theorem Inv3.init (c : Cfg) : Inv3 c (State.init c) := by
  have hp := init_pc c
  have hc : ∀ t, ((State.init c).pc t).carry = none ∧ ((State.init c).pc t).exec = none := by
    intro t; rcases hp t with h | h | h <;> rw [h] <;> exact ⟨rfl, rfl⟩
  refine ⟨?_, ?_, ?_, ?_, ?_, ?_, ?_, ?_, ?_, ?_, ?_, ?_, ?_, ?_, ?_, ?_, ?_, ?_, ?_, ?_, ?_, ?_, ?_⟩
  all_goals first
    | (intro t id h; rw [(hc t).1] at h; cases h)
    | (intro t id h; rw [(hc t).2] at h; cases h)
    | (intro t a b h; rw [(hc t).1] at h; cases h)
    | (intros; simp_all [State.init, runsOK, Q.itemAt, Q.stAt]; done)

end Babylon.Exec
