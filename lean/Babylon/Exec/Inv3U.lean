/-
  Run counters: a task's function has been entered exactly once iff the task is running or finished,
  and never otherwise.  Inductive together with `Inv3`.
-/
import Babylon.Exec.Inv3
import Babylon.Exec.Inv2Pres

namespace Babylon.Exec
open Babylon.Core

structure Inv3U (s : State) : Prop where
  u1 : ∀ id, s.loc id = .nowhere → s.runs id = 0
  u2 : ∀ id i, s.loc id = .gq i → s.runs id = 0
  u3 : ∀ id k i, s.loc id = .lq k i → s.runs id = 0
  u4 : ∀ id, s.loc id = .fin → s.runs id = 1
  u5 : ∀ id t, s.loc id = .hand t → (s.pc t).exec = some id → s.pc t ≠ .wPre id → s.runs id = 1
  u6 : ∀ id t, s.loc id = .hand t → ((s.pc t).exec ≠ some id ∨ s.pc t = .wPre id) → s.runs id = 0

theorem Inv3U.init (c : Cfg) : Inv3U (State.init c) := by
  refine ⟨?_, ?_, ?_, ?_, ?_, ?_⟩ <;> intros <;> simp_all [State.init]

macro "u_close" : tactic => `(tactic| (
  (try simp only [exec_proj, upd_same, Q.claim_fold, Q.bump_fold] at *)
  first
    | done
    | grind [upd, Pc.role, Pc.carry, Pc.exec, claimPc, dispatchPc, PopCtx.onEmpty, afterLdRunS,
        afterLdRunB, afterJoinW]))

section
variable {c : Cfg} {s s' : State} {t : Nat} {lb : Lbl}

set_option maxHeartbeats 4000000 in
theorem Inv3U.step_u1 (I : Inv1 c s) (J : Inv2 c s) (K : Inv3 c s) (U : Inv3U s) (h : StepCase c s t lb s') :
    ∀ id, s'.loc id = .nowhere → s'.runs id = 0 := by
  intro id hl
  have u1 := U.u1
  have u2 := U.u2
  have u3 := U.u3
  have u4 := U.u4
  have u5 := U.u5
  have u6 := U.u6
  have b1 := K.b1
  have b2 := K.b2
  have b3c := K.b3c
  have b3e := K.b3e
  have a3 := K.a3
  have a6 := K.a6
  have a5 := K.a5
  have l4 := J.l4
  have hwf := I.wf t
  have hx1 := carry_dispatchPc
  have hx2 := carry_onEmpty
  have hx3 := exec_onEmpty
  have hx4 := carry_markChain c
  have hx5 := markChain_exec c
  have hx6 := carry_afterStore c
  have hx7 := exec_afterStore c
  have hx8 := carry_afterSubmit c
  have hx9 := exec_afterSubmit c
  have hx10 := carry_afterSize c
  have hx11 := exec_afterSize c
  have hx12 := ne_wPre_afterSubmit c
  have hx13 := ne_wPre_afterSize c
  have hx16 := markChain_ne c
  have hk : ∀ p k, s.pc t = .gPub p k → k.carry = none ∧ ∀ y, k ≠ .wPre y := by
    intro p k hp; rw [hp] at hwf; exact ⟨carry_cont c none k hwf, cont_ne_wPre c none k hwf⟩
  have hk2 : ∀ x k, s.pc t = .gTake x k → ∀ y, k ≠ .wPre y := by
    intro x k hp; rw [hp] at hwf; exact cont_ne_wPre c _ k hwf
  have hb3c := b3c t
  have hb3e := b3e t
  have ha3t := a3
  clear I J K U hwf
  cases h
  case popClaim ctx i0 k0 nr cl hpc hq hi hcell hfull =>
    have hit := (isTask_iff cl.item).mp (l4 k0 i0 cl hcell)
    obtain ⟨idx, hidx⟩ := hit
    have hc1 := Q.itemAt_eq _ _ _ hcell
    have hc2 := Q.stAt_eq _ _ _ hcell
    rw [hidx] at hc1; rw [hfull] at hc2
    have hb2 : s.loc idx = .lq k0 i0 := b2 k0 i0 idx hc1 (by rw [hc2]; simp)
    clear hcell l4 b1 b2
    cases ctx <;> simp only [hidx] at * <;> u_close
  case wRecv i0 cl hpc hcell hfull =>
    have hc1 := Q.itemAt_eq _ _ _ hcell
    have hc2 := Q.stAt_eq _ _ _ hcell
    rw [hfull] at hc2
    have hb1 : ∀ idx, cl.item = .task idx → s.loc idx = .gq i0 := by
      intro idx hx; rw [hx] at hc1; exact b1 i0 idx hc1 (by rw [hc2]; simp)
    clear hcell l4 b1 b2
    cases hx : cl.item <;> simp only [hx] at * <;> u_close
  all_goals (clear l4 b1 b2; try u_close)

set_option maxHeartbeats 4000000 in
theorem Inv3U.step_u2 (I : Inv1 c s) (J : Inv2 c s) (K : Inv3 c s) (U : Inv3U s) (h : StepCase c s t lb s') :
    ∀ id i, s'.loc id = .gq i → s'.runs id = 0 := by
  intro id i hl
  have u1 := U.u1
  have u2 := U.u2
  have u3 := U.u3
  have u4 := U.u4
  have u5 := U.u5
  have u6 := U.u6
  have b1 := K.b1
  have b2 := K.b2
  have b3c := K.b3c
  have b3e := K.b3e
  have a3 := K.a3
  have a6 := K.a6
  have a5 := K.a5
  have l4 := J.l4
  have hwf := I.wf t
  have hx1 := carry_dispatchPc
  have hx2 := carry_onEmpty
  have hx3 := exec_onEmpty
  have hx4 := carry_markChain c
  have hx5 := markChain_exec c
  have hx6 := carry_afterStore c
  have hx7 := exec_afterStore c
  have hx8 := carry_afterSubmit c
  have hx9 := exec_afterSubmit c
  have hx10 := carry_afterSize c
  have hx11 := exec_afterSize c
  have hx12 := ne_wPre_afterSubmit c
  have hx13 := ne_wPre_afterSize c
  have hx16 := markChain_ne c
  have hk : ∀ p k, s.pc t = .gPub p k → k.carry = none ∧ ∀ y, k ≠ .wPre y := by
    intro p k hp; rw [hp] at hwf; exact ⟨carry_cont c none k hwf, cont_ne_wPre c none k hwf⟩
  have hk2 : ∀ x k, s.pc t = .gTake x k → ∀ y, k ≠ .wPre y := by
    intro x k hp; rw [hp] at hwf; exact cont_ne_wPre c _ k hwf
  have hb3c := b3c t
  have hb3e := b3e t
  have ha3t := a3
  clear I J K U hwf
  cases h
  case popClaim ctx i0 k0 nr cl hpc hq hi hcell hfull =>
    have hit := (isTask_iff cl.item).mp (l4 k0 i0 cl hcell)
    obtain ⟨idx, hidx⟩ := hit
    have hc1 := Q.itemAt_eq _ _ _ hcell
    have hc2 := Q.stAt_eq _ _ _ hcell
    rw [hidx] at hc1; rw [hfull] at hc2
    have hb2 : s.loc idx = .lq k0 i0 := b2 k0 i0 idx hc1 (by rw [hc2]; simp)
    clear hcell l4 b1 b2
    cases ctx <;> simp only [hidx] at * <;> u_close
  case wRecv i0 cl hpc hcell hfull =>
    have hc1 := Q.itemAt_eq _ _ _ hcell
    have hc2 := Q.stAt_eq _ _ _ hcell
    rw [hfull] at hc2
    have hb1 : ∀ idx, cl.item = .task idx → s.loc idx = .gq i0 := by
      intro idx hx; rw [hx] at hc1; exact b1 i0 idx hc1 (by rw [hc2]; simp)
    clear hcell l4 b1 b2
    cases hx : cl.item <;> simp only [hx] at * <;> u_close
  all_goals (clear l4 b1 b2; try u_close)

set_option maxHeartbeats 4000000 in
theorem Inv3U.step_u3 (I : Inv1 c s) (J : Inv2 c s) (K : Inv3 c s) (U : Inv3U s) (h : StepCase c s t lb s') :
    ∀ id k i, s'.loc id = .lq k i → s'.runs id = 0 := by
  intro id k i hl
  have u1 := U.u1
  have u2 := U.u2
  have u3 := U.u3
  have u4 := U.u4
  have u5 := U.u5
  have u6 := U.u6
  have b1 := K.b1
  have b2 := K.b2
  have b3c := K.b3c
  have b3e := K.b3e
  have a3 := K.a3
  have a6 := K.a6
  have a5 := K.a5
  have l4 := J.l4
  have hwf := I.wf t
  have hx1 := carry_dispatchPc
  have hx2 := carry_onEmpty
  have hx3 := exec_onEmpty
  have hx4 := carry_markChain c
  have hx5 := markChain_exec c
  have hx6 := carry_afterStore c
  have hx7 := exec_afterStore c
  have hx8 := carry_afterSubmit c
  have hx9 := exec_afterSubmit c
  have hx10 := carry_afterSize c
  have hx11 := exec_afterSize c
  have hx12 := ne_wPre_afterSubmit c
  have hx13 := ne_wPre_afterSize c
  have hx16 := markChain_ne c
  have hk : ∀ p k, s.pc t = .gPub p k → k.carry = none ∧ ∀ y, k ≠ .wPre y := by
    intro p k hp; rw [hp] at hwf; exact ⟨carry_cont c none k hwf, cont_ne_wPre c none k hwf⟩
  have hk2 : ∀ x k, s.pc t = .gTake x k → ∀ y, k ≠ .wPre y := by
    intro x k hp; rw [hp] at hwf; exact cont_ne_wPre c _ k hwf
  have hb3c := b3c t
  have hb3e := b3e t
  have ha3t := a3
  clear I J K U hwf
  cases h
  case popClaim ctx i0 k0 nr cl hpc hq hi hcell hfull =>
    have hit := (isTask_iff cl.item).mp (l4 k0 i0 cl hcell)
    obtain ⟨idx, hidx⟩ := hit
    have hc1 := Q.itemAt_eq _ _ _ hcell
    have hc2 := Q.stAt_eq _ _ _ hcell
    rw [hidx] at hc1; rw [hfull] at hc2
    have hb2 : s.loc idx = .lq k0 i0 := b2 k0 i0 idx hc1 (by rw [hc2]; simp)
    clear hcell l4 b1 b2
    cases ctx <;> simp only [hidx] at * <;> u_close
  case wRecv i0 cl hpc hcell hfull =>
    have hc1 := Q.itemAt_eq _ _ _ hcell
    have hc2 := Q.stAt_eq _ _ _ hcell
    rw [hfull] at hc2
    have hb1 : ∀ idx, cl.item = .task idx → s.loc idx = .gq i0 := by
      intro idx hx; rw [hx] at hc1; exact b1 i0 idx hc1 (by rw [hc2]; simp)
    clear hcell l4 b1 b2
    cases hx : cl.item <;> simp only [hx] at * <;> u_close
  all_goals (clear l4 b1 b2; try u_close)

set_option maxHeartbeats 4000000 in
theorem Inv3U.step_u4 (I : Inv1 c s) (J : Inv2 c s) (K : Inv3 c s) (U : Inv3U s) (h : StepCase c s t lb s') :
    ∀ id, s'.loc id = .fin → s'.runs id = 1 := by
  intro id hl
  have u1 := U.u1
  have u2 := U.u2
  have u3 := U.u3
  have u4 := U.u4
  have u5 := U.u5
  have u6 := U.u6
  have b1 := K.b1
  have b2 := K.b2
  have b3c := K.b3c
  have b3e := K.b3e
  have a3 := K.a3
  have a6 := K.a6
  have a5 := K.a5
  have l4 := J.l4
  have hwf := I.wf t
  have hx1 := carry_dispatchPc
  have hx2 := carry_onEmpty
  have hx3 := exec_onEmpty
  have hx4 := carry_markChain c
  have hx5 := markChain_exec c
  have hx6 := carry_afterStore c
  have hx7 := exec_afterStore c
  have hx8 := carry_afterSubmit c
  have hx9 := exec_afterSubmit c
  have hx10 := carry_afterSize c
  have hx11 := exec_afterSize c
  have hx12 := ne_wPre_afterSubmit c
  have hx13 := ne_wPre_afterSize c
  have hx16 := markChain_ne c
  have hk : ∀ p k, s.pc t = .gPub p k → k.carry = none ∧ ∀ y, k ≠ .wPre y := by
    intro p k hp; rw [hp] at hwf; exact ⟨carry_cont c none k hwf, cont_ne_wPre c none k hwf⟩
  have hk2 : ∀ x k, s.pc t = .gTake x k → ∀ y, k ≠ .wPre y := by
    intro x k hp; rw [hp] at hwf; exact cont_ne_wPre c _ k hwf
  have hb3c := b3c t
  have hb3e := b3e t
  have ha3t := a3
  clear I J K U hwf
  cases h
  case popClaim ctx i0 k0 nr cl hpc hq hi hcell hfull =>
    have hit := (isTask_iff cl.item).mp (l4 k0 i0 cl hcell)
    obtain ⟨idx, hidx⟩ := hit
    have hc1 := Q.itemAt_eq _ _ _ hcell
    have hc2 := Q.stAt_eq _ _ _ hcell
    rw [hidx] at hc1; rw [hfull] at hc2
    have hb2 : s.loc idx = .lq k0 i0 := b2 k0 i0 idx hc1 (by rw [hc2]; simp)
    clear hcell l4 b1 b2
    cases ctx <;> simp only [hidx] at * <;> u_close
  case wRecv i0 cl hpc hcell hfull =>
    have hc1 := Q.itemAt_eq _ _ _ hcell
    have hc2 := Q.stAt_eq _ _ _ hcell
    rw [hfull] at hc2
    have hb1 : ∀ idx, cl.item = .task idx → s.loc idx = .gq i0 := by
      intro idx hx; rw [hx] at hc1; exact b1 i0 idx hc1 (by rw [hc2]; simp)
    clear hcell l4 b1 b2
    cases hx : cl.item <;> simp only [hx] at * <;> u_close
  all_goals (clear l4 b1 b2; try u_close)

set_option maxHeartbeats 4000000 in
theorem Inv3U.step_u5 (I : Inv1 c s) (J : Inv2 c s) (K : Inv3 c s) (U : Inv3U s) (h : StepCase c s t lb s') :
    ∀ id t', s'.loc id = .hand t' → (s'.pc t').exec = some id → s'.pc t' ≠ .wPre id → s'.runs id = 1 := by
  intro id t' hl hex hne
  have u1 := U.u1
  have u2 := U.u2
  have u3 := U.u3
  have u4 := U.u4
  have u5 := U.u5
  have u6 := U.u6
  have b1 := K.b1
  have b2 := K.b2
  have b3c := K.b3c
  have b3e := K.b3e
  have a3 := K.a3
  have a6 := K.a6
  have a5 := K.a5
  have l4 := J.l4
  have hwf := I.wf t
  have hx1 := carry_dispatchPc
  have hx2 := carry_onEmpty
  have hx3 := exec_onEmpty
  have hx4 := carry_markChain c
  have hx5 := markChain_exec c
  have hx6 := carry_afterStore c
  have hx7 := exec_afterStore c
  have hx8 := carry_afterSubmit c
  have hx9 := exec_afterSubmit c
  have hx10 := carry_afterSize c
  have hx11 := exec_afterSize c
  have hx12 := ne_wPre_afterSubmit c
  have hx13 := ne_wPre_afterSize c
  have hx16 := markChain_ne c
  have hk : ∀ p k, s.pc t = .gPub p k → k.carry = none ∧ ∀ y, k ≠ .wPre y := by
    intro p k hp; rw [hp] at hwf; exact ⟨carry_cont c none k hwf, cont_ne_wPre c none k hwf⟩
  have hk2 : ∀ x k, s.pc t = .gTake x k → ∀ y, k ≠ .wPre y := by
    intro x k hp; rw [hp] at hwf; exact cont_ne_wPre c _ k hwf
  have hb3c := b3c t
  have hb3e := b3e t
  have ha3t := a3
  clear I J K U hwf
  cases h
  case popClaim ctx i0 k0 nr cl hpc hq hi hcell hfull =>
    have hit := (isTask_iff cl.item).mp (l4 k0 i0 cl hcell)
    obtain ⟨idx, hidx⟩ := hit
    have hc1 := Q.itemAt_eq _ _ _ hcell
    have hc2 := Q.stAt_eq _ _ _ hcell
    rw [hidx] at hc1; rw [hfull] at hc2
    have hb2 : s.loc idx = .lq k0 i0 := b2 k0 i0 idx hc1 (by rw [hc2]; simp)
    clear hcell l4 b1 b2
    cases ctx <;> simp only [hidx] at * <;> u_close
  case wRecv i0 cl hpc hcell hfull =>
    have hc1 := Q.itemAt_eq _ _ _ hcell
    have hc2 := Q.stAt_eq _ _ _ hcell
    rw [hfull] at hc2
    have hb1 : ∀ idx, cl.item = .task idx → s.loc idx = .gq i0 := by
      intro idx hx; rw [hx] at hc1; exact b1 i0 idx hc1 (by rw [hc2]; simp)
    clear hcell l4 b1 b2
    cases hx : cl.item <;> simp only [hx] at * <;> u_close
  all_goals (clear l4 b1 b2; try u_close)

set_option maxHeartbeats 4000000 in
theorem Inv3U.step_u6 (I : Inv1 c s) (J : Inv2 c s) (K : Inv3 c s) (U : Inv3U s) (h : StepCase c s t lb s') :
    ∀ id t', s'.loc id = .hand t' → ((s'.pc t').exec ≠ some id ∨ s'.pc t' = .wPre id) → s'.runs id = 0 := by
  intro id t' hl hor
  have u1 := U.u1
  have u2 := U.u2
  have u3 := U.u3
  have u4 := U.u4
  have u5 := U.u5
  have u6 := U.u6
  have b1 := K.b1
  have b2 := K.b2
  have b3c := K.b3c
  have b3e := K.b3e
  have a3 := K.a3
  have a6 := K.a6
  have a5 := K.a5
  have l4 := J.l4
  have hwf := I.wf t
  have hx1 := carry_dispatchPc
  have hx2 := carry_onEmpty
  have hx3 := exec_onEmpty
  have hx4 := carry_markChain c
  have hx5 := markChain_exec c
  have hx6 := carry_afterStore c
  have hx7 := exec_afterStore c
  have hx8 := carry_afterSubmit c
  have hx9 := exec_afterSubmit c
  have hx10 := carry_afterSize c
  have hx11 := exec_afterSize c
  have hx12 := ne_wPre_afterSubmit c
  have hx13 := ne_wPre_afterSize c
  have hx16 := markChain_ne c
  have hk : ∀ p k, s.pc t = .gPub p k → k.carry = none ∧ ∀ y, k ≠ .wPre y := by
    intro p k hp; rw [hp] at hwf; exact ⟨carry_cont c none k hwf, cont_ne_wPre c none k hwf⟩
  have hk2 : ∀ x k, s.pc t = .gTake x k → ∀ y, k ≠ .wPre y := by
    intro x k hp; rw [hp] at hwf; exact cont_ne_wPre c _ k hwf
  have hb3c := b3c t
  have hb3e := b3e t
  have ha3t := a3
  clear I J K U hwf
  cases h
  case popClaim ctx i0 k0 nr cl hpc hq hi hcell hfull =>
    have hit := (isTask_iff cl.item).mp (l4 k0 i0 cl hcell)
    obtain ⟨idx, hidx⟩ := hit
    have hc1 := Q.itemAt_eq _ _ _ hcell
    have hc2 := Q.stAt_eq _ _ _ hcell
    rw [hidx] at hc1; rw [hfull] at hc2
    have hb2 : s.loc idx = .lq k0 i0 := b2 k0 i0 idx hc1 (by rw [hc2]; simp)
    clear hcell l4 b1 b2
    cases ctx <;> simp only [hidx] at * <;> u_close
  case wRecv i0 cl hpc hcell hfull =>
    have hc1 := Q.itemAt_eq _ _ _ hcell
    have hc2 := Q.stAt_eq _ _ _ hcell
    rw [hfull] at hc2
    have hb1 : ∀ idx, cl.item = .task idx → s.loc idx = .gq i0 := by
      intro idx hx; rw [hx] at hc1; exact b1 i0 idx hc1 (by rw [hc2]; simp)
    clear hcell l4 b1 b2
    cases hx : cl.item <;> simp only [hx] at * <;> u_close
  all_goals (clear l4 b1 b2; try u_close)

end
end Babylon.Exec
