/-
  First layer of invariants of the executor model: which thread can be at which program counter
  (roles), the shape of continuations, ownership of the thread-local slots, the `_running` flag and
  the scope counter.  Everything else builds on these.
-/
import Babylon.Exec.Proj
import Babylon.Core.Reach

namespace Babylon.Exec
open Babylon.Core

inductive Role | free | ext | worker | bal | stopper
  deriving DecidableEq, Repr

/-- the role a program counter belongs to (`idle` / `exited` are shared) -/
def Pc.role : Pc → Role
  | .idle | .exited => .free
  | .gTake _ k | .gPub _ k => Pc.role k
  | .xRet _ | .xWkRet => .ext
  | .sLd | .sSt | .sJoinB | .sJoinW _ | .sEnd => .stopper
  | .wInit | .wTop | .wSteal _ | .wGWait _ | .wPre _ | .wStopping | .wRun _ | .rSz0 _ _ | .rSz1 _ _ _
  | .rLLd _ _ | .rLSt _ _ _ | .rLPub _ _ _ | .rRet _ _ => .worker
  | .chk .own _ _ | .chk (.steal _) _ _ => .worker
  | .chk (.bal _) _ _ => .bal
  | .bTop | .bSweep _ | .bStopping => .bal

/-- the task a thread carries towards a queue (not yet in any queue) -/
def Pc.carry : Pc → Option Nat
  | .gTake (.task id) _ => some id
  | .rSz0 _ c | .rSz1 _ c _ | .rLLd _ c | .rLSt _ c _ => some c
  | _ => none

/-- the task whose function a thread is about to run / is running -/
def Pc.exec : Pc → Option Nat
  | .wPre id | .wRun id | .rSz0 id _ | .rSz1 id _ _ | .rLLd id _ | .rLSt id _ _ | .rLPub id _ _ | .rRet id _ => some id
  | .gTake _ k | .gPub _ k => Pc.exec k
  | _ => none

/-- inside the function of a task (after `run`, before `done`) -/
def Pc.inTask : Pc → Bool
  | .wRun _ | .rSz0 _ _ | .rSz1 _ _ _ | .rLLd _ _ | .rLSt _ _ _ | .rLPub _ _ _ | .rRet _ _ => true
  | .gTake _ k | .gPub _ k => Pc.inTask k
  | _ => false

/-- continuations a global push can have, and the item it pushes (`x = none`: ticket already taken) -/
def ContOK (c : Cfg) (x : Option Item) : Pc → Prop
  | .xRet id => x = none ∨ x = some (.task id)
  | .xWkRet => x = none ∨ x = some .wakeup
  | .rRet _ cid => x = none ∨ x = some (.task cid)
  | .bSweep _ => True
  | k => (x = none ∨ x = some .stop) ∧ ∃ n, k = markChain c n

/-- shape of a program counter -/
def PcWF (c : Cfg) : Pc → Prop
  | .gTake x k => ContOK c (some x) k
  | .gPub _ k => ContOK c none k
  | _ => True

theorem markChain_role (c : Cfg) (n : Nat) : (markChain c n).role = .stopper := by
  induction n with
  | zero => simp only [markChain]; split <;> rfl
  | succ n ih => simpa [markChain, Pc.role] using ih

theorem markChain_exec (c : Cfg) (n : Nat) : (markChain c n).exec = none := by
  induction n with
  | zero => simp only [markChain]; split <;> rfl
  | succ n ih => simpa [markChain, Pc.exec] using ih

theorem markChain_inTask (c : Cfg) (n : Nat) : (markChain c n).inTask = false := by
  induction n with
  | zero => simp only [markChain]; split <;> rfl
  | succ n ih => simpa [markChain, Pc.inTask] using ih

theorem markChain_cases (c : Cfg) (n : Nat) :
    markChain c n = .sEnd ∨ markChain c n = .sJoinW 0 ∨ ∃ m, markChain c n = .gTake .stop (markChain c m) := by
  cases n with
  | zero => simp only [markChain]; split <;> simp
  | succ m => exact Or.inr (Or.inr ⟨m, rfl⟩)

theorem markChain_ne (c : Cfg) (n : Nat) :
    markChain c n ≠ .sLd ∧ markChain c n ≠ .sSt ∧ markChain c n ≠ .sJoinB ∧ markChain c n ≠ .idle ∧ markChain c n ≠ .exited := by
  rcases markChain_cases c n with h | h | ⟨m, h⟩ <;> simp [h]

theorem afterStore_ne (c : Cfg) : afterStore c ≠ .sLd ∧ afterStore c ≠ .sSt := by
  unfold afterStore; split
  · simp
  · exact ⟨(markChain_ne c _).1, (markChain_ne c _).2.1⟩

theorem contOK_stopper (c : Cfg) (x : Option Item) (k : Pc) (hr : k.role = .stopper)
    (hx : x = none ∨ x = some .stop) (hk : ∃ n, k = markChain c n) : ContOK c x k := by
  cases k <;> first
    | exact ⟨hx, hk⟩
    | (exfalso; revert hr; simp [Pc.role]; done)
    | (rename_i ctx _ _; cases ctx <;> (exfalso; revert hr; simp [Pc.role]))

theorem markChain_cont (c : Cfg) (n : Nat) : ContOK c none (markChain c n) :=
  contOK_stopper c none _ (markChain_role c n) (Or.inl rfl) ⟨n, rfl⟩

theorem markChain_wf (c : Cfg) (n : Nat) : PcWF c (markChain c n) := by
  cases n with
  | zero => simp only [markChain]; split <;> simp [PcWF]
  | succ n =>
    simp only [markChain, PcWF]
    exact contOK_stopper c _ _ (markChain_role c n) (Or.inr rfl) ⟨n, rfl⟩

theorem afterStore_role (c : Cfg) : (afterStore c).role = .stopper := by
  unfold afterStore; split
  · rfl
  · exact markChain_role c _

structure Inv1 (c : Cfg) (s : State) : Prop where
  wf : ∀ t, PcWF c (s.pc t)
  r1 : ∀ t, (s.pc t).role = .worker → t ∈ c.workers
  r2 : ∀ t, (s.pc t).role = .bal → c.bal = some t
  r3 : ∀ t, (s.pc t).role = .stopper → s.stopper = some t
  r4 : ∀ t, t ∈ c.workers → (s.pc t).role = .worker ∨ s.pc t = .exited
  r5 : ∀ b, c.bal = some b → (s.pc b).role = .bal ∨ s.pc b = .exited
  r6 : s.stopCalled = false → s.stopper = none
  run0 : s.stopCalled = false → s.running = true
  run1 : ∀ t, s.pc t = .sLd ∨ s.pc t = .sSt → s.running = true
  o1 : ∀ k w, s.owner k = some w → s.own w = some k
  o2 : ∀ w k, s.own w = some k → (s.pc w).role = .worker → s.owner k = some w
  o3 : ∀ w, s.pc w = .wInit → s.own w = none
  o4 : ∀ w, (s.pc w).role = .worker → s.pc w ≠ .wInit → s.own w ≠ none
  o5 : ∀ w k, s.own w = some k → w ∈ c.workers
  sc : ∀ t, (s.pc t).inTask = false → s.scope t = 0

/-! ### facts about the helper program counters -/

@[simp, exec_proj] theorem role_afterLdRunS (v : Bool) : (afterLdRunS v).role = .stopper := by cases v <;> rfl
@[simp, exec_proj] theorem role_afterLdRunB (v : Bool) : (afterLdRunB v).role = .bal := by cases v <;> rfl
@[simp, exec_proj] theorem role_afterJoinW (c : Cfg) (n : Nat) : (afterJoinW c n).role = .stopper := by
  unfold afterJoinW; split <;> rfl
@[simp, exec_proj] theorem role_afterSubmit (c : Cfg) (b : Bool) (id cid : Nat) : (afterSubmit c b id cid).role = .worker := by
  unfold afterSubmit; split <;> rfl
@[simp, exec_proj] theorem role_afterSize (c : Cfg) (p a id cid : Nat) : (afterSize c p a id cid).role = .worker := by
  unfold afterSize; split <;> rfl
@[simp, exec_proj] theorem role_dispatchPc (x : Item) : (dispatchPc x).role = .worker := by cases x <;> rfl
/-- role of the thread that performs a `try_pop` in context `ctx` -/
def PopCtx.role : PopCtx → Role
  | .own => .worker
  | .steal _ => .worker
  | .bal _ => .bal
@[simp, exec_proj] theorem role_chk (ctx : PopCtx) (i : Nat) (nr : Bool) : (Pc.chk ctx i nr).role = ctx.role := by
  cases ctx <;> rfl
@[simp, exec_proj] theorem role_claimPc (ctx : PopCtx) (x : Item) : (claimPc ctx x).role = ctx.role := by
  cases ctx <;> cases x <;> rfl
@[simp, exec_proj] theorem role_onEmpty (ctx : PopCtx) : ctx.onEmpty.role = ctx.role := by
  cases ctx <;> rfl
@[simp, exec_proj] theorem role_afterStore (c : Cfg) : (afterStore c).role = .stopper := afterStore_role c
@[simp, exec_proj] theorem role_markChain (c : Cfg) (n : Nat) : (markChain c n).role = .stopper := markChain_role c n

@[simp, exec_proj] theorem inTask_afterLdRunS (v : Bool) : (afterLdRunS v).inTask = false := by cases v <;> rfl
@[simp, exec_proj] theorem inTask_afterLdRunB (v : Bool) : (afterLdRunB v).inTask = false := by cases v <;> rfl
@[simp, exec_proj] theorem inTask_afterJoinW (c : Cfg) (n : Nat) : (afterJoinW c n).inTask = false := by
  unfold afterJoinW; split <;> rfl
@[simp, exec_proj] theorem inTask_afterSubmit (c : Cfg) (b : Bool) (id cid : Nat) : (afterSubmit c b id cid).inTask = true := by
  unfold afterSubmit; split <;> rfl
@[simp, exec_proj] theorem inTask_afterSize (c : Cfg) (p a id cid : Nat) : (afterSize c p a id cid).inTask = true := by
  unfold afterSize; split <;> rfl
@[simp, exec_proj] theorem inTask_dispatchPc (x : Item) : (dispatchPc x).inTask = false := by cases x <;> rfl
@[simp, exec_proj] theorem inTask_claimPc (ctx : PopCtx) (x : Item) : (claimPc ctx x).inTask = false := by
  cases ctx <;> cases x <;> rfl
@[simp, exec_proj] theorem inTask_onEmpty (ctx : PopCtx) : ctx.onEmpty.inTask = false := by cases ctx <;> rfl
@[simp, exec_proj] theorem inTask_afterStore (c : Cfg) : (afterStore c).inTask = false := by
  unfold afterStore; split
  · rfl
  · exact markChain_inTask c _
@[simp, exec_proj] theorem inTask_markChain (c : Cfg) (n : Nat) : (markChain c n).inTask = false := markChain_inTask c n

theorem wf_afterSubmit (c : Cfg) (b : Bool) (id cid : Nat) : PcWF c (afterSubmit c b id cid) := by
  unfold afterSubmit; split
  · trivial
  · exact Or.inr rfl
theorem wf_afterSize (c : Cfg) (p a id cid : Nat) : PcWF c (afterSize c p a id cid) := by
  unfold afterSize; split
  · trivial
  · exact Or.inr rfl
theorem wf_afterStore (c : Cfg) : PcWF c (afterStore c) := by
  unfold afterStore; split
  · trivial
  · exact markChain_wf c _
theorem wf_afterJoinW (c : Cfg) (n : Nat) : PcWF c (afterJoinW c n) := by
  unfold afterJoinW; split <;> trivial
theorem wf_afterLdRunS (c : Cfg) (v : Bool) : PcWF c (afterLdRunS v) := by cases v <;> trivial
theorem wf_afterLdRunB (c : Cfg) (v : Bool) : PcWF c (afterLdRunB v) := by cases v <;> trivial
theorem wf_dispatchPc (c : Cfg) (x : Item) : PcWF c (dispatchPc x) := by cases x <;> trivial
theorem wf_claimPc (c : Cfg) (ctx : PopCtx) (x : Item) : PcWF c (claimPc ctx x) := by
  cases ctx <;> cases x <;> trivial
theorem wf_onEmpty (c : Cfg) (ctx : PopCtx) : PcWF c ctx.onEmpty := by cases ctx <;> trivial

/-- a continuation that is well-formed as a continuation is a well-formed program counter -/
theorem wf_of_cont (c : Cfg) (x : Option Item) (k : Pc) (h : ContOK c x k) : PcWF c k := by
  cases k <;> first
    | trivial
    | (obtain ⟨_, n, hn⟩ := h; rw [hn]; exact markChain_wf c n)

/-- once the ticket is taken the item no longer matters -/
theorem cont_forget (c : Cfg) (x : Item) (k : Pc) (h : ContOK c (some x) k) : ContOK c none k := by
  cases k <;> first
    | exact Or.inl rfl
    | trivial
    | exact ⟨Or.inl rfl, h.2⟩

/-- none of the helper program counters is an entry point of `stop()` or `keep_execute` -/
theorem dispatchPc_ne (x : Item) : dispatchPc x ≠ .sLd ∧ dispatchPc x ≠ .sSt ∧ dispatchPc x ≠ .wInit := by
  cases x <;> simp [dispatchPc]
theorem claimPc_ne (ctx : PopCtx) (x : Item) : claimPc ctx x ≠ .sLd ∧ claimPc ctx x ≠ .sSt ∧ claimPc ctx x ≠ .wInit := by
  cases ctx <;> cases x <;> simp [claimPc, dispatchPc]
theorem onEmpty_ne (ctx : PopCtx) : ctx.onEmpty ≠ .sLd ∧ ctx.onEmpty ≠ .sSt ∧ ctx.onEmpty ≠ .wInit := by
  cases ctx <;> simp [PopCtx.onEmpty]
theorem markChain_ne_wInit (c : Cfg) (n : Nat) : markChain c n ≠ .wInit := by
  rcases markChain_cases c n with h | h | ⟨m, h⟩ <;> simp [h]
theorem afterStore_ne_wInit (c : Cfg) : afterStore c ≠ .wInit := by
  unfold afterStore; split
  · simp
  · exact markChain_ne_wInit c _
/-- a well-formed continuation is not an entry point -/
theorem cont_ne (c : Cfg) (x : Option Item) (k : Pc) (h : ContOK c x k) : k ≠ .sLd ∧ k ≠ .sSt ∧ k ≠ .wInit := by
  cases k <;> simp_all [ContOK]
  all_goals (obtain ⟨_, n, hn⟩ := h)
  · exact (markChain_ne c n).1 hn.symm
  · exact (markChain_ne c n).2.1 hn.symm
  · exact markChain_ne_wInit c n hn.symm

/-- every step changes only the program counter of the stepping thread -/
theorem pc_frame {c : Cfg} {s s' : State} {t : Nat} {lb : Lbl} (h : StepCase c s t lb s') :
    ∀ u, u ≠ t → s'.pc u = s.pc u := by
  intro u hu
  cases h <;> simp [upd_other _ _ _ _ hu]

end Babylon.Exec
