/-
  First layer of invariants of the executor model: which thread can be at which program counter
  (roles), the shape of continuations, ownership of the thread-local slots, the `_running` flag and
  the scope counter.  Everything else builds on these.
-/
import Babylon.Exec.Proj
import Babylon.Core.Reach

namespace Babylon.Exec
open Babylon.Core

inductive Role | free | ext | worker | bal | stopper
  deriving DecidableEq, Repr

/-- the role a program counter belongs to (`idle` / `exited` are shared) -/
def Pc.role : Pc → Role
  | .idle | .exited => .free
  | .gTake _ k | .gPub _ k => Pc.role k
  | .xRet _ | .xWkRet => .ext
  | .sLd | .sSt | .sJoinB | .sJoinW _ | .sEnd => .stopper
  | .wInit | .wTop | .wSteal _ | .wGWait _ | .wPre _ | .wStopping | .wRun _ | .rSz0 _ _ | .rSz1 _ _ _
  | .rLLd _ _ | .rLSt _ _ _ | .rLPub _ _ _ | .rRet _ _ => .worker
  | .chk .own _ _ | .chk (.steal _) _ _ => .worker
  | .chk (.bal _) _ _ => .bal
  | .bTop | .bSweep _ | .bStopping => .bal

/-- the task a thread carries towards a queue (not yet in any queue) -/
def Pc.carry : Pc → Option Nat
  | .gTake (.task id) _ => some id
  | .rSz0 _ c | .rSz1 _ c _ | .rLLd _ c | .rLSt _ c _ => some c
  | _ => none

/-- the task whose function a thread is about to run / is running -/
def Pc.exec : Pc → Option Nat
  | .wPre id | .wRun id | .rSz0 id _ | .rSz1 id _ _ | .rLLd id _ | .rLSt id _ _ | .rLPub id _ _ | .rRet id _ => some id
  | .gTake _ k | .gPub _ k => Pc.exec k
  | _ => none

/-- inside the function of a task (after `run`, before `done`) -/
def Pc.inTask : Pc → Bool
  | .wRun _ | .rSz0 _ _ | .rSz1 _ _ _ | .rLLd _ _ | .rLSt _ _ _ | .rLPub _ _ _ | .rRet _ _ => true
  | .gTake _ k | .gPub _ k => Pc.inTask k
  | _ => false

/-- continuations a global push can have, and the item it pushes (`x = none`: ticket already taken) -/
def ContOK (c : Cfg) (x : Option Item) : Pc → Prop
  | .xRet id => x = none ∨ x = some (.task id)
  | .xWkRet => x = none ∨ x = some .wakeup
  | .rRet id cid => (x = none ∨ x = some (.task cid)) ∧ id ≠ cid
  | .bSweep _ => True
  | k => (x = none ∨ x = some .stop) ∧ ∃ n, k = markChain c n

/-- shape of a program counter -/
def PcWF (c : Cfg) : Pc → Prop
  | .gTake x k => ContOK c (some x) k
  | .gPub _ k => ContOK c none k
  | .rSz0 id cid | .rSz1 id cid _ | .rLLd id cid | .rLSt id cid _ | .rLPub id cid _ | .rRet id cid => id ≠ cid
  | _ => True

theorem markChain_role (c : Cfg) (n : Nat) : (markChain c n).role = .stopper := by
  induction n with
  | zero => simp only [markChain]; split <;> rfl
  | succ n ih => simpa [markChain, Pc.role] using ih

theorem markChain_exec (c : Cfg) (n : Nat) : (markChain c n).exec = none := by
  induction n with
  | zero => simp only [markChain]; split <;> rfl
  | succ n ih => simpa [markChain, Pc.exec] using ih

theorem markChain_inTask (c : Cfg) (n : Nat) : (markChain c n).inTask = false := by
  induction n with
  | zero => simp only [markChain]; split <;> rfl
  | succ n ih => simpa [markChain, Pc.inTask] using ih

theorem contOK_stopper (c : Cfg) (x : Option Item) (k : Pc) (hr : k.role = .stopper)
    (hx : x = none ∨ x = some .stop) (hk : ∃ n, k = markChain c n) : ContOK c x k := by
  cases k <;> first
    | exact ⟨hx, hk⟩
    | (exfalso; revert hr; simp [Pc.role]; done)
    | (rename_i ctx _ _; cases ctx <;> (exfalso; revert hr; simp [Pc.role]))

theorem markChain_cont (c : Cfg) (n : Nat) : ContOK c none (markChain c n) :=
  contOK_stopper c none _ (markChain_role c n) (Or.inl rfl) ⟨n, rfl⟩

theorem markChain_wf (c : Cfg) (n : Nat) : PcWF c (markChain c n) := by
  cases n with
  | zero => simp only [markChain]; split <;> simp [PcWF]
  | succ n =>
    simp only [markChain, PcWF]
    exact contOK_stopper c _ _ (markChain_role c n) (Or.inr rfl) ⟨n, rfl⟩

theorem afterStore_role (c : Cfg) : (afterStore c).role = .stopper := by
  unfold afterStore; split
  · rfl
  · exact markChain_role c _

structure Inv1 (c : Cfg) (s : State) : Prop where
  wf : ∀ t, PcWF c (s.pc t)
  r1 : ∀ t, (s.pc t).role = .worker → t ∈ c.workers
  r2 : ∀ t, (s.pc t).role = .bal → c.bal = some t
  r3 : ∀ t, (s.pc t).role = .stopper → s.stopper = some t
  r4 : ∀ t, t ∈ c.workers → (s.pc t).role = .worker ∨ s.pc t = .exited
  r5 : ∀ b, c.bal = some b → (s.pc b).role = .bal ∨ s.pc b = .exited
  r6 : s.stopCalled = false → s.stopper = none
  run1 : ∀ t, s.pc t = .sLd ∨ s.pc t = .sSt → s.running = true
  o1 : ∀ k w, s.owner k = some w → s.own w = some k
  o2 : ∀ w k, s.own w = some k → (s.pc w).role = .worker → s.owner k = some w
  o3 : ∀ w, s.pc w = .wInit → s.own w = none
  o4 : ∀ w, (s.pc w).role = .worker → s.pc w ≠ .wInit → s.own w ≠ none
  sc : ∀ t, (s.pc t).inTask = false → s.scope t = 0

/-! ### facts about the helper program counters -/

@[simp] theorem role_afterLdRunS (v : Bool) : (afterLdRunS v).role = .stopper := by cases v <;> rfl
@[simp] theorem role_afterLdRunB (v : Bool) : (afterLdRunB v).role = .bal := by cases v <;> rfl
@[simp] theorem role_afterJoinW (c : Cfg) (n : Nat) : (afterJoinW c n).role = .stopper := by
  unfold afterJoinW; split <;> rfl
@[simp] theorem role_afterSubmit (c : Cfg) (b : Bool) (id cid : Nat) : (afterSubmit c b id cid).role = .worker := by
  unfold afterSubmit; split <;> rfl
@[simp] theorem role_afterSize (c : Cfg) (p a id cid : Nat) : (afterSize c p a id cid).role = .worker := by
  unfold afterSize; split <;> rfl
@[simp] theorem role_dispatchPc (x : Item) : (dispatchPc x).role = .worker := by cases x <;> rfl
@[simp] theorem role_claimPc (ctx : PopCtx) (x : Item) (i : Nat) (nr : Bool) :
    (claimPc ctx x).role = (Pc.chk ctx i nr).role := by
  cases ctx <;> cases x <;> rfl
@[simp] theorem role_onEmpty (ctx : PopCtx) (i : Nat) (nr : Bool) : ctx.onEmpty.role = (Pc.chk ctx i nr).role := by
  cases ctx <;> rfl
@[simp] theorem role_chk_irrel (ctx : PopCtx) (i j : Nat) (a b : Bool) : (Pc.chk ctx i a).role = (Pc.chk ctx j b).role := by
  cases ctx <;> rfl
@[simp] theorem role_afterStore (c : Cfg) : (afterStore c).role = .stopper := afterStore_role c
@[simp] theorem role_markChain (c : Cfg) (n : Nat) : (markChain c n).role = .stopper := markChain_role c n

@[simp] theorem inTask_afterLdRunS (v : Bool) : (afterLdRunS v).inTask = false := by cases v <;> rfl
@[simp] theorem inTask_afterLdRunB (v : Bool) : (afterLdRunB v).inTask = false := by cases v <;> rfl
@[simp] theorem inTask_afterJoinW (c : Cfg) (n : Nat) : (afterJoinW c n).inTask = false := by
  unfold afterJoinW; split <;> rfl
@[simp] theorem inTask_afterSubmit (c : Cfg) (b : Bool) (id cid : Nat) : (afterSubmit c b id cid).inTask = true := by
  unfold afterSubmit; split <;> rfl
@[simp] theorem inTask_afterSize (c : Cfg) (p a id cid : Nat) : (afterSize c p a id cid).inTask = true := by
  unfold afterSize; split <;> rfl
@[simp] theorem inTask_dispatchPc (x : Item) : (dispatchPc x).inTask = false := by cases x <;> rfl
@[simp] theorem inTask_claimPc (ctx : PopCtx) (x : Item) : (claimPc ctx x).inTask = false := by
  cases ctx <;> cases x <;> rfl
@[simp] theorem inTask_onEmpty (ctx : PopCtx) : ctx.onEmpty.inTask = false := by cases ctx <;> rfl
@[simp] theorem inTask_afterStore (c : Cfg) : (afterStore c).inTask = false := by
  unfold afterStore; split
  · rfl
  · exact markChain_inTask c _
@[simp] theorem inTask_markChain (c : Cfg) (n : Nat) : (markChain c n).inTask = false := markChain_inTask c n

theorem wf_afterSubmit (c : Cfg) (b : Bool) (id cid : Nat) (h : id ≠ cid) : PcWF c (afterSubmit c b id cid) := by
  unfold afterSubmit; split
  · exact h
  · exact ⟨Or.inr rfl, h⟩
theorem wf_afterSize (c : Cfg) (p a id cid : Nat) (h : id ≠ cid) : PcWF c (afterSize c p a id cid) := by
  unfold afterSize; split
  · exact h
  · exact ⟨Or.inr rfl, h⟩
theorem wf_afterStore (c : Cfg) : PcWF c (afterStore c) := by
  unfold afterStore; split
  · trivial
  · exact markChain_wf c _
theorem wf_afterJoinW (c : Cfg) (n : Nat) : PcWF c (afterJoinW c n) := by
  unfold afterJoinW; split <;> trivial
theorem wf_afterLdRunS (c : Cfg) (v : Bool) : PcWF c (afterLdRunS v) := by cases v <;> trivial
theorem wf_afterLdRunB (c : Cfg) (v : Bool) : PcWF c (afterLdRunB v) := by cases v <;> trivial
theorem wf_dispatchPc (c : Cfg) (x : Item) : PcWF c (dispatchPc x) := by cases x <;> trivial
theorem wf_claimPc (c : Cfg) (ctx : PopCtx) (x : Item) : PcWF c (claimPc ctx x) := by
  cases ctx <;> cases x <;> trivial
theorem wf_onEmpty (c : Cfg) (ctx : PopCtx) : PcWF c ctx.onEmpty := by cases ctx <;> trivial

/-- a continuation that is well-formed as a continuation is a well-formed program counter -/
theorem wf_of_cont (c : Cfg) (x : Option Item) (k : Pc) (h : ContOK c x k) : PcWF c k := by
  cases k <;> first
    | trivial
    | exact h.2
    | (obtain ⟨_, n, hn⟩ := h; rw [hn]; exact markChain_wf c n)

/-- once the ticket is taken the item no longer matters -/
theorem cont_forget (c : Cfg) (x : Item) (k : Pc) (h : ContOK c (some x) k) : ContOK c none k := by
  cases k <;> first
    | exact Or.inl rfl
    | trivial
    | exact ⟨Or.inl rfl, h.2⟩

/-- every step changes only the program counter of the stepping thread -/
theorem pc_frame {c : Cfg} {s s' : State} {t : Nat} {lb : Lbl} (h : StepCase c s t lb s') :
    ∀ u, u ≠ t → s'.pc u = s.pc u := by
  intro u hu
  cases h <;> simp [upd_other _ _ _ _ hu]

end Babylon.Exec
