/-
  `Inv6` (marker counting) is inductive — all fields except the count of the workers (`c1`, Inv6Count).
-/
import Babylon.Exec.Inv6

namespace Babylon.Exec
open Babylon.Core

macro "k_close" : tactic => `(tactic| (
  (try simp only [exec_proj, upd_same, Q.claim_fold, Q.bump_fold] at *)
  first
    | done
    | grind [upd, Pc.role, Pc.marksLeft, Pc.preB, Pc.notR, PopCtx.queue, afterSize, role_chk, popctx_role,
        Q.length_take, Q.length_setSt, Q.popIdx_setSt, Q.popIdx_take, Q.popIdx_claim, Q.length_claim,
        Q.stops_take, Q.stops_setSt, Q.stops_bump]))

section
variable {c : Cfg} {s s' : State} {t : Nat} {lb : Lbl}

set_option maxHeartbeats 4000000 in
theorem Inv6.step_c2 (I : Inv1 c s) (J : Inv2 c s) (B : Inv2b s) (K : Inv6 c s) (h : StepCase c s t lb s') :
    s'.g.stops = s'.markers := by
  have c2 := K.c2
  have c3 := K.c3
  have c4 := K.c4
  have c5 := K.c5
  have w1 := K.w1
  have w2 := K.w2
  have w3 := K.w3
  have o1 := I.o1
  have o2 := I.o2
  have o3 := I.o3
  have hwf := I.wf t
  have hm1 := ml_dispatchPc
  have hm2 := ml_claimPc
  have hm3 := ml_onEmpty
  have hm4 := ml_afterSubmit c
  have hm5 := ml_afterSize c
  have hm6 := ml_afterLdRunB
  have hm7 := ml_afterJoinW c
  have hm8 := ml_afterStore c
  have hm9 := marksLeft_markChain c
  have hp1 := preB_dispatchPc
  have hp2 := preB_claimPc
  have hp3 := preB_onEmpty
  have hp4 := preB_afterSubmit c
  have hp5 := preB_afterSize c
  have hp6 := preB_afterLdRunB
  have hp7 := preB_afterJoinW c
  have hp8 := preB_markChain c
  have hp9 := preB_afterStore c
  have hn1 := notR_dispatchPc
  have hn2 := notR_claimPc
  have hn3 := notR_onEmpty
  have hn4 := notR_markChain c
  have hn5 := notR_afterStore c
  have hn6 := notR_afterSubmit c
  have hn7 := notR_afterLdRunS
  have hn8 := notR_afterLdRunB
  have hn9 := notR_afterJoinW c
  have hj1 := markChain_sJoinW_lt c
  have hj2 := afterStore_sJoinW_lt c
  have hj3 := afterJoinW_sJoinW_lt c
  have hkn : ∀ p k, s.pc t = .gPub p k → k.notR := by
    intro p k hp; rw [hp] at hwf; exact notR_cont c none k hwf
  have hkp : ∀ p k, s.pc t = .gPub p k → k.preB = false := by
    intro p k hp; rw [hp] at hwf; exact preB_cont c none k hwf
  have hkj : ∀ p m, s.pc t = .gPub p (.sJoinW m) → m < c.workers.length := by
    intro p m hp; rw [hp] at hwf; exact cont_sJoinW_lt c none m hwf
  have hkm : ∀ x k, s.pc t = .gTake x k → x ≠ .stop → k.marksLeft = none := by
    intro x k hp hx; rw [hp] at hwf; exact ml_cont c x k hwf hx
  have hrun : s.pc t = .sLd → afterLdRunS s.running = .sSt := by
    intro hp; rw [I.run1 t (Or.inl hp)]; rfl
  have hstp : ∀ u m, (s.pc u).marksLeft = some m → s.stopper = some u := by
    intro u m hu
    exact I.r3 u (pastB_role c _ (I.wf u) (marksLeft_pastB _ m hu))
  have hpre : ∀ u, (s.pc u).preB = true → s.stopper = some u := by
    intro u hu; exact I.r3 u (preB_role _ hu)
  have hst0 : ∀ k, s.pc t = .gTake .stop k → s.stopper = some t ∧ s.stopCalled = true := by
    intro k hp
    have hnb : ∀ k', k ≠ .bSweep k' := by
      intro k' e; subst e; have := B.l9 t .stop k' hp; simp [Item.isTask] at this
    have hr : (s.pc t).role = .stopper := by
      rw [hp] at hwf ⊢; simp only [Pc.role]; exact (contOK_stop_role c k hwf hnb).1
    have h3 := I.r3 t hr
    refine ⟨h3, ?_⟩
    cases hsc : s.stopCalled with
    | true => rfl
    | false => have := I.r6 hsc; rw [this] at h3; cases h3
  clear I J B K hwf
  cases h
  all_goals (try k_close)

set_option maxHeartbeats 4000000 in
theorem Inv6.step_c3 (I : Inv1 c s) (J : Inv2 c s) (B : Inv2b s) (K : Inv6 c s) (h : StepCase c s t lb s') :
    ∀ t' m, (s'.pc t').marksLeft = some m → s'.markers + m = c.workers.length := by
  intro t' m hp
  have c2 := K.c2
  have c3 := K.c3
  have c4 := K.c4
  have c5 := K.c5
  have w1 := K.w1
  have w2 := K.w2
  have w3 := K.w3
  have o1 := I.o1
  have o2 := I.o2
  have o3 := I.o3
  have hwf := I.wf t
  have hm1 := ml_dispatchPc
  have hm2 := ml_claimPc
  have hm3 := ml_onEmpty
  have hm4 := ml_afterSubmit c
  have hm5 := ml_afterSize c
  have hm6 := ml_afterLdRunB
  have hm7 := ml_afterJoinW c
  have hm8 := ml_afterStore c
  have hm9 := marksLeft_markChain c
  have hp1 := preB_dispatchPc
  have hp2 := preB_claimPc
  have hp3 := preB_onEmpty
  have hp4 := preB_afterSubmit c
  have hp5 := preB_afterSize c
  have hp6 := preB_afterLdRunB
  have hp7 := preB_afterJoinW c
  have hp8 := preB_markChain c
  have hp9 := preB_afterStore c
  have hn1 := notR_dispatchPc
  have hn2 := notR_claimPc
  have hn3 := notR_onEmpty
  have hn4 := notR_markChain c
  have hn5 := notR_afterStore c
  have hn6 := notR_afterSubmit c
  have hn7 := notR_afterLdRunS
  have hn8 := notR_afterLdRunB
  have hn9 := notR_afterJoinW c
  have hj1 := markChain_sJoinW_lt c
  have hj2 := afterStore_sJoinW_lt c
  have hj3 := afterJoinW_sJoinW_lt c
  have hkn : ∀ p k, s.pc t = .gPub p k → k.notR := by
    intro p k hp; rw [hp] at hwf; exact notR_cont c none k hwf
  have hkp : ∀ p k, s.pc t = .gPub p k → k.preB = false := by
    intro p k hp; rw [hp] at hwf; exact preB_cont c none k hwf
  have hkj : ∀ p m, s.pc t = .gPub p (.sJoinW m) → m < c.workers.length := by
    intro p m hp; rw [hp] at hwf; exact cont_sJoinW_lt c none m hwf
  have hkm : ∀ x k, s.pc t = .gTake x k → x ≠ .stop → k.marksLeft = none := by
    intro x k hp hx; rw [hp] at hwf; exact ml_cont c x k hwf hx
  have hrun : s.pc t = .sLd → afterLdRunS s.running = .sSt := by
    intro hp; rw [I.run1 t (Or.inl hp)]; rfl
  have hstp : ∀ u m, (s.pc u).marksLeft = some m → s.stopper = some u := by
    intro u m hu
    exact I.r3 u (pastB_role c _ (I.wf u) (marksLeft_pastB _ m hu))
  have hpre : ∀ u, (s.pc u).preB = true → s.stopper = some u := by
    intro u hu; exact I.r3 u (preB_role _ hu)
  have hst0 : ∀ k, s.pc t = .gTake .stop k → s.stopper = some t ∧ s.stopCalled = true := by
    intro k hp
    have hnb : ∀ k', k ≠ .bSweep k' := by
      intro k' e; subst e; have := B.l9 t .stop k' hp; simp [Item.isTask] at this
    have hr : (s.pc t).role = .stopper := by
      rw [hp] at hwf ⊢; simp only [Pc.role]; exact (contOK_stop_role c k hwf hnb).1
    have h3 := I.r3 t hr
    refine ⟨h3, ?_⟩
    cases hsc : s.stopCalled with
    | true => rfl
    | false => have := I.r6 hsc; rw [this] at h3; cases h3
  clear I J B K hwf
  cases h
  all_goals (try k_close)

set_option maxHeartbeats 4000000 in
theorem Inv6.step_c4 (I : Inv1 c s) (J : Inv2 c s) (B : Inv2b s) (K : Inv6 c s) (h : StepCase c s t lb s') :
    ∀ t', (s'.pc t').preB = true → s'.markers = 0 := by
  intro t' hp
  have c2 := K.c2
  have c3 := K.c3
  have c4 := K.c4
  have c5 := K.c5
  have w1 := K.w1
  have w2 := K.w2
  have w3 := K.w3
  have o1 := I.o1
  have o2 := I.o2
  have o3 := I.o3
  have hwf := I.wf t
  have hm1 := ml_dispatchPc
  have hm2 := ml_claimPc
  have hm3 := ml_onEmpty
  have hm4 := ml_afterSubmit c
  have hm5 := ml_afterSize c
  have hm6 := ml_afterLdRunB
  have hm7 := ml_afterJoinW c
  have hm8 := ml_afterStore c
  have hm9 := marksLeft_markChain c
  have hp1 := preB_dispatchPc
  have hp2 := preB_claimPc
  have hp3 := preB_onEmpty
  have hp4 := preB_afterSubmit c
  have hp5 := preB_afterSize c
  have hp6 := preB_afterLdRunB
  have hp7 := preB_afterJoinW c
  have hp8 := preB_markChain c
  have hp9 := preB_afterStore c
  have hn1 := notR_dispatchPc
  have hn2 := notR_claimPc
  have hn3 := notR_onEmpty
  have hn4 := notR_markChain c
  have hn5 := notR_afterStore c
  have hn6 := notR_afterSubmit c
  have hn7 := notR_afterLdRunS
  have hn8 := notR_afterLdRunB
  have hn9 := notR_afterJoinW c
  have hj1 := markChain_sJoinW_lt c
  have hj2 := afterStore_sJoinW_lt c
  have hj3 := afterJoinW_sJoinW_lt c
  have hkn : ∀ p k, s.pc t = .gPub p k → k.notR := by
    intro p k hp; rw [hp] at hwf; exact notR_cont c none k hwf
  have hkp : ∀ p k, s.pc t = .gPub p k → k.preB = false := by
    intro p k hp; rw [hp] at hwf; exact preB_cont c none k hwf
  have hkj : ∀ p m, s.pc t = .gPub p (.sJoinW m) → m < c.workers.length := by
    intro p m hp; rw [hp] at hwf; exact cont_sJoinW_lt c none m hwf
  have hkm : ∀ x k, s.pc t = .gTake x k → x ≠ .stop → k.marksLeft = none := by
    intro x k hp hx; rw [hp] at hwf; exact ml_cont c x k hwf hx
  have hrun : s.pc t = .sLd → afterLdRunS s.running = .sSt := by
    intro hp; rw [I.run1 t (Or.inl hp)]; rfl
  have hstp : ∀ u m, (s.pc u).marksLeft = some m → s.stopper = some u := by
    intro u m hu
    exact I.r3 u (pastB_role c _ (I.wf u) (marksLeft_pastB _ m hu))
  have hpre : ∀ u, (s.pc u).preB = true → s.stopper = some u := by
    intro u hu; exact I.r3 u (preB_role _ hu)
  have hst0 : ∀ k, s.pc t = .gTake .stop k → s.stopper = some t ∧ s.stopCalled = true := by
    intro k hp
    have hnb : ∀ k', k ≠ .bSweep k' := by
      intro k' e; subst e; have := B.l9 t .stop k' hp; simp [Item.isTask] at this
    have hr : (s.pc t).role = .stopper := by
      rw [hp] at hwf ⊢; simp only [Pc.role]; exact (contOK_stop_role c k hwf hnb).1
    have h3 := I.r3 t hr
    refine ⟨h3, ?_⟩
    cases hsc : s.stopCalled with
    | true => rfl
    | false => have := I.r6 hsc; rw [this] at h3; cases h3
  clear I J B K hwf
  cases h
  all_goals (try k_close)

set_option maxHeartbeats 4000000 in
theorem Inv6.step_c5 (I : Inv1 c s) (J : Inv2 c s) (B : Inv2b s) (K : Inv6 c s) (h : StepCase c s t lb s') :
    s'.stopCalled = false → s'.markers = 0 := by
  intro hp
  have c2 := K.c2
  have c3 := K.c3
  have c4 := K.c4
  have c5 := K.c5
  have w1 := K.w1
  have w2 := K.w2
  have w3 := K.w3
  have o1 := I.o1
  have o2 := I.o2
  have o3 := I.o3
  have hwf := I.wf t
  have hm1 := ml_dispatchPc
  have hm2 := ml_claimPc
  have hm3 := ml_onEmpty
  have hm4 := ml_afterSubmit c
  have hm5 := ml_afterSize c
  have hm6 := ml_afterLdRunB
  have hm7 := ml_afterJoinW c
  have hm8 := ml_afterStore c
  have hm9 := marksLeft_markChain c
  have hp1 := preB_dispatchPc
  have hp2 := preB_claimPc
  have hp3 := preB_onEmpty
  have hp4 := preB_afterSubmit c
  have hp5 := preB_afterSize c
  have hp6 := preB_afterLdRunB
  have hp7 := preB_afterJoinW c
  have hp8 := preB_markChain c
  have hp9 := preB_afterStore c
  have hn1 := notR_dispatchPc
  have hn2 := notR_claimPc
  have hn3 := notR_onEmpty
  have hn4 := notR_markChain c
  have hn5 := notR_afterStore c
  have hn6 := notR_afterSubmit c
  have hn7 := notR_afterLdRunS
  have hn8 := notR_afterLdRunB
  have hn9 := notR_afterJoinW c
  have hj1 := markChain_sJoinW_lt c
  have hj2 := afterStore_sJoinW_lt c
  have hj3 := afterJoinW_sJoinW_lt c
  have hkn : ∀ p k, s.pc t = .gPub p k → k.notR := by
    intro p k hp; rw [hp] at hwf; exact notR_cont c none k hwf
  have hkp : ∀ p k, s.pc t = .gPub p k → k.preB = false := by
    intro p k hp; rw [hp] at hwf; exact preB_cont c none k hwf
  have hkj : ∀ p m, s.pc t = .gPub p (.sJoinW m) → m < c.workers.length := by
    intro p m hp; rw [hp] at hwf; exact cont_sJoinW_lt c none m hwf
  have hkm : ∀ x k, s.pc t = .gTake x k → x ≠ .stop → k.marksLeft = none := by
    intro x k hp hx; rw [hp] at hwf; exact ml_cont c x k hwf hx
  have hrun : s.pc t = .sLd → afterLdRunS s.running = .sSt := by
    intro hp; rw [I.run1 t (Or.inl hp)]; rfl
  have hstp : ∀ u m, (s.pc u).marksLeft = some m → s.stopper = some u := by
    intro u m hu
    exact I.r3 u (pastB_role c _ (I.wf u) (marksLeft_pastB _ m hu))
  have hpre : ∀ u, (s.pc u).preB = true → s.stopper = some u := by
    intro u hu; exact I.r3 u (preB_role _ hu)
  have hst0 : ∀ k, s.pc t = .gTake .stop k → s.stopper = some t ∧ s.stopCalled = true := by
    intro k hp
    have hnb : ∀ k', k ≠ .bSweep k' := by
      intro k' e; subst e; have := B.l9 t .stop k' hp; simp [Item.isTask] at this
    have hr : (s.pc t).role = .stopper := by
      rw [hp] at hwf ⊢; simp only [Pc.role]; exact (contOK_stop_role c k hwf hnb).1
    have h3 := I.r3 t hr
    refine ⟨h3, ?_⟩
    cases hsc : s.stopCalled with
    | true => rfl
    | false => have := I.r6 hsc; rw [this] at h3; cases h3
  clear I J B K hwf
  cases h
  all_goals (try k_close)

set_option maxHeartbeats 4000000 in
theorem Inv6.step_w1 (I : Inv1 c s) (J : Inv2 c s) (B : Inv2b s) (K : Inv6 c s) (h : StepCase c s t lb s') :
    ∀ w id cid p k, s'.pc w = .rLSt id cid p → s'.own w = some k → p = (s'.l k).cells.length := by
  intro w id cid p k hp ho
  have c2 := K.c2
  have c3 := K.c3
  have c4 := K.c4
  have c5 := K.c5
  have w1 := K.w1
  have w2 := K.w2
  have w3 := K.w3
  have o1 := I.o1
  have o2 := I.o2
  have o3 := I.o3
  have hwf := I.wf t
  have hm1 := ml_dispatchPc
  have hm2 := ml_claimPc
  have hm3 := ml_onEmpty
  have hm4 := ml_afterSubmit c
  have hm5 := ml_afterSize c
  have hm6 := ml_afterLdRunB
  have hm7 := ml_afterJoinW c
  have hm8 := ml_afterStore c
  have hm9 := marksLeft_markChain c
  have hp1 := preB_dispatchPc
  have hp2 := preB_claimPc
  have hp3 := preB_onEmpty
  have hp4 := preB_afterSubmit c
  have hp5 := preB_afterSize c
  have hp6 := preB_afterLdRunB
  have hp7 := preB_afterJoinW c
  have hp8 := preB_markChain c
  have hp9 := preB_afterStore c
  have hn1 := notR_dispatchPc
  have hn2 := notR_claimPc
  have hn3 := notR_onEmpty
  have hn4 := notR_markChain c
  have hn5 := notR_afterStore c
  have hn6 := notR_afterSubmit c
  have hn7 := notR_afterLdRunS
  have hn8 := notR_afterLdRunB
  have hn9 := notR_afterJoinW c
  have hj1 := markChain_sJoinW_lt c
  have hj2 := afterStore_sJoinW_lt c
  have hj3 := afterJoinW_sJoinW_lt c
  have hkn : ∀ p k, s.pc t = .gPub p k → k.notR := by
    intro p k hp; rw [hp] at hwf; exact notR_cont c none k hwf
  have hkp : ∀ p k, s.pc t = .gPub p k → k.preB = false := by
    intro p k hp; rw [hp] at hwf; exact preB_cont c none k hwf
  have hkj : ∀ p m, s.pc t = .gPub p (.sJoinW m) → m < c.workers.length := by
    intro p m hp; rw [hp] at hwf; exact cont_sJoinW_lt c none m hwf
  have hkm : ∀ x k, s.pc t = .gTake x k → x ≠ .stop → k.marksLeft = none := by
    intro x k hp hx; rw [hp] at hwf; exact ml_cont c x k hwf hx
  have hrun : s.pc t = .sLd → afterLdRunS s.running = .sSt := by
    intro hp; rw [I.run1 t (Or.inl hp)]; rfl
  have hstp : ∀ u m, (s.pc u).marksLeft = some m → s.stopper = some u := by
    intro u m hu
    exact I.r3 u (pastB_role c _ (I.wf u) (marksLeft_pastB _ m hu))
  have hpre : ∀ u, (s.pc u).preB = true → s.stopper = some u := by
    intro u hu; exact I.r3 u (preB_role _ hu)
  have hst0 : ∀ k, s.pc t = .gTake .stop k → s.stopper = some t ∧ s.stopCalled = true := by
    intro k hp
    have hnb : ∀ k', k ≠ .bSweep k' := by
      intro k' e; subst e; have := B.l9 t .stop k' hp; simp [Item.isTask] at this
    have hr : (s.pc t).role = .stopper := by
      rw [hp] at hwf ⊢; simp only [Pc.role]; exact (contOK_stop_role c k hwf hnb).1
    have h3 := I.r3 t hr
    refine ⟨h3, ?_⟩
    cases hsc : s.stopCalled with
    | true => rfl
    | false => have := I.r6 hsc; rw [this] at h3; cases h3
  clear I J B K hwf
  cases h
  all_goals (try k_close)

set_option maxHeartbeats 4000000 in
theorem Inv6.step_w2 (I : Inv1 c s) (J : Inv2 c s) (B : Inv2b s) (K : Inv6 c s) (h : StepCase c s t lb s') :
    ∀ t' n, s'.pc t' = .sJoinW n → n < c.workers.length := by
  intro t' n hp
  have c2 := K.c2
  have c3 := K.c3
  have c4 := K.c4
  have c5 := K.c5
  have w1 := K.w1
  have w2 := K.w2
  have w3 := K.w3
  have o1 := I.o1
  have o2 := I.o2
  have o3 := I.o3
  have hwf := I.wf t
  have hm1 := ml_dispatchPc
  have hm2 := ml_claimPc
  have hm3 := ml_onEmpty
  have hm4 := ml_afterSubmit c
  have hm5 := ml_afterSize c
  have hm6 := ml_afterLdRunB
  have hm7 := ml_afterJoinW c
  have hm8 := ml_afterStore c
  have hm9 := marksLeft_markChain c
  have hp1 := preB_dispatchPc
  have hp2 := preB_claimPc
  have hp3 := preB_onEmpty
  have hp4 := preB_afterSubmit c
  have hp5 := preB_afterSize c
  have hp6 := preB_afterLdRunB
  have hp7 := preB_afterJoinW c
  have hp8 := preB_markChain c
  have hp9 := preB_afterStore c
  have hn1 := notR_dispatchPc
  have hn2 := notR_claimPc
  have hn3 := notR_onEmpty
  have hn4 := notR_markChain c
  have hn5 := notR_afterStore c
  have hn6 := notR_afterSubmit c
  have hn7 := notR_afterLdRunS
  have hn8 := notR_afterLdRunB
  have hn9 := notR_afterJoinW c
  have hj1 := markChain_sJoinW_lt c
  have hj2 := afterStore_sJoinW_lt c
  have hj3 := afterJoinW_sJoinW_lt c
  have hkn : ∀ p k, s.pc t = .gPub p k → k.notR := by
    intro p k hp; rw [hp] at hwf; exact notR_cont c none k hwf
  have hkp : ∀ p k, s.pc t = .gPub p k → k.preB = false := by
    intro p k hp; rw [hp] at hwf; exact preB_cont c none k hwf
  have hkj : ∀ p m, s.pc t = .gPub p (.sJoinW m) → m < c.workers.length := by
    intro p m hp; rw [hp] at hwf; exact cont_sJoinW_lt c none m hwf
  have hkm : ∀ x k, s.pc t = .gTake x k → x ≠ .stop → k.marksLeft = none := by
    intro x k hp hx; rw [hp] at hwf; exact ml_cont c x k hwf hx
  have hrun : s.pc t = .sLd → afterLdRunS s.running = .sSt := by
    intro hp; rw [I.run1 t (Or.inl hp)]; rfl
  have hstp : ∀ u m, (s.pc u).marksLeft = some m → s.stopper = some u := by
    intro u m hu
    exact I.r3 u (pastB_role c _ (I.wf u) (marksLeft_pastB _ m hu))
  have hpre : ∀ u, (s.pc u).preB = true → s.stopper = some u := by
    intro u hu; exact I.r3 u (preB_role _ hu)
  have hst0 : ∀ k, s.pc t = .gTake .stop k → s.stopper = some t ∧ s.stopCalled = true := by
    intro k hp
    have hnb : ∀ k', k ≠ .bSweep k' := by
      intro k' e; subst e; have := B.l9 t .stop k' hp; simp [Item.isTask] at this
    have hr : (s.pc t).role = .stopper := by
      rw [hp] at hwf ⊢; simp only [Pc.role]; exact (contOK_stop_role c k hwf hnb).1
    have h3 := I.r3 t hr
    refine ⟨h3, ?_⟩
    cases hsc : s.stopCalled with
    | true => rfl
    | false => have := I.r6 hsc; rw [this] at h3; cases h3
  clear I J B K hwf
  cases h
  all_goals (try k_close)

set_option maxHeartbeats 4000000 in
theorem Inv6.step_w3 (I : Inv1 c s) (J : Inv2 c s) (B : Inv2b s) (K : Inv6 c s) (h : StepCase c s t lb s') :
    ∀ t', s'.pc t' = .sJoinB → c.bal ≠ none := by
  intro t' hp
  have c2 := K.c2
  have c3 := K.c3
  have c4 := K.c4
  have c5 := K.c5
  have w1 := K.w1
  have w2 := K.w2
  have w3 := K.w3
  have o1 := I.o1
  have o2 := I.o2
  have o3 := I.o3
  have hwf := I.wf t
  have hm1 := ml_dispatchPc
  have hm2 := ml_claimPc
  have hm3 := ml_onEmpty
  have hm4 := ml_afterSubmit c
  have hm5 := ml_afterSize c
  have hm6 := ml_afterLdRunB
  have hm7 := ml_afterJoinW c
  have hm8 := ml_afterStore c
  have hm9 := marksLeft_markChain c
  have hp1 := preB_dispatchPc
  have hp2 := preB_claimPc
  have hp3 := preB_onEmpty
  have hp4 := preB_afterSubmit c
  have hp5 := preB_afterSize c
  have hp6 := preB_afterLdRunB
  have hp7 := preB_afterJoinW c
  have hp8 := preB_markChain c
  have hp9 := preB_afterStore c
  have hn1 := notR_dispatchPc
  have hn2 := notR_claimPc
  have hn3 := notR_onEmpty
  have hn4 := notR_markChain c
  have hn5 := notR_afterStore c
  have hn6 := notR_afterSubmit c
  have hn7 := notR_afterLdRunS
  have hn8 := notR_afterLdRunB
  have hn9 := notR_afterJoinW c
  have hj1 := markChain_sJoinW_lt c
  have hj2 := afterStore_sJoinW_lt c
  have hj3 := afterJoinW_sJoinW_lt c
  have hkn : ∀ p k, s.pc t = .gPub p k → k.notR := by
    intro p k hp; rw [hp] at hwf; exact notR_cont c none k hwf
  have hkp : ∀ p k, s.pc t = .gPub p k → k.preB = false := by
    intro p k hp; rw [hp] at hwf; exact preB_cont c none k hwf
  have hkj : ∀ p m, s.pc t = .gPub p (.sJoinW m) → m < c.workers.length := by
    intro p m hp; rw [hp] at hwf; exact cont_sJoinW_lt c none m hwf
  have hkm : ∀ x k, s.pc t = .gTake x k → x ≠ .stop → k.marksLeft = none := by
    intro x k hp hx; rw [hp] at hwf; exact ml_cont c x k hwf hx
  have hrun : s.pc t = .sLd → afterLdRunS s.running = .sSt := by
    intro hp; rw [I.run1 t (Or.inl hp)]; rfl
  have hstp : ∀ u m, (s.pc u).marksLeft = some m → s.stopper = some u := by
    intro u m hu
    exact I.r3 u (pastB_role c _ (I.wf u) (marksLeft_pastB _ m hu))
  have hpre : ∀ u, (s.pc u).preB = true → s.stopper = some u := by
    intro u hu; exact I.r3 u (preB_role _ hu)
  have hst0 : ∀ k, s.pc t = .gTake .stop k → s.stopper = some t ∧ s.stopCalled = true := by
    intro k hp
    have hnb : ∀ k', k ≠ .bSweep k' := by
      intro k' e; subst e; have := B.l9 t .stop k' hp; simp [Item.isTask] at this
    have hr : (s.pc t).role = .stopper := by
      rw [hp] at hwf ⊢; simp only [Pc.role]; exact (contOK_stop_role c k hwf hnb).1
    have h3 := I.r3 t hr
    refine ⟨h3, ?_⟩
    cases hsc : s.stopCalled with
    | true => rfl
    | false => have := I.r6 hsc; rw [this] at h3; cases h3
  clear I J B K hwf
  cases h
  all_goals (try k_close)

end
end Babylon.Exec
