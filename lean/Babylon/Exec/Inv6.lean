/-
  Sixth layer of invariants (only needed for deadlock freedom): the STOP markers are counted —
  markers pushed = STOP cells of the global queue, markers received = workers that have taken one,
  and `stop()` pushes exactly one marker per worker before it starts joining.
-/
import Babylon.Exec.Count

namespace Babylon.Exec
open Babylon.Core

/-- STOP markers `stop()` still has to push (defined on the program counters of `stop()` past the join
of the balance thread) -/
def Pc.marksLeft : Pc → Option Nat
  | .gTake x k => if x = .stop then (Pc.marksLeft k).map (· + 1) else none
  | .gPub _ k => Pc.marksLeft k
  | .sJoinW _ | .sEnd => some 0
  | _ => none

theorem marksLeft_markChain (c : Cfg) (n : Nat) : (markChain c n).marksLeft = some n := by
  induction n with
  | zero => simp only [markChain]; split <;> rfl
  | succ n ih => simp [markChain, Pc.marksLeft, ih]

theorem marksLeft_pastB (p : Pc) (m : Nat) (h : p.marksLeft = some m) : p.pastB = true := by
  induction p generalizing m with
  | gTake x k ih =>
    simp only [Pc.marksLeft] at h
    split at h
    · cases hk : k.marksLeft with
      | none => simp [hk] at h
      | some m' => simpa [Pc.pastB] using ih m' hk
    · cases h
  | gPub p k ih => simpa [Pc.pastB] using ih m (by simpa [Pc.marksLeft] using h)
  | sJoinW n => rfl
  | sEnd => rfl
  | _ => simp [Pc.marksLeft] at h


/-- inside `stop()`, before the join of the balance thread -/
def Pc.preB : Pc → Bool
  | .sLd | .sSt | .sJoinB => true
  | _ => false

theorem Q.stops_bump (q : Q) : q.bump.stops = q.stops := rfl
theorem Q.recvd_bump (q : Q) : q.bump.recvd = q.recvd := rfl

/-! ### `marksLeft` / `preB` of the helper program counters -/
theorem ml_dispatchPc (x : Item) : (dispatchPc x).marksLeft = none := by cases x <;> rfl
theorem ml_claimPc (ctx : PopCtx) (x : Item) : (claimPc ctx x).marksLeft = none := by cases ctx <;> cases x <;> rfl
theorem ml_onEmpty (ctx : PopCtx) : ctx.onEmpty.marksLeft = none := by cases ctx <;> rfl
theorem ml_afterSubmit (c : Cfg) (b : Bool) (id cid : Nat) : (afterSubmit c b id cid).marksLeft = none := by
  unfold afterSubmit; split <;> simp [Pc.marksLeft]
theorem ml_afterSize (c : Cfg) (p a id cid : Nat) : (afterSize c p a id cid).marksLeft = none := by
  unfold afterSize; split <;> simp [Pc.marksLeft]
theorem ml_afterLdRunB (v : Bool) : (afterLdRunB v).marksLeft = none := by cases v <;> rfl
theorem ml_afterLdRunS_true : (afterLdRunS true).marksLeft = none := rfl
theorem ml_afterJoinW (c : Cfg) (n : Nat) : (afterJoinW c n).marksLeft = some 0 := by unfold afterJoinW; split <;> rfl
theorem ml_afterStore (c : Cfg) :
    (afterStore c).marksLeft = none ∨ (afterStore c).marksLeft = some c.workers.length := by
  unfold afterStore; split
  · exact Or.inl rfl
  · exact Or.inr (marksLeft_markChain c _)
theorem ml_cont (c : Cfg) (x : Item) (k : Pc) (h : ContOK c (some x) k) (hx : x ≠ .stop) : k.marksLeft = none := by
  cases k <;> first
    | rfl
    | (exfalso; rcases h.1 with h1 | h1 <;> simp_all)

theorem preB_dispatchPc (x : Item) : (dispatchPc x).preB = false := by cases x <;> rfl
theorem preB_claimPc (ctx : PopCtx) (x : Item) : (claimPc ctx x).preB = false := by cases ctx <;> cases x <;> rfl
theorem preB_onEmpty (ctx : PopCtx) : ctx.onEmpty.preB = false := by cases ctx <;> rfl
theorem preB_afterSubmit (c : Cfg) (b : Bool) (id cid : Nat) : (afterSubmit c b id cid).preB = false := by
  unfold afterSubmit; split <;> rfl
theorem preB_afterSize (c : Cfg) (p a id cid : Nat) : (afterSize c p a id cid).preB = false := by
  unfold afterSize; split <;> rfl
theorem preB_afterLdRunB (v : Bool) : (afterLdRunB v).preB = false := by cases v <;> rfl
theorem preB_afterJoinW (c : Cfg) (n : Nat) : (afterJoinW c n).preB = false := by unfold afterJoinW; split <;> rfl
theorem preB_markChain (c : Cfg) (n : Nat) : (markChain c n).preB = false := by
  rcases markChain_cases c n with h | h | ⟨m, h⟩ <;> simp [h, Pc.preB]
theorem preB_cont (c : Cfg) (x : Option Item) (k : Pc) (h : ContOK c x k) : k.preB = false := by
  cases k <;> first
    | rfl
    | (exfalso; obtain ⟨_, n, hn⟩ := h; have := preB_markChain c n; rw [← hn] at this; simp [Pc.preB] at this)
theorem preB_role (p : Pc) (h : p.preB = true) : p.role = .stopper := by
  cases p <;> first | rfl | (simp [Pc.preB] at h)
theorem preB_afterStore (c : Cfg) (h : (afterStore c).preB = true) : afterStore c = .sJoinB ∧ c.bal ≠ none := by
  unfold afterStore at h ⊢; split
  · rename_i hb; exact ⟨rfl, by cases hc : c.bal <;> simp_all⟩
  · rename_i hb; rw [if_neg hb, preB_markChain] at h; cases h

theorem markChain_sJoinW_lt (c : Cfg) (n m : Nat) (h : markChain c n = .sJoinW m) : m < c.workers.length := by
  cases n with
  | zero =>
    simp only [markChain] at h; split at h
    · cases h
    · rename_i he; injection h with h; subst h
      cases hw : c.workers with
      | nil => simp [hw] at he
      | cons a l => simp
  | succ n => cases h
theorem afterStore_sJoinW_lt (c : Cfg) (m : Nat) (h : afterStore c = .sJoinW m) : m < c.workers.length := by
  unfold afterStore at h; split at h
  · cases h
  · exact markChain_sJoinW_lt c _ m h
theorem afterJoinW_sJoinW_lt (c : Cfg) (n m : Nat) (h : afterJoinW c n = .sJoinW m) : m < c.workers.length := by
  unfold afterJoinW at h; split at h
  · injection h with h; omega
  · cases h
theorem cont_sJoinW_lt (c : Cfg) (x : Option Item) (m : Nat) (h : ContOK c x (.sJoinW m)) : m < c.workers.length := by
  obtain ⟨_, n, hn⟩ := h
  exact markChain_sJoinW_lt c n m hn.symm

structure Inv6 (c : Cfg) (s : State) : Prop where
  c1 : c.workers.countP (doneB s) = s.g.recvd
  c2 : s.g.stops = s.markers
  c3 : ∀ t m, (s.pc t).marksLeft = some m → s.markers + m = c.workers.length
  c4 : ∀ t, (s.pc t).preB = true → s.markers = 0
  c5 : s.stopCalled = false → s.markers = 0
  w1 : ∀ w id cid p k, s.pc w = .rLSt id cid p → s.own w = some k → p = (s.l k).cells.length
  w2 : ∀ t n, s.pc t = .sJoinW n → n < c.workers.length
  w3 : ∀ t, s.pc t = .sJoinB → c.bal ≠ none

theorem Inv6.init (c : Cfg) : Inv6 c (State.init c) := by
  have hp := init_pc c
  have hd : ∀ w, doneB (State.init c) w = false := by
    intro w; rcases hp w with h | h | h <;> simp [doneB, h]
  refine ⟨?_, ?_, ?_, ?_, ?_, ?_, ?_, ?_⟩
  · have : c.workers.countP (doneB (State.init c)) = 0 := by
      rw [List.countP_eq_zero]; intro a _; simp [hd a]
    rw [this]; simp [State.init, Q.recvd]
  · simp [State.init, Q.stops]
  · intro t m h; rcases hp t with h1 | h1 | h1 <;> rw [h1] at h <;> simp [Pc.marksLeft] at h
  · intro t _; simp [State.init]
  · intro _; simp [State.init]
  · intro w id cid p k h; rcases hp w with h1 | h1 | h1 <;> rw [h1] at h <;> cases h
  · intro t n h; rcases hp t with h1 | h1 | h1 <;> rw [h1] at h <;> cases h
  · intro t h; rcases hp t with h1 | h1 | h1 <;> rw [h1] at h <;> cases h

end Babylon.Exec
