/-
  Sixth layer of invariants (only needed for deadlock freedom): the STOP markers are counted —
  markers pushed = STOP cells of the global queue, markers received = workers that have taken one,
  and `stop()` pushes exactly one marker per worker before it starts joining.
-/
import Babylon.Exec.Count

namespace Babylon.Exec
open Babylon.Core

/-- STOP markers `stop()` still has to push (defined on the program counters of `stop()` past the join
of the balance thread) -/
def Pc.marksLeft : Pc → Option Nat
  | .gTake x k => if x = .stop then (Pc.marksLeft k).map (· + 1) else none
  | .gPub _ k => Pc.marksLeft k
  | .sJoinW _ | .sEnd => some 0
  | _ => none

theorem marksLeft_markChain (c : Cfg) (n : Nat) : (markChain c n).marksLeft = some n := by
  induction n with
  | zero => simp only [markChain]; split <;> rfl
  | succ n ih => simp [markChain, Pc.marksLeft, ih]

theorem marksLeft_pastB (p : Pc) (m : Nat) (h : p.marksLeft = some m) : p.pastB = true := by
  induction p generalizing m with
  | gTake x k ih =>
    simp only [Pc.marksLeft] at h
    split at h
    · cases hk : k.marksLeft with
      | none => simp [hk] at h
      | some m' => simpa [Pc.pastB] using ih m' hk
    · cases h
  | gPub p k ih => simpa [Pc.pastB] using ih m (by simpa [Pc.marksLeft] using h)
  | sJoinW n => rfl
  | sEnd => rfl
  | _ => simp [Pc.marksLeft] at h

structure Inv6 (c : Cfg) (s : State) : Prop where
  c1 : c.workers.countP (doneB s) = s.g.recvd
  c2 : s.g.stops = s.markers
  c3 : ∀ t m, (s.pc t).marksLeft = some m → s.markers + m = c.workers.length
  c4 : ∀ t, (s.pc t = .sLd ∨ s.pc t = .sSt ∨ s.pc t = .sJoinB) → s.markers = 0
  c5 : s.stopCalled = false → s.markers = 0
  w1 : ∀ w id cid p k, s.pc w = .rLSt id cid p → s.own w = some k → p = (s.l k).cells.length
  w2 : ∀ t n, s.pc t = .sJoinW n → n < c.workers.length
  w3 : ∀ t, s.pc t = .sJoinB → c.bal ≠ none

theorem Inv6.init (c : Cfg) : Inv6 c (State.init c) := by
  have hp := init_pc c
  have hd : ∀ w, doneB (State.init c) w = false := by
    intro w; rcases hp w with h | h | h <;> simp [doneB, h]
  refine ⟨?_, ?_, ?_, ?_, ?_, ?_, ?_, ?_⟩
  · have : c.workers.countP (doneB (State.init c)) = 0 := by
      rw [List.countP_eq_zero]; intro a _; simp [hd a]
    rw [this]; simp [State.init, Q.recvd]
  · simp [State.init, Q.stops]
  · intro t m h; rcases hp t with h1 | h1 | h1 <;> rw [h1] at h <;> simp [Pc.marksLeft] at h
  · intro t h; simp [State.init]
  · intro _; simp [State.init]
  · intro w id cid p k h; rcases hp w with h1 | h1 | h1 <;> rw [h1] at h <;> cases h
  · intro t n h; rcases hp t with h1 | h1 | h1 <;> rw [h1] at h <;> cases h
  · intro t h; rcases hp t with h1 | h1 | h1 <;> rw [h1] at h <;> cases h

end Babylon.Exec
