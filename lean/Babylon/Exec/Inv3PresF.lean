/-
  `Inv3` (place of every task, futures, global tickets) is inductive — part F.
-/
import Babylon.Exec.Inv3
import Babylon.Exec.Inv2Pres

namespace Babylon.Exec
open Babylon.Core

/-- closing tactic for the place goals -/
macro "p_close_F" : tactic => `(tactic| (
  (try simp only [exec_proj, upd_same, Q.claim_fold, Q.bump_fold] at *)
  first
    | done
    | grind [upd, Pc.role, Pc.carry, Pc.exec, claimPc, dispatchPc, PopCtx.onEmpty, PopCtx.role, PopCtx.queue, afterLdRunS,
        afterLdRunB, afterJoinW, role_chk, popctx_role,
        Q.itemAt_setSt, Q.stAt_setSt, Q.itemAt_take, Q.stAt_take, Q.length_take, Q.length_setSt, Q.popIdx_setSt, Q.popIdx_take,
        Q.itemAt_claim, Q.stAt_claim, Q.popIdx_claim, Q.length_claim, Q.itemAt_bump, Q.stAt_bump, Q.popIdx_bump, Q.length_bump,
        Item.isTask]))

section
variable {c : Cfg} {s s' : State} {t : Nat} {lb : Lbl}

set_option maxHeartbeats 4000000 in
theorem Inv3.step_t1 (I : Inv1 c s) (J : Inv2 c s) (K : Inv3 c s) (h : StepCase c s t lb s') :
    ∀ id i, s'.loc id = .gq i → s'.gTicket id = some i := by
  intro id i hl
  have t1 := K.t1
  have l4 := J.l4
  have hwf := I.wf t
  have hx1 := carry_dispatchPc
  have hx2 := carry_onEmpty
  have hx3 := exec_onEmpty
  have hx4 := carry_markChain c
  have hx5 := markChain_exec c
  have hx6 := carry_afterStore c
  have hx7 := exec_afterStore c
  have hx8 := carry_afterSubmit c
  have hx9 := exec_afterSubmit c
  have hx10 := carry_afterSize c
  have hx11 := exec_afterSize c
  have hx14 := role_afterSubmit c
  have hx15 := role_afterSize c
  have hk : ∀ p k, s.pc t = .gPub p k → k.carry = none := by
    intro p k hp; rw [hp] at hwf; exact carry_cont c none k hwf
  clear I J K hwf
  cases h
  case popClaim ctx i0 k0 nr cl hpc hq hi hcell hfull =>
    have hit := (isTask_iff cl.item).mp (l4 k0 i0 cl hcell)
    obtain ⟨idx, hidx⟩ := hit
    have hc1 := Q.itemAt_eq _ _ _ hcell
    have hc2 := Q.stAt_eq _ _ _ hcell
    have hc3 : i0 < (s.l k0).cells.length := Q.stAt_some_lt _ _ _ hc2
    rw [hidx] at hc1; rw [hfull] at hc2
    clear hcell l4
    cases ctx <;> simp only [hidx] at * <;> p_close_F
  case wRecv i0 cl hpc hcell hfull =>
    have hc1 := Q.itemAt_eq _ _ _ hcell
    have hc2 := Q.stAt_eq _ _ _ hcell
    have hc3 : i0 < s.g.cells.length := Q.stAt_some_lt _ _ _ hc2
    rw [hfull] at hc2
    clear hcell l4
    cases hx : cl.item <;> simp only [hx] at * <;> p_close_F
  case gPublish p k hpc hfree hst =>
    have hc3 : p < s.g.cells.length := Q.stAt_some_lt _ _ _ hst
    clear l4; p_close_F
  case rLPub id0 cid p k0 hpc hown hfree hst =>
    have hc3 : p < (s.l k0).cells.length := Q.stAt_some_lt _ _ _ hst
    clear l4; p_close_F
  all_goals (clear l4; try p_close_F)

set_option maxHeartbeats 4000000 in
theorem Inv3.step_t2 (I : Inv1 c s) (J : Inv2 c s) (K : Inv3 c s) (h : StepCase c s t lb s') :
    ∀ id i, s'.gTicket id = some i → i < s'.g.cells.length := by
  intro id i hg
  have t2 := K.t2
  have l4 := J.l4
  have hwf := I.wf t
  have hx1 := carry_dispatchPc
  have hx2 := carry_onEmpty
  have hx3 := exec_onEmpty
  have hx4 := carry_markChain c
  have hx5 := markChain_exec c
  have hx6 := carry_afterStore c
  have hx7 := exec_afterStore c
  have hx8 := carry_afterSubmit c
  have hx9 := exec_afterSubmit c
  have hx10 := carry_afterSize c
  have hx11 := exec_afterSize c
  have hx14 := role_afterSubmit c
  have hx15 := role_afterSize c
  have hk : ∀ p k, s.pc t = .gPub p k → k.carry = none := by
    intro p k hp; rw [hp] at hwf; exact carry_cont c none k hwf
  clear I J K hwf
  cases h
  case popClaim ctx i0 k0 nr cl hpc hq hi hcell hfull =>
    have hit := (isTask_iff cl.item).mp (l4 k0 i0 cl hcell)
    obtain ⟨idx, hidx⟩ := hit
    have hc1 := Q.itemAt_eq _ _ _ hcell
    have hc2 := Q.stAt_eq _ _ _ hcell
    have hc3 : i0 < (s.l k0).cells.length := Q.stAt_some_lt _ _ _ hc2
    rw [hidx] at hc1; rw [hfull] at hc2
    clear hcell l4
    cases ctx <;> simp only [hidx] at * <;> p_close_F
  case wRecv i0 cl hpc hcell hfull =>
    have hc1 := Q.itemAt_eq _ _ _ hcell
    have hc2 := Q.stAt_eq _ _ _ hcell
    have hc3 : i0 < s.g.cells.length := Q.stAt_some_lt _ _ _ hc2
    rw [hfull] at hc2
    clear hcell l4
    cases hx : cl.item <;> simp only [hx] at * <;> p_close_F
  case gPublish p k hpc hfree hst =>
    have hc3 : p < s.g.cells.length := Q.stAt_some_lt _ _ _ hst
    clear l4; p_close_F
  case rLPub id0 cid p k0 hpc hown hfree hst =>
    have hc3 : p < (s.l k0).cells.length := Q.stAt_some_lt _ _ _ hst
    clear l4; p_close_F
  all_goals (clear l4; try p_close_F)

set_option maxHeartbeats 4000000 in
theorem Inv3.step_t3a (I : Inv1 c s) (J : Inv2 c s) (K : Inv3 c s) (h : StepCase c s t lb s') :
    ∀ id, s'.loc id = .nowhere → s'.gTicket id = none := by
  intro id hl
  have t3a := K.t3a
  have b3c := K.b3c
  have b1 := K.b1
  have b2 := K.b2
  have l4 := J.l4
  have hwf := I.wf t
  have hx1 := carry_dispatchPc
  have hx2 := carry_onEmpty
  have hx3 := exec_onEmpty
  have hx4 := carry_markChain c
  have hx5 := markChain_exec c
  have hx6 := carry_afterStore c
  have hx7 := exec_afterStore c
  have hx8 := carry_afterSubmit c
  have hx9 := exec_afterSubmit c
  have hx10 := carry_afterSize c
  have hx11 := exec_afterSize c
  have hx14 := role_afterSubmit c
  have hx15 := role_afterSize c
  have hk : ∀ p k, s.pc t = .gPub p k → k.carry = none := by
    intro p k hp; rw [hp] at hwf; exact carry_cont c none k hwf
  clear I J K hwf
  cases h
  case popClaim ctx i0 k0 nr cl hpc hq hi hcell hfull =>
    have hit := (isTask_iff cl.item).mp (l4 k0 i0 cl hcell)
    obtain ⟨idx, hidx⟩ := hit
    have hc1 := Q.itemAt_eq _ _ _ hcell
    have hc2 := Q.stAt_eq _ _ _ hcell
    have hc3 : i0 < (s.l k0).cells.length := Q.stAt_some_lt _ _ _ hc2
    rw [hidx] at hc1; rw [hfull] at hc2
    have hb2 : s.loc idx = .lq k0 i0 := b2 k0 i0 idx hc1 (by rw [hc2]; simp)
    clear hcell l4
    cases ctx <;> simp only [hidx] at * <;> p_close_F
  case wRecv i0 cl hpc hcell hfull =>
    have hc1 := Q.itemAt_eq _ _ _ hcell
    have hc2 := Q.stAt_eq _ _ _ hcell
    have hc3 : i0 < s.g.cells.length := Q.stAt_some_lt _ _ _ hc2
    rw [hfull] at hc2
    have hb1 : ∀ idx, cl.item = .task idx → s.loc idx = .gq i0 := by
      intro idx hx; rw [hx] at hc1; exact b1 i0 idx hc1 (by rw [hc2]; simp)
    clear hcell l4
    cases hx : cl.item <;> simp only [hx] at * <;> p_close_F
  case gPublish p k hpc hfree hst =>
    have hc3 : p < s.g.cells.length := Q.stAt_some_lt _ _ _ hst
    clear l4; p_close_F
  case rLPub id0 cid p k0 hpc hown hfree hst =>
    have hc3 : p < (s.l k0).cells.length := Q.stAt_some_lt _ _ _ hst
    clear l4; p_close_F
  all_goals (clear l4; try p_close_F)

set_option maxHeartbeats 4000000 in
theorem Inv3.step_t3b (I : Inv1 c s) (J : Inv2 c s) (K : Inv3 c s) (h : StepCase c s t lb s') :
    ∀ id k i, s'.loc id = .lq k i → s'.gTicket id = none := by
  intro id k i hl
  have t3b := K.t3b
  have t3c := K.t3c
  have b3c := K.b3c
  have l4 := J.l4
  have hwf := I.wf t
  have hx1 := carry_dispatchPc
  have hx2 := carry_onEmpty
  have hx3 := exec_onEmpty
  have hx4 := carry_markChain c
  have hx5 := markChain_exec c
  have hx6 := carry_afterStore c
  have hx7 := exec_afterStore c
  have hx8 := carry_afterSubmit c
  have hx9 := exec_afterSubmit c
  have hx10 := carry_afterSize c
  have hx11 := exec_afterSize c
  have hx14 := role_afterSubmit c
  have hx15 := role_afterSize c
  have hk : ∀ p k, s.pc t = .gPub p k → k.carry = none := by
    intro p k hp; rw [hp] at hwf; exact carry_cont c none k hwf
  clear I J K hwf
  cases h
  case popClaim ctx i0 k0 nr cl hpc hq hi hcell hfull =>
    have hit := (isTask_iff cl.item).mp (l4 k0 i0 cl hcell)
    obtain ⟨idx, hidx⟩ := hit
    have hc1 := Q.itemAt_eq _ _ _ hcell
    have hc2 := Q.stAt_eq _ _ _ hcell
    have hc3 : i0 < (s.l k0).cells.length := Q.stAt_some_lt _ _ _ hc2
    rw [hidx] at hc1; rw [hfull] at hc2
    clear hcell l4
    cases ctx <;> simp only [hidx] at * <;> p_close_F
  case wRecv i0 cl hpc hcell hfull =>
    have hc1 := Q.itemAt_eq _ _ _ hcell
    have hc2 := Q.stAt_eq _ _ _ hcell
    have hc3 : i0 < s.g.cells.length := Q.stAt_some_lt _ _ _ hc2
    rw [hfull] at hc2
    clear hcell l4
    cases hx : cl.item <;> simp only [hx] at * <;> p_close_F
  case gPublish p k hpc hfree hst =>
    have hc3 : p < s.g.cells.length := Q.stAt_some_lt _ _ _ hst
    clear l4; p_close_F
  case rLPub id0 cid p k0 hpc hown hfree hst =>
    have hc3 : p < (s.l k0).cells.length := Q.stAt_some_lt _ _ _ hst
    clear l4; p_close_F
  all_goals (clear l4; try p_close_F)

set_option maxHeartbeats 4000000 in
theorem Inv3.step_t3c (I : Inv1 c s) (J : Inv2 c s) (K : Inv3 c s) (h : StepCase c s t lb s') :
    ∀ t' id, (s'.pc t').carry = some id → s'.gTicket id = none := by
  intro t' id hcar
  have t3a := K.t3a
  have t3b := K.t3b
  have t3c := K.t3c
  have b2 := K.b2
  have a5 := K.a5
  have b3c := K.b3c
  have a6 := K.a6
  have l4 := J.l4
  have hwf := I.wf t
  have hx1 := carry_dispatchPc
  have hx2 := carry_onEmpty
  have hx3 := exec_onEmpty
  have hx4 := carry_markChain c
  have hx5 := markChain_exec c
  have hx6 := carry_afterStore c
  have hx7 := exec_afterStore c
  have hx8 := carry_afterSubmit c
  have hx9 := exec_afterSubmit c
  have hx10 := carry_afterSize c
  have hx11 := exec_afterSize c
  have hx14 := role_afterSubmit c
  have hx15 := role_afterSize c
  have hk : ∀ p k, s.pc t = .gPub p k → k.carry = none := by
    intro p k hp; rw [hp] at hwf; exact carry_cont c none k hwf
  clear I J K hwf
  cases h
  case popClaim ctx i0 k0 nr cl hpc hq hi hcell hfull =>
    have hit := (isTask_iff cl.item).mp (l4 k0 i0 cl hcell)
    obtain ⟨idx, hidx⟩ := hit
    have hc1 := Q.itemAt_eq _ _ _ hcell
    have hc2 := Q.stAt_eq _ _ _ hcell
    have hc3 : i0 < (s.l k0).cells.length := Q.stAt_some_lt _ _ _ hc2
    rw [hidx] at hc1; rw [hfull] at hc2
    have hb2 : s.loc idx = .lq k0 i0 := b2 k0 i0 idx hc1 (by rw [hc2]; simp)
    clear hcell l4
    cases ctx <;> simp only [hidx] at * <;> p_close_F
  case wRecv i0 cl hpc hcell hfull =>
    have hc1 := Q.itemAt_eq _ _ _ hcell
    have hc2 := Q.stAt_eq _ _ _ hcell
    have hc3 : i0 < s.g.cells.length := Q.stAt_some_lt _ _ _ hc2
    rw [hfull] at hc2
    clear hcell l4
    cases hx : cl.item <;> simp only [hx] at * <;> p_close_F
  case gPublish p k hpc hfree hst =>
    have hc3 : p < s.g.cells.length := Q.stAt_some_lt _ _ _ hst
    clear l4; p_close_F
  case rLPub id0 cid p k0 hpc hown hfree hst =>
    have hc3 : p < (s.l k0).cells.length := Q.stAt_some_lt _ _ _ hst
    clear l4; p_close_F
  all_goals (clear l4; try p_close_F)

end
end Babylon.Exec
