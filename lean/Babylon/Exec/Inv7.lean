/-
  Seventh layer (deadlock freedom only): every reserved cell of the global queue has its pusher, the
  pushes of `stop()` push STOP markers, and only finitely many thread-local slots are in use.
-/
import Babylon.Exec.Inv6Count

namespace Babylon.Exec
open Babylon.Core

structure Inv7 (c : Cfg) (s : State) : Prop where
  g4 : ∀ p, s.g.stAt p = some .reserved → ∃ t k, s.pc t = .gPub p k
  g6 : ∀ t p k m, s.pc t = .gPub p k → k.marksLeft = some m → s.g.itemAt p = some .stop
  fin : ∃ B, ∀ k, B ≤ k → s.owner k = none

theorem Inv7.init (c : Cfg) : Inv7 c (State.init c) := by
  have hp := init_pc c
  refine ⟨?_, ?_, ?_⟩
  · intro p h; simp [State.init, Q.stAt] at h
  · intro t p k m h; rcases hp t with h1 | h1 | h1 <;> rw [h1] at h <;> cases h
  · exact ⟨0, fun k _ => by simp [State.init]⟩

macro "g_close" : tactic => `(tactic| (
  (try simp only [exec_proj, upd_same, Q.claim_fold, Q.bump_fold] at *)
  first
    | done
    | grind [upd, Pc.marksLeft, Pc.plain, afterLdRunS, afterLdRunB, afterJoinW, afterSubmit, afterSize,
        Q.itemAt_setSt, Q.stAt_setSt, Q.itemAt_take, Q.stAt_take, Q.length_take, Q.length_setSt,
        Q.itemAt_bump, Q.stAt_bump, Q.length_bump, Q.itemAt_some_lt, Q.stAt_some_lt, Q.take_old]))

section
variable {c : Cfg} {s s' : State} {t : Nat} {lb : Lbl}

set_option maxHeartbeats 4000000 in
theorem Inv7.step_g6 (I : Inv1 c s) (J : Inv2 c s) (N : Inv7 c s) (h : StepCase c s t lb s') :
    ∀ t' p k m, s'.pc t' = .gPub p k → k.marksLeft = some m → s'.g.itemAt p = some .stop := by
  intro t' p k m hp hm
  have g6 := N.g6
  have g3 := J.g3
  have hwf := I.wf t
  have hd := plain_dispatchPc
  have hoe := plain_onEmpty
  have hmc := plain_markChain c
  have has := plain_afterStore c
  have hcl := plain_claimPc
  have hk : ∀ p k, s.pc t = .gPub p k → k.plain := by
    intro p k hp; rw [hp] at hwf; exact plain_cont c none k hwf
  have hkm : ∀ x k, s.pc t = .gTake x k → x ≠ .stop → k.marksLeft = none := by
    intro x k hp hx; rw [hp] at hwf; exact ml_cont c x k hwf hx
  have hlt : ∀ u p k, s.pc u = .gPub p k → p < s.g.cells.length := by
    intro u p k hu; exact Q.stAt_some_lt _ _ _ (g3 u p k hu)
  clear I J N hwf
  cases h
  all_goals (try g_close)

theorem Inv7.step_g4 (J : Inv2 c s) (N : Inv7 c s) (h : StepCase c s t lb s') :
    ∀ p, s'.g.stAt p = some .reserved → ∃ t' k, s'.pc t' = .gPub p k := by
  intro p hp
  have g4 := N.g4
  have hfr := pc_frame h
  have keep : s.g.stAt p = some .reserved → (∀ q k, s.pc t = .gPub q k → q ≠ p) → ∃ t' k, s'.pc t' = .gPub p k := by
    intro h1 h2
    obtain ⟨t0, k0, h0⟩ := g4 p h1
    have hne : t0 ≠ t := by intro e; subst e; exact h2 _ _ h0 rfl
    exact ⟨t0, k0, by rw [hfr t0 hne]; exact h0⟩
  clear hfr g4
  cases h
  case gTakeTask id k hpc =>
    simp only [Q.stAt_take] at hp
    split at hp
    · rename_i e; subst e; exact ⟨t, k, by simp [upd_same]⟩
    · exact keep hp (by intro q k' hq; rw [hpc] at hq; cases hq)
  case gTakeStop k hpc =>
    simp only [Q.stAt_take] at hp
    split at hp
    · rename_i e; subst e; exact ⟨t, k, by simp [upd_same]⟩
    · exact keep hp (by intro q k' hq; rw [hpc] at hq; cases hq)
  case gTakeWakeup k hpc =>
    simp only [Q.stAt_take] at hp
    split at hp
    · rename_i e; subst e; exact ⟨t, k, by simp [upd_same]⟩
    · exact keep hp (by intro q k' hq; rw [hpc] at hq; cases hq)
  case gPublish p0 k hpc hfree hst =>
    have hlt := Q.stAt_some_lt _ _ _ hst
    simp only [Q.stAt_setSt] at hp
    split at hp
    · cases hp
    · rename_i hn
      refine keep hp ?_
      intro q k' hq e
      rw [hpc] at hq; injection hq with hq1 _
      exact hn ⟨by omega, hlt⟩
  case wRecv i cl hpc hcell hfull =>
    simp only [exec_proj, Q.stAt_setSt] at hp
    split at hp
    · cases hp
    · exact keep hp (by intro q k' hq; rw [hpc] at hq; cases hq)
  case bLdRun hpc =>
    simp only [exec_proj] at hp
    refine keep hp ?_
    intro q k' hq
    rcases hpc with hpc | ⟨k0, hpc⟩ <;> rw [hpc] at hq <;> cases hq
  all_goals (
    try simp only [exec_proj, Q.claim_fold, Q.bump_fold, Q.stAt_bump] at hp
    refine keep hp ?_
    intro q k' hq
    simp_all)

theorem Inv7.step_fin (N : Inv7 c s) (h : StepCase c s t lb s') : ∃ B, ∀ k, B ≤ k → s'.owner k = none := by
  obtain ⟨B, hB⟩ := N.fin
  cases h
  case wInit k0 hpc hav =>
    refine ⟨max B (k0 + 1), ?_⟩
    intro k hk
    have h1 : B ≤ k := by omega
    have h2 : k ≠ k0 := by omega
    simp [upd, h2, hB k h1]
  all_goals exact ⟨B, by simpa [exec_proj] using hB⟩

theorem Inv7.step (A : Inv c s) (N : Inv7 c s) (h : StepCase c s t lb s') : Inv7 c s' :=
  ⟨N.step_g4 A.i2 h, N.step_g6 A.i1 A.i2 h, N.step_fin h⟩

end

/-- all invariants hold in every reachable state -/
theorem Inv7.reachable {c : Cfg} (hc : c.WF) {s : State} (h : Reach c s) : Inv c s ∧ Inv6 c s ∧ Inv7 c s := by
  refine Reachable.invariant (fun s => Inv c s ∧ Inv6 c s ∧ Inv7 c s) ?_ ?_ s h
  · intro s hs; subst hs; exact ⟨Inv.init c hc, Inv6.init c, Inv7.init c⟩
  · intro s s' hI hstep
    obtain ⟨t, lb, hst⟩ := hstep
    have hs := step_cases hst
    exact ⟨hI.1.step hs, hI.2.1.step hc hI.1 hs, hI.2.2.step hI.1 hs⟩

end Babylon.Exec
