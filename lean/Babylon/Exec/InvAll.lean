/-
  All layers of invariants together: they hold initially and are preserved by every step, hence hold
  in every reachable state of the executor model.
-/
import Babylon.Exec.Inv3PresA
import Babylon.Exec.Inv3PresB
import Babylon.Exec.Inv3PresC
import Babylon.Exec.Inv3PresD
import Babylon.Exec.Inv3PresE
import Babylon.Exec.Inv3PresF
import Babylon.Exec.Inv3PresX
import Babylon.Exec.Inv3U
import Babylon.Exec.Inv4PresA
import Babylon.Exec.Inv4PresB
import Babylon.Exec.Inv4PresC
import Babylon.Exec.Inv4PresD
import Babylon.Exec.Inv5Pres

namespace Babylon.Exec
open Babylon.Core

/-- only worker program counters execute a task -/
theorem cont_exec_role (c : Cfg) (x : Option Item) (k : Pc) (h : ContOK c x k) (id : Nat) (hex : k.exec = some id) :
    k.role = .worker := by
  cases k <;> first
    | rfl
    | (exfalso; simp [Pc.exec] at hex; done)
    | (exfalso; obtain ⟨_, n, hn⟩ := h; rw [hn, markChain_exec] at hex; cases hex)

theorem exec_role (c : Cfg) (p : Pc) (hwf : PcWF c p) (id : Nat) (hex : p.exec = some id) : p.role = .worker := by
  cases p <;> first
    | rfl
    | (exfalso; simp [Pc.exec] at hex; done)
    | (simp only [Pc.role]; exact cont_exec_role c _ _ hwf id (by simpa [Pc.exec] using hex))

/-- states reachable from the initial state of configuration `c` -/
def Reach (c : Cfg) (s : State) : Prop := Reachable (· = State.init c) (Step c) s

/-- executable replay of a list of labelled steps (used for the non-vacuity examples) -/
def runTrace (c : Cfg) : State → List (Nat × Lbl) → Option State
  | s, [] => some s
  | s, (t, lb) :: rest =>
    match step c s t lb with
    | some s' => runTrace c s' rest
    | none => none

theorem reach_runTrace {c : Cfg} {s s' : State} (tr : List (Nat × Lbl)) (hr : Reach c s)
    (h : runTrace c s tr = some s') : Reach c s' := by
  induction tr generalizing s with
  | nil => simp only [runTrace, Option.some.injEq] at h; subst h; exact hr
  | cons x rest ih =>
    obtain ⟨t, lb⟩ := x
    simp only [runTrace] at h
    split at h
    · rename_i s1 hs1
      exact ih (Reachable.tail hr ⟨t, lb, hs1⟩) h
    · cases h

structure Inv (c : Cfg) (s : State) : Prop where
  i1 : Inv1 c s
  i2 : Inv2 c s
  b : Inv2b s
  i3 : Inv3 c s
  x : Inv3X s
  u : Inv3U s
  i4 : Inv4 c s
  i5 : Inv5 c s

theorem Inv.init (c : Cfg) (hc : c.WF) : Inv c (State.init c) :=
  ⟨Inv1.init c hc, Inv2.init c, Inv2b.init c, Inv3.init c, Inv3X.init c, Inv3U.init c, Inv4.init c, Inv5.init c⟩

/-- the run-counter table of `Inv3` is a consequence of the six implications of `Inv3U` -/
theorem runsOK_of_U {s : State} (U : Inv3U s) (id : Nat) : runsOK s id := by
  unfold runsOK
  split
  · rename_i h; exact U.u1 id h
  · rename_i i h; exact U.u2 id i h
  · rename_i k i h; exact U.u3 id k i h
  · rename_i h; exact U.u4 id h
  · rename_i t h
    split
    · rename_i hc; exact U.u5 id t h hc.1 hc.2
    · rename_i hc
      apply U.u6 id t h
      by_cases h1 : (s.pc t).exec = some id
      · right; exact Classical.byContradiction (fun h2 => hc ⟨h1, h2⟩)
      · left; exact h1

theorem Inv.step {c : Cfg} {s s' : State} {t : Nat} {lb : Lbl} (A : Inv c s) (h : StepCase c s t lb s') : Inv c s' := by
  obtain ⟨I, J, B, K, X, U, M, Z⟩ := A
  have U' : Inv3U s' := ⟨U.step_u1 I J K h, U.step_u2 I J K h, U.step_u3 I J K h, U.step_u4 I J K h, U.step_u5 I J K h,
      U.step_u6 I J K h⟩
  refine ⟨I.step h, J.step I h, ⟨B.step_g5 I J h, B.step_g2u I J h, B.step_l9 I J h⟩, ?_, ?_, U', ?_, ?_⟩
  · exact ⟨K.step_a1 I J X h, K.step_a2 I J X h, K.step_a3 I J X h, K.step_a4 I J X h, K.step_a5 I J X h,
      K.step_b1 I J X h, K.step_b2 I J X h, K.step_b3c I J h, K.step_b3e I J h, K.step_a6 I J X h,
      runsOK_of_U U', K.step_f1 I J X h, K.step_f2 I J X h, K.step_f3 I J X h, K.step_f4 I J X h, K.step_f5 I J X h,
      K.step_f6 I J X h, K.step_v2 I J X h, K.step_t1 I J h, K.step_t2 I J h, K.step_t3a I J h,
      K.step_t3b I J h, K.step_t3c I J h⟩
  · exact ⟨K.step_x1 I J X h, K.step_x2 I J X h⟩
  · exact ⟨M.step_m1 I J B K h, M.step_m2 I J B K h, M.step_m3 I J B K h, M.step_m4 I J B K h, M.step_m7 I J B K h,
      M.step_j1 I J B K h, M.step_j2 I J B K h, M.step_j3 I J B K h, M.step_e1 I J B K h⟩
  · exact ⟨Z.step_s1 I J h, Z.step_s2 I J h, Z.step_s3 I J h, Z.step_s4 I J h⟩

/-- the invariants hold in every reachable state -/
theorem Inv.reachable {c : Cfg} (hc : c.WF) {s : State} (h : Reach c s) : Inv c s := by
  refine Reachable.invariant (Inv c) ?_ ?_ s h
  · intro s hs; subst hs; exact Inv.init c hc
  · intro s s' hI hstep
    obtain ⟨t, lb, hst⟩ := hstep
    exact hI.step (step_cases hst)

end Babylon.Exec
