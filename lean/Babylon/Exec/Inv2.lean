/-
  Second layer of invariants: the ticket structure of the local queues and of the global queue.
-/
import Babylon.Exec.Inv1Pres

namespace Babylon.Exec
open Babylon.Core

/-- the worker found its own local queue empty and has not returned to the loop head since -/
def Pc.afterEmpty : Pc → Bool
  | .wSteal _ | .chk (.steal _) _ _ | .wGWait _ | .wStopping | .exited => true
  | _ => false

/-- the local push ticket whose publish a thread still owes -/
def Pc.pubTicket : Pc → Option Nat
  | .rLPub _ _ p => some p
  | _ => none

def Item.isTask : Item → Bool
  | .task _ => true
  | _ => false

/-- a program counter that holds no queue ticket and is not inside `try_pop` -/
def Pc.plain (p : Pc) : Prop :=
  p.pubTicket = none ∧ (∀ i, p ≠ .wGWait i) ∧ (∀ q k, p ≠ .gPub q k) ∧ (∀ ctx i b, p ≠ .chk ctx i b) ∧
  (∀ id cid q, p ≠ .rLPub id cid q)

theorem plain_dispatchPc (x : Item) : (dispatchPc x).plain := by
  cases x <;> simp [Pc.plain, dispatchPc, Pc.pubTicket]
theorem plain_claimPc (ctx : PopCtx) (x : Item) : (claimPc ctx x).plain := by
  cases ctx <;> cases x <;> simp [Pc.plain, claimPc, dispatchPc, Pc.pubTicket]
theorem plain_onEmpty (ctx : PopCtx) : ctx.onEmpty.plain := by
  cases ctx <;> simp [Pc.plain, PopCtx.onEmpty, Pc.pubTicket]
theorem plain_markChain (c : Cfg) (n : Nat) : (markChain c n).plain := by
  rcases markChain_cases c n with h | h | ⟨m, h⟩ <;> simp [h, Pc.plain, Pc.pubTicket]
theorem plain_afterStore (c : Cfg) : (afterStore c).plain := by
  unfold afterStore; split
  · simp [Pc.plain, Pc.pubTicket]
  · exact plain_markChain c _
theorem plain_cont (c : Cfg) (x : Option Item) (k : Pc) (h : ContOK c x k) : k.plain := by
  cases k <;> first
    | (simp [Pc.plain, Pc.pubTicket]; done)
    | (obtain ⟨_, n, hn⟩ := h; rw [hn]; exact plain_markChain c n)

theorem afterEmpty_dispatchPc (x : Item) : (dispatchPc x).afterEmpty = (x == .stop) := by cases x <;> rfl
theorem afterEmpty_claimPc_task (ctx : PopCtx) (id : Nat) : (claimPc ctx (.task id)).afterEmpty = false := by
  cases ctx <;> rfl
theorem afterEmpty_onEmpty (ctx : PopCtx) : ctx.onEmpty.afterEmpty = (ctx.role == .worker) := by cases ctx <;> rfl
theorem afterEmpty_markChain (c : Cfg) (n : Nat) : (markChain c n).afterEmpty = false := by
  rcases markChain_cases c n with h | h | ⟨m, h⟩ <;> simp [h, Pc.afterEmpty]
theorem afterEmpty_afterStore (c : Cfg) : (afterStore c).afterEmpty = false := by
  unfold afterStore; split
  · rfl
  · exact afterEmpty_markChain c _
theorem afterEmpty_cont (c : Cfg) (x : Option Item) (k : Pc) (h : ContOK c x k) : k.afterEmpty = false := by
  cases k <;> first
    | rfl
    | (obtain ⟨_, n, hn⟩ := h; rw [hn]; exact afterEmpty_markChain c n)
theorem isTask_iff (x : Item) : x.isTask = true ↔ ∃ id, x = .task id := by cases x <;> simp [Item.isTask]

structure Inv2 (c : Cfg) (s : State) : Prop where
  /-- local queues -/
  l0 : ∀ k, (s.l k).popIdx ≤ (s.l k).cells.length
  l1 : ∀ (k i : Nat) (cl : Cell), (s.l k).cells[i]? = some cl → (cl.st = .free ↔ i < (s.l k).popIdx)
  l2 : ∀ (k i w : Nat), (s.l k).stAt i = some .reserved → s.owner k = some w → (s.pc w).pubTicket = some i
  l3 : ∀ k, s.owner k = none → (s.l k).cells = []
  l4 : ∀ (k i : Nat) (cl : Cell), (s.l k).cells[i]? = some cl → cl.item.isTask = true
  l5 : ∀ (w id cid p k : Nat), s.pc w = .rLPub id cid p → s.own w = some k →
        (s.l k).cells[p]? = some ⟨.task cid, .reserved⟩
  l6 : ∀ w k i, s.pc w = .chk .own i true → s.own w = some k → (s.l k).popIdx = i → (s.l k).cells.length ≤ i
  l7 : ∀ w k, (s.pc w).afterEmpty = true → s.owner k = some w → (s.l k).cells.length ≤ (s.l k).popIdx
  l8 : ∀ w k ctx i nr, s.pc w = .chk ctx i nr → ctx.queue s w = some k → i ≤ (s.l k).popIdx
  /-- global queue -/
  g0 : ∀ (i : Nat) (cl : Cell), s.g.cells[i]? = some cl → s.g.popIdx ≤ i → cl.st ≠ .free
  g1 : ∀ i : Nat, i < s.g.popIdx → s.g.stAt i = some .free ∨ ∃ w, s.pc w = .wGWait i
  g2 : ∀ w i, s.pc w = .wGWait i → i < s.g.popIdx
  g3 : ∀ (t p : Nat) (k : Pc), s.pc t = .gPub p k → s.g.stAt p = some .reserved
  g3u : ∀ t t' p k k', s.pc t = .gPub p k → s.pc t' = .gPub p k' → t = t'

theorem init_pc (c : Cfg) (t : Nat) :
    (State.init c).pc t = .wInit ∨ (State.init c).pc t = .bTop ∨ (State.init c).pc t = .idle := by
  simp only [State.init]; split
  · exact Or.inl rfl
  · split
    · exact Or.inr (Or.inl rfl)
    · exact Or.inr (Or.inr rfl)

theorem Inv2.init (c : Cfg) : Inv2 c (State.init c) := by
  have hp := init_pc c
  refine ⟨?_, ?_, ?_, ?_, ?_, ?_, ?_, ?_, ?_, ?_, ?_, ?_, ?_, ?_⟩
  · intro k; simp [State.init]
  · intro k i cl h; simp [State.init] at h
  · intro k i w h; simp [State.init, Q.stAt] at h
  · intro k _; simp [State.init]
  · intro k i cl h; simp [State.init] at h
  · intro w id cid p k h; rcases hp w with h1 | h1 | h1 <;> rw [h1] at h <;> cases h
  · intro w k i h; rcases hp w with h1 | h1 | h1 <;> rw [h1] at h <;> cases h
  · intro w k _ h; simp [State.init] at h
  · intro w k ctx i nr h; rcases hp w with h1 | h1 | h1 <;> rw [h1] at h <;> cases h
  · intro i cl h; simp [State.init] at h
  · intro i h; simp [State.init] at h
  · intro w i h; rcases hp w with h1 | h1 | h1 <;> rw [h1] at h <;> cases h
  · intro t p k h; rcases hp t with h1 | h1 | h1 <;> rw [h1] at h <;> cases h
  · intro t t' p k k' h; rcases hp t with h1 | h1 | h1 <;> rw [h1] at h <;> cases h

end Babylon.Exec
