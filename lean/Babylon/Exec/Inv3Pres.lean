/-
  `Inv3` (place of every task, run counters, futures, global tickets) is inductive.
-/
import Babylon.Exec.Inv3
import Babylon.Exec.Inv2Pres

namespace Babylon.Exec
open Babylon.Core

/-- closing tactic for the place goals -/
macro "p_close" : tactic => `(tactic| (
  (try simp only [exec_proj, upd_same] at *)
  first
    | done
    | grind [upd, Pc.role, Pc.carry, Pc.exec, claimPc, dispatchPc, PopCtx.onEmpty, PopCtx.role, PopCtx.queue, afterLdRunS,
        afterLdRunB, afterJoinW, role_chk, popctx_role, runsOK,
        Q.setSt, Q.take, Q.ready, Q.stAt, Q.itemAt, Q.slotFree, Item.isTask]))

section
variable {c : Cfg} {s s' : State} {t : Nat} {lb : Lbl}

set_option maxHeartbeats 4000000 in
theorem Inv3.step_a1 (I : Inv1 c s) (J : Inv2 c s) (K : Inv3 c s) (h : StepCase c s t lb s') :
    ∀ id i, s'.loc id = .gq i → s'.g.itemAt i = some (.task id) ∧ s'.g.stAt i ≠ some .free := by
  intro id i hl
  have a1 := K.a1
  have a2 := K.a2
  have a3 := K.a3
  have a4 := K.a4
  have a5 := K.a5
  have b1 := K.b1
  have b2 := K.b2
  have b3c := K.b3c
  have b3e := K.b3e
  have a6 := K.a6
  have u := K.u
  have f1 := K.f1
  have f2 := K.f2
  have f3 := K.f3
  have f4 := K.f4
  have f5 := K.f5
  have f6 := K.f6
  have v2 := K.v2
  have t1 := K.t1
  have t2 := K.t2
  have t3a := K.t3a
  have t3b := K.t3b
  have t3c := K.t3c
  have l4 := J.l4
  have hwf := I.wf t
  have hx1 := carry_dispatchPc
  have hx2 := carry_onEmpty
  have hx3 := exec_onEmpty
  have hx4 := carry_markChain c
  have hx5 := markChain_exec c
  have hx6 := carry_afterStore c
  have hx7 := exec_afterStore c
  have hx8 := carry_afterSubmit c
  have hx9 := exec_afterSubmit c
  have hx10 := carry_afterSize c
  have hx11 := exec_afterSize c
  have hx12 := ne_wPre_afterSubmit c
  have hx13 := ne_wPre_afterSize c
  have hx14 := role_afterSubmit c
  have hx15 := role_afterSize c
  have hx16 := markChain_ne c
  have hk : ∀ p k, s.pc t = .gPub p k → k.carry = none ∧ ∀ y, k ≠ .wPre y := by
    intro p k hp; rw [hp] at hwf; exact ⟨carry_cont c none k hwf, cont_ne_wPre c none k hwf⟩
  have hk2 : ∀ x k, s.pc t = .gTake x k → k.carry = none ∧ ∀ y, k ≠ .wPre y := by
    intro x k hp; rw [hp] at hwf; exact ⟨carry_cont c _ k hwf, cont_ne_wPre c _ k hwf⟩
  clear I J K hwf
  cases h
  case popClaim ctx i0 k0 nr cl hpc hq hi hcell hfull =>
    have hit := (isTask_iff cl.item).mp (l4 k0 i0 cl hcell)
    obtain ⟨idx, hidx⟩ := hit
    cases ctx <;> rw [hidx] at * <;> p_close
  case wRecv i0 cl hpc hcell hfull =>
    cases hx : cl.item <;> rw [hx] at * <;> p_close
  all_goals try p_close
  all_goals (trace_state; sorry)

set_option maxHeartbeats 4000000 in
theorem Inv3.step_a2 (I : Inv1 c s) (J : Inv2 c s) (K : Inv3 c s) (h : StepCase c s t lb s') :
    ∀ id k i, s'.loc id = .lq k i → (s'.l k).itemAt i = some (.task id) ∧ (s'.l k).stAt i ≠ some .free := by
  intro id k i hl
  have a1 := K.a1
  have a2 := K.a2
  have a3 := K.a3
  have a4 := K.a4
  have a5 := K.a5
  have b1 := K.b1
  have b2 := K.b2
  have b3c := K.b3c
  have b3e := K.b3e
  have a6 := K.a6
  have u := K.u
  have f1 := K.f1
  have f2 := K.f2
  have f3 := K.f3
  have f4 := K.f4
  have f5 := K.f5
  have f6 := K.f6
  have v2 := K.v2
  have t1 := K.t1
  have t2 := K.t2
  have t3a := K.t3a
  have t3b := K.t3b
  have t3c := K.t3c
  have l4 := J.l4
  have hwf := I.wf t
  have hx1 := carry_dispatchPc
  have hx2 := carry_onEmpty
  have hx3 := exec_onEmpty
  have hx4 := carry_markChain c
  have hx5 := markChain_exec c
  have hx6 := carry_afterStore c
  have hx7 := exec_afterStore c
  have hx8 := carry_afterSubmit c
  have hx9 := exec_afterSubmit c
  have hx10 := carry_afterSize c
  have hx11 := exec_afterSize c
  have hx12 := ne_wPre_afterSubmit c
  have hx13 := ne_wPre_afterSize c
  have hx14 := role_afterSubmit c
  have hx15 := role_afterSize c
  have hx16 := markChain_ne c
  have hk : ∀ p k, s.pc t = .gPub p k → k.carry = none ∧ ∀ y, k ≠ .wPre y := by
    intro p k hp; rw [hp] at hwf; exact ⟨carry_cont c none k hwf, cont_ne_wPre c none k hwf⟩
  have hk2 : ∀ x k, s.pc t = .gTake x k → k.carry = none ∧ ∀ y, k ≠ .wPre y := by
    intro x k hp; rw [hp] at hwf; exact ⟨carry_cont c _ k hwf, cont_ne_wPre c _ k hwf⟩
  clear I J K hwf
  cases h
  case popClaim ctx i0 k0 nr cl hpc hq hi hcell hfull =>
    have hit := (isTask_iff cl.item).mp (l4 k0 i0 cl hcell)
    obtain ⟨idx, hidx⟩ := hit
    cases ctx <;> rw [hidx] at * <;> p_close
  case wRecv i0 cl hpc hcell hfull =>
    cases hx : cl.item <;> rw [hx] at * <;> p_close
  all_goals try p_close
  all_goals (trace_state; sorry)

set_option maxHeartbeats 4000000 in
theorem Inv3.step_a3 (I : Inv1 c s) (J : Inv2 c s) (K : Inv3 c s) (h : StepCase c s t lb s') :
    ∀ id t', s'.loc id = .hand t' → (s'.pc t').carry = some id ∨ (s'.pc t').exec = some id := by
  intro id t' hl
  have a1 := K.a1
  have a2 := K.a2
  have a3 := K.a3
  have a4 := K.a4
  have a5 := K.a5
  have b1 := K.b1
  have b2 := K.b2
  have b3c := K.b3c
  have b3e := K.b3e
  have a6 := K.a6
  have u := K.u
  have f1 := K.f1
  have f2 := K.f2
  have f3 := K.f3
  have f4 := K.f4
  have f5 := K.f5
  have f6 := K.f6
  have v2 := K.v2
  have t1 := K.t1
  have t2 := K.t2
  have t3a := K.t3a
  have t3b := K.t3b
  have t3c := K.t3c
  have l4 := J.l4
  have hwf := I.wf t
  have hx1 := carry_dispatchPc
  have hx2 := carry_onEmpty
  have hx3 := exec_onEmpty
  have hx4 := carry_markChain c
  have hx5 := markChain_exec c
  have hx6 := carry_afterStore c
  have hx7 := exec_afterStore c
  have hx8 := carry_afterSubmit c
  have hx9 := exec_afterSubmit c
  have hx10 := carry_afterSize c
  have hx11 := exec_afterSize c
  have hx12 := ne_wPre_afterSubmit c
  have hx13 := ne_wPre_afterSize c
  have hx14 := role_afterSubmit c
  have hx15 := role_afterSize c
  have hx16 := markChain_ne c
  have hk : ∀ p k, s.pc t = .gPub p k → k.carry = none ∧ ∀ y, k ≠ .wPre y := by
    intro p k hp; rw [hp] at hwf; exact ⟨carry_cont c none k hwf, cont_ne_wPre c none k hwf⟩
  have hk2 : ∀ x k, s.pc t = .gTake x k → k.carry = none ∧ ∀ y, k ≠ .wPre y := by
    intro x k hp; rw [hp] at hwf; exact ⟨carry_cont c _ k hwf, cont_ne_wPre c _ k hwf⟩
  clear I J K hwf
  cases h
  case popClaim ctx i0 k0 nr cl hpc hq hi hcell hfull =>
    have hit := (isTask_iff cl.item).mp (l4 k0 i0 cl hcell)
    obtain ⟨idx, hidx⟩ := hit
    cases ctx <;> rw [hidx] at * <;> p_close
  case wRecv i0 cl hpc hcell hfull =>
    cases hx : cl.item <;> rw [hx] at * <;> p_close
  all_goals try p_close
  all_goals (trace_state; sorry)

set_option maxHeartbeats 4000000 in
theorem Inv3.step_a4 (I : Inv1 c s) (J : Inv2 c s) (K : Inv3 c s) (h : StepCase c s t lb s') :
    ∀ id, s'.loc id = .fin ↔ s'.done id = true := by
  intro id
  have a1 := K.a1
  have a2 := K.a2
  have a3 := K.a3
  have a4 := K.a4
  have a5 := K.a5
  have b1 := K.b1
  have b2 := K.b2
  have b3c := K.b3c
  have b3e := K.b3e
  have a6 := K.a6
  have u := K.u
  have f1 := K.f1
  have f2 := K.f2
  have f3 := K.f3
  have f4 := K.f4
  have f5 := K.f5
  have f6 := K.f6
  have v2 := K.v2
  have t1 := K.t1
  have t2 := K.t2
  have t3a := K.t3a
  have t3b := K.t3b
  have t3c := K.t3c
  have l4 := J.l4
  have hwf := I.wf t
  have hx1 := carry_dispatchPc
  have hx2 := carry_onEmpty
  have hx3 := exec_onEmpty
  have hx4 := carry_markChain c
  have hx5 := markChain_exec c
  have hx6 := carry_afterStore c
  have hx7 := exec_afterStore c
  have hx8 := carry_afterSubmit c
  have hx9 := exec_afterSubmit c
  have hx10 := carry_afterSize c
  have hx11 := exec_afterSize c
  have hx12 := ne_wPre_afterSubmit c
  have hx13 := ne_wPre_afterSize c
  have hx14 := role_afterSubmit c
  have hx15 := role_afterSize c
  have hx16 := markChain_ne c
  have hk : ∀ p k, s.pc t = .gPub p k → k.carry = none ∧ ∀ y, k ≠ .wPre y := by
    intro p k hp; rw [hp] at hwf; exact ⟨carry_cont c none k hwf, cont_ne_wPre c none k hwf⟩
  have hk2 : ∀ x k, s.pc t = .gTake x k → k.carry = none ∧ ∀ y, k ≠ .wPre y := by
    intro x k hp; rw [hp] at hwf; exact ⟨carry_cont c _ k hwf, cont_ne_wPre c _ k hwf⟩
  clear I J K hwf
  cases h
  case popClaim ctx i0 k0 nr cl hpc hq hi hcell hfull =>
    have hit := (isTask_iff cl.item).mp (l4 k0 i0 cl hcell)
    obtain ⟨idx, hidx⟩ := hit
    cases ctx <;> rw [hidx] at * <;> p_close
  case wRecv i0 cl hpc hcell hfull =>
    cases hx : cl.item <;> rw [hx] at * <;> p_close
  all_goals try p_close
  all_goals (trace_state; sorry)

set_option maxHeartbeats 4000000 in
theorem Inv3.step_a5 (I : Inv1 c s) (J : Inv2 c s) (K : Inv3 c s) (h : StepCase c s t lb s') :
    ∀ id, s'.loc id = .nowhere ↔ s'.known id = false := by
  intro id
  have a1 := K.a1
  have a2 := K.a2
  have a3 := K.a3
  have a4 := K.a4
  have a5 := K.a5
  have b1 := K.b1
  have b2 := K.b2
  have b3c := K.b3c
  have b3e := K.b3e
  have a6 := K.a6
  have u := K.u
  have f1 := K.f1
  have f2 := K.f2
  have f3 := K.f3
  have f4 := K.f4
  have f5 := K.f5
  have f6 := K.f6
  have v2 := K.v2
  have t1 := K.t1
  have t2 := K.t2
  have t3a := K.t3a
  have t3b := K.t3b
  have t3c := K.t3c
  have l4 := J.l4
  have hwf := I.wf t
  have hx1 := carry_dispatchPc
  have hx2 := carry_onEmpty
  have hx3 := exec_onEmpty
  have hx4 := carry_markChain c
  have hx5 := markChain_exec c
  have hx6 := carry_afterStore c
  have hx7 := exec_afterStore c
  have hx8 := carry_afterSubmit c
  have hx9 := exec_afterSubmit c
  have hx10 := carry_afterSize c
  have hx11 := exec_afterSize c
  have hx12 := ne_wPre_afterSubmit c
  have hx13 := ne_wPre_afterSize c
  have hx14 := role_afterSubmit c
  have hx15 := role_afterSize c
  have hx16 := markChain_ne c
  have hk : ∀ p k, s.pc t = .gPub p k → k.carry = none ∧ ∀ y, k ≠ .wPre y := by
    intro p k hp; rw [hp] at hwf; exact ⟨carry_cont c none k hwf, cont_ne_wPre c none k hwf⟩
  have hk2 : ∀ x k, s.pc t = .gTake x k → k.carry = none ∧ ∀ y, k ≠ .wPre y := by
    intro x k hp; rw [hp] at hwf; exact ⟨carry_cont c _ k hwf, cont_ne_wPre c _ k hwf⟩
  clear I J K hwf
  cases h
  case popClaim ctx i0 k0 nr cl hpc hq hi hcell hfull =>
    have hit := (isTask_iff cl.item).mp (l4 k0 i0 cl hcell)
    obtain ⟨idx, hidx⟩ := hit
    cases ctx <;> rw [hidx] at * <;> p_close
  case wRecv i0 cl hpc hcell hfull =>
    cases hx : cl.item <;> rw [hx] at * <;> p_close
  all_goals try p_close
  all_goals (trace_state; sorry)

set_option maxHeartbeats 4000000 in
theorem Inv3.step_b1 (I : Inv1 c s) (J : Inv2 c s) (K : Inv3 c s) (h : StepCase c s t lb s') :
    ∀ (i : Nat) (cl : Cell) (id : Nat), s'.g.cells[i]? = some cl → cl.item = .task id → cl.st ≠ .free → s'.loc id = .gq i := by
  intro i cl id hc hit hst
  have a1 := K.a1
  have a2 := K.a2
  have a3 := K.a3
  have a4 := K.a4
  have a5 := K.a5
  have b1 := K.b1
  have b2 := K.b2
  have b3c := K.b3c
  have b3e := K.b3e
  have a6 := K.a6
  have u := K.u
  have f1 := K.f1
  have f2 := K.f2
  have f3 := K.f3
  have f4 := K.f4
  have f5 := K.f5
  have f6 := K.f6
  have v2 := K.v2
  have t1 := K.t1
  have t2 := K.t2
  have t3a := K.t3a
  have t3b := K.t3b
  have t3c := K.t3c
  have l4 := J.l4
  have hwf := I.wf t
  have hx1 := carry_dispatchPc
  have hx2 := carry_onEmpty
  have hx3 := exec_onEmpty
  have hx4 := carry_markChain c
  have hx5 := markChain_exec c
  have hx6 := carry_afterStore c
  have hx7 := exec_afterStore c
  have hx8 := carry_afterSubmit c
  have hx9 := exec_afterSubmit c
  have hx10 := carry_afterSize c
  have hx11 := exec_afterSize c
  have hx12 := ne_wPre_afterSubmit c
  have hx13 := ne_wPre_afterSize c
  have hx14 := role_afterSubmit c
  have hx15 := role_afterSize c
  have hx16 := markChain_ne c
  have hk : ∀ p k, s.pc t = .gPub p k → k.carry = none ∧ ∀ y, k ≠ .wPre y := by
    intro p k hp; rw [hp] at hwf; exact ⟨carry_cont c none k hwf, cont_ne_wPre c none k hwf⟩
  have hk2 : ∀ x k, s.pc t = .gTake x k → k.carry = none ∧ ∀ y, k ≠ .wPre y := by
    intro x k hp; rw [hp] at hwf; exact ⟨carry_cont c _ k hwf, cont_ne_wPre c _ k hwf⟩
  clear I J K hwf
  cases h
  case popClaim ctx i0 k0 nr cl hpc hq hi hcell hfull =>
    have hit := (isTask_iff cl.item).mp (l4 k0 i0 cl hcell)
    obtain ⟨idx, hidx⟩ := hit
    cases ctx <;> rw [hidx] at * <;> p_close
  case wRecv i0 cl hpc hcell hfull =>
    cases hx : cl.item <;> rw [hx] at * <;> p_close
  all_goals try p_close
  all_goals (trace_state; sorry)

set_option maxHeartbeats 4000000 in
theorem Inv3.step_b2 (I : Inv1 c s) (J : Inv2 c s) (K : Inv3 c s) (h : StepCase c s t lb s') :
    ∀ (k i : Nat) (cl : Cell) (id : Nat), (s'.l k).cells[i]? = some cl → cl.item = .task id → cl.st ≠ .free → s'.loc id = .lq k i := by
  intro k i cl id hc hit hst
  have a1 := K.a1
  have a2 := K.a2
  have a3 := K.a3
  have a4 := K.a4
  have a5 := K.a5
  have b1 := K.b1
  have b2 := K.b2
  have b3c := K.b3c
  have b3e := K.b3e
  have a6 := K.a6
  have u := K.u
  have f1 := K.f1
  have f2 := K.f2
  have f3 := K.f3
  have f4 := K.f4
  have f5 := K.f5
  have f6 := K.f6
  have v2 := K.v2
  have t1 := K.t1
  have t2 := K.t2
  have t3a := K.t3a
  have t3b := K.t3b
  have t3c := K.t3c
  have l4 := J.l4
  have hwf := I.wf t
  have hx1 := carry_dispatchPc
  have hx2 := carry_onEmpty
  have hx3 := exec_onEmpty
  have hx4 := carry_markChain c
  have hx5 := markChain_exec c
  have hx6 := carry_afterStore c
  have hx7 := exec_afterStore c
  have hx8 := carry_afterSubmit c
  have hx9 := exec_afterSubmit c
  have hx10 := carry_afterSize c
  have hx11 := exec_afterSize c
  have hx12 := ne_wPre_afterSubmit c
  have hx13 := ne_wPre_afterSize c
  have hx14 := role_afterSubmit c
  have hx15 := role_afterSize c
  have hx16 := markChain_ne c
  have hk : ∀ p k, s.pc t = .gPub p k → k.carry = none ∧ ∀ y, k ≠ .wPre y := by
    intro p k hp; rw [hp] at hwf; exact ⟨carry_cont c none k hwf, cont_ne_wPre c none k hwf⟩
  have hk2 : ∀ x k, s.pc t = .gTake x k → k.carry = none ∧ ∀ y, k ≠ .wPre y := by
    intro x k hp; rw [hp] at hwf; exact ⟨carry_cont c _ k hwf, cont_ne_wPre c _ k hwf⟩
  clear I J K hwf
  cases h
  case popClaim ctx i0 k0 nr cl hpc hq hi hcell hfull =>
    have hit := (isTask_iff cl.item).mp (l4 k0 i0 cl hcell)
    obtain ⟨idx, hidx⟩ := hit
    cases ctx <;> rw [hidx] at * <;> p_close
  case wRecv i0 cl hpc hcell hfull =>
    cases hx : cl.item <;> rw [hx] at * <;> p_close
  all_goals try p_close
  all_goals (trace_state; sorry)

set_option maxHeartbeats 4000000 in
theorem Inv3.step_b3c (I : Inv1 c s) (J : Inv2 c s) (K : Inv3 c s) (h : StepCase c s t lb s') :
    ∀ t' id, (s'.pc t').carry = some id → s'.loc id = .hand t' := by
  intro t' id hcar
  have a1 := K.a1
  have a2 := K.a2
  have a3 := K.a3
  have a4 := K.a4
  have a5 := K.a5
  have b1 := K.b1
  have b2 := K.b2
  have b3c := K.b3c
  have b3e := K.b3e
  have a6 := K.a6
  have u := K.u
  have f1 := K.f1
  have f2 := K.f2
  have f3 := K.f3
  have f4 := K.f4
  have f5 := K.f5
  have f6 := K.f6
  have v2 := K.v2
  have t1 := K.t1
  have t2 := K.t2
  have t3a := K.t3a
  have t3b := K.t3b
  have t3c := K.t3c
  have l4 := J.l4
  have hwf := I.wf t
  have hx1 := carry_dispatchPc
  have hx2 := carry_onEmpty
  have hx3 := exec_onEmpty
  have hx4 := carry_markChain c
  have hx5 := markChain_exec c
  have hx6 := carry_afterStore c
  have hx7 := exec_afterStore c
  have hx8 := carry_afterSubmit c
  have hx9 := exec_afterSubmit c
  have hx10 := carry_afterSize c
  have hx11 := exec_afterSize c
  have hx12 := ne_wPre_afterSubmit c
  have hx13 := ne_wPre_afterSize c
  have hx14 := role_afterSubmit c
  have hx15 := role_afterSize c
  have hx16 := markChain_ne c
  have hk : ∀ p k, s.pc t = .gPub p k → k.carry = none ∧ ∀ y, k ≠ .wPre y := by
    intro p k hp; rw [hp] at hwf; exact ⟨carry_cont c none k hwf, cont_ne_wPre c none k hwf⟩
  have hk2 : ∀ x k, s.pc t = .gTake x k → k.carry = none ∧ ∀ y, k ≠ .wPre y := by
    intro x k hp; rw [hp] at hwf; exact ⟨carry_cont c _ k hwf, cont_ne_wPre c _ k hwf⟩
  clear I J K hwf
  cases h
  case popClaim ctx i0 k0 nr cl hpc hq hi hcell hfull =>
    have hit := (isTask_iff cl.item).mp (l4 k0 i0 cl hcell)
    obtain ⟨idx, hidx⟩ := hit
    cases ctx <;> rw [hidx] at * <;> p_close
  case wRecv i0 cl hpc hcell hfull =>
    cases hx : cl.item <;> rw [hx] at * <;> p_close
  all_goals try p_close
  all_goals (trace_state; sorry)

set_option maxHeartbeats 4000000 in
theorem Inv3.step_b3e (I : Inv1 c s) (J : Inv2 c s) (K : Inv3 c s) (h : StepCase c s t lb s') :
    ∀ t' id, (s'.pc t').exec = some id → s'.loc id = .hand t' := by
  intro t' id hex
  have a1 := K.a1
  have a2 := K.a2
  have a3 := K.a3
  have a4 := K.a4
  have a5 := K.a5
  have b1 := K.b1
  have b2 := K.b2
  have b3c := K.b3c
  have b3e := K.b3e
  have a6 := K.a6
  have u := K.u
  have f1 := K.f1
  have f2 := K.f2
  have f3 := K.f3
  have f4 := K.f4
  have f5 := K.f5
  have f6 := K.f6
  have v2 := K.v2
  have t1 := K.t1
  have t2 := K.t2
  have t3a := K.t3a
  have t3b := K.t3b
  have t3c := K.t3c
  have l4 := J.l4
  have hwf := I.wf t
  have hx1 := carry_dispatchPc
  have hx2 := carry_onEmpty
  have hx3 := exec_onEmpty
  have hx4 := carry_markChain c
  have hx5 := markChain_exec c
  have hx6 := carry_afterStore c
  have hx7 := exec_afterStore c
  have hx8 := carry_afterSubmit c
  have hx9 := exec_afterSubmit c
  have hx10 := carry_afterSize c
  have hx11 := exec_afterSize c
  have hx12 := ne_wPre_afterSubmit c
  have hx13 := ne_wPre_afterSize c
  have hx14 := role_afterSubmit c
  have hx15 := role_afterSize c
  have hx16 := markChain_ne c
  have hk : ∀ p k, s.pc t = .gPub p k → k.carry = none ∧ ∀ y, k ≠ .wPre y := by
    intro p k hp; rw [hp] at hwf; exact ⟨carry_cont c none k hwf, cont_ne_wPre c none k hwf⟩
  have hk2 : ∀ x k, s.pc t = .gTake x k → k.carry = none ∧ ∀ y, k ≠ .wPre y := by
    intro x k hp; rw [hp] at hwf; exact ⟨carry_cont c _ k hwf, cont_ne_wPre c _ k hwf⟩
  clear I J K hwf
  cases h
  case popClaim ctx i0 k0 nr cl hpc hq hi hcell hfull =>
    have hit := (isTask_iff cl.item).mp (l4 k0 i0 cl hcell)
    obtain ⟨idx, hidx⟩ := hit
    cases ctx <;> rw [hidx] at * <;> p_close
  case wRecv i0 cl hpc hcell hfull =>
    cases hx : cl.item <;> rw [hx] at * <;> p_close
  all_goals try p_close
  all_goals (trace_state; sorry)

set_option maxHeartbeats 4000000 in
theorem Inv3.step_a6 (I : Inv1 c s) (J : Inv2 c s) (K : Inv3 c s) (h : StepCase c s t lb s') :
    ∀ t' a b, (s'.pc t').carry = some a → (s'.pc t').exec = some b → a ≠ b := by
  intro t' a b hcar hex
  have a1 := K.a1
  have a2 := K.a2
  have a3 := K.a3
  have a4 := K.a4
  have a5 := K.a5
  have b1 := K.b1
  have b2 := K.b2
  have b3c := K.b3c
  have b3e := K.b3e
  have a6 := K.a6
  have u := K.u
  have f1 := K.f1
  have f2 := K.f2
  have f3 := K.f3
  have f4 := K.f4
  have f5 := K.f5
  have f6 := K.f6
  have v2 := K.v2
  have t1 := K.t1
  have t2 := K.t2
  have t3a := K.t3a
  have t3b := K.t3b
  have t3c := K.t3c
  have l4 := J.l4
  have hwf := I.wf t
  have hx1 := carry_dispatchPc
  have hx2 := carry_onEmpty
  have hx3 := exec_onEmpty
  have hx4 := carry_markChain c
  have hx5 := markChain_exec c
  have hx6 := carry_afterStore c
  have hx7 := exec_afterStore c
  have hx8 := carry_afterSubmit c
  have hx9 := exec_afterSubmit c
  have hx10 := carry_afterSize c
  have hx11 := exec_afterSize c
  have hx12 := ne_wPre_afterSubmit c
  have hx13 := ne_wPre_afterSize c
  have hx14 := role_afterSubmit c
  have hx15 := role_afterSize c
  have hx16 := markChain_ne c
  have hk : ∀ p k, s.pc t = .gPub p k → k.carry = none ∧ ∀ y, k ≠ .wPre y := by
    intro p k hp; rw [hp] at hwf; exact ⟨carry_cont c none k hwf, cont_ne_wPre c none k hwf⟩
  have hk2 : ∀ x k, s.pc t = .gTake x k → k.carry = none ∧ ∀ y, k ≠ .wPre y := by
    intro x k hp; rw [hp] at hwf; exact ⟨carry_cont c _ k hwf, cont_ne_wPre c _ k hwf⟩
  clear I J K hwf
  cases h
  case popClaim ctx i0 k0 nr cl hpc hq hi hcell hfull =>
    have hit := (isTask_iff cl.item).mp (l4 k0 i0 cl hcell)
    obtain ⟨idx, hidx⟩ := hit
    cases ctx <;> rw [hidx] at * <;> p_close
  case wRecv i0 cl hpc hcell hfull =>
    cases hx : cl.item <;> rw [hx] at * <;> p_close
  all_goals try p_close
  all_goals (trace_state; sorry)

set_option maxHeartbeats 4000000 in
theorem Inv3.step_u (I : Inv1 c s) (J : Inv2 c s) (K : Inv3 c s) (h : StepCase c s t lb s') :
    ∀ id, runsOK s' id := by
  intro id
  have a1 := K.a1
  have a2 := K.a2
  have a3 := K.a3
  have a4 := K.a4
  have a5 := K.a5
  have b1 := K.b1
  have b2 := K.b2
  have b3c := K.b3c
  have b3e := K.b3e
  have a6 := K.a6
  have u := K.u
  have f1 := K.f1
  have f2 := K.f2
  have f3 := K.f3
  have f4 := K.f4
  have f5 := K.f5
  have f6 := K.f6
  have v2 := K.v2
  have t1 := K.t1
  have t2 := K.t2
  have t3a := K.t3a
  have t3b := K.t3b
  have t3c := K.t3c
  have l4 := J.l4
  have hwf := I.wf t
  have hx1 := carry_dispatchPc
  have hx2 := carry_onEmpty
  have hx3 := exec_onEmpty
  have hx4 := carry_markChain c
  have hx5 := markChain_exec c
  have hx6 := carry_afterStore c
  have hx7 := exec_afterStore c
  have hx8 := carry_afterSubmit c
  have hx9 := exec_afterSubmit c
  have hx10 := carry_afterSize c
  have hx11 := exec_afterSize c
  have hx12 := ne_wPre_afterSubmit c
  have hx13 := ne_wPre_afterSize c
  have hx14 := role_afterSubmit c
  have hx15 := role_afterSize c
  have hx16 := markChain_ne c
  have hk : ∀ p k, s.pc t = .gPub p k → k.carry = none ∧ ∀ y, k ≠ .wPre y := by
    intro p k hp; rw [hp] at hwf; exact ⟨carry_cont c none k hwf, cont_ne_wPre c none k hwf⟩
  have hk2 : ∀ x k, s.pc t = .gTake x k → k.carry = none ∧ ∀ y, k ≠ .wPre y := by
    intro x k hp; rw [hp] at hwf; exact ⟨carry_cont c _ k hwf, cont_ne_wPre c _ k hwf⟩
  clear I J K hwf
  cases h
  case popClaim ctx i0 k0 nr cl hpc hq hi hcell hfull =>
    have hit := (isTask_iff cl.item).mp (l4 k0 i0 cl hcell)
    obtain ⟨idx, hidx⟩ := hit
    cases ctx <;> rw [hidx] at * <;> p_close
  case wRecv i0 cl hpc hcell hfull =>
    cases hx : cl.item <;> rw [hx] at * <;> p_close
  all_goals try p_close
  all_goals (trace_state; sorry)

set_option maxHeartbeats 4000000 in
theorem Inv3.step_f1 (I : Inv1 c s) (J : Inv2 c s) (K : Inv3 c s) (h : StepCase c s t lb s') :
    ∀ id, s'.rejected id = true → s'.known id = false := by
  intro id hr
  have a1 := K.a1
  have a2 := K.a2
  have a3 := K.a3
  have a4 := K.a4
  have a5 := K.a5
  have b1 := K.b1
  have b2 := K.b2
  have b3c := K.b3c
  have b3e := K.b3e
  have a6 := K.a6
  have u := K.u
  have f1 := K.f1
  have f2 := K.f2
  have f3 := K.f3
  have f4 := K.f4
  have f5 := K.f5
  have f6 := K.f6
  have v2 := K.v2
  have t1 := K.t1
  have t2 := K.t2
  have t3a := K.t3a
  have t3b := K.t3b
  have t3c := K.t3c
  have l4 := J.l4
  have hwf := I.wf t
  have hx1 := carry_dispatchPc
  have hx2 := carry_onEmpty
  have hx3 := exec_onEmpty
  have hx4 := carry_markChain c
  have hx5 := markChain_exec c
  have hx6 := carry_afterStore c
  have hx7 := exec_afterStore c
  have hx8 := carry_afterSubmit c
  have hx9 := exec_afterSubmit c
  have hx10 := carry_afterSize c
  have hx11 := exec_afterSize c
  have hx12 := ne_wPre_afterSubmit c
  have hx13 := ne_wPre_afterSize c
  have hx14 := role_afterSubmit c
  have hx15 := role_afterSize c
  have hx16 := markChain_ne c
  have hk : ∀ p k, s.pc t = .gPub p k → k.carry = none ∧ ∀ y, k ≠ .wPre y := by
    intro p k hp; rw [hp] at hwf; exact ⟨carry_cont c none k hwf, cont_ne_wPre c none k hwf⟩
  have hk2 : ∀ x k, s.pc t = .gTake x k → k.carry = none ∧ ∀ y, k ≠ .wPre y := by
    intro x k hp; rw [hp] at hwf; exact ⟨carry_cont c _ k hwf, cont_ne_wPre c _ k hwf⟩
  clear I J K hwf
  cases h
  case popClaim ctx i0 k0 nr cl hpc hq hi hcell hfull =>
    have hit := (isTask_iff cl.item).mp (l4 k0 i0 cl hcell)
    obtain ⟨idx, hidx⟩ := hit
    cases ctx <;> rw [hidx] at * <;> p_close
  case wRecv i0 cl hpc hcell hfull =>
    cases hx : cl.item <;> rw [hx] at * <;> p_close
  all_goals try p_close
  all_goals (trace_state; sorry)

set_option maxHeartbeats 4000000 in
theorem Inv3.step_f2 (I : Inv1 c s) (J : Inv2 c s) (K : Inv3 c s) (h : StepCase c s t lb s') :
    ∀ id, s'.accepted id = true → s'.known id = true ∧ s'.futValid id = true := by
  intro id ha
  have a1 := K.a1
  have a2 := K.a2
  have a3 := K.a3
  have a4 := K.a4
  have a5 := K.a5
  have b1 := K.b1
  have b2 := K.b2
  have b3c := K.b3c
  have b3e := K.b3e
  have a6 := K.a6
  have u := K.u
  have f1 := K.f1
  have f2 := K.f2
  have f3 := K.f3
  have f4 := K.f4
  have f5 := K.f5
  have f6 := K.f6
  have v2 := K.v2
  have t1 := K.t1
  have t2 := K.t2
  have t3a := K.t3a
  have t3b := K.t3b
  have t3c := K.t3c
  have l4 := J.l4
  have hwf := I.wf t
  have hx1 := carry_dispatchPc
  have hx2 := carry_onEmpty
  have hx3 := exec_onEmpty
  have hx4 := carry_markChain c
  have hx5 := markChain_exec c
  have hx6 := carry_afterStore c
  have hx7 := exec_afterStore c
  have hx8 := carry_afterSubmit c
  have hx9 := exec_afterSubmit c
  have hx10 := carry_afterSize c
  have hx11 := exec_afterSize c
  have hx12 := ne_wPre_afterSubmit c
  have hx13 := ne_wPre_afterSize c
  have hx14 := role_afterSubmit c
  have hx15 := role_afterSize c
  have hx16 := markChain_ne c
  have hk : ∀ p k, s.pc t = .gPub p k → k.carry = none ∧ ∀ y, k ≠ .wPre y := by
    intro p k hp; rw [hp] at hwf; exact ⟨carry_cont c none k hwf, cont_ne_wPre c none k hwf⟩
  have hk2 : ∀ x k, s.pc t = .gTake x k → k.carry = none ∧ ∀ y, k ≠ .wPre y := by
    intro x k hp; rw [hp] at hwf; exact ⟨carry_cont c _ k hwf, cont_ne_wPre c _ k hwf⟩
  clear I J K hwf
  cases h
  case popClaim ctx i0 k0 nr cl hpc hq hi hcell hfull =>
    have hit := (isTask_iff cl.item).mp (l4 k0 i0 cl hcell)
    obtain ⟨idx, hidx⟩ := hit
    cases ctx <;> rw [hidx] at * <;> p_close
  case wRecv i0 cl hpc hcell hfull =>
    cases hx : cl.item <;> rw [hx] at * <;> p_close
  all_goals try p_close
  all_goals (trace_state; sorry)

set_option maxHeartbeats 4000000 in
theorem Inv3.step_f3 (I : Inv1 c s) (J : Inv2 c s) (K : Inv3 c s) (h : StepCase c s t lb s') :
    ∀ id, s'.done id = true → s'.futReady id = true := by
  intro id hd
  have a1 := K.a1
  have a2 := K.a2
  have a3 := K.a3
  have a4 := K.a4
  have a5 := K.a5
  have b1 := K.b1
  have b2 := K.b2
  have b3c := K.b3c
  have b3e := K.b3e
  have a6 := K.a6
  have u := K.u
  have f1 := K.f1
  have f2 := K.f2
  have f3 := K.f3
  have f4 := K.f4
  have f5 := K.f5
  have f6 := K.f6
  have v2 := K.v2
  have t1 := K.t1
  have t2 := K.t2
  have t3a := K.t3a
  have t3b := K.t3b
  have t3c := K.t3c
  have l4 := J.l4
  have hwf := I.wf t
  have hx1 := carry_dispatchPc
  have hx2 := carry_onEmpty
  have hx3 := exec_onEmpty
  have hx4 := carry_markChain c
  have hx5 := markChain_exec c
  have hx6 := carry_afterStore c
  have hx7 := exec_afterStore c
  have hx8 := carry_afterSubmit c
  have hx9 := exec_afterSubmit c
  have hx10 := carry_afterSize c
  have hx11 := exec_afterSize c
  have hx12 := ne_wPre_afterSubmit c
  have hx13 := ne_wPre_afterSize c
  have hx14 := role_afterSubmit c
  have hx15 := role_afterSize c
  have hx16 := markChain_ne c
  have hk : ∀ p k, s.pc t = .gPub p k → k.carry = none ∧ ∀ y, k ≠ .wPre y := by
    intro p k hp; rw [hp] at hwf; exact ⟨carry_cont c none k hwf, cont_ne_wPre c none k hwf⟩
  have hk2 : ∀ x k, s.pc t = .gTake x k → k.carry = none ∧ ∀ y, k ≠ .wPre y := by
    intro x k hp; rw [hp] at hwf; exact ⟨carry_cont c _ k hwf, cont_ne_wPre c _ k hwf⟩
  clear I J K hwf
  cases h
  case popClaim ctx i0 k0 nr cl hpc hq hi hcell hfull =>
    have hit := (isTask_iff cl.item).mp (l4 k0 i0 cl hcell)
    obtain ⟨idx, hidx⟩ := hit
    cases ctx <;> rw [hidx] at * <;> p_close
  case wRecv i0 cl hpc hcell hfull =>
    cases hx : cl.item <;> rw [hx] at * <;> p_close
  all_goals try p_close
  all_goals (trace_state; sorry)

set_option maxHeartbeats 4000000 in
theorem Inv3.step_f4 (I : Inv1 c s) (J : Inv2 c s) (K : Inv3 c s) (h : StepCase c s t lb s') :
    ∀ id, s'.futValid id = true → s'.accepted id = true := by
  intro id hv
  have a1 := K.a1
  have a2 := K.a2
  have a3 := K.a3
  have a4 := K.a4
  have a5 := K.a5
  have b1 := K.b1
  have b2 := K.b2
  have b3c := K.b3c
  have b3e := K.b3e
  have a6 := K.a6
  have u := K.u
  have f1 := K.f1
  have f2 := K.f2
  have f3 := K.f3
  have f4 := K.f4
  have f5 := K.f5
  have f6 := K.f6
  have v2 := K.v2
  have t1 := K.t1
  have t2 := K.t2
  have t3a := K.t3a
  have t3b := K.t3b
  have t3c := K.t3c
  have l4 := J.l4
  have hwf := I.wf t
  have hx1 := carry_dispatchPc
  have hx2 := carry_onEmpty
  have hx3 := exec_onEmpty
  have hx4 := carry_markChain c
  have hx5 := markChain_exec c
  have hx6 := carry_afterStore c
  have hx7 := exec_afterStore c
  have hx8 := carry_afterSubmit c
  have hx9 := exec_afterSubmit c
  have hx10 := carry_afterSize c
  have hx11 := exec_afterSize c
  have hx12 := ne_wPre_afterSubmit c
  have hx13 := ne_wPre_afterSize c
  have hx14 := role_afterSubmit c
  have hx15 := role_afterSize c
  have hx16 := markChain_ne c
  have hk : ∀ p k, s.pc t = .gPub p k → k.carry = none ∧ ∀ y, k ≠ .wPre y := by
    intro p k hp; rw [hp] at hwf; exact ⟨carry_cont c none k hwf, cont_ne_wPre c none k hwf⟩
  have hk2 : ∀ x k, s.pc t = .gTake x k → k.carry = none ∧ ∀ y, k ≠ .wPre y := by
    intro x k hp; rw [hp] at hwf; exact ⟨carry_cont c _ k hwf, cont_ne_wPre c _ k hwf⟩
  clear I J K hwf
  cases h
  case popClaim ctx i0 k0 nr cl hpc hq hi hcell hfull =>
    have hit := (isTask_iff cl.item).mp (l4 k0 i0 cl hcell)
    obtain ⟨idx, hidx⟩ := hit
    cases ctx <;> rw [hidx] at * <;> p_close
  case wRecv i0 cl hpc hcell hfull =>
    cases hx : cl.item <;> rw [hx] at * <;> p_close
  all_goals try p_close
  all_goals (trace_state; sorry)

set_option maxHeartbeats 4000000 in
theorem Inv3.step_f5 (I : Inv1 c s) (J : Inv2 c s) (K : Inv3 c s) (h : StepCase c s t lb s') :
    ∀ id, s'.preStop id = true → s'.accepted id = true := by
  intro id hp
  have a1 := K.a1
  have a2 := K.a2
  have a3 := K.a3
  have a4 := K.a4
  have a5 := K.a5
  have b1 := K.b1
  have b2 := K.b2
  have b3c := K.b3c
  have b3e := K.b3e
  have a6 := K.a6
  have u := K.u
  have f1 := K.f1
  have f2 := K.f2
  have f3 := K.f3
  have f4 := K.f4
  have f5 := K.f5
  have f6 := K.f6
  have v2 := K.v2
  have t1 := K.t1
  have t2 := K.t2
  have t3a := K.t3a
  have t3b := K.t3b
  have t3c := K.t3c
  have l4 := J.l4
  have hwf := I.wf t
  have hx1 := carry_dispatchPc
  have hx2 := carry_onEmpty
  have hx3 := exec_onEmpty
  have hx4 := carry_markChain c
  have hx5 := markChain_exec c
  have hx6 := carry_afterStore c
  have hx7 := exec_afterStore c
  have hx8 := carry_afterSubmit c
  have hx9 := exec_afterSubmit c
  have hx10 := carry_afterSize c
  have hx11 := exec_afterSize c
  have hx12 := ne_wPre_afterSubmit c
  have hx13 := ne_wPre_afterSize c
  have hx14 := role_afterSubmit c
  have hx15 := role_afterSize c
  have hx16 := markChain_ne c
  have hk : ∀ p k, s.pc t = .gPub p k → k.carry = none ∧ ∀ y, k ≠ .wPre y := by
    intro p k hp; rw [hp] at hwf; exact ⟨carry_cont c none k hwf, cont_ne_wPre c none k hwf⟩
  have hk2 : ∀ x k, s.pc t = .gTake x k → k.carry = none ∧ ∀ y, k ≠ .wPre y := by
    intro x k hp; rw [hp] at hwf; exact ⟨carry_cont c _ k hwf, cont_ne_wPre c _ k hwf⟩
  clear I J K hwf
  cases h
  case popClaim ctx i0 k0 nr cl hpc hq hi hcell hfull =>
    have hit := (isTask_iff cl.item).mp (l4 k0 i0 cl hcell)
    obtain ⟨idx, hidx⟩ := hit
    cases ctx <;> rw [hidx] at * <;> p_close
  case wRecv i0 cl hpc hcell hfull =>
    cases hx : cl.item <;> rw [hx] at * <;> p_close
  all_goals try p_close
  all_goals (trace_state; sorry)

set_option maxHeartbeats 4000000 in
theorem Inv3.step_f6 (I : Inv1 c s) (J : Inv2 c s) (K : Inv3 c s) (h : StepCase c s t lb s') :
    ∀ id, s'.viaLocal id = true → s'.known id = true := by
  intro id hv
  have a1 := K.a1
  have a2 := K.a2
  have a3 := K.a3
  have a4 := K.a4
  have a5 := K.a5
  have b1 := K.b1
  have b2 := K.b2
  have b3c := K.b3c
  have b3e := K.b3e
  have a6 := K.a6
  have u := K.u
  have f1 := K.f1
  have f2 := K.f2
  have f3 := K.f3
  have f4 := K.f4
  have f5 := K.f5
  have f6 := K.f6
  have v2 := K.v2
  have t1 := K.t1
  have t2 := K.t2
  have t3a := K.t3a
  have t3b := K.t3b
  have t3c := K.t3c
  have l4 := J.l4
  have hwf := I.wf t
  have hx1 := carry_dispatchPc
  have hx2 := carry_onEmpty
  have hx3 := exec_onEmpty
  have hx4 := carry_markChain c
  have hx5 := markChain_exec c
  have hx6 := carry_afterStore c
  have hx7 := exec_afterStore c
  have hx8 := carry_afterSubmit c
  have hx9 := exec_afterSubmit c
  have hx10 := carry_afterSize c
  have hx11 := exec_afterSize c
  have hx12 := ne_wPre_afterSubmit c
  have hx13 := ne_wPre_afterSize c
  have hx14 := role_afterSubmit c
  have hx15 := role_afterSize c
  have hx16 := markChain_ne c
  have hk : ∀ p k, s.pc t = .gPub p k → k.carry = none ∧ ∀ y, k ≠ .wPre y := by
    intro p k hp; rw [hp] at hwf; exact ⟨carry_cont c none k hwf, cont_ne_wPre c none k hwf⟩
  have hk2 : ∀ x k, s.pc t = .gTake x k → k.carry = none ∧ ∀ y, k ≠ .wPre y := by
    intro x k hp; rw [hp] at hwf; exact ⟨carry_cont c _ k hwf, cont_ne_wPre c _ k hwf⟩
  clear I J K hwf
  cases h
  case popClaim ctx i0 k0 nr cl hpc hq hi hcell hfull =>
    have hit := (isTask_iff cl.item).mp (l4 k0 i0 cl hcell)
    obtain ⟨idx, hidx⟩ := hit
    cases ctx <;> rw [hidx] at * <;> p_close
  case wRecv i0 cl hpc hcell hfull =>
    cases hx : cl.item <;> rw [hx] at * <;> p_close
  all_goals try p_close
  all_goals (trace_state; sorry)

set_option maxHeartbeats 4000000 in
theorem Inv3.step_v2 (I : Inv1 c s) (J : Inv2 c s) (K : Inv3 c s) (h : StepCase c s t lb s') :
    ∀ t' id, (s'.pc t').carry = some id → (s'.pc t').role ≠ .bal → s'.viaLocal id = false ∧ s'.accepted id = false := by
  intro t' id hcar hrole
  have a1 := K.a1
  have a2 := K.a2
  have a3 := K.a3
  have a4 := K.a4
  have a5 := K.a5
  have b1 := K.b1
  have b2 := K.b2
  have b3c := K.b3c
  have b3e := K.b3e
  have a6 := K.a6
  have u := K.u
  have f1 := K.f1
  have f2 := K.f2
  have f3 := K.f3
  have f4 := K.f4
  have f5 := K.f5
  have f6 := K.f6
  have v2 := K.v2
  have t1 := K.t1
  have t2 := K.t2
  have t3a := K.t3a
  have t3b := K.t3b
  have t3c := K.t3c
  have l4 := J.l4
  have hwf := I.wf t
  have hx1 := carry_dispatchPc
  have hx2 := carry_onEmpty
  have hx3 := exec_onEmpty
  have hx4 := carry_markChain c
  have hx5 := markChain_exec c
  have hx6 := carry_afterStore c
  have hx7 := exec_afterStore c
  have hx8 := carry_afterSubmit c
  have hx9 := exec_afterSubmit c
  have hx10 := carry_afterSize c
  have hx11 := exec_afterSize c
  have hx12 := ne_wPre_afterSubmit c
  have hx13 := ne_wPre_afterSize c
  have hx14 := role_afterSubmit c
  have hx15 := role_afterSize c
  have hx16 := markChain_ne c
  have hk : ∀ p k, s.pc t = .gPub p k → k.carry = none ∧ ∀ y, k ≠ .wPre y := by
    intro p k hp; rw [hp] at hwf; exact ⟨carry_cont c none k hwf, cont_ne_wPre c none k hwf⟩
  have hk2 : ∀ x k, s.pc t = .gTake x k → k.carry = none ∧ ∀ y, k ≠ .wPre y := by
    intro x k hp; rw [hp] at hwf; exact ⟨carry_cont c _ k hwf, cont_ne_wPre c _ k hwf⟩
  clear I J K hwf
  cases h
  case popClaim ctx i0 k0 nr cl hpc hq hi hcell hfull =>
    have hit := (isTask_iff cl.item).mp (l4 k0 i0 cl hcell)
    obtain ⟨idx, hidx⟩ := hit
    cases ctx <;> rw [hidx] at * <;> p_close
  case wRecv i0 cl hpc hcell hfull =>
    cases hx : cl.item <;> rw [hx] at * <;> p_close
  all_goals try p_close
  all_goals (trace_state; sorry)

set_option maxHeartbeats 4000000 in
theorem Inv3.step_t1 (I : Inv1 c s) (J : Inv2 c s) (K : Inv3 c s) (h : StepCase c s t lb s') :
    ∀ id i, s'.loc id = .gq i → s'.gTicket id = some i := by
  intro id i hl
  have a1 := K.a1
  have a2 := K.a2
  have a3 := K.a3
  have a4 := K.a4
  have a5 := K.a5
  have b1 := K.b1
  have b2 := K.b2
  have b3c := K.b3c
  have b3e := K.b3e
  have a6 := K.a6
  have u := K.u
  have f1 := K.f1
  have f2 := K.f2
  have f3 := K.f3
  have f4 := K.f4
  have f5 := K.f5
  have f6 := K.f6
  have v2 := K.v2
  have t1 := K.t1
  have t2 := K.t2
  have t3a := K.t3a
  have t3b := K.t3b
  have t3c := K.t3c
  have l4 := J.l4
  have hwf := I.wf t
  have hx1 := carry_dispatchPc
  have hx2 := carry_onEmpty
  have hx3 := exec_onEmpty
  have hx4 := carry_markChain c
  have hx5 := markChain_exec c
  have hx6 := carry_afterStore c
  have hx7 := exec_afterStore c
  have hx8 := carry_afterSubmit c
  have hx9 := exec_afterSubmit c
  have hx10 := carry_afterSize c
  have hx11 := exec_afterSize c
  have hx12 := ne_wPre_afterSubmit c
  have hx13 := ne_wPre_afterSize c
  have hx14 := role_afterSubmit c
  have hx15 := role_afterSize c
  have hx16 := markChain_ne c
  have hk : ∀ p k, s.pc t = .gPub p k → k.carry = none ∧ ∀ y, k ≠ .wPre y := by
    intro p k hp; rw [hp] at hwf; exact ⟨carry_cont c none k hwf, cont_ne_wPre c none k hwf⟩
  have hk2 : ∀ x k, s.pc t = .gTake x k → k.carry = none ∧ ∀ y, k ≠ .wPre y := by
    intro x k hp; rw [hp] at hwf; exact ⟨carry_cont c _ k hwf, cont_ne_wPre c _ k hwf⟩
  clear I J K hwf
  cases h
  case popClaim ctx i0 k0 nr cl hpc hq hi hcell hfull =>
    have hit := (isTask_iff cl.item).mp (l4 k0 i0 cl hcell)
    obtain ⟨idx, hidx⟩ := hit
    cases ctx <;> rw [hidx] at * <;> p_close
  case wRecv i0 cl hpc hcell hfull =>
    cases hx : cl.item <;> rw [hx] at * <;> p_close
  all_goals try p_close
  all_goals (trace_state; sorry)

set_option maxHeartbeats 4000000 in
theorem Inv3.step_t2 (I : Inv1 c s) (J : Inv2 c s) (K : Inv3 c s) (h : StepCase c s t lb s') :
    ∀ id i, s'.gTicket id = some i → i < s'.g.cells.length := by
  intro id i hg
  have a1 := K.a1
  have a2 := K.a2
  have a3 := K.a3
  have a4 := K.a4
  have a5 := K.a5
  have b1 := K.b1
  have b2 := K.b2
  have b3c := K.b3c
  have b3e := K.b3e
  have a6 := K.a6
  have u := K.u
  have f1 := K.f1
  have f2 := K.f2
  have f3 := K.f3
  have f4 := K.f4
  have f5 := K.f5
  have f6 := K.f6
  have v2 := K.v2
  have t1 := K.t1
  have t2 := K.t2
  have t3a := K.t3a
  have t3b := K.t3b
  have t3c := K.t3c
  have l4 := J.l4
  have hwf := I.wf t
  have hx1 := carry_dispatchPc
  have hx2 := carry_onEmpty
  have hx3 := exec_onEmpty
  have hx4 := carry_markChain c
  have hx5 := markChain_exec c
  have hx6 := carry_afterStore c
  have hx7 := exec_afterStore c
  have hx8 := carry_afterSubmit c
  have hx9 := exec_afterSubmit c
  have hx10 := carry_afterSize c
  have hx11 := exec_afterSize c
  have hx12 := ne_wPre_afterSubmit c
  have hx13 := ne_wPre_afterSize c
  have hx14 := role_afterSubmit c
  have hx15 := role_afterSize c
  have hx16 := markChain_ne c
  have hk : ∀ p k, s.pc t = .gPub p k → k.carry = none ∧ ∀ y, k ≠ .wPre y := by
    intro p k hp; rw [hp] at hwf; exact ⟨carry_cont c none k hwf, cont_ne_wPre c none k hwf⟩
  have hk2 : ∀ x k, s.pc t = .gTake x k → k.carry = none ∧ ∀ y, k ≠ .wPre y := by
    intro x k hp; rw [hp] at hwf; exact ⟨carry_cont c _ k hwf, cont_ne_wPre c _ k hwf⟩
  clear I J K hwf
  cases h
  case popClaim ctx i0 k0 nr cl hpc hq hi hcell hfull =>
    have hit := (isTask_iff cl.item).mp (l4 k0 i0 cl hcell)
    obtain ⟨idx, hidx⟩ := hit
    cases ctx <;> rw [hidx] at * <;> p_close
  case wRecv i0 cl hpc hcell hfull =>
    cases hx : cl.item <;> rw [hx] at * <;> p_close
  all_goals try p_close
  all_goals (trace_state; sorry)

set_option maxHeartbeats 4000000 in
theorem Inv3.step_t3a (I : Inv1 c s) (J : Inv2 c s) (K : Inv3 c s) (h : StepCase c s t lb s') :
    ∀ id, s'.loc id = .nowhere → s'.gTicket id = none := by
  intro id hl
  have a1 := K.a1
  have a2 := K.a2
  have a3 := K.a3
  have a4 := K.a4
  have a5 := K.a5
  have b1 := K.b1
  have b2 := K.b2
  have b3c := K.b3c
  have b3e := K.b3e
  have a6 := K.a6
  have u := K.u
  have f1 := K.f1
  have f2 := K.f2
  have f3 := K.f3
  have f4 := K.f4
  have f5 := K.f5
  have f6 := K.f6
  have v2 := K.v2
  have t1 := K.t1
  have t2 := K.t2
  have t3a := K.t3a
  have t3b := K.t3b
  have t3c := K.t3c
  have l4 := J.l4
  have hwf := I.wf t
  have hx1 := carry_dispatchPc
  have hx2 := carry_onEmpty
  have hx3 := exec_onEmpty
  have hx4 := carry_markChain c
  have hx5 := markChain_exec c
  have hx6 := carry_afterStore c
  have hx7 := exec_afterStore c
  have hx8 := carry_afterSubmit c
  have hx9 := exec_afterSubmit c
  have hx10 := carry_afterSize c
  have hx11 := exec_afterSize c
  have hx12 := ne_wPre_afterSubmit c
  have hx13 := ne_wPre_afterSize c
  have hx14 := role_afterSubmit c
  have hx15 := role_afterSize c
  have hx16 := markChain_ne c
  have hk : ∀ p k, s.pc t = .gPub p k → k.carry = none ∧ ∀ y, k ≠ .wPre y := by
    intro p k hp; rw [hp] at hwf; exact ⟨carry_cont c none k hwf, cont_ne_wPre c none k hwf⟩
  have hk2 : ∀ x k, s.pc t = .gTake x k → k.carry = none ∧ ∀ y, k ≠ .wPre y := by
    intro x k hp; rw [hp] at hwf; exact ⟨carry_cont c _ k hwf, cont_ne_wPre c _ k hwf⟩
  clear I J K hwf
  cases h
  case popClaim ctx i0 k0 nr cl hpc hq hi hcell hfull =>
    have hit := (isTask_iff cl.item).mp (l4 k0 i0 cl hcell)
    obtain ⟨idx, hidx⟩ := hit
    cases ctx <;> rw [hidx] at * <;> p_close
  case wRecv i0 cl hpc hcell hfull =>
    cases hx : cl.item <;> rw [hx] at * <;> p_close
  all_goals try p_close
  all_goals (trace_state; sorry)

set_option maxHeartbeats 4000000 in
theorem Inv3.step_t3b (I : Inv1 c s) (J : Inv2 c s) (K : Inv3 c s) (h : StepCase c s t lb s') :
    ∀ id k i, s'.loc id = .lq k i → s'.gTicket id = none := by
  intro id k i hl
  have a1 := K.a1
  have a2 := K.a2
  have a3 := K.a3
  have a4 := K.a4
  have a5 := K.a5
  have b1 := K.b1
  have b2 := K.b2
  have b3c := K.b3c
  have b3e := K.b3e
  have a6 := K.a6
  have u := K.u
  have f1 := K.f1
  have f2 := K.f2
  have f3 := K.f3
  have f4 := K.f4
  have f5 := K.f5
  have f6 := K.f6
  have v2 := K.v2
  have t1 := K.t1
  have t2 := K.t2
  have t3a := K.t3a
  have t3b := K.t3b
  have t3c := K.t3c
  have l4 := J.l4
  have hwf := I.wf t
  have hx1 := carry_dispatchPc
  have hx2 := carry_onEmpty
  have hx3 := exec_onEmpty
  have hx4 := carry_markChain c
  have hx5 := markChain_exec c
  have hx6 := carry_afterStore c
  have hx7 := exec_afterStore c
  have hx8 := carry_afterSubmit c
  have hx9 := exec_afterSubmit c
  have hx10 := carry_afterSize c
  have hx11 := exec_afterSize c
  have hx12 := ne_wPre_afterSubmit c
  have hx13 := ne_wPre_afterSize c
  have hx14 := role_afterSubmit c
  have hx15 := role_afterSize c
  have hx16 := markChain_ne c
  have hk : ∀ p k, s.pc t = .gPub p k → k.carry = none ∧ ∀ y, k ≠ .wPre y := by
    intro p k hp; rw [hp] at hwf; exact ⟨carry_cont c none k hwf, cont_ne_wPre c none k hwf⟩
  have hk2 : ∀ x k, s.pc t = .gTake x k → k.carry = none ∧ ∀ y, k ≠ .wPre y := by
    intro x k hp; rw [hp] at hwf; exact ⟨carry_cont c _ k hwf, cont_ne_wPre c _ k hwf⟩
  clear I J K hwf
  cases h
  case popClaim ctx i0 k0 nr cl hpc hq hi hcell hfull =>
    have hit := (isTask_iff cl.item).mp (l4 k0 i0 cl hcell)
    obtain ⟨idx, hidx⟩ := hit
    cases ctx <;> rw [hidx] at * <;> p_close
  case wRecv i0 cl hpc hcell hfull =>
    cases hx : cl.item <;> rw [hx] at * <;> p_close
  all_goals try p_close
  all_goals (trace_state; sorry)

set_option maxHeartbeats 4000000 in
theorem Inv3.step_t3c (I : Inv1 c s) (J : Inv2 c s) (K : Inv3 c s) (h : StepCase c s t lb s') :
    ∀ t' id, (s'.pc t').carry = some id → s'.gTicket id = none := by
  intro t' id hcar
  have a1 := K.a1
  have a2 := K.a2
  have a3 := K.a3
  have a4 := K.a4
  have a5 := K.a5
  have b1 := K.b1
  have b2 := K.b2
  have b3c := K.b3c
  have b3e := K.b3e
  have a6 := K.a6
  have u := K.u
  have f1 := K.f1
  have f2 := K.f2
  have f3 := K.f3
  have f4 := K.f4
  have f5 := K.f5
  have f6 := K.f6
  have v2 := K.v2
  have t1 := K.t1
  have t2 := K.t2
  have t3a := K.t3a
  have t3b := K.t3b
  have t3c := K.t3c
  have l4 := J.l4
  have hwf := I.wf t
  have hx1 := carry_dispatchPc
  have hx2 := carry_onEmpty
  have hx3 := exec_onEmpty
  have hx4 := carry_markChain c
  have hx5 := markChain_exec c
  have hx6 := carry_afterStore c
  have hx7 := exec_afterStore c
  have hx8 := carry_afterSubmit c
  have hx9 := exec_afterSubmit c
  have hx10 := carry_afterSize c
  have hx11 := exec_afterSize c
  have hx12 := ne_wPre_afterSubmit c
  have hx13 := ne_wPre_afterSize c
  have hx14 := role_afterSubmit c
  have hx15 := role_afterSize c
  have hx16 := markChain_ne c
  have hk : ∀ p k, s.pc t = .gPub p k → k.carry = none ∧ ∀ y, k ≠ .wPre y := by
    intro p k hp; rw [hp] at hwf; exact ⟨carry_cont c none k hwf, cont_ne_wPre c none k hwf⟩
  have hk2 : ∀ x k, s.pc t = .gTake x k → k.carry = none ∧ ∀ y, k ≠ .wPre y := by
    intro x k hp; rw [hp] at hwf; exact ⟨carry_cont c _ k hwf, cont_ne_wPre c _ k hwf⟩
  clear I J K hwf
  cases h
  case popClaim ctx i0 k0 nr cl hpc hq hi hcell hfull =>
    have hit := (isTask_iff cl.item).mp (l4 k0 i0 cl hcell)
    obtain ⟨idx, hidx⟩ := hit
    cases ctx <;> rw [hidx] at * <;> p_close
  case wRecv i0 cl hpc hcell hfull =>
    cases hx : cl.item <;> rw [hx] at * <;> p_close
  all_goals try p_close
  all_goals (trace_state; sorry)

end
end Babylon.Exec
