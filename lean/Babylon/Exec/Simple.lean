/-
  The two tiny executors of src/babylon/executor.cpp and the failing front end, event level.

  * `InplaceExecutor::invoke`: `RunnerScope scope{*this}; function(); return 0;` — the task runs on
    the submitting thread, inside the call; nested submissions nest.
  * `AlwaysUseNewThreadExecutor::invoke`: `_running.fetch_add(1)`; a detached thread runs
    `RunnerScope; function(); _running.fetch_sub(1)`; `join()` polls `_running.load() > 0`.
  * `BasicExecutor::invoke` (the base `Executor`): returns -1; `Executor::execute` then resets the
    future to an invalid one and the function is destroyed without being called.

  State machines over the events the harness emits (and, for the new-thread executor, the atomic
  operations on its `_running` counter, named `ntrun` in the trace).  Core Lean only.
-/
import Babylon.Core.Trace

namespace Babylon.Exec.Simple
open Babylon.Core

/-- one activation on a thread's stack (inplace executor) -/
inductive Frame
  | sub (id : Nat)        -- `execute(id)` called, function not started
  | run (id : Nat)        -- function running
  | fin (id : Nat)        -- function returned, `execute` not yet
  deriving DecidableEq, Repr, Inhabited

/-- program counter of a thread (new-thread executor) -/
inductive NPc
  | idle
  | nSub (id : Nat) (par : Option Nat)     -- submit called (from inside task `par`): next `fetch_add`
  | nSpawn (id : Nat) (par : Option Nat)   -- counter incremented: next the thread is created
  | nRet (id : Nat) (par : Option Nat)     -- thread created: next `accept`
  | tRun (id : Nat)       -- new thread: function running
  | tDec (id : Nat)       -- new thread: function returned, next `fetch_sub`
  | tExit                 -- new thread: about to exit
  | jPoll                 -- inside `join()`
  | jSeen0                -- `join()` loaded 0, about to return
  | exited
  deriving DecidableEq, Repr, Inhabited

structure State where
  stack : Nat → List Frame        -- inplace: activation stack per thread
  npc : Nat → NPc
  cnt : Nat                       -- `_running` of the new-thread executor
  spawned : List Nat              -- tasks whose thread was created and has not started the function
  known : Nat → Bool
  accepted : Nat → Bool
  rejected : Nat → Bool
  runs : Nat → Nat
  done : Nat → Bool
  ranOn : Nat → Option Nat        -- thread the function ran on
  preJoin : Nat → Bool            -- accepted before `join()` was called
  joinCalled : Bool
  joinReturned : Bool
  live : List Nat := []            -- ghost: tasks whose increment of `_running` has not been undone yet
  futReady : Nat → Bool := fun _ => false   -- the closure `invoke` received fulfils the promise right after the function returns
  bornFor : Nat → Option Nat := fun _ => none   -- thread → the task whose `invoke` created it (`::std::thread(...)`)
  subBy : Nat → Option Nat := fun _ => none     -- ghost: task → the thread that submitted it

def upd {α : Type} (f : Nat → α) (i : Nat) (v : α) : Nat → α := fun j => if j = i then v else f j

def State.init : State :=
  { stack := fun _ => [], npc := fun _ => .idle, cnt := 0, spawned := [], known := fun _ => false,
    accepted := fun _ => false, rejected := fun _ => false, runs := fun _ => 0, done := fun _ => false,
    ranOn := fun _ => none, preJoin := fun _ => false, joinCalled := false, joinReturned := false }

inductive Ev
  | submit (id : Nat) | run (id : Nat) (inp : Bool) | done (id : Nat) | accept (id : Nat) | reject (id : Nat)
  | inc (old : Nat) | dec (old : Nat) | spawn (u : Nat) | ldCnt (v : Nat) | joinBegin | joinEnd | exit | joinThread (u : Nat)
  deriving DecidableEq, Repr

def canSubmit : List Frame → Bool
  | [] => true
  | .run _ :: _ => true
  | _ => false

/-- inplace executor: one event of thread `t` -/
def stepInplace (s : State) (t : Nat) : Ev → Option State
  | .submit id =>
    if canSubmit (s.stack t) ∧ !s.known id ∧ !s.rejected id then
      some { s with stack := upd s.stack t (.sub id :: s.stack t), known := upd s.known id true }
    else none
  | .run id inp =>
    match s.stack t with
    | .sub id' :: rest =>
      if id' = id ∧ inp then
        some { s with stack := upd s.stack t (.run id :: rest), runs := upd s.runs id (s.runs id + 1),
                      ranOn := upd s.ranOn id (some t) }
      else none
    | _ => none
  | .done id =>
    match s.stack t with
    | .run id' :: rest =>
      if id' = id then some { s with stack := upd s.stack t (.fin id :: rest), done := upd s.done id true } else none
    | _ => none
  | .accept id =>
    match s.stack t with
    | .fin id' :: rest =>
      if id' = id then some { s with stack := upd s.stack t rest, accepted := upd s.accepted id true } else none
    | _ => none
  | .reject id =>
    if canSubmit (s.stack t) ∧ !s.known id ∧ !s.rejected id then some { s with rejected := upd s.rejected id true } else none
  | .exit => if s.stack t = [] then some s else none
  | .joinThread _ => some s
  | .spawn _ => some s
  | _ => none

/-- new-thread executor: one event / atomic operation of thread `t` -/
def stepNewThread (s : State) (t : Nat) : Ev → Option State
  | .submit id =>
    if !s.known id ∧ !s.rejected id then
      -- a task may submit further tasks; its own pc is restored by `accept`
      match s.npc t with
      | .idle => some { s with npc := upd s.npc t (.nSub id none), known := upd s.known id true, subBy := upd s.subBy id (some t) }
      | .tRun par => some { s with npc := upd s.npc t (.nSub id (some par)), known := upd s.known id true,
                                   subBy := upd s.subBy id (some t) }
      | _ => none
    else none
  | .inc old =>
    match s.npc t with
    | .nSub id par =>
      if old = s.cnt then some { s with npc := upd s.npc t (.nSpawn id par), cnt := s.cnt + 1, live := id :: s.live } else none
    | _ => none
  | .spawn u =>
    match s.npc t with
    | .nSpawn id par =>
      -- `::std::thread` creates a thread that has done nothing yet and was not created for another task
      if s.npc u = .idle ∧ s.bornFor u = none then
        some { s with npc := upd s.npc t (.nRet id par), spawned := id :: s.spawned, bornFor := upd s.bornFor u (some id) }
      else none
    | .idle => some s
    | _ => none
  | .accept id =>
    match s.npc t with
    | .nRet id' par =>
      if id' = id then
        some { s with npc := upd s.npc t (match par with | none => .idle | some p => .tRun p), accepted := upd s.accepted id true,
                      preJoin := upd s.preJoin id (!s.joinCalled) }
      else none
    | _ => none
  | .run id inp =>
    -- the created thread runs the captured function of the `invoke` that created it
    if s.npc t = .idle ∧ id ∈ s.spawned ∧ inp ∧ s.bornFor t = some id then
      some { s with npc := upd s.npc t (.tRun id), spawned := s.spawned.erase id,
                    runs := upd s.runs id (s.runs id + 1), ranOn := upd s.ranOn id (some t) }
    else none
  | .done id =>
    match s.npc t with
    | .tRun id' =>
      if id' = id then some { s with npc := upd s.npc t (.tDec id), done := upd s.done id true, futReady := upd s.futReady id true }
      else none
    | _ => none
  | .dec old =>
    match s.npc t with
    | .tDec id =>
      -- the decrement undoes the increment `invoke` made for this very task (guard `id ∈ live`)
      if old = s.cnt ∧ 0 < s.cnt ∧ id ∈ s.live then
        some { s with npc := upd s.npc t .tExit, cnt := s.cnt - 1, live := s.live.erase id }
      else none
    | _ => none
  | .exit =>
    match s.npc t with
    | .tExit => some { s with npc := upd s.npc t .exited }
    | .idle => some { s with npc := upd s.npc t .exited }
    | _ => none
  | .joinBegin => if s.npc t = .idle then some { s with npc := upd s.npc t .jPoll, joinCalled := true } else none
  | .ldCnt v =>
    match s.npc t with
    | .jPoll => if v = s.cnt then some { s with npc := upd s.npc t (if v = 0 then .jSeen0 else .jPoll) } else none
    | .idle => if v = s.cnt then some s else none      -- a poll outside the observed `join()`
    | _ => none
  | .joinEnd =>
    match s.npc t with
    | .jSeen0 => some { s with npc := upd s.npc t .idle, joinReturned := true }
    | _ => none
  | .reject id =>
    if s.npc t = .idle ∧ !s.known id ∧ !s.rejected id then some { s with rejected := upd s.rejected id true } else none
  | .joinThread _ => some s

def evOf (a : Act) : Except String (Option Ev) :=
  match a with
  | .ev ["submit", id, _] => match id.toNat? with | some id => .ok (some (.submit id)) | none => .error "bad event"
  | .ev ["run", id, inp] => match id.toNat? with | some id => .ok (some (.run id (inp == "in=1"))) | none => .error "bad event"
  | .ev ["done", id] => match id.toNat? with | some id => .ok (some (.done id)) | none => .error "bad event"
  | .ev ["accept", id] => match id.toNat? with | some id => .ok (some (.accept id)) | none => .error "bad event"
  | .ev ["reject", id] => match id.toNat? with | some id => .ok (some (.reject id)) | none => .error "bad event"
  | .ev ["join_begin"] => .ok (some .joinBegin)
  | .ev ["join_end"] => .ok (some .joinEnd)
  | .ev _ => .ok none
  | .rmw "add" "ntrun" 0 o old 1 => if o == .acqrel then .ok (some (.inc old)) else .error "memory order of the counter increment is not acq_rel"
  | .rmw "sub" "ntrun" 0 o old 1 => if o == .acqrel then .ok (some (.dec old)) else .error "memory order of the counter decrement is not acq_rel"
  | .ld "ntrun" 0 o v => if o == .acq then .ok (some (.ldCnt v)) else .error "memory order of the counter load is not acquire"
  | .spawn u => .ok (some (.spawn u))
  | .join u => .ok (some (.joinThread u))
  | .exit => .ok (some .exit)
  | .race _ => .error "race reported by the payload monitor"
  | a => .error s!"unexpected action {reprStr a}"

def stepAct (mode : String) (s : State) (t : Nat) (a : Act) : Except String State := do
  match ← evOf a with
  | none => return s
  | some e =>
    let r := if mode == "inplace" then stepInplace s t e else stepNewThread s t e
    match r with
    | some s' => return s'
    | none => throw s!"thread {t}: event {reprStr e} is not enabled in the {mode} model"

def final (mode : String) (s : State) : Except String Unit :=
  let ids := List.range 4096
  if mode == "inplace" then
    match ids.find? (fun id => s.accepted id && !(s.done id && s.runs id == 1)) with
    | some id => .error s!"model: inplace task {id} accepted but not run exactly once inside the call"
    | none => .ok ()
  else
    if !s.joinReturned then .ok () else
    match ids.find? (fun id => s.preJoin id && !(s.done id && s.runs id == 1)) with
    | some id => .error s!"model: join() returned but task {id} accepted before it is not done"
    | none => .ok ()

end Babylon.Exec.Simple
