/-
  `Inv6.c1`: the number of workers that have taken a STOP marker equals the number of received markers.
-/
import Babylon.Exec.Inv6Pres

namespace Babylon.Exec
open Babylon.Core

section
variable {c : Cfg} {s s' : State} {t : Nat} {lb : Lbl}

theorem Q.stAt_cell (q : Q) (i : Nat) (st : CellSt) (h : q.stAt i = some st) :
    ∃ cl, q.cells[i]? = some cl ∧ cl.st = st := by
  simp only [Q.stAt] at h
  cases hc : q.cells[i]? with
  | none => simp [hc] at h
  | some cl => exact ⟨cl, rfl, by simpa [hc] using h⟩

theorem doneB_eq (s : State) (w : Nat) : doneB s w = decide (s.pc w = .wStopping ∨ s.pc w = .exited) := by
  simp only [doneB]
  cases h1 : s.pc w == .wStopping <;> cases h2 : s.pc w == .exited <;> simp_all

/-- how one step changes "the stepping thread has taken its marker" and the count of received markers -/
theorem done_frame (I : Inv1 c s) (J : Inv2 c s) (h : StepCase c s t lb s') :
    (doneB s' t = doneB s t ∧ s'.g.recvd = s.g.recvd) ∨
    (doneB s t = false ∧ doneB s' t = true ∧ s'.g.recvd = s.g.recvd + 1 ∧ t ∈ c.workers) ∨
    (t ∉ c.workers ∧ s'.g.recvd = s.g.recvd) := by
  have hwf := I.wf t
  have hkx : ∀ p k, s.pc t = .gPub p k → k ≠ .wStopping ∧ k ≠ .exited := by
    intro p k hp; rw [hp] at hwf; exact ne_exit_cont c none k hwf
  have hidle : s.pc t = .idle → t ∉ c.workers := by
    intro hi hw; rcases I.r4 t hw with h1 | h1 <;> simp [hi, Pc.role] at h1
  have hbs : s.pc t = .bStopping → t ∉ c.workers := by
    intro hi hw; rcases I.r4 t hw with h1 | h1 <;> simp [hi, Pc.role] at h1
  have hx1 := ne_exit_markChain c
  have hx2 := ne_exit_afterStore c
  have hx3 := ne_exit_onEmpty
  have hx4 := ne_exit_afterSubmit c
  have hx5 := ne_exit_afterSize c
  have hx6 := ne_exit_afterLdRunS
  have hx7 := ne_exit_afterLdRunB
  have hx8 := ne_exit_afterJoinW c
  cases h
  case exitIdle hpc => right; right; exact ⟨hidle hpc, by simp [exec_proj]⟩
  case bExit hpc => right; right; exact ⟨hbs hpc, by simp [exec_proj]⟩
  case wExit hpc => left; simp [doneB_eq, hpc, exec_proj, upd_same]
  case wRecv i cl hpc hcell hfull =>
    have hw : t ∈ c.workers := I.r1 t (by rw [hpc]; rfl)
    have hr := Q.recvd_setSt s.g i .free cl hcell
    have h0 : recvB cl = false := by simp [recvB, hfull]
    cases hx : cl.item with
    | task id =>
      left
      simp [doneB_eq, hpc, dispatch, upd_same, hx, recvB, h0] at hr ⊢
      exact hr
    | stop =>
      right; left
      simp [doneB_eq, hpc, dispatch, upd_same, hx, recvB, hfull] at hr ⊢
      exact ⟨hr, hw⟩
    | wakeup =>
      left
      simp [doneB_eq, hpc, dispatch, upd_same, hx, recvB, h0] at hr ⊢
      exact hr
  case popClaim ctx i0 k0 nr cl hpc hq hi hcell hfull =>
    obtain ⟨idx, hidx⟩ := (isTask_iff cl.item).mp (J.l4 k0 i0 cl hcell)
    left
    cases ctx <;> simp [doneB_eq, hpc, hidx, PopCtx.onClaim, dispatch, forward, claimLocal, upd_same, Pc.role]
  case gPublish p k hpc hfree hst =>
    obtain ⟨cl, hcl, hclst⟩ := Q.stAt_cell _ _ _ hst
    have hr := Q.recvd_setSt s.g p .full cl hcl
    have h0 : recvB cl = false := by simp [recvB, hclst]
    have hk := hkx p k hpc
    left
    simp [doneB_eq, hpc, upd_same, recvB, hclst, hk.1, hk.2] at hr ⊢
    exact hr
  case bLdRun hpc =>
    left
    rcases hpc with hpc | ⟨k, hpc⟩ <;> simp [doneB_eq, hpc, exec_proj, upd_same, hx7]
  all_goals (
    left
    simp [doneB_eq, *, exec_proj, upd_same, Q.recvd_take, Q.recvd_bump, Q.bump_fold])

theorem Inv6.step_c1 (hc : c.WF) (I : Inv1 c s) (J : Inv2 c s) (K : Inv6 c s) (h : StepCase c s t lb s') :
    c.workers.countP (doneB s') = s'.g.recvd := by
  have hne : ∀ u, u ≠ t → doneB s' u = doneB s u := by
    intro u hu; simp only [doneB, pc_frame h u hu]
  have c1 := K.c1
  by_cases ht : t ∈ c.workers
  · have hcnt := countP_upd_mem hc.1 hne ht
    rcases done_frame I J h with ⟨h1, h2⟩ | ⟨h1, h2, h3, _⟩ | ⟨h1, _⟩
    · rw [h1] at hcnt; omega
    · rw [h1, h2] at hcnt; simp at hcnt; omega
    · exact absurd ht h1
  · have hcnt := countP_congr_upd hne ht
    rcases done_frame I J h with ⟨_, h2⟩ | ⟨_, _, _, h4⟩ | ⟨_, h2⟩
    · omega
    · exact absurd h4 ht
    · omega

theorem Inv6.step (hc : c.WF) (A : Inv c s) (K : Inv6 c s) (h : StepCase c s t lb s') : Inv6 c s' :=
  ⟨K.step_c1 hc A.i1 A.i2 h, K.step_c2 A.i1 A.i2 A.b h, K.step_c3 A.i1 A.i2 A.b h, K.step_c4 A.i1 A.i2 A.b h,
   K.step_c5 A.i1 A.i2 A.b h, K.step_w1 A.i1 A.i2 A.b h, K.step_w2 A.i1 A.i2 A.b h, K.step_w3 A.i1 A.i2 A.b h⟩

end

/-- all invariants, including the marker counts, hold in every reachable state -/
theorem Inv6.reachable {c : Cfg} (hc : c.WF) {s : State} (h : Reach c s) : Inv c s ∧ Inv6 c s := by
  refine Reachable.invariant (fun s => Inv c s ∧ Inv6 c s) ?_ ?_ s h
  · intro s hs; subst hs; exact ⟨Inv.init c hc, Inv6.init c⟩
  · intro s s' hI hstep
    obtain ⟨t, lb, hst⟩ := hstep
    exact ⟨hI.1.step (step_cases hst), hI.2.step hc hI.1 (step_cases hst)⟩

end Babylon.Exec
