/-
  Counting STOP markers: markers pushed, markers received, workers that have taken one.  Needed for the
  last step of deadlock freedom: while `stop()` joins the workers, every worker that has not received
  a marker still has one waiting for it in the global queue.
-/
import Babylon.Exec.InvAll

namespace Babylon.Exec
open Babylon.Core

/-- a cell holding a STOP marker -/
def stopB (cl : Cell) : Bool := cl.item == .stop
/-- a STOP marker that has been received -/
def recvB (cl : Cell) : Bool := cl.item == .stop && cl.st == .free

def Q.stops (q : Q) : Nat := q.cells.countP stopB
def Q.recvd (q : Q) : Nat := q.cells.countP recvB

/-- a worker that has received its marker -/
def doneB (s : State) (w : Nat) : Bool := s.pc w == .wStopping || s.pc w == .exited

theorem Q.stops_take (q : Q) (x : Item) : (q.take x).stops = q.stops + (if x = .stop then 1 else 0) := by
  cases x <;> simp [Q.stops, Q.take, List.countP_append, List.countP_cons, stopB]
theorem Q.recvd_take (q : Q) (x : Item) : (q.take x).recvd = q.recvd := by
  cases x <;> simp [Q.recvd, Q.take, List.countP_append, List.countP_cons, recvB]

theorem Q.stops_setSt (q : Q) (p : Nat) (st : CellSt) : (q.setSt p st).stops = q.stops := by
  simp only [Q.stops, Q.setSt]
  split
  · rename_i cl hc
    have hlt : p < q.cells.length := by
      rcases List.getElem?_eq_some_iff.mp hc with ⟨hl, _⟩; exact hl
    have hget : q.cells[p] = cl := by
      rcases List.getElem?_eq_some_iff.mp hc with ⟨_, he⟩; exact he
    rw [List.countP_set hlt, hget]
    have : stopB { item := cl.item, st := st } = stopB cl := by simp [stopB]
    rw [this]
    have hle : (if stopB cl = true then 1 else 0) ≤ List.countP stopB q.cells := by
      rw [← hget]; exact List.boole_getElem_le_countP hlt
    omega
  · rfl

theorem Q.recvd_setSt (q : Q) (p : Nat) (st : CellSt) (cl : Cell) (hc : q.cells[p]? = some cl) :
    (q.setSt p st).recvd + (if recvB cl then 1 else 0) = q.recvd + (if recvB ⟨cl.item, st⟩ then 1 else 0) := by
  simp only [Q.recvd, Q.setSt, hc]
  have hlt : p < q.cells.length := by
    rcases List.getElem?_eq_some_iff.mp hc with ⟨hl, _⟩; exact hl
  have hget : q.cells[p] = cl := by
    rcases List.getElem?_eq_some_iff.mp hc with ⟨_, he⟩; exact he
  rw [List.countP_set hlt, hget]
  have hle : (if recvB cl = true then 1 else 0) ≤ List.countP recvB q.cells := by
    rw [← hget]; exact List.boole_getElem_le_countP hlt
  omega

/-- received markers are markers -/
theorem Q.recvd_le_stops (q : Q) : q.recvd ≤ q.stops := by
  simp only [Q.recvd, Q.stops]
  induction q.cells with
  | nil => simp
  | cons a l ih =>
    simp only [List.countP_cons]
    by_cases h : recvB a = true
    · have : stopB a = true := by simp [recvB, stopB] at h ⊢; exact h.1
      simp [h, this]; omega
    · simp [h]; split <;> omega

/-- more markers than received ones: one of them is still in the queue (published or being pushed) -/
theorem exists_pending_list (l : List Cell) (h : l.countP recvB < l.countP stopB) :
    ∃ (j : Nat) (cl : Cell), l[j]? = some cl ∧ cl.item = .stop ∧ cl.st ≠ .free := by
  induction l with
  | nil => simp at h
  | cons a l ih =>
    simp only [List.countP_cons] at h
    by_cases hs : stopB a = true
    · by_cases hr : recvB a = true
      · simp only [hs, hr, if_true] at h
        obtain ⟨j, cl, h1, h2, h3⟩ := ih (by omega)
        exact ⟨j + 1, cl, by simpa using h1, h2, h3⟩
      · refine ⟨0, a, by simp, by simpa [stopB] using hs, ?_⟩
        intro hf; apply hr; simp [recvB, hf]; simpa [stopB] using hs
    · have hr : recvB a = false := by
        cases hra : recvB a with
        | false => rfl
        | true => exfalso; apply hs; simp [recvB] at hra; simp [stopB, hra.1]
      simp only [hs, hr] at h
      obtain ⟨j, cl, h1, h2, h3⟩ := ih (by simpa using h)
      exact ⟨j + 1, cl, by simpa using h1, h2, h3⟩

theorem Q.exists_pending (q : Q) (h : q.recvd < q.stops) :
    ∃ (j : Nat) (cl : Cell), q.cells[j]? = some cl ∧ cl.item = .stop ∧ cl.st ≠ .free :=
  exists_pending_list q.cells h

/-! ### counting over the (duplicate-free) list of workers -/

theorem countP_congr_upd {ws : List Nat} {f f' : Nat → Bool} {t : Nat} (hne : ∀ u, u ≠ t → f' u = f u)
    (ht : t ∉ ws) : ws.countP f' = ws.countP f := by
  induction ws with
  | nil => rfl
  | cons a l ih =>
    have ha : a ≠ t := fun e => ht (by simp [e])
    have hl : t ∉ l := fun h => ht (by simp [h])
    simp only [List.countP_cons, hne a ha, ih hl]

theorem countP_upd_mem {ws : List Nat} (hnd : ws.Nodup) {f f' : Nat → Bool} {t : Nat}
    (hne : ∀ u, u ≠ t → f' u = f u) (ht : t ∈ ws) :
    ws.countP f' + (if f t then 1 else 0) = ws.countP f + (if f' t then 1 else 0) := by
  induction ws with
  | nil => cases ht
  | cons a l ih =>
    simp only [List.nodup_cons] at hnd
    simp only [List.countP_cons]
    by_cases ha : a = t
    · subst ha
      have := countP_congr_upd (ws := l) hne hnd.1
      rw [this]; omega
    · have hl : t ∈ l := by
        rcases List.mem_cons.mp ht with h | h
        · exact absurd h.symm ha
        · exact h
      have := ih hnd.2 hl
      rw [hne a ha]; omega

theorem countP_lt_length {ws : List Nat} {f : Nat → Bool} {w : Nat} (hw : w ∈ ws) (hf : f w = false) :
    ws.countP f < ws.length := by
  induction ws with
  | nil => cases hw
  | cons a l ih =>
    simp only [List.countP_cons, List.length_cons]
    rcases List.mem_cons.mp hw with h | h
    · subst h; simp [hf]; exact Nat.lt_succ_of_le List.countP_le_length
    · have := ih h; split <;> omega

end Babylon.Exec
