/-
  View-level hand-off of the executors over the release/acquire VIEW memory model
  (Babylon/Core/MemView.lean, not edited): what the queue slot and the promise transfer.

  * `exec_task_view`: the submitter writes the task's state (plain), then pushes the task — the push
    completes with a releasing store / RMW on the slot word (order `oPush`; C01: the slot's version
    word); a worker's pop reads that very message with an acquiring load (`oPop`) and runs the task:
    every read of the task state by the running task returns the submitter's message or a later one,
    whatever else happens in between (`Mem.Ext`: any actions of any threads) and whichever admissible
    (possibly stale) message the view model offers.
  * `exec_result_view`: the task writes its result (plain), the promise publishes (releasing RMW on the
    future's state word: C08's `ordFutexXchg` / `ordSeal`), the thread returning from `future.get()` has
    read that message with an acquiring load (`ordGetLoad`): its reads of the result are no older than
    the task's write.
  Orders are hypotheses `.releases` / `.acquires`, discharged for the generated constants of C08;
  negative controls (relaxed push / relaxed pop admit the stale read) by `decide`.  Core Lean only.
-/
import Babylon.Core.MemView
import Babylon.Gen.Future

namespace Babylon.Exec.View
open Babylon.Core Babylon.Core.MemView

inductive Loc
  | slot              -- the word whose update completes a push (queue slot version) / a pop reads
  | fut               -- the future's state word
  | state (k : Nat)   -- task state written by the submitter
  | result (k : Nat)  -- result written by the task
  deriving DecidableEq, Repr

variable {L : Type} [DecidableEq L]

/-- a thread's own store stays in its view -/
theorem own_write_in_view (m : Mem L) (t : Nat) (d : L) (od : Core.Ord) (v : Nat) {m1 : Mem L}
    (hext : (m.write t d od v).Ext m1) : m.len d ≤ (m1.tv t).cur.get d := by
  have h2 := hext.cur t d
  simp [TView.wrote] at h2
  omega

/-- **Hand-off through a releasing store.**  `a` writes datum `d`, later completes a releasing store on
`l`; `b` acquire-loads that message, later reads `d` at any admissible timestamp `ts`: `ts` is `a`'s
message or a later one. -/
theorem handoff_store (m : Mem L) (a b : Nat) (d l : L) (od oR oA oD : Core.Ord) (v x : Nat)
    {m1 m2 m3 m4 m5 : Mem L} {x' v' ts : Nat}
    (hrel : oR.releases = true) (hacq : oA.acquires = true)
    (h1 : (m.write a d od v).Ext m1)
    (h2 : (m1.write a l oR x).Ext m2)
    (h3 : m2.read b l oA (m1.len l) = some (m3, x'))
    (h4 : m3.Ext m4)
    (h5 : m4.read b d oD ts = some (m5, v')) : x' = x ∧ m.len d ≤ ts := by
  obtain ⟨hx, hview⟩ := mp_release_acquire m1 a b l oR oA x hrel hacq h2 h3
  refine ⟨hx, ?_⟩
  have ha := own_write_in_view m a d od v h1
  have hb := hview d
  have hc := h4.cur b d
  have hr := read_respects_view h5
  omega

/-- **Hand-off through a releasing RMW** (acquiring load reads the RMW's message). -/
theorem handoff_rmw (m : Mem L) (a b : Nat) (d l : L) (od oR oA oD : Core.Ord) (v : Nat) (f : Nat → Nat)
    {m1 m2 m2' m3 m4 m5 : Mem L} {old x' v' ts : Nat}
    (hrel : oR.releases = true) (hacq : oA.acquires = true)
    (h1 : (m.write a d od v).Ext m1)
    (h2 : m1.rmw a l oR f = some (m2', old))
    (h2e : m2'.Ext m2)
    (h3 : m2.read b l oA (m1.len l) = some (m3, x'))
    (h4 : m3.Ext m4)
    (h5 : m4.read b d oD ts = some (m5, v')) : x' = f old ∧ m.len d ≤ ts := by
  obtain ⟨msg, W, _, hold, hh, _, _, _, hrelW, _⟩ := Mem.rmw_facts h2
  have hmsg : (m2'.hist l)[m1.len l]? = some ⟨f msg.val, W⟩ := by rw [hh]; simp [Mem.len]
  have hmsg2 := h2e.get? l _ _ hmsg
  obtain ⟨msg', hm, hv, _, rfl⟩ := Mem.read_spec h3
  rw [hmsg2] at hm
  cases hm
  refine ⟨by rw [hv, hold], ?_⟩
  have hview : (m1.tv a).cur ≤ (({ m2 with tv := upd m2.tv b ((m2.tv b).read ⟨f msg.val, W⟩ l (m1.len l) oA) } : Mem L).tv b).cur := by
    simp only [upd_same]
    exact View.le_trans (hrelW hrel) (TView.read_acquires (m2.tv b) ⟨f msg.val, W⟩ l (m1.len l) oA hacq)
  have ha := own_write_in_view m a d od v h1
  have hb := hview d
  have hc := h4.cur b d
  have hr := read_respects_view h5
  omega

/-- **exec_task_view** (push completed by a releasing store on the slot word). -/
theorem exec_task_view (m : Mem Loc) (sub wrk k : Nat) (oPush oPop od oD : Core.Ord) (v x : Nat)
    {m1 m2 m3 m4 m5 : Mem Loc} {x' v' ts : Nat}
    (hpush : oPush.releases = true) (hpop : oPop.acquires = true)
    (hstate : (m.write sub (.state k) od v).Ext m1)          -- the submitter writes the task state, then anything happens
    (hpushed : (m1.write sub .slot oPush x).Ext m2)          -- … the push completes, then anything happens
    (hpopped : m2.read wrk .slot oPop (m1.len .slot) = some (m3, x'))   -- the worker's pop reads that message
    (hrun : m3.Ext m4)                                       -- … runs the task, anything happens
    (hread : m4.read wrk (.state k) oD ts = some (m5, v')) :  -- the task reads its state
    m.len (.state k) ≤ ts :=
  (handoff_store m sub wrk (.state k) .slot od oPush oPop oD v x hpush hpop hstate hpushed hpopped hrun hread).2

/-- **exec_task_view**, push completed by a releasing RMW on the slot word -/
theorem exec_task_view_rmw (m : Mem Loc) (sub wrk k : Nat) (oPush oPop od oD : Core.Ord) (v : Nat) (f : Nat → Nat)
    {m1 m2 m2' m3 m4 m5 : Mem Loc} {old x' v' ts : Nat}
    (hpush : oPush.releases = true) (hpop : oPop.acquires = true)
    (hstate : (m.write sub (.state k) od v).Ext m1)
    (hpushed : m1.rmw sub .slot oPush f = some (m2', old)) (hthen : m2'.Ext m2)
    (hpopped : m2.read wrk .slot oPop (m1.len .slot) = some (m3, x'))
    (hrun : m3.Ext m4)
    (hread : m4.read wrk (.state k) oD ts = some (m5, v')) :
    m.len (.state k) ≤ ts :=
  (handoff_rmw m sub wrk (.state k) .slot od oPush oPop oD v f hpush hpop hstate hpushed hthen hpopped hrun hread).2

/-- **exec_result_view**: the task (thread `wrk`) writes result `k`, the promise publishes with a
releasing RMW on the future's state word (order `oSet`), the thread returning from `future.get()` has
acquire-loaded that message (`oGet`): its reads of the result are the task's write or later. -/
theorem exec_result_view (m : Mem Loc) (wrk getter k : Nat) (oSet oGet od oD : Core.Ord) (v : Nat) (f : Nat → Nat)
    {m1 m2 m2' m3 m4 m5 : Mem Loc} {old x' v' ts : Nat}
    (hset : oSet.releases = true) (hget : oGet.acquires = true)
    (hres : (m.write wrk (.result k) od v).Ext m1)
    (hpub : m1.rmw wrk .fut oSet f = some (m2', old)) (hthen : m2'.Ext m2)
    (hgot : m2.read getter .fut oGet (m1.len .fut) = some (m3, x'))
    (hafter : m3.Ext m4)
    (hread : m4.read getter (.result k) oD ts = some (m5, v')) :
    m.len (.result k) ≤ ts :=
  (handoff_rmw m wrk getter (.result k) .fut od oSet oGet oD v f hset hget hres hpub hthen hgot hafter hread).2

/-- the orders written in the promise / future code (C08's generated constants) satisfy the hypotheses -/
theorem future_ords_ok :
    Gen.Future.ordFutexXchg.releases = true ∧ Gen.Future.ordSeal.releases = true ∧
    Gen.Future.ordGetLoad.acquires = true ∧ Gen.Future.ordWaitLoad.acquires = true := by decide

/-- `exec_result_view` instantiated with the generated orders -/
theorem exec_result_view_code (m : Mem Loc) (wrk getter k : Nat) (od oD : Core.Ord) (v : Nat) (f : Nat → Nat)
    {m1 m2 m2' m3 m4 m5 : Mem Loc} {old x' v' ts : Nat}
    (hres : (m.write wrk (.result k) od v).Ext m1)
    (hpub : m1.rmw wrk .fut Gen.Future.ordFutexXchg f = some (m2', old)) (hthen : m2'.Ext m2)
    (hgot : m2.read getter .fut Gen.Future.ordGetLoad (m1.len .fut) = some (m3, x'))
    (hafter : m3.Ext m4)
    (hread : m4.read getter (.result k) oD ts = some (m5, v')) :
    m.len (.result k) ≤ ts :=
  exec_result_view m wrk getter k _ _ od oD v f future_ords_ok.1 future_ords_ok.2.2.1 hres hpub hthen hgot hafter hread

/-! ### Negative controls: concrete executions of the view model -/

/-- submitter (thread 1) writes task state 0 := 7 (message 1), pushes with a store of order `oPush`;
worker (thread 2) pops with a load of order `oPop` reading the push's message, then reads the task state
at timestamp `stale` (0 = the initial message).  `none` = that read is not admissible. -/
def taskRun (oPush oPop : Core.Ord) (stale : Nat) : Option Nat := do
  let m0 : Mem Loc := Mem.init (fun _ => 0)
  let m1 := m0.write 1 (.state 0) .rlx 7
  let m2 := m1.write 1 .slot oPush 1
  let (m3, _) ← m2.read 2 .slot oPop 1
  let (_, v) ← m3.read 2 (.state 0) .rlx stale
  pure v

/-- the same for the result: the task (thread 2) writes result 0 := 9, publishes with an exchange of
order `oSet`; the getter (thread 3) loads the state word with `oGet`, reads the result at `stale` -/
def resultRun (oSet oGet : Core.Ord) (stale : Nat) : Option Nat := do
  let m0 : Mem Loc := Mem.init (fun _ => 0)
  let m1 := m0.write 2 (.result 0) .rlx 9
  let (m2, _) ← m1.rmw 2 .fut oSet (fun _ => 1)
  let (m3, _) ← m2.read 3 .fut oGet 1
  let (_, v) ← m3.read 3 (.result 0) .rlx stale
  pure v

/-- with release / acquire the stale read is not admissible and the fresh one returns the written value;
with a relaxed push, or a relaxed pop, the stale initial value CAN be read -/
theorem task_controls :
    taskRun .rel .acq 0 = none ∧ taskRun .rel .acq 1 = some 7 ∧
    taskRun .rlx .acq 0 = some 0 ∧ taskRun .rel .rlx 0 = some 0 := by decide

theorem result_controls :
    resultRun Gen.Future.ordFutexXchg Gen.Future.ordGetLoad 0 = none ∧
    resultRun Gen.Future.ordFutexXchg Gen.Future.ordGetLoad 1 = some 9 ∧
    resultRun .rlx .acq 0 = some 0 ∧ resultRun .rel .rlx 0 = some 0 := by decide

end Babylon.Exec.View
