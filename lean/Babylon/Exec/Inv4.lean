/-
  Fourth layer of invariants: the phases of `stop()` — the balance thread is joined before the
  first STOP marker, everything accepted before `stop()` or pushed into a local queue has a global
  ticket in front of the first marker (if it ever gets one), the joins, and the ticket a worker
  returned on.
-/
import Babylon.Exec.Inv3
import Babylon.Exec.Inv2b

namespace Babylon.Exec
open Babylon.Core

/-- the balance thread (if there is one) has returned -/
def balExited (c : Cfg) (s : State) : Prop := ∀ b, c.bal = some b → s.pc b = .exited

/-- inside `stop()`, past the join of the balance thread -/
def Pc.pastB : Pc → Bool
  | .sJoinW _ | .sEnd => true
  | .gTake _ k => Pc.pastB k
  | .gPub _ k => Pc.pastB k
  | _ => false

theorem pastB_markChain (c : Cfg) (n : Nat) : (markChain c n).pastB = true := by
  induction n with
  | zero => simp only [markChain]; split <;> rfl
  | succ n ih => simpa [markChain, Pc.pastB] using ih

/-- a continuation of a push of `STOP` that is not the balance thread's is the chain of `stop()` -/
theorem contOK_stop_role (c : Cfg) (k : Pc) (h : ContOK c (some .stop) k) (hb : ∀ k', k ≠ .bSweep k') :
    k.role = .stopper ∧ k.pastB = true := by
  have hk : ∃ n, k = markChain c n := by
    cases k <;> first
      | exact h.2
      | (exfalso; simp [ContOK] at h; done)
      | (exfalso; exact hb _ rfl)
  obtain ⟨n, hn⟩ := hk
  rw [hn]; exact ⟨markChain_role c n, pastB_markChain c n⟩

theorem pastB_cont (c : Cfg) (x : Option Item) (k : Pc) (h : ContOK c x k) (hp : k.pastB = true) : k.role = .stopper := by
  have hk : ∃ n, k = markChain c n := by
    cases k <;> first
      | exact h.2
      | (exfalso; simp [Pc.pastB] at hp; done)
  obtain ⟨n, hn⟩ := hk
  rw [hn]; exact markChain_role c n

theorem pastB_role (c : Cfg) (p : Pc) (hwf : PcWF c p) (h : p.pastB = true) : p.role = .stopper := by
  cases p <;> first
    | rfl
    | (exfalso; simp [Pc.pastB] at h; done)
    | (simp only [Pc.role]; exact pastB_cont c _ _ hwf (by simpa [Pc.pastB] using h))

theorem pastB_dispatchPc (x : Item) : (dispatchPc x).pastB = false := by cases x <;> rfl
theorem pastB_claimPc (ctx : PopCtx) (x : Item) : (claimPc ctx x).pastB = false := by cases ctx <;> cases x <;> rfl
theorem pastB_onEmpty (ctx : PopCtx) : ctx.onEmpty.pastB = false := by cases ctx <;> rfl
theorem pastB_afterSubmit (c : Cfg) (b : Bool) (id cid : Nat) : (afterSubmit c b id cid).pastB = false := by
  unfold afterSubmit; split <;> rfl
theorem pastB_afterSize (c : Cfg) (p a id cid : Nat) : (afterSize c p a id cid).pastB = false := by
  unfold afterSize; split <;> rfl
theorem pastB_afterLdRunB (v : Bool) : (afterLdRunB v).pastB = false := by cases v <;> rfl
theorem pastB_afterLdRunS_true : (afterLdRunS true).pastB = false := rfl
theorem pastB_afterJoinW (c : Cfg) (n : Nat) : (afterJoinW c n).pastB = true := by unfold afterJoinW; split <;> rfl
theorem pastB_afterStore (c : Cfg) : (afterStore c).pastB = true → c.bal = none := by
  unfold afterStore; split
  · intro h; cases h
  · intro _; cases hb : c.bal <;> simp_all
theorem markChain_sJoinW (c : Cfg) (n m : Nat) (h : markChain c n = .sJoinW m) : m = 0 := by
  rcases markChain_cases c n with h1 | h1 | ⟨k, h1⟩ <;> rw [h1] at h <;> cases h; rfl
theorem markChain_sEnd (c : Cfg) (n : Nat) (h : markChain c n = .sEnd) : c.workers = [] := by
  cases n with
  | zero => simp only [markChain] at h; split at h
            · rename_i he; simpa using he
            · cases h
  | succ n => cases h
theorem afterStore_sJoinW (c : Cfg) (m : Nat) (h : afterStore c = .sJoinW m) : m = 0 := by
  unfold afterStore at h; split at h
  · cases h
  · exact markChain_sJoinW c _ m h
theorem afterStore_sEnd (c : Cfg) (h : afterStore c = .sEnd) : c.workers = [] ∧ c.bal = none := by
  unfold afterStore at h; split at h
  · cases h
  · rename_i hb; exact ⟨markChain_sEnd c _ h, by cases hc : c.bal <;> simp_all⟩
theorem afterJoinW_sJoinW (c : Cfg) (n m : Nat) (h : afterJoinW c n = .sJoinW m) : m = n + 1 := by
  unfold afterJoinW at h; split at h
  · injection h with h; exact h.symm
  · cases h
theorem afterJoinW_sEnd (c : Cfg) (n : Nat) (h : afterJoinW c n = .sEnd) : c.workers.length ≤ n + 1 := by
  unfold afterJoinW at h; split at h
  · cases h
  · omega
/-! ### none of the helper program counters is `wStopping` / `exited` (except `dispatchPc STOP`) -/
theorem ne_exit_markChain (c : Cfg) (n : Nat) : markChain c n ≠ .wStopping ∧ markChain c n ≠ .exited := by
  rcases markChain_cases c n with h | h | ⟨m, h⟩ <;> simp [h]
theorem ne_exit_afterStore (c : Cfg) : afterStore c ≠ .wStopping ∧ afterStore c ≠ .exited := by
  unfold afterStore; split
  · simp
  · exact ne_exit_markChain c _
theorem ne_exit_cont (c : Cfg) (x : Option Item) (k : Pc) (h : ContOK c x k) : k ≠ .wStopping ∧ k ≠ .exited := by
  cases k <;> first
    | (simp; done)
    | (exfalso; obtain ⟨_, n, hn⟩ := h; have := ne_exit_markChain c n; rw [← hn] at this; simp at this; done)
    | (obtain ⟨_, n, hn⟩ := h; rw [hn]; exact ne_exit_markChain c n)
theorem ne_exit_onEmpty (ctx : PopCtx) : ctx.onEmpty ≠ .wStopping ∧ ctx.onEmpty ≠ .exited := by
  cases ctx <;> simp [PopCtx.onEmpty]
theorem ne_exit_afterSubmit (c : Cfg) (b : Bool) (id cid : Nat) :
    afterSubmit c b id cid ≠ .wStopping ∧ afterSubmit c b id cid ≠ .exited := by
  unfold afterSubmit; split <;> simp
theorem ne_exit_afterSize (c : Cfg) (p a id cid : Nat) :
    afterSize c p a id cid ≠ .wStopping ∧ afterSize c p a id cid ≠ .exited := by
  unfold afterSize; split <;> simp
theorem ne_exit_afterLdRunS (v : Bool) : afterLdRunS v ≠ .wStopping ∧ afterLdRunS v ≠ .exited := by
  cases v <;> simp [afterLdRunS]
theorem ne_exit_afterLdRunB (v : Bool) : afterLdRunB v ≠ .wStopping ∧ afterLdRunB v ≠ .exited := by
  cases v <;> simp [afterLdRunB]
theorem ne_exit_afterJoinW (c : Cfg) (n : Nat) : afterJoinW c n ≠ .wStopping ∧ afterJoinW c n ≠ .exited := by
  unfold afterJoinW; split <;> simp
theorem noteMarker_some (fm : Option Nat) (p j0 : Nat) (h : noteMarker fm p = some j0) :
    (fm = none ∧ j0 = p) ∨ fm = some j0 := by
  cases fm <;> simp_all [noteMarker]
theorem noteMarker_ne_none (fm : Option Nat) (p : Nat) : noteMarker fm p ≠ none := by
  cases fm <;> simp [noteMarker]

@[simp, exec_proj] theorem onClaim_exitTicket_task (s : State) (t id : Nat) (ctx : PopCtx) :
    (ctx.onClaim s t (.task id)).exitTicket = s.exitTicket := by cases ctx <;> rfl
/-- the continuation of the last marker push joins the first worker, or returns when there is none -/
theorem cont_join (c : Cfg) (x : Option Item) (k : Pc) (h : ContOK c x k) :
    (∀ n, k = .sJoinW n → n = 0) ∧ (k = .sEnd → c.workers = []) := by
  constructor
  · intro n hk
    subst hk
    obtain ⟨_, m, hm⟩ := h
    exact markChain_sJoinW c m n hm.symm
  · intro hk
    subst hk
    obtain ⟨_, m, hm⟩ := h
    exact markChain_sEnd c m hm.symm

theorem mem_getElem? (l : List Nat) (u : Nat) (h : u ∈ l) : ∃ m, m < l.length ∧ l[m]? = some u := by
  obtain ⟨m, hm, he⟩ := List.mem_iff_getElem.mp h
  exact ⟨m, hm, by simp [hm, he]⟩

structure Inv4 (c : Cfg) (s : State) : Prop where
  m1 : s.firstMarker ≠ none → s.stopCalled = true ∧ balExited c s
  m2 : ∀ j, s.g.itemAt j = some .stop → s.firstMarker ≠ none ∧ ∀ j0, s.firstMarker = some j0 → j0 ≤ j
  m3 : ∀ id i j, (s.preStop id = true ∨ s.viaLocal id = true) → s.gTicket id = some i → s.firstMarker = some j → i < j
  m4 : ∀ j0, s.firstMarker = some j0 → j0 < s.g.cells.length
  m7 : ∀ t, (s.pc t).pastB = true → balExited c s
  j1 : ∀ t n, s.pc t = .sJoinW n → ∀ m u, m < n → c.workers[m]? = some u → s.pc u = .exited
  j2 : ∀ t, s.pc t = .sEnd → (∀ u, u ∈ c.workers → s.pc u = .exited) ∧ balExited c s
  j3 : s.stopReturned = true → (∀ u, u ∈ c.workers → s.pc u = .exited) ∧ balExited c s
  e1 : ∀ w, (s.pc w = .wStopping ∨ (s.pc w = .exited ∧ w ∈ c.workers)) →
        s.exitTicket w ≠ none ∧ ∀ j, s.exitTicket w = some j → s.g.itemAt j = some .stop ∧ s.g.stAt j = some .free

theorem Inv4.init (c : Cfg) : Inv4 c (State.init c) := by
  have hp := init_pc c
  refine ⟨?_, ?_, ?_, ?_, ?_, ?_, ?_, ?_, ?_⟩
  · intro h; simp [State.init] at h
  · intro j h; simp [State.init, Q.itemAt] at h
  · intro id i j _ h; simp [State.init] at h
  · intro j0 h; simp [State.init] at h
  · intro t h; rcases hp t with h1 | h1 | h1 <;> rw [h1] at h <;> simp [Pc.pastB] at h
  · intro t n h; rcases hp t with h1 | h1 | h1 <;> rw [h1] at h <;> cases h
  · intro t h; rcases hp t with h1 | h1 | h1 <;> rw [h1] at h <;> cases h
  · intro h; simp [State.init] at h
  · intro w h
    rcases hp w with h1 | h1 | h1 <;> rw [h1] at h <;> simp at h

/-- a thread that has returned stays returned: no step is enabled at `exited` -/
theorem exited_stable {c : Cfg} {s s' : State} {t : Nat} {lb : Lbl} (h : StepCase c s t lb s') (u : Nat)
    (hu : s.pc u = .exited) : s'.pc u = .exited := by
  have hne : u ≠ t := by
    intro e; subst e
    cases h <;> simp_all
  rw [pc_frame h u hne]; exact hu

theorem balExited_stable {c : Cfg} {s s' : State} {t : Nat} {lb : Lbl} (h : StepCase c s t lb s')
    (hb : balExited c s) : balExited c s' :=
  fun b hbb => exited_stable h b (hb b hbb)

end Babylon.Exec
