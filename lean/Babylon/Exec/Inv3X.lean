/-
  A submitting thread that has taken its push ticket: the task is known, not yet accepted, and has
  either a global ticket or went into a local queue; at most one thread is in that position per task.
-/
import Babylon.Exec.Inv3

namespace Babylon.Exec
open Babylon.Core

/-- the task whose push ticket this submitting thread has taken (the call has not returned yet) -/
def Pc.pushed : Pc → Option Nat
  | .xRet id => some id
  | .rRet _ cid => some cid
  | .rLPub _ cid _ => some cid
  | .gPub _ k => Pc.pushed k
  | _ => none

theorem pushed_markChain (c : Cfg) (n : Nat) : (markChain c n).pushed = none := by
  rcases markChain_cases c n with h | h | ⟨m, h⟩ <;> simp [h, Pc.pushed]
theorem pushed_afterStore (c : Cfg) : (afterStore c).pushed = none := by
  unfold afterStore; split
  · rfl
  · exact pushed_markChain c _
theorem pushed_dispatchPc (x : Item) : (dispatchPc x).pushed = none := by cases x <;> rfl
theorem pushed_claimPc (ctx : PopCtx) (x : Item) : (claimPc ctx x).pushed = none := by cases ctx <;> cases x <;> rfl
theorem pushed_onEmpty (ctx : PopCtx) : ctx.onEmpty.pushed = none := by cases ctx <;> rfl
theorem pushed_afterSubmit (c : Cfg) (b : Bool) (id cid : Nat) : (afterSubmit c b id cid).pushed = none := by
  unfold afterSubmit; split <;> rfl
theorem pushed_afterSize (c : Cfg) (p a id cid : Nat) : (afterSize c p a id cid).pushed = none := by
  unfold afterSize; split <;> rfl
theorem pushed_afterLdRunS (v : Bool) : (afterLdRunS v).pushed = none := by cases v <;> rfl
theorem pushed_afterLdRunB (v : Bool) : (afterLdRunB v).pushed = none := by cases v <;> rfl
theorem pushed_afterJoinW (c : Cfg) (n : Nat) : (afterJoinW c n).pushed = none := by unfold afterJoinW; split <;> rfl
/-- what a well-formed continuation of a push of `x` will have pushed -/
theorem pushed_cont (c : Cfg) (x : Item) (k : Pc) (h : ContOK c (some x) k) :
    k.pushed = none ∨ ∃ id, x = .task id ∧ k.pushed = some id := by
  cases k <;> first
    | (simp [ContOK] at h; simp [Pc.pushed, h]; done)
    | (left; obtain ⟨_, n, hn⟩ := h; rw [hn]; exact pushed_markChain c n)

/-- a continuation that has pushed a task is a submitter's, not the balance thread's -/
theorem pushed_cont_role (c : Cfg) (x : Option Item) (k : Pc) (h : ContOK c x k) (id : Nat) (hp : k.pushed = some id) :
    k.role ≠ .bal := by
  cases k <;> first
    | (simp [Pc.role]; done)
    | (exfalso; simp [Pc.pushed] at hp; done)
    | (exfalso; obtain ⟨_, n, hn⟩ := h; rw [hn, pushed_markChain] at hp; cases hp)

structure Inv3X (s : State) : Prop where
  x1 : ∀ t id, (s.pc t).pushed = some id →
        s.known id = true ∧ s.accepted id = false ∧ (s.gTicket id ≠ none ∨ s.viaLocal id = true)
  x2 : ∀ t1 t2 id, (s.pc t1).pushed = some id → (s.pc t2).pushed = some id → t1 = t2

theorem Inv3X.init (c : Cfg) : Inv3X (State.init c) := by
  have hp := init_pc c
  have hc : ∀ t, ((State.init c).pc t).pushed = none := by
    intro t; rcases hp t with h | h | h <;> rw [h] <;> rfl
  refine ⟨?_, ?_⟩
  · intro t id h; rw [hc t] at h; cases h
  · intro t1 t2 id h; rw [hc t1] at h; cases h

end Babylon.Exec
