/-
  Invariants of the inplace-executor machine of `Babylon/Exec/Simple.lean`: a task accepted by
  `InplaceExecutor` has run exactly once, on the submitting thread, before `execute` returned; a
  rejected submission never runs.
-/
import Babylon.Exec.Simple
import Babylon.Core.Reach

namespace Babylon.Exec.Simple
open Babylon.Core

/-- the id a frame is about -/
def Frame.id : Frame → Nat
  | .sub id | .run id | .fin id => id

/-- transition relation of the inplace machine -/
def StepI (s s' : State) : Prop := ∃ t e, stepInplace s t e = some s'

structure InvI (s : State) : Prop where
  k1 : ∀ t f, f ∈ s.stack t → s.known f.id = true ∧ s.accepted f.id = false
  k2 : ∀ t, ((s.stack t).map Frame.id).Nodup
  k3 : ∀ t t' f f', f ∈ s.stack t → f' ∈ s.stack t' → f.id = f'.id → t = t'
  k4 : ∀ t id, Frame.sub id ∈ s.stack t → s.runs id = 0 ∧ s.done id = false
  k5 : ∀ t id, Frame.run id ∈ s.stack t → s.runs id = 1 ∧ s.done id = false ∧ s.ranOn id = some t
  k6 : ∀ t id, Frame.fin id ∈ s.stack t → s.runs id = 1 ∧ s.done id = true ∧ s.ranOn id = some t
  k7 : ∀ id, s.accepted id = true → s.runs id = 1 ∧ s.done id = true ∧ s.known id = true
  k8 : ∀ id, s.known id = false → s.runs id = 0 ∧ s.done id = false ∧ s.accepted id = false
  k9 : ∀ id, s.rejected id = true → s.known id = false

theorem InvI.init : InvI State.init := by
  refine ⟨?_, ?_, ?_, ?_, ?_, ?_, ?_, ?_, ?_⟩ <;> intros <;> simp_all [State.init]

/-- two frames of one stack with the same id are the same frame -/
theorem frame_eq_of_id {l : List Frame} (hn : (l.map Frame.id).Nodup) {f f' : Frame} (hf : f ∈ l) (hf' : f' ∈ l)
    (hid : f.id = f'.id) : f = f' := by
  induction l with
  | nil => cases hf
  | cons a l ih =>
    simp only [List.map_cons, List.nodup_cons, List.mem_map, not_exists, not_and] at hn
    rcases List.mem_cons.mp hf with h | h <;> rcases List.mem_cons.mp hf' with h' | h'
    · rw [h, h']
    · subst h; exact absurd hid.symm (hn.1 f' h')
    · subst h'; exact absurd hid (hn.1 f h)
    · exact ih hn.2 h h'

/-- replacing the head frame by another frame of the same task keeps every invariant that only
looks at ids -/
theorem ids_replace_head (a b : Frame) (rest : List Frame) (h : a.id = b.id) :
    (b :: rest).map Frame.id = (a :: rest).map Frame.id := by simp [h]

/-- one step of the inplace machine, with the guards that enabled it -/
theorem stepI_cases {s s' : State} {t : Nat} {e : Ev} (h : stepInplace s t e = some s') :
    (∃ id, e = .submit id ∧ canSubmit (s.stack t) = true ∧ s.known id = false ∧ s.rejected id = false ∧
      s' = { s with stack := upd s.stack t (.sub id :: s.stack t), known := upd s.known id true }) ∨
    (∃ id rest, e = .run id true ∧ s.stack t = .sub id :: rest ∧
      s' = { s with stack := upd s.stack t (.run id :: rest), runs := upd s.runs id (s.runs id + 1),
                    ranOn := upd s.ranOn id (some t) }) ∨
    (∃ id rest, e = .done id ∧ s.stack t = .run id :: rest ∧
      s' = { s with stack := upd s.stack t (.fin id :: rest), done := upd s.done id true }) ∨
    (∃ id rest, e = .accept id ∧ s.stack t = .fin id :: rest ∧
      s' = { s with stack := upd s.stack t rest, accepted := upd s.accepted id true }) ∨
    (∃ id, e = .reject id ∧ s.known id = false ∧ s.rejected id = false ∧
      s' = { s with rejected := upd s.rejected id true }) ∨
    s' = s := by
  cases e <;> simp only [stepInplace] at h
  case submit id =>
    split at h
    · rename_i hg; simp only [Option.some.injEq] at h
      exact Or.inl ⟨id, rfl, by simpa using hg.1, by simpa using hg.2.1, by simpa using hg.2.2, h.symm⟩
    · cases h
  case run id inp =>
    split at h
    · rename_i id' rest hs
      split at h
      · rename_i hg; simp only [Option.some.injEq] at h
        obtain ⟨h1, h2⟩ := hg; subst h1
        have : inp = true := by simpa using h2
        subst this
        exact Or.inr (Or.inl ⟨id', rest, rfl, hs, h.symm⟩)
      · cases h
    · cases h
  case done id =>
    split at h
    · rename_i id' rest hs
      split at h
      · rename_i hg; simp only [Option.some.injEq] at h; subst hg
        exact Or.inr (Or.inr (Or.inl ⟨id', rest, rfl, hs, h.symm⟩))
      · cases h
    · cases h
  case accept id =>
    split at h
    · rename_i id' rest hs
      split at h
      · rename_i hg; simp only [Option.some.injEq] at h; subst hg
        exact Or.inr (Or.inr (Or.inr (Or.inl ⟨id', rest, rfl, hs, h.symm⟩)))
      · cases h
    · cases h
  case reject id =>
    split at h
    · rename_i hg; simp only [Option.some.injEq] at h
      exact Or.inr (Or.inr (Or.inr (Or.inr (Or.inl ⟨id, rfl, by simpa using hg.2.1, by simpa using hg.2.2, h.symm⟩))))
    · cases h
  case exit =>
    split at h
    · simp only [Option.some.injEq] at h; exact Or.inr (Or.inr (Or.inr (Or.inr (Or.inr h.symm))))
    · cases h
  case joinThread u => simp only [Option.some.injEq] at h; exact Or.inr (Or.inr (Or.inr (Or.inr (Or.inr h.symm))))
  case spawn u => simp only [Option.some.injEq] at h; exact Or.inr (Or.inr (Or.inr (Or.inr (Or.inr h.symm))))
  all_goals cases h

/-- if every new frame has an old frame of the same task on the same thread, ids stay thread-unique -/
theorem k3_of_twin {st st' : Nat → List Frame}
    (htw : ∀ t f, f ∈ st' t → ∃ g, g ∈ st t ∧ g.id = f.id)
    (k3 : ∀ t t' f f', f ∈ st t → f' ∈ st t' → f.id = f'.id → t = t') :
    ∀ t t' f f', f ∈ st' t → f' ∈ st' t' → f.id = f'.id → t = t' := by
  intro t t' f f' hf hf' hid
  obtain ⟨g, hg, hgi⟩ := htw t f hf
  obtain ⟨g', hg', hgi'⟩ := htw t' f' hf'
  exact k3 t t' g g' hg hg' (by rw [hgi, hgi', hid])

theorem twin_replace_head {st : Nat → List Frame} {t : Nat} {a b : Frame} {rest : List Frame}
    (hs : st t = a :: rest) (hab : a.id = b.id) :
    ∀ t' f, f ∈ upd st t (b :: rest) t' → ∃ g, g ∈ st t' ∧ g.id = f.id := by
  intro t' f hf
  by_cases ht : t' = t
  · subst ht
    simp only [upd, if_true] at hf
    rcases List.mem_cons.mp hf with h | h
    · subst h; exact ⟨a, by rw [hs]; exact List.mem_cons_self .., hab⟩
    · exact ⟨f, by rw [hs]; exact List.mem_cons_of_mem _ h, rfl⟩
  · simp only [upd, ht, if_false] at hf; exact ⟨f, hf, rfl⟩

theorem twin_pop_head {st : Nat → List Frame} {t : Nat} {a : Frame} {rest : List Frame}
    (hs : st t = a :: rest) :
    ∀ t' f, f ∈ upd st t rest t' → ∃ g, g ∈ st t' ∧ g.id = f.id := by
  intro t' f hf
  by_cases ht : t' = t
  · subst ht
    simp only [upd, if_true] at hf
    exact ⟨f, by rw [hs]; exact List.mem_cons_of_mem _ hf, rfl⟩
  · simp only [upd, ht, if_false] at hf; exact ⟨f, hf, rfl⟩

theorem k3_push_fresh {st : Nat → List Frame} {t : Nat} {a : Frame}
    (hfresh : ∀ t' f, f ∈ st t' → f.id ≠ a.id)
    (k3 : ∀ t t' f f', f ∈ st t → f' ∈ st t' → f.id = f'.id → t = t') :
    ∀ t1 t2 f f', f ∈ upd st t (a :: st t) t1 → f' ∈ upd st t (a :: st t) t2 → f.id = f'.id → t1 = t2 := by
  intro t1 t2 f f' hf hf' hid
  simp only [upd] at hf hf'
  by_cases h1 : t1 = t <;> by_cases h2 : t2 = t
  · rw [h1, h2]
  · simp only [h1, h2, if_true, if_false] at hf hf'
    rcases List.mem_cons.mp hf with h | h
    · subst h; exact absurd hid.symm (hfresh t2 f' hf')
    · rw [h1]; exact k3 t t2 f f' h hf' hid
  · simp only [h1, h2, if_true, if_false] at hf hf'
    rcases List.mem_cons.mp hf' with h | h
    · subst h; exact absurd hid (hfresh t1 f hf)
    · rw [h2]; exact k3 t1 t f f' hf h hid
  · simp only [h1, h2, if_false] at hf hf'; exact k3 t1 t2 f f' hf hf' hid

set_option maxHeartbeats 4000000 in
theorem InvI.step {s s' : State} (A : InvI s) (h : StepI s s') : InvI s' := by
  obtain ⟨t, e, hst⟩ := h
  obtain ⟨k1, k2, k3, k4, k5, k6, k7, k8, k9⟩ := A
  have hfeq := fun f f' => @frame_eq_of_id (s.stack t) (k2 t) f f'
  have hhead : ∀ a rest, s.stack t = a :: rest → a ∈ s.stack t ∧ ∀ f, f ∈ rest → f ∈ s.stack t := by
    intro a rest hs; rw [hs]; exact ⟨List.mem_cons_self .., fun f hf => List.mem_cons_of_mem _ hf⟩
  rcases stepI_cases hst with ⟨id, _, hcs, hk, hr, rfl⟩ | ⟨id, rest, _, hs, rfl⟩ | ⟨id, rest, _, hs, rfl⟩ |
      ⟨id, rest, _, hs, rfl⟩ | ⟨id, _, hk, hr, rfl⟩ | rfl
  all_goals (refine ⟨?_, ?_, ?_, ?_, ?_, ?_, ?_, ?_, ?_⟩)
  all_goals (first
    | (grind [upd, Frame.id, List.nodup_cons, List.mem_map])
    | (have hh := hhead _ _ hs; grind [upd, Frame.id, List.nodup_cons, List.mem_map])
    | (exact k3_of_twin (twin_replace_head hs rfl) k3)
    | (exact k3_of_twin (twin_pop_head hs) k3)
    | (refine k3_push_fresh ?_ k3
       intro t' f hf e
       have := (k1 t' f hf).1
       have e' : f.id = id := e
       rw [e', hk] at this; cases this))

/-- reachable states of the inplace machine -/
def ReachI (s : State) : Prop := Reachable (· = State.init) StepI s

theorem InvI.reachable {s : State} (h : ReachI s) : InvI s := by
  refine Reachable.invariant InvI ?_ ?_ s h
  · intro s hs; subst hs; exact InvI.init
  · intro s s' hI hstep; exact hI.step hstep

/-- **inplace**: when `execute`/`submit` of the inplace executor returns success, the task has run
exactly once, to completion, on the calling thread (inside the call) -/
theorem inplace_accept_inside {s s' : State} (hr : ReachI s) (t id : Nat)
    (h : stepInplace s t (.accept id) = some s') :
    s.done id = true ∧ s.runs id = 1 ∧ s.ranOn id = some t := by
  have A := InvI.reachable hr
  rcases stepI_cases h with ⟨_, he, _⟩ | ⟨_, _, he, _⟩ | ⟨_, _, he, _⟩ | ⟨id', rest, he, hs, _⟩ | ⟨_, he, _⟩ | hs
  · cases he
  · cases he
  · cases he
  · injection he with he; subst he
    have := A.k6 t id (by rw [hs]; exact List.mem_cons_self ..)
    exact ⟨this.2.1, this.1, this.2.2⟩
  · cases he
  · -- `accept` always changes the state
    exfalso
    simp only [stepInplace] at h
    split at h
    · split at h
      · simp only [Option.some.injEq] at h
        rename_i hs2 _
        have := congrArg (fun st => st.accepted id) h
        simp only [upd, hs, if_true] at this
        have hk := (A.k1 t _ (by rw [hs2]; exact List.mem_cons_self ..)).2
        rename_i hid; subst hid
        simp only [Frame.id] at hk
        rw [hk] at this; cases this
      · cases h
    · cases h

/-- **inplace**: accepted tasks have run exactly once and finished; rejected submissions never ran -/
theorem inplace_exactly_once {s : State} (hr : ReachI s) (id : Nat) :
    (s.accepted id = true → s.runs id = 1 ∧ s.done id = true) ∧
    (s.rejected id = true → s.runs id = 0 ∧ s.done id = false ∧ s.accepted id = false) := by
  have A := InvI.reachable hr
  refine ⟨fun h => ⟨(A.k7 id h).1, (A.k7 id h).2.1⟩, fun h => A.k8 id (A.k9 id h)⟩

/-! ### the new-thread executor -/

/-- transition relation of the new-thread machine -/
def StepN (s s' : State) : Prop := ∃ t e, stepNewThread s t e = some s'

def ReachN (s : State) : Prop := Reachable (· = State.init) StepN s

def NPc.joining : NPc → Bool
  | .jPoll | .jSeen0 => true
  | _ => false

structure InvN (s : State) : Prop where
  n1 : s.cnt = s.live.length
  n2 : ∀ id, s.accepted id = true → s.done id = false → id ∈ s.live
  n3a : ∀ t id par, s.npc t = .nSpawn id par → s.done id = true ∨ id ∈ s.live
  n3b : ∀ t id par, s.npc t = .nRet id par → s.done id = true ∨ id ∈ s.live
  n4 : ∀ t id, s.npc t = .tDec id → s.done id = true
  n5 : ∀ id, s.preJoin id = true → s.accepted id = true
  n6 : ∀ t, (s.npc t).joining = true → s.joinCalled = true
  n6r : s.joinReturned = true → s.joinCalled = true
  n7 : ∀ t, s.npc t = .jSeen0 → ∀ id, s.preJoin id = true → s.done id = true
  n7r : s.joinReturned = true → ∀ id, s.preJoin id = true → s.done id = true
  n8 : ∀ id, s.rejected id = true → s.known id = false
  n9 : ∀ id, s.known id = false → s.runs id = 0 ∧ s.accepted id = false ∧ s.done id = false ∧ id ∉ s.spawned
  n10a : ∀ t id par, s.npc t = .nSub id par → s.known id = true
  n10b : ∀ t id par, s.npc t = .nSpawn id par → s.known id = true
  n10c : ∀ t id par, s.npc t = .nRet id par → s.known id = true
  n11 : ∀ t id, s.npc t = .tRun id → s.known id = true
  n12a : ∀ t id p, s.npc t = .nSub id (some p) → s.known p = true
  n12b : ∀ t id p, s.npc t = .nSpawn id (some p) → s.known p = true
  n12c : ∀ t id p, s.npc t = .nRet id (some p) → s.known p = true

theorem InvN.init : InvN State.init := by
  refine ⟨?_, ?_, ?_, ?_, ?_, ?_, ?_, ?_, ?_, ?_, ?_, ?_, ?_, ?_, ?_, ?_, ?_, ?_, ?_⟩ <;> intros <;> simp_all [State.init, NPc.joining]

/-- the cases of one step of the new-thread machine -/
inductive NCase (s : State) (t : Nat) : State → Prop
  | submit (id : Nat) (par : Option Nat) (hpc : s.npc t = .idle ∧ par = none ∨ ∃ p, s.npc t = .tRun p ∧ par = some p)
      (hk : s.known id = false) (hr : s.rejected id = false) :
      NCase s t { s with npc := upd s.npc t (.nSub id par), known := upd s.known id true, subBy := upd s.subBy id (some t) }
  | inc (id : Nat) (par : Option Nat) (hpc : s.npc t = .nSub id par) :
      NCase s t { s with npc := upd s.npc t (.nSpawn id par), cnt := s.cnt + 1, live := id :: s.live }
  | spawn (id : Nat) (par : Option Nat) (u : Nat) (hpc : s.npc t = .nSpawn id par) (hu : s.npc u = .idle) (hb : s.bornFor u = none) :
      NCase s t { s with npc := upd s.npc t (.nRet id par), spawned := id :: s.spawned, bornFor := upd s.bornFor u (some id) }
  | accept (id : Nat) (par : Option Nat) (hpc : s.npc t = .nRet id par) :
      NCase s t { s with npc := upd s.npc t (match par with | none => .idle | some p => .tRun p),
                         accepted := upd s.accepted id true, preJoin := upd s.preJoin id (!s.joinCalled) }
  | run (id : Nat) (hpc : s.npc t = .idle) (hsp : id ∈ s.spawned) (hb : s.bornFor t = some id) :
      NCase s t { s with npc := upd s.npc t (.tRun id), spawned := s.spawned.erase id,
                         runs := upd s.runs id (s.runs id + 1), ranOn := upd s.ranOn id (some t) }
  | done (id : Nat) (hpc : s.npc t = .tRun id) :
      NCase s t { s with npc := upd s.npc t (.tDec id), done := upd s.done id true, futReady := upd s.futReady id true }
  | dec (id : Nat) (hpc : s.npc t = .tDec id) (hpos : 0 < s.cnt) (hmem : id ∈ s.live) :
      NCase s t { s with npc := upd s.npc t .tExit, cnt := s.cnt - 1, live := s.live.erase id }
  | exit (hpc : s.npc t = .tExit ∨ s.npc t = .idle) : NCase s t { s with npc := upd s.npc t .exited }
  | joinBegin (hpc : s.npc t = .idle) : NCase s t { s with npc := upd s.npc t .jPoll, joinCalled := true }
  | poll (hpc : s.npc t = .jPoll) : NCase s t { s with npc := upd s.npc t (if s.cnt = 0 then .jSeen0 else .jPoll) }
  | joinEnd (hpc : s.npc t = .jSeen0) : NCase s t { s with npc := upd s.npc t .idle, joinReturned := true }
  | reject (id : Nat) (hpc : s.npc t = .idle) (hk : s.known id = false) (hr : s.rejected id = false) :
      NCase s t { s with rejected := upd s.rejected id true }
  | skip : NCase s t s

theorem stepN_cases {s s' : State} {t : Nat} {e : Ev} (h : stepNewThread s t e = some s') : NCase s t s' := by
  cases e <;> simp only [stepNewThread] at h
  all_goals repeat' (split at h)
  all_goals try (simp only [reduceCtorEq] at h; done)
  all_goals (simp only [Option.some.injEq] at h; subst h)
  all_goals first
    | exact NCase.skip
    | (constructor <;> simp_all; done)
    | (rename_i hg _; exact NCase.submit _ none (Or.inl ⟨by assumption, rfl⟩) (by simpa using hg.1) (by simpa using hg.2))
    | (rename_i hg _ p _; exact NCase.submit _ (some p) (Or.inr ⟨p, by assumption, rfl⟩) (by simpa using hg.1) (by simpa using hg.2))
    | (rename_i h1 _ h2; subst h1; have := NCase.accept (s := s) (t := t) _ none h2; simpa using this)
    | (rename_i h1 _ _ h2; subst h1; have := NCase.accept (s := s) (t := t) _ (some _) h2; simpa using this)
    | (rename_i hp h1 h2; subst h1; have := NCase.poll (s := s) (t := t) hp; simpa [h2] using this)

set_option maxHeartbeats 4000000 in
theorem InvN.step {s s' : State} (A : InvN s) (h : StepN s s') : InvN s' := by
  obtain ⟨t, e, hst⟩ := h
  obtain ⟨n1, n2, n3a, n3b, n4, n5, n6, n6r, n7, n7r, n8, n9, n10a, n10b, n10c, n11, n12a, n12b, n12c⟩ := A
  have hc := stepN_cases hst
  clear hst
  cases hc
  case accept id0 par hpc =>
    cases par <;> (refine ⟨?_, ?_, ?_, ?_, ?_, ?_, ?_, ?_, ?_, ?_, ?_, ?_, ?_, ?_, ?_, ?_, ?_, ?_, ?_⟩) <;>
      grind [upd, NPc.joining]
  case dec id0 hpc hpos hmem =>
    refine ⟨?_, ?_, ?_, ?_, ?_, ?_, ?_, ?_, ?_, ?_, ?_, ?_, ?_, ?_, ?_, ?_, ?_, ?_, ?_⟩
    · show s.cnt - 1 = (s.live.erase id0).length
      rw [List.length_erase_of_mem hmem, n1]
    all_goals grind [upd, NPc.joining]
  all_goals (refine ⟨?_, ?_, ?_, ?_, ?_, ?_, ?_, ?_, ?_, ?_, ?_, ?_, ?_, ?_, ?_, ?_, ?_, ?_, ?_⟩)
  all_goals (grind [upd, NPc.joining])

theorem InvN.reachable {s : State} (h : ReachN s) : InvN s := by
  refine Reachable.invariant InvN ?_ ?_ s h
  · intro s hs; subst hs; exact InvN.init
  · intro s s' hI hstep; exact hI.step hstep

/-- **new-thread executor**: when `join()` returns (and afterwards) every task whose submission had
succeeded before `join()` was called has finished; a rejected submission never ran -/
theorem newthread_join_drains {s : State} (hr : ReachN s) (id : Nat) :
    (s.joinReturned = true → s.preJoin id = true → s.done id = true) ∧
    (s.rejected id = true → s.runs id = 0 ∧ s.accepted id = false ∧ s.done id = false) := by
  have A := InvN.reachable hr
  refine ⟨fun h1 h2 => A.n7r h1 id h2, fun h => ?_⟩
  have := A.n9 id (A.n8 id h)
  exact ⟨this.1, this.2.1, this.2.2.1⟩

end Babylon.Exec.Simple
