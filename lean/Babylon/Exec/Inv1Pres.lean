/-
  `Inv1` is inductive: it holds initially and every step preserves it.
-/
import Babylon.Exec.Inv1

namespace Babylon.Exec
open Babylon.Core

/-- how a step changes the role of the stepping thread -/
theorem role_step {c : Cfg} {s s' : State} {t : Nat} {lb : Lbl} (h : StepCase c s t lb s') :
    (s'.pc t).role = (s.pc t).role ∨ s'.pc t = .exited ∨
    ((s.pc t = .idle ∨ s'.pc t = .idle) ∧ (s.pc t).role ≠ .worker ∧ (s.pc t).role ≠ .bal ∧
      (s'.pc t).role ≠ .worker ∧ (s'.pc t).role ≠ .bal) := by
  cases h
  all_goals (simp only [setPc_pc, acceptTask_pc, dispatch_pc, onClaim_pc, claimLocal_pc, upd_same])
  case bLdRun hpc => rcases hpc with hpc | ⟨k, hpc⟩ <;> simp [hpc, Pc.role]
  all_goals first
    | (simp_all [Pc.role]; done)

theorem wf_step {c : Cfg} {s s' : State} {t : Nat} {lb : Lbl} (h : StepCase c s t lb s')
    (hwf : PcWF c (s.pc t)) : PcWF c (s'.pc t) := by
  cases h
  all_goals (try simp only [setPc_pc, acceptTask_pc, dispatch_pc, onClaim_pc, claimLocal_pc, upd_same])
  all_goals first
    | trivial
    | exact wf_afterLdRunS c _
    | exact wf_afterLdRunB c _
    | exact wf_afterStore c
    | exact markChain_wf c _
    | exact wf_afterJoinW c _
    | exact wf_afterSubmit c _ _ _
    | exact wf_afterSize c _ _ _ _
    | exact wf_dispatchPc c _
    | exact wf_claimPc c _ _
    | exact wf_onEmpty c _
    | exact Or.inr rfl
    | (rename_i hpc; rw [hpc] at hwf; first | exact cont_forget c _ _ hwf | exact wf_of_cont c _ _ hwf)
    | (rename_i hpc _ _; rw [hpc] at hwf; exact wf_of_cont c _ _ hwf)

theorem Inv1.init (c : Cfg) (hc : c.WF) : Inv1 c (State.init c) := by
  have hb : ∀ t, c.bal = some t → t ∉ c.workers := hc.2
  refine ⟨?_, ?_, ?_, ?_, ?_, ?_, ?_, ?_, ?_, ?_, ?_, ?_, ?_, ?_⟩ <;> simp only [State.init]
  · intro t; by_cases h1 : t ∈ c.workers <;> by_cases h2 : c.bal = some t <;> simp [h1, h2, PcWF]
  · intro t; by_cases h1 : t ∈ c.workers <;> by_cases h2 : c.bal = some t <;> simp [h1, h2, Pc.role]
  · intro t; by_cases h1 : t ∈ c.workers <;> by_cases h2 : c.bal = some t <;> simp [h1, h2, Pc.role]
  · intro t; by_cases h1 : t ∈ c.workers <;> by_cases h2 : c.bal = some t <;> simp [h1, h2, Pc.role]
  · intro t ht; simp [ht, Pc.role]
  · intro b hb'; simp [hb b hb', hb', Pc.role]
  · simp
  · simp
  · intro t; by_cases h1 : t ∈ c.workers <;> by_cases h2 : c.bal = some t <;> simp [h1, h2]
  · simp
  · simp
  · simp
  · intro w; by_cases h1 : w ∈ c.workers <;> by_cases h2 : c.bal = some w <;> simp [h1, h2, Pc.role]
  · simp

/-! ### what a step can change besides the program counter of the stepping thread -/

theorem stop_frame {c : Cfg} {s s' : State} {t : Nat} {lb : Lbl} (h : StepCase c s t lb s') :
    (s'.stopper = s.stopper ∧ s'.stopCalled = s.stopCalled) ∨
    (s.pc t = .idle ∧ s.stopCalled = false ∧ s'.stopper = some t ∧ s'.stopCalled = true ∧ s'.pc t = .sLd) := by
  cases h <;> simp_all

theorem running_frame {c : Cfg} {s s' : State} {t : Nat} {lb : Lbl} (h : StepCase c s t lb s') :
    s'.running = s.running ∨ (s.pc t = .sSt ∧ s'.running = false ∧ s'.pc t = afterStore c) := by
  cases h <;> simp_all

theorem own_frame {c : Cfg} {s s' : State} {t : Nat} {lb : Lbl} (h : StepCase c s t lb s') :
    (s'.own = s.own ∧ s'.owner = s.owner) ∨
    (∃ k, s.pc t = .wInit ∧ slotAvailable s k = true ∧ s'.own = upd s.own t (some k) ∧
      s'.owner = upd s.owner k (some t) ∧ (s'.pc t).role = .worker ∧ s'.pc t ≠ .wInit) := by
  cases h
  case wInit k hpc hav => exact Or.inr ⟨k, hpc, hav, rfl, rfl, by simp [PopCtx.role], by simp⟩
  all_goals simp_all

theorem scope_frame {c : Cfg} {s s' : State} {t : Nat} {lb : Lbl} (h : StepCase c s t lb s') :
    s'.scope = s.scope ∨ (∃ v, (s.pc t).inTask = true ∧ (s'.pc t).inTask = true ∧ s'.scope = upd s.scope t v) := by
  cases h
  case scopeEnter id hpc => exact Or.inr ⟨_, by simp [hpc, Pc.inTask], by simp [hpc, Pc.inTask], rfl⟩
  case scopeLeave id hpc hpos => exact Or.inr ⟨_, by simp [hpc, Pc.inTask], by simp [hpc, Pc.inTask], rfl⟩
  all_goals simp_all

theorem afterJoinW_ne (c : Cfg) (n : Nat) : afterJoinW c n ≠ .sLd ∧ afterJoinW c n ≠ .sSt ∧ afterJoinW c n ≠ .wInit := by
  unfold afterJoinW; split <;> simp
theorem afterSubmit_ne (c : Cfg) (b : Bool) (id cid : Nat) :
    afterSubmit c b id cid ≠ .sLd ∧ afterSubmit c b id cid ≠ .sSt ∧ afterSubmit c b id cid ≠ .wInit := by
  unfold afterSubmit; split <;> simp
theorem afterSize_ne (c : Cfg) (p a id cid : Nat) :
    afterSize c p a id cid ≠ .sLd ∧ afterSize c p a id cid ≠ .sSt ∧ afterSize c p a id cid ≠ .wInit := by
  unfold afterSize; split <;> simp
theorem afterLdRunS_ne (v : Bool) : afterLdRunS v ≠ .sLd ∧ afterLdRunS v ≠ .wInit ∧ (afterLdRunS v = .sSt → v = true) := by
  cases v <;> simp [afterLdRunS]

/-- the entry points `sLd`, `sSt`, `wInit` are entered only where the code enters them -/
theorem entry_frame {c : Cfg} {s s' : State} {t : Nat} {lb : Lbl} (h : StepCase c s t lb s')
    (hwf : PcWF c (s.pc t)) :
    (s'.pc t = .sLd → s.pc t = .idle ∧ s.stopCalled = false) ∧
    (s'.pc t = .sSt → s.pc t = .sLd ∧ s.running = true) ∧ s'.pc t ≠ .wInit := by
  have hm := markChain_ne c
  have hm' := markChain_ne_wInit c
  have ha := afterStore_ne c
  have ha' := afterStore_ne_wInit c
  have h1 := dispatchPc_ne
  have h2 := claimPc_ne
  have h4 := onEmpty_ne
  have h5 := afterJoinW_ne c
  have h6 := afterSubmit_ne c
  have h7 := afterSize_ne c
  have h8 := afterLdRunS_ne
  have hne : ∀ p k, s.pc t = .gPub p k → k ≠ .sLd ∧ k ≠ .sSt ∧ k ≠ .wInit := by
    intro p k hp; rw [hp] at hwf; exact cont_ne c none k hwf
  cases h
  all_goals (try simp only [exec_proj, upd_same] at *)
  all_goals first
    | (simp_all; done)
    | (simp_all [afterLdRunS, afterLdRunB, afterJoinW, afterSubmit, afterSize]; done)
    | (rename_i k _ _ _; have := hne _ k (by assumption); simp_all; done)
    | (rename_i hpc; rcases hpc with hpc | ⟨k, hpc⟩ <;> cases hrun : s.running <;> simp_all [afterLdRunB]; done)
    | (refine ⟨?_, ?_, ?_⟩ <;> (try split) <;> simp_all [afterLdRunS, afterLdRunB, afterJoinW, afterSubmit, afterSize]; done)
    | (trace_state; sorry)

end Babylon.Exec
