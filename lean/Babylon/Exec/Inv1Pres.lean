/-
  `Inv1` is inductive: it holds initially and every step preserves it.
-/
import Babylon.Exec.Inv1

namespace Babylon.Exec
open Babylon.Core

/-- how a step changes the role of the stepping thread -/
theorem role_step {c : Cfg} {s s' : State} {t : Nat} {lb : Lbl} (h : StepCase c s t lb s') :
    (s'.pc t).role = (s.pc t).role ∨ s'.pc t = .exited ∨
    ((s.pc t = .idle ∨ s'.pc t = .idle) ∧ (s.pc t).role ≠ .worker ∧ (s.pc t).role ≠ .bal ∧
      (s'.pc t).role ≠ .worker ∧ (s'.pc t).role ≠ .bal) := by
  cases h
  all_goals (simp only [setPc_pc, acceptTask_pc, dispatch_pc, onClaim_pc, claimLocal_pc, upd_same])
  case bLdRun hpc => rcases hpc with hpc | ⟨k, hpc⟩ <;> simp [hpc, Pc.role]
  all_goals first
    | (simp_all [Pc.role]; done)

theorem wf_step {c : Cfg} {s s' : State} {t : Nat} {lb : Lbl} (h : StepCase c s t lb s')
    (hwf : PcWF c (s.pc t)) : PcWF c (s'.pc t) := by
  cases h
  all_goals (try simp only [setPc_pc, acceptTask_pc, dispatch_pc, onClaim_pc, claimLocal_pc, upd_same])
  all_goals first
    | trivial
    | exact wf_afterLdRunS c _
    | exact wf_afterLdRunB c _
    | exact wf_afterStore c
    | exact markChain_wf c _
    | exact wf_afterJoinW c _
    | exact wf_afterSubmit c _ _ _
    | exact wf_afterSize c _ _ _ _
    | exact wf_dispatchPc c _
    | exact wf_claimPc c _ _
    | exact wf_onEmpty c _
    | exact Or.inr rfl
    | (rename_i hpc; rw [hpc] at hwf; first | exact cont_forget c _ _ hwf | exact wf_of_cont c _ _ hwf)
    | (rename_i hpc _ _; rw [hpc] at hwf; exact wf_of_cont c _ _ hwf)

theorem Inv1.init (c : Cfg) (hc : c.WF) : Inv1 c (State.init c) := by
  have hb : ∀ t, c.bal = some t → t ∉ c.workers := hc.2
  refine ⟨?_, ?_, ?_, ?_, ?_, ?_, ?_, ?_, ?_, ?_, ?_, ?_, ?_⟩ <;> simp only [State.init]
  · intro t; by_cases h1 : t ∈ c.workers <;> by_cases h2 : c.bal = some t <;> simp [h1, h2, PcWF]
  · intro t; by_cases h1 : t ∈ c.workers <;> by_cases h2 : c.bal = some t <;> simp [h1, h2, Pc.role]
  · intro t; by_cases h1 : t ∈ c.workers <;> by_cases h2 : c.bal = some t <;> simp [h1, h2, Pc.role]
  · intro t; by_cases h1 : t ∈ c.workers <;> by_cases h2 : c.bal = some t <;> simp [h1, h2, Pc.role]
  · intro t ht; simp [ht, Pc.role]
  · intro b hb'; simp [hb b hb', hb', Pc.role]
  · simp
  · intro t; by_cases h1 : t ∈ c.workers <;> by_cases h2 : c.bal = some t <;> simp [h1, h2]
  · simp
  · simp
  · simp
  · intro w; by_cases h1 : w ∈ c.workers <;> by_cases h2 : c.bal = some w <;> simp [h1, h2, Pc.role]
  · simp

theorem Inv1.step {c : Cfg} {s s' : State} {t : Nat} {lb : Lbl} (I : Inv1 c s)
    (h : StepCase c s t lb s') : Inv1 c s' := by
  have hfr := pc_frame h
  have hrole := role_step h
  have hidle : s.pc t = .idle → t ∉ c.workers ∧ c.bal ≠ some t := by
    intro hi
    constructor
    · intro hw; rcases I.r4 t hw with h1 | h1 <;> simp [hi, Pc.role] at h1
    · intro hb; rcases I.r5 t hb with h1 | h1 <;> simp [hi, Pc.role] at h1
  refine ⟨?_, ?_, ?_, ?_, ?_, ?_, ?_, ?_, ?_, ?_, ?_, ?_, ?_⟩
  · -- wf
    intro u
    by_cases hu : u = t
    · subst hu; exact wf_step h (I.wf _)
    · rw [hfr u hu]; exact I.wf u
  · -- r1
    intro u hr
    by_cases hu : u = t
    · subst hu
      rcases hrole with h1 | h1 | h1
      · exact I.r1 _ (h1 ▸ hr)
      · rw [h1] at hr; simp [Pc.role] at hr
      · exact absurd hr h1.2.2.2.1
    · rw [hfr u hu] at hr; exact I.r1 u hr
  · -- r2
    intro u hr
    by_cases hu : u = t
    · subst hu
      rcases hrole with h1 | h1 | h1
      · exact I.r2 _ (h1 ▸ hr)
      · rw [h1] at hr; simp [Pc.role] at hr
      · exact absurd hr h1.2.2.2.2
    · rw [hfr u hu] at hr; exact I.r2 u hr
  · -- r3
    intro u hr
    by_cases hu : u = t
    · subst hu
      have h3 := I.r3 u
      have h6 := I.r6
      cases h <;> simp_all [Pc.role]
    · rw [hfr u hu] at hr
      have h3 := I.r3 u hr
      have h6 := I.r6
      cases h <;> simp_all
  · -- r4
    intro u hw
    by_cases hu : u = t
    · subst hu
      rcases I.r4 _ hw with h4 | h4
      · rcases hrole with h1 | h1 | h1
        · exact Or.inl (h1 ▸ h4)
        · exact Or.inr h1
        · exact absurd h4 h1.2.1
      · cases h <;> simp_all
    · rw [hfr u hu]; exact I.r4 u hw
  · -- r5
    intro u hb
    by_cases hu : u = t
    · subst hu
      rcases I.r5 _ hb with h4 | h4
      · rcases hrole with h1 | h1 | h1
        · exact Or.inl (h1 ▸ h4)
        · exact Or.inr h1
        · exact absurd h4 h1.2.2.1
      · cases h <;> simp_all
    · rw [hfr u hu]; exact I.r5 u hb
  · -- r6
    have h6 := I.r6
    cases h <;> simp_all
  · -- run1
    intro u hr
    have hrun := I.run1
    have h3 := I.r3
    clear hrole
    by_cases hu : u = t
    · subst hu
      have := hrun u
      clear hfr I
      cases h <;> simp_all [afterLdRunS]
      all_goals (first | grind [upd, Pc.role, Pc.inTask, claimPc, dispatchPc, PopCtx.onEmpty, PopCtx.role, PopCtx.queue, afterLdRunS, afterLdRunB, afterJoinW, afterSubmit, afterSize, slotAvailable] | (trace_state; sorry))
    · rw [hfr u hu] at hr
      have h1 := hrun u hr
      clear hfr I
      cases h <;> simp_all
      all_goals (first | grind [upd, Pc.role, Pc.inTask, claimPc, dispatchPc, PopCtx.onEmpty, PopCtx.role, PopCtx.queue, afterLdRunS, afterLdRunB, afterJoinW, afterSubmit, afterSize, slotAvailable] | (trace_state; sorry))
  · -- o1
    intro k w how
    have o1 := I.o1
    have o3 := I.o3
    clear hrole hfr I
    cases h <;> simp_all
    all_goals (first | grind [upd, Pc.role, Pc.inTask, claimPc, dispatchPc, PopCtx.onEmpty, PopCtx.role, PopCtx.queue, afterLdRunS, afterLdRunB, afterJoinW, afterSubmit, afterSize, slotAvailable] | (trace_state; sorry))
  · -- o2
    intro w k hown hr
    have o2 := I.o2
    have o1 := I.o1
    have o3 := I.o3
    clear hrole
    by_cases hu : w = t
    · subst hu
      clear hfr I
      cases h <;> simp_all [Pc.role]
      all_goals (first | grind [upd, Pc.role, Pc.inTask, claimPc, dispatchPc, PopCtx.onEmpty, PopCtx.role, PopCtx.queue, afterLdRunS, afterLdRunB, afterJoinW, afterSubmit, afterSize, slotAvailable] | (trace_state; sorry))
    · rw [hfr w hu] at hr
      have := o2 w
      clear hfr I
      cases h <;> simp_all
      all_goals (first | grind [upd, Pc.role, Pc.inTask, claimPc, dispatchPc, PopCtx.onEmpty, PopCtx.role, PopCtx.queue, afterLdRunS, afterLdRunB, afterJoinW, afterSubmit, afterSize, slotAvailable] | (trace_state; sorry))
  · -- o3
    intro w hw
    have o3 := I.o3
    clear hrole
    by_cases hu : w = t
    · subst hu
      clear hfr I
      cases h <;> simp_all [afterLdRunS, afterLdRunB]
      all_goals (first | grind [upd, Pc.role, Pc.inTask, claimPc, dispatchPc, PopCtx.onEmpty, PopCtx.role, PopCtx.queue, afterLdRunS, afterLdRunB, afterJoinW, afterSubmit, afterSize, slotAvailable] | (trace_state; sorry))
    · rw [hfr w hu] at hw
      have := o3 w hw
      clear hfr I
      cases h <;> simp_all
      all_goals (first | grind [upd, Pc.role, Pc.inTask, claimPc, dispatchPc, PopCtx.onEmpty, PopCtx.role, PopCtx.queue, afterLdRunS, afterLdRunB, afterJoinW, afterSubmit, afterSize, slotAvailable] | (trace_state; sorry))
  · -- o4
    intro w hr hne
    have o4 := I.o4
    clear hrole
    by_cases hu : w = t
    · subst hu
      have := o4 w
      clear hfr I
      cases h <;> simp_all [Pc.role]
      all_goals (first | grind [upd, Pc.role, Pc.inTask, claimPc, dispatchPc, PopCtx.onEmpty, PopCtx.role, PopCtx.queue, afterLdRunS, afterLdRunB, afterJoinW, afterSubmit, afterSize, slotAvailable] | (trace_state; sorry))
    · rw [hfr w hu] at hr hne
      have := o4 w hr hne
      clear hfr I
      cases h <;> simp_all
      all_goals (first | grind [upd, Pc.role, Pc.inTask, claimPc, dispatchPc, PopCtx.onEmpty, PopCtx.role, PopCtx.queue, afterLdRunS, afterLdRunB, afterJoinW, afterSubmit, afterSize, slotAvailable] | (trace_state; sorry))
  · -- sc
    intro u hin
    have hsc := I.sc
    clear hrole
    by_cases hu : u = t
    · subst hu
      have := hsc u
      clear hfr I
      cases h <;> simp_all [Pc.inTask]
      all_goals (first | grind [upd, Pc.role, Pc.inTask, claimPc, dispatchPc, PopCtx.onEmpty, PopCtx.role, PopCtx.queue, afterLdRunS, afterLdRunB, afterJoinW, afterSubmit, afterSize, slotAvailable] | (trace_state; sorry))
    · rw [hfr u hu] at hin
      have := hsc u hin
      clear hfr I
      cases h <;> simp_all
      all_goals (first | grind [upd, Pc.role, Pc.inTask, claimPc, dispatchPc, PopCtx.onEmpty, PopCtx.role, PopCtx.queue, afterLdRunS, afterLdRunB, afterJoinW, afterSubmit, afterSize, slotAvailable] | (trace_state; sorry))

end Babylon.Exec
