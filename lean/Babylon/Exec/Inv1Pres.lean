/-
  `Inv1` is inductive: it holds initially and every step preserves it.
-/
import Babylon.Exec.Inv1

namespace Babylon.Exec
open Babylon.Core

/-- how a step changes the role of the stepping thread -/
theorem role_step {c : Cfg} {s s' : State} {t : Nat} {lb : Lbl} (h : StepCase c s t lb s') :
    (s'.pc t).role = (s.pc t).role ∨ s'.pc t = .exited ∨
    ((s.pc t = .idle ∨ s'.pc t = .idle) ∧ (s.pc t).role ≠ .worker ∧ (s.pc t).role ≠ .bal ∧
      (s'.pc t).role ≠ .worker ∧ (s'.pc t).role ≠ .bal) := by
  cases h
  all_goals (simp only [setPc_pc, acceptTask_pc, dispatch_pc, onClaim_pc, claimLocal_pc, upd_same])
  case bLdRun hpc => rcases hpc with hpc | ⟨k, hpc⟩ <;> simp [hpc, Pc.role]
  all_goals first
    | (simp_all [Pc.role]; done)

theorem wf_step {c : Cfg} {s s' : State} {t : Nat} {lb : Lbl} (h : StepCase c s t lb s')
    (hwf : PcWF c (s.pc t)) : PcWF c (s'.pc t) := by
  cases h
  all_goals (try simp only [setPc_pc, acceptTask_pc, dispatch_pc, onClaim_pc, claimLocal_pc, upd_same])
  all_goals first
    | trivial
    | exact wf_afterLdRunS c _
    | exact wf_afterLdRunB c _
    | exact wf_afterStore c
    | exact markChain_wf c _
    | exact wf_afterJoinW c _
    | exact wf_afterSubmit c _ _ _
    | exact wf_afterSize c _ _ _ _
    | exact wf_dispatchPc c _
    | exact wf_claimPc c _ _
    | exact wf_onEmpty c _
    | exact Or.inr rfl
    | (rename_i hpc; rw [hpc] at hwf; first | exact cont_forget c _ _ hwf | exact wf_of_cont c _ _ hwf)
    | (rename_i hpc _ _; rw [hpc] at hwf; exact wf_of_cont c _ _ hwf)

theorem Inv1.init (c : Cfg) (hc : c.WF) : Inv1 c (State.init c) := by
  have hb : ∀ t, c.bal = some t → t ∉ c.workers := hc.2
  refine ⟨?_, ?_, ?_, ?_, ?_, ?_, ?_, ?_, ?_, ?_, ?_, ?_, ?_, ?_, ?_⟩ <;> simp only [State.init]
  · intro t; by_cases h1 : t ∈ c.workers <;> by_cases h2 : c.bal = some t <;> simp [h1, h2, PcWF]
  · intro t; by_cases h1 : t ∈ c.workers <;> by_cases h2 : c.bal = some t <;> simp [h1, h2, Pc.role]
  · intro t; by_cases h1 : t ∈ c.workers <;> by_cases h2 : c.bal = some t <;> simp [h1, h2, Pc.role]
  · intro t; by_cases h1 : t ∈ c.workers <;> by_cases h2 : c.bal = some t <;> simp [h1, h2, Pc.role]
  · intro t ht; simp [ht, Pc.role]
  · intro b hb'; simp [hb b hb', hb', Pc.role]
  · simp
  · simp
  · intro t; by_cases h1 : t ∈ c.workers <;> by_cases h2 : c.bal = some t <;> simp [h1, h2]
  · simp
  · simp
  · simp
  · intro w; by_cases h1 : w ∈ c.workers <;> by_cases h2 : c.bal = some w <;> simp [h1, h2, Pc.role]
  · simp
  · simp

/-! ### what a step can change besides the program counter of the stepping thread -/

theorem stop_frame {c : Cfg} {s s' : State} {t : Nat} {lb : Lbl} (h : StepCase c s t lb s') :
    (s'.stopper = s.stopper ∧ s'.stopCalled = s.stopCalled) ∨
    (s.pc t = .idle ∧ s.stopCalled = false ∧ s'.stopper = some t ∧ s'.stopCalled = true ∧ s'.pc t = .sLd) := by
  cases h <;> simp_all

theorem running_frame {c : Cfg} {s s' : State} {t : Nat} {lb : Lbl} (h : StepCase c s t lb s') :
    s'.running = s.running ∨ (s.pc t = .sSt ∧ s'.running = false ∧ s'.pc t = afterStore c) := by
  cases h <;> simp_all

theorem own_frame {c : Cfg} {s s' : State} {t : Nat} {lb : Lbl} (h : StepCase c s t lb s') :
    (s'.own = s.own ∧ s'.owner = s.owner) ∨
    (∃ k, s.pc t = .wInit ∧ slotAvailable s k = true ∧ s'.own = upd s.own t (some k) ∧
      s'.owner = upd s.owner k (some t) ∧ (s'.pc t).role = .worker ∧ s'.pc t ≠ .wInit) := by
  cases h
  case wInit k hpc hav => exact Or.inr ⟨k, hpc, hav, rfl, rfl, by simp [PopCtx.role], by simp⟩
  all_goals simp_all

theorem scope_frame {c : Cfg} {s s' : State} {t : Nat} {lb : Lbl} (h : StepCase c s t lb s') :
    s'.scope = s.scope ∨ (∃ v, (s.pc t).inTask = true ∧ (s'.pc t).inTask = true ∧ s'.scope = upd s.scope t v) := by
  cases h
  case scopeEnter id hpc => exact Or.inr ⟨_, by simp [hpc, Pc.inTask], by simp [hpc, Pc.inTask], rfl⟩
  case scopeLeave id hpc hpos => exact Or.inr ⟨_, by simp [hpc, Pc.inTask], by simp [hpc, Pc.inTask], rfl⟩
  all_goals simp_all

theorem afterJoinW_ne (c : Cfg) (n : Nat) : afterJoinW c n ≠ .sLd ∧ afterJoinW c n ≠ .sSt ∧ afterJoinW c n ≠ .wInit := by
  unfold afterJoinW; split <;> simp
theorem afterSubmit_ne (c : Cfg) (b : Bool) (id cid : Nat) :
    afterSubmit c b id cid ≠ .sLd ∧ afterSubmit c b id cid ≠ .sSt ∧ afterSubmit c b id cid ≠ .wInit := by
  unfold afterSubmit; split <;> simp
theorem afterSize_ne (c : Cfg) (p a id cid : Nat) :
    afterSize c p a id cid ≠ .sLd ∧ afterSize c p a id cid ≠ .sSt ∧ afterSize c p a id cid ≠ .wInit := by
  unfold afterSize; split <;> simp
theorem afterLdRunS_ne (v : Bool) : afterLdRunS v ≠ .sLd ∧ afterLdRunS v ≠ .wInit ∧ (afterLdRunS v = .sSt → v = true) := by
  cases v <;> simp [afterLdRunS]

set_option maxHeartbeats 1000000 in
/-- the entry points `sLd`, `sSt`, `wInit` are entered only where the code enters them -/
theorem entry_frame {c : Cfg} {s s' : State} {t : Nat} {lb : Lbl} (h : StepCase c s t lb s')
    (hwf : PcWF c (s.pc t)) :
    (s'.pc t = .sLd → s.pc t = .idle ∧ s.stopCalled = false) ∧
    (s'.pc t = .sSt → s.pc t = .sLd ∧ s.running = true) ∧ s'.pc t ≠ .wInit := by
  have hm := markChain_ne c
  have hm' := markChain_ne_wInit c
  have ha := afterStore_ne c
  have ha' := afterStore_ne_wInit c
  have h1 := dispatchPc_ne
  have h2 := claimPc_ne
  have h4 := onEmpty_ne
  have h5 := afterJoinW_ne c
  have h6 := afterSubmit_ne c
  have h7 := afterSize_ne c
  have h8 := afterLdRunS_ne
  have hne : ∀ p k, s.pc t = .gPub p k → k ≠ .sLd ∧ k ≠ .sSt ∧ k ≠ .wInit := by
    intro p k hp; rw [hp] at hwf; exact cont_ne c none k hwf
  cases h
  all_goals (try simp only [exec_proj, upd_same] at *)
  case sLd hpc => have h9 := h8 s.running; exact ⟨fun hx => absurd hx h9.1, fun hx => ⟨hpc, h9.2.2 hx⟩, h9.2.1⟩
  case submitIn => have := h6 (s.scope t == 0); simp_all
  case rSz1 => have := h7; simp_all
  case sJoinW => have := h5; simp_all
  all_goals first
    | (simp_all; done)
    | (simp_all [afterLdRunS, afterLdRunB, afterJoinW, afterSubmit, afterSize]; done)
    | (rename_i k _ _ _; have := hne _ k (by assumption); simp_all; done)
    | (rename_i hpc; rcases hpc with hpc | ⟨k, hpc⟩ <;> cases hrun : s.running <;> simp_all [afterLdRunB]; done)
    | (refine ⟨?_, ?_, ?_⟩ <;> (try split) <;> simp_all [afterLdRunS, afterLdRunB, afterJoinW, afterSubmit, afterSize]; done)

theorem popctx_role (ctx : PopCtx) : ctx.role = .worker ∨ ctx.role = .bal := by cases ctx <;> simp [PopCtx.role]

/-- closing tactic of the per-case goals: normalise projections of the successor state, then `grind` -/
macro "exec_close" : tactic => `(tactic| (
  (try simp only [exec_proj, upd_same] at *)
  first
    | done
    | grind [upd, Pc.role, Pc.inTask, claimPc, dispatchPc, PopCtx.onEmpty, PopCtx.role, PopCtx.queue, afterLdRunS,
        afterLdRunB, afterJoinW, afterSubmit, afterSize, slotAvailable, role_chk, popctx_role]))

section
variable {c : Cfg} {s s' : State} {t : Nat} {lb : Lbl}

theorem Inv1.step_r3 (I : Inv1 c s) (h : StepCase c s t lb s') :
    ∀ u, (s'.pc u).role = .stopper → s'.stopper = some u := by
  intro u hr
  have hfr := pc_frame h
  have h3 := I.r3 u
  have h6 := I.r6
  by_cases hu : u = t
  · subst hu
    clear hfr I
    cases h <;> exec_close
  · rw [hfr u hu] at hr
    have h3' := h3 hr
    clear hfr I
    cases h <;> exec_close

theorem Inv1.step_r6 (I : Inv1 c s) (h : StepCase c s t lb s') : s'.stopCalled = false → s'.stopper = none := by
  have h6 := I.r6
  clear I
  cases h <;> exec_close

theorem Inv1.step_run0 (I : Inv1 c s) (h : StepCase c s t lb s') : s'.stopCalled = false → s'.running = true := by
  have h0 := I.run0
  have h3 := I.r3 t
  have h6 := I.r6
  clear I
  cases h <;> exec_close

theorem Inv1.step_run1 (I : Inv1 c s) (h : StepCase c s t lb s') :
    ∀ u, s'.pc u = .sLd ∨ s'.pc u = .sSt → s'.running = true := by
  intro u hr
  have hfr := pc_frame h
  have he := entry_frame h (I.wf t)
  have h0 := I.run0
  by_cases hu : u = t
  · subst hu
    rcases running_frame h with h1 | h1
    · rw [h1]
      rcases hr with hr | hr
      · exact h0 (he.1 hr).2
      · exact (he.2.1 hr).2
    · have := afterStore_ne c
      rw [h1.2.2] at hr
      rcases hr with hr | hr
      · exact absurd hr this.1
      · exact absurd hr this.2
  · rw [hfr u hu] at hr
    have h1 := I.run1 u hr
    rcases running_frame h with h2 | h2
    · rw [h2]; exact h1
    · -- two threads inside stop(): impossible, there is one stopper
      exfalso
      have ht : (s.pc t).role = .stopper := by rw [h2.1]; rfl
      have hu' : (s.pc u).role = .stopper := by rcases hr with hr | hr <;> (rw [hr]; rfl)
      have := I.r3 t ht
      have := I.r3 u hu'
      simp_all

theorem Inv1.step_o1 (I : Inv1 c s) (h : StepCase c s t lb s') :
    ∀ k w, s'.owner k = some w → s'.own w = some k := by
  intro k w how
  have o1 := I.o1
  have o3 := I.o3
  rcases own_frame h with h1 | ⟨k0, hpc, hav, h1, h2, _⟩
  · rw [h1.1]; rw [h1.2] at how; exact o1 k w how
  · rw [h1]; rw [h2] at how
    simp only [upd_apply] at *
    by_cases hk : k = k0
    · simp [hk] at how; subst how; simp [hk]
    · simp [hk] at how
      have := o1 k w how
      by_cases hw : w = t
      · subst hw; rw [o3 _ hpc] at this; cases this
      · simp [hw, this]

theorem Inv1.step_o2 (I : Inv1 c s) (h : StepCase c s t lb s') :
    ∀ w k, s'.own w = some k → (s'.pc w).role = .worker → s'.owner k = some w := by
  intro w k hown hr
  have hfr := pc_frame h
  have hrole := role_step h
  have o2 := I.o2
  have o1 := I.o1
  have o3 := I.o3
  have hold : s.pc w ≠ .exited := by
    intro hx
    by_cases hw : w = t
    · subst hw; cases h <;> simp_all
    · rw [hfr w hw] at hr; rw [hx] at hr; simp [Pc.role] at hr
  have hr' : s.own w = some k → (s.pc w).role = .worker := by
    intro _
    by_cases hw : w = t
    · subst hw
      rcases hrole with h1 | h1 | h1
      · exact h1 ▸ hr
      · rw [h1] at hr; simp [Pc.role] at hr
      · exact absurd hr h1.2.2.2.1
    · rw [hfr w hw] at hr; exact hr
  rcases own_frame h with h1 | ⟨k0, hpc, hav, h1, h2, hrw, hnw⟩
  · rw [h1.2]; rw [h1.1] at hown; exact o2 w k hown (hr' hown)
  · rw [h2]; rw [h1] at hown
    simp only [upd_apply] at *
    by_cases hw : w = t
    · subst hw; simp at hown; subst hown; simp
    · simp [hw] at hown
      have hwk := o2 w k hown (hr' hown)
      by_cases hk : k = k0
      · subst hk
        -- the slot was available: its owner `w` has exited, but `w` is a live worker
        simp [slotAvailable, hwk] at hav
        exact absurd hav hold
      · simp [hk, hwk]

theorem Inv1.step_o3 (I : Inv1 c s) (h : StepCase c s t lb s') : ∀ w, s'.pc w = .wInit → s'.own w = none := by
  intro w hw
  have hfr := pc_frame h
  have he := entry_frame h (I.wf t)
  by_cases hu : w = t
  · subst hu; exact absurd hw he.2.2
  · rw [hfr w hu] at hw
    have := I.o3 w hw
    rcases own_frame h with h1 | ⟨k0, hpc, hav, h1, h2, _⟩
    · rw [h1.1]; exact this
    · rw [h1]; simp [upd_apply, hu, this]

theorem Inv1.step_o4 (I : Inv1 c s) (h : StepCase c s t lb s') :
    ∀ w, (s'.pc w).role = .worker → s'.pc w ≠ .wInit → s'.own w ≠ none := by
  intro w hr hne
  have hfr := pc_frame h
  have hrole := role_step h
  have o4 := I.o4
  by_cases hu : w = t
  · subst hu
    by_cases hi : s.pc w = .wInit
    · clear hrole hfr I o4; cases h <;> simp_all
    · have hwk : (s.pc w).role = .worker := by
        rcases hrole with h3 | h3 | h3
        · exact h3 ▸ hr
        · rw [h3] at hr; simp [Pc.role] at hr
        · exact absurd hr h3.2.2.2.1
      have := o4 w hwk hi
      rcases own_frame h with h1 | ⟨k0, hpc, _⟩
      · rw [h1.1]; exact this
      · exact absurd hpc hi
  · rw [hfr w hu] at hr hne
    have := o4 w hr hne
    rcases own_frame h with h1 | ⟨k0, hpc, hav, h1, h2, _⟩
    · rw [h1.1]; exact this
    · rw [h1]; simp [upd_apply, hu]; exact this

theorem Inv1.step_o5 (I : Inv1 c s) (h : StepCase c s t lb s') : ∀ w k, s'.own w = some k → w ∈ c.workers := by
  intro w k hown
  rcases own_frame h with h1 | ⟨k0, hpc, hav, h1, h2, _⟩
  · rw [h1.1] at hown; exact I.o5 w k hown
  · rw [h1] at hown
    by_cases hw : w = t
    · subst hw; exact I.r1 w (by rw [hpc]; rfl)
    · simp [upd_apply, hw] at hown; exact I.o5 w k hown

theorem Inv1.step_sc (I : Inv1 c s) (h : StepCase c s t lb s') : ∀ u, (s'.pc u).inTask = false → s'.scope u = 0 := by
  intro u hin
  have hfr := pc_frame h
  have hsc := I.sc
  rcases scope_frame h with h1 | ⟨v, h1, h2, h3⟩
  · rw [h1]
    by_cases hu : u = t
    · subst hu
      by_cases hold : (s.pc u).inTask = false
      · exact hsc u hold
      · -- the thread leaves the task: only `done`, which requires scope 0
        clear hfr I hsc
        cases h
        case bLdRun hpc => rcases hpc with hpc | ⟨k, hpc⟩ <;> simp_all [Pc.inTask]
        all_goals simp_all [Pc.inTask]
    · rw [hfr u hu] at hin; exact hsc u hin
  · rw [h3]
    by_cases hu : u = t
    · subst hu; rw [h2] at hin; cases hin
    · rw [hfr u hu] at hin; simp [upd_apply, hu]; exact hsc u hin

theorem Inv1.step (I : Inv1 c s) (h : StepCase c s t lb s') : Inv1 c s' := by
  have hfr := pc_frame h
  have hrole := role_step h
  refine ⟨?_, ?_, ?_, I.step_r3 h, ?_, ?_, I.step_r6 h, I.step_run0 h, I.step_run1 h, I.step_o1 h, I.step_o2 h,
    I.step_o3 h, I.step_o4 h, I.step_o5 h, I.step_sc h⟩
  · -- wf
    intro u
    by_cases hu : u = t
    · subst hu; exact wf_step h (I.wf _)
    · rw [hfr u hu]; exact I.wf u
  · -- r1
    intro u hr
    by_cases hu : u = t
    · subst hu
      rcases hrole with h1 | h1 | h1
      · exact I.r1 _ (h1 ▸ hr)
      · rw [h1] at hr; simp [Pc.role] at hr
      · exact absurd hr h1.2.2.2.1
    · rw [hfr u hu] at hr; exact I.r1 u hr
  · -- r2
    intro u hr
    by_cases hu : u = t
    · subst hu
      rcases hrole with h1 | h1 | h1
      · exact I.r2 _ (h1 ▸ hr)
      · rw [h1] at hr; simp [Pc.role] at hr
      · exact absurd hr h1.2.2.2.2
    · rw [hfr u hu] at hr; exact I.r2 u hr
  · -- r4
    intro u hw
    by_cases hu : u = t
    · subst hu
      rcases I.r4 _ hw with h4 | h4
      · rcases hrole with h1 | h1 | h1
        · exact Or.inl (h1 ▸ h4)
        · exact Or.inr h1
        · exact absurd h4 h1.2.1
      · clear hrole hfr I
        cases h <;> simp_all
    · rw [hfr u hu]; exact I.r4 u hw
  · -- r5
    intro u hb
    by_cases hu : u = t
    · subst hu
      rcases I.r5 _ hb with h4 | h4
      · rcases hrole with h1 | h1 | h1
        · exact Or.inl (h1 ▸ h4)
        · exact Or.inr h1
        · exact absurd h4 h1.2.2.1
      · clear hrole hfr I
        cases h <;> simp_all
    · rw [hfr u hu]; exact I.r5 u hb

end

/-- `Inv1` holds in every reachable state -/
theorem Inv1.reachable (c : Cfg) (hc : c.WF) (s : State) (h : Reachable (· = State.init c) (Step c) s) : Inv1 c s := by
  refine Reachable.invariant (Inv1 c) ?_ ?_ s h
  · intro s hs; subst hs; exact Inv1.init c hc
  · intro s s' hI hstep
    obtain ⟨t, lb, hst⟩ := hstep
    exact hI.step (step_cases hst)

end Babylon.Exec
