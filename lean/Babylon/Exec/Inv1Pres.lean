/-
  `Inv1` is inductive: it holds initially and every step preserves it.
-/
import Babylon.Exec.Inv1

namespace Babylon.Exec
open Babylon.Core

/-- how a step changes the role of the stepping thread -/
theorem role_step {c : Cfg} {s s' : State} {t : Nat} {lb : Lbl} (h : StepCase c s t lb s') :
    (s'.pc t).role = (s.pc t).role ∨ s'.pc t = .exited ∨
    ((s.pc t = .idle ∨ s'.pc t = .idle) ∧ (s.pc t).role ≠ .worker ∧ (s.pc t).role ≠ .bal ∧
      (s'.pc t).role ≠ .worker ∧ (s'.pc t).role ≠ .bal) := by
  cases h
  all_goals (simp only [setPc_pc, acceptTask_pc, dispatch_pc, onClaim_pc, claimLocal_pc, upd_same])
  all_goals (rename_i hpc; first
    | (rw [hpc]; simp [Pc.role]; done)
    | (rename_i h1 _ ; rw [h1]; simp [Pc.role]; done)
    | (rename_i h1 _ _; rw [h1]; simp [Pc.role]; done)
    | (rename_i h1 _ _ _; rw [h1]; simp [Pc.role]; done)
    | (rename_i h1 _ _ _ _; rw [h1]; simp [Pc.role]; done)
    | (trace_state; sorry))

end Babylon.Exec
