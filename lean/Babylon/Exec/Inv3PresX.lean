/-
  `Inv3` (place of every task, futures, global tickets) is inductive — part X.
-/
import Babylon.Exec.Inv3X
import Babylon.Exec.Inv2Pres

namespace Babylon.Exec
open Babylon.Core

/-- closing tactic for the place goals -/
macro "p_close_X" : tactic => `(tactic| (
  (try simp only [exec_proj, upd_same, Q.claim_fold, Q.bump_fold] at *)
  first
    | done
    | grind [upd, Pc.role, Pc.carry, Pc.exec, claimPc, dispatchPc, PopCtx.onEmpty, PopCtx.role, PopCtx.queue, afterLdRunS,
        afterLdRunB, afterJoinW, role_chk, popctx_role, Pc.pushed,
        Q.itemAt_setSt, Q.stAt_setSt, Q.itemAt_take, Q.stAt_take, Q.length_take, Q.length_setSt, Q.popIdx_setSt, Q.popIdx_take,
        Q.itemAt_claim, Q.stAt_claim, Q.popIdx_claim, Q.length_claim, Q.itemAt_bump, Q.stAt_bump, Q.popIdx_bump, Q.length_bump,
        Item.isTask, Q.itemAt_some_lt, Q.stAt_some_lt]))

section
variable {c : Cfg} {s s' : State} {t : Nat} {lb : Lbl}

set_option maxHeartbeats 4000000 in
theorem Inv3.step_x1 (I : Inv1 c s) (J : Inv2 c s) (K : Inv3 c s) (X : Inv3X s) (h : StepCase c s t lb s') :
    ∀ t' id, (s'.pc t').pushed = some id → s'.known id = true ∧ s'.accepted id = false ∧ (s'.gTicket id ≠ none ∨ s'.viaLocal id = true) := by
  intro t' id hpu
  have x1 := X.x1
  have x2 := X.x2
  have v2 := K.v2
  have t3c := K.t3c
  have b3c := K.b3c
  have a5 := K.a5
  have f2 := K.f2
  have l4 := J.l4
  have hwf := I.wf t
  have hx1 := carry_dispatchPc
  have hx2 := carry_onEmpty
  have hx3 := exec_onEmpty
  have hx4 := carry_markChain c
  have hx5 := markChain_exec c
  have hx6 := carry_afterStore c
  have hx7 := exec_afterStore c
  have hx8 := carry_afterSubmit c
  have hx9 := exec_afterSubmit c
  have hx10 := carry_afterSize c
  have hx11 := exec_afterSize c
  have hx14 := role_afterSubmit c
  have hx15 := role_afterSize c
  have hy1 := pushed_dispatchPc
  have hy2 := pushed_onEmpty
  have hy3 := pushed_markChain c
  have hy4 := pushed_afterStore c
  have hy5 := pushed_afterSubmit c
  have hy6 := pushed_afterSize c
  have hy7 := pushed_afterLdRunS
  have hy8 := pushed_afterLdRunB
  have hy9 := pushed_afterJoinW c
  have hy10 := pushed_claimPc
  have hpk : ∀ x k, s.pc t = .gTake x k → k.pushed = none ∨ ∃ id, x = .task id ∧ k.pushed = some id := by
    intro x k hp; rw [hp] at hwf; exact pushed_cont c x k hwf
  have hx1t := X.x1 t
  have hwfk : ∀ x k, s.pc t = .gTake x k → ContOK c (some x) k := by
    intro x k hp; rw [hp] at hwf; exact hwf
  have hk : ∀ p k, s.pc t = .gPub p k → k.carry = none := by
    intro p k hp; rw [hp] at hwf; exact carry_cont c none k hwf
  have hb3c := b3c t
  clear I J K X hwf
  cases h
  case popClaim ctx i0 k0 nr cl hpc hq hi hcell hfull =>
    have hit := (isTask_iff cl.item).mp (l4 k0 i0 cl hcell)
    obtain ⟨idx, hidx⟩ := hit
    have hc1 := Q.itemAt_eq _ _ _ hcell
    have hc2 := Q.stAt_eq _ _ _ hcell
    have hc3 : i0 < (s.l k0).cells.length := Q.stAt_some_lt _ _ _ hc2
    rw [hidx] at hc1; rw [hfull] at hc2
    clear hcell l4
    cases ctx <;> simp only [hidx] at * <;> p_close_X
  case wRecv i0 cl hpc hcell hfull =>
    have hc1 := Q.itemAt_eq _ _ _ hcell
    have hc2 := Q.stAt_eq _ _ _ hcell
    have hc3 : i0 < s.g.cells.length := Q.stAt_some_lt _ _ _ hc2
    rw [hfull] at hc2
    clear hcell l4
    cases hx : cl.item <;> simp only [hx] at * <;> p_close_X
  case gPublish p k hpc hfree hst =>
    have hc3 : p < s.g.cells.length := Q.stAt_some_lt _ _ _ hst
    clear l4; p_close_X
  case rLPub id0 cid p k0 hpc hown hfree hst =>
    have hc3 : p < (s.l k0).cells.length := Q.stAt_some_lt _ _ _ hst
    clear l4; p_close_X
  case gTakeTask id0 k hpc =>
    clear l4
    dsimp only at hpu ⊢
    by_cases ht : t' = t
    · subst ht
      simp only [upd_same, Pc.pushed] at hpu
      rcases hpk _ _ hpc with hn | ⟨id1, hx, hp1⟩
      · rw [hn] at hpu; cases hpu
      · injection hx with hx
        rw [hp1] at hpu; injection hpu with hpu
        have hid : id = id0 := by rw [← hpu, ← hx]
        subst hid
        have hcar : (s.pc t').carry = some id := by rw [hpc]; rfl
        have hrole : (s.pc t').role ≠ .bal := by
          rw [hpc]; simp only [Pc.role]
          exact pushed_cont_role c _ k (hwfk _ _ hpc) id1 hp1
        have hv := v2 t' id hcar hrole
        have hk' : s.known id = true := by
          have := b3c t' id hcar
          cases hkn : s.known id with
          | true => rfl
          | false => rw [(a5 id).mpr hkn] at this; cases this
        exact ⟨hk', hv.2, Or.inl (by simp [upd])⟩
    · have hpu' : (s.pc t').pushed = some id := by simpa [upd, ht] using hpu
      obtain ⟨h1, h2, h3⟩ := x1 t' id hpu'
      refine ⟨h1, h2, ?_⟩
      by_cases hid : id = id0
      · left; simp [upd, hid]
      · simpa [upd, hid] using h3
  all_goals (clear l4; try p_close_X)

set_option maxHeartbeats 4000000 in
theorem Inv3.step_x2 (I : Inv1 c s) (J : Inv2 c s) (K : Inv3 c s) (X : Inv3X s) (h : StepCase c s t lb s') :
    ∀ t1 t2 id, (s'.pc t1).pushed = some id → (s'.pc t2).pushed = some id → t1 = t2 := by
  intro t1 t2 id h1 h2
  have x1 := X.x1
  have x2 := X.x2
  have v2 := K.v2
  have t3c := K.t3c
  have b3c := K.b3c
  have l4 := J.l4
  have hwf := I.wf t
  have hx1 := carry_dispatchPc
  have hx2 := carry_onEmpty
  have hx3 := exec_onEmpty
  have hx4 := carry_markChain c
  have hx5 := markChain_exec c
  have hx6 := carry_afterStore c
  have hx7 := exec_afterStore c
  have hx8 := carry_afterSubmit c
  have hx9 := exec_afterSubmit c
  have hx10 := carry_afterSize c
  have hx11 := exec_afterSize c
  have hx14 := role_afterSubmit c
  have hx15 := role_afterSize c
  have hy1 := pushed_dispatchPc
  have hy2 := pushed_onEmpty
  have hy3 := pushed_markChain c
  have hy4 := pushed_afterStore c
  have hy5 := pushed_afterSubmit c
  have hy6 := pushed_afterSize c
  have hy7 := pushed_afterLdRunS
  have hy8 := pushed_afterLdRunB
  have hy9 := pushed_afterJoinW c
  have hy10 := pushed_claimPc
  have hpk : ∀ x k, s.pc t = .gTake x k → k.pushed = none ∨ ∃ id, x = .task id ∧ k.pushed = some id := by
    intro x k hp; rw [hp] at hwf; exact pushed_cont c x k hwf
  have hx1t := X.x1 t
  have hwfk : ∀ x k, s.pc t = .gTake x k → ContOK c (some x) k := by
    intro x k hp; rw [hp] at hwf; exact hwf
  have hk : ∀ p k, s.pc t = .gPub p k → k.carry = none := by
    intro p k hp; rw [hp] at hwf; exact carry_cont c none k hwf
  have hb3c := b3c t
  clear I J K X hwf
  cases h
  case popClaim ctx i0 k0 nr cl hpc hq hi hcell hfull =>
    have hit := (isTask_iff cl.item).mp (l4 k0 i0 cl hcell)
    obtain ⟨idx, hidx⟩ := hit
    have hc1 := Q.itemAt_eq _ _ _ hcell
    have hc2 := Q.stAt_eq _ _ _ hcell
    have hc3 : i0 < (s.l k0).cells.length := Q.stAt_some_lt _ _ _ hc2
    rw [hidx] at hc1; rw [hfull] at hc2
    clear hcell l4
    cases ctx <;> simp only [hidx] at * <;> p_close_X
  case wRecv i0 cl hpc hcell hfull =>
    have hc1 := Q.itemAt_eq _ _ _ hcell
    have hc2 := Q.stAt_eq _ _ _ hcell
    have hc3 : i0 < s.g.cells.length := Q.stAt_some_lt _ _ _ hc2
    rw [hfull] at hc2
    clear hcell l4
    cases hx : cl.item <;> simp only [hx] at * <;> p_close_X
  case gPublish p k hpc hfree hst =>
    have hc3 : p < s.g.cells.length := Q.stAt_some_lt _ _ _ hst
    clear l4; p_close_X
  case rLPub id0 cid p k0 hpc hown hfree hst =>
    have hc3 : p < (s.l k0).cells.length := Q.stAt_some_lt _ _ _ hst
    clear l4; p_close_X
  case gTakeTask id0 k hpc =>
    clear l4
    dsimp only at h1 h2
    have hcon : ∀ u, u ≠ t → (s.pc u).pushed = some id → (upd s.pc t (.gPub s.g.cells.length k) t).pushed = some id → False := by
      intro u hu hpu hpt
      simp only [upd_same, Pc.pushed] at hpt
      rcases hpk _ _ hpc with hn | ⟨id1, hx, hp1⟩
      · rw [hn] at hpt; cases hpt
      · injection hx with hx
        rw [hp1] at hpt; injection hpt with hpt
        have hid : id = id0 := by rw [← hpt, ← hx]
        subst hid
        have hcar : (s.pc t).carry = some id := by rw [hpc]; rfl
        have hrole : (s.pc t).role ≠ .bal := by
          rw [hpc]; simp only [Pc.role]
          exact pushed_cont_role c _ k (hwfk _ _ hpc) id1 hp1
        have hv := v2 t id hcar hrole
        have hg := t3c t id hcar
        obtain ⟨_, _, h3⟩ := x1 u id hpu
        rcases h3 with h3 | h3
        · exact h3 hg
        · rw [hv.1] at h3; cases h3
    by_cases ha : t1 = t <;> by_cases hb : t2 = t
    · rw [ha, hb]
    · exfalso; subst ha
      have h2' : (s.pc t2).pushed = some id := by simpa [upd, hb] using h2
      exact hcon t2 hb h2' h1
    · exfalso; subst hb
      have h1' : (s.pc t1).pushed = some id := by simpa [upd, ha] using h1
      exact hcon t1 ha h1' h2
    · have h1' : (s.pc t1).pushed = some id := by simpa [upd, ha] using h1
      have h2' : (s.pc t2).pushed = some id := by simpa [upd, hb] using h2
      exact x2 t1 t2 id h1' h2'
  all_goals (clear l4; try p_close_X)

set_option maxHeartbeats 4000000 in
theorem Inv3.step_f2 (I : Inv1 c s) (J : Inv2 c s) (K : Inv3 c s) (X : Inv3X s) (h : StepCase c s t lb s') :
    ∀ id, s'.accepted id = true → s'.known id = true ∧ s'.futValid id = true := by
  intro id ha
  have f2 := K.f2
  have x1 := X.x1
  have l4 := J.l4
  have hwf := I.wf t
  have hx1 := carry_dispatchPc
  have hx2 := carry_onEmpty
  have hx3 := exec_onEmpty
  have hx4 := carry_markChain c
  have hx5 := markChain_exec c
  have hx6 := carry_afterStore c
  have hx7 := exec_afterStore c
  have hx8 := carry_afterSubmit c
  have hx9 := exec_afterSubmit c
  have hx10 := carry_afterSize c
  have hx11 := exec_afterSize c
  have hx14 := role_afterSubmit c
  have hx15 := role_afterSize c
  have hy1 := pushed_dispatchPc
  have hy2 := pushed_onEmpty
  have hy3 := pushed_markChain c
  have hy4 := pushed_afterStore c
  have hy5 := pushed_afterSubmit c
  have hy6 := pushed_afterSize c
  have hy7 := pushed_afterLdRunS
  have hy8 := pushed_afterLdRunB
  have hy9 := pushed_afterJoinW c
  have hy10 := pushed_claimPc
  have hpk : ∀ x k, s.pc t = .gTake x k → k.pushed = none ∨ ∃ id, x = .task id ∧ k.pushed = some id := by
    intro x k hp; rw [hp] at hwf; exact pushed_cont c x k hwf
  have hx1t := X.x1 t
  have hwfk : ∀ x k, s.pc t = .gTake x k → ContOK c (some x) k := by
    intro x k hp; rw [hp] at hwf; exact hwf
  have hk : ∀ p k, s.pc t = .gPub p k → k.carry = none := by
    intro p k hp; rw [hp] at hwf; exact carry_cont c none k hwf
  clear I J K X hwf
  cases h
  case popClaim ctx i0 k0 nr cl hpc hq hi hcell hfull =>
    have hit := (isTask_iff cl.item).mp (l4 k0 i0 cl hcell)
    obtain ⟨idx, hidx⟩ := hit
    have hc1 := Q.itemAt_eq _ _ _ hcell
    have hc2 := Q.stAt_eq _ _ _ hcell
    have hc3 : i0 < (s.l k0).cells.length := Q.stAt_some_lt _ _ _ hc2
    rw [hidx] at hc1; rw [hfull] at hc2
    clear hcell l4
    cases ctx <;> simp only [hidx] at * <;> p_close_X
  case wRecv i0 cl hpc hcell hfull =>
    have hc1 := Q.itemAt_eq _ _ _ hcell
    have hc2 := Q.stAt_eq _ _ _ hcell
    have hc3 : i0 < s.g.cells.length := Q.stAt_some_lt _ _ _ hc2
    rw [hfull] at hc2
    clear hcell l4
    cases hx : cl.item <;> simp only [hx] at * <;> p_close_X
  case gPublish p k hpc hfree hst =>
    have hc3 : p < s.g.cells.length := Q.stAt_some_lt _ _ _ hst
    clear l4; p_close_X
  case rLPub id0 cid p k0 hpc hown hfree hst =>
    have hc3 : p < (s.l k0).cells.length := Q.stAt_some_lt _ _ _ hst
    clear l4; p_close_X
  all_goals (clear l4; try p_close_X)

set_option maxHeartbeats 4000000 in
theorem Inv3.step_v2 (I : Inv1 c s) (J : Inv2 c s) (K : Inv3 c s) (X : Inv3X s) (h : StepCase c s t lb s') :
    ∀ t' id, (s'.pc t').carry = some id → (s'.pc t').role ≠ .bal → s'.viaLocal id = false ∧ s'.accepted id = false := by
  intro t' id hcar hrole
  have v2 := K.v2
  have f2 := K.f2
  have f6 := K.f6
  have a5 := K.a5
  have b3c := K.b3c
  have a6 := K.a6
  have x1 := X.x1
  have t3c := K.t3c
  have l4 := J.l4
  have hwf := I.wf t
  have hx1 := carry_dispatchPc
  have hx2 := carry_onEmpty
  have hx3 := exec_onEmpty
  have hx4 := carry_markChain c
  have hx5 := markChain_exec c
  have hx6 := carry_afterStore c
  have hx7 := exec_afterStore c
  have hx8 := carry_afterSubmit c
  have hx9 := exec_afterSubmit c
  have hx10 := carry_afterSize c
  have hx11 := exec_afterSize c
  have hx14 := role_afterSubmit c
  have hx15 := role_afterSize c
  have hy1 := pushed_dispatchPc
  have hy2 := pushed_onEmpty
  have hy3 := pushed_markChain c
  have hy4 := pushed_afterStore c
  have hy5 := pushed_afterSubmit c
  have hy6 := pushed_afterSize c
  have hy7 := pushed_afterLdRunS
  have hy8 := pushed_afterLdRunB
  have hy9 := pushed_afterJoinW c
  have hy10 := pushed_claimPc
  have hpk : ∀ x k, s.pc t = .gTake x k → k.pushed = none ∨ ∃ id, x = .task id ∧ k.pushed = some id := by
    intro x k hp; rw [hp] at hwf; exact pushed_cont c x k hwf
  have hx1t := X.x1 t
  have hwfk : ∀ x k, s.pc t = .gTake x k → ContOK c (some x) k := by
    intro x k hp; rw [hp] at hwf; exact hwf
  have hk : ∀ p k, s.pc t = .gPub p k → k.carry = none := by
    intro p k hp; rw [hp] at hwf; exact carry_cont c none k hwf
  have hb3c := b3c t
  clear I J K X hwf
  cases h
  case popClaim ctx i0 k0 nr cl hpc hq hi hcell hfull =>
    have hit := (isTask_iff cl.item).mp (l4 k0 i0 cl hcell)
    obtain ⟨idx, hidx⟩ := hit
    have hc1 := Q.itemAt_eq _ _ _ hcell
    have hc2 := Q.stAt_eq _ _ _ hcell
    have hc3 : i0 < (s.l k0).cells.length := Q.stAt_some_lt _ _ _ hc2
    rw [hidx] at hc1; rw [hfull] at hc2
    clear hcell l4
    cases ctx <;> simp only [hidx] at * <;> p_close_X
  case wRecv i0 cl hpc hcell hfull =>
    have hc1 := Q.itemAt_eq _ _ _ hcell
    have hc2 := Q.stAt_eq _ _ _ hcell
    have hc3 : i0 < s.g.cells.length := Q.stAt_some_lt _ _ _ hc2
    rw [hfull] at hc2
    clear hcell l4
    cases hx : cl.item <;> simp only [hx] at * <;> p_close_X
  case gPublish p k hpc hfree hst =>
    have hc3 : p < s.g.cells.length := Q.stAt_some_lt _ _ _ hst
    clear l4; p_close_X
  case rLPub id0 cid p k0 hpc hown hfree hst =>
    have hc3 : p < (s.l k0).cells.length := Q.stAt_some_lt _ _ _ hst
    clear l4; p_close_X
  all_goals (clear l4; try p_close_X)

end
end Babylon.Exec
