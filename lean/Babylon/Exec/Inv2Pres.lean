/-
  `Inv2` (ticket structure of the queues) is inductive.
-/
import Babylon.Exec.Inv2

namespace Babylon.Exec
open Babylon.Core

/-- closing tactic for queue goals -/
macro "q_close" : tactic => `(tactic| (
  (try simp only [exec_proj, upd_same] at *)
  first
    | done
    | grind [upd, Pc.role, Pc.afterEmpty, claimPc, dispatchPc, PopCtx.onEmpty, PopCtx.role, PopCtx.queue, afterLdRunS,
        afterLdRunB, afterJoinW, afterSubmit, afterSize, slotAvailable, role_chk, popctx_role,
        Q.setSt, Q.take, Q.ready, Q.stAt, Q.slotFree]))

section
variable {c : Cfg} {s s' : State} {t : Nat} {lb : Lbl}

set_option maxHeartbeats 2000000 in
theorem Inv2.step_l0 (I : Inv1 c s) (J : Inv2 c s) (h : StepCase c s t lb s') :
    ∀ k, (s'.l k).popIdx ≤ (s'.l k).cells.length := by
  intro k
  have l0 := J.l0
  clear I J
  cases h <;> try q_close
  all_goals (trace_state; sorry)

set_option maxHeartbeats 2000000 in
theorem Inv2.step_l1 (I : Inv1 c s) (J : Inv2 c s) (h : StepCase c s t lb s') :
    ∀ (k i : Nat) (cl : Cell), (s'.l k).cells[i]? = some cl → (cl.st = .free ↔ i < (s'.l k).popIdx) := by
  intro k i cl hc
  have l0 := J.l0
  have l1 := J.l1
  clear I J
  cases h <;> try q_close
  all_goals (trace_state; sorry)

set_option maxHeartbeats 2000000 in
theorem Inv2.step_l2 (I : Inv1 c s) (J : Inv2 c s) (h : StepCase c s t lb s') :
    ∀ (k i : Nat) (cl : Cell), (s'.l k).cells[i]? = some cl → cl.st = .reserved → ∃ w id cid, s'.owner k = some w ∧ s'.pc w = .rLPub id cid i := by
  intro k i cl hc hres
  have l0 := J.l0
  have l1 := J.l1
  have l2 := J.l2
  have l5 := J.l5
  have o1 := I.o1
  have o2 := I.o2
  have o3 := I.o3
  clear I J
  cases h <;> try q_close
  all_goals (trace_state; sorry)

set_option maxHeartbeats 2000000 in
theorem Inv2.step_l3 (I : Inv1 c s) (J : Inv2 c s) (h : StepCase c s t lb s') :
    ∀ k, s'.owner k = none → (s'.l k).cells = [] := by
  intro k hk
  have l3 := J.l3
  have o1 := I.o1
  have o2 := I.o2
  have o3 := I.o3
  clear I J
  cases h <;> try q_close
  all_goals (trace_state; sorry)

set_option maxHeartbeats 2000000 in
theorem Inv2.step_l4 (I : Inv1 c s) (J : Inv2 c s) (h : StepCase c s t lb s') :
    ∀ (k i : Nat) (cl : Cell), (s'.l k).cells[i]? = some cl → ∃ id, cl.item = .task id := by
  intro k i cl hc
  have l4 := J.l4
  clear I J
  cases h <;> try q_close
  all_goals (trace_state; sorry)

set_option maxHeartbeats 2000000 in
theorem Inv2.step_l5 (I : Inv1 c s) (J : Inv2 c s) (h : StepCase c s t lb s') :
    ∀ (w id cid p k : Nat), s'.pc w = .rLPub id cid p → s'.own w = some k → (s'.l k).cells[p]? = some ⟨.task cid, .reserved⟩ := by
  intro w id cid p k hp ho
  have l0 := J.l0
  have l1 := J.l1
  have l5 := J.l5
  have o1 := I.o1
  have o2 := I.o2
  have o3 := I.o3
  clear I J
  cases h <;> try q_close
  all_goals (trace_state; sorry)

set_option maxHeartbeats 2000000 in
theorem Inv2.step_l6 (I : Inv1 c s) (J : Inv2 c s) (h : StepCase c s t lb s') :
    ∀ w k i, s'.pc w = .chk .own i true → s'.own w = some k → (s'.l k).popIdx = i → (s'.l k).cells.length ≤ i := by
  intro w k i hp ho hi
  have l0 := J.l0
  have l1 := J.l1
  have l2 := J.l2
  have l6 := J.l6
  have l7 := J.l7
  have o1 := I.o1
  have o2 := I.o2
  have o3 := I.o3
  clear I J
  cases h <;> try q_close
  all_goals (trace_state; sorry)

set_option maxHeartbeats 2000000 in
theorem Inv2.step_l7 (I : Inv1 c s) (J : Inv2 c s) (h : StepCase c s t lb s') :
    ∀ w k, (s'.pc w).afterEmpty = true → s'.owner k = some w → (s'.l k).cells.length ≤ (s'.l k).popIdx := by
  intro w k ha ho
  have l0 := J.l0
  have l6 := J.l6
  have l7 := J.l7
  have o1 := I.o1
  have o2 := I.o2
  have o3 := I.o3
  clear I J
  cases h <;> try q_close
  all_goals (trace_state; sorry)

set_option maxHeartbeats 2000000 in
theorem Inv2.step_g0 (I : Inv1 c s) (J : Inv2 c s) (h : StepCase c s t lb s') :
    ∀ (i : Nat) (cl : Cell), s'.g.cells[i]? = some cl → s'.g.popIdx ≤ i → cl.st ≠ .free := by
  intro i cl hc hi
  have g0 := J.g0
  have g2 := J.g2
  clear I J
  cases h <;> try q_close
  all_goals (trace_state; sorry)

set_option maxHeartbeats 2000000 in
theorem Inv2.step_g1 (I : Inv1 c s) (J : Inv2 c s) (h : StepCase c s t lb s') :
    ∀ i : Nat, i < s'.g.popIdx → (∃ cl : Cell, s'.g.cells[i]? = some cl ∧ cl.st = .free) ∨ ∃ w, s'.pc w = .wGWait i := by
  intro i hi
  have g1 := J.g1
  have g2 := J.g2
  clear I J
  cases h <;> try q_close
  all_goals (trace_state; sorry)

set_option maxHeartbeats 2000000 in
theorem Inv2.step_g2 (I : Inv1 c s) (J : Inv2 c s) (h : StepCase c s t lb s') :
    ∀ w i, s'.pc w = .wGWait i → i < s'.g.popIdx := by
  intro w i hp
  have g2 := J.g2
  clear I J
  cases h <;> try q_close
  all_goals (trace_state; sorry)

set_option maxHeartbeats 2000000 in
theorem Inv2.step_g3 (I : Inv1 c s) (J : Inv2 c s) (h : StepCase c s t lb s') :
    ∀ (t' p : Nat) (k : Pc), s'.pc t' = .gPub p k → ∃ x, s'.g.cells[p]? = some ⟨x, .reserved⟩ := by
  intro t' p k hp
  have g3 := J.g3
  have g3u := J.g3u
  have g2 := J.g2
  clear I J
  cases h <;> try q_close
  all_goals (trace_state; sorry)

set_option maxHeartbeats 2000000 in
theorem Inv2.step_g3u (I : Inv1 c s) (J : Inv2 c s) (h : StepCase c s t lb s') :
    ∀ t1 t2 p k k', s'.pc t1 = .gPub p k → s'.pc t2 = .gPub p k' → t1 = t2 := by
  intro t1 t2 p k k' h1 h2
  have g3 := J.g3
  have g3u := J.g3u
  clear I J
  cases h <;> try q_close
  all_goals (trace_state; sorry)

set_option maxHeartbeats 2000000 in
theorem Inv2.step_g4 (I : Inv1 c s) (J : Inv2 c s) (h : StepCase c s t lb s') :
    ∀ (p : Nat) (cl : Cell), s'.g.cells[p]? = some cl → cl.st = .reserved → ∃ t' k, s'.pc t' = .gPub p k := by
  intro p cl hc hres
  have g3 := J.g3
  have g3u := J.g3u
  have g4 := J.g4
  have g2 := J.g2
  clear I J
  cases h <;> try q_close
  all_goals (trace_state; sorry)

end
end Babylon.Exec
