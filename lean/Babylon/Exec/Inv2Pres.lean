/-
  `Inv2` (ticket structure of the queues) is inductive.
-/
import Babylon.Exec.Inv2

namespace Babylon.Exec
open Babylon.Core

/-- closing tactic for queue goals -/
macro "q_close" : tactic => `(tactic| (
  (try simp only [exec_proj, upd_same] at *)
  first
    | done
    | grind [upd, Pc.role, Pc.afterEmpty, claimPc, dispatchPc, PopCtx.onEmpty, PopCtx.role, PopCtx.queue, afterLdRunS,
        afterLdRunB, afterJoinW, afterSubmit, afterSize, slotAvailable, role_chk, popctx_role,
        Q.setSt, Q.take, Q.ready, Q.stAt, Q.slotFree, Pc.pubTicket, Item.isTask, Pc.plain]))

/-- Q4 at the owner's own queue: nothing is being published there, so "not ready" means "empty" -/
theorem not_ready_empty {c : Cfg} {s : State} (J : Inv2 c s) (k w : Nat) (how : s.owner k = some w)
    (hpt : (s.pc w).pubTicket = none) (hnr : (s.l k).ready (s.l k).popIdx = false) :
    (s.l k).cells.length ≤ (s.l k).popIdx := by
  apply Nat.le_of_not_lt
  intro hlt
  have hget : (s.l k).cells[(s.l k).popIdx]? = some ((s.l k).cells[(s.l k).popIdx]) := by simp [hlt]
  have h1 := J.l1 k _ _ hget
  have hnf : ((s.l k).cells[(s.l k).popIdx]).st ≠ .free := by
    intro hf; have := h1.mp hf; omega
  have hnfull : ((s.l k).cells[(s.l k).popIdx]).st ≠ .full := by
    intro hf; simp [Q.ready, hget, hf] at hnr
  have hres : (s.l k).stAt (s.l k).popIdx = some .reserved := by
    simp only [Q.stAt, hget, Option.map_some]
    cases hst : ((s.l k).cells[(s.l k).popIdx]).st <;> simp_all
  have := J.l2 k _ w hres how
  rw [hpt] at this; cases this

section
variable {c : Cfg} {s s' : State} {t : Nat} {lb : Lbl}

set_option maxHeartbeats 2000000 in
theorem Inv2.step_l0 (I : Inv1 c s) (J : Inv2 c s) (h : StepCase c s t lb s') :
    ∀ k, (s'.l k).popIdx ≤ (s'.l k).cells.length := by
  intro k
  have l0 := J.l0
  have hwf := I.wf t
  have J0 := J
  have hd := plain_dispatchPc
  have hoe := plain_onEmpty
  have hmc := plain_markChain c
  have has := plain_afterStore c
  have hae1 := afterEmpty_dispatchPc
  have hae2 := afterEmpty_onEmpty
  have hae3 := afterEmpty_markChain c
  have hae4 := afterEmpty_afterStore c
  have hk : ∀ p k, s.pc t = .gPub p k → k.plain ∧ k.afterEmpty = false := by
    intro p k hp; rw [hp] at hwf; exact ⟨plain_cont c none k hwf, afterEmpty_cont c none k hwf⟩
  clear I J hwf
  cases h
  case popClaim ctx i k0 nr cl hpc hq hi hcell hfull =>
    clear J0
    cases ctx <;> cases cl.item <;> q_close
  all_goals (clear J0; try q_close)

set_option maxHeartbeats 2000000 in
theorem Inv2.step_l1 (I : Inv1 c s) (J : Inv2 c s) (h : StepCase c s t lb s') :
    ∀ (k i : Nat) (cl : Cell), (s'.l k).cells[i]? = some cl → (cl.st = .free ↔ i < (s'.l k).popIdx) := by
  intro k i cl hc
  have l0 := J.l0
  have l1 := J.l1
  have hwf := I.wf t
  have J0 := J
  have hd := plain_dispatchPc
  have hoe := plain_onEmpty
  have hmc := plain_markChain c
  have has := plain_afterStore c
  have hae1 := afterEmpty_dispatchPc
  have hae2 := afterEmpty_onEmpty
  have hae3 := afterEmpty_markChain c
  have hae4 := afterEmpty_afterStore c
  have hk : ∀ p k, s.pc t = .gPub p k → k.plain ∧ k.afterEmpty = false := by
    intro p k hp; rw [hp] at hwf; exact ⟨plain_cont c none k hwf, afterEmpty_cont c none k hwf⟩
  clear I J hwf
  cases h
  case popClaim ctx i k0 nr cl hpc hq hi hcell hfull =>
    clear J0
    cases ctx <;> cases cl.item <;> q_close
  all_goals (clear J0; try q_close)

set_option maxHeartbeats 2000000 in
theorem Inv2.step_l2 (I : Inv1 c s) (J : Inv2 c s) (h : StepCase c s t lb s') :
    ∀ (k i w : Nat), (s'.l k).stAt i = some .reserved → s'.owner k = some w → (s'.pc w).pubTicket = some i := by
  intro k i w hres how
  have l0 := J.l0
  have l1 := J.l1
  have l2 := J.l2
  have l3 := J.l3
  have l4 := J.l4
  have l5 := J.l5
  have l7 := J.l7
  have o1 := I.o1
  have o2 := I.o2
  have o3 := I.o3
  have hwf := I.wf t
  have J0 := J
  have hd := plain_dispatchPc
  have hoe := plain_onEmpty
  have hmc := plain_markChain c
  have has := plain_afterStore c
  have hae1 := afterEmpty_dispatchPc
  have hae2 := afterEmpty_onEmpty
  have hae3 := afterEmpty_markChain c
  have hae4 := afterEmpty_afterStore c
  have hk : ∀ p k, s.pc t = .gPub p k → k.plain ∧ k.afterEmpty = false := by
    intro p k hp; rw [hp] at hwf; exact ⟨plain_cont c none k hwf, afterEmpty_cont c none k hwf⟩
  clear I J hwf
  cases h
  case popClaim ctx i k0 nr cl hpc hq hi hcell hfull =>
    have hit := (isTask_iff cl.item).mp (l4 k0 i cl hcell)
    clear J0
    cases ctx <;> (try obtain ⟨idx, hidx⟩ := hit) <;> (try rw [hidx]) <;> q_close
  case rLSt id cid p k0 hpc hown hp =>
    have hrole : (s.pc t).role = .worker := by rw [hpc]; rfl
    have hto := o2 t k0 hown hrole
    have hpt : (s.pc t).pubTicket = none := by rw [hpc]; rfl
    clear J0
    simp only [exec_proj, upd_same, upd_apply] at *
    by_cases hk : k = k0
    · subst hk
      rw [hto] at how; cases how
      simp only [if_true, Pc.pubTicket] at hres ⊢
      by_cases hi : i = (s.l k).cells.length
      · rw [hi, hp]
      · exfalso
        have : (s.l k).stAt i = some .reserved := by
          simp only [Q.stAt, Q.take] at hres ⊢
          rw [List.getElem?_append] at hres
          split at hres
          · exact hres
          · rename_i hlt
            have : i - (s.l k).cells.length ≠ 0 := by omega
            cases hd : i - (s.l k).cells.length with
            | zero => exact absurd hd this
            | succ n => simp [hd] at hres
        have := l2 k i t this hto
        rw [hpt] at this; cases this
    · simp only [hk, if_false] at hres
      have h2 := l2 k i w hres how
      have hwt : w ≠ t := by
        intro hwt; subst hwt
        have := o1 k w how
        rw [hown] at this; cases this; exact hk rfl
      simp only [hwt, if_false]; exact h2
  all_goals (clear J0; try q_close)

set_option maxHeartbeats 2000000 in
theorem Inv2.step_l3 (I : Inv1 c s) (J : Inv2 c s) (h : StepCase c s t lb s') :
    ∀ k, s'.owner k = none → (s'.l k).cells = [] := by
  intro k hk
  have l3 := J.l3
  have o1 := I.o1
  have o2 := I.o2
  have o3 := I.o3
  have hwf := I.wf t
  have J0 := J
  have hd := plain_dispatchPc
  have hoe := plain_onEmpty
  have hmc := plain_markChain c
  have has := plain_afterStore c
  have hae1 := afterEmpty_dispatchPc
  have hae2 := afterEmpty_onEmpty
  have hae3 := afterEmpty_markChain c
  have hae4 := afterEmpty_afterStore c
  have hk : ∀ p k, s.pc t = .gPub p k → k.plain ∧ k.afterEmpty = false := by
    intro p k hp; rw [hp] at hwf; exact ⟨plain_cont c none k hwf, afterEmpty_cont c none k hwf⟩
  clear I J hwf
  cases h
  case popClaim ctx i k0 nr cl hpc hq hi hcell hfull =>
    clear J0
    cases ctx <;> cases cl.item <;> q_close
  all_goals (clear J0; try q_close)

set_option maxHeartbeats 2000000 in
theorem Inv2.step_l4 (I : Inv1 c s) (J : Inv2 c s) (h : StepCase c s t lb s') :
    ∀ (k i : Nat) (cl : Cell), (s'.l k).cells[i]? = some cl → cl.item.isTask = true := by
  intro k i cl hc
  have l4 := J.l4
  have hwf := I.wf t
  have J0 := J
  have hd := plain_dispatchPc
  have hoe := plain_onEmpty
  have hmc := plain_markChain c
  have has := plain_afterStore c
  have hae1 := afterEmpty_dispatchPc
  have hae2 := afterEmpty_onEmpty
  have hae3 := afterEmpty_markChain c
  have hae4 := afterEmpty_afterStore c
  have hk : ∀ p k, s.pc t = .gPub p k → k.plain ∧ k.afterEmpty = false := by
    intro p k hp; rw [hp] at hwf; exact ⟨plain_cont c none k hwf, afterEmpty_cont c none k hwf⟩
  clear I J hwf
  cases h
  case popClaim ctx i k0 nr cl hpc hq hi hcell hfull =>
    have hit := (isTask_iff cl.item).mp (l4 k0 i cl hcell)
    clear J0
    cases ctx <;> (try obtain ⟨idx, hidx⟩ := hit) <;> (try rw [hidx]) <;> q_close
  all_goals (clear J0; try q_close)

set_option maxHeartbeats 2000000 in
theorem Inv2.step_l5 (I : Inv1 c s) (J : Inv2 c s) (h : StepCase c s t lb s') :
    ∀ (w id cid p k : Nat), s'.pc w = .rLPub id cid p → s'.own w = some k → (s'.l k).cells[p]? = some ⟨.task cid, .reserved⟩ := by
  intro w id cid p k hp ho
  have l0 := J.l0
  have l1 := J.l1
  have l4 := J.l4
  have l5 := J.l5
  have o1 := I.o1
  have o2 := I.o2
  have o3 := I.o3
  have hwf := I.wf t
  have J0 := J
  have hd := plain_dispatchPc
  have hoe := plain_onEmpty
  have hmc := plain_markChain c
  have has := plain_afterStore c
  have hae1 := afterEmpty_dispatchPc
  have hae2 := afterEmpty_onEmpty
  have hae3 := afterEmpty_markChain c
  have hae4 := afterEmpty_afterStore c
  have hk : ∀ p k, s.pc t = .gPub p k → k.plain ∧ k.afterEmpty = false := by
    intro p k hp; rw [hp] at hwf; exact ⟨plain_cont c none k hwf, afterEmpty_cont c none k hwf⟩
  clear I J hwf
  cases h
  case popClaim ctx i k0 nr cl hpc hq hi hcell hfull =>
    have hit := (isTask_iff cl.item).mp (l4 k0 i cl hcell)
    clear J0
    cases ctx <;> (try obtain ⟨idx, hidx⟩ := hit) <;> (try rw [hidx]) <;> q_close
  all_goals (clear J0; try q_close)

set_option maxHeartbeats 2000000 in
theorem Inv2.step_l6 (I : Inv1 c s) (J : Inv2 c s) (h : StepCase c s t lb s') :
    ∀ w k i, s'.pc w = .chk .own i true → s'.own w = some k → (s'.l k).popIdx = i → (s'.l k).cells.length ≤ i := by
  intro w k i hp ho hi
  have l0 := J.l0
  have l1 := J.l1
  have l2 := J.l2
  have l3 := J.l3
  have l4 := J.l4
  have l6 := J.l6
  have l7 := J.l7
  have l8 := J.l8
  have o1 := I.o1
  have o2 := I.o2
  have o3 := I.o3
  have hwf := I.wf t
  have J0 := J
  have hd := plain_dispatchPc
  have hoe := plain_onEmpty
  have hmc := plain_markChain c
  have has := plain_afterStore c
  have hae1 := afterEmpty_dispatchPc
  have hae2 := afterEmpty_onEmpty
  have hae3 := afterEmpty_markChain c
  have hae4 := afterEmpty_afterStore c
  have hk : ∀ p k, s.pc t = .gPub p k → k.plain ∧ k.afterEmpty = false := by
    intro p k hp; rw [hp] at hwf; exact ⟨plain_cont c none k hwf, afterEmpty_cont c none k hwf⟩
  clear I J hwf
  cases h
  case popClaim ctx i k0 nr cl hpc hq hi hcell hfull =>
    have hit := (isTask_iff cl.item).mp (l4 k0 i cl hcell)
    clear J0
    cases ctx <;> (try obtain ⟨idx, hidx⟩ := hit) <;> (try rw [hidx]) <;> q_close
  case wTop k0 hpc hown =>
    have hrole : (s.pc t).role = .worker := by rw [hpc]; rfl
    have hto := o2 t k0 hown hrole
    have hpt : (s.pc t).pubTicket = none := by rw [hpc]; rfl
    have hne := not_ready_empty J0 k0 t hto hpt
    q_close
  case popReload ctx i0 k0 nr hpc hq hne0 =>
    cases ctx
    case own =>
      have hrole : (s.pc t).role = .worker := by rw [hpc]; rfl
      have hto := o2 t k0 hq hrole
      have hpt : (s.pc t).pubTicket = none := by rw [hpc]; rfl
      have hne := not_ready_empty J0 k0 t hto hpt
      q_close
    all_goals q_close
  case popCasFail ctx i0 k0 nr hpc hq =>
    cases ctx
    case own =>
      have hrole : (s.pc t).role = .worker := by rw [hpc]; rfl
      have hto := o2 t k0 hq hrole
      have hpt : (s.pc t).pubTicket = none := by rw [hpc]; rfl
      have hne := not_ready_empty J0 k0 t hto hpt
      q_close
    all_goals q_close
  all_goals (clear J0; try q_close)

set_option maxHeartbeats 2000000 in
theorem Inv2.step_l7 (I : Inv1 c s) (J : Inv2 c s) (h : StepCase c s t lb s') :
    ∀ w k, (s'.pc w).afterEmpty = true → s'.owner k = some w → (s'.l k).cells.length ≤ (s'.l k).popIdx := by
  intro w k ha ho
  have l0 := J.l0
  have l4 := J.l4
  have l6 := J.l6
  have l7 := J.l7
  have o1 := I.o1
  have o2 := I.o2
  have o3 := I.o3
  have o5 := I.o5
  have r4 := I.r4
  have r5 := I.r5
  have hwf := I.wf t
  have J0 := J
  have hd := plain_dispatchPc
  have hoe := plain_onEmpty
  have hmc := plain_markChain c
  have has := plain_afterStore c
  have hae1 := afterEmpty_dispatchPc
  have hae2 := afterEmpty_onEmpty
  have hae3 := afterEmpty_markChain c
  have hae4 := afterEmpty_afterStore c
  have hk : ∀ p k, s.pc t = .gPub p k → k.plain ∧ k.afterEmpty = false := by
    intro p k hp; rw [hp] at hwf; exact ⟨plain_cont c none k hwf, afterEmpty_cont c none k hwf⟩
  clear I J hwf
  cases h
  case popClaim ctx i k0 nr cl hpc hq hi hcell hfull =>
    have hit := (isTask_iff cl.item).mp (l4 k0 i cl hcell)
    clear J0
    cases ctx <;> (try obtain ⟨idx, hidx⟩ := hit) <;> (try rw [hidx]) <;> q_close
  case popEmpty ctx i0 k0 hpc hq hi0 =>
    cases ctx <;> q_close
  case popReload ctx i0 k0 nr hpc hq hne0 =>
    cases ctx <;> q_close
  case popCasFail ctx i0 k0 nr hpc hq =>
    cases ctx <;> q_close
  case exitIdle hpc =>
    have : t ∉ c.workers := by intro hw; rcases r4 t hw with h1 | h1 <;> simp [hpc, Pc.role] at h1
    q_close
  case bExit hpc =>
    have : t ∉ c.workers := by intro hw; rcases r4 t hw with h1 | h1 <;> simp [hpc, Pc.role] at h1
    q_close
  all_goals (clear J0; try q_close)

set_option maxHeartbeats 2000000 in
theorem Inv2.step_l8 (I : Inv1 c s) (J : Inv2 c s) (h : StepCase c s t lb s') :
    ∀ w k ctx i nr, s'.pc w = .chk ctx i nr → ctx.queue s' w = some k → i ≤ (s'.l k).popIdx := by
  intro w k ctx i nr hp hq
  have l8 := J.l8
  have l0 := J.l0
  have o3 := I.o3
  have hwf := I.wf t
  have hd := plain_dispatchPc
  have hoe := plain_onEmpty
  have hmc := plain_markChain c
  have has := plain_afterStore c
  have hcl := plain_claimPc
  have hk : ∀ p k, s.pc t = .gPub p k → k.plain := by
    intro p k hp; rw [hp] at hwf; exact plain_cont c none k hwf
  clear I J hwf
  cases h
  case popClaim ctx0 i0 k0 nr0 cl hpc hq0 hi hcell hfull =>
    cases ctx <;> simp only [PopCtx.queue] at hq <;> cases ctx0 <;> q_close
  all_goals (cases ctx <;> simp only [PopCtx.queue] at hq <;> try q_close)

set_option maxHeartbeats 2000000 in
theorem Inv2.step_g0 (I : Inv1 c s) (J : Inv2 c s) (h : StepCase c s t lb s') :
    ∀ (i : Nat) (cl : Cell), s'.g.cells[i]? = some cl → s'.g.popIdx ≤ i → cl.st ≠ .free := by
  intro i cl hc hi
  have g0 := J.g0
  have g2 := J.g2
  have hwf := I.wf t
  have J0 := J
  have hd := plain_dispatchPc
  have hoe := plain_onEmpty
  have hmc := plain_markChain c
  have has := plain_afterStore c
  have hae1 := afterEmpty_dispatchPc
  have hae2 := afterEmpty_onEmpty
  have hae3 := afterEmpty_markChain c
  have hae4 := afterEmpty_afterStore c
  have hk : ∀ p k, s.pc t = .gPub p k → k.plain ∧ k.afterEmpty = false := by
    intro p k hp; rw [hp] at hwf; exact ⟨plain_cont c none k hwf, afterEmpty_cont c none k hwf⟩
  clear I J hwf
  cases h
  case popClaim ctx i k0 nr cl hpc hq hi hcell hfull =>
    clear J0
    cases ctx <;> cases cl.item <;> q_close
  all_goals (clear J0; try q_close)

set_option maxHeartbeats 2000000 in
theorem Inv2.step_g2 (I : Inv1 c s) (J : Inv2 c s) (h : StepCase c s t lb s') :
    ∀ w i, s'.pc w = .wGWait i → i < s'.g.popIdx := by
  intro w i hp
  have g2 := J.g2
  have l4 := J.l4
  have hwf := I.wf t
  have J0 := J
  have hd := plain_dispatchPc
  have hoe := plain_onEmpty
  have hmc := plain_markChain c
  have has := plain_afterStore c
  have hae1 := afterEmpty_dispatchPc
  have hae2 := afterEmpty_onEmpty
  have hae3 := afterEmpty_markChain c
  have hae4 := afterEmpty_afterStore c
  have hk : ∀ p k, s.pc t = .gPub p k → k.plain ∧ k.afterEmpty = false := by
    intro p k hp; rw [hp] at hwf; exact ⟨plain_cont c none k hwf, afterEmpty_cont c none k hwf⟩
  clear I J hwf
  cases h
  case popClaim ctx i k0 nr cl hpc hq hi hcell hfull =>
    have hit := (isTask_iff cl.item).mp (l4 k0 i cl hcell)
    clear J0
    cases ctx <;> (try obtain ⟨idx, hidx⟩ := hit) <;> (try rw [hidx]) <;> q_close
  all_goals (clear J0; try q_close)

set_option maxHeartbeats 2000000 in
theorem Inv2.step_g3 (I : Inv1 c s) (J : Inv2 c s) (h : StepCase c s t lb s') :
    ∀ (t' p : Nat) (k : Pc), s'.pc t' = .gPub p k → s'.g.stAt p = some .reserved := by
  intro t' p k hp
  have g3 := J.g3
  have g3u := J.g3u
  have g2 := J.g2
  have l4 := J.l4
  have hwf := I.wf t
  have J0 := J
  have hd := plain_dispatchPc
  have hoe := plain_onEmpty
  have hmc := plain_markChain c
  have has := plain_afterStore c
  have hae1 := afterEmpty_dispatchPc
  have hae2 := afterEmpty_onEmpty
  have hae3 := afterEmpty_markChain c
  have hae4 := afterEmpty_afterStore c
  have hk : ∀ p k, s.pc t = .gPub p k → k.plain ∧ k.afterEmpty = false := by
    intro p k hp; rw [hp] at hwf; exact ⟨plain_cont c none k hwf, afterEmpty_cont c none k hwf⟩
  clear I J hwf
  cases h
  case popClaim ctx i k0 nr cl hpc hq hi hcell hfull =>
    have hit := (isTask_iff cl.item).mp (l4 k0 i cl hcell)
    clear J0
    cases ctx <;> (try obtain ⟨idx, hidx⟩ := hit) <;> (try rw [hidx]) <;> q_close
  all_goals (clear J0; try q_close)

set_option maxHeartbeats 2000000 in
theorem Inv2.step_g3u (I : Inv1 c s) (J : Inv2 c s) (h : StepCase c s t lb s') :
    ∀ t1 t2 p k k', s'.pc t1 = .gPub p k → s'.pc t2 = .gPub p k' → t1 = t2 := by
  intro t1 t2 p k k' h1 h2
  have g3 := J.g3
  have g3u := J.g3u
  have l4 := J.l4
  have hwf := I.wf t
  have J0 := J
  have hd := plain_dispatchPc
  have hoe := plain_onEmpty
  have hmc := plain_markChain c
  have has := plain_afterStore c
  have hae1 := afterEmpty_dispatchPc
  have hae2 := afterEmpty_onEmpty
  have hae3 := afterEmpty_markChain c
  have hae4 := afterEmpty_afterStore c
  have hk : ∀ p k, s.pc t = .gPub p k → k.plain ∧ k.afterEmpty = false := by
    intro p k hp; rw [hp] at hwf; exact ⟨plain_cont c none k hwf, afterEmpty_cont c none k hwf⟩
  clear I J hwf
  cases h
  case popClaim ctx i k0 nr cl hpc hq hi hcell hfull =>
    have hit := (isTask_iff cl.item).mp (l4 k0 i cl hcell)
    clear J0
    cases ctx <;> (try obtain ⟨idx, hidx⟩ := hit) <;> (try rw [hidx]) <;> q_close
  all_goals (clear J0; try q_close)

theorem stAt_take_free (q : Q) (x : Item) (i : Nat) (h : q.stAt i = some .free) : (q.take x).stAt i = some .free := by
  simp only [Q.stAt, Q.take] at h ⊢
  cases hc : q.cells[i]? with
  | none => simp [hc] at h
  | some cl =>
    have hlt : i < q.cells.length := by
      rcases List.getElem?_eq_some_iff.mp hc with ⟨hl, _⟩; exact hl
    rw [List.getElem?_append_left hlt, hc]; simpa [hc] using h

theorem stAt_setSt_other (q : Q) (p i : Nat) (st : CellSt) (hne : i ≠ p) : (q.setSt p st).stAt i = q.stAt i := by
  simp only [Q.stAt, Q.setSt]
  split
  · simp [List.getElem?_set, hne.symm]
  · rfl

theorem stAt_setSt_same (q : Q) (p : Nat) (st : CellSt) (cl : Cell) (h : q.cells[p]? = some cl) :
    (q.setSt p st).stAt p = some st := by
  have hlt : p < q.cells.length := by
    rcases List.getElem?_eq_some_iff.mp h with ⟨hl, _⟩; exact hl
  simp [Q.stAt, Q.setSt, h, List.getElem?_set, hlt]

set_option maxHeartbeats 1000000 in
theorem Inv2.step_g1 (J : Inv2 c s) (h : StepCase c s t lb s') :
    ∀ i : Nat, i < s'.g.popIdx → s'.g.stAt i = some .free ∨ ∃ w, s'.pc w = .wGWait i := by
  intro i hi
  have g1 := J.g1
  have g2 := J.g2
  cases h
  case wGPop k hpc =>
    simp only [exec_proj] at hi ⊢
    by_cases hi' : i = s.g.popIdx
    · right; exact ⟨t, by simp [hi']⟩
    · have hlt : i < s.g.popIdx := by omega
      rcases g1 i hlt with h1 | ⟨w, hw⟩
      · left; simpa [Q.stAt] using h1
      · right
        have hwt : w ≠ t := by intro e; subst e; rw [hpc] at hw; cases hw
        exact ⟨w, by simp [upd_apply, hwt, hw]⟩
  case wRecv i0 cl hpc hcell hfull =>
    simp only [exec_proj] at hi ⊢
    have hpop : (s.g.setSt i0 .free).popIdx = s.g.popIdx := by simp only [Q.setSt]; split <;> rfl
    rw [hpop] at hi
    by_cases hi' : i = i0
    · left; rw [hi']; exact stAt_setSt_same _ _ _ _ hcell
    · rcases g1 i hi with h1 | ⟨w, hw⟩
      · left; rw [stAt_setSt_other _ _ _ _ hi']; exact h1
      · right
        have hwt : w ≠ t := by intro e; subst e; rw [hpc] at hw; cases hw; exact hi' rfl
        exact ⟨w, by simp [upd_apply, hwt, hw]⟩
  case gPublish p k hpc hfree hst =>
    simp only [exec_proj] at hi ⊢
    have hpop : (s.g.setSt p .full).popIdx = s.g.popIdx := by simp only [Q.setSt]; split <;> rfl
    rw [hpop] at hi
    rcases g1 i hi with h1 | ⟨w, hw⟩
    · left
      have : i ≠ p := by intro e; subst e; rw [hst] at h1; cases h1
      rw [stAt_setSt_other _ _ _ _ this]; exact h1
    · right
      have hwt : w ≠ t := by intro e; subst e; rw [hpc] at hw; cases hw
      exact ⟨w, by simp [upd_apply, hwt, hw]⟩
  case gTakeTask id k hpc =>
    simp only [exec_proj] at hi ⊢
    rcases g1 i (by simpa [Q.take] using hi) with h1 | ⟨w, hw⟩
    · left; exact stAt_take_free _ _ _ h1
    · right
      have hwt : w ≠ t := by intro e; subst e; rw [hpc] at hw; cases hw
      exact ⟨w, by simp [upd_apply, hwt, hw]⟩
  case gTakeStop k hpc =>
    simp only [exec_proj] at hi ⊢
    rcases g1 i (by simpa [Q.take] using hi) with h1 | ⟨w, hw⟩
    · left; exact stAt_take_free _ _ _ h1
    · right
      have hwt : w ≠ t := by intro e; subst e; rw [hpc] at hw; cases hw
      exact ⟨w, by simp [upd_apply, hwt, hw]⟩
  case gTakeWakeup k hpc =>
    simp only [exec_proj] at hi ⊢
    rcases g1 i (by simpa [Q.take] using hi) with h1 | ⟨w, hw⟩
    · left; exact stAt_take_free _ _ _ h1
    · right
      have hwt : w ≠ t := by intro e; subst e; rw [hpc] at hw; cases hw
      exact ⟨w, by simp [upd_apply, hwt, hw]⟩
  case bLdRun hpc =>
    simp only [exec_proj] at hi ⊢
    rcases g1 i hi with h1 | ⟨w, hw⟩
    · exact Or.inl h1
    · right
      have hwt : w ≠ t := by intro e; subst e; rcases hpc with hpc | ⟨k, hpc⟩ <;> (rw [hpc] at hw; cases hw)
      exact ⟨w, by simp [upd_apply, hwt, hw]⟩
  all_goals
    ((try simp only [exec_proj] at hi ⊢)
     rcases g1 i hi with h1 | ⟨w, hw⟩
     · exact Or.inl h1
     · right
       have hwt : w ≠ t := by intro e; subst e; simp_all
       exact ⟨w, by simp [upd_apply, hwt, hw]⟩)

theorem Inv2.step (I : Inv1 c s) (J : Inv2 c s) (h : StepCase c s t lb s') : Inv2 c s' :=
  ⟨J.step_l0 I h, J.step_l1 I h, J.step_l2 I h, J.step_l3 I h, J.step_l4 I h, J.step_l5 I h, J.step_l6 I h,
   J.step_l7 I h, J.step_l8 I h, J.step_g0 I h, J.step_g1 h, J.step_g2 I h, J.step_g3 I h, J.step_g3u I h⟩

end

/-- `Inv1` and `Inv2` hold in every reachable state -/
theorem Inv12.reachable (c : Cfg) (hc : c.WF) (s : State) (h : Reachable (· = State.init c) (Step c) s) :
    Inv1 c s ∧ Inv2 c s := by
  refine Reachable.invariant (fun s => Inv1 c s ∧ Inv2 c s) ?_ ?_ s h
  · intro s hs; subst hs; exact ⟨Inv1.init c hc, Inv2.init c⟩
  · intro s s' hI hstep
    obtain ⟨t, lb, hst⟩ := hstep
    exact ⟨hI.1.step (step_cases hst), hI.2.step hI.1 (step_cases hst)⟩

end Babylon.Exec
