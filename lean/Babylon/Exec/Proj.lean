/-
  Projection lemmas for the helper functions of the executor model (which field a helper changes,
  and how), and the auxiliary functions the invariants are stated with.  GENERATED mechanically by
  the author from the list of `State` fields; proofs are `rfl` / case splits.
-/
import Babylon.Exec.Cases

namespace Babylon.Exec

@[simp, exec_proj] theorem upd_same {α : Type} (f : Nat → α) (i : Nat) (v : α) : upd f i v i = v := by simp [upd]
theorem upd_other {α : Type} (f : Nat → α) (i j : Nat) (v : α) (h : j ≠ i) : upd f i v j = f j := by simp [upd, h]
theorem upd_apply {α : Type} (f : Nat → α) (i j : Nat) (v : α) : upd f i v j = if j = i then v else f j := rfl

/-- pc of a worker after `dispatch` -/
def dispatchPc : Item → Pc
  | .task id => .wPre id
  | .stop => .wStopping
  | .wakeup => .wTop

@[simp, exec_proj] theorem setPc_g (s : State) (t : Nat) (p : Pc) : (setPc s t p).g = s.g := by
  rfl
@[simp, exec_proj] theorem setPc_l (s : State) (t : Nat) (p : Pc) : (setPc s t p).l = s.l := by
  rfl
@[simp, exec_proj] theorem setPc_own (s : State) (t : Nat) (p : Pc) : (setPc s t p).own = s.own := by
  rfl
@[simp, exec_proj] theorem setPc_owner (s : State) (t : Nat) (p : Pc) : (setPc s t p).owner = s.owner := by
  rfl
@[simp, exec_proj] theorem setPc_scope (s : State) (t : Nat) (p : Pc) : (setPc s t p).scope = s.scope := by
  rfl
@[simp, exec_proj] theorem setPc_running (s : State) (t : Nat) (p : Pc) : (setPc s t p).running = s.running := by
  rfl
@[simp, exec_proj] theorem setPc_known (s : State) (t : Nat) (p : Pc) : (setPc s t p).known = s.known := by
  rfl
@[simp, exec_proj] theorem setPc_loc (s : State) (t : Nat) (p : Pc) : (setPc s t p).loc = s.loc := by
  rfl
@[simp, exec_proj] theorem setPc_accepted (s : State) (t : Nat) (p : Pc) : (setPc s t p).accepted = s.accepted := by
  rfl
@[simp, exec_proj] theorem setPc_rejected (s : State) (t : Nat) (p : Pc) : (setPc s t p).rejected = s.rejected := by
  rfl
@[simp, exec_proj] theorem setPc_preStop (s : State) (t : Nat) (p : Pc) : (setPc s t p).preStop = s.preStop := by
  rfl
@[simp, exec_proj] theorem setPc_viaLocal (s : State) (t : Nat) (p : Pc) : (setPc s t p).viaLocal = s.viaLocal := by
  rfl
@[simp, exec_proj] theorem setPc_runs (s : State) (t : Nat) (p : Pc) : (setPc s t p).runs = s.runs := by
  rfl
@[simp, exec_proj] theorem setPc_done (s : State) (t : Nat) (p : Pc) : (setPc s t p).done = s.done := by
  rfl
@[simp, exec_proj] theorem setPc_futValid (s : State) (t : Nat) (p : Pc) : (setPc s t p).futValid = s.futValid := by
  rfl
@[simp, exec_proj] theorem setPc_futReady (s : State) (t : Nat) (p : Pc) : (setPc s t p).futReady = s.futReady := by
  rfl
@[simp, exec_proj] theorem setPc_stopCalled (s : State) (t : Nat) (p : Pc) : (setPc s t p).stopCalled = s.stopCalled := by
  rfl
@[simp, exec_proj] theorem setPc_stopReturned (s : State) (t : Nat) (p : Pc) : (setPc s t p).stopReturned = s.stopReturned := by
  rfl
@[simp, exec_proj] theorem setPc_exitTicket (s : State) (t : Nat) (p : Pc) : (setPc s t p).exitTicket = s.exitTicket := by
  rfl
@[simp, exec_proj] theorem setPc_markers (s : State) (t : Nat) (p : Pc) : (setPc s t p).markers = s.markers := by
  rfl
@[simp, exec_proj] theorem setPc_gTicket (s : State) (t : Nat) (p : Pc) : (setPc s t p).gTicket = s.gTicket := by
  rfl
@[simp, exec_proj] theorem setPc_firstMarker (s : State) (t : Nat) (p : Pc) : (setPc s t p).firstMarker = s.firstMarker := by
  rfl
@[simp, exec_proj] theorem setPc_stopper (s : State) (t : Nat) (p : Pc) : (setPc s t p).stopper = s.stopper := by
  rfl
@[simp, exec_proj] theorem setPc_pc (s : State) (t : Nat) (p : Pc) : (setPc s t p).pc = upd s.pc t p := rfl
@[simp, exec_proj] theorem acceptTask_g (s : State) (id : Nat) : (acceptTask s id).g = s.g := by
  rfl
@[simp, exec_proj] theorem acceptTask_l (s : State) (id : Nat) : (acceptTask s id).l = s.l := by
  rfl
@[simp, exec_proj] theorem acceptTask_pc (s : State) (id : Nat) : (acceptTask s id).pc = s.pc := by
  rfl
@[simp, exec_proj] theorem acceptTask_own (s : State) (id : Nat) : (acceptTask s id).own = s.own := by
  rfl
@[simp, exec_proj] theorem acceptTask_owner (s : State) (id : Nat) : (acceptTask s id).owner = s.owner := by
  rfl
@[simp, exec_proj] theorem acceptTask_scope (s : State) (id : Nat) : (acceptTask s id).scope = s.scope := by
  rfl
@[simp, exec_proj] theorem acceptTask_running (s : State) (id : Nat) : (acceptTask s id).running = s.running := by
  rfl
@[simp, exec_proj] theorem acceptTask_known (s : State) (id : Nat) : (acceptTask s id).known = s.known := by
  rfl
@[simp, exec_proj] theorem acceptTask_loc (s : State) (id : Nat) : (acceptTask s id).loc = s.loc := by
  rfl
@[simp, exec_proj] theorem acceptTask_rejected (s : State) (id : Nat) : (acceptTask s id).rejected = s.rejected := by
  rfl
@[simp, exec_proj] theorem acceptTask_viaLocal (s : State) (id : Nat) : (acceptTask s id).viaLocal = s.viaLocal := by
  rfl
@[simp, exec_proj] theorem acceptTask_runs (s : State) (id : Nat) : (acceptTask s id).runs = s.runs := by
  rfl
@[simp, exec_proj] theorem acceptTask_done (s : State) (id : Nat) : (acceptTask s id).done = s.done := by
  rfl
@[simp, exec_proj] theorem acceptTask_futReady (s : State) (id : Nat) : (acceptTask s id).futReady = s.futReady := by
  rfl
@[simp, exec_proj] theorem acceptTask_stopCalled (s : State) (id : Nat) : (acceptTask s id).stopCalled = s.stopCalled := by
  rfl
@[simp, exec_proj] theorem acceptTask_stopReturned (s : State) (id : Nat) : (acceptTask s id).stopReturned = s.stopReturned := by
  rfl
@[simp, exec_proj] theorem acceptTask_exitTicket (s : State) (id : Nat) : (acceptTask s id).exitTicket = s.exitTicket := by
  rfl
@[simp, exec_proj] theorem acceptTask_markers (s : State) (id : Nat) : (acceptTask s id).markers = s.markers := by
  rfl
@[simp, exec_proj] theorem acceptTask_gTicket (s : State) (id : Nat) : (acceptTask s id).gTicket = s.gTicket := by
  rfl
@[simp, exec_proj] theorem acceptTask_firstMarker (s : State) (id : Nat) : (acceptTask s id).firstMarker = s.firstMarker := by
  rfl
@[simp, exec_proj] theorem acceptTask_stopper (s : State) (id : Nat) : (acceptTask s id).stopper = s.stopper := by
  rfl
@[simp, exec_proj] theorem acceptTask_accepted (s : State) (id : Nat) : (acceptTask s id).accepted = upd s.accepted id true := rfl
@[simp, exec_proj] theorem acceptTask_futValid (s : State) (id : Nat) : (acceptTask s id).futValid = upd s.futValid id true := rfl
@[simp, exec_proj] theorem acceptTask_preStop (s : State) (id : Nat) : (acceptTask s id).preStop = upd s.preStop id (!s.stopCalled) := rfl
@[simp, exec_proj] theorem claimLocal_g (s : State) (k i : Nat) : (claimLocal s k i).g = s.g := by
  rfl
@[simp, exec_proj] theorem claimLocal_pc (s : State) (k i : Nat) : (claimLocal s k i).pc = s.pc := by
  rfl
@[simp, exec_proj] theorem claimLocal_own (s : State) (k i : Nat) : (claimLocal s k i).own = s.own := by
  rfl
@[simp, exec_proj] theorem claimLocal_owner (s : State) (k i : Nat) : (claimLocal s k i).owner = s.owner := by
  rfl
@[simp, exec_proj] theorem claimLocal_scope (s : State) (k i : Nat) : (claimLocal s k i).scope = s.scope := by
  rfl
@[simp, exec_proj] theorem claimLocal_running (s : State) (k i : Nat) : (claimLocal s k i).running = s.running := by
  rfl
@[simp, exec_proj] theorem claimLocal_known (s : State) (k i : Nat) : (claimLocal s k i).known = s.known := by
  rfl
@[simp, exec_proj] theorem claimLocal_loc (s : State) (k i : Nat) : (claimLocal s k i).loc = s.loc := by
  rfl
@[simp, exec_proj] theorem claimLocal_accepted (s : State) (k i : Nat) : (claimLocal s k i).accepted = s.accepted := by
  rfl
@[simp, exec_proj] theorem claimLocal_rejected (s : State) (k i : Nat) : (claimLocal s k i).rejected = s.rejected := by
  rfl
@[simp, exec_proj] theorem claimLocal_preStop (s : State) (k i : Nat) : (claimLocal s k i).preStop = s.preStop := by
  rfl
@[simp, exec_proj] theorem claimLocal_viaLocal (s : State) (k i : Nat) : (claimLocal s k i).viaLocal = s.viaLocal := by
  rfl
@[simp, exec_proj] theorem claimLocal_runs (s : State) (k i : Nat) : (claimLocal s k i).runs = s.runs := by
  rfl
@[simp, exec_proj] theorem claimLocal_done (s : State) (k i : Nat) : (claimLocal s k i).done = s.done := by
  rfl
@[simp, exec_proj] theorem claimLocal_futValid (s : State) (k i : Nat) : (claimLocal s k i).futValid = s.futValid := by
  rfl
@[simp, exec_proj] theorem claimLocal_futReady (s : State) (k i : Nat) : (claimLocal s k i).futReady = s.futReady := by
  rfl
@[simp, exec_proj] theorem claimLocal_stopCalled (s : State) (k i : Nat) : (claimLocal s k i).stopCalled = s.stopCalled := by
  rfl
@[simp, exec_proj] theorem claimLocal_stopReturned (s : State) (k i : Nat) : (claimLocal s k i).stopReturned = s.stopReturned := by
  rfl
@[simp, exec_proj] theorem claimLocal_exitTicket (s : State) (k i : Nat) : (claimLocal s k i).exitTicket = s.exitTicket := by
  rfl
@[simp, exec_proj] theorem claimLocal_markers (s : State) (k i : Nat) : (claimLocal s k i).markers = s.markers := by
  rfl
@[simp, exec_proj] theorem claimLocal_gTicket (s : State) (k i : Nat) : (claimLocal s k i).gTicket = s.gTicket := by
  rfl
@[simp, exec_proj] theorem claimLocal_firstMarker (s : State) (k i : Nat) : (claimLocal s k i).firstMarker = s.firstMarker := by
  rfl
@[simp, exec_proj] theorem claimLocal_stopper (s : State) (k i : Nat) : (claimLocal s k i).stopper = s.stopper := by
  rfl
@[simp, exec_proj] theorem claimLocal_l (s : State) (k i : Nat) : (claimLocal s k i).l = upd s.l k { (s.l k).setSt i .free with popIdx := i + 1 } := rfl
@[simp, exec_proj] theorem dispatch_g (s : State) (w : Nat) (x : Item) (tk : Option Nat) : (dispatch s w x tk).g = s.g := by
  cases x <;> rfl
@[simp, exec_proj] theorem dispatch_l (s : State) (w : Nat) (x : Item) (tk : Option Nat) : (dispatch s w x tk).l = s.l := by
  cases x <;> rfl
@[simp, exec_proj] theorem dispatch_own (s : State) (w : Nat) (x : Item) (tk : Option Nat) : (dispatch s w x tk).own = s.own := by
  cases x <;> rfl
@[simp, exec_proj] theorem dispatch_owner (s : State) (w : Nat) (x : Item) (tk : Option Nat) : (dispatch s w x tk).owner = s.owner := by
  cases x <;> rfl
@[simp, exec_proj] theorem dispatch_scope (s : State) (w : Nat) (x : Item) (tk : Option Nat) : (dispatch s w x tk).scope = s.scope := by
  cases x <;> rfl
@[simp, exec_proj] theorem dispatch_running (s : State) (w : Nat) (x : Item) (tk : Option Nat) : (dispatch s w x tk).running = s.running := by
  cases x <;> rfl
@[simp, exec_proj] theorem dispatch_known (s : State) (w : Nat) (x : Item) (tk : Option Nat) : (dispatch s w x tk).known = s.known := by
  cases x <;> rfl
@[simp, exec_proj] theorem dispatch_accepted (s : State) (w : Nat) (x : Item) (tk : Option Nat) : (dispatch s w x tk).accepted = s.accepted := by
  cases x <;> rfl
@[simp, exec_proj] theorem dispatch_rejected (s : State) (w : Nat) (x : Item) (tk : Option Nat) : (dispatch s w x tk).rejected = s.rejected := by
  cases x <;> rfl
@[simp, exec_proj] theorem dispatch_preStop (s : State) (w : Nat) (x : Item) (tk : Option Nat) : (dispatch s w x tk).preStop = s.preStop := by
  cases x <;> rfl
@[simp, exec_proj] theorem dispatch_viaLocal (s : State) (w : Nat) (x : Item) (tk : Option Nat) : (dispatch s w x tk).viaLocal = s.viaLocal := by
  cases x <;> rfl
@[simp, exec_proj] theorem dispatch_runs (s : State) (w : Nat) (x : Item) (tk : Option Nat) : (dispatch s w x tk).runs = s.runs := by
  cases x <;> rfl
@[simp, exec_proj] theorem dispatch_done (s : State) (w : Nat) (x : Item) (tk : Option Nat) : (dispatch s w x tk).done = s.done := by
  cases x <;> rfl
@[simp, exec_proj] theorem dispatch_futValid (s : State) (w : Nat) (x : Item) (tk : Option Nat) : (dispatch s w x tk).futValid = s.futValid := by
  cases x <;> rfl
@[simp, exec_proj] theorem dispatch_futReady (s : State) (w : Nat) (x : Item) (tk : Option Nat) : (dispatch s w x tk).futReady = s.futReady := by
  cases x <;> rfl
@[simp, exec_proj] theorem dispatch_stopCalled (s : State) (w : Nat) (x : Item) (tk : Option Nat) : (dispatch s w x tk).stopCalled = s.stopCalled := by
  cases x <;> rfl
@[simp, exec_proj] theorem dispatch_stopReturned (s : State) (w : Nat) (x : Item) (tk : Option Nat) : (dispatch s w x tk).stopReturned = s.stopReturned := by
  cases x <;> rfl
@[simp, exec_proj] theorem dispatch_markers (s : State) (w : Nat) (x : Item) (tk : Option Nat) : (dispatch s w x tk).markers = s.markers := by
  cases x <;> rfl
@[simp, exec_proj] theorem dispatch_gTicket (s : State) (w : Nat) (x : Item) (tk : Option Nat) : (dispatch s w x tk).gTicket = s.gTicket := by
  cases x <;> rfl
@[simp, exec_proj] theorem dispatch_firstMarker (s : State) (w : Nat) (x : Item) (tk : Option Nat) : (dispatch s w x tk).firstMarker = s.firstMarker := by
  cases x <;> rfl
@[simp, exec_proj] theorem dispatch_stopper (s : State) (w : Nat) (x : Item) (tk : Option Nat) : (dispatch s w x tk).stopper = s.stopper := by
  cases x <;> rfl
@[simp, exec_proj] theorem dispatch_pc (s : State) (w : Nat) (x : Item) (tk : Option Nat) : (dispatch s w x tk).pc = upd s.pc w (dispatchPc x) := by
  cases x <;> rfl
theorem dispatch_loc (s : State) (w : Nat) (x : Item) (tk : Option Nat) : (dispatch s w x tk).loc = (match x with | .task id => upd s.loc id (.hand w) | _ => s.loc) := by
  cases x <;> rfl
@[simp, exec_proj] theorem dispatch_loc_task (s : State) (w id : Nat) (tk : Option Nat) : (dispatch s w (.task id) tk).loc = upd s.loc id (.hand w) := rfl
@[simp, exec_proj] theorem dispatch_loc_stop (s : State) (w : Nat) (tk : Option Nat) : (dispatch s w .stop tk).loc = s.loc := rfl
@[simp, exec_proj] theorem dispatch_loc_wakeup (s : State) (w : Nat) (tk : Option Nat) : (dispatch s w .wakeup tk).loc = s.loc := rfl
@[simp, exec_proj] theorem dispatch_exitTicket_task (s : State) (w id : Nat) (tk : Option Nat) : (dispatch s w (.task id) tk).exitTicket = s.exitTicket := rfl
@[simp, exec_proj] theorem dispatch_exitTicket_stop (s : State) (w : Nat) (tk : Option Nat) : (dispatch s w .stop tk).exitTicket = upd s.exitTicket w tk := rfl
@[simp, exec_proj] theorem dispatch_exitTicket_wakeup (s : State) (w : Nat) (tk : Option Nat) : (dispatch s w .wakeup tk).exitTicket = s.exitTicket := rfl
@[simp, exec_proj] theorem forward_g (s : State) (t k : Nat) (x : Item) : (forward s t k x).g = s.g := by
  cases x <;> rfl
@[simp, exec_proj] theorem forward_l (s : State) (t k : Nat) (x : Item) : (forward s t k x).l = s.l := by
  cases x <;> rfl
@[simp, exec_proj] theorem forward_own (s : State) (t k : Nat) (x : Item) : (forward s t k x).own = s.own := by
  cases x <;> rfl
@[simp, exec_proj] theorem forward_owner (s : State) (t k : Nat) (x : Item) : (forward s t k x).owner = s.owner := by
  cases x <;> rfl
@[simp, exec_proj] theorem forward_scope (s : State) (t k : Nat) (x : Item) : (forward s t k x).scope = s.scope := by
  cases x <;> rfl
@[simp, exec_proj] theorem forward_running (s : State) (t k : Nat) (x : Item) : (forward s t k x).running = s.running := by
  cases x <;> rfl
@[simp, exec_proj] theorem forward_known (s : State) (t k : Nat) (x : Item) : (forward s t k x).known = s.known := by
  cases x <;> rfl
@[simp, exec_proj] theorem forward_accepted (s : State) (t k : Nat) (x : Item) : (forward s t k x).accepted = s.accepted := by
  cases x <;> rfl
@[simp, exec_proj] theorem forward_rejected (s : State) (t k : Nat) (x : Item) : (forward s t k x).rejected = s.rejected := by
  cases x <;> rfl
@[simp, exec_proj] theorem forward_preStop (s : State) (t k : Nat) (x : Item) : (forward s t k x).preStop = s.preStop := by
  cases x <;> rfl
@[simp, exec_proj] theorem forward_viaLocal (s : State) (t k : Nat) (x : Item) : (forward s t k x).viaLocal = s.viaLocal := by
  cases x <;> rfl
@[simp, exec_proj] theorem forward_runs (s : State) (t k : Nat) (x : Item) : (forward s t k x).runs = s.runs := by
  cases x <;> rfl
@[simp, exec_proj] theorem forward_done (s : State) (t k : Nat) (x : Item) : (forward s t k x).done = s.done := by
  cases x <;> rfl
@[simp, exec_proj] theorem forward_futValid (s : State) (t k : Nat) (x : Item) : (forward s t k x).futValid = s.futValid := by
  cases x <;> rfl
@[simp, exec_proj] theorem forward_futReady (s : State) (t k : Nat) (x : Item) : (forward s t k x).futReady = s.futReady := by
  cases x <;> rfl
@[simp, exec_proj] theorem forward_stopCalled (s : State) (t k : Nat) (x : Item) : (forward s t k x).stopCalled = s.stopCalled := by
  cases x <;> rfl
@[simp, exec_proj] theorem forward_stopReturned (s : State) (t k : Nat) (x : Item) : (forward s t k x).stopReturned = s.stopReturned := by
  cases x <;> rfl
@[simp, exec_proj] theorem forward_exitTicket (s : State) (t k : Nat) (x : Item) : (forward s t k x).exitTicket = s.exitTicket := by
  cases x <;> rfl
@[simp, exec_proj] theorem forward_markers (s : State) (t k : Nat) (x : Item) : (forward s t k x).markers = s.markers := by
  cases x <;> rfl
@[simp, exec_proj] theorem forward_gTicket (s : State) (t k : Nat) (x : Item) : (forward s t k x).gTicket = s.gTicket := by
  cases x <;> rfl
@[simp, exec_proj] theorem forward_firstMarker (s : State) (t k : Nat) (x : Item) : (forward s t k x).firstMarker = s.firstMarker := by
  cases x <;> rfl
@[simp, exec_proj] theorem forward_stopper (s : State) (t k : Nat) (x : Item) : (forward s t k x).stopper = s.stopper := by
  cases x <;> rfl
@[simp, exec_proj] theorem forward_pc (s : State) (t k : Nat) (x : Item) : (forward s t k x).pc = upd s.pc t (.gTake x (.bSweep k)) := by
  cases x <;> rfl
@[simp, exec_proj] theorem forward_loc_task (s : State) (t k id : Nat) : (forward s t k (.task id)).loc = upd s.loc id (.hand t) := rfl
@[simp, exec_proj] theorem forward_loc_stop (s : State) (t k : Nat) : (forward s t k .stop).loc = s.loc := rfl
@[simp, exec_proj] theorem forward_loc_wakeup (s : State) (t k : Nat) : (forward s t k .wakeup).loc = s.loc := rfl
@[simp, exec_proj] theorem onClaim_g (s : State) (t : Nat) (x : Item) (ctx : PopCtx) : (ctx.onClaim s t x).g = s.g := by
  cases ctx <;> cases x <;> rfl
@[simp, exec_proj] theorem onClaim_l (s : State) (t : Nat) (x : Item) (ctx : PopCtx) : (ctx.onClaim s t x).l = s.l := by
  cases ctx <;> cases x <;> rfl
@[simp, exec_proj] theorem onClaim_own (s : State) (t : Nat) (x : Item) (ctx : PopCtx) : (ctx.onClaim s t x).own = s.own := by
  cases ctx <;> cases x <;> rfl
@[simp, exec_proj] theorem onClaim_owner (s : State) (t : Nat) (x : Item) (ctx : PopCtx) : (ctx.onClaim s t x).owner = s.owner := by
  cases ctx <;> cases x <;> rfl
@[simp, exec_proj] theorem onClaim_scope (s : State) (t : Nat) (x : Item) (ctx : PopCtx) : (ctx.onClaim s t x).scope = s.scope := by
  cases ctx <;> cases x <;> rfl
@[simp, exec_proj] theorem onClaim_running (s : State) (t : Nat) (x : Item) (ctx : PopCtx) : (ctx.onClaim s t x).running = s.running := by
  cases ctx <;> cases x <;> rfl
@[simp, exec_proj] theorem onClaim_known (s : State) (t : Nat) (x : Item) (ctx : PopCtx) : (ctx.onClaim s t x).known = s.known := by
  cases ctx <;> cases x <;> rfl
@[simp, exec_proj] theorem onClaim_accepted (s : State) (t : Nat) (x : Item) (ctx : PopCtx) : (ctx.onClaim s t x).accepted = s.accepted := by
  cases ctx <;> cases x <;> rfl
@[simp, exec_proj] theorem onClaim_rejected (s : State) (t : Nat) (x : Item) (ctx : PopCtx) : (ctx.onClaim s t x).rejected = s.rejected := by
  cases ctx <;> cases x <;> rfl
@[simp, exec_proj] theorem onClaim_preStop (s : State) (t : Nat) (x : Item) (ctx : PopCtx) : (ctx.onClaim s t x).preStop = s.preStop := by
  cases ctx <;> cases x <;> rfl
@[simp, exec_proj] theorem onClaim_viaLocal (s : State) (t : Nat) (x : Item) (ctx : PopCtx) : (ctx.onClaim s t x).viaLocal = s.viaLocal := by
  cases ctx <;> cases x <;> rfl
@[simp, exec_proj] theorem onClaim_runs (s : State) (t : Nat) (x : Item) (ctx : PopCtx) : (ctx.onClaim s t x).runs = s.runs := by
  cases ctx <;> cases x <;> rfl
@[simp, exec_proj] theorem onClaim_done (s : State) (t : Nat) (x : Item) (ctx : PopCtx) : (ctx.onClaim s t x).done = s.done := by
  cases ctx <;> cases x <;> rfl
@[simp, exec_proj] theorem onClaim_futValid (s : State) (t : Nat) (x : Item) (ctx : PopCtx) : (ctx.onClaim s t x).futValid = s.futValid := by
  cases ctx <;> cases x <;> rfl
@[simp, exec_proj] theorem onClaim_futReady (s : State) (t : Nat) (x : Item) (ctx : PopCtx) : (ctx.onClaim s t x).futReady = s.futReady := by
  cases ctx <;> cases x <;> rfl
@[simp, exec_proj] theorem onClaim_stopCalled (s : State) (t : Nat) (x : Item) (ctx : PopCtx) : (ctx.onClaim s t x).stopCalled = s.stopCalled := by
  cases ctx <;> cases x <;> rfl
@[simp, exec_proj] theorem onClaim_stopReturned (s : State) (t : Nat) (x : Item) (ctx : PopCtx) : (ctx.onClaim s t x).stopReturned = s.stopReturned := by
  cases ctx <;> cases x <;> rfl
@[simp, exec_proj] theorem onClaim_markers (s : State) (t : Nat) (x : Item) (ctx : PopCtx) : (ctx.onClaim s t x).markers = s.markers := by
  cases ctx <;> cases x <;> rfl
@[simp, exec_proj] theorem onClaim_gTicket (s : State) (t : Nat) (x : Item) (ctx : PopCtx) : (ctx.onClaim s t x).gTicket = s.gTicket := by
  cases ctx <;> cases x <;> rfl
@[simp, exec_proj] theorem onClaim_firstMarker (s : State) (t : Nat) (x : Item) (ctx : PopCtx) : (ctx.onClaim s t x).firstMarker = s.firstMarker := by
  cases ctx <;> cases x <;> rfl
@[simp, exec_proj] theorem onClaim_stopper (s : State) (t : Nat) (x : Item) (ctx : PopCtx) : (ctx.onClaim s t x).stopper = s.stopper := by
  cases ctx <;> cases x <;> rfl

/-- pc after a successful `try_pop` in context `ctx` that obtained `x` -/
def claimPc (ctx : PopCtx) (x : Item) : Pc :=
  match ctx with
  | .bal k => .gTake x (.bSweep k)
  | _ => dispatchPc x

@[simp, exec_proj] theorem onClaim_pc (s : State) (t : Nat) (x : Item) (ctx : PopCtx) :
    (ctx.onClaim s t x).pc = upd s.pc t (claimPc ctx x) := by
  cases ctx <;> cases x <;> rfl
@[simp, exec_proj] theorem onClaim_loc_task (s : State) (t id : Nat) (ctx : PopCtx) :
    (ctx.onClaim s t (.task id)).loc = upd s.loc id (.hand t) := by
  cases ctx <;> rfl
@[simp, exec_proj] theorem onClaim_loc_stop (s : State) (t : Nat) (ctx : PopCtx) : (ctx.onClaim s t .stop).loc = s.loc := by
  cases ctx <;> rfl
@[simp, exec_proj] theorem onClaim_loc_wakeup (s : State) (t : Nat) (ctx : PopCtx) : (ctx.onClaim s t .wakeup).loc = s.loc := by
  cases ctx <;> rfl
theorem onClaim_exitTicket (s : State) (t : Nat) (x : Item) (ctx : PopCtx) :
    (ctx.onClaim s t x).exitTicket = (match ctx, x with | .bal _, _ => s.exitTicket | _, .stop => upd s.exitTicket t none | _, _ => s.exitTicket) := by
  cases ctx <;> cases x <;> rfl

end Babylon.Exec
