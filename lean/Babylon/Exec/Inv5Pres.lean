/-
  `Inv5` (size bound of the local queues) is inductive.
-/
import Babylon.Exec.Inv5

namespace Babylon.Exec
open Babylon.Core

macro "z_close" : tactic => `(tactic| (
  (try simp only [exec_proj, upd_same, Q.claim_fold, Q.bump_fold] at *)
  first
    | done
    | grind [upd, Pc.role, Pc.notR, PopCtx.queue, afterSize, role_chk, popctx_role,
        Q.length_take, Q.length_setSt, Q.popIdx_setSt, Q.popIdx_take, Q.popIdx_claim, Q.length_claim]))

section
variable {c : Cfg} {s s' : State} {t : Nat} {lb : Lbl}

set_option maxHeartbeats 4000000 in
theorem Inv5.step_s1 (I : Inv1 c s) (J : Inv2 c s) (Z : Inv5 c s) (h : StepCase c s t lb s') :
    ∀ w id cid a k, s'.pc w = .rSz1 id cid a → s'.own w = some k → a ≤ (s'.l k).popIdx := by
  intro w id cid a k hp ho
  have s1 := Z.s1
  have s2 := Z.s2
  have s3 := Z.s3
  have s4 := Z.s4
  have o1 := I.o1
  have o2 := I.o2
  have o3 := I.o3
  have l0 := J.l0
  have hwf := I.wf t
  have hn1 := notR_dispatchPc
  have hn2 := notR_claimPc
  have hn3 := notR_onEmpty
  have hn4 := notR_markChain c
  have hn5 := notR_afterStore c
  have hn6 := notR_afterSubmit c
  have hn7 := notR_afterLdRunS
  have hn8 := notR_afterLdRunB
  have hn9 := notR_afterJoinW c
  have hk : ∀ p k, s.pc t = .gPub p k → k.notR := by
    intro p k hp; rw [hp] at hwf; exact notR_cont c none k hwf
  have hrole : ∀ u, s.pc u = .rLSt id cid 0 → True := fun _ _ => trivial
  clear I J Z hwf hrole
  cases h
  all_goals (try z_close)

set_option maxHeartbeats 4000000 in
theorem Inv5.step_s2 (I : Inv1 c s) (J : Inv2 c s) (Z : Inv5 c s) (h : StepCase c s t lb s') :
    ∀ w id cid k, s'.pc w = .rLLd id cid → s'.own w = some k → (s'.l k).cells.length < (s'.l k).popIdx + c.L := by
  intro w id cid k hp ho
  have s1 := Z.s1
  have s2 := Z.s2
  have s3 := Z.s3
  have s4 := Z.s4
  have o1 := I.o1
  have o2 := I.o2
  have o3 := I.o3
  have l0 := J.l0
  have hwf := I.wf t
  have hn1 := notR_dispatchPc
  have hn2 := notR_claimPc
  have hn3 := notR_onEmpty
  have hn4 := notR_markChain c
  have hn5 := notR_afterStore c
  have hn6 := notR_afterSubmit c
  have hn7 := notR_afterLdRunS
  have hn8 := notR_afterLdRunB
  have hn9 := notR_afterJoinW c
  have hk : ∀ p k, s.pc t = .gPub p k → k.notR := by
    intro p k hp; rw [hp] at hwf; exact notR_cont c none k hwf
  have hrole : ∀ u, s.pc u = .rLSt id cid 0 → True := fun _ _ => trivial
  clear I J Z hwf hrole
  cases h
  all_goals (try z_close)

set_option maxHeartbeats 4000000 in
theorem Inv5.step_s3 (I : Inv1 c s) (J : Inv2 c s) (Z : Inv5 c s) (h : StepCase c s t lb s') :
    ∀ w id cid p k, s'.pc w = .rLSt id cid p → s'.own w = some k → (s'.l k).cells.length < (s'.l k).popIdx + c.L := by
  intro w id cid p k hp ho
  have s1 := Z.s1
  have s2 := Z.s2
  have s3 := Z.s3
  have s4 := Z.s4
  have o1 := I.o1
  have o2 := I.o2
  have o3 := I.o3
  have l0 := J.l0
  have hwf := I.wf t
  have hn1 := notR_dispatchPc
  have hn2 := notR_claimPc
  have hn3 := notR_onEmpty
  have hn4 := notR_markChain c
  have hn5 := notR_afterStore c
  have hn6 := notR_afterSubmit c
  have hn7 := notR_afterLdRunS
  have hn8 := notR_afterLdRunB
  have hn9 := notR_afterJoinW c
  have hk : ∀ p k, s.pc t = .gPub p k → k.notR := by
    intro p k hp; rw [hp] at hwf; exact notR_cont c none k hwf
  have hrole : ∀ u, s.pc u = .rLSt id cid 0 → True := fun _ _ => trivial
  clear I J Z hwf hrole
  cases h
  all_goals (try z_close)

set_option maxHeartbeats 4000000 in
theorem Inv5.step_s4 (I : Inv1 c s) (J : Inv2 c s) (Z : Inv5 c s) (h : StepCase c s t lb s') :
    ∀ w id cid p k, s'.pc w = .rLPub id cid p → s'.own w = some k → p < (s'.l k).popIdx + c.L := by
  intro w id cid p k hp ho
  have s1 := Z.s1
  have s2 := Z.s2
  have s3 := Z.s3
  have s4 := Z.s4
  have o1 := I.o1
  have o2 := I.o2
  have o3 := I.o3
  have l0 := J.l0
  have hwf := I.wf t
  have hn1 := notR_dispatchPc
  have hn2 := notR_claimPc
  have hn3 := notR_onEmpty
  have hn4 := notR_markChain c
  have hn5 := notR_afterStore c
  have hn6 := notR_afterSubmit c
  have hn7 := notR_afterLdRunS
  have hn8 := notR_afterLdRunB
  have hn9 := notR_afterJoinW c
  have hk : ∀ p k, s.pc t = .gPub p k → k.notR := by
    intro p k hp; rw [hp] at hwf; exact notR_cont c none k hwf
  have hrole : ∀ u, s.pc u = .rLSt id cid 0 → True := fun _ _ => trivial
  clear I J Z hwf hrole
  cases h
  all_goals (try z_close)

end
end Babylon.Exec
