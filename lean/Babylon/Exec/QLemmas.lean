/-
  Rewrite lemmas for the ticket-level queue operations in terms of `itemAt` / `stAt`, so that the
  invariant proofs never unfold list operations.
-/
import Babylon.Exec.Model

namespace Babylon.Exec

theorem Q.itemAt_eq (q : Q) (i : Nat) (cl : Cell) (h : q.cells[i]? = some cl) : q.itemAt i = some cl.item := by
  simp [Q.itemAt, h]
theorem Q.stAt_eq (q : Q) (i : Nat) (cl : Cell) (h : q.cells[i]? = some cl) : q.stAt i = some cl.st := by
  simp [Q.stAt, h]
theorem Q.stAt_none_iff (q : Q) (i : Nat) : q.stAt i = none ↔ q.cells.length ≤ i := by
  simp [Q.stAt]
theorem Q.itemAt_none_iff (q : Q) (i : Nat) : q.itemAt i = none ↔ q.cells.length ≤ i := by
  simp [Q.itemAt]
theorem Q.itemAt_some_stAt (q : Q) (i : Nat) (x : Item) (h : q.itemAt i = some x) : ∃ st, q.stAt i = some st := by
  simp only [Q.itemAt, Q.stAt] at *
  cases hc : q.cells[i]? with
  | none => simp [hc] at h
  | some cl => exact ⟨cl.st, by simp⟩
theorem Q.stAt_some_lt (q : Q) (i : Nat) (st : CellSt) (h : q.stAt i = some st) : i < q.cells.length := by
  apply Nat.lt_of_not_le
  intro hle
  rw [(Q.stAt_none_iff q i).mpr hle] at h; cases h
theorem Q.itemAt_some_lt (q : Q) (i : Nat) (x : Item) (h : q.itemAt i = some x) : i < q.cells.length := by
  obtain ⟨st, hst⟩ := Q.itemAt_some_stAt q i x h
  exact Q.stAt_some_lt q i st hst
theorem Q.cell_of (q : Q) (i : Nat) (x : Item) (st : CellSt) (h1 : q.itemAt i = some x) (h2 : q.stAt i = some st) :
    q.cells[i]? = some ⟨x, st⟩ := by
  simp only [Q.itemAt, Q.stAt] at *
  cases hc : q.cells[i]? with
  | none => simp [hc] at h1
  | some cl => simp [hc] at h1 h2; cases cl; simp_all

@[simp] theorem Q.length_setSt (q : Q) (p : Nat) (st : CellSt) : (q.setSt p st).cells.length = q.cells.length := by
  simp only [Q.setSt]; split <;> simp
@[simp] theorem Q.popIdx_setSt (q : Q) (p : Nat) (st : CellSt) : (q.setSt p st).popIdx = q.popIdx := by
  simp only [Q.setSt]; split <;> rfl
@[simp] theorem Q.itemAt_setSt (q : Q) (p i : Nat) (st : CellSt) : (q.setSt p st).itemAt i = q.itemAt i := by
  simp only [Q.setSt, Q.itemAt]
  split
  · rename_i cl hc
    simp only [List.getElem?_set]
    split
    · rename_i h; subst h
      split
      · simp [hc]
      · rename_i hlt
        have : q.cells.length ≤ p := Nat.le_of_not_lt hlt
        simp [List.getElem?_eq_none this] at hc
    · rfl
  · rfl
theorem Q.stAt_setSt (q : Q) (p i : Nat) (st : CellSt) :
    (q.setSt p st).stAt i = if i = p ∧ p < q.cells.length then some st else q.stAt i := by
  simp only [Q.setSt, Q.stAt]
  split
  · rename_i cl hc
    have hlt : p < q.cells.length := by
      rcases List.getElem?_eq_some_iff.mp hc with ⟨hl, _⟩; exact hl
    simp only [List.getElem?_set]
    by_cases h : p = i
    · subst h; simp [hlt]
    · have : ¬ i = p := fun e => h e.symm
      simp [h, this]
  · rename_i hc
    have : q.cells.length ≤ p := by
      apply Nat.le_of_not_lt; intro hlt
      rw [List.getElem?_eq_getElem hlt] at hc; cases hc
    have h2 : ¬ p < q.cells.length := Nat.not_lt.mpr this
    simp [h2]
@[simp] theorem Q.length_take (q : Q) (x : Item) : (q.take x).cells.length = q.cells.length + 1 := by
  simp [Q.take]
@[simp] theorem Q.popIdx_take (q : Q) (x : Item) : (q.take x).popIdx = q.popIdx := rfl
theorem Q.itemAt_take (q : Q) (x : Item) (i : Nat) :
    (q.take x).itemAt i = if i = q.cells.length then some x else q.itemAt i := by
  simp only [Q.take, Q.itemAt, List.getElem?_append]
  by_cases h : i < q.cells.length
  · have : i ≠ q.cells.length := Nat.ne_of_lt h
    simp [h, this]
  · by_cases h2 : i = q.cells.length
    · subst h2; simp
    · have : q.cells.length ≤ i := Nat.le_of_not_lt h
      have h3 : i - q.cells.length ≠ 0 := by omega
      simp [h, h2]
      cases hd : i - q.cells.length with
      | zero => exact absurd hd h3
      | succ n => simp
theorem Q.stAt_take (q : Q) (x : Item) (i : Nat) :
    (q.take x).stAt i = if i = q.cells.length then some .reserved else q.stAt i := by
  simp only [Q.take, Q.stAt, List.getElem?_append]
  by_cases h : i < q.cells.length
  · have : i ≠ q.cells.length := Nat.ne_of_lt h
    simp [h, this]
  · by_cases h2 : i = q.cells.length
    · subst h2; simp
    · have : q.cells.length ≤ i := Nat.le_of_not_lt h
      have h3 : i - q.cells.length ≠ 0 := by omega
      simp [h, h2]
      cases hd : i - q.cells.length with
      | zero => exact absurd hd h3
      | succ n => simp
theorem Q.take_old (q : Q) (x y : Item) (i : Nat) (h : q.itemAt i = some y) :
    (q.take x).itemAt i = some y ∧ (q.take x).stAt i = q.stAt i := by
  have hlt := Q.itemAt_some_lt q i y h
  have hne : i ≠ q.cells.length := Nat.ne_of_lt hlt
  exact ⟨by rw [Q.itemAt_take]; simp [hne, h], by rw [Q.stAt_take]; simp [hne]⟩
theorem Q.take_new (q : Q) (x : Item) :
    (q.take x).itemAt q.cells.length = some x ∧ (q.take x).stAt q.cells.length = some .reserved := by
  exact ⟨by rw [Q.itemAt_take]; simp, by rw [Q.stAt_take]; simp⟩
theorem Q.ready_iff (q : Q) (i : Nat) : q.ready i = true ↔ q.stAt i = some .full := by
  simp only [Q.ready, Q.stAt]
  cases q.cells[i]? with
  | none => simp
  | some cl => simp
theorem Q.slotFree_iff (q : Q) (slots p : Nat) :
    q.slotFree slots p = true ↔ (p < slots ∨ q.stAt (p - slots) = some .free) := by
  simp only [Q.slotFree, Q.stAt, Bool.or_eq_true, decide_eq_true_eq]
  cases q.cells[p - slots]? with
  | none => simp
  | some cl => simp

/-- a successful local claim of ticket `i` -/
def Q.claim (q : Q) (i : Nat) : Q := { q.setSt i .free with popIdx := i + 1 }
theorem Q.claim_fold (q : Q) (i : Nat) : ({ cells := (q.setSt i .free).cells, popIdx := i + 1 } : Q) = q.claim i := rfl
@[simp] theorem Q.itemAt_claim (q : Q) (i j : Nat) : (q.claim i).itemAt j = q.itemAt j := by
  have : (q.claim i).itemAt j = (q.setSt i .free).itemAt j := rfl
  rw [this, Q.itemAt_setSt]
theorem Q.stAt_claim (q : Q) (i j : Nat) :
    (q.claim i).stAt j = if j = i ∧ i < q.cells.length then some .free else q.stAt j := by
  have : (q.claim i).stAt j = (q.setSt i .free).stAt j := rfl
  rw [this, Q.stAt_setSt]
@[simp] theorem Q.popIdx_claim (q : Q) (i : Nat) : (q.claim i).popIdx = i + 1 := rfl
@[simp] theorem Q.length_claim (q : Q) (i : Nat) : (q.claim i).cells.length = q.cells.length := by
  have : (q.claim i).cells = (q.setSt i .free).cells := rfl
  rw [this, Q.length_setSt]
/-- taking a pop ticket of the global queue -/
def Q.bump (q : Q) : Q := { q with popIdx := q.popIdx + 1 }
theorem Q.bump_fold (q : Q) : ({ cells := q.cells, popIdx := q.popIdx + 1 } : Q) = q.bump := rfl
@[simp] theorem Q.itemAt_bump (q : Q) (j : Nat) : q.bump.itemAt j = q.itemAt j := rfl
@[simp] theorem Q.stAt_bump (q : Q) (j : Nat) : q.bump.stAt j = q.stAt j := rfl
@[simp] theorem Q.popIdx_bump (q : Q) : q.bump.popIdx = q.popIdx + 1 := rfl
@[simp] theorem Q.length_bump (q : Q) : q.bump.cells.length = q.cells.length := rfl

end Babylon.Exec
