/-
  `Inv4` (phases of stop(), markers, joins, exit tickets) is inductive — part A.
-/
import Babylon.Exec.Inv4

namespace Babylon.Exec
open Babylon.Core

macro "s_close_A" : tactic => `(tactic| (
  (try simp only [balExited] at *)
  (try simp only [exec_proj, upd_same, Q.claim_fold, Q.bump_fold] at *)
  first
    | done
    | grind [upd, Pc.role, Pc.carry, Pc.exec, Pc.pastB, claimPc, dispatchPc, PopCtx.onEmpty, PopCtx.role, afterLdRunS,
        afterLdRunB, role_chk, popctx_role,
        Q.itemAt_setSt, Q.stAt_setSt, Q.itemAt_take, Q.stAt_take, Q.length_take, Q.length_setSt, Q.popIdx_setSt, Q.popIdx_take,
        Q.itemAt_claim, Q.stAt_claim, Q.popIdx_claim, Q.length_claim, Q.itemAt_bump, Q.stAt_bump, Q.popIdx_bump, Q.length_bump,
        Q.itemAt_some_lt, Q.stAt_some_lt]))

section
variable {c : Cfg} {s s' : State} {t : Nat} {lb : Lbl}

set_option maxHeartbeats 4000000 in
theorem Inv4.step_m1 (I : Inv1 c s) (J : Inv2 c s) (B : Inv2b s) (K : Inv3 c s) (M : Inv4 c s) (h : StepCase c s t lb s') :
    s'.firstMarker ≠ none → s'.stopCalled = true ∧ balExited c s' := by
  intro hfm
  have m1 := M.m1
  have m7 := M.m7
  have r3 := I.r3
  have r6 := I.r6
  have l4 := J.l4
  have hwf := I.wf t
  have hstab := exited_stable h
  have hpb1 := pastB_dispatchPc
  have hpb2 := pastB_onEmpty
  have hpb3 := pastB_afterSubmit c
  have hpb4 := pastB_afterSize c
  have hpb5 := pastB_afterLdRunB
  have hpb6 := pastB_afterJoinW c
  have hpb7 := pastB_afterStore c
  have hpb8 := pastB_markChain c
  have hpb9 := pastB_claimPc
  have hj1 := markChain_sJoinW c
  have hj2 := markChain_sEnd c
  have hj3 := afterStore_sJoinW c
  have hj4 := afterStore_sEnd c
  have hj5 := afterJoinW_sJoinW c
  have hj6 := afterJoinW_sEnd c
  have hmem := mem_getElem? c.workers
  have hx1 := ne_exit_markChain c
  have hx2 := ne_exit_afterStore c
  have hx3 := ne_exit_onEmpty
  have hx4 := ne_exit_afterSubmit c
  have hx5 := ne_exit_afterSize c
  have hx6 := ne_exit_afterLdRunS
  have hx7 := ne_exit_afterLdRunB
  have hx8 := ne_exit_afterJoinW c
  have hnm1 := noteMarker_some
  have hnm2 := noteMarker_ne_none
  have hkx : ∀ p k, s.pc t = .gPub p k → k ≠ .wStopping ∧ k ≠ .exited := by
    intro p k hp; rw [hp] at hwf; exact ne_exit_cont c none k hwf
  have hne1 := dispatchPc_ne
  have hne2 := onEmpty_ne
  have hst0 : ∀ k, s.pc t = .gTake .stop k → (s.pc t).role = .stopper ∧ (s.pc t).pastB = true := by
    intro k hp
    have hnb : ∀ k', k ≠ .bSweep k' := by
      intro k' e; subst e; have := B.l9 t .stop k' hp; simp [Item.isTask] at this
    rw [hp] at hwf ⊢; simp only [Pc.role, Pc.pastB]; exact contOK_stop_role c k hwf hnb
  have hidle : s.pc t = .idle → t ∉ c.workers := by
    intro hi hw; rcases I.r4 t hw with h1 | h1 <;> simp [hi, Pc.role] at h1
  have hbs : s.pc t = .bStopping → t ∉ c.workers := by
    intro hi hw; rcases I.r4 t hw with h1 | h1 <;> simp [hi, Pc.role] at h1
  clear I J B K M hwf
  cases h
  case popClaim ctx i0 k0 nr cl hpc hq hi hcell hfull =>
    have hit := (isTask_iff cl.item).mp (l4 k0 i0 cl hcell)
    obtain ⟨idx, hidx⟩ := hit
    clear hcell l4
    cases ctx <;> simp only [hidx] at * <;> s_close_A
  case wRecv i0 cl hpc hcell hfull =>
    have hc1 := Q.itemAt_eq _ _ _ hcell
    have hc2 := Q.stAt_eq _ _ _ hcell
    have hc3 : i0 < s.g.cells.length := Q.stAt_some_lt _ _ _ hc2
    rw [hfull] at hc2
    clear hcell l4
    cases hx : cl.item <;> simp only [hx] at * <;> s_close_A
  case gPublish p k hpc hfree hst =>
    have hc3 : p < s.g.cells.length := Q.stAt_some_lt _ _ _ hst
    clear l4; s_close_A
  case sLd hpc =>
    skip
    clear l4; s_close_A
  all_goals (clear l4; try s_close_A)

set_option maxHeartbeats 4000000 in
theorem Inv4.step_m2 (I : Inv1 c s) (J : Inv2 c s) (B : Inv2b s) (K : Inv3 c s) (M : Inv4 c s) (h : StepCase c s t lb s') :
    ∀ j, s'.g.itemAt j = some .stop → s'.firstMarker ≠ none ∧ ∀ j0, s'.firstMarker = some j0 → j0 ≤ j := by
  intro j hit0
  have m2 := M.m2
  have m4 := M.m4
  have l4 := J.l4
  have hwf := I.wf t
  have hstab := exited_stable h
  have hpb1 := pastB_dispatchPc
  have hpb2 := pastB_onEmpty
  have hpb3 := pastB_afterSubmit c
  have hpb4 := pastB_afterSize c
  have hpb5 := pastB_afterLdRunB
  have hpb6 := pastB_afterJoinW c
  have hpb7 := pastB_afterStore c
  have hpb8 := pastB_markChain c
  have hpb9 := pastB_claimPc
  have hj1 := markChain_sJoinW c
  have hj2 := markChain_sEnd c
  have hj3 := afterStore_sJoinW c
  have hj4 := afterStore_sEnd c
  have hj5 := afterJoinW_sJoinW c
  have hj6 := afterJoinW_sEnd c
  have hmem := mem_getElem? c.workers
  have hx1 := ne_exit_markChain c
  have hx2 := ne_exit_afterStore c
  have hx3 := ne_exit_onEmpty
  have hx4 := ne_exit_afterSubmit c
  have hx5 := ne_exit_afterSize c
  have hx6 := ne_exit_afterLdRunS
  have hx7 := ne_exit_afterLdRunB
  have hx8 := ne_exit_afterJoinW c
  have hnm1 := noteMarker_some
  have hnm2 := noteMarker_ne_none
  have hkx : ∀ p k, s.pc t = .gPub p k → k ≠ .wStopping ∧ k ≠ .exited := by
    intro p k hp; rw [hp] at hwf; exact ne_exit_cont c none k hwf
  have hne1 := dispatchPc_ne
  have hne2 := onEmpty_ne
  have hst0 : ∀ k, s.pc t = .gTake .stop k → (s.pc t).role = .stopper ∧ (s.pc t).pastB = true := by
    intro k hp
    have hnb : ∀ k', k ≠ .bSweep k' := by
      intro k' e; subst e; have := B.l9 t .stop k' hp; simp [Item.isTask] at this
    rw [hp] at hwf ⊢; simp only [Pc.role, Pc.pastB]; exact contOK_stop_role c k hwf hnb
  have hidle : s.pc t = .idle → t ∉ c.workers := by
    intro hi hw; rcases I.r4 t hw with h1 | h1 <;> simp [hi, Pc.role] at h1
  have hbs : s.pc t = .bStopping → t ∉ c.workers := by
    intro hi hw; rcases I.r4 t hw with h1 | h1 <;> simp [hi, Pc.role] at h1
  clear I J B K M hwf
  cases h
  case popClaim ctx i0 k0 nr cl hpc hq hi hcell hfull =>
    have hit := (isTask_iff cl.item).mp (l4 k0 i0 cl hcell)
    obtain ⟨idx, hidx⟩ := hit
    clear hcell l4
    cases ctx <;> simp only [hidx] at * <;> s_close_A
  case wRecv i0 cl hpc hcell hfull =>
    have hc1 := Q.itemAt_eq _ _ _ hcell
    have hc2 := Q.stAt_eq _ _ _ hcell
    have hc3 : i0 < s.g.cells.length := Q.stAt_some_lt _ _ _ hc2
    rw [hfull] at hc2
    clear hcell l4
    cases hx : cl.item <;> simp only [hx] at * <;> s_close_A
  case gPublish p k hpc hfree hst =>
    have hc3 : p < s.g.cells.length := Q.stAt_some_lt _ _ _ hst
    clear l4; s_close_A
  case sLd hpc =>
    skip
    clear l4; s_close_A
  all_goals (clear l4; try s_close_A)

set_option maxHeartbeats 4000000 in
theorem Inv4.step_m4 (I : Inv1 c s) (J : Inv2 c s) (B : Inv2b s) (K : Inv3 c s) (M : Inv4 c s) (h : StepCase c s t lb s') :
    ∀ j0, s'.firstMarker = some j0 → j0 < s'.g.cells.length := by
  intro j0 hfm
  have m4 := M.m4
  have l4 := J.l4
  have hwf := I.wf t
  have hstab := exited_stable h
  have hpb1 := pastB_dispatchPc
  have hpb2 := pastB_onEmpty
  have hpb3 := pastB_afterSubmit c
  have hpb4 := pastB_afterSize c
  have hpb5 := pastB_afterLdRunB
  have hpb6 := pastB_afterJoinW c
  have hpb7 := pastB_afterStore c
  have hpb8 := pastB_markChain c
  have hpb9 := pastB_claimPc
  have hj1 := markChain_sJoinW c
  have hj2 := markChain_sEnd c
  have hj3 := afterStore_sJoinW c
  have hj4 := afterStore_sEnd c
  have hj5 := afterJoinW_sJoinW c
  have hj6 := afterJoinW_sEnd c
  have hmem := mem_getElem? c.workers
  have hx1 := ne_exit_markChain c
  have hx2 := ne_exit_afterStore c
  have hx3 := ne_exit_onEmpty
  have hx4 := ne_exit_afterSubmit c
  have hx5 := ne_exit_afterSize c
  have hx6 := ne_exit_afterLdRunS
  have hx7 := ne_exit_afterLdRunB
  have hx8 := ne_exit_afterJoinW c
  have hnm1 := noteMarker_some
  have hnm2 := noteMarker_ne_none
  have hkx : ∀ p k, s.pc t = .gPub p k → k ≠ .wStopping ∧ k ≠ .exited := by
    intro p k hp; rw [hp] at hwf; exact ne_exit_cont c none k hwf
  have hne1 := dispatchPc_ne
  have hne2 := onEmpty_ne
  have hst0 : ∀ k, s.pc t = .gTake .stop k → (s.pc t).role = .stopper ∧ (s.pc t).pastB = true := by
    intro k hp
    have hnb : ∀ k', k ≠ .bSweep k' := by
      intro k' e; subst e; have := B.l9 t .stop k' hp; simp [Item.isTask] at this
    rw [hp] at hwf ⊢; simp only [Pc.role, Pc.pastB]; exact contOK_stop_role c k hwf hnb
  have hidle : s.pc t = .idle → t ∉ c.workers := by
    intro hi hw; rcases I.r4 t hw with h1 | h1 <;> simp [hi, Pc.role] at h1
  have hbs : s.pc t = .bStopping → t ∉ c.workers := by
    intro hi hw; rcases I.r4 t hw with h1 | h1 <;> simp [hi, Pc.role] at h1
  clear I J B K M hwf
  cases h
  case popClaim ctx i0 k0 nr cl hpc hq hi hcell hfull =>
    have hit := (isTask_iff cl.item).mp (l4 k0 i0 cl hcell)
    obtain ⟨idx, hidx⟩ := hit
    clear hcell l4
    cases ctx <;> simp only [hidx] at * <;> s_close_A
  case wRecv i0 cl hpc hcell hfull =>
    have hc1 := Q.itemAt_eq _ _ _ hcell
    have hc2 := Q.stAt_eq _ _ _ hcell
    have hc3 : i0 < s.g.cells.length := Q.stAt_some_lt _ _ _ hc2
    rw [hfull] at hc2
    clear hcell l4
    cases hx : cl.item <;> simp only [hx] at * <;> s_close_A
  case gPublish p k hpc hfree hst =>
    have hc3 : p < s.g.cells.length := Q.stAt_some_lt _ _ _ hst
    clear l4; s_close_A
  case sLd hpc =>
    skip
    clear l4; s_close_A
  all_goals (clear l4; try s_close_A)

end
end Babylon.Exec
