/-
  Fifth layer: the size check of `enqueue_task` keeps at most `_local_capacity` unclaimed tickets in a
  local queue, so (with `2 * _local_capacity` slots, rounded up) a local push never waits for a slot —
  now that every pop releases its slot at once (repaired balance thread).
-/
import Babylon.Exec.Inv2Pres
import Babylon.Exec.QLemmas

namespace Babylon.Exec
open Babylon.Core

theorem le_bitCeilAux (fuel p n : Nat) (hp : 0 < p) (h : n ≤ p * 2 ^ fuel) : n ≤ bitCeilAux fuel p n := by
  induction fuel generalizing p with
  | zero => simpa [bitCeilAux] using h
  | succ f ih =>
    simp only [bitCeilAux]
    split
    · assumption
    · apply ih (2 * p) (by omega)
      have : p * 2 ^ (f + 1) = 2 * p * 2 ^ f := by rw [Nat.pow_succ]; ac_rfl
      omega

theorem le_bitCeil (n : Nat) : n ≤ bitCeil n := by
  unfold bitCeil
  apply le_bitCeilAux n 1 n (by omega)
  have := Nat.lt_two_pow_self (n := n)
  omega

theorem L_le_lslots (c : Cfg) : c.L ≤ c.lslots := by
  unfold Cfg.lslots
  have := le_bitCeil (localFactor * c.L)
  have h2 : localFactor = 2 := rfl
  rw [h2] at this ⊢
  omega

/-- not inside the local-push part of `enqueue_task` -/
def Pc.notR (p : Pc) : Prop :=
  (∀ id c a, p ≠ .rSz1 id c a) ∧ (∀ id c, p ≠ .rLLd id c) ∧ (∀ id c q, p ≠ .rLSt id c q) ∧ (∀ id c q, p ≠ .rLPub id c q)

theorem notR_dispatchPc (x : Item) : (dispatchPc x).notR := by cases x <;> simp [Pc.notR, dispatchPc]
theorem notR_claimPc (ctx : PopCtx) (x : Item) : (claimPc ctx x).notR := by
  cases ctx <;> cases x <;> simp [Pc.notR, claimPc, dispatchPc]
theorem notR_onEmpty (ctx : PopCtx) : ctx.onEmpty.notR := by cases ctx <;> simp [Pc.notR, PopCtx.onEmpty]
theorem notR_markChain (c : Cfg) (n : Nat) : (markChain c n).notR := by
  rcases markChain_cases c n with h | h | ⟨m, h⟩ <;> simp [h, Pc.notR]
theorem notR_afterStore (c : Cfg) : (afterStore c).notR := by
  unfold afterStore; split
  · simp [Pc.notR]
  · exact notR_markChain c _
theorem notR_cont (c : Cfg) (x : Option Item) (k : Pc) (h : ContOK c x k) : k.notR := by
  cases k <;> first
    | (simp [Pc.notR]; done)
    | (obtain ⟨_, n, hn⟩ := h; rw [hn]; exact notR_markChain c n)
theorem notR_afterSubmit (c : Cfg) (b : Bool) (id cid : Nat) : (afterSubmit c b id cid).notR := by
  unfold afterSubmit; split <;> simp [Pc.notR]
theorem notR_afterLdRunS (v : Bool) : (afterLdRunS v).notR := by cases v <;> simp [Pc.notR, afterLdRunS]
theorem notR_afterLdRunB (v : Bool) : (afterLdRunB v).notR := by cases v <;> simp [Pc.notR, afterLdRunB]
theorem notR_afterJoinW (c : Cfg) (n : Nat) : (afterJoinW c n).notR := by unfold afterJoinW; split <;> simp [Pc.notR]

structure Inv5 (c : Cfg) (s : State) : Prop where
  s1 : ∀ w id cid a k, s.pc w = .rSz1 id cid a → s.own w = some k → a ≤ (s.l k).popIdx
  s2 : ∀ w id cid k, s.pc w = .rLLd id cid → s.own w = some k → (s.l k).cells.length < (s.l k).popIdx + c.L
  s3 : ∀ w id cid p k, s.pc w = .rLSt id cid p → s.own w = some k → (s.l k).cells.length < (s.l k).popIdx + c.L
  s4 : ∀ w id cid p k, s.pc w = .rLPub id cid p → s.own w = some k → p < (s.l k).popIdx + c.L

theorem Inv5.init (c : Cfg) : Inv5 c (State.init c) := by
  have hp := init_pc c
  refine ⟨?_, ?_, ?_, ?_⟩
  · intro w id cid a k h; rcases hp w with h1 | h1 | h1 <;> rw [h1] at h <;> cases h
  · intro w id cid k h; rcases hp w with h1 | h1 | h1 <;> rw [h1] at h <;> cases h
  · intro w id cid p k h; rcases hp w with h1 | h1 | h1 <;> rw [h1] at h <;> cases h
  · intro w id cid p k h; rcases hp w with h1 | h1 | h1 <;> rw [h1] at h <;> cases h

end Babylon.Exec
