/-
  Deadlock freedom of the (repaired) thread pool while `stop()` is in progress: either some thread of
  the pool can take a step, or every live worker is blocked — from inside a task — submitting a child
  into the full global queue (the documented, by-design way to wedge a bounded pool).
-/
import Babylon.Exec.Inv7

namespace Babylon.Exec
open Babylon.Core

/-- thread `t` can take a step -/
def Enabled (c : Cfg) (s : State) (t : Nat) : Prop := ∃ lb s', step c s t lb = some s'

theorem enabled_of_isSome {c : Cfg} {s : State} {t : Nat} (lb : Lbl) (h : (step c s t lb).isSome = true) :
    Enabled c s t := by
  obtain ⟨s', hs⟩ := Option.isSome_iff_exists.mp h
  exact ⟨lb, s', hs⟩

/-- the four ways a thread that is neither outside the pool's code nor finished can be blocked -/
inductive Blocked (c : Cfg) (s : State) (t : Nat) : Prop
  | push (p : Nat) (k : Pc) (hpc : s.pc t = .gPub p k) (hfull : s.g.slotFree c.gslots p = false)
  | pop (i : Nat) (hpc : s.pc t = .wGWait i) (hne : ∀ cl, s.g.cells[i]? = some cl → cl.st ≠ .full)
  | joinB (hpc : s.pc t = .sJoinB) (hb : ∀ b, c.bal = some b → s.pc b ≠ .exited)
  | joinW (n : Nat) (hpc : s.pc t = .sJoinW n) (hw : ∀ u, c.workers[n]? = some u → s.pc u ≠ .exited)

section
variable {c : Cfg} {s : State}

set_option maxHeartbeats 1000000 in
/-- every program counter except the four blocking ones always has an enabled step -/
theorem blocked_cases (A : Inv c s) (K : Inv6 c s) (N : Inv7 c s) (t : Nat) (h1 : s.pc t ≠ .idle)
    (h2 : s.pc t ≠ .exited) (hb : ¬ Enabled c s t) : Blocked c s t := by
  obtain ⟨I, J, B, K3, X, U, M, Z⟩ := A
  have hown : (s.pc t).role = .worker → s.pc t ≠ .wInit → ∃ k, s.own t = some k := by
    intro hr hn
    cases ho : s.own t with
    | none => exact absurd ho (I.o4 t hr hn)
    | some k => exact ⟨k, rfl⟩
  cases hpc : s.pc t with
  | idle => exact absurd hpc h1
  | exited => exact absurd hpc h2
  | gTake x k =>
    exfalso; apply hb
    refine enabled_of_isSome (.gPushTk s.g.cells.length) ?_
    cases x <;> simp [step, hpc]
  | gPub p k =>
    by_cases hf : s.g.slotFree c.gslots p = true
    · exfalso; apply hb
      refine enabled_of_isSome .publish ?_
      simp [step, hpc, hf, J.g3 t p k hpc]
    · exact .push p k hpc (by simpa using hf)
  | xRet id => exfalso; apply hb; exact enabled_of_isSome (.accept id) (by simp [step, hpc])
  | xWkRet => exfalso; apply hb; exact enabled_of_isSome .wakeupRet (by simp [step, hpc])
  | sLd => exfalso; apply hb; exact enabled_of_isSome (.ldRun s.running) (by simp [step, hpc])
  | sSt => exfalso; apply hb; exact enabled_of_isSome .stRun (by simp [step, hpc])
  | sJoinB =>
    by_cases hx : ∃ b, c.bal = some b ∧ s.pc b = .exited
    · obtain ⟨b, hb1, hb2⟩ := hx
      exfalso; apply hb; exact enabled_of_isSome (.join b) (by simp [step, hpc, hb1, hb2])
    · exact .joinB hpc (fun b hb1 hb2 => hx ⟨b, hb1, hb2⟩)
  | sJoinW n =>
    by_cases hx : ∃ u, c.workers[n]? = some u ∧ s.pc u = .exited
    · obtain ⟨u, hu1, hu2⟩ := hx
      exfalso; apply hb; exact enabled_of_isSome (.join u) (by simp [step, hpc, hu1, hu2])
    · exact .joinW n hpc (fun u hu1 hu2 => hx ⟨u, hu1, hu2⟩)
  | sEnd => exfalso; apply hb; exact enabled_of_isSome .stopEnd (by simp [step, hpc])
  | wInit =>
    obtain ⟨B0, hB⟩ := N.fin
    have hav : slotAvailable s B0 = true := by simp [slotAvailable, hB B0 (Nat.le_refl _)]
    exfalso; apply hb
    exact enabled_of_isSome (.ldPop B0 (s.l B0).popIdx) (by simp [step, hpc, hav, loadPop])
  | wTop =>
    obtain ⟨k, hk⟩ := hown (by rw [hpc]; rfl) (by rw [hpc]; simp)
    exfalso; apply hb
    exact enabled_of_isSome (.ldPop k (s.l k).popIdx) (by simp [step, hpc, hk, loadPop])
  | wSteal k => exfalso; apply hb; exact enabled_of_isSome (.gPopTk s.g.popIdx) (by simp [step, hpc])
  | chk ctx i nr =>
    have hq : ∃ k, ctx.queue s t = some k := by
      cases ctx with
      | own => exact hown (by rw [hpc]; rfl) (by rw [hpc]; simp)
      | steal k => exact ⟨k, rfl⟩
      | bal k => exact ⟨k, rfl⟩
    obtain ⟨k, hk⟩ := hq
    exfalso; apply hb
    exact enabled_of_isSome (.casPop k i false (s.l k).popIdx) (by simp [step, hpc, hk])
  | wGWait i =>
    by_cases hx : ∃ cl, s.g.cells[i]? = some cl ∧ cl.st = .full
    · obtain ⟨cl, hc1, hc2⟩ := hx
      exfalso; apply hb; exact enabled_of_isSome .receive (by simp [step, hpc, hc1, hc2])
    · exact .pop i hpc (fun cl hc1 hc2 => hx ⟨cl, hc1, hc2⟩)
  | wPre id =>
    have hsc := I.sc t (by rw [hpc]; rfl)
    exfalso; apply hb; exact enabled_of_isSome (.run id true) (by simp [step, hpc, hsc])
  | wStopping => exfalso; apply hb; exact enabled_of_isSome .exit (by simp [step, hpc])
  | wRun id => exfalso; apply hb; exact enabled_of_isSome .scopeEnter (by simp [step, hpc])
  | rSz0 id cid =>
    obtain ⟨k, hk⟩ := hown (by rw [hpc]; rfl) (by rw [hpc]; simp)
    exfalso; apply hb
    exact enabled_of_isSome (.ldPop k (s.l k).popIdx) (by simp [step, hpc, hk])
  | rSz1 id cid a =>
    obtain ⟨k, hk⟩ := hown (by rw [hpc]; rfl) (by rw [hpc]; simp)
    exfalso; apply hb
    exact enabled_of_isSome (.ldPush k (s.l k).cells.length) (by simp [step, hpc, hk])
  | rLLd id cid =>
    obtain ⟨k, hk⟩ := hown (by rw [hpc]; rfl) (by rw [hpc]; simp)
    exfalso; apply hb
    exact enabled_of_isSome (.ldPush k (s.l k).cells.length) (by simp [step, hpc, hk])
  | rLSt id cid p =>
    obtain ⟨k, hk⟩ := hown (by rw [hpc]; rfl) (by rw [hpc]; simp)
    have hp := K.w1 t id cid p k hpc hk
    exfalso; apply hb
    exact enabled_of_isSome (.stPush k (p + 1)) (by simp [step, hpc, hk, hp])
  | rLPub id cid p =>
    obtain ⟨k, hk⟩ := hown (by rw [hpc]; rfl) (by rw [hpc]; simp)
    have hcell := J.l5 t id cid p k hpc hk
    have hst : (s.l k).stAt p = some .reserved := by simp [Q.stAt, hcell]
    have hbd := Z.s4 t id cid p k hpc hk
    have hL := L_le_lslots c
    have hfree : (s.l k).slotFree c.lslots p = true := by
      rw [Q.slotFree_iff]
      by_cases hp : p < c.lslots
      · exact Or.inl hp
      · right
        have hlt : p - c.lslots < (s.l k).popIdx := by omega
        have hlen : p - c.lslots < (s.l k).cells.length := Nat.lt_of_lt_of_le hlt (J.l0 k)
        have hget : (s.l k).cells[p - c.lslots]? = some ((s.l k).cells[p - c.lslots]) := by simp [hlen]
        have := (J.l1 k _ _ hget).mpr hlt
        simp [Q.stAt, hget, this]
    exfalso; apply hb
    exact enabled_of_isSome .publish (by simp [step, hpc, hk, hfree, hst])
  | rRet id cid => exfalso; apply hb; exact enabled_of_isSome (.accept cid) (by simp [step, hpc])
  | bTop => exfalso; apply hb; exact enabled_of_isSome (.ldRun s.running) (by simp [step, hpc])
  | bSweep k => exfalso; apply hb; exact enabled_of_isSome (.ldRun s.running) (by simp [step, hpc])
  | bStopping => exfalso; apply hb; exact enabled_of_isSome .exit (by simp [step, hpc])

/-! ### what a blocked thread of a given role looks like -/

theorem Blocked.push_of {t p : Nat} {k : Pc} (h : Blocked c s t) (hpc : s.pc t = .gPub p k) :
    s.g.slotFree c.gslots p = false := by
  cases h with
  | push p' k' h1 h2 => rw [hpc] at h1; injection h1 with e1 e2; subst e1; exact h2
  | pop i h1 _ => rw [hpc] at h1; cases h1
  | joinB h1 _ => rw [hpc] at h1; cases h1
  | joinW n h1 _ => rw [hpc] at h1; cases h1

theorem Blocked.pop_of {t i : Nat} (h : Blocked c s t) (hpc : s.pc t = .wGWait i) :
    ∀ cl, s.g.cells[i]? = some cl → cl.st ≠ .full := by
  cases h with
  | push p' k' h1 h2 => rw [hpc] at h1; cases h1
  | pop i' h1 h2 => rw [hpc] at h1; injection h1 with e1; subst e1; exact h2
  | joinB h1 _ => rw [hpc] at h1; cases h1
  | joinW n h1 _ => rw [hpc] at h1; cases h1

/-- a continuation of a global push that belongs to a worker is the return into the submitting task -/
theorem cont_worker (k : Pc) (x : Option Item) (hwf : ContOK c x k) (hr : k.role = .worker) :
    ∃ id cid, k = .rRet id cid := by
  cases k <;> first
    | exact ⟨_, _, rfl⟩
    | (exfalso; simp [Pc.role] at hr; done)
    | (exfalso; obtain ⟨_, n, hn⟩ := hwf; rw [hn, markChain_role] at hr; cases hr)

theorem cont_stopper (k : Pc) (x : Option Item) (hwf : ContOK c x k) (hr : k.role = .stopper) :
    ∃ n, k = markChain c n := by
  cases k <;> first
    | exact hwf.2
    | (exfalso; simp [Pc.role] at hr; done)

theorem Blocked.worker {t : Nat} (I : Inv1 c s) (h : Blocked c s t) (hr : (s.pc t).role = .worker) :
    (∃ p id cid, s.pc t = .gPub p (.rRet id cid) ∧ s.g.slotFree c.gslots p = false) ∨ ∃ i, s.pc t = .wGWait i := by
  cases h with
  | push p k h1 h2 =>
    left
    have hwf := I.wf t
    rw [h1] at hwf hr
    obtain ⟨id, cid, hk⟩ := cont_worker k none hwf (by simpa [Pc.role] using hr)
    subst hk
    exact ⟨p, id, cid, h1, h2⟩
  | pop i h1 _ => exact Or.inr ⟨i, h1⟩
  | joinB h1 _ => rw [h1] at hr; cases hr
  | joinW n h1 _ => rw [h1] at hr; cases hr

theorem Blocked.bal {t : Nat} (h : Blocked c s t) (hr : (s.pc t).role = .bal) : ∃ p k, s.pc t = .gPub p k := by
  cases h with
  | push p k h1 h2 => exact ⟨p, k, h1⟩
  | pop i h1 _ => rw [h1] at hr; cases hr
  | joinB h1 _ => rw [h1] at hr; cases hr
  | joinW n h1 _ => rw [h1] at hr; cases hr

/-! ### counting -/

theorem recvB_le_stopB (l : List Cell) : l.countP recvB ≤ l.countP stopB := by
  induction l with
  | nil => simp
  | cons a l ih =>
    simp only [List.countP_cons]
    by_cases h : recvB a = true
    · have : stopB a = true := by simp [recvB, stopB] at h ⊢; exact h.1
      simp [h, this]; omega
    · simp [h]; split <;> omega

theorem pending_lt_list (l : List Cell) (j : Nat) (cl : Cell) (h : l[j]? = some cl) (hi : cl.item = .stop)
    (hs : cl.st ≠ .free) : l.countP recvB < l.countP stopB := by
  induction l generalizing j with
  | nil => simp at h
  | cons a l ih =>
    simp only [List.countP_cons]
    cases j with
    | zero =>
      simp at h; subst h
      have h1 : stopB a = true := by simp [stopB, hi]
      have h2 : recvB a = false := by
        cases hst : a.st <;> simp_all [recvB]
      have := recvB_le_stopB l
      simp [h1, h2]; omega
    | succ j =>
      have := ih j (by simpa using h)
      have h3 : recvB a = true → stopB a = true := by
        intro h; simp [recvB, stopB] at h ⊢; exact h.1
      by_cases hr : recvB a = true
      · simp [hr, h3 hr]; omega
      · simp [hr]; split <;> omega

theorem bitCeilAux_pos (fuel p n : Nat) (hp : 0 < p) : 0 < bitCeilAux fuel p n := by
  induction fuel generalizing p with
  | zero => simpa [bitCeilAux] using hp
  | succ f ih =>
    simp only [bitCeilAux]
    split
    · exact hp
    · exact ih (2 * p) (by omega)

theorem gslots_pos (c : Cfg) : 0 < c.gslots := bitCeilAux_pos _ 1 _ (by omega)

/-! ### the wait-for chain of the global queue is well-founded -/

/-- no thread of the pool (other than threads outside the pool's code and finished ones) has a step -/
def AllBlocked (c : Cfg) (s : State) : Prop := ∀ t, s.pc t ≠ .idle → s.pc t ≠ .exited → ¬ Enabled c s t

/-- If nothing moves, a blocked push waits for a pop ticket that has not been handed out: were the
ticket `p - slots` handed out, its holder would wait for the push of that cell, which would itself
be blocked on the still smaller ticket `p - 2 * slots`, … -/
theorem blocked_push_beyond (A : Inv c s) (K : Inv6 c s) (N : Inv7 c s) (hall : AllBlocked c s) :
    ∀ p t k, s.pc t = .gPub p k → s.g.popIdx + c.gslots ≤ p := by
  intro p
  induction p using Nat.strongRecOn with
  | ind p ih =>
    intro t k hpc
    have hbl := blocked_cases A K N t (by rw [hpc]; simp) (by rw [hpc]; simp)
      (hall t (by rw [hpc]; simp) (by rw [hpc]; simp))
    have hfull := hbl.push_of hpc
    have hnf : ¬ (p < c.gslots ∨ s.g.stAt (p - c.gslots) = some .free) := by
      rw [← Q.slotFree_iff]; simp [hfull]
    have hpos := gslots_pos c
    have hge : c.gslots ≤ p := by
      apply Nat.le_of_not_lt; intro h; exact hnf (Or.inl h)
    have hplt : p < s.g.cells.length := Q.stAt_some_lt _ _ _ (A.i2.g3 t p k hpc)
    by_cases hj : p - c.gslots < s.g.popIdx
    · exfalso
      rcases A.i2.g1 _ hj with h | ⟨w, hw⟩
      · exact hnf (Or.inr h)
      · have hwb := blocked_cases A K N w (by rw [hw]; simp) (by rw [hw]; simp)
          (hall w (by rw [hw]; simp) (by rw [hw]; simp))
        have hne := hwb.pop_of hw
        have hlt : p - c.gslots < s.g.cells.length := by omega
        have hget : s.g.cells[p - c.gslots]? = some (s.g.cells[p - c.gslots]) := by simp [hlt]
        cases hst : (s.g.cells[p - c.gslots]).st with
        | free => exact hnf (Or.inr (by simp [Q.stAt, hget, hst]))
        | full => exact hne _ hget hst
        | reserved =>
          obtain ⟨t', k', ht'⟩ := N.g4 (p - c.gslots) (by simp [Q.stAt, hget, hst])
          have := ih (p - c.gslots) (by omega) t' k' ht'
          omega
    · omega

/-- if nothing moves, a blocked pop waits for a push ticket nobody has taken -/
theorem blocked_pop_beyond (A : Inv c s) (K : Inv6 c s) (N : Inv7 c s) (hall : AllBlocked c s) :
    ∀ w i, s.pc w = .wGWait i → s.g.cells.length ≤ i := by
  intro w i hw
  apply Nat.le_of_not_lt; intro hlt
  have hwb := blocked_cases A K N w (by rw [hw]; simp) (by rw [hw]; simp)
    (hall w (by rw [hw]; simp) (by rw [hw]; simp))
  have hne := hwb.pop_of hw
  have hget : s.g.cells[i]? = some (s.g.cells[i]) := by simp [hlt]
  have h5 := A.b.g5 w i hw
  have h2 := A.i2.g2 w i hw
  cases hst : (s.g.cells[i]).st with
  | free => exact h5 (by simp [Q.stAt, hget, hst])
  | full => exact hne _ hget hst
  | reserved =>
    obtain ⟨t', k', ht'⟩ := N.g4 i (by simp [Q.stAt, hget, hst])
    have := blocked_push_beyond A K N hall i t' k' ht'
    omega

/-- so a blocked push and a blocked pop never coexist -/
theorem not_push_and_pop (A : Inv c s) (K : Inv6 c s) (N : Inv7 c s) (hall : AllBlocked c s)
    {t p : Nat} {k : Pc} (hp : s.pc t = .gPub p k) {w i : Nat} (hw : s.pc w = .wGWait i) : False := by
  have h1 := blocked_push_beyond A K N hall p t k hp
  have h2 := blocked_pop_beyond A K N hall w i hw
  have h3 : p < s.g.cells.length := Q.stAt_some_lt _ _ _ (A.i2.g3 t p k hp)
  have h4 := A.i2.g2 w i hw
  omega

/-! ### the theorem -/

/-- the by-design way to wedge the pool: there is a live worker, and every live worker is blocked,
from inside a task, pushing a child into the full global queue -/
def ByDesign (c : Cfg) (s : State) : Prop :=
  (∃ w, w ∈ c.workers ∧ s.pc w ≠ .exited) ∧
  ∀ w, w ∈ c.workers → s.pc w ≠ .exited →
    ∃ p id cid, s.pc w = .gPub p (.rRet id cid) ∧ s.g.slotFree c.gslots p = false

theorem no_stuck_of_allBlocked (hc : c.WF) (hw : c.workers ≠ []) (A : Inv c s) (K : Inv6 c s) (N : Inv7 c s)
    (T : Nat) (hT : (s.pc T).role = .stopper) (hall : AllBlocked c s) : ByDesign c s := by
  have I := A.i1
  have hblk : ∀ t, s.pc t ≠ .idle → s.pc t ≠ .exited → Blocked c s t :=
    fun t h1 h2 => blocked_cases A K N t h1 h2 (hall t h1 h2)
  -- a live worker is blocked in one of two ways
  have hworker : ∀ w, w ∈ c.workers → s.pc w ≠ .exited →
      (∃ p id cid, s.pc w = .gPub p (.rRet id cid) ∧ s.g.slotFree c.gslots p = false) ∨ ∃ i, s.pc w = .wGWait i := by
    intro w hwm hne
    rcases I.r4 w hwm with hr | hr
    · have hni : s.pc w ≠ .idle := by intro e; rw [e] at hr; cases hr
      exact (hblk w hni hne).worker I hr
    · exact absurd hr hne
  -- with a blocked push somewhere and a live worker, the state is the by-design one
  have hpush : (∃ t p k, s.pc t = .gPub p k) → (∃ w, w ∈ c.workers ∧ s.pc w ≠ .exited) → ByDesign c s := by
    intro ⟨t, p, k, htp⟩ hlive
    refine ⟨hlive, ?_⟩
    intro w hwm hne
    rcases hworker w hwm hne with h | ⟨i, hi⟩
    · exact h
    · exact (not_push_and_pop A K N hall htp hi).elim
  have hTi : s.pc T ≠ .idle := by intro e; rw [e] at hT; cases hT
  have hTe : s.pc T ≠ .exited := by intro e; rw [e] at hT; cases hT
  cases hblk T hTi hTe with
  | pop i h1 _ => rw [h1] at hT; cases hT
  | push p k h1 h2 =>
    -- `stop()` is pushing a marker: not all workers have returned, else all markers would be received
    refine hpush ⟨T, p, k, h1⟩ ?_
    apply Classical.byContradiction
    intro hno
    have hallex : ∀ w, w ∈ c.workers → s.pc w = .exited := by
      intro w hwm
      apply Classical.byContradiction
      intro hne; exact hno ⟨w, hwm, hne⟩
    have hcnt : c.workers.countP (doneB s) = c.workers.length := by
      rw [List.countP_eq_length]
      intro w hwm; simp [doneB, hallex w hwm]
    have hwf := I.wf T
    rw [h1] at hwf hT
    obtain ⟨n, hn⟩ := cont_stopper k none hwf (by simpa [Pc.role] using hT)
    have hml : (s.pc T).marksLeft = some n := by rw [h1, hn]; simp [Pc.marksLeft, marksLeft_markChain]
    have h3 := K.c3 T n hml
    have hitem := N.g6 T p k n h1 (by rw [hn]; exact marksLeft_markChain c n)
    have hst := A.i2.g3 T p k h1
    obtain ⟨cl, hcl, hclst⟩ := Q.stAt_cell _ _ _ hst
    have hcli : cl.item = .stop := by simpa [Q.itemAt, hcl] using hitem
    have hlt := pending_lt_list s.g.cells p cl hcl hcli (by rw [hclst]; simp)
    have h1' := K.c1
    have h2' := K.c2
    simp only [Q.recvd, Q.stops] at h1' h2'
    omega
  | joinB h1 hb =>
    -- the balance thread is alive, so no marker has been pushed and no worker has returned
    have hbal : ∃ b, c.bal = some b := by
      cases hcb : c.bal with
      | none => exact absurd hcb (K.w3 T h1)
      | some b => exact ⟨b, rfl⟩
    obtain ⟨b, hcb⟩ := hbal
    have hbne := hb b hcb
    have hbr : (s.pc b).role = .bal := by
      rcases I.r5 b hcb with h | h
      · exact h
      · exact absurd h hbne
    have hbi : s.pc b ≠ .idle := by intro e; rw [e] at hbr; cases hbr
    obtain ⟨p, k, hbp⟩ := (hblk b hbi hbne).bal hbr
    refine hpush ⟨b, p, k, hbp⟩ ?_
    obtain ⟨w0, hw0⟩ := List.exists_mem_of_ne_nil _ hw
    refine ⟨w0, hw0, ?_⟩
    intro hex
    have he := A.i4.e1 w0 (Or.inr ⟨hex, hw0⟩)
    cases htk : s.exitTicket w0 with
    | none => exact he.1 htk
    | some j =>
      have hj := (he.2 j htk).1
      have hfm := (A.i4.m2 j hj).1
      exact hbne ((A.i4.m1 hfm).2 b hcb)
  | joinW n h1 hwn =>
    have hn := K.w2 T n h1
    have hget : c.workers[n]? = some (c.workers[n]) := by simp [hn]
    have hu := hwn _ hget
    have hum : c.workers[n] ∈ c.workers := List.getElem_mem hn
    rcases hworker _ hum hu with ⟨p, id, cid, hp, _⟩ | ⟨i, hi⟩
    · exact hpush ⟨_, p, _, hp⟩ ⟨_, hum, hu⟩
    · -- the worker waits on the empty global queue although its marker has been pushed
      exfalso
      have hlen := blocked_pop_beyond A K N hall _ i hi
      have hpop := A.i2.g2 _ i hi
      have h3 := K.c3 T 0 (by rw [h1]; rfl)
      have hnd : doneB s (c.workers[n]) = false := by simp [doneB, hi]
      have hlt := countP_lt_length hum hnd
      have h1' := K.c1
      have h2' := K.c2
      have hpend : s.g.recvd < s.g.stops := by omega
      obtain ⟨j, cl, hcl, hcli, hcls⟩ := Q.exists_pending _ hpend
      have hjlt : j < s.g.cells.length := by
        rcases List.getElem?_eq_some_iff.mp hcl with ⟨hl, _⟩; exact hl
      by_cases hjp : j < s.g.popIdx
      · rcases A.i2.g1 j hjp with h | ⟨w', hw'⟩
        · apply hcls; simpa [Q.stAt, hcl] using h
        · have := blocked_pop_beyond A K N hall w' j hw'
          omega
      · omega

/-- **Deadlock freedom** in every state satisfying the invariants: while `stop()` is in progress, either
some thread that is inside the pool's code can take a step, or the pool is wedged by design. -/
theorem no_stuck_inv (hc : c.WF) (hw : c.workers ≠ []) (A : Inv c s) (K : Inv6 c s) (N : Inv7 c s)
    (T : Nat) (hT : (s.pc T).role = .stopper) :
    (∃ t, s.pc t ≠ .idle ∧ s.pc t ≠ .exited ∧ Enabled c s t) ∨ ByDesign c s := by
  by_cases h : ∃ t, s.pc t ≠ .idle ∧ s.pc t ≠ .exited ∧ Enabled c s t
  · exact Or.inl h
  · right
    apply no_stuck_of_allBlocked hc hw A K N T hT
    intro t h1 h2 he
    exact h ⟨t, h1, h2, he⟩

end
end Babylon.Exec
