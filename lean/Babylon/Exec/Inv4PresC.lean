/-
  `Inv4` (phases of stop(), markers, joins, exit tickets) is inductive — part C.
-/
import Babylon.Exec.Inv4

namespace Babylon.Exec
open Babylon.Core

macro "s_close_C" : tactic => `(tactic| (
  (try simp only [balExited] at *)
  (try simp only [exec_proj, upd_same, Q.claim_fold, Q.bump_fold] at *)
  first
    | done
    | grind [upd, Pc.role, Pc.carry, Pc.exec, Pc.pastB, claimPc, dispatchPc, PopCtx.onEmpty, PopCtx.role, afterLdRunS,
        afterLdRunB, role_chk, popctx_role,
        Q.itemAt_setSt, Q.stAt_setSt, Q.itemAt_take, Q.stAt_take, Q.length_take, Q.length_setSt, Q.popIdx_setSt, Q.popIdx_take,
        Q.itemAt_claim, Q.stAt_claim, Q.popIdx_claim, Q.length_claim, Q.itemAt_bump, Q.stAt_bump, Q.popIdx_bump, Q.length_bump,
        Q.itemAt_some_lt, Q.stAt_some_lt, Q.take_old]))

section
variable {c : Cfg} {s s' : State} {t : Nat} {lb : Lbl}

set_option maxHeartbeats 4000000 in
theorem Inv4.step_j1 (I : Inv1 c s) (J : Inv2 c s) (B : Inv2b s) (K : Inv3 c s) (M : Inv4 c s) (h : StepCase c s t lb s') :
    ∀ t' n, s'.pc t' = .sJoinW n → ∀ m u, m < n → c.workers[m]? = some u → s'.pc u = .exited := by
  intro t' n hp m u hm hu
  have j1 := M.j1
  have l4 := J.l4
  have hwf := I.wf t
  have hstab := exited_stable h
  have hpb1 := pastB_dispatchPc
  have hpb2 := pastB_onEmpty
  have hpb3 := pastB_afterSubmit c
  have hpb4 := pastB_afterSize c
  have hpb5 := pastB_afterLdRunB
  have hpb6 := pastB_afterJoinW c
  have hpb7 := pastB_afterStore c
  have hpb8 := pastB_markChain c
  have hpb9 := pastB_claimPc
  have hj1 := markChain_sJoinW c
  have hj2 := markChain_sEnd c
  have hj3 := afterStore_sJoinW c
  have hj4 := afterStore_sEnd c
  have hj5 := afterJoinW_sJoinW c
  have hj6 := afterJoinW_sEnd c
  have hmem := mem_getElem? c.workers
  have hx1 := ne_exit_markChain c
  have hx2 := ne_exit_afterStore c
  have hx3 := ne_exit_onEmpty
  have hx4 := ne_exit_afterSubmit c
  have hx5 := ne_exit_afterSize c
  have hx6 := ne_exit_afterLdRunS
  have hx7 := ne_exit_afterLdRunB
  have hx8 := ne_exit_afterJoinW c
  have hnm1 := noteMarker_some
  have hnm2 := noteMarker_ne_none
  have hkx : ∀ p k, s.pc t = .gPub p k → k ≠ .wStopping ∧ k ≠ .exited := by
    intro p k hp; rw [hp] at hwf; exact ne_exit_cont c none k hwf
  have hr4 := I.r4
  have hkj : ∀ p k, s.pc t = .gPub p k → (∀ n, k = .sJoinW n → n = 0) ∧ (k = .sEnd → c.workers = []) := by
    intro p k hp; rw [hp] at hwf; exact cont_join c none k hwf
  have hne1 := dispatchPc_ne
  have hne2 := onEmpty_ne
  have hst0 : ∀ k, s.pc t = .gTake .stop k → (s.pc t).role = .stopper ∧ (s.pc t).pastB = true := by
    intro k hp
    have hnb : ∀ k', k ≠ .bSweep k' := by
      intro k' e; subst e; have := B.l9 t .stop k' hp; simp [Item.isTask] at this
    rw [hp] at hwf ⊢; simp only [Pc.role, Pc.pastB]; exact contOK_stop_role c k hwf hnb
  have hidle : s.pc t = .idle → t ∉ c.workers := by
    intro hi hw; rcases I.r4 t hw with h1 | h1 <;> simp [hi, Pc.role] at h1
  have hbs : s.pc t = .bStopping → t ∉ c.workers := by
    intro hi hw; rcases I.r4 t hw with h1 | h1 <;> simp [hi, Pc.role] at h1
  clear I J B K M hwf
  cases h
  case popClaim ctx i0 k0 nr cl hpc hq hi hcell hfull =>
    have hit := (isTask_iff cl.item).mp (l4 k0 i0 cl hcell)
    obtain ⟨idx, hidx⟩ := hit
    clear hcell l4
    cases ctx <;> simp only [hidx] at * <;> s_close_C
  case wRecv i0 cl hpc hcell hfull =>
    have hc1 := Q.itemAt_eq _ _ _ hcell
    have hc2 := Q.stAt_eq _ _ _ hcell
    have hc3 : i0 < s.g.cells.length := Q.stAt_some_lt _ _ _ hc2
    rw [hfull] at hc2
    clear hcell l4
    cases hx : cl.item <;> simp only [hx] at * <;> s_close_C
  case gPublish p k hpc hfree hst =>
    have hc3 : p < s.g.cells.length := Q.stAt_some_lt _ _ _ hst
    clear l4; s_close_C
  case sLd hpc =>
    skip
    clear l4; s_close_C
  case sJoinW n0 u0 hpc hw hu0 =>
    clear l4
    simp only [exec_proj] at hp hstab ⊢
    by_cases ht : t' = t
    · subst ht
      simp only [upd_same] at hp
      have hn : n = n0 + 1 := hj5 n0 n hp
      subst hn
      by_cases hmn : m = n0
      · subst hmn
        rw [hw] at hu; injection hu with hu; subst hu
        exact hstab _ hu0
      · have hlt : m < n0 := by omega
        exact hstab u (j1 t' n0 hpc m u hlt hu)
    · have hp' : s.pc t' = .sJoinW n := by simpa [upd, ht] using hp
      exact hstab u (j1 t' n hp' m u hm hu)
  all_goals (clear l4; try s_close_C)

set_option maxHeartbeats 4000000 in
theorem Inv4.step_j2 (I : Inv1 c s) (J : Inv2 c s) (B : Inv2b s) (K : Inv3 c s) (M : Inv4 c s) (h : StepCase c s t lb s') :
    ∀ t', s'.pc t' = .sEnd → (∀ u, u ∈ c.workers → s'.pc u = .exited) ∧ balExited c s' := by
  intro t' hp
  have j1 := M.j1
  have j2 := M.j2
  have m7 := M.m7
  have run1 := I.run1
  have l4 := J.l4
  have hwf := I.wf t
  have hstab := exited_stable h
  have hpb1 := pastB_dispatchPc
  have hpb2 := pastB_onEmpty
  have hpb3 := pastB_afterSubmit c
  have hpb4 := pastB_afterSize c
  have hpb5 := pastB_afterLdRunB
  have hpb6 := pastB_afterJoinW c
  have hpb7 := pastB_afterStore c
  have hpb8 := pastB_markChain c
  have hpb9 := pastB_claimPc
  have hj1 := markChain_sJoinW c
  have hj2 := markChain_sEnd c
  have hj3 := afterStore_sJoinW c
  have hj4 := afterStore_sEnd c
  have hj5 := afterJoinW_sJoinW c
  have hj6 := afterJoinW_sEnd c
  have hmem := mem_getElem? c.workers
  have hx1 := ne_exit_markChain c
  have hx2 := ne_exit_afterStore c
  have hx3 := ne_exit_onEmpty
  have hx4 := ne_exit_afterSubmit c
  have hx5 := ne_exit_afterSize c
  have hx6 := ne_exit_afterLdRunS
  have hx7 := ne_exit_afterLdRunB
  have hx8 := ne_exit_afterJoinW c
  have hnm1 := noteMarker_some
  have hnm2 := noteMarker_ne_none
  have hkx : ∀ p k, s.pc t = .gPub p k → k ≠ .wStopping ∧ k ≠ .exited := by
    intro p k hp; rw [hp] at hwf; exact ne_exit_cont c none k hwf
  have hr4 := I.r4
  have hkj : ∀ p k, s.pc t = .gPub p k → (∀ n, k = .sJoinW n → n = 0) ∧ (k = .sEnd → c.workers = []) := by
    intro p k hp; rw [hp] at hwf; exact cont_join c none k hwf
  have hne1 := dispatchPc_ne
  have hne2 := onEmpty_ne
  have hst0 : ∀ k, s.pc t = .gTake .stop k → (s.pc t).role = .stopper ∧ (s.pc t).pastB = true := by
    intro k hp
    have hnb : ∀ k', k ≠ .bSweep k' := by
      intro k' e; subst e; have := B.l9 t .stop k' hp; simp [Item.isTask] at this
    rw [hp] at hwf ⊢; simp only [Pc.role, Pc.pastB]; exact contOK_stop_role c k hwf hnb
  have hidle : s.pc t = .idle → t ∉ c.workers := by
    intro hi hw; rcases I.r4 t hw with h1 | h1 <;> simp [hi, Pc.role] at h1
  have hbs : s.pc t = .bStopping → t ∉ c.workers := by
    intro hi hw; rcases I.r4 t hw with h1 | h1 <;> simp [hi, Pc.role] at h1
  clear I J B K M hwf
  cases h
  case popClaim ctx i0 k0 nr cl hpc hq hi hcell hfull =>
    have hit := (isTask_iff cl.item).mp (l4 k0 i0 cl hcell)
    obtain ⟨idx, hidx⟩ := hit
    clear hcell l4
    cases ctx <;> simp only [hidx] at * <;> s_close_C
  case wRecv i0 cl hpc hcell hfull =>
    have hc1 := Q.itemAt_eq _ _ _ hcell
    have hc2 := Q.stAt_eq _ _ _ hcell
    have hc3 : i0 < s.g.cells.length := Q.stAt_some_lt _ _ _ hc2
    rw [hfull] at hc2
    clear hcell l4
    cases hx : cl.item <;> simp only [hx] at * <;> s_close_C
  case gPublish p k hpc hfree hst =>
    have hc3 : p < s.g.cells.length := Q.stAt_some_lt _ _ _ hst
    clear l4; s_close_C
  case sLd hpc =>
    have hr : s.running = true := by first | exact run1 t (Or.inl hpc) | skip
    clear l4; (try simp only [hr] at *); s_close_C
  case sJoinW n0 u0 hpc hw hu0 =>
    clear l4
    simp only [exec_proj] at hp hstab ⊢
    by_cases ht : t' = t
    · subst ht
      simp only [upd_same] at hp
      have hlen : c.workers.length ≤ n0 + 1 := hj6 n0 hp
      refine ⟨fun u huw => ?_, fun b hb => ?_⟩
      · obtain ⟨m, hm, hmu⟩ := hmem u huw
        by_cases hmn : m = n0
        · subst hmn
          rw [hw] at hmu; injection hmu with hmu; subst hmu
          exact hstab _ hu0
        · exact hstab u (j1 t' n0 hpc m u (by omega) hmu)
      · exact hstab b (m7 t' (by rw [hpc]; rfl) b hb)
    · have hp' : s.pc t' = .sEnd := by simpa [upd, ht] using hp
      obtain ⟨h1, h2⟩ := j2 t' hp'
      exact ⟨fun u hu' => hstab u (h1 u hu'), fun b hb => hstab b (h2 b hb)⟩
  all_goals (clear l4; try s_close_C)

set_option maxHeartbeats 4000000 in
theorem Inv4.step_j3 (I : Inv1 c s) (J : Inv2 c s) (B : Inv2b s) (K : Inv3 c s) (M : Inv4 c s) (h : StepCase c s t lb s') :
    s'.stopReturned = true → (∀ u, u ∈ c.workers → s'.pc u = .exited) ∧ balExited c s' := by
  intro hp
  have j2 := M.j2
  have j3 := M.j3
  have l4 := J.l4
  have hwf := I.wf t
  have hstab := exited_stable h
  have hpb1 := pastB_dispatchPc
  have hpb2 := pastB_onEmpty
  have hpb3 := pastB_afterSubmit c
  have hpb4 := pastB_afterSize c
  have hpb5 := pastB_afterLdRunB
  have hpb6 := pastB_afterJoinW c
  have hpb7 := pastB_afterStore c
  have hpb8 := pastB_markChain c
  have hpb9 := pastB_claimPc
  have hj1 := markChain_sJoinW c
  have hj2 := markChain_sEnd c
  have hj3 := afterStore_sJoinW c
  have hj4 := afterStore_sEnd c
  have hj5 := afterJoinW_sJoinW c
  have hj6 := afterJoinW_sEnd c
  have hmem := mem_getElem? c.workers
  have hx1 := ne_exit_markChain c
  have hx2 := ne_exit_afterStore c
  have hx3 := ne_exit_onEmpty
  have hx4 := ne_exit_afterSubmit c
  have hx5 := ne_exit_afterSize c
  have hx6 := ne_exit_afterLdRunS
  have hx7 := ne_exit_afterLdRunB
  have hx8 := ne_exit_afterJoinW c
  have hnm1 := noteMarker_some
  have hnm2 := noteMarker_ne_none
  have hkx : ∀ p k, s.pc t = .gPub p k → k ≠ .wStopping ∧ k ≠ .exited := by
    intro p k hp; rw [hp] at hwf; exact ne_exit_cont c none k hwf
  have hr4 := I.r4
  have hkj : ∀ p k, s.pc t = .gPub p k → (∀ n, k = .sJoinW n → n = 0) ∧ (k = .sEnd → c.workers = []) := by
    intro p k hp; rw [hp] at hwf; exact cont_join c none k hwf
  have hne1 := dispatchPc_ne
  have hne2 := onEmpty_ne
  have hst0 : ∀ k, s.pc t = .gTake .stop k → (s.pc t).role = .stopper ∧ (s.pc t).pastB = true := by
    intro k hp
    have hnb : ∀ k', k ≠ .bSweep k' := by
      intro k' e; subst e; have := B.l9 t .stop k' hp; simp [Item.isTask] at this
    rw [hp] at hwf ⊢; simp only [Pc.role, Pc.pastB]; exact contOK_stop_role c k hwf hnb
  have hidle : s.pc t = .idle → t ∉ c.workers := by
    intro hi hw; rcases I.r4 t hw with h1 | h1 <;> simp [hi, Pc.role] at h1
  have hbs : s.pc t = .bStopping → t ∉ c.workers := by
    intro hi hw; rcases I.r4 t hw with h1 | h1 <;> simp [hi, Pc.role] at h1
  clear I J B K M hwf
  cases h
  case popClaim ctx i0 k0 nr cl hpc hq hi hcell hfull =>
    have hit := (isTask_iff cl.item).mp (l4 k0 i0 cl hcell)
    obtain ⟨idx, hidx⟩ := hit
    clear hcell l4
    cases ctx <;> simp only [hidx] at * <;> s_close_C
  case wRecv i0 cl hpc hcell hfull =>
    have hc1 := Q.itemAt_eq _ _ _ hcell
    have hc2 := Q.stAt_eq _ _ _ hcell
    have hc3 : i0 < s.g.cells.length := Q.stAt_some_lt _ _ _ hc2
    rw [hfull] at hc2
    clear hcell l4
    cases hx : cl.item <;> simp only [hx] at * <;> s_close_C
  case gPublish p k hpc hfree hst =>
    have hc3 : p < s.g.cells.length := Q.stAt_some_lt _ _ _ hst
    clear l4; s_close_C
  case sLd hpc =>
    skip
    clear l4; s_close_C
  all_goals (clear l4; try s_close_C)

end
end Babylon.Exec
