/-
  Ticket-level model of `ThreadPoolExecutor` (src/babylon/executor.{h,cpp}) for property C07.

  Granularity.  One model step is one *queue-interface action* of the real code:
    * an atomic operation on a queue index (`_next_push_index` / `_next_pop_index` of the global
      queue and of every thread-local queue) or on the `_running` flag — exactly the lines VRT
      prints for those locations,
    * a harness event around the API (`submit id`, `accept id`, `run id`, `done id`, `stop_begin` …),
    * thread exit / join,
    * or one of two *hidden* steps that have no line in the trace because they happen on slot
      words this model does not look at: `publish` (a push makes its value visible: the
      `set_version` at the end of `deal<…,PUSH>`) and `receive` (a blocking pop obtains the value of
      its ticket and frees the slot).
  A successful `try_pop` is one step (the CAS on the pop index): its callback only moves the task out
  and the slot is released before the caller does anything else.  This holds for the worker, for a
  stealing worker and — since the repair recorded as `fixed: property=C07 4e1dfd6` — for the balance
  thread, which now pops into a local `Task` and forwards it afterwards (before, it forwarded from
  inside the callback and kept the slot occupied while blocked on the global queue; the generated
  obligation `gen_balance_forwards_after_pop` pins the repaired shape).

  Everything below the tickets is the bounded queue's own business (property C01/C02).  What this
  model ASSUMES of `ConcurrentBoundedQueue`, per queue with `slots = bit_ceil(min_capacity)` cells:
    Q1 (tickets, C01 `bq_inv`/`bq_fifo`): push tickets are handed out in the order of the
       `fetch_add`/store on `_next_push_index`, pop tickets in the order of the successful
       `fetch_add`/CAS on `_next_pop_index`; every ticket is held by exactly one call.
    Q2 (value, C01 `bq_value`, `bq_no_dup_no_invent`): the pop with ticket `i` obtains exactly the
       value written by the push with ticket `i`.
    Q3 (blocking, C01 `bq_inv` + C02 `bq_sleep_sound`/`bq_guard_stable`): the push with ticket `p`
       completes only after the pop with ticket `p - slots` has released its slot (or `p < slots`);
       a blocking pop with ticket `i` completes only after push `i` has completed; neither waits
       for anything else.
    Q4 (`try_pop`, C01 `bq_try_fail_justified`): `try_pop` claims ticket `i` (CAS on the pop index)
       only if push `i` has completed; it reports "empty" only if at some moment of the call the
       pop index was `i` and push `i` had not completed.  Because "push `i` completed and `i` not
       claimed" is stable while the pop index stays `i`, that moment can be taken to be the load of
       the index that returned `i` — the flag `nr` ("not ready at load") in the program counters.
    Q5 (`size`, source order of the two relaxed loads): `size()` is `push index − pop index`
       read pop-first, clamped at 0.
  These are cited, not re-proved (assume–guarantee; the names are those planned in DESIGN §6 C01/C02).
  The correspondence check replays real executions through `step`, so a queue that broke Q1–Q5 in a
  way visible at the tickets would show up as a divergence.

  Ghost fields (`known`, `loc`, `runs`, `done`, `preStop`, `viaLocal`, `exitTicket`, …) never
  influence a guard of a non-ghost transition, with one exception stated where it occurs: ids of
  submitted tasks must be fresh (client contract of the harness).
  Core Lean only.
-/
namespace Babylon.Exec

/-- `start()`: `_global_task_queue.reserve_and_clear(_global_capacity * 2)` and, per thread-local queue,
`reserve_and_clear(_local_capacity * 2)`; tied to the source by `gen_queue_sizing` in Properties/C07.lean
(the model does not import the generated file, so a source change re-checks the obligations without
recompiling the proofs) -/
def globalFactor : Nat := 2
def localFactor : Nat := 2

/-- what a queue cell carries: `Task{FUNCTION,f}` (identified by the id the harness gave `f`),
`Task{STOP}` or `Task{WAKEUP}` -/
inductive Item
  | task (id : Nat)
  | stop
  | wakeup
  deriving DecidableEq, Repr, Inhabited

/-- life cycle of the cell of push ticket `i`:
`reserved` ticket taken, value not yet published; `full` published, not claimed;
`free` claimed, value moved out, slot released. -/
inductive CellSt
  | reserved | full | free
  deriving DecidableEq, Repr, Inhabited

structure Cell where
  item : Item
  st : CellSt
  deriving DecidableEq, Repr, Inhabited

/-- a queue at ticket level: one cell per push ticket ever issued, and the number of pop tickets issued -/
structure Q where
  cells : List Cell := []
  popIdx : Nat := 0
  deriving Repr, Inhabited

def Q.pushIdx (q : Q) : Nat := q.cells.length

/-- push `i` has completed and nobody has claimed it -/
def Q.ready (q : Q) (i : Nat) : Bool :=
  match q.cells[i]? with
  | some c => c.st == .full
  | none => false

/-- Q3: push ticket `p` may complete -/
def Q.slotFree (q : Q) (slots p : Nat) : Bool :=
  p < slots ||
  match q.cells[p - slots]? with
  | some c => c.st == .free
  | none => false

def Q.take (q : Q) (x : Item) : Q := { q with cells := q.cells ++ [⟨x, .reserved⟩] }

def Q.setSt (q : Q) (i : Nat) (st : CellSt) : Q :=
  match q.cells[i]? with
  | some c => { q with cells := q.cells.set i ⟨c.item, st⟩ }
  | none => q

def Q.itemAt (q : Q) (i : Nat) : Option Item := (q.cells[i]?).map (·.item)

def Q.stAt (q : Q) (i : Nat) : Option CellSt := (q.cells[i]?).map (·.st)

/-- all pop tickets handed out cover all push tickets: nothing left to claim -/
def Q.drained (q : Q) : Bool := q.cells.length ≤ q.popIdx

/-- smallest power of two `≥ n` (`absl::bit_ceil`, with `bit_ceil 0 = 1`) -/
def bitCeilAux : Nat → Nat → Nat → Nat
  | 0, p, _ => p
  | fuel + 1, p, n => if n ≤ p then p else bitCeilAux fuel (2 * p) n

def bitCeil (n : Nat) : Nat := bitCeilAux n 1 n

structure Cfg where
  L : Nat                 -- `_local_capacity`
  G : Nat                 -- `_global_capacity`
  steal : Bool            -- `_enable_work_stealing`
  workers : List Nat      -- thread ids of `_threads`, in the order `stop()` joins them
  bal : Option Nat        -- thread id of `_balance_thread` (none: interval unset)
  deriving Repr

def Cfg.lslots (c : Cfg) : Nat := bitCeil (localFactor * c.L)
def Cfg.gslots (c : Cfg) : Nat := bitCeil (globalFactor * c.G)

/-- which `try_pop` a thread is inside: its own local queue (`keep_execute`), slot `k` of the stealing
scan, or slot `k` of the balance thread's sweep -/
inductive PopCtx
  | own
  | steal (k : Nat)
  | bal (k : Nat)
  deriving DecidableEq, Repr, Inhabited

/-- program counters.  `gTake x k` / `gPub p k` is the generic blocking push of `x` into the global
queue (`_global_task_queue.push<true,false,true>`) followed by the continuation `k`;
`chk ctx i nr` is the body of `try_pop<true,false>` after the pop index `i` has been loaded
(`nr`: ticket `i` was not ready at that moment, assumption Q4). -/
inductive Pc
  | idle                                   -- a thread outside the pool, between API calls
  | exited
  | gTake (x : Item) (k : Pc)              -- next: `fetch_add` on the global push index
  | gPub (p : Nat) (k : Pc)                -- holds push ticket `p`; hidden: publish (Q3)
  | xRet (id : Nat)                        -- external `execute/submit` about to return
  | xWkRet                                 -- `wakeup_one_worker` about to return
  | sLd | sSt | sJoinB                     -- `stop()`: load `_running`, store false, join balancer
  | sJoinW (n : Nat)                       -- `stop()`: join `_threads[n]`
  | sEnd                                   -- `stop()` about to return
  | wInit                                  -- `keep_execute` entered, slot of `local()` not yet known
  | wTop                                   -- loop head: `local_queue.try_pop` loads the pop index
  | wSteal (k : Nat)                       -- scanning slot `k` of `for_each`, or going to the global pop
  | chk (ctx : PopCtx) (i : Nat) (nr : Bool)
  | wGWait (i : Nat)                       -- holds global pop ticket `i`; hidden: receive (Q3)
  | wPre (id : Nat)                        -- popped `Task{FUNCTION}`; next: the function starts
  | wStopping                              -- popped `Task{STOP}`: returning from `keep_execute`
  | wRun (id : Nat)                        -- inside the function of task `id`
  | rSz0 (id c : Nat)                      -- `enqueue_task` on a worker: `size()` loads the pop index
  | rSz1 (id c a : Nat)                    --   … then the push index
  | rLLd (id c : Nat)                      -- local `push<false,…>`: load the push index
  | rLSt (id c p : Nat)                    --   … store `p + 1`
  | rLPub (id c p : Nat)                   -- holds local push ticket `p`; hidden: publish
  | rRet (id c : Nat)                      -- inner `execute/submit` about to return
  | bTop                                   -- `keep_balance`: load `_running`
  | bSweep (k : Nat)                       -- sweeping slot `k`
  | bStopping
  deriving DecidableEq, Repr, Inhabited

/-- ghost: the one place where an entered task is -/
inductive Loc
  | nowhere
  | gq (i : Nat)            -- global cell `i` (reserved or full)
  | lq (k i : Nat)          -- cell `i` of local queue `k` (reserved or full)
  | hand (t : Nat)          -- in the hands of thread `t` (submitting, forwarding, about to run, running)
  | fin                     -- finished
  deriving DecidableEq, Repr, Inhabited

structure State where
  g : Q
  l : Nat → Q
  pc : Nat → Pc
  own : Nat → Option Nat          -- worker thread ↦ its slot in `_local_task_queues`
  owner : Nat → Option Nat        -- slot ↦ worker thread
  scope : Nat → Nat               -- foreign `RunnerScope`s open on a thread (inside a task)
  running : Bool                  -- `_running`
  -- ghost
  known : Nat → Bool              -- the task has an entry (its submission started)
  loc : Nat → Loc
  accepted : Nat → Bool           -- `execute/submit` returned success
  rejected : Nat → Bool           -- a submission of `id` failed (`invoke ≠ 0`)
  preStop : Nat → Bool            -- accepted before `stop()` was called
  viaLocal : Nat → Bool           -- was pushed into a local queue
  runs : Nat → Nat                -- how often the function was started
  done : Nat → Bool
  futValid : Nat → Bool
  futReady : Nat → Bool
  stopCalled : Bool
  stopReturned : Bool
  exitTicket : Nat → Option Nat   -- worker ↦ global ticket of the STOP it returned on
  markers : Nat                   -- STOP markers whose push ticket was taken
  gTicket : Nat → Option Nat      -- task ↦ its push ticket in the global queue (if it ever went there)
  firstMarker : Option Nat        -- global push ticket of the first STOP marker
  stopper : Option Nat            -- the thread that called `stop()`

def upd {α : Type} (f : Nat → α) (i : Nat) (v : α) : Nat → α := fun j => if j = i then v else f j

def State.init (c : Cfg) : State :=
  { g := {}, l := fun _ => {},
    pc := fun t => if t ∈ c.workers then .wInit else if c.bal = some t then .bTop else .idle,
    own := fun _ => none, owner := fun _ => none, scope := fun _ => 0, running := true,
    known := fun _ => false, loc := fun _ => .nowhere, accepted := fun _ => false,
    rejected := fun _ => false, preStop := fun _ => false, viaLocal := fun _ => false,
    runs := fun _ => 0, done := fun _ => false, futValid := fun _ => false,
    futReady := fun _ => false, stopCalled := false, stopReturned := false,
    exitTicket := fun _ => none, markers := 0, gTicket := fun _ => none, firstMarker := none,
    stopper := none }

/-- labels: what VRT shows of one step (or which hidden step it is) -/
inductive Lbl
  | ldPop (k v : Nat)                          -- `ld lpop.k rlx v`
  | casPop (k e : Nat) (ok : Bool) (obs : Nat) -- `casw lpop.k rlx rlx e e+1 ok obs`
  | ldPush (k v : Nat)                         -- `ld lpush.k rlx v`
  | stPush (k v : Nat)                         -- `st lpush.k rlx v`
  | gPushTk (p : Nat)                          -- `rmw add gpush rlx p 1`
  | gPopTk (i : Nat)                           -- `rmw add gpop rlx i 1`
  | ldRun (v : Bool)                           -- `ld running acq v`
  | stRun                                      -- `st running rel 0`
  | join (u : Nat)
  | exit
  | submit (id : Nat) (inp : Bool)             -- harness: about to call execute/submit; `inp` = `is_running_in()`
  | accept (id : Nat)
  | reject (id : Nat)
  | run (id : Nat) (inp : Bool)
  | done (id : Nat)
  | stopBegin | stopEnd
  | wakeup | wakeupRet
  | scopeEnter | scopeLeave
  | publish | receive                          -- hidden
  deriving DecidableEq, Repr, Inhabited

def Lbl.hidden : Lbl → Bool
  | .publish | .receive => true
  | _ => false

/-- the chain of pushes of `n` STOP markers followed by the joins (or the return when there is no worker) -/
def markChain (c : Cfg) : Nat → Pc
  | 0 => if c.workers.isEmpty then .sEnd else .sJoinW 0
  | n + 1 => .gTake .stop (markChain c n)

def afterStore (c : Cfg) : Pc :=
  if c.bal.isSome then .sJoinB else markChain c c.workers.length

def setPc (s : State) (t : Nat) (p : Pc) : State := { s with pc := upd s.pc t p }

/-- `stop()`: `if (!_running.load()) return;` -/
def afterLdRunS (v : Bool) : Pc := if v then .sSt else .sEnd
/-- `keep_balance`: `while (_running.load())` -/
def afterLdRunB (v : Bool) : Pc := if v then .bSweep 0 else .bStopping
/-- `stop()`: next thread of `_threads` to join -/
def afterJoinW (c : Cfg) (n : Nat) : Pc := if n + 1 < c.workers.length then .sJoinW (n + 1) else .sEnd
/-- `enqueue_task`: `if (is_running_in()) if (_local_capacity > 0)` -/
def afterSubmit (c : Cfg) (inp : Bool) (id cid : Nat) : Pc :=
  if inp = true ∧ 0 < c.L then .rSz0 id cid else .gTake (.task cid) (.rRet id cid)
/-- `enqueue_task`: `if (local_queue.size() < _local_capacity)` with `size() = push − pop` clamped at 0 -/
def afterSize (c : Cfg) (p a id cid : Nat) : Pc :=
  if p - a < c.L then .rLLd id cid else .gTake (.task cid) (.rRet id cid)
def noteMarker (fm : Option Nat) (p : Nat) : Option Nat :=
  match fm with
  | none => some p
  | some j => some j

/-- a worker obtained item `x` — the `switch (task.type)` of `keep_execute` -/
def dispatch (s : State) (w : Nat) (x : Item) (ticket : Option Nat) : State :=
  match x with
  | .task id => { s with pc := upd s.pc w (.wPre id), loc := upd s.loc id (.hand w) }
  | .stop => { s with pc := upd s.pc w .wStopping, exitTicket := upd s.exitTicket w ticket }
  | .wakeup => { s with pc := upd s.pc w .wTop }

/-- successful claim of ticket `i` of local queue `k` (worker, stealing worker or balance thread):
the callback moves the task out and the slot is released at once -/
def claimLocal (s : State) (k i : Nat) : State :=
  { s with l := upd s.l k { (s.l k).setSt i .free with popIdx := i + 1 } }

/-- the balance thread forwards what it popped: `enqueue_task` on a thread that is not running in
the pool is a push into the global queue -/
def forward (s : State) (t k : Nat) (x : Item) : State :=
  match x with
  | .task id => { s with pc := upd s.pc t (.gTake x (.bSweep k)), loc := upd s.loc id (.hand t) }
  | _ => { s with pc := upd s.pc t (.gTake x (.bSweep k)) }

/-- the queue a `try_pop` context works on -/
def PopCtx.queue (s : State) (t : Nat) : PopCtx → Option Nat
  | .own => s.own t
  | .steal k => some k
  | .bal k => some k

/-- where the "empty" verdict of `try_pop` leads -/
def PopCtx.onEmpty : PopCtx → Pc
  | .own => .wSteal 0
  | .steal k => .wSteal (k + 1)
  | .bal k => .bSweep (k + 1)

/-- what happens with a claimed item -/
def PopCtx.onClaim (s : State) (t : Nat) (x : Item) : PopCtx → State
  | .own => dispatch s t x none
  | .steal _ => dispatch s t x none
  | .bal k => forward s t k x

/-- slot `k` of the thread-local storage is not the slot of a live worker -/
def slotAvailable (s : State) (k : Nat) : Bool :=
  match s.owner k with
  | none => true
  | some u => s.pc u == .exited

/-- `accept`: the submitting call returns success -/
def acceptTask (s : State) (id : Nat) : State :=
  { s with accepted := upd s.accepted id true, futValid := upd s.futValid id true,
           preStop := upd s.preStop id (!s.stopCalled) }

/-- first load of the pop index of queue `k` inside `try_pop` -/
def loadPop (s : State) (t k v : Nat) (ctx : PopCtx) : Option State :=
  if v = (s.l k).popIdx then some (setPc s t (.chk ctx v (!(s.l k).ready v))) else none

/-- One step of thread `t` with label `l`; `none` = not enabled. -/
def step (c : Cfg) (s : State) (t : Nat) (lb : Lbl) : Option State :=
  match s.pc t, lb with
  -- ───────── threads outside the pool
  | .idle, .submit id inp =>
    if inp = false ∧ s.known id = false ∧ s.rejected id = false then
      some { s with pc := upd s.pc t (.gTake (.task id) (.xRet id)), known := upd s.known id true,
                    loc := upd s.loc id (.hand t) }
    else none
  | .idle, .reject id =>
    if s.known id = false ∧ s.rejected id = false then some { s with rejected := upd s.rejected id true } else none
  | .idle, .wakeup => some (setPc s t (.gTake .wakeup .xWkRet))
  | .idle, .stopBegin =>
    if s.stopCalled = false then some { s with pc := upd s.pc t .sLd, stopCalled := true, stopper := some t } else none
  | .idle, .join u => if s.pc u = .exited then some s else none
  | .idle, .exit => some (setPc s t .exited)
  | .xRet id, .accept id' => if id' = id then some (setPc (acceptTask s id) t .idle) else none
  | .xWkRet, .wakeupRet => some (setPc s t .idle)
  -- ───────── generic global push
  | .gTake x k, .gPushTk p =>
    if p = s.g.cells.length then
      let s1 := { s with g := s.g.take x, pc := upd s.pc t (.gPub p k) }
      match x with
      | .task id => some { s1 with loc := upd s1.loc id (.gq p), gTicket := upd s1.gTicket id (some p) }
      | .stop => some { s1 with markers := s1.markers + 1,
                                firstMarker := noteMarker s1.firstMarker p }
      | .wakeup => some s1
    else none
  | .gPub p k, .publish =>
    if s.g.slotFree c.gslots p = true ∧ s.g.stAt p = some .reserved then
      some { s with g := s.g.setSt p .full, pc := upd s.pc t k }
    else none
  -- ───────── stop()
  | .sLd, .ldRun v =>
    if v = s.running then some (setPc s t (afterLdRunS v)) else none
  | .sSt, .stRun => some { s with running := false, pc := upd s.pc t (afterStore c) }
  | .sJoinB, .join u =>
    if c.bal = some u ∧ s.pc u = .exited then some (setPc s t (markChain c c.workers.length)) else none
  | .sJoinW n, .join u =>
    if c.workers[n]? = some u ∧ s.pc u = .exited then
      some (setPc s t (afterJoinW c n))
    else none
  | .sEnd, .stopEnd => some { s with pc := upd s.pc t .idle, stopReturned := true }
  -- ───────── worker: keep_execute
  | .wInit, .ldPop k v =>
    -- `local()`: the slot of this thread's id; thread ids are unique among live threads (C14) and are
    -- handed out again after a thread has exited, so a late-starting worker may inherit the slot of a
    -- worker that has already returned
    if slotAvailable s k = true then
      loadPop { s with own := upd s.own t (some k), owner := upd s.owner k (some t) } t k v .own
    else none
  | .wTop, .ldPop k v => if s.own t = some k then loadPop s t k v .own else none
  | .wSteal k, .ldPop k' v => if c.steal = true ∧ k' = k then loadPop s t k v (.steal k) else none
  | .wSteal _, .gPopTk i =>
    if i = s.g.popIdx then some { s with g := { s.g with popIdx := i + 1 }, pc := upd s.pc t (.wGWait i) } else none
  -- ───────── try_pop after the index load (worker, stealing worker, balance thread)
  | .chk ctx i nr, .ldPop k v =>
    if ctx.queue s t = some k ∧ v = (s.l k).popIdx then
      if v = i then (if nr = true then some (setPc s t ctx.onEmpty) else none)
      else some (setPc s t (.chk ctx v (!(s.l k).ready v)))
    else none
  | .chk ctx i _, .casPop k e ok obs =>
    if ctx.queue s t = some k ∧ e = i ∧ obs = (s.l k).popIdx then
      if ok = true then
        match (s.l k).cells[i]? with
        | some cl => if obs = i ∧ cl.st = .full then some (ctx.onClaim (claimLocal s k i) t cl.item) else none
        | none => none
      else some (setPc s t (.chk ctx obs (!(s.l k).ready obs)))
    else none
  | .wGWait i, .receive =>
    match s.g.cells[i]? with
    | some cl => if cl.st = .full then some (dispatch { s with g := s.g.setSt i .free } t cl.item (some i)) else none
    | none => none
  | .wPre id, .run id' inp =>
    if id' = id ∧ inp = true ∧ s.scope t = 0 then
      some { s with pc := upd s.pc t (.wRun id), runs := upd s.runs id (s.runs id + 1) }
    else none
  | .wStopping, .exit => some (setPc s t .exited)
  -- ───────── inside a task
  | .wRun id, .submit cid inp =>
    if inp = (s.scope t == 0) ∧ s.known cid = false ∧ s.rejected cid = false then
      some { s with pc := upd s.pc t (afterSubmit c inp id cid),
                    known := upd s.known cid true, loc := upd s.loc cid (.hand t) }
    else none
  | .wRun _, .reject cid =>
    if s.known cid = false ∧ s.rejected cid = false then some { s with rejected := upd s.rejected cid true } else none
  | .wRun _, .scopeEnter => some { s with scope := upd s.scope t (s.scope t + 1) }
  | .wRun _, .scopeLeave => if 0 < s.scope t then some { s with scope := upd s.scope t (s.scope t - 1) } else none
  | .wRun id, .done id' =>
    if id' = id ∧ s.scope t = 0 then
      some { s with pc := upd s.pc t .wTop, done := upd s.done id true, futReady := upd s.futReady id true,
                    loc := upd s.loc id .fin }
    else none
  | .rSz0 id cid, .ldPop k a =>
    if s.own t = some k ∧ a = (s.l k).popIdx then some (setPc s t (.rSz1 id cid a)) else none
  | .rSz1 id cid a, .ldPush k p =>
    if s.own t = some k ∧ p = (s.l k).cells.length then
      some (setPc s t (afterSize c p a id cid))
    else none
  | .rLLd id cid, .ldPush k p =>
    if s.own t = some k ∧ p = (s.l k).cells.length then some (setPc s t (.rLSt id cid p)) else none
  | .rLSt id cid p, .stPush k v =>
    if s.own t = some k ∧ v = p + 1 ∧ p = (s.l k).cells.length then
      some { s with l := upd s.l k ((s.l k).take (.task cid)), pc := upd s.pc t (.rLPub id cid p),
                    loc := upd s.loc cid (.lq k p), viaLocal := upd s.viaLocal cid true }
    else none
  | .rLPub id cid p, .publish =>
    match s.own t with
    | some k =>
      if (s.l k).slotFree c.lslots p = true ∧ (s.l k).stAt p = some .reserved then
        some { s with l := upd s.l k ((s.l k).setSt p .full), pc := upd s.pc t (.rRet id cid) }
      else none
    | none => none
  | .rRet id cid, .accept cid' => if cid' = cid then some (setPc (acceptTask s cid) t (.wRun id)) else none
  -- ───────── keep_balance
  | .bTop, .ldRun v => if v = s.running then some (setPc s t (afterLdRunB v)) else none
  | .bSweep _, .ldRun v => if v = s.running then some (setPc s t (afterLdRunB v)) else none
  | .bSweep k, .ldPop k' v => if k' = k then loadPop s t k v (.bal k) else none
  | .bStopping, .exit => some (setPc s t .exited)
  | _, _ => none

/-- the transition relation: some thread takes its next step -/
def Step (c : Cfg) (s s' : State) : Prop := ∃ t lb, step c s t lb = some s'

/-- well-formed configuration: distinct worker threads, the balance thread is not a worker -/
def Cfg.WF (c : Cfg) : Prop := c.workers.Nodup ∧ ∀ b, c.bal = some b → b ∉ c.workers

end Babylon.Exec
