/-
  Small proof-side tactics for the executor lemmas (core Lean only).
  `split_ands`: destructs every hypothesis whose type is syntactically a conjunction (repeatedly).
-/
import Lean

/-- projection lemmas of the executor model's helper functions -/
register_simp_attr exec_proj

namespace Babylon.Exec
open Lean Elab Tactic Meta

/-- find a local hypothesis of the form `_ ∧ _` -/
private def findAnd (g : MVarId) : MetaM (Option FVarId) := g.withContext do
  for d in (← getLCtx) do
    if d.isImplementationDetail then continue
    let ty ← instantiateMVars d.type
    if ty.isAppOfArity ``And 2 then return some d.fvarId
  return none

elab "split_ands" : tactic => do
  let mut fuel := 64
  while fuel > 0 do
    fuel := fuel - 1
    let g ← getMainGoal
    match ← findAnd g with
    | none => break
    | some fv =>
      let subs ← g.cases fv
      replaceMainGoal (subs.toList.map (·.mvarId))

end Babylon.Exec
