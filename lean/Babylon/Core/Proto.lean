/-
  Line-protocol helpers shared by the per-property driver executables
  (one operation per input line, one canonical output line per operation).
-/
namespace Babylon.Core

def words (line : String) : List String :=
  (line.trimAscii.toString.splitOn " ").filter (· ≠ "")

def joinNat (xs : List Nat) : String :=
  " ".intercalate (xs.map toString)

def parseNats (ws : List String) : Option (List Nat) :=
  ws.mapM String.toNat?

def parseInt? (s : String) : Option Int :=
  if s.startsWith "-" then (s.drop 1).toNat?.map (fun n => - (n : Int)) else s.toNat?.map (fun n => (n : Int))

/-- Generic stdin loop: feed each line to `step`, print its output. -/
partial def lineLoop {σ : Type} (h : IO.FS.Stream) (step : σ → String → σ × String) (s : σ) : IO Unit := do
  let line ← h.getLine
  if line.isEmpty then return ()
  let (s', out) := step s line
  IO.println out
  lineLoop h step s'

def runLines {σ : Type} (step : σ → String → σ × String) (init : σ) : IO Unit := do
  lineLoop (← IO.getStdin) step init

end Babylon.Core
