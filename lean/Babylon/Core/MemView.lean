/-
  Operational release/acquire "view" memory model (DESIGN.md §3.4), shared by every property
  whose content is a weak-memory pattern (C09 first).  Core Lean only.

  * per location an append-only list of messages `(value, view)`; the *timestamp* of a message
    is its index in that list; timestamp 0 is the initial message;
  * per thread three views (`cur ≤ acq`, `rel ≤ cur`): what the thread knows (`cur`), what it
    will know after its next acquire fence (`acq`), what its relaxed stores publish (`rel`);
  * a relaxed / acquire **load** may read ANY message of the location whose timestamp is not
    older than the thread's `cur` view of that location — this is where staleness lives;
    a relaxed load joins the message view into `acq`, an acquire load into `cur` as well;
  * a **store** appends a message; a release store attaches the thread's `cur` view, a relaxed
    store attaches `rel` (raised by release fences only);
  * an **RMW** reads the LAST message and appends; its message also carries the view of the
    message it read (release sequences continue through RMWs);
  * acquire fence `cur := acq`, release fence `rel := cur`, **SC fence** joins with and then
    updates one global view `sc`.

  Deliberate strengthenings w.r.t. the C++20 model (each removes behaviours; they are part of the
  trusted base of every theorem stated over this model):
    S1  modification order = execution order (a store always appends after every earlier store
        of the same location) — true on multi-copy-atomic hardware (x86, ARMv8, RISC-V);
    S2  no load buffering / out-of-thin-air: a load reads a message that already exists;
    S3  a `seq_cst` RMW acts as a full SC fence before and after its access (the x86 `lock`
        prefix mapping that `Epoch::tick`'s own `#if __x86_64__` branch relies on);
    S4  `seq_cst` plain loads / stores are treated as acquire / release only (this one is a
        *weakening*, i.e. it adds behaviours; sound for safety theorems; no modelled code uses them).
  Deliberate weakening: one `rel` view per thread instead of one per location (a relaxed store
  after a release store to the same location publishes less than C++11 release sequences did;
  C++20 removed that guarantee anyway).

  Generic lemmas proved here: well-formedness preservation (views never point past the end of a
  history), monotonicity of every view along every step, `mp_release_acquire` (message passing),
  `mp_fences` (relaxed accesses + release/acquire fences), `rmw_reads_last`,
  `read_own_write` (coherence), `sc_fence_dekker` (of two SC fences the later one's thread view
  includes everything the earlier thread had seen or done before its fence).
-/
import Babylon.Core.Skel

namespace Babylon.Core.MemView
open Babylon.Core

/-- function update -/
def upd {α β : Type} [DecidableEq α] (f : α → β) (a : α) (b : β) : α → β :=
  fun x => if x = a then b else f x

@[simp] theorem upd_same {α β : Type} [DecidableEq α] (f : α → β) (a : α) (b : β) : upd f a b a = b := by
  simp [upd]
@[simp] theorem upd_other {α β : Type} [DecidableEq α] (f : α → β) (a : α) (b : β) (x : α) (h : x ≠ a) :
    upd f a b x = f x := by
  simp [upd, h]
theorem upd_apply {α β : Type} [DecidableEq α] (f : α → β) (a : α) (b : β) (x : α) :
    upd f a b x = if x = a then b else f x := rfl

/-! ### Views: finite maps `location ↦ timestamp` (default 0), kept as data so that `≤` is
decidable (the replay driver checks hand-over contracts with it) and states are printable. -/

structure View (L : Type) where
  ents : List (L × Nat)
  deriving Repr

namespace View
variable {L : Type} [DecidableEq L]

def bot : View L := ⟨[]⟩

def getL : List (L × Nat) → L → Nat
  | [], _ => 0
  | (k, x) :: r, l => if k = l then x else getL r l

/-- timestamp the view holds for `l` -/
def get (v : View L) (l : L) : Nat := getL v.ents l

def bumpL : List (L × Nat) → L → Nat → List (L × Nat)
  | [], l, n => [(l, n)]
  | (k, x) :: r, l, n => if k = l then (k, max x n) :: r else (k, x) :: bumpL r l n

/-- raise the entry of `l` to at least `n` -/
def bump (v : View L) (l : L) (n : Nat) : View L := ⟨bumpL v.ents l n⟩

/-- pointwise maximum -/
def join (a b : View L) : View L :=
  ⟨a.ents.foldl (fun acc p => bumpL acc p.1 (getL a.ents p.1)) b.ents⟩

theorem getL_bumpL (v : List (L × Nat)) (l : L) (n : Nat) (l' : L) :
    getL (bumpL v l n) l' = if l' = l then max (getL v l) n else getL v l' := by
  induction v with
  | nil =>
    by_cases h : l' = l
    · subst h; simp [bumpL, getL]
    · have : ¬ l = l' := fun e => h e.symm
      simp [bumpL, getL, h, this]
  | cons p r ih =>
    obtain ⟨k, x⟩ := p
    by_cases hk : k = l
    · subst hk
      by_cases h : l' = k
      · subst h; simp [bumpL, getL]
      · have : ¬ k = l' := fun e => h e.symm
        simp [bumpL, getL, h, this]
    · by_cases h : l' = l
      · subst h
        simp [bumpL, getL, hk, ih]
      · by_cases hk' : k = l'
        · simp [bumpL, getL, hk', h]
        · simp [bumpL, getL, hk, hk', h, ih]

@[simp] theorem get_bot (l : L) : (bot : View L).get l = 0 := rfl

@[simp] theorem get_bump (v : View L) (l : L) (n : Nat) (l' : L) :
    (v.bump l n).get l' = if l' = l then max (v.get l) n else v.get l' :=
  getL_bumpL v.ents l n l'

theorem getL_foldl (f : L → Nat) (ks : List (L × Nat)) (b : List (L × Nat)) (l : L) :
    getL (ks.foldl (fun acc p => bumpL acc p.1 (f p.1)) b) l =
      if (∃ p ∈ ks, p.1 = l) then max (getL b l) (f l) else getL b l := by
  induction ks generalizing b with
  | nil => simp
  | cons p r ih =>
    simp only [List.foldl_cons]
    rw [ih]
    by_cases hp : p.1 = l
    · subst hp
      have h1 : ∃ q ∈ p :: r, q.1 = p.1 := ⟨p, by simp, rfl⟩
      simp only [h1, if_true, getL_bumpL]
      by_cases h2 : ∃ q ∈ r, q.1 = p.1
      · simp only [h2, if_true]; omega
      · simp only [h2, if_false]
    · have hne : ¬ l = p.1 := fun e => hp e.symm
      have : (∃ q ∈ p :: r, q.1 = l) ↔ (∃ q ∈ r, q.1 = l) := by
        constructor
        · rintro ⟨q, hq, e⟩
          rcases List.mem_cons.mp hq with rfl | hq
          · exact absurd e hp
          · exact ⟨q, hq, e⟩
        · rintro ⟨q, hq, e⟩
          exact ⟨q, List.mem_cons_of_mem _ hq, e⟩
      simp only [this, getL_bumpL, hne, if_false]

theorem getL_eq_zero_of_not_key (v : List (L × Nat)) (l : L) (h : ¬ ∃ p ∈ v, p.1 = l) : getL v l = 0 := by
  induction v with
  | nil => rfl
  | cons p r ih =>
    obtain ⟨k, x⟩ := p
    have hk : ¬ k = l := fun e => h ⟨(k, x), by simp, e⟩
    have hr : ¬ ∃ q ∈ r, q.1 = l := fun ⟨q, hq, e⟩ => h ⟨q, List.mem_cons_of_mem _ hq, e⟩
    simp [getL, hk, ih hr]

@[simp] theorem get_join (a b : View L) (l : L) : (a.join b).get l = max (a.get l) (b.get l) := by
  unfold join get
  simp only
  rw [getL_foldl (fun k => getL a.ents k)]
  by_cases h : ∃ p ∈ a.ents, p.1 = l
  · simp only [h, if_true]; omega
  · simp only [h, if_false, getL_eq_zero_of_not_key _ _ h]; omega

instance : LE (View L) := ⟨fun a b => ∀ l, a.get l ≤ b.get l⟩

theorem le_def (a b : View L) : a ≤ b ↔ ∀ l, a.get l ≤ b.get l := Iff.rfl

/-- decision procedure for `≤`: only the keys of `a` matter -/
def leB (a b : View L) : Bool := a.ents.all (fun p => decide (a.get p.1 ≤ b.get p.1))

theorem leB_iff (a b : View L) : leB a b = true ↔ a ≤ b := by
  constructor
  · intro h l
    by_cases hk : ∃ p ∈ a.ents, p.1 = l
    · obtain ⟨p, hp, e⟩ := hk
      have := (List.all_eq_true.mp h) p hp
      subst e
      simpa using this
    · have : a.get l = 0 := getL_eq_zero_of_not_key _ _ hk
      omega
  · intro h
    apply List.all_eq_true.mpr
    intro p _
    simpa using h p.1

instance (a b : View L) : Decidable (a ≤ b) := decidable_of_iff _ (leB_iff a b)

theorem le_refl (a : View L) : a ≤ a := fun _ => Nat.le_refl _
theorem le_trans {a b c : View L} (h1 : a ≤ b) (h2 : b ≤ c) : a ≤ c := fun l => Nat.le_trans (h1 l) (h2 l)
theorem bot_le (a : View L) : bot ≤ a := fun l => by simp
theorem le_join_left (a b : View L) : a ≤ a.join b := fun l => by simp; omega
theorem le_join_right (a b : View L) : b ≤ a.join b := fun l => by simp; omega
theorem join_le {a b c : View L} (h1 : a ≤ c) (h2 : b ≤ c) : a.join b ≤ c := fun l => by
  have := h1 l; have := h2 l; simp; omega
theorem le_bump (a : View L) (l : L) (n : Nat) : a ≤ a.bump l n := fun l' => by
  simp; split <;> (try subst_vars) <;> omega
theorem bump_le {a c : View L} {l : L} {n : Nat} (h1 : a ≤ c) (h2 : n ≤ c.get l) : a.bump l n ≤ c := fun l' => by
  have := h1 l'
  simp; split
  · subst_vars; omega
  · omega
theorem get_mono {a b : View L} (h : a ≤ b) (l : L) : a.get l ≤ b.get l := h l
theorem join_mono {a b c d : View L} (h1 : a ≤ c) (h2 : b ≤ d) : a.join b ≤ c.join d := fun l => by
  have := h1 l; have := h2 l; simp; omega
theorem bump_mono {a c : View L} (h : a ≤ c) (l : L) (n : Nat) : a.bump l n ≤ c.bump l n := fun l' => by
  have := h l'; have := h l
  simp; split <;> omega
theorem get_bump_self (v : View L) (l : L) (n : Nat) : n ≤ (v.bump l n).get l := by simp; omega

end View

/-! ### Memory -/

structure Msg (L : Type) where
  val : Nat
  view : View L
  deriving Repr

structure TView (L : Type) where
  cur : View L
  acq : View L
  rel : View L
  deriving Repr

def TView.bot {L : Type} : TView L := ⟨⟨[]⟩, ⟨[]⟩, ⟨[]⟩⟩

structure Mem (L : Type) where
  hist : L → List (Msg L)
  tv : Nat → TView L
  sc : View L

variable {L : Type} [DecidableEq L]

/-- every location holds exactly its initial message, all views empty -/
def Mem.init (iv : L → Nat) : Mem L :=
  { hist := fun l => [⟨iv l, View.bot⟩], tv := fun _ => TView.bot, sc := View.bot }

/-- number of messages of `l` -/
def Mem.len (m : Mem L) (l : L) : Nat := (m.hist l).length
/-- value of the latest message (0 if none — never happens in a well-formed memory) -/
def Mem.lastVal (m : Mem L) (l : L) : Nat := ((m.hist l).getLast?.map (·.val)).getD 0
/-- timestamp of the latest message -/
def Mem.lastTs (m : Mem L) (l : L) : Nat := m.len l - 1

/-- Fence of order `o` by thread `t`. -/
def Mem.fence (m : Mem L) (t : Nat) (o : Core.Ord) : Mem L :=
  let T := m.tv t
  match o with
  | .sc =>
    let c := (T.cur.join T.acq).join m.sc
    { m with tv := upd m.tv t ⟨c, c, c⟩, sc := c }
  | .acqrel =>
    let c := T.cur.join T.acq
    { m with tv := upd m.tv t ⟨c, c, c⟩ }
  | .acq =>
    let c := T.cur.join T.acq
    { m with tv := upd m.tv t ⟨c, c, T.rel⟩ }
  | .rel => { m with tv := upd m.tv t ⟨T.cur, T.acq, T.cur⟩ }
  | _ => m

/-- the view a load of message `(l, ts)` transfers -/
def msgView (msg : Msg L) (l : L) (ts : Nat) : View L := msg.view.bump l ts

/-- thread views after reading message `msg` at `(l, ts)` with order `o` -/
def TView.read (T : TView L) (msg : Msg L) (l : L) (ts : Nat) (o : Core.Ord) : TView L :=
  { cur := if o.acquires then T.cur.join (msgView msg l ts) else T.cur.bump l ts,
    acq := T.acq.join (msgView msg l ts),
    rel := T.rel }

/-- Load of `l` with order `o` by thread `t` reading the message with timestamp `ts`:
admissible iff the message exists and is not older than the thread's view of `l`. -/
def Mem.read (m : Mem L) (t : Nat) (l : L) (o : Core.Ord) (ts : Nat) : Option (Mem L × Nat) :=
  match (m.hist l)[ts]? with
  | none => none
  | some msg =>
    if (m.tv t).cur.get l ≤ ts then
      some ({ m with tv := upd m.tv t ((m.tv t).read msg l ts o) }, msg.val)
    else none

/-- thread views after writing timestamp `ts` of `l` -/
def TView.wrote (T : TView L) (l : L) (ts : Nat) : TView L :=
  { cur := T.cur.bump l ts, acq := T.acq.bump l ts, rel := T.rel }

/-- view attached to a message written with order `o` at `(l, ts)` by a thread whose views
(already including the write) are `T` -/
def TView.relView (T : TView L) (l : L) (ts : Nat) (o : Core.Ord) : View L :=
  if o.releases then T.cur else T.rel.bump l ts

/-- Store of `v` to `l` with order `o` by thread `t`: appends a message. -/
def Mem.write (m : Mem L) (t : Nat) (l : L) (o : Core.Ord) (v : Nat) : Mem L :=
  let ts := m.len l
  let T := (m.tv t).wrote l ts
  { m with hist := upd m.hist l (m.hist l ++ [⟨v, T.relView l ts o⟩]), tv := upd m.tv t T }

/-- the access part of an RMW (no fence): read the last message, append `f old`; the new message
carries the view of the message read (release sequence). -/
def Mem.rmwCore (m : Mem L) (t : Nat) (l : L) (o : Core.Ord) (f : Nat → Nat) : Option (Mem L × Nat) :=
  match (m.hist l).getLast? with
  | none => none
  | some msg =>
    let tr := m.len l - 1
    let ts := m.len l
    let T := (((m.tv t).read msg l tr o).wrote l ts)
    some ({ m with hist := upd m.hist l (m.hist l ++ [⟨f msg.val, (T.relView l ts o).join msg.view⟩]),
                   tv := upd m.tv t T }, msg.val)

/-- RMW of order `o`; a `seq_cst` RMW is a full SC fence before and after (strengthening S3). -/
def Mem.rmw (m : Mem L) (t : Nat) (l : L) (o : Core.Ord) (f : Nat → Nat) : Option (Mem L × Nat) :=
  if o = .sc then
    match (m.fence t .sc).rmwCore t l o f with
    | none => none
    | some (m', old) => some (m'.fence t .sc, old)
  else m.rmwCore t l o f

/-- Strong compare-exchange reading timestamp `ts`: succeeds (as an RMW of order `so`) iff `ts` is
the last message and holds `expected`; fails (as a load of order `fo`) iff the message read holds
another value; reading a stale message that holds `expected` is not a behaviour. -/
def Mem.cas (m : Mem L) (t : Nat) (l : L) (so fo : Core.Ord) (expected desired ts : Nat) :
    Option (Mem L × Bool × Nat) :=
  match (m.hist l)[ts]? with
  | none => none
  | some msg =>
    if msg.val = expected then
      if ts + 1 = m.len l ∧ (m.tv t).cur.get l ≤ ts then
        match m.rmw t l so (fun _ => desired) with
        | none => none
        | some (m', old) => some (m', true, old)
      else none
    else
      match m.read t l fo ts with
      | none => none
      | some (m', v) => some (m', false, v)

/-! ### Well-formedness: no view points past the end of a history -/

def View.Bounded (m : Mem L) (v : View L) : Prop := ∀ l, v.get l < m.len l

structure Mem.WF (m : Mem L) : Prop where
  nonempty : ∀ l, 0 < m.len l
  cur : ∀ t, View.Bounded m (m.tv t).cur
  acq : ∀ t, View.Bounded m (m.tv t).acq
  rel : ∀ t, View.Bounded m (m.tv t).rel
  sc : View.Bounded m m.sc
  msg : ∀ (l : L) (ts : Nat) (mg : Msg L), (m.hist l)[ts]? = some mg → View.Bounded m mg.view
  cur_acq : ∀ t, (m.tv t).cur ≤ (m.tv t).acq
  rel_cur : ∀ t, (m.tv t).rel ≤ (m.tv t).cur

/-- `m'` extends `m`: histories grow by appending, views only grow. -/
structure Mem.Ext (m m' : Mem L) : Prop where
  hist : ∀ l, ∃ suffix, m'.hist l = m.hist l ++ suffix
  cur : ∀ t, (m.tv t).cur ≤ (m'.tv t).cur
  acq : ∀ t, (m.tv t).acq ≤ (m'.tv t).acq
  sc : m.sc ≤ m'.sc

theorem Mem.Ext.refl (m : Mem L) : m.Ext m :=
  ⟨fun _ => ⟨[], by simp⟩, fun _ => View.le_refl _, fun _ => View.le_refl _, View.le_refl _⟩

theorem Mem.Ext.trans {a b c : Mem L} (h1 : a.Ext b) (h2 : b.Ext c) : a.Ext c :=
  ⟨fun l => by
      obtain ⟨s1, e1⟩ := h1.hist l
      obtain ⟨s2, e2⟩ := h2.hist l
      exact ⟨s1 ++ s2, by rw [e2, e1, List.append_assoc]⟩,
   fun t => View.le_trans (h1.cur t) (h2.cur t),
   fun t => View.le_trans (h1.acq t) (h2.acq t),
   View.le_trans h1.sc h2.sc⟩

theorem Mem.Ext.len_le {m m' : Mem L} (h : m.Ext m') (l : L) : m.len l ≤ m'.len l := by
  obtain ⟨s, e⟩ := h.hist l
  simp [Mem.len, e]

theorem Mem.Ext.get? {m m' : Mem L} (h : m.Ext m') (l : L) (ts : Nat) (msg : Msg L)
    (hm : (m.hist l)[ts]? = some msg) : (m'.hist l)[ts]? = some msg := by
  obtain ⟨s, e⟩ := h.hist l
  rw [e]
  have hlt : ts < (m.hist l).length := by
    rcases Nat.lt_or_ge ts (m.hist l).length with h | h
    · exact h
    · rw [List.getElem?_eq_none h] at hm; cases hm
  rw [List.getElem?_append_left hlt]; exact hm

theorem View.Bounded.mono {m m' : Mem L} (h : ∀ l, m.len l ≤ m'.len l) {v : View L} (hv : View.Bounded m v) :
    View.Bounded m' v := fun l => Nat.lt_of_lt_of_le (hv l) (h l)

theorem View.Bounded.join {m : Mem L} {a b : View L} (ha : View.Bounded m a) (hb : View.Bounded m b) :
    View.Bounded m (a.join b) := fun l => by
  have := ha l; have := hb l; simp; omega

theorem View.Bounded.bump {m : Mem L} {a : View L} {l : L} {n : Nat} (ha : View.Bounded m a) (hn : n < m.len l) :
    View.Bounded m (a.bump l n) := fun l' => by
  have := ha l'
  have := ha l
  simp; split
  · subst_vars; omega
  · omega

theorem View.Bounded.of_le {m : Mem L} {a b : View L} (h : a ≤ b) (hb : View.Bounded m b) : View.Bounded m a :=
  fun l => Nat.lt_of_le_of_lt (h l) (hb l)

/-! #### fence -/

@[simp] theorem Mem.fence_hist (m : Mem L) (t : Nat) (o : Core.Ord) : (m.fence t o).hist = m.hist := by
  cases o <;> rfl

@[simp] theorem Mem.fence_len (m : Mem L) (t : Nat) (o : Core.Ord) (l : L) : (m.fence t o).len l = m.len l := by
  simp [Mem.len]

theorem Mem.fence_tv_other (m : Mem L) (t : Nat) (o : Core.Ord) (t' : Nat) (h : t' ≠ t) :
    (m.fence t o).tv t' = m.tv t' := by
  cases o <;> simp [Mem.fence, h]

/-- the view an SC fence by `t` produces (thread `cur = acq = rel` and global `sc` all become this) -/
def Mem.scView (m : Mem L) (t : Nat) : View L := ((m.tv t).cur.join (m.tv t).acq).join m.sc

@[simp] theorem Mem.fence_sc_tv (m : Mem L) (t : Nat) :
    (m.fence t .sc).tv t = ⟨m.scView t, m.scView t, m.scView t⟩ := by
  simp [Mem.fence, Mem.scView]
@[simp] theorem Mem.fence_sc_sc (m : Mem L) (t : Nat) : (m.fence t .sc).sc = m.scView t := rfl

theorem Mem.cur_le_scView (m : Mem L) (t : Nat) : (m.tv t).cur ≤ m.scView t :=
  View.le_trans (View.le_join_left _ _) (View.le_join_left _ _)
theorem Mem.acq_le_scView (m : Mem L) (t : Nat) : (m.tv t).acq ≤ m.scView t :=
  View.le_trans (View.le_join_right _ _) (View.le_join_left _ _)
theorem Mem.sc_le_scView (m : Mem L) (t : Nat) : m.sc ≤ m.scView t := View.le_join_right _ _

theorem Mem.fence_ext (m : Mem L) (t : Nat) (o : Core.Ord) : m.Ext (m.fence t o) := by
  refine ⟨fun l => ⟨[], by simp⟩, fun t' => ?_, fun t' => ?_, ?_⟩
  · by_cases h : t' = t
    · subst h
      cases o <;> simp [Mem.fence] <;>
        first
          | exact View.le_refl _
          | exact View.le_join_left _ _
          | exact View.le_trans (View.le_join_left _ _) (View.le_join_left _ _)
    · rw [Mem.fence_tv_other _ _ _ _ h]; exact View.le_refl _
  · by_cases h : t' = t
    · subst h
      cases o <;> simp [Mem.fence] <;>
        first
          | exact View.le_refl _
          | exact View.le_join_right _ _
          | exact View.le_trans (View.le_join_right _ _) (View.le_join_left _ _)
    · rw [Mem.fence_tv_other _ _ _ _ h]; exact View.le_refl _
  · cases o <;> simp [Mem.fence] <;>
      first
        | exact View.le_refl _
        | exact View.le_join_right _ _

theorem Mem.fence_wf (m : Mem L) (t : Nat) (o : Core.Ord) (h : m.WF) : (m.fence t o).WF := by
  have hb : View.Bounded m ((m.tv t).cur.join (m.tv t).acq) := (h.cur t).join (h.acq t)
  have hlen : ∀ l, m.len l ≤ (m.fence t o).len l := fun l => by simp
  have tvcase : ∀ t', (m.fence t o).tv t' = m.tv t' ∨ t' = t := fun t' => by
    by_cases e : t' = t
    · exact Or.inr e
    · exact Or.inl (Mem.fence_tv_other _ _ _ _ e)
  constructor
  · intro l; simpa using h.nonempty l
  · intro t'
    apply View.Bounded.mono hlen
    rcases tvcase t' with e | e
    · rw [e]; exact h.cur t'
    · subst e
      cases o <;> simp [Mem.fence] <;> first | exact h.cur _ | exact hb | exact hb.join h.sc
  · intro t'
    apply View.Bounded.mono hlen
    rcases tvcase t' with e | e
    · rw [e]; exact h.acq t'
    · subst e
      cases o <;> simp [Mem.fence] <;> first | exact h.acq _ | exact hb | exact hb.join h.sc
  · intro t'
    apply View.Bounded.mono hlen
    rcases tvcase t' with e | e
    · rw [e]; exact h.rel t'
    · subst e
      cases o <;> simp [Mem.fence] <;> first | exact h.rel _ | exact h.cur _ | exact hb | exact hb.join h.sc
  · apply View.Bounded.mono hlen
    cases o <;> simp [Mem.fence] <;> first | exact h.sc | exact hb.join h.sc
  · intro l ts msg hm
    apply View.Bounded.mono hlen
    rw [Mem.fence_hist] at hm
    exact h.msg l ts msg hm
  · intro t'
    rcases tvcase t' with e | e
    · rw [e]; exact h.cur_acq t'
    · subst e
      cases o <;> simp [Mem.fence] <;>
        first | exact h.cur_acq _ | exact View.le_refl _
  · intro t'
    rcases tvcase t' with e | e
    · rw [e]; exact h.rel_cur t'
    · subst e
      cases o <;> simp [Mem.fence] <;>
        first
          | exact h.rel_cur _
          | exact View.le_refl _
          | exact View.le_trans (h.rel_cur _) (View.le_join_left _ _)

/-! #### load -/

theorem Mem.read_spec {m m' : Mem L} {t : Nat} {l : L} {o : Core.Ord} {ts v : Nat}
    (h : m.read t l o ts = some (m', v)) :
    ∃ msg, (m.hist l)[ts]? = some msg ∧ v = msg.val ∧ (m.tv t).cur.get l ≤ ts ∧
      m' = { m with tv := upd m.tv t ((m.tv t).read msg l ts o) } := by
  unfold Mem.read at h
  split at h
  · cases h
  · rename_i msg hm
    split at h
    · rename_i hle
      cases h
      exact ⟨msg, hm, rfl, hle, rfl⟩
    · cases h

theorem Mem.read_hist {m m' : Mem L} {t : Nat} {l : L} {o : Core.Ord} {ts v : Nat}
    (h : m.read t l o ts = some (m', v)) : m'.hist = m.hist := by
  obtain ⟨_, _, _, _, rfl⟩ := Mem.read_spec h; rfl

theorem Mem.read_sc {m m' : Mem L} {t : Nat} {l : L} {o : Core.Ord} {ts v : Nat}
    (h : m.read t l o ts = some (m', v)) : m'.sc = m.sc := by
  obtain ⟨_, _, _, _, rfl⟩ := Mem.read_spec h; rfl

theorem Mem.read_tv_other {m m' : Mem L} {t : Nat} {l : L} {o : Core.Ord} {ts v : Nat}
    (h : m.read t l o ts = some (m', v)) (t' : Nat) (ht : t' ≠ t) : m'.tv t' = m.tv t' := by
  obtain ⟨_, _, _, _, rfl⟩ := Mem.read_spec h; simp [ht]

theorem Mem.read_len {m m' : Mem L} {t : Nat} {l : L} {o : Core.Ord} {ts v : Nat}
    (h : m.read t l o ts = some (m', v)) (l' : L) : m'.len l' = m.len l' := by
  simp [Mem.len, Mem.read_hist h]

theorem Mem.read_ts_lt {m m' : Mem L} {t : Nat} {l : L} {o : Core.Ord} {ts v : Nat}
    (h : m.read t l o ts = some (m', v)) : ts < m.len l := by
  obtain ⟨msg, hm, _, _, _⟩ := Mem.read_spec h
  rcases Nat.lt_or_ge ts (m.hist l).length with h | h
  · exact h
  · rw [List.getElem?_eq_none h] at hm; cases hm

theorem TView.read_cur_le (T : TView L) (msg : Msg L) (l : L) (ts : Nat) (o : Core.Ord) :
    T.cur ≤ (T.read msg l ts o).cur := by
  unfold TView.read; simp only
  split
  · exact View.le_join_left _ _
  · exact View.le_bump _ _ _

theorem TView.read_acq_le (T : TView L) (msg : Msg L) (l : L) (ts : Nat) (o : Core.Ord) :
    T.acq ≤ (T.read msg l ts o).acq := View.le_join_left _ _

/-- after a load of `(l, ts)` the thread's view of `l` is at least `ts` (coherence) -/
theorem TView.read_cur_ts (T : TView L) (msg : Msg L) (l : L) (ts : Nat) (o : Core.Ord) :
    ts ≤ (T.read msg l ts o).cur.get l := by
  unfold TView.read msgView; simp only
  split <;> simp <;> omega

/-- an acquire load makes the message's view part of the thread's `cur` view -/
theorem TView.read_acquires (T : TView L) (msg : Msg L) (l : L) (ts : Nat) (o : Core.Ord)
    (ho : o.acquires = true) : msg.view ≤ (T.read msg l ts o).cur := by
  unfold TView.read msgView; simp only [ho, if_true]
  exact View.le_trans (View.le_bump _ _ _) (View.le_join_right _ _)

/-- any load makes the message's view part of the thread's `acq` view (picked up by the next
acquire or SC fence) -/
theorem TView.read_acq_view (T : TView L) (msg : Msg L) (l : L) (ts : Nat) (o : Core.Ord) :
    msg.view ≤ (T.read msg l ts o).acq :=
  View.le_trans (View.le_bump _ _ _) (View.le_join_right _ _)

theorem Mem.read_ext {m m' : Mem L} {t : Nat} {l : L} {o : Core.Ord} {ts v : Nat}
    (h : m.read t l o ts = some (m', v)) : m.Ext m' := by
  obtain ⟨msg, _, _, _, rfl⟩ := Mem.read_spec h
  refine ⟨fun l => ⟨[], by simp⟩, fun t' => ?_, fun t' => ?_, View.le_refl _⟩
  · by_cases e : t' = t
    · subst e; simp; exact TView.read_cur_le _ _ _ _ _
    · simp [e]; exact View.le_refl _
  · by_cases e : t' = t
    · subst e; simp; exact TView.read_acq_le _ _ _ _ _
    · simp [e]; exact View.le_refl _

theorem Mem.read_wf {m m' : Mem L} {t : Nat} {l : L} {o : Core.Ord} {ts v : Nat}
    (h : m.read t l o ts = some (m', v)) (w : m.WF) : m'.WF := by
  have hts := Mem.read_ts_lt h
  obtain ⟨msg, hm, _, _, rfl⟩ := Mem.read_spec h
  have hmv : View.Bounded m (msgView msg l ts) := (w.msg l ts msg hm).bump hts
  have tvcase : ∀ t', (upd m.tv t ((m.tv t).read msg l ts o)) t' = m.tv t' ∨ t' = t := fun t' => by
    by_cases e : t' = t
    · exact Or.inr e
    · exact Or.inl (by simp [e])
  constructor
  · exact w.nonempty
  · intro t'
    show View.Bounded m _
    rcases tvcase t' with e | e
    · simp only; rw [e]; exact w.cur t'
    · subst e
      simp only [upd_same, TView.read]
      split
      · exact (w.cur _).join hmv
      · exact (w.cur _).bump hts
  · intro t'
    show View.Bounded m _
    rcases tvcase t' with e | e
    · simp only; rw [e]; exact w.acq t'
    · subst e
      simp only [upd_same, TView.read]
      exact (w.acq _).join hmv
  · intro t'
    show View.Bounded m _
    rcases tvcase t' with e | e
    · simp only; rw [e]; exact w.rel t'
    · subst e
      simp only [upd_same, TView.read]
      exact w.rel _
  · exact w.sc
  · exact w.msg
  · intro t'
    rcases tvcase t' with e | e
    · simp only; rw [e]; exact w.cur_acq t'
    · subst e
      simp only [upd_same, TView.read]
      split
      · exact View.join_mono (w.cur_acq _) (View.le_refl _)
      · apply View.bump_le (View.le_trans (w.cur_acq _) (View.le_join_left _ _))
        have : ts ≤ (msgView msg l ts).get l := View.get_bump_self _ _ _
        have h2 := View.le_join_right (m.tv t').acq (msgView msg l ts) l
        omega
  · intro t'
    rcases tvcase t' with e | e
    · simp only; rw [e]; exact w.rel_cur t'
    · subst e
      simp only [upd_same]
      exact View.le_trans (w.rel_cur _) (TView.read_cur_le _ _ _ _ _)

/-! #### store -/

@[simp] theorem Mem.write_hist_same (m : Mem L) (t : Nat) (l : L) (o : Core.Ord) (v : Nat) :
    (m.write t l o v).hist l = m.hist l ++ [⟨v, ((m.tv t).wrote l (m.len l)).relView l (m.len l) o⟩] := by
  simp [Mem.write]

theorem Mem.write_hist_other (m : Mem L) (t : Nat) (l : L) (o : Core.Ord) (v : Nat) (l' : L) (h : l' ≠ l) :
    (m.write t l o v).hist l' = m.hist l' := by
  simp [Mem.write, h]

@[simp] theorem Mem.write_len_same (m : Mem L) (t : Nat) (l : L) (o : Core.Ord) (v : Nat) :
    (m.write t l o v).len l = m.len l + 1 := by
  simp [Mem.len]

theorem Mem.write_len_other (m : Mem L) (t : Nat) (l : L) (o : Core.Ord) (v : Nat) (l' : L) (h : l' ≠ l) :
    (m.write t l o v).len l' = m.len l' := by
  simp [Mem.len, Mem.write_hist_other _ _ _ _ _ _ h]

theorem Mem.write_len_le (m : Mem L) (t : Nat) (l : L) (o : Core.Ord) (v : Nat) (l' : L) :
    m.len l' ≤ (m.write t l o v).len l' := by
  by_cases h : l' = l
  · subst h; simp
  · rw [Mem.write_len_other _ _ _ _ _ _ h]; exact Nat.le_refl _

@[simp] theorem Mem.write_sc (m : Mem L) (t : Nat) (l : L) (o : Core.Ord) (v : Nat) :
    (m.write t l o v).sc = m.sc := rfl

@[simp] theorem Mem.write_tv_same (m : Mem L) (t : Nat) (l : L) (o : Core.Ord) (v : Nat) :
    (m.write t l o v).tv t = (m.tv t).wrote l (m.len l) := by
  simp [Mem.write]

theorem Mem.write_tv_other (m : Mem L) (t : Nat) (l : L) (o : Core.Ord) (v : Nat) (t' : Nat) (h : t' ≠ t) :
    (m.write t l o v).tv t' = m.tv t' := by
  simp [Mem.write, h]

theorem Mem.write_ext (m : Mem L) (t : Nat) (l : L) (o : Core.Ord) (v : Nat) : m.Ext (m.write t l o v) := by
  refine ⟨fun l' => ?_, fun t' => ?_, fun t' => ?_, View.le_refl _⟩
  · by_cases h : l' = l
    · subst h; exact ⟨_, Mem.write_hist_same _ _ _ _ _⟩
    · exact ⟨[], by simp [Mem.write_hist_other _ _ _ _ _ _ h]⟩
  · by_cases e : t' = t
    · subst e; simp [TView.wrote]; exact View.le_bump _ _ _
    · rw [Mem.write_tv_other _ _ _ _ _ _ e]; exact View.le_refl _
  · by_cases e : t' = t
    · subst e; simp [TView.wrote]; exact View.le_bump _ _ _
    · rw [Mem.write_tv_other _ _ _ _ _ _ e]; exact View.le_refl _

theorem TView.wrote_bounded {m m' : Mem L} {T : TView L} {l : L}
    (hlen : ∀ l', m.len l' ≤ m'.len l') (hl : m.len l < m'.len l)
    (hc : View.Bounded m T.cur) (ha : View.Bounded m T.acq) (hr : View.Bounded m T.rel) :
    View.Bounded m' (T.wrote l (m.len l)).cur ∧ View.Bounded m' (T.wrote l (m.len l)).acq ∧
      View.Bounded m' (T.wrote l (m.len l)).rel :=
  ⟨(hc.mono hlen).bump hl, (ha.mono hlen).bump hl, hr.mono hlen⟩

theorem TView.relView_bounded {m' : Mem L} {T : TView L} {l : L} {ts : Nat} {o : Core.Ord}
    (hc : View.Bounded m' T.cur) (hr : View.Bounded m' T.rel) (hts : ts < m'.len l) :
    View.Bounded m' (T.relView l ts o) := by
  unfold TView.relView; split
  · exact hc
  · exact hr.bump hts

theorem Mem.write_wf (m : Mem L) (t : Nat) (l : L) (o : Core.Ord) (v : Nat) (w : m.WF) : (m.write t l o v).WF := by
  have hlen := Mem.write_len_le m t l o v
  have hl : m.len l < (m.write t l o v).len l := by simp
  obtain ⟨bc, ba, br⟩ := TView.wrote_bounded (T := m.tv t) hlen hl (w.cur t) (w.acq t) (w.rel t)
  have tvcase : ∀ t', (m.write t l o v).tv t' = m.tv t' ∨ t' = t := fun t' => by
    by_cases e : t' = t
    · exact Or.inr e
    · exact Or.inl (Mem.write_tv_other _ _ _ _ _ _ e)
  constructor
  · intro l'; exact Nat.lt_of_lt_of_le (w.nonempty l') (hlen l')
  · intro t'
    rcases tvcase t' with e | e
    · rw [e]; exact (w.cur t').mono hlen
    · subst e; rw [Mem.write_tv_same]; exact bc
  · intro t'
    rcases tvcase t' with e | e
    · rw [e]; exact (w.acq t').mono hlen
    · subst e; rw [Mem.write_tv_same]; exact ba
  · intro t'
    rcases tvcase t' with e | e
    · rw [e]; exact (w.rel t').mono hlen
    · subst e; rw [Mem.write_tv_same]; exact br
  · exact w.sc.mono hlen
  · intro l' ts mg hm
    by_cases h : l' = l
    · subst h
      rw [Mem.write_hist_same] at hm
      rcases Nat.lt_or_ge ts (m.hist l').length with hlt | hge
      · rw [List.getElem?_append_left hlt] at hm
        exact (w.msg l' ts mg hm).mono hlen
      · rw [List.getElem?_append_right hge] at hm
        have : ts - (m.hist l').length = 0 := by
          rcases Nat.eq_zero_or_pos (ts - (m.hist l').length) with h0 | h0
          · exact h0
          · rw [List.getElem?_eq_none (by simp; omega)] at hm; cases hm
        rw [this] at hm
        simp at hm
        subst hm
        exact TView.relView_bounded bc br hl
    · rw [Mem.write_hist_other _ _ _ _ _ _ h] at hm
      exact (w.msg l' ts mg hm).mono hlen
  · intro t'
    rcases tvcase t' with e | e
    · rw [e]; exact w.cur_acq t'
    · subst e; rw [Mem.write_tv_same]; exact View.bump_mono (w.cur_acq _) _ _
  · intro t'
    rcases tvcase t' with e | e
    · rw [e]; exact w.rel_cur t'
    · subst e; rw [Mem.write_tv_same]; exact View.le_trans (w.rel_cur _) (View.le_bump _ _ _)

/-! #### RMW -/

theorem Mem.rmwCore_spec {m m' : Mem L} {t : Nat} {l : L} {o : Core.Ord} {f : Nat → Nat} {old : Nat}
    (h : m.rmwCore t l o f = some (m', old)) :
    ∃ msg, (m.hist l).getLast? = some msg ∧ old = msg.val ∧
      m' = { m with
        hist := upd m.hist l (m.hist l ++ [⟨f msg.val,
          ((((m.tv t).read msg l (m.len l - 1) o).wrote l (m.len l)).relView l (m.len l) o).join msg.view⟩]),
        tv := upd m.tv t (((m.tv t).read msg l (m.len l - 1) o).wrote l (m.len l)) } := by
  unfold Mem.rmwCore at h
  split at h
  · cases h
  · rename_i msg hm
    cases h
    exact ⟨msg, hm, rfl, rfl⟩

theorem getLast?_getElem? {α : Type} (xs : List α) (a : α) (h : xs.getLast? = some a) :
    xs[xs.length - 1]? = some a := by
  rw [List.getLast?_eq_getElem?] at h; exact h

theorem Mem.rmwCore_ext {m m' : Mem L} {t : Nat} {l : L} {o : Core.Ord} {f : Nat → Nat} {old : Nat}
    (h : m.rmwCore t l o f = some (m', old)) : m.Ext m' := by
  obtain ⟨msg, _, _, rfl⟩ := Mem.rmwCore_spec h
  refine ⟨fun l' => ?_, fun t' => ?_, fun t' => ?_, View.le_refl _⟩
  · by_cases e : l' = l
    · subst e; exact ⟨_, upd_same _ _ _⟩
    · exact ⟨[], by simp [e]⟩
  · by_cases e : t' = t
    · subst e; simp [TView.wrote]
      exact View.le_trans (TView.read_cur_le _ _ _ _ _) (View.le_bump _ _ _)
    · simp [e]; exact View.le_refl _
  · by_cases e : t' = t
    · subst e; simp [TView.wrote]
      exact View.le_trans (TView.read_acq_le _ _ _ _ _) (View.le_bump _ _ _)
    · simp [e]; exact View.le_refl _

theorem Mem.rmwCore_wf {m m' : Mem L} {t : Nat} {l : L} {o : Core.Ord} {f : Nat → Nat} {old : Nat}
    (h : m.rmwCore t l o f = some (m', old)) (w : m.WF) : m'.WF := by
  obtain ⟨msg, hlast, _, rfl⟩ := Mem.rmwCore_spec h
  have hne := w.nonempty l
  have hm : (m.hist l)[m.len l - 1]? = some msg := getLast?_getElem? _ _ hlast
  have htr : m.len l - 1 < m.len l := by omega
  have hmv : View.Bounded m (msgView msg l (m.len l - 1)) := (w.msg l _ msg hm).bump htr
  generalize hT1 : (m.tv t).read msg l (m.len l - 1) o = T1
  have b1c : View.Bounded m T1.cur := by
    subst hT1; simp only [TView.read]; split
    · exact (w.cur _).join hmv
    · exact (w.cur _).bump htr
  have b1a : View.Bounded m T1.acq := by subst hT1; exact (w.acq _).join hmv
  have b1r : View.Bounded m T1.rel := by subst hT1; exact w.rel _
  have c1 : T1.cur ≤ T1.acq := by
    subst hT1; simp only [TView.read]; split
    · exact View.join_mono (w.cur_acq _) (View.le_refl _)
    · apply View.bump_le (View.le_trans (w.cur_acq _) (View.le_join_left _ _))
      have : m.len l - 1 ≤ (msgView msg l (m.len l - 1)).get l := View.get_bump_self _ _ _
      have h2 := View.le_join_right (m.tv t).acq (msgView msg l (m.len l - 1)) l
      omega
  have r1 : T1.rel ≤ T1.cur := by subst hT1; exact View.le_trans (w.rel_cur _) (TView.read_cur_le _ _ _ _ _)
  generalize hM : ({ m with
        hist := upd m.hist l (m.hist l ++ [⟨f msg.val, ((T1.wrote l (m.len l)).relView l (m.len l) o).join msg.view⟩]),
        tv := upd m.tv t (T1.wrote l (m.len l)) } : Mem L) = M
  have hlenl : M.len l = m.len l + 1 := by subst hM; simp [Mem.len]
  have hleno : ∀ l', l' ≠ l → M.len l' = m.len l' := fun l' e => by subst hM; simp [Mem.len, e]
  have hlen : ∀ l', m.len l' ≤ M.len l' := fun l' => by
    by_cases e : l' = l
    · subst e; omega
    · rw [hleno l' e]; exact Nat.le_refl _
  have hl : m.len l < M.len l := by omega
  obtain ⟨bc, ba, br⟩ := TView.wrote_bounded (T := T1) hlen hl b1c b1a b1r
  have tvsame : M.tv t = T1.wrote l (m.len l) := by subst hM; simp
  have tvcase : ∀ t', M.tv t' = m.tv t' ∨ t' = t := fun t' => by
    by_cases e : t' = t
    · exact Or.inr e
    · exact Or.inl (by subst hM; simp [e])
  constructor
  · intro l'; exact Nat.lt_of_lt_of_le (w.nonempty l') (hlen l')
  · intro t'
    rcases tvcase t' with e | e
    · rw [e]; exact (w.cur t').mono hlen
    · subst e; rw [tvsame]; exact bc
  · intro t'
    rcases tvcase t' with e | e
    · rw [e]; exact (w.acq t').mono hlen
    · subst e; rw [tvsame]; exact ba
  · intro t'
    rcases tvcase t' with e | e
    · rw [e]; exact (w.rel t').mono hlen
    · subst e; rw [tvsame]; exact br
  · have : M.sc = m.sc := by subst hM; rfl
    rw [this]; exact w.sc.mono hlen
  · intro l' ts mg hmg
    by_cases e : l' = l
    · subst e
      have hh : M.hist l' = m.hist l' ++ [⟨f msg.val, ((T1.wrote l' (m.len l')).relView l' (m.len l') o).join msg.view⟩] := by
        subst hM; simp
      rw [hh] at hmg
      rcases Nat.lt_or_ge ts (m.hist l').length with hlt | hge
      · rw [List.getElem?_append_left hlt] at hmg
        exact (w.msg l' ts mg hmg).mono hlen
      · rw [List.getElem?_append_right hge] at hmg
        have : ts - (m.hist l').length = 0 := by
          rcases Nat.eq_zero_or_pos (ts - (m.hist l').length) with h0 | h0
          · exact h0
          · rw [List.getElem?_eq_none (by simp; omega)] at hmg; cases hmg
        rw [this] at hmg
        simp at hmg
        subst hmg
        exact (TView.relView_bounded bc br hl).join ((w.msg l' _ msg hm).mono hlen)
    · have hh : M.hist l' = m.hist l' := by subst hM; simp [e]
      rw [hh] at hmg
      exact (w.msg l' ts mg hmg).mono hlen
  · intro t'
    rcases tvcase t' with e | e
    · rw [e]; exact w.cur_acq t'
    · subst e; rw [tvsame]; exact View.bump_mono c1 _ _
  · intro t'
    rcases tvcase t' with e | e
    · rw [e]; exact w.rel_cur t'
    · subst e; rw [tvsame]; exact View.le_trans r1 (View.le_bump _ _ _)

theorem Mem.rmw_ext {m m' : Mem L} {t : Nat} {l : L} {o : Core.Ord} {f : Nat → Nat} {old : Nat}
    (h : m.rmw t l o f = some (m', old)) : m.Ext m' := by
  unfold Mem.rmw at h
  split at h
  · split at h
    · cases h
    · rename_i m1 old1 h1
      cases h
      exact ((Mem.fence_ext m t .sc).trans (Mem.rmwCore_ext h1)).trans (Mem.fence_ext _ t .sc)
  · exact Mem.rmwCore_ext h

theorem Mem.rmw_wf {m m' : Mem L} {t : Nat} {l : L} {o : Core.Ord} {f : Nat → Nat} {old : Nat}
    (h : m.rmw t l o f = some (m', old)) (w : m.WF) : m'.WF := by
  unfold Mem.rmw at h
  split at h
  · split at h
    · cases h
    · rename_i m1 old1 h1
      cases h
      exact Mem.fence_wf _ _ _ (Mem.rmwCore_wf h1 (Mem.fence_wf _ _ _ w))
  · exact Mem.rmwCore_wf h w

/-! #### compare-exchange -/

theorem Mem.cas_ext {m m' : Mem L} {t : Nat} {l : L} {so fo : Core.Ord} {e d ts : Nat} {ok : Bool} {obs : Nat}
    (h : m.cas t l so fo e d ts = some (m', ok, obs)) : m.Ext m' := by
  unfold Mem.cas at h
  split at h
  · cases h
  · split at h
    · split at h
      · split at h
        · cases h
        · rename_i h1; cases h; exact Mem.rmw_ext h1
      · cases h
    · split at h
      · cases h
      · rename_i h1; cases h; exact Mem.read_ext h1

theorem Mem.cas_wf {m m' : Mem L} {t : Nat} {l : L} {so fo : Core.Ord} {e d ts : Nat} {ok : Bool} {obs : Nat}
    (h : m.cas t l so fo e d ts = some (m', ok, obs)) (w : m.WF) : m'.WF := by
  unfold Mem.cas at h
  split at h
  · cases h
  · split at h
    · split at h
      · split at h
        · cases h
        · rename_i h1; cases h; exact Mem.rmw_wf h1 w
      · cases h
    · split at h
      · cases h
      · rename_i h1; cases h; exact Mem.read_wf h1 w

theorem Mem.init_wf (iv : L → Nat) : (Mem.init iv).WF := by
  have hb : View.Bounded (Mem.init iv) (View.bot : View L) := fun l => by simp [Mem.init, Mem.len]
  constructor
  · intro l; simp [Mem.init, Mem.len]
  · intro t; exact hb
  · intro t; exact hb
  · intro t; exact hb
  · exact hb
  · intro l ts mg hm
    simp only [Mem.init] at hm
    rcases ts with _ | ts
    · simp at hm; subst hm; exact hb
    · simp at hm
  · intro t; exact View.le_refl _
  · intro t; exact View.le_refl _

/-! ### What an RMW does, uniformly for every order -/

/-- the thread views an RMW access leaves (before the trailing fence of a `seq_cst` one) -/
theorem Mem.rmwCore_facts {m m' : Mem L} {t : Nat} {l : L} {o : Core.Ord} {f : Nat → Nat} {old : Nat}
    (h : m.rmwCore t l o f = some (m', old)) :
    ∃ msg W, (m.hist l).getLast? = some msg ∧ old = msg.val ∧
      m'.hist l = m.hist l ++ [⟨f msg.val, W⟩] ∧ (∀ l', l' ≠ l → m'.hist l' = m.hist l') ∧
      (∀ t', t' ≠ t → m'.tv t' = m.tv t') ∧ m'.sc = m.sc ∧
      msg.view ≤ W ∧ (o.releases = true → (m.tv t).cur ≤ W) ∧
      (m.tv t).cur ≤ (m'.tv t).cur ∧ (m.tv t).acq ≤ (m'.tv t).acq ∧ (m'.tv t).rel = (m.tv t).rel ∧
      m.len l ≤ (m'.tv t).cur.get l ∧ msg.view ≤ (m'.tv t).acq ∧
      (o.acquires = true → msg.view ≤ (m'.tv t).cur) := by
  obtain ⟨msg, hlast, hold, rfl⟩ := Mem.rmwCore_spec h
  refine ⟨msg, ((((m.tv t).read msg l (m.len l - 1) o).wrote l (m.len l)).relView l (m.len l) o).join msg.view,
    hlast, hold, by simp, fun l' e => by simp [e], fun t' e => by simp [e], rfl, ?_, ?_, ?_, ?_, ?_, ?_, ?_, ?_⟩
  · exact View.le_join_right _ _
  · intro hr
    refine View.le_trans ?_ (View.le_join_left _ _)
    simp only [TView.relView, hr, if_true, TView.wrote]
    exact View.le_trans (TView.read_cur_le _ _ _ _ _) (View.le_bump _ _ _)
  · simp [TView.wrote]; exact View.le_trans (TView.read_cur_le _ _ _ _ _) (View.le_bump _ _ _)
  · simp [TView.wrote]; exact View.le_trans (TView.read_acq_le _ _ _ _ _) (View.le_bump _ _ _)
  · simp [TView.wrote, TView.read]
  · simp [TView.wrote]; omega
  · simp [TView.wrote]; exact View.le_trans (TView.read_acq_view _ _ _ _ _) (View.le_bump _ _ _)
  · intro ha
    simp [TView.wrote]; exact View.le_trans (TView.read_acquires _ _ _ _ _ ha) (View.le_bump _ _ _)

/-- Specification of `rmw` used by the component proofs.  `W` is the view of the new message. -/
theorem Mem.rmw_facts {m m' : Mem L} {t : Nat} {l : L} {o : Core.Ord} {f : Nat → Nat} {old : Nat}
    (h : m.rmw t l o f = some (m', old)) :
    ∃ msg W, (m.hist l).getLast? = some msg ∧ old = msg.val ∧
      m'.hist l = m.hist l ++ [⟨f msg.val, W⟩] ∧ (∀ l', l' ≠ l → m'.hist l' = m.hist l') ∧
      (∀ t', t' ≠ t → m'.tv t' = m.tv t') ∧
      msg.view ≤ W ∧ (o.releases = true → (m.tv t).cur ≤ W) ∧
      (m.tv t).cur ≤ (m'.tv t).cur ∧ (m.tv t).acq ≤ (m'.tv t).acq ∧
      m.len l ≤ (m'.tv t).cur.get l ∧ msg.view ≤ (m'.tv t).acq ∧
      (o.acquires = true → msg.view ≤ (m'.tv t).cur) ∧
      (o = .sc → m'.sc = (m'.tv t).cur ∧ m.sc ≤ m'.sc ∧ (m.tv t).acq ≤ (m'.tv t).cur) ∧
      (o ≠ .sc → m'.sc = m.sc) := by
  unfold Mem.rmw at h
  by_cases hsc : o = .sc
  · subst hsc
    simp only [if_true] at h
    split at h
    · cases h
    · rename_i m1 old1 h1
      cases h
      obtain ⟨msg, W, hlast, hold, hh, hho, htv, hsc1, hmW, hrel, hcur, hacq, _, hts, hmacq, hmcur⟩ := Mem.rmwCore_facts h1
      have e0 := Mem.cur_le_scView m t
      have a0 := Mem.acq_le_scView m t
      have s0 := Mem.sc_le_scView m t
      have pre : ((m.fence t .sc).tv t) = ⟨m.scView t, m.scView t, m.scView t⟩ := Mem.fence_sc_tv m t
      rw [pre] at hrel hcur hacq
      simp only at hrel hcur hacq
      have post := Mem.fence_sc_tv m1 t
      have c1 := Mem.cur_le_scView m1 t
      have a1 := Mem.acq_le_scView m1 t
      have s1 := Mem.sc_le_scView m1 t
      refine ⟨msg, W, by simpa using hlast, hold, by simpa using hh, fun l' e => by simpa using hho l' e, ?_,
        hmW, fun _ => View.le_trans e0 (hrel rfl), ?_, ?_, ?_, ?_, ?_, ?_, ?_⟩
      · intro t' e
        rw [Mem.fence_tv_other _ _ _ _ e, htv t' e, Mem.fence_tv_other _ _ _ _ e]
      · rw [post]; exact View.le_trans e0 (View.le_trans hcur c1)
      · rw [post]; exact View.le_trans a0 (View.le_trans hacq a1)
      · rw [post]
        have := c1 l
        simp only [Mem.fence_len] at hts
        simp only at this ⊢
        omega
      · rw [post]; exact View.le_trans hmacq a1
      · intro _; rw [post]; exact View.le_trans hmacq a1
      · intro _
        rw [post]
        refine ⟨rfl, ?_, View.le_trans a0 (View.le_trans hacq a1)⟩
        show m.sc ≤ m1.scView t
        rw [Mem.fence_sc_sc] at hsc1
        exact View.le_trans s0 (by rw [← hsc1]; exact s1)
      · intro e; exact absurd rfl e
  · simp only [hsc, if_false] at h
    obtain ⟨msg, W, hlast, hold, hh, hho, htv, hsc1, hmW, hrel, hcur, hacq, _, hts, hmacq, hmcur⟩ := Mem.rmwCore_facts h
    exact ⟨msg, W, hlast, hold, hh, hho, htv, hmW, hrel, hcur, hacq, hts, hmacq, hmcur,
      fun e => absurd e hsc, fun _ => hsc1⟩

/-! ### The generic lemmas of DESIGN §3.4 -/

/-- a load never reads a message older than the thread's view of the location -/
theorem read_respects_view {m m' : Mem L} {t : Nat} {l : L} {o : Core.Ord} {ts v : Nat}
    (h : m.read t l o ts = some (m', v)) : (m.tv t).cur.get l ≤ ts := by
  obtain ⟨_, _, _, hle, _⟩ := Mem.read_spec h; exact hle

/-- coherence: after its own store a thread reads that store or a later one -/
theorem read_own_write (m : Mem L) (t : Nat) (l : L) (o o' : Core.Ord) (v : Nat) {m2 m3 : Mem L} {ts v' : Nat}
    (hext : (m.write t l o v).Ext m2) (h : m2.read t l o' ts = some (m3, v')) : m.len l ≤ ts := by
  have h1 := read_respects_view h
  have h2 := hext.cur t l
  simp [TView.wrote] at h2
  omega

/-- an RMW reads the latest message -/
theorem rmw_reads_last {m m' : Mem L} {t : Nat} {l : L} {o : Core.Ord} {f : Nat → Nat} {old : Nat}
    (h : m.rmw t l o f = some (m', old)) :
    ∃ msg, (m.hist l).getLast? = some msg ∧ old = msg.val ∧ m'.len l = m.len l + 1 := by
  obtain ⟨msg, W, hlast, hold, hh, _⟩ := Mem.rmw_facts h
  exact ⟨msg, hlast, hold, by simp [Mem.len, hh]⟩

/-- Message passing: a thread that acquire-loads the message of a release store sees everything
the storing thread had seen or done before the store. -/
theorem mp_release_acquire (m : Mem L) (a b : Nat) (l : L) (o o' : Core.Ord) (v : Nat) {m2 m3 : Mem L} {v' : Nat}
    (hrel : o.releases = true) (hacq : o'.acquires = true)
    (hext : (m.write a l o v).Ext m2) (h : m2.read b l o' (m.len l) = some (m3, v')) :
    v' = v ∧ (m.tv a).cur ≤ (m3.tv b).cur := by
  have hmsg : ((m.write a l o v).hist l)[m.len l]? =
      some ⟨v, ((m.tv a).wrote l (m.len l)).relView l (m.len l) o⟩ := by
    rw [Mem.write_hist_same]; simp [Mem.len]
  have hmsg2 := hext.get? l _ _ hmsg
  obtain ⟨msg, hm, hv, _, rfl⟩ := Mem.read_spec h
  rw [hmsg2] at hm
  cases hm
  refine ⟨hv, ?_⟩
  simp only [upd_same]
  refine View.le_trans ?_ (TView.read_acquires _ _ _ _ _ hacq)
  simp only [TView.relView, hrel, if_true, TView.wrote]
  exact View.le_bump _ _ _

/-- Message passing through fences: release fence + relaxed store on one side, relaxed load +
acquire fence on the other. -/
theorem mp_fences (m : Mem L) (a b : Nat) (l : L) (v : Nat) {m2 m3 m4 : Mem L} {v' : Nat}
    (hext : ((m.fence a .rel).write a l .rlx v).Ext m2) (h : m2.read b l .rlx (m.len l) = some (m3, v'))
    (hext2 : m3.Ext m4) :
    v' = v ∧ (m.tv a).cur ≤ ((m4.fence b .acq).tv b).cur := by
  have hlen : (m.fence a .rel).len l = m.len l := by simp
  have hW : (m.tv a).cur ≤ ((((m.fence a .rel).tv a)).wrote l (m.len l)).relView l (m.len l) .rlx := by
    simp [TView.relView, Core.Ord.releases, TView.wrote, Mem.fence]
    exact View.le_bump _ _ _
  have hmsg : (((m.fence a .rel).write a l .rlx v).hist l)[m.len l]? =
      some ⟨v, ((((m.fence a .rel).tv a)).wrote l (m.len l)).relView l (m.len l) .rlx⟩ := by
    rw [Mem.write_hist_same, hlen]; simp [Mem.len]
  generalize ((((m.fence a .rel).tv a)).wrote l (m.len l)).relView l (m.len l) .rlx = W at hW hmsg
  have hmsg2 := hext.get? l _ _ hmsg
  obtain ⟨msg, hm, hv, _, rfl⟩ := Mem.read_spec h
  rw [hmsg2] at hm
  cases hm
  refine ⟨hv, ?_⟩
  have h2 := hext2.acq b
  simp only [upd_same] at h2
  have h1 := TView.read_acq_view (m2.tv b) (⟨v, W⟩ : Msg L) l (m.len l) .rlx
  have h3 : (m4.tv b).acq ≤ ((m4.fence b .acq).tv b).cur := by
    simp [Mem.fence]; exact View.le_join_right _ _
  exact View.le_trans hW (View.le_trans h1 (View.le_trans h2 h3))

/-- Store buffering (Dekker): of two SC fences the later one's thread view includes everything the
earlier thread had seen or done before its fence.  Hence after the later fence that thread cannot
read, at any location, a message older than what the earlier thread knew at its fence. -/
theorem sc_fence_dekker (m : Mem L) (a b : Nat) {m2 : Mem L} (hext : (m.fence a .sc).Ext m2) :
    (m.tv a).cur ≤ ((m2.fence b .sc).tv b).cur ∧ (m.tv a).acq ≤ ((m2.fence b .sc).tv b).cur := by
  have h1 : m.scView a ≤ m2.sc := by simpa using hext.sc
  have h2 : m2.sc ≤ ((m2.fence b .sc).tv b).cur := by
    rw [Mem.fence_sc_tv]; exact Mem.sc_le_scView m2 b
  exact ⟨View.le_trans (Mem.cur_le_scView m a) (View.le_trans h1 h2),
         View.le_trans (Mem.acq_le_scView m a) (View.le_trans h1 h2)⟩

theorem sc_fence_dekker_read (m : Mem L) (a b : Nat) {m2 m3 m4 : Mem L} (l : L) (o : Core.Ord) (ts v : Nat)
    (hext : (m.fence a .sc).Ext m2) (hext2 : (m2.fence b .sc).Ext m3) (h : m3.read b l o ts = some (m4, v)) :
    (m.tv a).cur.get l ≤ ts := by
  have h1 := (sc_fence_dekker m a b hext).1 l
  have h2 := hext2.cur b l
  have h3 := read_respects_view h
  omega

/-- a compare-exchange either succeeds as an RMW on the latest message, which holds the expected
value, or fails as a load of a message holding another value -/
theorem Mem.cas_spec {m m' : Mem L} {t : Nat} {l : L} {so fo : Core.Ord} {e d ts : Nat} {ok : Bool} {obs : Nat}
    (h : m.cas t l so fo e d ts = some (m', ok, obs)) :
    (ok = true ∧ obs = e ∧ m.rmw t l so (fun _ => d) = some (m', obs)) ∨
    (ok = false ∧ obs ≠ e ∧ m.read t l fo ts = some (m', obs)) := by
  unfold Mem.cas at h
  split at h
  · cases h
  · rename_i msg hm
    split at h
    · rename_i hv
      split at h
      · split at h
        · cases h
        · rename_i m1 old h1
          cases h
          obtain ⟨msg', hlast, hold, _⟩ := rmw_reads_last h1
          have hl : (m.hist l)[m.len l - 1]? = some msg' := getLast?_getElem? _ _ hlast
          rename_i hts
          have : ts = m.len l - 1 := by omega
          subst this
          rw [hm] at hl
          cases hl
          exact Or.inl ⟨rfl, by rw [hold]; exact hv, h1⟩
      · cases h
    · rename_i hv
      split at h
      · cases h
      · rename_i m1 v h1
        cases h
        obtain ⟨msg', hm', hv', _, _⟩ := Mem.read_spec h1
        rw [hm] at hm'
        cases hm'
        exact Or.inr ⟨rfl, by rw [hv']; exact hv, h1⟩

end Babylon.Core.MemView
