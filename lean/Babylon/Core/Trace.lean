/-
  Lock-step trace replay (correspondence E-CONC, DESIGN.md 3.3).

  VRT prints one line per action of the real code:  `<tid> <kind> <args…>`
      ld   loc ord val                     st   loc ord val
      xchg loc ord old new                 rmw  op loc ord old operand
      cas|casw loc succOrd failOrd expected desired ok observed
      fence ord       fwait loc val sleep|eagain [cur]      fwoke loc [timeout]    fwake loc n woken
      lock loc   unlock loc   spawn child   join child   exit   race …   ev <harness event words…>
  A component model provides `stepObs : σ → Obs → Except String σ` which checks that the line is
  exactly the next action of that thread in the model (same kind, location, memory order, values
  written, and the value read is the one the model's memory holds) and advances the model.
  Replay of a whole trace = the implementation's execution is a path of the model.
-/
import Babylon.Core.Proto
import Babylon.Core.Skel

namespace Babylon.Core

structure Obs where
  tid : Nat
  kind : String
  args : List String
  deriving Repr

def parseObs (line : String) : Option Obs :=
  match words line with
  | "VERDICT" :: rest => some { tid := 0, kind := "VERDICT", args := rest }   -- VRT's own last line (deadlock / step-limit)
  | t :: k :: rest => t.toNat?.map (fun t => { tid := t, kind := k, args := rest })
  | _ => none

def ordOfString : String → Option Ord
  | "rlx" => some .rlx | "cns" => some .cns | "acq" => some .acq
  | "rel" => some .rel | "acqrel" => some .acqrel | "sc" => some .sc
  | _ => none

def Ord.toStr : Ord → String
  | .rlx => "rlx" | .cns => "cns" | .acq => "acq" | .rel => "rel" | .acqrel => "acqrel" | .sc => "sc"

/-- split `name+off` into (name, off) -/
def splitLoc (s : String) : String × Nat :=
  match s.splitOn "+" with
  | [n, o] => (n, o.toNat?.getD 0)
  | _ => (s, 0)

/-- two's-complement reading of the signed decimal VRT prints for an N-bit atomic -/
def unsignedOf (bits : Nat) (s : String) : Option Nat :=
  match parseInt? s with
  | some i => some (if i < 0 then (i + (2 ^ bits : Nat)).toNat else i.toNat)
  | none => none

/-- One observable action of a thread, in the vocabulary of the VRT trace.  Locations are
`(name, byte offset)` as registered by the harness with `vrt_name`. -/
inductive Act
  | ld (loc : String) (off : Nat) (o : Ord) (val : Nat)
  | st (loc : String) (off : Nat) (o : Ord) (val : Nat)
  | xchg (loc : String) (off : Nat) (o : Ord) (old new : Nat)
  | cas (loc : String) (off : Nat) (weak : Bool) (so fo : Ord) (expected desired : Nat) (ok : Bool) (observed : Nat)
  | rmw (op : String) (loc : String) (off : Nat) (o : Ord) (old operand : Nat)
  | fence (o : Ord)
  | fwait (loc : String) (off : Nat) (val : Nat) (slept : Bool)
  | fwoke (loc : String) (off : Nat) (timeout : Bool)
  | fwake (loc : String) (off : Nat) (n woken : Nat)
  | lock (loc : String) (off : Nat)
  | unlock (loc : String) (off : Nat)
  | spawn (child : Nat)
  | join (child : Nat)
  | exit
  | ev (ws : List String)
  | race (ws : List String)
  deriving DecidableEq, Repr

def Act.ofObs (o : Obs) : Option Act :=
  match o.kind, o.args with
  | "ld", [l, m, v] => do let (n, f) := splitLoc l; pure (.ld n f (← ordOfString m) (← v.toNat?))
  | "st", [l, m, v] => do let (n, f) := splitLoc l; pure (.st n f (← ordOfString m) (← v.toNat?))
  | "xchg", [l, m, a, b] => do let (n, f) := splitLoc l; pure (.xchg n f (← ordOfString m) (← a.toNat?) (← b.toNat?))
  | "cas", [l, m1, m2, e, d, ok, obs] => do
      let (n, f) := splitLoc l
      pure (.cas n f false (← ordOfString m1) (← ordOfString m2) (← e.toNat?) (← d.toNat?) (ok == "1") (← obs.toNat?))
  | "casw", [l, m1, m2, e, d, ok, obs] => do
      let (n, f) := splitLoc l
      pure (.cas n f true (← ordOfString m1) (← ordOfString m2) (← e.toNat?) (← d.toNat?) (ok == "1") (← obs.toNat?))
  | "rmw", [op, l, m, a, b] => do let (n, f) := splitLoc l; pure (.rmw op n f (← ordOfString m) (← a.toNat?) (← b.toNat?))
  | "fence", [m] => do pure (.fence (← ordOfString m))
  | "fwait", l :: v :: r :: _ => do let (n, f) := splitLoc l; pure (.fwait n f (← v.toNat?) (r == "sleep"))
  | "fwoke", [l] => let (n, f) := splitLoc l; some (.fwoke n f false)
  | "fwoke", [l, _] => let (n, f) := splitLoc l; some (.fwoke n f true)
  | "fwake", [l, a, b] => do let (n, f) := splitLoc l; pure (.fwake n f (← a.toNat?) (← b.toNat?))
  | "lock", [l] => let (n, f) := splitLoc l; some (.lock n f)
  | "unlock", [l] => let (n, f) := splitLoc l; some (.unlock n f)
  | "spawn", [c] => do pure (.spawn (← c.toNat?))
  | "join", [c] => do pure (.join (← c.toNat?))
  | "exit", [] => some .exit
  | "ev", ws => some (.ev ws)
  | "race", ws => some (.race ws)
  | _, _ => none

/-- Replay a list of trace lines through `stepObs`; returns `(lines consumed, error?)`. -/
def replay {σ : Type} (stepObs : σ → Obs → Except String σ) (s : σ) (lines : List String) :
    Nat × Option String × σ :=
  let rec go (s : σ) (n : Nat) : List String → Nat × Option String × σ
    | [] => (n, none, s)
    | l :: ls =>
      if l.trimAscii.toString.isEmpty then go s n ls else
      match parseObs l with
      | none => (n, some s!"unparsable line: {l}", s)
      | some o =>
        match stepObs s o with
        | .ok s' => go s' (n + 1) ls
        | .error e => (n, some s!"line {n + 1} `{l.trimAscii.toString}`: {e}", s)
  go s 0 lines

/-- Driver loop for replay mode: input is a sequence of runs
`RUN <header words>` … trace lines … `END`; one output line per run:
`ok <n>` or `diverge <message>`.  `init` builds the initial model state from the header. -/
partial def replayLoop {σ : Type} (h : IO.FS.Stream) (init : List String → σ)
    (stepObs : σ → Obs → Except String σ) (final : σ → Except String Unit) : IO Unit := do
  let line ← h.getLine
  if line.isEmpty then return ()
  match words line with
  | "RUN" :: hdr =>
    let rec collect (acc : Array String) : IO (Array String) := do
      let l ← h.getLine
      if l.isEmpty || l.trimAscii.toString == "END" then return acc
      collect (acc.push l)
    let ls ← collect #[]
    let (n, err, s) := replay stepObs (init hdr) ls.toList
    match err with
    | some e => IO.println s!"diverge {e}"
    | none =>
      match final s with
      | .ok _ => IO.println s!"ok {n}"
      | .error e => IO.println s!"diverge at end of trace: {e}"
    replayLoop h init stepObs final
  | _ => replayLoop h init stepObs final

end Babylon.Core
