/-
  Generic facts about labelled transition systems used by every model:
  reachability, invariants by induction, and the certified-closed-set pattern for
  finite protocols.  Core Lean only.
-/
namespace Babylon.Core

/-- States reachable from `init` through the (nondeterministic) successor relation `step`. -/
inductive Reachable {σ : Type} (init : σ → Prop) (step : σ → σ → Prop) : σ → Prop
  | base {s} : init s → Reachable init step s
  | tail {s t} : Reachable init step s → step s t → Reachable init step t

/-- An inductive invariant holds in every reachable state. -/
theorem Reachable.invariant {σ : Type} {init : σ → Prop} {step : σ → σ → Prop}
    (Inv : σ → Prop) (h0 : ∀ s, init s → Inv s)
    (hs : ∀ s t, Inv s → step s t → Inv t) :
    ∀ s, Reachable init step s → Inv s := by
  intro s h
  induction h with
  | base hi => exact h0 _ hi
  | tail _ hst ih => exact hs _ _ ih hst

/-- Deterministic-per-label machine run over a list of labels. -/
def runOps {σ ι : Type} (step : σ → ι → σ) : σ → List ι → σ
  | s, [] => s
  | s, i :: is => runOps step (step s i) is

theorem runOps_eq_foldl {σ ι : Type} (step : σ → ι → σ) (s : σ) (is : List ι) :
    runOps step s is = is.foldl step s := by
  induction is generalizing s with
  | nil => rfl
  | cons i is ih => simp [runOps, ih]

/-- Invariant lifted to every operation sequence. -/
theorem runOps_invariant {σ ι : Type} (step : σ → ι → σ) (Inv : σ → Prop)
    (hs : ∀ s i, Inv s → Inv (step s i)) (s : σ) (h : Inv s) (is : List ι) :
    Inv (runOps step s is) := by
  induction is generalizing s with
  | nil => exact h
  | cons i is ih => exact ih _ (hs _ _ h)

theorem runOps_append {σ ι : Type} (step : σ → ι → σ) (s : σ) (xs ys : List ι) :
    runOps step s (xs ++ ys) = runOps step (runOps step s xs) ys := by
  induction xs generalizing s with
  | nil => rfl
  | cons x xs ih => simp [runOps, ih]

/-- Certified closed set: if the (decidable) list `R` contains every initial state and is
closed under the executable successor function, every reachable state is in `R`.
Used for genuinely finite sub-protocols; `closed` and `R.all good` are then discharged by
`decide +kernel` — an exhaustive proof over a finite quantifier, not a bounded search. -/
theorem closed_contains_reachable {σ : Type} [DecidableEq σ]
    (inits : List σ) (succs : σ → List σ) (R : List σ)
    (hinit : ∀ s ∈ inits, s ∈ R)
    (hclosed : ∀ s ∈ R, ∀ t ∈ succs s, t ∈ R) :
    ∀ s, Reachable (· ∈ inits) (fun a b => b ∈ succs a) s → s ∈ R := by
  intro s h
  induction h with
  | base hi => exact hinit _ hi
  | tail _ hst ih => exact hclosed _ ih _ hst

/-- Boolean form of the closure check, convenient for `decide +kernel`. -/
def closedB {σ : Type} [DecidableEq σ] (inits : List σ) (succs : σ → List σ) (R : List σ) : Bool :=
  inits.all (fun s => R.contains s) && R.all (fun s => (succs s).all (fun t => R.contains t))

theorem closedB_sound {σ : Type} [DecidableEq σ] [LawfulBEq σ]
    (inits : List σ) (succs : σ → List σ) (R : List σ) (good : σ → Bool)
    (hc : closedB inits succs R = true) (hg : R.all good = true) :
    ∀ s, Reachable (· ∈ inits) (fun a b => b ∈ succs a) s → good s = true := by
  intro s hs
  have hin : s ∈ R := by
    apply closed_contains_reachable inits succs R _ _ s hs
    · intro a ha
      simp only [closedB, Bool.and_eq_true, List.all_eq_true] at hc
      have := hc.1 a ha
      simpa using this
    · intro a ha t ht
      simp only [closedB, Bool.and_eq_true, List.all_eq_true] at hc
      have := hc.2 a ha t ht
      simpa using this
  exact (List.all_eq_true.mp hg) s hin

end Babylon.Core
