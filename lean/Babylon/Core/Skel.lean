/-
  "Atomic skeleton" vocabulary.  gen/*.py extracts, from the *current* /repo source of each
  modelled function, the ordered list of atomic operations / fences / notable calls with the
  memory orders written there, and emits it as a `List Site` in `Babylon/Gen/<Comp>.lean`.
  Each model declares the skeleton it was written against; the obligation
  `Gen.X.skel_f = X.Skel.f := by decide` stops checking when the source function gains,
  loses, reorders or re-orders-the-strength-of an atomic operation.
-/
namespace Babylon.Core

inductive Ord | rlx | cns | acq | rel | acqrel | sc
  deriving DecidableEq, Repr, Inhabited

/-- `a.atLeast b`: order `a` gives every guarantee `b` gives (consume treated as relaxed+). -/
def Ord.acquires : Ord → Bool
  | .acq | .acqrel | .sc => true
  | _ => false
def Ord.releases : Ord → Bool
  | .rel | .acqrel | .sc => true
  | _ => false

inductive Site
  | load  (obj : String) (o : Ord)
  | store (obj : String) (o : Ord)
  | xchg  (obj : String) (o : Ord)
  | cas   (obj : String) (strong : Bool) (succ fail : Ord)
  | rmw   (op : String) (obj : String) (o : Ord)      -- fetch_add / fetch_sub / fetch_or / ...
  | fence (o : Ord)
  | call  (name : String)                             -- notable non-atomic step (futex wait/wake, callback, ...)
  deriving DecidableEq, Repr, Inhabited

end Babylon.Core
