/-
  Model of the protobuf capacity-metadata round trip used by `ReusableManager` for messages
  (`MessageAllocationMetadata`, src/babylon/reusable/message.{h,cpp,trick.cpp}):

      unit->update()   : metadata := max(metadata, capacities the instance retains *now*)
      release()
      unit->recreate() : new instance := reserve(metadata)

  A message object retains: the capacity of its singular string, of its repeated scalar field, the
  string objects kept behind a repeated string field (also the cleared ones) with their capacities,
  a singular sub-message *object* (kept by `Clear()`, which only drops the has-bit), and the
  sub-message objects behind a repeated message field.  Two levels are modelled (a message whose
  sub-messages have flat fields); the code recurses with the same rule at every level.  Protobuf's
  own containers are trusted.  Core Lean only.
-/
namespace Babylon.RVec.Msg

/-- retained capacities of one message object without sub-messages -/
structure Flat where
  s : Nat := 0            -- singular string: `capacity()`
  rp : Nat := 0           -- repeated scalar: `Capacity()`
  rs : List Nat := []     -- repeated string: capacity of every allocated element (`size + ClearedCount`)
  deriving Repr, DecidableEq

structure FlatMeta where
  s : Nat := 0            -- `string_reserved`
  rp : Nat := 0           -- `repeated_reserved` of the scalar field
  rsN : Nat := 0          -- `repeated_reserved` of the string field
  rsCap : Nat := 0        -- `string_reserved` of the string field (one value for all elements)
  deriving Repr, DecidableEq

/-- `MessageAllocationMetadata::update(message)` on a flat message -/
def FlatMeta.update (m : FlatMeta) (c : Flat) : FlatMeta :=
  { s := max m.s c.s, rp := max m.rp c.rp, rsN := max m.rsN c.rs.length, rsCap := c.rs.foldl max m.rsCap }

/-- `MessageAllocationMetadata::reserve(message)` on a fresh flat message -/
def FlatMeta.reserve (m : FlatMeta) : Flat :=
  { s := m.s, rp := m.rp, rs := List.replicate m.rsN m.rsCap }

/-- a message with a singular sub-message and a repeated sub-message field -/
structure Top where
  f : Flat := {}
  sub : Option Flat := none     -- the sub-message *object* (present or not is a separate has-bit)
  hasSub : Bool := false        -- has-bit of the singular sub-message
  rm : List Flat := []          -- allocated elements of the repeated message field
  deriving Repr, DecidableEq

structure TopMeta where
  f : FlatMeta := {}
  sub : Option FlatMeta := none -- `message_allocation_metadata` of the singular field
  rmN : Nat := 0
  rm : FlatMeta := {}           -- one metadata for all elements of the repeated message field
  deriving Repr, DecidableEq

/-- `update`: the singular sub-message is inspected whenever the *object* exists (the code
compares `&GetMessage(...)` with the default instance), whatever its has-bit says -/
def TopMeta.update (m : TopMeta) (c : Top) : TopMeta :=
  { f := m.f.update c.f,
    sub := match c.sub with
      | none => m.sub
      | some x => some ((m.sub.getD {}).update x),
    rmN := max m.rmN c.rm.length,
    rm := c.rm.foldl FlatMeta.update m.rm }

/-- the variant that looks at the has-bit instead (seeded change out/2) -/
def TopMeta.updateHasBit (m : TopMeta) (c : Top) : TopMeta :=
  { f := m.f.update c.f,
    sub := match c.sub, c.hasSub with
      | some x, true => some ((m.sub.getD {}).update x)
      | _, _ => m.sub,
    rmN := max m.rmN c.rm.length,
    rm := c.rm.foldl FlatMeta.update m.rm }

/-- `construct_with_allocation_metadata`: construct, `reserve`, then `Clear()` (no presence) -/
def TopMeta.reserve (m : TopMeta) : Top :=
  { f := m.f.reserve, sub := m.sub.map FlatMeta.reserve, hasSub := false,
    rm := List.replicate m.rmN m.rm.reserve }

/-- `Message::Clear()`: presence goes, every object and capacity stays -/
def Top.clear (c : Top) : Top := { c with hasSub := false }

/-- capacity order: nothing retained by `a` is smaller in `b` (elements compared per index) -/
def Flat.le (a b : Flat) : Prop :=
  a.s ≤ b.s ∧ a.rp ≤ b.rp ∧ a.rs.length ≤ b.rs.length ∧
    ∀ (i : Nat) (x : Nat), a.rs[i]? = some x → ∃ y, b.rs[i]? = some y ∧ x ≤ y

def Top.le (a b : Top) : Prop :=
  a.f.le b.f ∧
  (∀ x : Flat, a.sub = some x → ∃ y, b.sub = some y ∧ x.le y) ∧
  a.rm.length ≤ b.rm.length ∧
  ∀ (i : Nat) (x : Flat), a.rm[i]? = some x → ∃ y, b.rm[i]? = some y ∧ x.le y

end Babylon.RVec.Msg
