/-
  Helper lemmas, part 7: arguments that alias an element of the vector itself
  (`push_back(v[j])`, `insert(pos, n, v[j])`, `emplace(pos, v[j])`).
-/
import Babylon.RVec.Lemmas6

namespace Babylon.RVec
open Babylon.Gen.RVec Babylon.Core
namespace RVec

theorem readCell_rep {s : RVec} {xs : List Val} (x : Rep s xs) {j : Nat} (hj : j < s.size) :
    s.readCell j = (xs[j]'(by rw [x.len]; exact hj), 0) := by
  have := x.cell j hj
  have hjl : j < xs.length := by rw [x.len]; exact hj
  rw [List.getElem?_eq_getElem hjl] at this
  simp [readCell, this]

/-- without reallocation `push_back(v[j])` is `push_back(copy of v[j])` -/
theorem emplaceBackSelf_safe (c : Cfg) {s : RVec} {xs : List Val} (x : Rep s xs) {j : Nat} (hj : j < s.size)
    (hroom : s.size < s.cap) :
    s.emplaceBackSelf c j = s.emplaceBack c (xs[j]'(by rw [x.len]; exact hj)) := by
  have hne : (s.size == s.cap) = false := by simp; omega
  simp only [emplaceBackSelf, readCell_rep x hj, hne]
  simp

/-- without reallocation and with the aliased element in front of the insertion point,
`insert(pos, n, v[j])` is `insert(pos, n, copy of v[j])` -/
theorem insertNSelf_safe (c : Cfg) {s : RVec} (h : Inv s) {xs : List Val} (x : Rep s xs) {i n j : Nat}
    (hi : i ≤ s.size) (hj : j < i) (hroom : s.size + n ≤ s.cap) :
    s.insertNSelf c i n j = s.insertN c i n (xs[j]'(by rw [x.len]; omega)) := by
  have hjs : j < s.size := by omega
  by_cases hn : n = 0
  · subst hn
    simp [insertNSelf, insertN, insertRange, prepareForInsert, zeroGuard, reconFrom, consFrom]
  · have hc : 1 ≤ n := by omega
    have hnb : (n == 0) = false := by simp [hn]
    have hgrow : ¬ (s.size + n > s.cap) := by omega
    have hres : s.reserve c (s.size + n) = s := (reserve_spec c h (s.size + n)).noalloc hroom
    have hprep := prepareForInsert_eq c s i hc
    rw [hres] at hprep
    have ps := prep_loops_spec c h hc hi hroom
    have hcell : (prepLoops c s i n).slots[j]? = some (Slot.live (xs[j]'(by rw [x.len]; omega))) := by
      rw [ps.low j hj, x.cell j hjs, List.getElem?_eq_getElem (by rw [x.len]; omega)]
      rfl
    have hread : (prepLoops c s i n).readCell j = (xs[j]'(by rw [x.len]; omega), 0) := by
      simp [readCell, hcell]
    have hself : (c.rebuild && decide (i ≤ j) && decide (j < min (i + n) s.cons)) = false := by
      have : ¬ i ≤ j := by omega
      simp [this]
    have hsl := h.size_le
    have hre1 : min (i + n) s.cons - i ≤ n := by omega
    have hre2 : i ≤ min (i + n) s.cons := by omega
    simp only [insertNSelf, hnb, readCell_rep x hjs, hgrow, if_false, hprep, hread, hself, insertN, insertRange,
      List.length_replicate, List.take_replicate, List.drop_replicate]
    have e1 : min (min (i + n) s.cons - i) n = min (i + n) s.cons - i := by omega
    have e2 : n - (min (i + n) s.cons - i) = i + n - min (i + n) s.cons := by omega
    rw [e1, e2]
    simp

end RVec
end Babylon.RVec
