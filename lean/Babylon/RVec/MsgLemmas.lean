/-
  Lemmas for the protobuf capacity-metadata model (Babylon/RVec/Msg.lean).
-/
import Babylon.RVec.Msg

namespace Babylon.RVec.Msg

theorem foldl_max_ge_init (xs : List Nat) (a : Nat) : a ≤ xs.foldl max a := by
  induction xs generalizing a with
  | nil => exact Nat.le_refl _
  | cons x xs ih => exact Nat.le_trans (Nat.le_max_left a x) (ih _)

theorem foldl_max_ge_mem (xs : List Nat) (a : Nat) {i x : Nat} (h : xs[i]? = some x) : x ≤ xs.foldl max a := by
  induction xs generalizing a i with
  | nil => simp at h
  | cons y ys ih =>
    cases i with
    | zero =>
      simp at h; subst h
      exact Nat.le_trans (Nat.le_max_right a y) (foldl_max_ge_init ys _)
    | succ j => exact ih _ (by simpa using h)

theorem foldl_max_of_le (xs : List Nat) (a : Nat) (h : ∀ x, x ∈ xs → x ≤ a) : xs.foldl max a = a := by
  induction xs generalizing a with
  | nil => rfl
  | cons y ys ih =>
    have hy : y ≤ a := h y (by simp)
    simp only [List.foldl_cons, Nat.max_eq_left hy]
    exact ih a (fun x hx => h x (by simp [hx]))

/-- a flat message re-created from metadata that has seen it retains at least what it retained -/
theorem Flat.le_reserve_update (m : FlatMeta) (c : Flat) : c.le (m.update c).reserve := by
  refine ⟨Nat.le_max_right _ _, Nat.le_max_right _ _, ?_, ?_⟩
  · simp [FlatMeta.reserve, FlatMeta.update]; exact Nat.le_max_right _ _
  · intro i x hx
    have hi : i < c.rs.length := (List.getElem?_eq_some_iff.mp hx).1
    refine ⟨c.rs.foldl max m.rsCap, ?_, foldl_max_ge_mem c.rs m.rsCap hx⟩
    simp only [FlatMeta.reserve, FlatMeta.update, List.getElem?_replicate]
    have : i < max m.rsN c.rs.length := by omega
    simp [this]

/-- metadata only grows -/
def FlatMeta.le (a b : FlatMeta) : Prop := a.s ≤ b.s ∧ a.rp ≤ b.rp ∧ a.rsN ≤ b.rsN ∧ a.rsCap ≤ b.rsCap

theorem FlatMeta.le_update (m : FlatMeta) (c : Flat) : m.le (m.update c) :=
  ⟨Nat.le_max_left _ _, Nat.le_max_left _ _, Nat.le_max_left _ _, foldl_max_ge_init _ _⟩

/-- the metadata is a fixed point once the instance is what the metadata reserves: re-creating again
records nothing new -/
theorem FlatMeta.update_reserve (m : FlatMeta) : m.update m.reserve = m := by
  have h : (List.replicate m.rsN m.rsCap).foldl max m.rsCap = m.rsCap :=
    foldl_max_of_le _ _ (by intro x hx; rw [(List.mem_replicate.mp hx).2]; exact Nat.le_refl _)
  simp [FlatMeta.update, FlatMeta.reserve, h]

theorem Flat.le_refl (a : Flat) : a.le a :=
  ⟨Nat.le_refl _, Nat.le_refl _, Nat.le_refl _, fun _ x hx => ⟨x, hx, Nat.le_refl _⟩⟩

theorem Flat.le_trans {a b c : Flat} (h1 : a.le b) (h2 : b.le c) : a.le c := by
  refine ⟨Nat.le_trans h1.1 h2.1, Nat.le_trans h1.2.1 h2.2.1, Nat.le_trans h1.2.2.1 h2.2.2.1, ?_⟩
  intro i x hx
  obtain ⟨y, hy, hxy⟩ := h1.2.2.2 i x hx
  obtain ⟨z, hz, hyz⟩ := h2.2.2.2 i y hy
  exact ⟨z, hz, Nat.le_trans hxy hyz⟩

/-- reserving from larger metadata gives a larger object -/
theorem FlatMeta.reserve_mono {a b : FlatMeta} (h : a.le b) : a.reserve.le b.reserve := by
  refine ⟨h.1, h.2.1, by simpa [FlatMeta.reserve] using h.2.2.1, ?_⟩
  intro i x hx
  simp only [FlatMeta.reserve, List.getElem?_replicate] at hx ⊢
  by_cases hi : i < a.rsN
  · simp [hi] at hx
    have : i < b.rsN := Nat.lt_of_lt_of_le hi h.2.2.1
    exact ⟨b.rsCap, by simp [this], by rw [← hx]; exact h.2.2.2⟩
  · simp [hi] at hx

theorem foldl_update_le (cs : List Flat) (m : FlatMeta) : m.le (cs.foldl FlatMeta.update m) := by
  induction cs generalizing m with
  | nil => exact ⟨Nat.le_refl _, Nat.le_refl _, Nat.le_refl _, Nat.le_refl _⟩
  | cons c cs ih =>
    have a := FlatMeta.le_update m c
    have b := ih (m.update c)
    exact ⟨Nat.le_trans a.1 b.1, Nat.le_trans a.2.1 b.2.1, Nat.le_trans a.2.2.1 b.2.2.1, Nat.le_trans a.2.2.2 b.2.2.2⟩

theorem foldl_update_covers (cs : List Flat) (m : FlatMeta) {i : Nat} {x : Flat} (h : cs[i]? = some x) :
    x.le (cs.foldl FlatMeta.update m).reserve := by
  induction cs generalizing m i with
  | nil => simp at h
  | cons c cs ih =>
    cases i with
    | zero =>
      simp at h; subst h
      exact Flat.le_trans (Flat.le_reserve_update m c) (FlatMeta.reserve_mono (foldl_update_le cs _))
    | succ j => exact ih _ (by simpa using h)

theorem foldl_update_fixed (n : Nat) (m : FlatMeta) :
    (List.replicate n m.reserve).foldl FlatMeta.update m = m := by
  induction n with
  | zero => rfl
  | succ n ih => simp [List.replicate_succ, FlatMeta.update_reserve, ih]

/-- `msg_recreate_keeps_capacity` (core): the message re-created from `update m c` retains at least
everything `c` retained — whatever the has-bit of the sub-message was when the snapshot was taken -/
theorem Top.le_reserve_update (m : TopMeta) (c : Top) : c.le (m.update c).reserve := by
  refine ⟨Flat.le_reserve_update _ _, ?_, ?_, ?_⟩
  · intro x hx
    simp only [TopMeta.update, TopMeta.reserve, hx, Option.map_some]
    exact ⟨_, rfl, Flat.le_reserve_update _ _⟩
  · simp [TopMeta.reserve, TopMeta.update]; exact Nat.le_max_right _ _
  · intro i x hx
    have hi : i < c.rm.length := (List.getElem?_eq_some_iff.mp hx).1
    refine ⟨(c.rm.foldl FlatMeta.update m.rm).reserve, ?_, foldl_update_covers c.rm m.rm hx⟩
    simp only [TopMeta.reserve, TopMeta.update, List.getElem?_replicate]
    have : i < max m.rmN c.rm.length := by omega
    simp [this]

/-- convergence: a re-created instance adds nothing to the metadata it was created from -/
theorem TopMeta.update_reserve (m : TopMeta) : m.update m.reserve = m := by
  cases m with
  | mk f sub rmN rm =>
    simp only [TopMeta.update, TopMeta.reserve, FlatMeta.update_reserve, List.length_replicate, Nat.max_self,
      foldl_update_fixed]
    cases sub with
    | none => rfl
    | some x => simp [FlatMeta.update_reserve]

end Babylon.RVec.Msg
