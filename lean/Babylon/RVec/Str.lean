/-
  Model of the reusable string (`babylon::MonotonicBasicString` = `std::basic_string` over a
  `MonotonicAllocator`, src/babylon/reusable/string.h) as far as capacity reuse is concerned:
  libstdc++'s (cxx11 ABI) buffer policy `_M_create` — measured by the translator's probe
  (`ssoCap`, `growProbe`, `exactProbe`) — plus babylon's `stable_reserve`,
  `resize_uninitialized` (src/babylon/string.hpp) and the `AllocationMetadata` round trip of
  `ReusableTraits<MonotonicBasicString>`.  Core Lean only.
-/
import Babylon.Gen.RVec

namespace Babylon.RVec
open Babylon.Gen.RVec

structure RStr where
  chars : List Nat       -- contents (`size() = chars.length`)
  cap : Nat              -- `capacity()`
  allocs : Nat := 0      -- buffers taken from the allocator
  allocBytes : Nat := 0  -- bytes requested (`capacity + 1` per buffer)
  deriving Repr, DecidableEq, Inhabited

namespace RStr

def len (s : RStr) : Nat := s.chars.length

/-- default-constructed: empty, the in-object (SSO) buffer -/
def fresh : RStr := { chars := [], cap := ssoCap }

/-- libstdc++ `basic_string::_M_create(capacity, old_capacity)`: grow at least geometrically -/
def newCap (req old : Nat) : Nat :=
  if req > old ∧ req < 2 * old then 2 * old else req

/-- make room for `n` characters (`_M_mutate` / `_M_assign` / `reserve` when `n > capacity()`) -/
def grow (s : RStr) (n : Nat) : RStr :=
  if n ≤ s.cap then s
  else
    let c := newCap n s.cap
    { s with cap := c, allocs := s.allocs + 1, allocBytes := s.allocBytes + (c + 1) }

/-- `assign(ptr, n)` / `operator=` -/
def assign (s : RStr) (xs : List Nat) : RStr := { (s.grow xs.length) with chars := xs }

/-- `append(ptr, n)` -/
def append (s : RStr) (xs : List Nat) : RStr :=
  { (s.grow (s.chars.length + xs.length)) with chars := s.chars ++ xs }

/-- `*this = std::move(tmp)` with `tmp` a temporary built from `xs` on the same resource: move
assignment swaps, so the string takes over the temporary's buffer (exactly `xs.length`
characters, or the in-object buffer) — capacity handed in by the caller, not retained capacity -/
def moveFrom (s : RStr) (xs : List Nat) : RStr :=
  { s with chars := xs, cap := if xs.length ≤ ssoCap then ssoCap else xs.length }

/-- `clear()` — also what `ReusableTraits::reconstruct(str, alloc)` does -/
def clear (s : RStr) : RStr := { s with chars := [] }

/-- `babylon::stable_reserve(str, min_capacity)` -/
def stableReserve (s : RStr) (n : Nat) : RStr := s.grow n

/-- `babylon::resize_uninitialized(str, n)`: size becomes `n`, the new characters are not
written by the call; `fill` is what the caller then stores there (the harness writes `'u'`) -/
def resizeUninit (s : RStr) (n : Nat) (fill : Nat) : RStr :=
  let s := s.grow n
  { s with chars := s.chars.take n ++ List.replicate (n - s.chars.length) fill }

abbrev Meta := Nat

/-- `ReusableTraits<String>::update_allocation_metadata` -/
def updateMeta (s : RStr) (m : Meta) : Meta := max m s.cap

/-- `construct_with_allocation_metadata`: `allocator.construct(ptr); stable_reserve(*ptr, meta.capacity)` -/
def ofMeta (m : Meta) : RStr := fresh.stableReserve m

inductive SOp
  | assign (xs : List Nat)
  | append (xs : List Nat)
  | clear
  | reserve (n : Nat)
  deriving Repr, DecidableEq

def step (s : RStr) : SOp → RStr
  | .assign xs => s.assign xs
  | .append xs => s.append xs
  | .clear => s.clear
  | .reserve n => s.stableReserve n

/-- `std::string` semantics of the same call on the contents -/
def listStep (xs : List Nat) : SOp → List Nat
  | .assign ys => ys
  | .append ys => xs ++ ys
  | .clear => []
  | .reserve _ => xs

/-- the largest size the string reaches while running the workload -/
def peak : List Nat → List SOp → Nat
  | xs, [] => xs.length
  | xs, o :: os => max xs.length (peak (listStep xs o) os)

/-- the largest explicit reserve request -/
def maxReserve : List SOp → Nat
  | [] => 0
  | .reserve n :: os => max n (maxReserve os)
  | _ :: os => maxReserve os

end RStr
end Babylon.RVec
