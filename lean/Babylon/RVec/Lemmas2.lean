/-
  Helper lemmas, part 2: the refinement relation `Rep`, step summaries, and the operations
  without shifting loops (`emplace_back`, `pop_back`, `clear`, `resize`, `assign…`, `operator[]`).
-/
import Babylon.RVec.Lemmas

namespace Babylon.RVec
open Babylon.Gen.RVec
namespace RVec

/-- `s` represents the abstract vector `xs`: cell `k < size` holds a live object with value `xs[k]` -/
structure Rep (s : RVec) (xs : List Val) : Prop where
  len : xs.length = s.size
  cell : ∀ k, k < s.size → s.slots[k]? = (xs[k]?).map Slot.live

theorem abs_getElem? (s : RVec) (k : Nat) :
    s.abs[k]? = if k < s.size then (s.slots[k]?).map Slot.val? else none := by
  simp only [abs, List.getElem?_map, List.getElem?_take]
  split <;> simp

theorem abs_length {s : RVec} (h : Inv s) : s.abs.length = s.size := by
  have := h.size_le; have := h.cons_le; have := h.len
  simp [abs, List.length_take]; omega

/-- the refinement relation is exactly "the observable contents are `xs`" -/
theorem rep_iff_abs {s : RVec} (h : Inv s) (xs : List Val) : Rep s xs ↔ s.abs = xs.map some := by
  constructor
  · intro r
    apply List.ext_getElem?
    intro k
    rw [abs_getElem?]
    by_cases hk : k < s.size
    · simp [hk, r.cell k hk]
      cases hx : xs[k]? <;> simp
    · have : xs.length ≤ k := by have := r.len; omega
      simp [hk, List.getElem?_eq_none this]
  · intro e
    have hl : xs.length = s.size := by
      have := congrArg List.length e
      rw [abs_length h] at this
      simpa using this.symm
    refine ⟨hl, ?_⟩
    intro k hk
    have := congrArg (fun l => l[k]?) e
    simp only [abs_getElem?, hk, if_true, List.getElem?_map] at this
    obtain ⟨v, hv⟩ := h.live k (by have := h.size_le; omega)
    rw [hv] at this ⊢
    simp at this
    cases hx : xs[k]? with
    | none => simp [hx] at this
    | some x => simp [hx] at this; simp [this]

theorem rep_fresh : Rep fresh [] := by
  constructor <;> simp [fresh]

/-- ghost bookkeeping of one step: no violation, nothing leaked, constructions and destructions
stay balanced with the number of live cells -/
structure GStep (s t : RVec) : Prop where
  bad : t.g.bad = s.g.bad
  leaked : t.g.leaked = s.g.leaked
  bal : t.g.ctor + s.g.dtor + s.cons = s.g.ctor + t.g.dtor + t.cons

theorem GStep.refl (s : RVec) : GStep s s := ⟨rfl, rfl, by omega⟩

theorem GStep.trans {s t u : RVec} (a : GStep s t) (b : GStep t u) : GStep s u :=
  ⟨by rw [b.bad, a.bad], by rw [b.leaked, a.leaked], by have := a.bal; have := b.bal; omega⟩

theorem GStep.ginv {s t : RVec} (a : GStep s t) (h : GInv s) : GInv t :=
  ⟨by rw [a.bad, h.bad], by rw [a.leaked, h.leaked], by have := a.bal; have := h.bal; omega⟩

/-- capacity bookkeeping of one step: capacity and constructed cells never shrink; if the step
needs no more than the capacity already held, nothing is allocated -/
structure CStep (s t : RVec) (need : Nat) : Prop where
  cap_le : s.cap ≤ t.cap
  cons_le : s.cons ≤ t.cons
  fit : need ≤ s.cap → t.cap = s.cap ∧ t.g.allocs = s.g.allocs ∧ t.g.allocElems = s.g.allocElems

theorem CStep.refl (s : RVec) (need : Nat) : CStep s s need := ⟨Nat.le_refl _, Nat.le_refl _, fun _ => ⟨rfl, rfl, rfl⟩⟩

theorem CStep.trans {s t u : RVec} {n m : Nat} (a : CStep s t n) (b : CStep t u m) : CStep s u (max n m) := by
  refine ⟨Nat.le_trans a.cap_le b.cap_le, Nat.le_trans a.cons_le b.cons_le, ?_⟩
  intro h
  have h1 := a.fit (by omega)
  have h2 := b.fit (by omega)
  omega

theorem CStep.mono {s t : RVec} {n m : Nat} (a : CStep s t n) (h : n ≤ m) : CStep s t m :=
  ⟨a.cap_le, a.cons_le, fun hm => a.fit (by omega)⟩

theorem ReserveSpec.gstep {s t : RVec} {n : Nat} (r : ReserveSpec s t n) : GStep s t :=
  ⟨r.bad, r.leaked, by have := r.bal; have := r.cons; omega⟩

theorem ReserveSpec.cstep {s t : RVec} {n : Nat} (r : ReserveSpec s t n) : CStep s t n := by
  refine ⟨by have := r.cap; omega, by have := r.cons; omega, ?_⟩
  intro h
  rw [r.noalloc h]
  exact ⟨rfl, rfl, rfl⟩

theorem ReserveSpec.rep {s t : RVec} {n : Nat} (r : ReserveSpec s t n) (hs : Inv s) {xs : List Val} (x : Rep s xs) :
    Rep t xs := by
  refine ⟨by rw [x.len, r.size], ?_⟩
  intro k hk
  rw [r.size] at hk
  rw [r.keep k (by have := hs.size_le; omega)]
  exact x.cell k hk

/-! ### writing one cell -/

/-- overwrite a live cell (and possibly move `size` within the constructed range) -/
theorem inv_set_live {s : RVec} (h : Inv s) {i : Nat} (hi : i < s.cons) (v : Val) (g : Ghost) {sz : Nat}
    (hsz : sz ≤ s.cons) :
    Inv { s with slots := s.slots.set i (Slot.live v), size := sz, g := g } := by
  have hl := h.len; have hc := h.cons_le
  constructor
  · exact hsz
  · exact hc
  · simpa using hl
  · intro k hk
    simp only [List.getElem?_set]
    by_cases e : i = k
    · subst e; exact ⟨v, by simp; omega⟩
    · simpa [e] using h.live k hk
  · intro k hk hk2
    simp only [List.getElem?_set]
    have e : i ≠ k := by simp at hk; omega
    simpa [e] using h.raw k hk hk2

/-- construct the first raw cell -/
theorem inv_set_cons {s : RVec} (h : Inv s) (hc : s.cons < s.cap) (v : Val) (g : Ghost) {sz : Nat}
    (hsz : sz ≤ s.cons + 1) :
    Inv { s with slots := s.slots.set s.cons (Slot.live v), size := sz, cons := s.cons + 1, g := g } := by
  have hl := h.len
  constructor
  · exact hsz
  · simp; omega
  · simpa using hl
  · intro k hk
    simp only [List.getElem?_set]
    by_cases e : s.cons = k
    · exact ⟨v, by simp [e]; omega⟩
    · simp at hk
      simpa [e] using h.live k (by omega)
  · intro k hk hk2
    simp only [List.getElem?_set]
    simp at hk hk2
    have e : s.cons ≠ k := by omega
    simpa [e] using h.raw k (by omega) hk2

/-! ### `emplace_back` -/

structure OpSpec (s t : RVec) (ys : List Val) (need : Nat) : Prop where
  inv : Inv t
  rep : Rep t ys
  g : GStep s t
  c : CStep s t need

theorem OpSpec.size {s t : RVec} {ys : List Val} {need : Nat} (o : OpSpec s t ys need) : t.size = ys.length :=
  o.rep.len.symm

theorem emplaceBackWith_spec (c : Cfg) (rb : Bool) {s : RVec} (h : Inv s) {xs : List Val} (x : Rep s xs) (v : Val) :
    OpSpec s (s.emplaceBackWith c rb v) (xs ++ [v]) (s.size + 1) := by
  -- the optional growth step
  generalize hs1 : (if s.size == s.cap then s.reserve c (if s.cap == 0 then growInit else s.cap * growFactor) else s) = s1
  have hgi := growInit_pos; have hgf := growFactor_ge
  have hsl := h.size_le; have hcl := h.cons_le
  have h1 : Inv s1 ∧ Rep s1 xs ∧ GStep s s1 ∧ CStep s s1 (s.size + 1) ∧ s1.size = s.size ∧ s1.cons = s.cons ∧ s.size < s1.cap := by
    by_cases e : s.size = s.cap
    · have hb : (s.size == s.cap) = true := by simp [e]
      simp only [hb, if_true] at hs1
      generalize hn : (if s.cap == 0 then growInit else s.cap * growFactor) = n at hs1
      have hnc : s.cap < n := by
        by_cases z : s.cap = 0
        · simp [z] at hn; omega
        · have hz : (s.cap == 0) = false := by simp [z]
          simp only [hz] at hn
          have : s.cap < s.cap * growFactor := by
            calc s.cap < s.cap * 2 := by omega
              _ ≤ s.cap * growFactor := Nat.mul_le_mul_left _ hgf
          simp at hn
          omega
      have r := reserve_spec c h n
      rw [hs1] at r
      refine ⟨r.inv, r.rep h x, r.gstep, ⟨by have := r.cap; omega, by have := r.cons; omega, by intro; omega⟩, r.size, r.cons, ?_⟩
      have := r.cap
      omega
    · have : s1 = s := by simp [e] at hs1; exact hs1.symm
      subst this
      exact ⟨h, x, GStep.refl _, CStep.refl _ _, rfl, rfl, by omega⟩
  obtain ⟨i1, x1, g1, c1, e1, e2, e3⟩ := h1
  have hunf : s.emplaceBackWith c rb v =
      (if s1.cons > s1.size then { (s1.reconstructWith rb s1.size v) with size := s1.size + 1 }
       else { (s1.constructIn s1.size v) with size := s1.size + 1, cons := s1.cons + 1 }) := by
    simp only [emplaceBackWith, hs1]
  rw [hunf]
  have hxl := x1.len
  by_cases hc : s1.cons > s1.size
  · obtain ⟨w, hw⟩ := i1.live s1.size hc
    simp only [hc, if_true, reconstructWith_live rb hw]
    refine ⟨inv_set_live i1 hc v _ (by omega), ?_, ?_, ?_⟩
    · refine ⟨by simp; omega, ?_⟩
      intro k hk
      simp at hk
      simp only [List.getElem?_set]
      by_cases e : s1.size = k
      · subst e
        have : s1.size < s1.slots.length := by rw [i1.len]; have := i1.cons_le; omega
        rw [← hxl]
        simp [this, hxl]
      · have hk' : k < s1.size := by omega
        simp [e, x1.cell k hk', List.getElem?_append_left (show k < xs.length by omega)]
    · refine g1.trans ⟨?_, ?_, ?_⟩ <;> cases rb <;> simp <;> omega
    · refine ⟨by simpa using c1.cap_le, by simpa using c1.cons_le, ?_⟩
      intro hf
      have := c1.fit hf
      cases rb <;> simpa using this
  · have hce : s1.cons = s1.size := by have := i1.size_le; omega
    have hraw := i1.raw s1.size (by omega) (by omega)
    simp only [hc, if_false, constructIn_raw hraw]
    have hi := inv_set_cons i1 (by omega) v { s1.g with ctor := s1.g.ctor + 1 } (sz := s1.size + 1) (by omega)
    rw [hce] at hi
    refine ⟨by simpa [hce] using hi, ?_, ?_, ?_⟩
    · refine ⟨by simp; omega, ?_⟩
      intro k hk
      simp at hk
      simp only [List.getElem?_set]
      by_cases e : s1.size = k
      · subst e
        have : s1.size < s1.slots.length := by rw [i1.len]; omega
        rw [← hxl]
        simp [this, hxl]
      · have hk' : k < s1.size := by omega
        simp [e, x1.cell k hk', List.getElem?_append_left (show k < xs.length by omega)]
    · refine g1.trans ⟨?_, ?_, ?_⟩ <;> simp <;> omega
    · refine ⟨by simpa using c1.cap_le, by have := c1.cons_le; simp; omega, ?_⟩
      intro hf
      simpa using c1.fit hf


/-! ### the two "fill" loops shared by `insert` and `resize` -/

/-- effect of a loop that writes `xs` into the cells `[i, i + xs.length)` and constructs `dcons`
of them -/
structure FillSpec (s t : RVec) (i : Nat) (xs : List Val) (dcons : Nat) : Prop where
  size : t.size = s.size
  cons : t.cons = s.cons + dcons
  cap : t.cap = s.cap
  len : t.slots.length = s.slots.length
  cell : ∀ k, t.slots[k]? =
    if i ≤ k ∧ k < i + xs.length then (xs[k - i]?).map Slot.live else s.slots[k]?
  bad : t.g.bad = s.g.bad
  leaked : t.g.leaked = s.g.leaked
  allocs : t.g.allocs = s.g.allocs
  allocElems : t.g.allocElems = s.g.allocElems
  bal : t.g.ctor + s.g.dtor = s.g.ctor + t.g.dtor + dcons

theorem getElem?_lt_of_eq_some {α : Type} {l : List α} {i : Nat} {a : α} (h : l[i]? = some a) : i < l.length :=
  (List.getElem?_eq_some_iff.mp h).1

theorem reconFrom_spec (c : Cfg) : ∀ (xs : List Val) (s : RVec) (i : Nat),
    (∀ k, i ≤ k → k < i + xs.length → ∃ w, s.slots[k]? = some (Slot.live w)) →
    FillSpec s (reconFrom c s i xs) i xs 0 := by
  intro xs
  induction xs with
  | nil =>
    intro s i _
    constructor <;> simp [reconFrom]
    intro k h1 h2; omega
  | cons x xs ih =>
    intro s i hl
    obtain ⟨w, hw⟩ := hl i (Nat.le_refl _) (by simp)
    have hi := getElem?_lt_of_eq_some hw
    have hstep : s.reconstruct c i x = _ := reconstructWith_live c.rebuild hw
    simp only [reconFrom, hstep]
    have := ih { s with slots := s.slots.set i (Slot.live x),
                        g := if c.rebuild then { s.g with dtor := s.g.dtor + 1, ctor := s.g.ctor + 1 }
                             else { s.g with asg := s.g.asg + 1 } } (i + 1)
      (by
        intro k hk1 hk2
        simp only [List.getElem?_set]
        have : i ≠ k := by omega
        simp only [this, if_false]
        exact hl k (by omega) (by simp; omega))
    refine ⟨this.size, this.cons, this.cap, by simpa using this.len, ?_, ?_, ?_, ?_, ?_, ?_⟩
    · intro k
      rw [this.cell k]
      simp only [List.getElem?_set, List.length_cons]
      by_cases e : i = k
      · subst e
        simp [hi]
        intro h; omega
      · by_cases h1 : i + 1 ≤ k ∧ k < i + 1 + xs.length
        · have h2 : i ≤ k ∧ k < i + (xs.length + 1) := by omega
          simp only [h1, h2, and_self, if_true]
          have : k - i = (k - (i + 1)) + 1 := by omega
          rw [this, List.getElem?_cons_succ]
        · have h2 : ¬ (i ≤ k ∧ k < i + (xs.length + 1)) := by omega
          simp [h1, h2, e]
    · rw [this.bad]; cases c.rebuild <;> simp
    · rw [this.leaked]; cases c.rebuild <;> simp
    · rw [this.allocs]; cases c.rebuild <;> simp
    · rw [this.allocElems]; cases c.rebuild <;> simp
    · have := this.bal; revert this; cases c.rebuild <;> simp <;> omega

theorem consFrom_spec : ∀ (xs : List Val) (s : RVec) (i : Nat),
    (∀ k, i ≤ k → k < i + xs.length → s.slots[k]? = some Slot.raw) →
    FillSpec s (consFrom s i xs) i xs xs.length := by
  intro xs
  induction xs with
  | nil =>
    intro s i _
    constructor <;> simp [consFrom]
    intro k h1 h2; omega
  | cons x xs ih =>
    intro s i hl
    have hw := hl i (Nat.le_refl _) (by simp)
    have hi := getElem?_lt_of_eq_some hw
    simp only [consFrom, constructIn_raw hw]
    have := ih { s with slots := s.slots.set i (Slot.live x), g := { s.g with ctor := s.g.ctor + 1 },
                        cons := s.cons + 1 } (i + 1)
      (by
        intro k hk1 hk2
        simp only [List.getElem?_set]
        have : i ≠ k := by omega
        simp only [this, if_false]
        exact hl k (by omega) (by simp; omega))
    refine ⟨this.size, by have := this.cons; simp at this ⊢; omega, this.cap, by simpa using this.len, ?_, ?_, ?_, ?_, ?_, ?_⟩
    · intro k
      rw [this.cell k]
      simp only [List.getElem?_set, List.length_cons]
      by_cases e : i = k
      · subst e
        simp [hi]
        intro h; omega
      · by_cases h1 : i + 1 ≤ k ∧ k < i + 1 + xs.length
        · have h2 : i ≤ k ∧ k < i + (xs.length + 1) := by omega
          simp only [h1, h2, and_self, if_true]
          have : k - i = (k - (i + 1)) + 1 := by omega
          rw [this, List.getElem?_cons_succ]
        · have h2 : ¬ (i ≤ k ∧ k < i + (xs.length + 1)) := by omega
          simp [h1, h2, e]
    · rw [this.bad]
    · rw [this.leaked]
    · rw [this.allocs]
    · rw [this.allocElems]
    · have := this.bal; simp at this ⊢; omega

theorem forUp_recon_eq (c : Cfg) (v : Val) : ∀ (n lo : Nat) (s : RVec),
    forUp (fun i s => s.reconstruct c i v) lo n s = reconFrom c s lo (List.replicate n v) := by
  intro n
  induction n with
  | zero => intro lo s; simp [forUp, reconFrom]
  | succ n ih => intro lo s; simp [forUp, reconFrom, List.replicate_succ, ih]

theorem forUp_cons_eq (v : Val) : ∀ (n lo : Nat) (s : RVec),
    forUp (fun i s => { (s.constructIn i v) with cons := s.cons + 1 }) lo n s = consFrom s lo (List.replicate n v) := by
  intro n
  induction n with
  | zero => intro lo s; simp [forUp, consFrom]
  | succ n ih => intro lo s; simp [forUp, consFrom, List.replicate_succ, ih]


/-! ### `resize`, `pop_back`, `clear`, `operator[]` -/

theorem resize_spec (c : Cfg) {s : RVec} (h : Inv s) {xs : List Val} (x : Rep s xs) (n : Nat) (v : Val) :
    OpSpec s (s.resize c n v) (xs.take n ++ List.replicate (n - xs.length) v) n := by
  have r := reserve_spec c h n
  generalize hs1 : s.reserve c n = s1 at r
  have i1 := r.inv
  have x1 := r.rep h x
  have hcap : n ≤ s1.cap := by have := r.cap; omega
  have hxl := x1.len
  by_cases hlt : s1.size < n
  · -- grow: reconstruct the stale cells, construct the rest
    generalize hre : min s1.cons n = re
    have hunf : s.resize c n v =
        { (consFrom (reconFrom c s1 s1.size (List.replicate (re - s1.size) v)) re (List.replicate (n - re) v)) with size := n } := by
      simp only [resize, hs1, hlt, if_true, hre, forUp_recon_eq, forUp_cons_eq]
    have hsl := i1.size_le; have hcl := i1.cons_le
    have f1 := reconFrom_spec c (List.replicate (re - s1.size) v) s1 s1.size (by
      intro k hk1 hk2
      simp at hk2
      exact i1.live k (by omega))
    generalize reconFrom c s1 s1.size (List.replicate (re - s1.size) v) = t1 at f1 hunf
    have f2 := consFrom_spec (List.replicate (n - re) v) t1 re (by
      intro k hk1 hk2
      simp at hk2
      rw [f1.cell k]
      have : ¬ (s1.size ≤ k ∧ k < s1.size + (List.replicate (re - s1.size) v).length) := by simp; omega
      simp only [this, if_false]
      exact i1.raw k (by omega) (by omega))
    generalize consFrom t1 re (List.replicate (n - re) v) = t2 at f2 hunf
    rw [hunf]
    have hcell : ∀ k, t2.slots[k]? = if s1.size ≤ k ∧ k < n then some (Slot.live v) else s1.slots[k]? := by
      intro k
      rw [f2.cell k, f1.cell k]
      simp only [List.length_replicate, List.getElem?_replicate]
      by_cases a : re ≤ k ∧ k < re + (n - re)
      · have : s1.size ≤ k ∧ k < n := by omega
        simp [a, this]
      · by_cases b : s1.size ≤ k ∧ k < s1.size + (re - s1.size)
        · have : s1.size ≤ k ∧ k < n := by omega
          simp [a, b, this]; omega
        · have : ¬ (s1.size ≤ k ∧ k < n) := by omega
          simp [a, b, this]
    have hcons : t2.cons = max s1.cons n := by have := f2.cons; have := f1.cons; simp at *; omega
    refine ⟨?_, ?_, ?_, ?_⟩
    · constructor
      · simp; omega
      · simp; rw [f2.cap, f1.cap]; omega
      · simp; rw [f2.len, f1.len]; have := i1.len; rw [f2.cap, f1.cap]; omega
      · intro k hk
        simp at hk
        simp only [hcell k]
        by_cases a : s1.size ≤ k ∧ k < n
        · exact ⟨v, by simp [a]⟩
        · simp only [a, if_false]; exact i1.live k (by omega)
      · intro k hk hk2
        simp at hk hk2
        rw [f2.cap, f1.cap] at hk2
        simp only [hcell k]
        have a : ¬ (s1.size ≤ k ∧ k < n) := by omega
        simp only [a, if_false]; exact i1.raw k (by omega) hk2
    · refine ⟨by simp; omega, ?_⟩
      intro k hk
      simp at hk
      simp only [hcell k]
      by_cases a : k < s1.size
      · have : ¬ (s1.size ≤ k ∧ k < n) := by omega
        simp only [this, if_false, x1.cell k a]
        rw [List.getElem?_append_left (by simp; omega), List.getElem?_take_of_lt (by omega)]
      · have : s1.size ≤ k ∧ k < n := by omega
        simp only [this, and_self, if_true]
        rw [List.getElem?_append_right (by simp; omega)]
        simp [List.getElem?_replicate]; omega
    · refine r.gstep.trans ⟨?_, ?_, ?_⟩
      · simp; rw [f2.bad, f1.bad]
      · simp; rw [f2.leaked, f1.leaked]
      · have := f2.bal; have := f1.bal; simp at *; omega
    · refine ⟨?_, ?_, ?_⟩
      · simp; rw [f2.cap, f1.cap]; exact r.cstep.cap_le
      · simp; have := r.cstep.cons_le; omega
      · intro hf
        have := r.cstep.fit hf
        simp; rw [f2.cap, f1.cap, f2.allocs, f1.allocs, f2.allocElems, f1.allocElems]; exact this
  · have hunf : s.resize c n v = { s1 with size := n } := by
      simp only [resize, hs1, hlt, if_false]
    rw [hunf]
    have hnl : n ≤ xs.length := by omega
    refine ⟨?_, ?_, ?_, ?_⟩
    · exact ⟨by have := i1.size_le; simp; omega, i1.cons_le, i1.len, i1.live, i1.raw⟩
    · refine ⟨by simp; omega, ?_⟩
      intro k hk
      simp at hk
      rw [x1.cell k (by omega), List.getElem?_append_left (by simp; omega), List.getElem?_take_of_lt hk]
    · exact r.gstep.trans ⟨rfl, rfl, by simp⟩
    · exact ⟨r.cstep.cap_le, r.cstep.cons_le, r.cstep.fit⟩

theorem popBack_spec {s : RVec} (h : Inv s) {xs : List Val} (x : Rep s xs) :
    OpSpec s s.popBack xs.dropLast 0 := by
  refine ⟨?_, ?_, ⟨rfl, rfl, by simp [popBack]⟩, ⟨Nat.le_refl _, Nat.le_refl _, fun _ => ⟨rfl, rfl, rfl⟩⟩⟩
  · exact ⟨by have := h.size_le; simp [popBack]; omega, h.cons_le, h.len, h.live, h.raw⟩
  · refine ⟨by simp [popBack, x.len], ?_⟩
    intro k hk
    simp [popBack] at hk ⊢
    rw [x.cell k (by omega), List.dropLast_eq_take, List.getElem?_take_of_lt (by have := x.len; omega)]

theorem clear_spec {s : RVec} (h : Inv s) :
    OpSpec s s.clear [] 0 := by
  refine ⟨?_, ?_, ⟨rfl, rfl, by simp [clear]⟩, ⟨Nat.le_refl _, Nat.le_refl _, fun _ => ⟨rfl, rfl, rfl⟩⟩⟩
  · exact ⟨by simp [clear], h.cons_le, h.len, h.live, h.raw⟩
  · exact ⟨by simp [clear], by intro k hk; simp [clear] at hk⟩

theorem setAt_spec {s : RVec} (h : Inv s) {xs : List Val} (x : Rep s xs) {i : Nat} (hi : i < s.size) (v : Val) :
    OpSpec s (s.setAt i v) (xs.set i v) 0 := by
  obtain ⟨w, hw⟩ := h.live i (by have := h.size_le; omega)
  simp only [setAt, assignOver_live hw]
  refine ⟨inv_set_live h (by have := h.size_le; omega) v _ h.size_le, ?_, ⟨rfl, rfl, by simp⟩,
    ⟨Nat.le_refl _, Nat.le_refl _, fun _ => ⟨rfl, rfl, rfl⟩⟩⟩
  refine ⟨by simp [x.len], ?_⟩
  intro k hk
  simp at hk
  simp only [List.getElem?_set]
  by_cases e : i = k
  · subst e
    have : i < s.slots.length := getElem?_lt_of_eq_some hw
    have : i < xs.length := by have := x.len; omega
    simp [*]
  · simp [e, x.cell k hk]


/-! ### `assign` family -/

theorem OpSpec.trans {s t u : RVec} {ys zs : List Val} {n m : Nat} (a : OpSpec s t ys n) (b : OpSpec t u zs m) :
    OpSpec s u zs (max n m) :=
  ⟨b.inv, b.rep, a.g.trans b.g, a.c.trans b.c⟩

theorem OpSpec.mono {s t : RVec} {ys : List Val} {n m : Nat} (a : OpSpec s t ys n) (h : n ≤ m) : OpSpec s t ys m :=
  ⟨a.inv, a.rep, a.g, a.c.mono h⟩

theorem OpSpec.refl {s : RVec} (h : Inv s) {xs : List Val} (x : Rep s xs) (n : Nat) : OpSpec s s xs n :=
  ⟨h, x, GStep.refl _, CStep.refl _ _⟩

theorem foldl_emplaceBack_spec (c : Cfg) : ∀ (ys : List Val) {s : RVec} (_ : Inv s) {xs : List Val} (_ : Rep s xs),
    OpSpec s (ys.foldl (fun s x => s.emplaceBack c x) s) (xs ++ ys) (xs.length + ys.length) := by
  intro ys
  induction ys with
  | nil => intro s h xs x; simpa using OpSpec.refl h x _
  | cons y ys ih =>
    intro s h xs x
    have a := emplaceBackWith_spec c c.rebuild h x y
    have b := ih a.inv a.rep
    have := a.trans b
    simp only [List.foldl_cons]
    have e : xs ++ y :: ys = xs ++ [y] ++ ys := by simp
    rw [e]
    refine this.mono ?_
    have := x.len
    simp; omega

theorem assignRange_spec (c : Cfg) {s : RVec} (h : Inv s) (ys : List Val) :
    OpSpec s (s.assignRange c ys) ys ys.length := by
  have a := clear_spec h
  have r := reserve_spec c a.inv ys.length
  have b : OpSpec s.clear (s.clear.reserve c ys.length) [] ys.length :=
    ⟨r.inv, r.rep a.inv a.rep, r.gstep, r.cstep⟩
  have d := foldl_emplaceBack_spec c ys b.inv b.rep
  have := (a.trans b).trans d
  simp only [assignRange]
  simp at this
  exact this.mono (by omega)

theorem assignN_spec (c : Cfg) {s : RVec} (h : Inv s) (n : Nat) (v : Val) :
    OpSpec s (s.assignN c n v) (List.replicate n v) n := by
  have := assignRange_spec c h (List.replicate n v)
  simpa [assignN] using this

theorem assignCount_spec (c : Cfg) {s : RVec} (h : Inv s) (n : Nat) :
    OpSpec s (s.assignCount c n) (List.replicate n dflt) n := by
  have a := clear_spec h
  have b := resize_spec c a.inv a.rep n dflt
  have := a.trans b
  simp only [assignCount]
  simpa using this

theorem reserve_opspec (c : Cfg) {s : RVec} (h : Inv s) {xs : List Val} (x : Rep s xs) (n : Nat) :
    OpSpec s (s.reserve c n) xs n := by
  have r := reserve_spec c h n
  exact ⟨r.inv, r.rep h x, r.gstep, r.cstep⟩

end RVec
end Babylon.RVec
