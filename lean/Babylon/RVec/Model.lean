/-
  Executable model of `babylon::ReusableVector` (src/babylon/reusable/vector.hpp), of the
  allocation-metadata round trip (`ReusableTraits`, src/babylon/reusable/traits.h) and of
  `ReusableManager` (src/babylon/reusable/manager.hpp).  Core Lean only (links into drv_C12).

  The vector owns one buffer of `_capacity` cells.  The key idea of the real class is that the
  cells in `[_size, _constructed_size)` keep a *constructed* element which later operations
  re-assign ("reconstruct") instead of constructing, so the element's own heap capacity is kept.
  The model therefore distinguishes, per cell, `raw` storage from a `live` object and routes
  every touch of a cell through one of five tagged primitives

      constructIn   (placement-new: the cell must be raw)
      assignOver    (operator= on the cell: it must hold a live object)
      destroy       (destructor: live -> raw)
      moveOut       (the cell is the *source* of a move: it must be live; a residue stays)
      reconstruct   (`ReusableTraits::reconstruct`: assignOver, or destroy+constructIn for
                     element types without a matching `operator=`)

  each of which checks its lifetime precondition and counts a violation in the ghost field
  `bad` instead of silently repairing it.  Every member function below is a transcription of the
  function with the same name in vector.hpp, loop by loop (`forUp`/`forDown` are the `for`
  loops).  Element values are `Nat` (the harness maps them injectively to int / string / nested
  vector / instrumented elements); what a moved-from element holds afterwards is a *parameter*
  (`Cfg.mvC`, `Cfg.mvA`) so that theorems cover `int` (unchanged), `std::string` (emptied) and
  `MonotonicBasicString` (move-assign = swap: the source receives the target's old value).
-/
import Babylon.Gen.RVec

namespace Babylon.RVec
open Babylon.Gen.RVec

abbrev Val := Nat

/-- value of a value-initialised element (`T()`, `""`, empty vector) -/
def dflt : Val := 0

inductive Slot
  | raw
  | live (v : Val)
  deriving Repr, DecidableEq, Inhabited

def Slot.isLive : Slot → Bool
  | .live _ => true
  | .raw => false

/-- reading a cell as an element: only a live object has a value -/
def Slot.val? : Slot → Option Val
  | .live v => some v
  | .raw => none

/-- Behaviour of the element type that the container cannot see. -/
structure Cfg where
  /-- value left in the source of a move *construction* `T(std::move(src))` -/
  mvC : Val → Val
  /-- value left in the source of a move *assignment* `dst = std::move(src)`;
      arguments: source value, previous value of the destination -/
  mvA : Val → Val → Val
  /-- value of an element after the self-move-assignment `x = std::move(x)` (identity for `int`
      and for swap-based moves; libstdc++'s `std::string` *empties* a heap-allocated string) -/
  mvSelf : Val → Val
  /-- what the source of a move to an object on a *different* allocator holds afterwards
      (element-wise `operator=(ReusableVector&&)`; this one stays observable in the source) -/
  mvX : Val → Val
  /-- `ReusableTraits::reconstruct` cannot use `operator=`/`assign`/`clear` and falls back to
      `destroy` + `construct` (trivial `T`, or `T` without a matching assignment) -/
  rebuild : Bool
  /-- the same question for an rvalue argument `reconstruct(x, a, T&&)` (used by the
      element-wise move between allocators) -/
  rebuildMove : Bool

/-- ghost bookkeeping: allocation requests of this vector object and element lifetime events
performed through it -/
structure Ghost where
  allocs : Nat := 0       -- calls of `_allocator.allocate`
  allocElems : Nat := 0   -- sum of the element counts requested
  ctor : Nat := 0         -- objects constructed
  asg : Nat := 0          -- assignments onto a live object
  dtor : Nat := 0         -- objects destroyed
  bad : Nat := 0          -- lifetime violations (construct over live, assign/destroy/move-from raw, out of buffer)
  leaked : Nat := 0       -- live objects left behind in a buffer that was given up
  deriving Repr, DecidableEq, Inhabited

def Ghost.add (a b : Ghost) : Ghost :=
  { allocs := a.allocs + b.allocs, allocElems := a.allocElems + b.allocElems, ctor := a.ctor + b.ctor,
    asg := a.asg + b.asg, dtor := a.dtor + b.dtor, bad := a.bad + b.bad, leaked := a.leaked + b.leaked }

/-! ### tagged primitives on one buffer -/

abbrev Buf := List Slot

def Buf.constructIn (b : Buf) (g : Ghost) (i : Nat) (v : Val) : Buf × Ghost :=
  match b[i]? with
  | some .raw => (b.set i (.live v), { g with ctor := g.ctor + 1 })
  | _ => (b, { g with bad := g.bad + 1 })

def Buf.assignOver (b : Buf) (g : Ghost) (i : Nat) (v : Val) : Buf × Ghost :=
  match b[i]? with
  | some (.live _) => (b.set i (.live v), { g with asg := g.asg + 1 })
  | _ => (b, { g with bad := g.bad + 1 })

def Buf.destroy (b : Buf) (g : Ghost) (i : Nat) : Buf × Ghost :=
  match b[i]? with
  | some (.live _) => (b.set i .raw, { g with dtor := g.dtor + 1 })
  | _ => (b, { g with bad := g.bad + 1 })

/-- `std::move(b[i])` consumed by a constructor/assignment: returns the value, leaves `res v` -/
def Buf.moveOut (b : Buf) (g : Ghost) (i : Nat) (res : Val → Val) : Buf × Ghost × Val :=
  match b[i]? with
  | some (.live v) => (b.set i (.live (res v)), g, v)
  | _ => (b, { g with bad := g.bad + 1 }, dflt)

def liveCount (b : Buf) : Nat := b.countP Slot.isLive

/-! ### `for` loops -/

/-- `for (i = lo; i < lo + n; ++i) s = f i s` -/
def forUp {σ : Type} (f : Nat → σ → σ) : Nat → Nat → σ → σ
  | _, 0, s => s
  | lo, n + 1, s => forUp f (lo + 1) n (f lo s)

/-- `for (i = hi; i > hi - n;) { --i; s = f i s }` -/
def forDown {σ : Type} (f : Nat → σ → σ) : Nat → Nat → σ → σ
  | _, 0, s => s
  | hi, n + 1, s => forDown f (hi - 1) n (f (hi - 1) s)

/-! ### the vector -/

structure RVec where
  slots : Buf           -- `_data[0 .. _capacity)`
  size : Nat            -- `_size`
  cons : Nat            -- `_constructed_size`
  cap : Nat             -- `_capacity`
  g : Ghost := {}
  deriving Repr, DecidableEq, Inhabited

namespace RVec

/-- `explicit ReusableVector(allocator_type)`: no buffer, no allocation -/
def fresh : RVec := { slots := [], size := 0, cons := 0, cap := 0 }

/-- observable contents: the first `size` cells read as elements -/
def abs (s : RVec) : List (Option Val) := (s.slots.take s.size).map Slot.val?

def constructIn (s : RVec) (i : Nat) (v : Val) : RVec :=
  let (b, g) := s.slots.constructIn s.g i v
  { s with slots := b, g := g }

def assignOver (s : RVec) (i : Nat) (v : Val) : RVec :=
  let (b, g) := s.slots.assignOver s.g i v
  { s with slots := b, g := g }

def destroy (s : RVec) (i : Nat) : RVec :=
  let (b, g) := s.slots.destroy s.g i
  { s with slots := b, g := g }

/-- `ValueReusableTraits::reconstruct(_data[i], _allocator, v)` (traits.h `call_reconstruct`) -/
def reconstructWith (rb : Bool) (s : RVec) (i : Nat) (v : Val) : RVec :=
  if rb then (s.destroy i).constructIn i v else s.assignOver i v

def reconstruct (c : Cfg) (s : RVec) (i : Nat) (v : Val) : RVec := s.reconstructWith c.rebuild i v

/-- `_allocator.construct(&_data[dst], std::move(_data[src]))` -/
def moveConstruct (c : Cfg) (s : RVec) (dst src : Nat) : RVec :=
  let (b, g, v) := s.slots.moveOut s.g src c.mvC
  ({ s with slots := b, g := g } : RVec).constructIn dst v

/-- `_data[dst] = std::move(_data[src])` -/
def moveAssign (c : Cfg) (s : RVec) (dst src : Nat) : RVec :=
  match s.slots[dst]? with
  | some (.live old) =>
    if dst = src then
      -- `_data[i] = std::move(_data[i])`: whatever the element type makes of a self-move
      { s with slots := s.slots.set dst (.live (c.mvSelf old)), g := { s.g with asg := s.g.asg + 1 } }
    else
      let (b, g, v) := s.slots.moveOut s.g src (fun x => c.mvA x old)
      ({ s with slots := b, g := g } : RVec).assignOver dst v
  | _ => { s with g := { s.g with bad := s.g.bad + 1 } }

/-- one iteration of the loop in `reserve`: state = (old buffer, new buffer, ghost) -/
def migrateStep (c : Cfg) (i : Nat) (st : Buf × Buf × Ghost) : Buf × Buf × Ghost :=
  let (old, new, g) := st
  let (old, g, v) := old.moveOut g i c.mvC        -- std::move(_data[i])
  let (new, g) := new.constructIn g i v           -- _allocator.construct(&new_data[i], ...)
  let (old, g) := old.destroy g i                 -- _allocator.destroy(&_data[i])
  (old, new, g)

/-- `reserve(min_capacity)` -/
def reserve (c : Cfg) (s : RVec) (minCap : Nat) : RVec :=
  if s.cap ≥ minCap then s
  else
    let g := { s.g with allocs := s.g.allocs + 1, allocElems := s.g.allocElems + minCap }
    let (old, new, g) := forUp (migrateStep c) 0 s.cons (s.slots, List.replicate minCap Slot.raw, g)
    -- `_data = new_data`: the old buffer is given up (monotonic resource: never freed, never destroyed)
    { s with slots := new, cap := minCap, g := { g with leaked := g.leaked + liveCount old } }

/-- `clear()` -/
def clear (s : RVec) : RVec := { s with size := 0 }

/-- `emplace_back(args...)` / `push_back(value)`; `rb`: which `call_reconstruct` overload the
argument type selects -/
def emplaceBackWith (c : Cfg) (rb : Bool) (s : RVec) (v : Val) : RVec :=
  let s := if s.size == s.cap then s.reserve c (if s.cap == 0 then growInit else s.cap * growFactor) else s
  if s.cons > s.size then
    { (s.reconstructWith rb s.size v) with size := s.size + 1 }
  else
    { (s.constructIn s.size v) with size := s.size + 1, cons := s.cons + 1 }

def emplaceBack (c : Cfg) (s : RVec) (v : Val) : RVec := s.emplaceBackWith c c.rebuild v

/-- `pop_back()` (precondition `_size > 0`) -/
def popBack (s : RVec) : RVec := { s with size := s.size - 1 }

/-- `prepare_for_insert(index, count)`; returns the state and `reconstruct_end_size` -/
def prepareForInsert (c : Cfg) (s : RVec) (index count : Nat) : RVec × Nat :=
  -- `if (count == 0) return min(index, _constructed_size);` — present in the source iff the
  -- translator found it (`zeroCountGuard`, see patches/C12-insert-zero-count-self-move.diff)
  if zeroCountGuard && count == 0 then (s, min index s.cons) else
  let s := s.reserve c (s.size + count)
  let moveEnd := max (index + count) s.cons
  let reconEnd := min (index + count) s.cons
  -- for (i = _size + count; i > move_end_size;) { --i; construct(&_data[i], move(_data[i - count])); ++_constructed_size; }
  let s := forDown (fun i s => { (s.moveConstruct c i (i - count)) with cons := s.cons + 1 })
             (s.size + count) (s.size + count - moveEnd) s
  -- for (i = move_end_size; i > index + count;) { --i; _data[i] = move(_data[i - count]); }
  let s := forDown (fun i s => s.moveAssign c i (i - count)) moveEnd (moveEnd - (index + count)) s
  ({ s with size := s.size + count }, reconEnd)

/-- `for (i = lo; i < hi; ++i) reconstruct(_data[i], _allocator, *first++)` -/
def reconFrom (c : Cfg) : RVec → Nat → List Val → RVec
  | s, _, [] => s
  | s, i, x :: xs => reconFrom c (s.reconstruct c i x) (i + 1) xs

/-- `for (...; ++i) { _allocator.construct(&_data[i], *first++); ++_constructed_size; }` -/
def consFrom : RVec → Nat → List Val → RVec
  | s, _, [] => s
  | s, i, x :: xs => consFrom { (s.constructIn i x) with cons := s.cons + 1 } (i + 1) xs

/-- `for (i = 0; i < _size; ++i) _allocator.construct(&_data[i], *first++);` (constructors) -/
def fillFrom : RVec → Nat → List Val → RVec
  | s, _, [] => s
  | s, i, x :: xs => fillFrom (s.constructIn i x) (i + 1) xs

/-- `insert(pos, first, last)` with `index = pos - begin()` (precondition `index ≤ _size`) -/
def insertRange (c : Cfg) (s : RVec) (index : Nat) (xs : List Val) : RVec :=
  let (s, reconEnd) := s.prepareForInsert c index xs.length
  let s := reconFrom c s index (xs.take (reconEnd - index))
  consFrom s reconEnd (xs.drop (reconEnd - index))

/-- `insert(pos, count, value)`: the same two loops with a constant value -/
def insertN (c : Cfg) (s : RVec) (index count : Nat) (v : Val) : RVec :=
  s.insertRange c index (List.replicate count v)

/-- `emplace(pos, args...)` / `insert(pos, value)` -/
def emplace (c : Cfg) (s : RVec) (index : Nat) (v : Val) : RVec :=
  let (s, reconEnd) := s.prepareForInsert c index 1
  if index < reconEnd then s.reconstruct c index v
  else { (s.constructIn index v) with cons := s.cons + 1 }

/-! #### arguments that alias an element of the vector itself

`v.push_back(v[j])`, `v.insert(pos, n, v[j])`, `v.emplace(pos, v[j])`: the argument is a
*reference* to cell `j`, and the code reads it only after `reserve` / the shifting loops have
run.  (`std::vector` is required to cope with this; `ReusableVector` is not written to — known
finding `oracle:contents:self-aliasing-argument`.) -/

/-- the value a reference to cell `j` denotes right now, and 1 if that cell holds no object -/
def readCell (s : RVec) (j : Nat) : Val × Nat :=
  match s.slots[j]? with
  | some (.live v) => (v, 0)
  | _ => (dflt, 1)

/-- `push_back(v[j])` / `emplace_back(v[j])` -/
def emplaceBackSelf (c : Cfg) (s : RVec) (j : Nat) : RVec :=
  let (v0, b0) := s.readCell j
  if s.size == s.cap then
    -- `reserve` has moved the element out of the old buffer and destroyed it before the
    -- argument is read: what is read is the moved-from residue of a destroyed object
    let t := s.emplaceBack c (c.mvC v0)
    { t with g := { t.g with bad := t.g.bad + b0 + 1 } }
  else
    let t := s.emplaceBack c v0
    { t with g := { t.g with bad := t.g.bad + b0 } }

/-- `insert(pos, n, v[j])` -/
def insertNSelf (c : Cfg) (s : RVec) (index n j : Nat) : RVec :=
  if n == 0 then s
  else
    let (v0, b0) := s.readCell j
    if s.size + n > s.cap then
      -- buffer replaced: every one of the `n` reads hits the destroyed, moved-from old element
      let t := s.insertN c index n (c.mvC v0)
      { t with g := { t.g with bad := t.g.bad + b0 + n } }
    else
      -- same buffer: the reference is read after `prepare_for_insert` has shifted the elements
      let (p, reconEnd) := s.prepareForInsert c index n
      let (v, b) := p.readCell j
      let t := consFrom (reconFrom c p index (List.replicate (reconEnd - index) v)) reconEnd
                 (List.replicate (index + n - reconEnd) v)
      -- destroy + construct of cell `j` from itself reads the object it has just destroyed
      let self := if c.rebuild && decide (index ≤ j) && decide (j < reconEnd) then 1 else 0
      { t with g := { t.g with bad := t.g.bad + b * n + self } }

/-- `emplace(pos, v[j])` / `insert(pos, v[j])`: the one-element case of the above -/
def emplaceSelf (c : Cfg) (s : RVec) (index j : Nat) : RVec := s.insertNSelf c index 1 j

/-- `erase(first, last)` (precondition `first ≤ last ≤ _size`) -/
def erase (c : Cfg) (s : RVec) (first last : Nat) : RVec :=
  if first == last then s
  else
    -- while (src != end()) *dest++ = std::move(*src++);
    let s := forUp (fun src s => s.moveAssign c (src - (last - first)) src) last (s.size - last) s
    { s with size := s.size - (last - first) }

/-- `resize(count)` (`v = dflt`) and `resize(count, value)` -/
def resize (c : Cfg) (s : RVec) (count : Nat) (v : Val) : RVec :=
  let s := s.reserve c count
  let s :=
    if s.size < count then
      let reconEnd := min s.cons count
      let s := forUp (fun i s => s.reconstruct c i v) s.size (reconEnd - s.size) s
      forUp (fun i s => { (s.constructIn i v) with cons := s.cons + 1 }) reconEnd (count - reconEnd) s
    else s
  { s with size := count }

/-- `assign(first, last)`, `operator=(const ReusableVector&)`, `operator=(initializer_list)` -/
def assignRange (c : Cfg) (s : RVec) (xs : List Val) : RVec :=
  let s := s.clear
  let s := s.reserve c xs.length
  xs.foldl (fun s x => s.emplaceBack c x) s

/-- `assign(count, value)` -/
def assignN (c : Cfg) (s : RVec) (count : Nat) (v : Val) : RVec :=
  s.assignRange c (List.replicate count v)

/-- `assign(count)` (the "reuse" overload): `clear(); resize(count);` -/
def assignCount (c : Cfg) (s : RVec) (count : Nat) : RVec :=
  s.clear.resize c count dflt

/-- `v[i] = value` through `operator[]` (precondition `i < _size`) -/
def setAt (s : RVec) (i : Nat) (v : Val) : RVec := s.assignOver i v

/-- `~ReusableVector()` for a non-trivially-destructible `T`; the buffer is then given up -/
def destruct (s : RVec) : RVec :=
  let s := forUp (fun i s => s.destroy i) 0 s.cons s
  { s with slots := [], size := 0, cons := 0, cap := 0, g := { s.g with leaked := s.g.leaked + liveCount s.slots } }

/-- `ReusableVector(count, value, allocator)` / `(count, allocator)` / `(first, last, allocator)`:
allocate exactly `n`, construct every cell -/
def ofList (xs : List Val) : RVec :=
  let s : RVec := { slots := List.replicate xs.length Slot.raw, size := xs.length, cons := xs.length,
                    cap := xs.length, g := { allocs := 1, allocElems := xs.length } }
  -- (no `++_constructed_size` here: the constructor sets all three counters up front)
  fillFrom s 0 xs

/-- the elements another object reads from this one (`begin()..end()`), and how many of the
cells it reads are not constructed objects (a lifetime violation of the reader) -/
def readAll (s : RVec) : List Val × Nat :=
  ((s.slots.take s.size).filterMap Slot.val?, s.size - liveCount (s.slots.take s.size))

/-- `AllocationMetadata` of a vector: the capacity to re-create (element metadata is opaque here) -/
abbrev Meta := Nat

/-- `update_allocation_metadata(meta)` -/
def updateMeta (s : RVec) (m : Meta) : Meta := max s.cons m

/-- `ReusableVector(const AllocationMetadata&, allocator)`: every cell is constructed up front,
`_size = 0` -/
def ofMeta (m : Meta) : RVec :=
  let s : RVec := { slots := List.replicate m Slot.raw, size := 0, cons := m, cap := m,
                    g := { allocs := 1, allocElems := m } }
  forUp (fun i s => s.constructIn i dflt) 0 m s

end RVec

/-! ### single-vector operation alphabet (what a caller can do to one vector) -/

inductive Op
  | pushBack (v : Val)
  | popBack
  | insertRange (i : Nat) (xs : List Val)
  | insertN (i n : Nat) (v : Val)
  | emplace (i : Nat) (v : Val)
  | erase (i j : Nat)
  | resize (n : Nat) (v : Val)
  | assignRange (xs : List Val)
  | assignN (n : Nat) (v : Val)
  | assignCount (n : Nat)
  | reserve (n : Nat)
  | clear
  | setAt (i : Nat) (v : Val)
  deriving Repr, DecidableEq

/-- precondition of the C++ call, in terms of the current `size()` only -/
def Op.pre (n : Nat) : Op → Bool
  | .popBack => 0 < n
  | .insertRange i _ => i ≤ n
  | .insertN i _ _ => i ≤ n
  | .emplace i _ => i ≤ n
  | .erase i j => i ≤ j && j ≤ n
  | .setAt i _ => i < n
  | _ => true

def RVec.apply (c : Cfg) (s : RVec) : Op → RVec
  | .pushBack v => s.emplaceBack c v
  | .popBack => s.popBack
  | .insertRange i xs => s.insertRange c i xs
  | .insertN i n v => s.insertN c i n v
  | .emplace i v => s.emplace c i v
  | .erase i j => s.erase c i j
  | .resize n v => s.resize c n v
  | .assignRange xs => s.assignRange c xs
  | .assignN n v => s.assignN c n v
  | .assignCount n => s.assignCount c n
  | .reserve n => s.reserve c n
  | .clear => s.clear
  | .setAt i v => s.setAt i v

/-- operations whose argument is a reference to an element of the vector itself -/
inductive AOp
  | pushBackSelf (j : Nat)
  | insertNSelf (i n j : Nat)
  | emplaceSelf (i j : Nat)
  deriving Repr, DecidableEq

def AOp.pre (n : Nat) : AOp → Bool
  | .pushBackSelf j => j < n
  | .insertNSelf i _ j => i ≤ n && j < n
  | .emplaceSelf i j => i ≤ n && j < n

def RVec.applyAlias (c : Cfg) (s : RVec) : AOp → RVec
  | .pushBackSelf j => s.emplaceBackSelf c j
  | .insertNSelf i n j => s.insertNSelf c i n j
  | .emplaceSelf i j => s.emplaceSelf c i j

/-- `std::vector` semantics: the argument denotes the element's value at the time of the call -/
def listApplyAlias (xs : List Val) : AOp → List Val
  | .pushBackSelf j => match xs[j]? with | some v => xs ++ [v] | none => xs
  | .insertNSelf i n j => match xs[j]? with | some v => xs.take i ++ List.replicate n v ++ xs.drop i | none => xs
  | .emplaceSelf i j => match xs[j]? with | some v => xs.take i ++ [v] ++ xs.drop i | none => xs

/-- a call whose precondition does not hold is not made (undefined behaviour in C++ for
`std::vector` as well); the harness answers `bad-op` -/
def RVec.step (c : Cfg) (s : RVec) (o : Op) : RVec :=
  if o.pre s.size then s.apply c o else s

/-- `std::vector` semantics of the same call on the abstract contents -/
def listApply (xs : List Val) : Op → List Val
  | .pushBack v => xs ++ [v]
  | .popBack => xs.dropLast
  | .insertRange i ys => xs.take i ++ ys ++ xs.drop i
  | .insertN i n v => xs.take i ++ List.replicate n v ++ xs.drop i
  | .emplace i v => xs.take i ++ [v] ++ xs.drop i
  | .erase i j => xs.take i ++ xs.drop j
  | .resize n v => xs.take n ++ List.replicate (n - xs.length) v
  | .assignRange ys => ys
  | .assignN n v => List.replicate n v
  | .assignCount n => List.replicate n dflt
  | .reserve _ => xs
  | .clear => []
  | .setAt i v => xs.set i v

def listStep (xs : List Val) (o : Op) : List Val :=
  if o.pre xs.length then listApply xs o else xs

/-! ### two vectors: swap / copy / move between objects with equal or different allocators -/

structure World where
  a : RVec := RVec.fresh
  b : RVec := RVec.fresh
  ra : Nat := 0           -- memory resource behind `a`'s allocator
  rb : Nat := 0
  retired : Ghost := {}   -- ghost counters of vector objects that have been destroyed
  deriving Repr, DecidableEq, Inhabited

inductive Reg | A | B
  deriving Repr, DecidableEq

def Reg.other : Reg → Reg
  | .A => .B
  | .B => .A

namespace World

def get (w : World) : Reg → RVec
  | .A => w.a
  | .B => w.b
def res (w : World) : Reg → Nat
  | .A => w.ra
  | .B => w.rb
def set (w : World) (r : Reg) (s : RVec) : World :=
  match r with
  | .A => { w with a := s }
  | .B => { w with b := s }
def setRes (w : World) (r : Reg) (k : Nat) : World :=
  match r with
  | .A => { w with ra := k }
  | .B => { w with rb := k }

/-- destroy the object in register `r` and put a newly constructed one (on resource `k`) there -/
def renew (w : World) (r : Reg) (k : Nat) (s : RVec) : World :=
  let old := (w.get r).destruct
  ({ w with retired := w.retired.add old.g }.set r s).setRes r k

/-- `swap(other)`: exchanges `_data`, `_capacity`, `_size`, `_constructed_size` only -/
def swapBufs (x y : RVec) : RVec × RVec :=
  ({ x with slots := y.slots, size := y.size, cons := y.cons, cap := y.cap },
   { y with slots := x.slots, size := x.size, cons := x.cons, cap := x.cap })

/-- `operator=(ReusableVector&&)` with different allocators:
`clear(); reserve(other.size()); for (auto& v : other) emplace_back(std::move(v));` -/
def moveElems (c : Cfg) (dst src : RVec) : RVec × RVec :=
  let dst := dst.clear
  let dst := dst.reserve c src.size
  forUp (fun i (p : RVec × RVec) =>
      let (b, g, v) := p.2.slots.moveOut p.2.g i c.mvX
      (p.1.emplaceBackWith c c.rebuildMove v, { p.2 with slots := b, g := g })) 0 src.size (dst, src)

inductive WOp
  | on (r : Reg) (o : Op)
  | new (r : Reg) (k : Nat)                    -- destroy, then `ReusableVector(allocator_k)`
  | newList (r : Reg) (k : Nat) (xs : List Val) -- `(count, value, a)`, `(count, a)`, `(first, last, a)`, `(init-list, a)`
  | swap                                       -- `a.swap(b)` (precondition: equal allocators)
  | copyAssign (dst : Reg)                     -- `dst = other`
  | moveAssign (dst : Reg)                     -- `dst = std::move(other)`
  | copyCtor (dst : Reg) (k : Nat)             -- destroy dst; `new (dst) ReusableVector(other, allocator_k)`
  | moveCtor (dst : Reg) (k : Nat)             -- destroy dst; `new (dst) ReusableVector(std::move(other), allocator_k)`
  deriving Repr, DecidableEq

def WOp.pre (w : World) : WOp → Bool
  | .on r o => o.pre (w.get r).size
  | .swap => w.ra == w.rb
  | _ => true

def apply (c : Cfg) (w : World) : WOp → World
  | .on r o => w.set r ((w.get r).apply c o)
  | .new r k => w.renew r k RVec.fresh
  | .newList r k xs => w.renew r k (RVec.ofList xs)
  | .swap =>
    let (x, y) := swapBufs w.a w.b
    { w with a := x, b := y }
  | .copyAssign dst =>
    -- `assign(other.begin(), other.end())`: reads the other vector's first `size` elements
    let (xs, nbad) := (w.get dst.other).readAll
    let d := (w.get dst).assignRange c xs
    w.set dst { d with g := { d.g with bad := d.g.bad + nbad } }
  | .moveAssign dst =>
    if w.res dst == w.res dst.other then
      let (x, y) := swapBufs (w.get dst) (w.get dst.other)
      (w.set dst x).set dst.other y
    else
      let (x, y) := moveElems c (w.get dst) (w.get dst.other)
      (w.set dst x).set dst.other y
  | .copyCtor dst k =>
    let (xs, nbad) := (w.get dst.other).readAll
    let d := RVec.ofList xs
    w.renew dst k { d with g := { d.g with bad := d.g.bad + nbad } }
  | .moveCtor dst k =>
    -- `ReusableVector(allocator_k)` then `*this = std::move(other)`
    let w := w.renew dst k RVec.fresh
    if k == w.res dst.other then
      let (x, y) := swapBufs (w.get dst) (w.get dst.other)
      (w.set dst x).set dst.other y
    else
      let (x, y) := moveElems c (w.get dst) (w.get dst.other)
      (w.set dst x).set dst.other y

def step (c : Cfg) (w : World) (o : WOp) : World :=
  if o.pre w then w.apply c o else w

/-- ghost totals over live and retired objects -/
def total (w : World) : Ghost := (w.retired.add w.a.g).add w.b.g

end World

/-! ### `ReusableManager` (manager.hpp) with vector-typed units -/

/-- `TypedReusableUnit<T>`: the unit object itself never moves (held by `unique_ptr`), an
accessor stores the address of its `_instance` field; `gen` numbers the instances it has had -/
structure MUnit where
  inst : RVec
  md : RVec.Meta := 0
  gen : Nat := 0
  deriving Repr, DecidableEq, Inhabited

structure Mgr where
  units : List MUnit := []
  clearTimes : Nat := 0
  interval : Nat := defaultRecreateInterval
  releases : Nat := 0      -- `_resource.release()` calls
  retired : Ghost := {}    -- ghost of instances destroyed by release
  deriving Repr, DecidableEq, Inhabited

namespace Mgr

/-- `create_object<T>(allocator-args)`; returns the accessor (= index of the unit) -/
def create (m : Mgr) (s : RVec) : Mgr × Nat :=
  ({ m with units := m.units ++ [{ inst := s }] }, m.units.length)

/-- `ReusableAccessor::get()`: `*_instance` re-read on every access -/
def get? (m : Mgr) (acc : Nat) : Option RVec := m.units[acc]?.map (·.inst)

/-- use the object behind an accessor -/
def on (c : Cfg) (m : Mgr) (acc : Nat) (o : Op) : Mgr :=
  match m.units[acc]? with
  | some u => { m with units := m.units.set acc { u with inst := u.inst.step c o } }
  | none => m

/-- `clear()` -/
def clear (m : Mgr) : Mgr :=
  if m.clearTimes + 1 ≥ m.interval then
    -- unit->update(); _resource.release() (runs the registered destructors); unit->recreate()
    let us := m.units.map (fun u => { u with md := u.inst.updateMeta u.md })
    let dead := us.foldl (fun g u => g.add u.inst.destruct.g) m.retired
    { m with clearTimes := 0, releases := m.releases + 1, retired := dead,
             units := us.map (fun u => { u with inst := RVec.ofMeta u.md, gen := u.gen + 1 }) }
  else
    -- unit->clear(): Reuse::reconstruct(*_instance, allocator) = `_instance->clear()`
    { m with clearTimes := m.clearTimes + 1, units := m.units.map (fun u => { u with inst := u.inst.clear }) }

inductive MOp
  | create
  | on (acc : Nat) (o : Op)
  | clear
  | setInterval (n : Nat)
  deriving Repr, DecidableEq

def step (c : Cfg) (m : Mgr) : MOp → Mgr
  | .create => (m.create RVec.fresh).1
  | .on acc o => m.on c acc o
  | .clear => m.clear
  | .setInterval n => { m with interval := n }

end Mgr

end Babylon.RVec
