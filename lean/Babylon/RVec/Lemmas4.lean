/-
  Helper lemmas, part 4: every operation of the alphabet (`step`), operation sequences,
  construction / destruction, workloads that fit.
-/
import Babylon.RVec.Lemmas3
import Babylon.Core.Reach

namespace Babylon.RVec
open Babylon.Gen.RVec Babylon.Core

/-- capacity an explicit request asks for -/
def Op.request : Op → Nat
  | .reserve k => k
  | _ => 0

/-- capacity the call makes sure of before it writes (`n` = current size) -/
def Op.need (n : Nat) : Op → Nat
  | .pushBack _ => n + 1
  | .insertRange _ ys => n + ys.length
  | .insertN _ k _ => n + k
  | .emplace _ _ => n + 1
  | .resize k _ => k
  | .assignRange ys => ys.length
  | .assignN k _ => k
  | .assignCount k => k
  | .reserve k => k
  | _ => 0

namespace RVec

theorem apply_spec (c : Cfg) {s : RVec} (h : Inv s) {xs : List Val} (x : Rep s xs) (o : Op)
    (hp : o.pre s.size = true) : OpSpec s (s.apply c o) (listApply xs o) (o.need s.size) := by
  cases o with
  | pushBack v => exact emplaceBackWith_spec c c.rebuild h x v
  | popBack => exact popBack_spec h x
  | insertRange i ys => exact insertRange_spec c h x (by simpa [Op.pre] using hp) ys
  | insertN i n v => exact insertN_spec c h x (by simpa [Op.pre] using hp) n v
  | emplace i v => exact emplace_spec c h x (by simpa [Op.pre] using hp) v
  | erase i j =>
    have : i ≤ j ∧ j ≤ s.size := by simpa [Op.pre] using hp
    exact erase_spec c h x this.1 this.2
  | resize n v => exact resize_spec c h x n v
  | assignRange ys => exact assignRange_spec c h ys
  | assignN n v => exact assignN_spec c h n v
  | assignCount n => exact assignCount_spec c h n
  | reserve n => exact reserve_opspec c h x n
  | clear => exact clear_spec h
  | setAt i v => exact setAt_spec h x (by simpa [Op.pre] using hp) v

theorem step_spec (c : Cfg) {s : RVec} (h : Inv s) {xs : List Val} (x : Rep s xs) (o : Op) :
    OpSpec s (s.step c o) (listStep xs o) (o.need s.size) := by
  have hl := x.len
  by_cases hp : o.pre s.size = true
  · simp only [step, listStep, hl, hp, if_true]
    exact apply_spec c h x o hp
  · simp only [step, listStep, hl, hp]
    exact OpSpec.refl h x _

/-- summary of a whole run -/
structure RunSpec (s t : RVec) (ys : List Val) : Prop where
  inv : Inv t
  rep : Rep t ys
  g : GStep s t
  cap_le : s.cap ≤ t.cap
  cons_le : s.cons ≤ t.cons

theorem run_spec (c : Cfg) : ∀ (ops : List Op) {s : RVec} (_ : Inv s) {xs : List Val} (_ : Rep s xs),
    RunSpec s (runOps (RVec.step c) s ops) (runOps listStep xs ops) := by
  intro ops
  induction ops with
  | nil => intro s h xs x; exact ⟨h, x, GStep.refl _, Nat.le_refl _, Nat.le_refl _⟩
  | cons o ops ih =>
    intro s h xs x
    have a := step_spec c h x o
    have b := ih a.inv a.rep
    exact ⟨b.inv, b.rep, a.g.trans b.g, Nat.le_trans a.c.cap_le b.cap_le, Nat.le_trans a.c.cons_le b.cons_le⟩

/-! ### workloads that fit in the capacity already held -/

/-- every size the workload reaches and every explicit reserve request is within `cap` -/
def Fits (cap : Nat) : List Val → List Op → Prop
  | _, [] => True
  | xs, o :: os => (listStep xs o).length ≤ cap ∧ o.request ≤ cap ∧ Fits cap (listStep xs o) os

theorem need_le (xs : List Val) (o : Op) (hp : o.pre xs.length = true) {cap : Nat}
    (h1 : (listApply xs o).length ≤ cap) (h2 : o.request ≤ cap) : o.need xs.length ≤ cap := by
  cases o <;> simp [Op.need, Op.request, listApply, Op.pre] at * <;> omega

theorem fits_noalloc (c : Cfg) : ∀ (ops : List Op) {s : RVec} (_ : Inv s) {xs : List Val} (_ : Rep s xs),
    Fits s.cap xs ops →
    (runOps (RVec.step c) s ops).cap = s.cap ∧ (runOps (RVec.step c) s ops).g.allocs = s.g.allocs ∧
      (runOps (RVec.step c) s ops).g.allocElems = s.g.allocElems := by
  intro ops
  induction ops with
  | nil => intro s h xs x _; exact ⟨rfl, rfl, rfl⟩
  | cons o ops ih =>
    intro s h xs x hf
    obtain ⟨f1, f2, f3⟩ := hf
    have hl := x.len
    by_cases hp : o.pre s.size = true
    · have a := apply_spec c h x o hp
      have hst : s.step c o = s.apply c o := by simp [step, hp]
      have hls : listStep xs o = listApply xs o := by simp [listStep, hl, hp]
      rw [hls] at f1 f3
      have hn := need_le xs o (by rw [hl]; exact hp) f1 f2
      rw [hl] at hn
      have hfit := a.c.fit hn
      have := ih a.inv a.rep (by rw [hfit.1]; exact f3)
      simp only [runOps, hst]
      rw [this.1, this.2.1, this.2.2]
      exact hfit
    · have hst : s.step c o = s := by simp [step, hp]
      have hls : listStep xs o = xs := by simp [listStep, hl, hp]
      rw [hls] at f3
      simp only [runOps, hst]
      exact ih h x f3

/-! ### destruction -/

/-- state of the destructor loop after `j` cells -/
structure DestrInv (s : RVec) (j : Nat) (t : RVec) : Prop where
  len : t.slots.length = s.slots.length
  cons : t.cons = s.cons
  cell : ∀ k, t.slots[k]? = if k < j then (if k < s.cap then some Slot.raw else none) else s.slots[k]?
  bad : t.g.bad = s.g.bad
  leaked : t.g.leaked = s.g.leaked
  ctor : t.g.ctor = s.g.ctor
  dtor : t.g.dtor = s.g.dtor + j
  allocs : t.g.allocs = s.g.allocs
  allocElems : t.g.allocElems = s.g.allocElems

theorem destruct_loop {s : RVec} (h : Inv s) :
    DestrInv s s.cons (forUp (fun i s => s.destroy i) 0 s.cons s) := by
  have hcl := h.cons_le
  have hlen := h.len
  have := forUp_ind (fun i s => s.destroy i) (fun j t => j ≤ s.cons → DestrInv s j t) s.cons 0 s
    (by intro _; exact ⟨rfl, rfl, by intro k; simp, rfl, rfl, rfl, rfl, rfl, rfl⟩)
    (by
      intro i t _ hi hp hle
      have e := hp (by omega)
      obtain ⟨w, hw⟩ := h.live i (by omega)
      have hti : t.slots[i]? = some (Slot.live w) := by rw [e.cell i]; simp [hw]
      have hil : i < t.slots.length := getElem?_lt_of_eq_some hti
      rw [destroy_live hti]
      refine ⟨by simpa using e.len, e.cons, ?_, e.bad, e.leaked, e.ctor, by have := e.dtor; simp; omega, e.allocs, e.allocElems⟩
      intro k
      simp only [List.getElem?_set]
      by_cases a : i = k
      · subst a; simp [hil]; omega
      · simp only [a, if_false]
        rw [e.cell k]
        by_cases b : k < i
        · simp [b, show k < i + 1 by omega]
        · simp [b, show ¬ k < i + 1 by omega])
  simpa using this (by omega)

/-- when the vector is destroyed every constructed element is destroyed exactly once:
afterwards constructions and destructions balance, with no violation and nothing leaked -/
theorem destruct_spec {s : RVec} (h : Inv s) (g : GInv s) :
    s.destruct.g.bad = 0 ∧ s.destruct.g.leaked = 0 ∧ s.destruct.g.ctor = s.destruct.g.dtor ∧
      s.destruct.g.dtor = s.g.dtor + s.cons ∧ s.destruct.g.allocs = s.g.allocs ∧
      s.destruct.g.allocElems = s.g.allocElems ∧ Inv s.destruct ∧ Rep s.destruct [] := by
  have e := destruct_loop h
  generalize ht : forUp (fun i s => s.destroy i) 0 s.cons s = t at e
  have hlc : liveCount t.slots = 0 := by
    apply liveCount_eq_zero
    intro k hk
    rw [e.cell k]
    rw [e.len, h.len] at hk
    by_cases a : k < s.cons
    · simp [a, hk]
    · simp only [a, if_false]; exact h.raw k (by omega) hk
  have hd : s.destruct = { t with slots := [], size := 0, cons := 0, cap := 0,
                                  g := { t.g with leaked := t.g.leaked + liveCount t.slots } } := by
    simp only [destruct, ht]
  rw [hd, hlc]
  refine ⟨by simp [e.bad, g.bad], by simp [e.leaked, g.leaked], by simp [e.ctor, e.dtor, g.bal],
    by simp [e.dtor], by simp [e.allocs], by simp [e.allocElems], ?_, ?_⟩
  · constructor <;> simp
  · constructor <;> simp

/-- the same without assuming anything about the ghost counters -/
theorem destruct_eff {s : RVec} (h : Inv s) :
    s.destruct.g.bad = s.g.bad ∧ s.destruct.g.leaked = s.g.leaked ∧ s.destruct.g.ctor = s.g.ctor ∧
      s.destruct.g.dtor = s.g.dtor + s.cons ∧ s.destruct.g.allocs = s.g.allocs ∧
      s.destruct.g.allocElems = s.g.allocElems := by
  have e := destruct_loop h
  generalize ht : forUp (fun i s => s.destroy i) 0 s.cons s = t at e
  have hlc : liveCount t.slots = 0 := by
    apply liveCount_eq_zero
    intro k hk
    rw [e.cell k]
    rw [e.len, h.len] at hk
    by_cases a : k < s.cons
    · simp [a, hk]
    · simp only [a, if_false]; exact h.raw k (by omega) hk
  have hd : s.destruct = { t with slots := [], size := 0, cons := 0, cap := 0,
                                  g := { t.g with leaked := t.g.leaked + liveCount t.slots } } := by
    simp only [destruct, ht]
  rw [hd, hlc]
  exact ⟨by simp [e.bad], by simp [e.leaked], by simp [e.ctor], by simp [e.dtor], by simp [e.allocs], by simp [e.allocElems]⟩

/-! ### constructors -/

theorem fillFrom_eq_consFrom : ∀ (xs : List Val) (s : RVec) (i k : Nat),
    fillFrom { s with cons := k } i xs = { (consFrom s i xs) with cons := k } := by
  intro xs
  induction xs with
  | nil => intro s i k; simp [fillFrom, consFrom]
  | cons x xs ih =>
    intro s i k
    simp only [fillFrom, consFrom]
    have : ({ s with cons := k } : RVec).constructIn i x = { (s.constructIn i x) with cons := k } := by
      simp only [constructIn]
    rw [this]
    have := ih { (s.constructIn i x) with cons := s.cons + 1 } (i + 1) k
    simpa using this

theorem ofList_spec (xs : List Val) :
    Inv (ofList xs) ∧ Rep (ofList xs) xs ∧ GInv (ofList xs) ∧ (ofList xs).cap = xs.length ∧
      (ofList xs).cons = xs.length ∧ (ofList xs).g.allocs = 1 ∧ (ofList xs).g.allocElems = xs.length := by
  have f := consFrom_spec xs
    { slots := List.replicate xs.length Slot.raw, size := xs.length, cons := 0, cap := xs.length,
      g := { allocs := 1, allocElems := xs.length } } 0
    (by intro k _ hk; simp at hk; simp [List.getElem?_replicate, hk])
  have he : ofList xs = { (consFrom
      { slots := List.replicate xs.length Slot.raw, size := xs.length, cons := 0, cap := xs.length,
        g := { allocs := 1, allocElems := xs.length } } 0 xs) with cons := xs.length } := by
    simp only [ofList]
    exact fillFrom_eq_consFrom xs
      { slots := List.replicate xs.length Slot.raw, size := xs.length, cons := 0, cap := xs.length,
        g := { allocs := 1, allocElems := xs.length } } 0 xs.length
  rw [he]
  generalize consFrom _ 0 xs = t at f
  dsimp only
  have hcell : ∀ k : Nat, t.slots[k]? = (xs[k]?).map Slot.live := by
    intro k
    rw [f.cell k]
    by_cases a : k < xs.length
    · simp [a]
    · simp [a, List.getElem?_replicate, List.getElem?_eq_none (show xs.length ≤ k by omega)]
  refine ⟨?_, ?_, ?_, by simp [f.cap], rfl, by simp [f.allocs], by simp [f.allocElems]⟩
  · constructor
    · simp [f.size]
    · simp [f.cap]
    · simp [f.len, f.cap]
    · intro k hk
      simp at hk
      exact ⟨xs[k], by simp [hcell k, List.getElem?_eq_getElem hk]⟩
    · intro k hk hk2
      simp [f.cap] at hk hk2
      omega
  · exact ⟨by simp [f.size], by intro k _; simp [hcell k]⟩
  · refine ⟨by simp [f.bad], by simp [f.leaked], ?_⟩
    have := f.bal
    simp at this ⊢
    omega

theorem forUp_fill_eq (v : Val) : ∀ (n lo : Nat) (s : RVec),
    forUp (fun i s => s.constructIn i v) lo n s = fillFrom s lo (List.replicate n v) := by
  intro n
  induction n with
  | zero => intro lo s; simp [forUp, fillFrom]
  | succ n ih => intro lo s; simp [forUp, fillFrom, List.replicate_succ, ih]

theorem ofMeta_spec (m : Meta) :
    Inv (ofMeta m) ∧ Rep (ofMeta m) [] ∧ GInv (ofMeta m) ∧ (ofMeta m).cap = m ∧ (ofMeta m).cons = m ∧
      (ofMeta m).size = 0 ∧ (ofMeta m).g.allocs = 1 ∧ (ofMeta m).g.allocElems = m := by
  have f := consFrom_spec (List.replicate m dflt)
    { slots := List.replicate m Slot.raw, size := 0, cons := 0, cap := m, g := { allocs := 1, allocElems := m } } 0
    (by intro k _ hk; simp at hk; simp [List.getElem?_replicate, hk])
  have he : ofMeta m = { (consFrom
      { slots := List.replicate m Slot.raw, size := 0, cons := 0, cap := m, g := { allocs := 1, allocElems := m } }
        0 (List.replicate m dflt)) with cons := m } := by
    simp only [ofMeta, forUp_fill_eq]
    exact fillFrom_eq_consFrom (List.replicate m dflt)
      { slots := List.replicate m Slot.raw, size := 0, cons := 0, cap := m, g := { allocs := 1, allocElems := m } } 0 m
  rw [he]
  generalize consFrom _ 0 (List.replicate m dflt) = t at f
  dsimp only
  refine ⟨?_, ?_, ?_, by simp [f.cap], rfl, by simp [f.size], by simp [f.allocs], by simp [f.allocElems]⟩
  · constructor
    · simp [f.size]
    · simp [f.cap]
    · simp [f.len, f.cap]
    · intro k hk
      simp at hk
      exact ⟨dflt, by rw [f.cell k]; simp [hk, List.getElem?_replicate]⟩
    · intro k hk hk2
      simp [f.cap] at hk hk2
      omega
  · exact ⟨by simp [f.size], by intro k hk; simp [f.size] at hk⟩
  · refine ⟨by simp [f.bad], by simp [f.leaked], ?_⟩
    have := f.bal
    simp at this ⊢
    omega

end RVec
end Babylon.RVec
