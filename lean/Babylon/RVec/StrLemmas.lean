/-
  Helper lemmas for the reusable-string model (Babylon/RVec/Str.lean).
-/
import Babylon.RVec.Str
import Babylon.Core.Reach

namespace Babylon.RVec
open Babylon.Gen.RVec Babylon.Core
namespace RStr

theorem ssoCap_eq : ssoCap = 15 := by decide

theorem newCap_ge (req old : Nat) : req ≤ newCap req old := by
  unfold newCap; split <;> omega

theorem grow_chars (s : RStr) (n : Nat) : (s.grow n).chars = s.chars := by
  unfold grow; split <;> rfl

theorem grow_cap_ge (s : RStr) (n : Nat) : s.cap ≤ (s.grow n).cap ∧ n ≤ (s.grow n).cap := by
  unfold grow
  split
  · exact ⟨Nat.le_refl _, by assumption⟩
  · have := newCap_ge n s.cap
    simp; omega

theorem grow_fit (s : RStr) (n : Nat) (h : n ≤ s.cap) : s.grow n = s := by
  simp [grow, h]

theorem step_chars (s : RStr) (o : SOp) : (s.step o).chars = listStep s.chars o := by
  cases o <;> simp [step, listStep, assign, append, clear, stableReserve, grow_chars]

theorem step_cap_le (s : RStr) (o : SOp) : s.cap ≤ (s.step o).cap := by
  cases o <;> simp [step, assign, append, clear, stableReserve] <;> exact (grow_cap_ge _ _).1

/-- `size() ≤ capacity()` -/
def Ok (s : RStr) : Prop := s.chars.length ≤ s.cap

theorem ok_fresh : Ok fresh := by simp [Ok, fresh]

theorem step_ok (s : RStr) (o : SOp) (h : Ok s) : Ok (s.step o) := by
  cases o with
  | assign xs => simp [Ok, step, assign]; exact (grow_cap_ge _ _).2
  | append xs => simp [Ok, step, append]; exact (grow_cap_ge _ _).2
  | clear => simp [Ok, step, clear]
  | reserve n => simp [Ok, step, stableReserve, grow_chars]; exact Nat.le_trans h (grow_cap_ge _ _).1

theorem run_chars : ∀ (ops : List SOp) (s : RStr), (runOps step s ops).chars = runOps listStep s.chars ops := by
  intro ops
  induction ops with
  | nil => intro s; rfl
  | cons o ops ih => intro s; simp only [runOps]; rw [ih, step_chars]

theorem run_cap_le : ∀ (ops : List SOp) (s : RStr), s.cap ≤ (runOps step s ops).cap := by
  intro ops
  induction ops with
  | nil => intro s; exact Nat.le_refl _
  | cons o ops ih => intro s; exact Nat.le_trans (step_cap_le s o) (ih _)

/-- a workload whose sizes and reserve requests stay within the capacity allocates nothing -/
theorem run_noalloc : ∀ (ops : List SOp) (s : RStr), Ok s → peak s.chars ops ≤ s.cap → maxReserve ops ≤ s.cap →
    (runOps step s ops).allocs = s.allocs ∧ (runOps step s ops).allocBytes = s.allocBytes ∧
      (runOps step s ops).cap = s.cap := by
  intro ops
  induction ops with
  | nil => intro s _ _ _; exact ⟨rfl, rfl, rfl⟩
  | cons o ops ih =>
    intro s hk hp hr
    simp only [peak] at hp
    have hp2 : peak (listStep s.chars o) ops ≤ s.cap := by omega
    have hlen : (listStep s.chars o).length ≤ s.cap := by
      have : (listStep s.chars o).length ≤ peak (listStep s.chars o) ops := by
        cases ops <;> simp [peak]; omega
      omega
    have hstep : (s.step o).allocs = s.allocs ∧ (s.step o).allocBytes = s.allocBytes ∧ (s.step o).cap = s.cap := by
      cases o with
      | assign xs =>
        simp only [listStep] at hlen
        simp [step, assign, grow_fit s xs.length hlen]
      | append xs =>
        simp only [listStep, List.length_append] at hlen
        simp [step, append, grow_fit s _ hlen]
      | clear => simp [step, clear]
      | reserve n =>
        simp only [maxReserve] at hr
        simp [step, stableReserve, grow_fit s n (by omega)]
    have hr2 : maxReserve ops ≤ s.cap := by
      cases o <;> simp only [maxReserve] at hr <;> omega
    have := ih (s.step o) (step_ok s o hk) (by rw [step_chars, hstep.2.2]; exact hp2) (by rw [hstep.2.2]; exact hr2)
    simp only [runOps]
    rw [this.1, this.2.1, this.2.2]
    exact hstep

theorem ofMeta_cap_ge (m : Meta) : m ≤ (ofMeta m).cap ∧ ssoCap ≤ (ofMeta m).cap := by
  have := grow_cap_ge fresh m
  simp only [ofMeta, stableReserve]
  exact ⟨this.2, by simpa [fresh] using this.1⟩

/-- capacity → metadata → re-created capacity is a fixed point after one step -/
theorem ofMeta_stable (m : Meta) : (ofMeta (ofMeta m).cap).cap = (ofMeta m).cap := by
  have h15 := ssoCap_eq
  simp only [ofMeta, stableReserve, grow, fresh, newCap, h15]
  by_cases a : m ≤ 15
  · simp [a]
  · simp only [a, if_false]
    by_cases b : m > 15 ∧ m < 2 * 15
    · simp [b]
    · simp only [b, if_false]
      have : ¬ m ≤ 15 := a
      simp [this]

end RStr
end Babylon.RVec
