/-
  Helper lemmas, part 6: `ReusableManager` — accessors, clear / recreate cadence, convergence.
-/
import Babylon.RVec.Lemmas5

namespace Babylon.RVec
open Babylon.Gen.RVec Babylon.Core
namespace RVec

theorem exists_rep {s : RVec} (h : Inv s) : ∃ xs, Rep s xs := by
  refine ⟨(List.range s.size).map (fun k => match s.slots[k]? with | some (Slot.live v) => v | _ => 0), by simp, ?_⟩
  intro k hk
  obtain ⟨v, hv⟩ := h.live k (by have := h.size_le; omega)
  simp [hk, hv]

theorem step_inv_ginv (c : Cfg) {s : RVec} (h : Inv s) (g : GInv s) (o : Op) :
    Inv (s.step c o) ∧ GInv (s.step c o) := by
  obtain ⟨xs, x⟩ := exists_rep h
  have a := step_spec c h x o
  exact ⟨a.inv, a.g.ginv g⟩

/-- largest size a workload reaches on the abstract vector -/
def peak : List Val → List Op → Nat
  | xs, [] => xs.length
  | xs, o :: os => max xs.length (peak (listStep xs o) os)

/-- every size the workload reaches is covered by the constructed cells at its end -/
theorem peak_le_cons (c : Cfg) : ∀ (ops : List Op) {s : RVec} (_ : Inv s) {xs : List Val} (_ : Rep s xs),
    peak xs ops ≤ (runOps (RVec.step c) s ops).cons := by
  intro ops
  induction ops with
  | nil => intro s h xs x; simp [peak, runOps, x.len]; exact h.size_le
  | cons o ops ih =>
    intro s h xs x
    have a := step_spec c h x o
    have b := ih a.inv a.rep
    have r := run_spec c ops a.inv a.rep
    simp only [peak, runOps]
    have := x.len; have := h.size_le; have := a.c.cons_le; have := r.cons_le
    omega

end RVec

namespace Mgr
open RVec

/-- every unit holds a well-formed instance with sound lifetime counters, and so do the
instances already destroyed by `release()` -/
structure MInv (m : Mgr) : Prop where
  units : ∀ u, u ∈ m.units → Inv u.inst ∧ GInv u.inst
  rbad : m.retired.bad = 0
  rleaked : m.retired.leaked = 0
  rbal : m.retired.ctor = m.retired.dtor

theorem minv_init (k : Nat) : MInv { interval := k } :=
  ⟨by intro u hu; simp at hu, rfl, rfl, rfl⟩

theorem retire_ok : ∀ (us : List MUnit) (g : Ghost), (∀ u, u ∈ us → Inv u.inst ∧ GInv u.inst) →
    g.bad = 0 → g.leaked = 0 → g.ctor = g.dtor →
    (us.foldl (fun g u => g.add u.inst.destruct.g) g).bad = 0 ∧
    (us.foldl (fun g u => g.add u.inst.destruct.g) g).leaked = 0 ∧
    (us.foldl (fun g u => g.add u.inst.destruct.g) g).ctor = (us.foldl (fun g u => g.add u.inst.destruct.g) g).dtor := by
  intro us
  induction us with
  | nil => intro g _ h1 h2 h3; exact ⟨h1, h2, h3⟩
  | cons u us ih =>
    intro g hu h1 h2 h3
    have hu0 := hu u (by simp)
    have d := destruct_spec hu0.1 hu0.2
    simp only [List.foldl_cons]
    apply ih
    · intro v hv; exact hu v (by simp [hv])
    · simp [h1, d.1]
    · simp [h2, d.2.1]
    · simp [h3, d.2.2.1]

theorem clear_minv {m : Mgr} (h : MInv m) : MInv m.clear := by
  by_cases e : m.clearTimes + 1 ≥ m.interval
  · unfold clear
    rw [if_pos e]
    have hr := retire_ok (m.units.map (fun u => { u with md := u.inst.updateMeta u.md })) m.retired
      (by
        intro u hu
        simp only [List.mem_map] at hu
        obtain ⟨v, hv, rfl⟩ := hu
        exact h.units v hv) h.rbad h.rleaked h.rbal
    refine ⟨?_, hr.1, hr.2.1, hr.2.2⟩
    intro u hu
    simp only [List.mem_map] at hu
    obtain ⟨v, _, rfl⟩ := hu
    have := ofMeta_spec v.md
    exact ⟨this.1, this.2.2.1⟩
  · unfold clear
    rw [if_neg e]
    refine ⟨?_, h.rbad, h.rleaked, h.rbal⟩
    intro u hu
    simp only [List.mem_map] at hu
    obtain ⟨v, hv, rfl⟩ := hu
    have hv0 := h.units v hv
    have a := clear_spec hv0.1
    exact ⟨a.inv, a.g.ginv hv0.2⟩

theorem on_minv (c : Cfg) {m : Mgr} (h : MInv m) (acc : Nat) (o : Op) : MInv (m.on c acc o) := by
  unfold on
  cases hu : m.units[acc]? with
  | none => exact h
  | some u =>
    simp only
    refine ⟨?_, h.rbad, h.rleaked, h.rbal⟩
    intro v hv
    have hmem := List.mem_or_eq_of_mem_set hv
    cases hmem with
    | inl hin => exact h.units v hin
    | inr heq =>
      subst heq
      have hu0 := h.units u (List.mem_of_getElem? hu)
      exact step_inv_ginv c hu0.1 hu0.2 o

theorem step_minv (c : Cfg) {m : Mgr} (h : MInv m) (o : MOp) : MInv (m.step c o) := by
  cases o with
  | create =>
    simp only [step, create]
    refine ⟨?_, h.rbad, h.rleaked, h.rbal⟩
    intro u hu
    simp only [List.mem_append, List.mem_singleton] at hu
    cases hu with
    | inl hin => exact h.units u hin
    | inr heq => subst heq; exact ⟨inv_fresh, ginv_fresh⟩
  | on acc o => exact on_minv c h acc o
  | clear => exact clear_minv h
  | setInterval n => exact ⟨h.units, h.rbad, h.rleaked, h.rbal⟩

theorem run_minv (c : Cfg) : ∀ (ops : List MOp) {m : Mgr}, MInv m → MInv (runOps (Mgr.step c) m ops) := by
  intro ops
  induction ops with
  | nil => intro m h; exact h
  | cons o ops ih => intro m h; exact ih (step_minv c h o)

/-! ### accessors -/

theorem clear_length (m : Mgr) : m.clear.units.length = m.units.length := by
  unfold clear
  split <;> simp

theorem on_length (c : Cfg) (m : Mgr) (acc : Nat) (o : Op) : (m.on c acc o).units.length = m.units.length := by
  unfold on
  split <;> simp

theorem step_length_le (c : Cfg) (m : Mgr) (o : MOp) : m.units.length ≤ (m.step c o).units.length := by
  cases o with
  | create => simp [step, create]
  | on acc o => simp [step, on_length]
  | clear => simp [step, clear_length]
  | setInterval n => simp [step]

theorem run_length_le (c : Cfg) : ∀ (ops : List MOp) (m : Mgr), m.units.length ≤ (runOps (Mgr.step c) m ops).units.length := by
  intro ops
  induction ops with
  | nil => intro m; exact Nat.le_refl _
  | cons o ops ih => intro m; exact Nat.le_trans (step_length_le c m o) (ih _)

/-! ### one unit through workload and clear -/

/-- the unit behind `acc` after `clear()` -/
theorem clear_unit {m : Mgr} {acc : Nat} {u : MUnit} (hu : m.units[acc]? = some u) :
    m.clear.units[acc]? = some
      (if m.clearTimes + 1 ≥ m.interval then
        { u with md := u.inst.updateMeta u.md, inst := RVec.ofMeta (u.inst.updateMeta u.md), gen := u.gen + 1 }
       else { u with inst := u.inst.clear }) := by
  unfold clear
  split <;> simp [List.getElem?_map, hu]

/-- running single-vector operations through an accessor acts on that unit's instance only -/
theorem runOn_unit (c : Cfg) : ∀ (ops : List Op) {m : Mgr} {acc : Nat} {u : MUnit}, m.units[acc]? = some u →
    (runOps (fun m o => m.on c acc o) m ops).units[acc]? =
      some { u with inst := runOps (RVec.step c) u.inst ops } ∧
    (runOps (fun m o => m.on c acc o) m ops).clearTimes = m.clearTimes ∧
    (runOps (fun m o => m.on c acc o) m ops).interval = m.interval := by
  intro ops
  induction ops with
  | nil => intro m acc u hu; exact ⟨by simpa [runOps] using hu, rfl, rfl⟩
  | cons o ops ih =>
    intro m acc u hu
    obtain ⟨hlt, hget⟩ := List.getElem?_eq_some_iff.mp hu
    have h1 : (m.on c acc o).units[acc]? = some { u with inst := u.inst.step c o } := by
      simp [on, hu, hlt, hget]
    have h2 : (m.on c acc o).clearTimes = m.clearTimes ∧ (m.on c acc o).interval = m.interval := by
      simp [on, hu]
    have := ih h1
    simp only [runOps]
    exact ⟨by simpa using this.1, by rw [this.2.1, h2.1], by rw [this.2.2, h2.2]⟩


/-! ### convergence -/

/-- one business cycle on the unit behind `acc`: the workload through the accessor, then the
manager's `clear()` (which logically clears or, every `interval`-th time, re-creates) -/
def round (c : Cfg) (acc : Nat) (W : List Op) (m : Mgr) : Mgr :=
  (runOps (fun m o => m.on c acc o) m W).clear

/-- the unit behind `acc` is logically empty, all of its capacity is constructed and recorded
in its metadata, and the workload `W` fits in it -/
def Converged (m : Mgr) (acc : Nat) (W : List Op) : Prop :=
  ∃ u, m.units[acc]? = some u ∧ Inv u.inst ∧ Rep u.inst [] ∧ u.inst.cap = u.md ∧ u.inst.cons = u.md ∧
    Fits u.md [] W

theorem converged_round (c : Cfg) {m : Mgr} {acc : Nat} {W : List Op} (h : Converged m acc W) :
    ∃ u u1 u2, m.units[acc]? = some u ∧
      (runOps (fun m o => m.on c acc o) m W).units[acc]? = some u1 ∧
      u1.inst.g.allocs = u.inst.g.allocs ∧ u1.inst.g.allocElems = u.inst.g.allocElems ∧
      u1.inst.cap = u.inst.cap ∧ u1.md = u.md ∧
      (round c acc W m).units[acc]? = some u2 ∧ u2.md = u.md ∧
      (u2.inst = RVec.ofMeta u.md ∨ u2.inst = u1.inst.clear) ∧
      Converged (round c acc W m) acc W := by
  obtain ⟨u, hu, hi, hx, hcap, hcons, hf⟩ := h
  have hw := runOn_unit c W hu
  have hfit := fits_noalloc c W hi hx (by rw [hcap]; exact hf)
  have hr := run_spec c W hi hx
  generalize hi1 : runOps (RVec.step c) u.inst W = inst1 at hw hfit hr
  have hcons1 : inst1.cons = u.md := by
    have := hr.cons_le; have := hr.inv.cons_le; have := hfit.1
    omega
  have hcl := clear_unit (m := runOps (fun m o => m.on c acc o) m W) hw.1
  refine ⟨u, { u with inst := inst1 }, _, hu, hw.1, hfit.2.1, hfit.2.2, hfit.1, rfl, hcl, ?_, ?_, ?_⟩
  · split
    · simp [RVec.updateMeta, hcons1]
    · rfl
  · split
    · left; simp [RVec.updateMeta, hcons1]
    · right; rfl
  · refine ⟨_, hcl, ?_⟩
    split
    · have om := ofMeta_spec u.md
      simp only [RVec.updateMeta, hcons1, Nat.max_self]
      exact ⟨om.1, om.2.1, om.2.2.2.1, om.2.2.2.2.1, hf⟩
    · have a := clear_spec hr.inv
      exact ⟨a.inv, a.rep, by simp [RVec.clear, hfit.1, hcap], by simp [RVec.clear, hcons1], hf⟩

/-- iterate the cycle -/
def rounds (c : Cfg) (acc : Nat) (W : List Op) : Nat → Mgr → Mgr
  | 0, m => m
  | n + 1, m => rounds c acc W n (round c acc W m)

theorem converged_rounds (c : Cfg) {acc : Nat} {W : List Op} : ∀ (n : Nat) {m : Mgr}, Converged m acc W →
    Converged (rounds c acc W n m) acc W := by
  intro n
  induction n with
  | zero => intro m h; exact h
  | succ n ih =>
    intro m h
    obtain ⟨_, _, _, _, _, _, _, _, _, _, _, _, hc⟩ := converged_round c h
    exact ih hc

end Mgr
end Babylon.RVec
