/-
  Helper lemmas, part 3: the shifting loops — `erase`, `prepare_for_insert`, `insert`, `emplace`.
-/
import Babylon.RVec.Lemmas2

namespace Babylon.RVec
open Babylon.Gen.RVec
namespace RVec

/-! ### one move between two cells of the buffer -/

theorem moveAssign_live (c : Cfg) {s : RVec} {dst src : Nat} {old x : Val} (hne : dst ≠ src)
    (hd : s.slots[dst]? = some (Slot.live old)) (hs : s.slots[src]? = some (Slot.live x)) :
    s.moveAssign c dst src =
      { s with slots := (s.slots.set src (Slot.live (c.mvA x old))).set dst (Slot.live x),
               g := { s.g with asg := s.g.asg + 1 } } := by
  have h2 : (s.slots.set src (Slot.live (c.mvA x old)))[dst]? = some (Slot.live old) := by
    simp [List.getElem?_set, Ne.symm hne, hd]
  simp only [moveAssign, hd, hne, if_false, Buf.moveOut_live hs]
  exact assignOver_live (s := { s with slots := s.slots.set src (Slot.live (c.mvA x old)) }) h2

theorem moveConstruct_live (c : Cfg) {s : RVec} {dst src : Nat} {x : Val}
    (hd : s.slots[dst]? = some Slot.raw) (hs : s.slots[src]? = some (Slot.live x)) :
    s.moveConstruct c dst src =
      { s with slots := (s.slots.set src (Slot.live (c.mvC x))).set dst (Slot.live x),
               g := { s.g with ctor := s.g.ctor + 1 } } := by
  have hne : src ≠ dst := by intro e; rw [e, hd] at hs; simp at hs
  have h2 : (s.slots.set src (Slot.live (c.mvC x)))[dst]? = some Slot.raw := by
    simp [List.getElem?_set, hne, hd]
  simp only [moveConstruct, Buf.moveOut_live hs]
  exact constructIn_raw (s := { s with slots := s.slots.set src (Slot.live (c.mvC x)) }) h2

/-- ghost fields a pure assignment loop leaves alone -/
structure GSame (s t : RVec) : Prop where
  bad : t.g.bad = s.g.bad
  leaked : t.g.leaked = s.g.leaked
  allocs : t.g.allocs = s.g.allocs
  allocElems : t.g.allocElems = s.g.allocElems
  ctor : t.g.ctor = s.g.ctor
  dtor : t.g.dtor = s.g.dtor

theorem GSame.refl (s : RVec) : GSame s s := ⟨rfl, rfl, rfl, rfl, rfl, rfl⟩

/-! ### `erase` -/

/-- state of the `erase` loop when `src` has reached `j` -/
structure EraseInv (s : RVec) (first last j : Nat) (t : RVec) : Prop where
  size : t.size = s.size
  cons : t.cons = s.cons
  cap : t.cap = s.cap
  len : t.slots.length = s.slots.length
  gs : GSame s t
  live : ∀ k, k < s.cons → ∃ w, t.slots[k]? = some (Slot.live w)
  moved : ∀ k, first ≤ k → k + (last - first) < j → t.slots[k]? = s.slots[k + (last - first)]?
  same : ∀ k, (k < first ∨ j ≤ k) → t.slots[k]? = s.slots[k]?

theorem erase_step (c : Cfg) {s : RVec} (h : Inv s) {first last j : Nat} (hfl : first < last) (hj1 : last ≤ j)
    (hj2 : j < s.size) {t : RVec} (e : EraseInv s first last j t) :
    EraseInv s first last (j + 1) (t.moveAssign c (j - (last - first)) j) := by
  have hsl := h.size_le
  obtain ⟨x, hx⟩ := h.live j (by omega)
  have hsrc : t.slots[j]? = some (Slot.live x) := by rw [e.same j (Or.inr (Nat.le_refl _)), hx]
  obtain ⟨old, hold⟩ := e.live (j - (last - first)) (by omega)
  have hne : j - (last - first) ≠ j := by omega
  rw [moveAssign_live c hne hold hsrc]
  have hjl : j < t.slots.length := getElem?_lt_of_eq_some hsrc
  have hdl : j - (last - first) < t.slots.length := getElem?_lt_of_eq_some hold
  refine ⟨e.size, e.cons, e.cap, by simpa using e.len, ⟨e.gs.bad, e.gs.leaked, e.gs.allocs, e.gs.allocElems, e.gs.ctor, e.gs.dtor⟩, ?_, ?_, ?_⟩
  · intro k hk
    simp only [List.getElem?_set]
    by_cases a : j - (last - first) = k
    · subst a; exact ⟨x, by simp [hdl]⟩
    · by_cases b : j = k
      · subst b; exact ⟨c.mvA x old, by simp [a, hjl]⟩
      · simpa [a, b] using e.live k hk
  · intro k hk1 hk2
    simp only [List.getElem?_set]
    by_cases a : j - (last - first) = k
    · have : k + (last - first) = j := by omega
      subst a
      simp [this, hx, hdl]
    · have b : j ≠ k := by omega
      simp only [a, b, if_false]
      exact e.moved k hk1 (by omega)
  · intro k hk
    simp only [List.getElem?_set]
    have a : j - (last - first) ≠ k := by omega
    have b : j ≠ k := by omega
    simp only [a, b, if_false]
    exact e.same k (by omega)

theorem erase_spec (c : Cfg) {s : RVec} (h : Inv s) {xs : List Val} (x : Rep s xs) {first last : Nat}
    (hfl : first ≤ last) (hls : last ≤ s.size) :
    OpSpec s (s.erase c first last) (xs.take first ++ xs.drop last) 0 := by
  by_cases he : first = last
  · subst he
    have : s.erase c first first = s := by simp [erase]
    rw [this]
    have : xs.take first ++ xs.drop first = xs := List.take_append_drop _ _
    rw [this]
    exact OpSpec.refl h x 0
  · have hlt : first < last := by omega
    have hb : (first == last) = false := by simp [he]
    have hloop := forUp_ind (fun src s => s.moveAssign c (src - (last - first)) src)
      (fun j t => j ≤ s.size → EraseInv s first last j t) (s.size - last) last s
      (by
        intro _
        exact ⟨rfl, rfl, rfl, rfl, GSame.refl _, h.live, by intro k h1 h2; omega, by intro k _; rfl⟩)
      (by
        intro i t h1 h2 hp hle
        exact erase_step c h hlt h1 (by omega) (hp (by omega)))
    have e := hloop (by omega)
    rw [show last + (s.size - last) = s.size by omega] at e
    have hunf : s.erase c first last =
        { (forUp (fun src s => s.moveAssign c (src - (last - first)) src) last (s.size - last) s) with
          size := (forUp (fun src s => s.moveAssign c (src - (last - first)) src) last (s.size - last) s).size - (last - first) } := by
      simp only [erase, hb]
      rfl
    rw [hunf]
    generalize forUp (fun src s => s.moveAssign c (src - (last - first)) src) last (s.size - last) s = t at e
    have hsl := h.size_le
    have hxl := x.len
    refine ⟨?_, ?_, ?_, ?_⟩
    · exact ⟨by simp [e.size, e.cons]; omega, by rw [e.cons, e.cap]; exact h.cons_le, by rw [e.len, e.cap]; exact h.len,
        by intro k hk; exact e.live k (by simpa [e.cons] using hk),
        by
          intro k hk hk2
          simp [e.cons] at hk
          simp [e.cap] at hk2
          rw [e.same k (Or.inr (by omega))]
          exact h.raw k hk hk2⟩
    · refine ⟨by simp [e.size]; omega, ?_⟩
      intro k hk
      simp [e.size] at hk
      by_cases a : k < first
      · rw [e.same k (Or.inl a), x.cell k (by omega), List.getElem?_append_left (by simp; omega),
          List.getElem?_take_of_lt a]
      · rw [e.moved k (by omega) (by omega), x.cell _ (by omega),
          List.getElem?_append_right (by simp; omega)]
        rw [List.getElem?_drop, List.length_take]
        congr 2
        omega
    · exact ⟨e.gs.bad, e.gs.leaked, by have := e.gs.ctor; have := e.gs.dtor; simp [e.cons]; omega⟩
    · exact ⟨by simp [e.cap], by simp [e.cons], fun _ => ⟨by simp [e.cap], by simp [e.gs.allocs], by simp [e.gs.allocElems]⟩⟩


/-! ### `prepare_for_insert`: first loop (move-construct into raw cells, downwards) -/

/-- state of the first loop of `prepare_for_insert` when `i` has come down to `p`
(`s1` = state after the `reserve`, `top = s1.size + count`) -/
structure Prep1Inv (s1 : RVec) (count p : Nat) (t : RVec) : Prop where
  size : t.size = s1.size
  cap : t.cap = s1.cap
  len : t.slots.length = s1.slots.length
  cons : t.cons + p = s1.cons + (s1.size + count)
  done : ∀ k, p ≤ k → k < s1.size + count → t.slots[k]? = s1.slots[k - count]?
  same : ∀ k, (k + count < p ∨ (s1.size ≤ k ∧ k < p) ∨ s1.size + count ≤ k) → t.slots[k]? = s1.slots[k]?
  res : ∀ k, k < s1.size → ∃ w, t.slots[k]? = some (Slot.live w)
  bad : t.g.bad = s1.g.bad
  leaked : t.g.leaked = s1.g.leaked
  allocs : t.g.allocs = s1.g.allocs
  allocElems : t.g.allocElems = s1.g.allocElems
  dtor : t.g.dtor = s1.g.dtor
  ctor : t.g.ctor + p = s1.g.ctor + (s1.size + count)

theorem prep1_step (c : Cfg) {s1 : RVec} (h : Inv s1) {count p : Nat} (hc : 1 ≤ count)
    (hp1 : s1.cons ≤ p) (hp2 : p < s1.size + count) (hcap : s1.size + count ≤ s1.cap) (hpc : count ≤ p)
    {t : RVec} (e : Prep1Inv s1 count (p + 1) t) :
    Prep1Inv s1 count p { (t.moveConstruct c p (p - count)) with cons := t.cons + 1 } := by
  have hsl := h.size_le
  obtain ⟨x, hx⟩ := h.live (p - count) (by omega)
  have hsrc : t.slots[p - count]? = some (Slot.live x) := by
    rw [e.same (p - count) (Or.inl (by omega)), hx]
  have hdst : t.slots[p]? = some Slot.raw := by
    rw [e.same p (Or.inr (Or.inl (by omega)))]
    exact h.raw p hp1 (by omega)
  rw [moveConstruct_live c hdst hsrc]
  have hsl' : p - count < t.slots.length := getElem?_lt_of_eq_some hsrc
  have hdl : p < t.slots.length := getElem?_lt_of_eq_some hdst
  refine ⟨e.size, e.cap, by simpa using e.len, by have := e.cons; simp; omega, ?_, ?_, ?_, e.bad, e.leaked, e.allocs,
    e.allocElems, e.dtor, by have := e.ctor; simp; omega⟩
  · intro k hk1 hk2
    simp only [List.getElem?_set]
    by_cases a : p = k
    · subst a; simp [hdl, hx]
    · have b : p - count ≠ k := by omega
      simp only [a, b, if_false]
      exact e.done k (by omega) hk2
  · intro k hk
    simp only [List.getElem?_set]
    have a : p ≠ k := by omega
    have b : p - count ≠ k := by omega
    simp only [a, b, if_false]
    exact e.same k (by omega)
  · intro k hk
    simp only [List.getElem?_set]
    have a : p ≠ k := by omega
    by_cases b : p - count = k
    · subst b; exact ⟨c.mvC x, by simp [a, hsl']⟩
    · simpa [a, b] using e.res k hk

theorem prep1_loop (c : Cfg) {s1 : RVec} (h : Inv s1) {count m : Nat} (hc : 1 ≤ count)
    (hm1 : m < s1.size + count → s1.cons ≤ m ∧ count ≤ m) (hcap : s1.size + count ≤ s1.cap) (hm3 : m ≤ s1.size + count) :
    Prep1Inv s1 count m
      (forDown (fun i s => { (s.moveConstruct c i (i - count)) with cons := s.cons + 1 })
        (s1.size + count) (s1.size + count - m) s1) := by
  have := forDown_ind (fun i s => { (s.moveConstruct c i (i - count)) with cons := s.cons + 1 })
    (fun p t => Prep1Inv s1 count p t) (s1.size + count - m) (s1.size + count) s1 (by omega)
    ⟨rfl, rfl, rfl, rfl, by intro k h1 h2; omega, by intro k _; rfl,
      by intro k hk; exact h.live k (by have := h.size_le; omega), rfl, rfl, rfl, rfl, rfl, rfl⟩
    (by
      intro i t h1 h2 hp
      have := hm1 (by omega)
      exact prep1_step c h hc (by omega) h2 hcap (by omega) hp)
  rwa [show s1.size + count - (s1.size + count - m) = m by omega] at this

/-! ### second loop (move-assign over live cells, downwards) -/

/-- state of the second loop when `i` has come down to `p`; `u` = state after the first loop,
`m = move_end_size` -/
structure Prep2Inv (s1 u : RVec) (count m p : Nat) (t : RVec) : Prop where
  size : t.size = u.size
  cap : t.cap = u.cap
  cons : t.cons = u.cons
  len : t.slots.length = u.slots.length
  gs : GSame u t
  done : ∀ k, p ≤ k → k < m → t.slots[k]? = s1.slots[k - count]?
  low : ∀ k, k + count < p → t.slots[k]? = s1.slots[k]?
  high : ∀ k, m ≤ k → t.slots[k]? = u.slots[k]?
  live : ∀ k, k < m → ∃ w, t.slots[k]? = some (Slot.live w)

theorem prep2_step (c : Cfg) {s1 u : RVec} (h : Inv s1) {count m p : Nat} (hc : 1 ≤ count)
    (hm : m ≤ s1.cons) (hp2 : p < m) (hpc : count ≤ p)
    {t : RVec} (e : Prep2Inv s1 u count m (p + 1) t) :
    Prep2Inv s1 u count m p (t.moveAssign c p (p - count)) := by
  obtain ⟨x, hx⟩ := h.live (p - count) (by omega)
  have hsrc : t.slots[p - count]? = some (Slot.live x) := by rw [e.low (p - count) (by omega), hx]
  obtain ⟨old, hold⟩ := e.live p hp2
  have hne : p ≠ p - count := by omega
  rw [moveAssign_live c hne hold hsrc]
  have hsl' : p - count < t.slots.length := getElem?_lt_of_eq_some hsrc
  have hdl : p < t.slots.length := getElem?_lt_of_eq_some hold
  refine ⟨e.size, e.cap, e.cons, by simpa using e.len,
    ⟨e.gs.bad, e.gs.leaked, e.gs.allocs, e.gs.allocElems, e.gs.ctor, e.gs.dtor⟩, ?_, ?_, ?_, ?_⟩
  · intro k hk1 hk2
    simp only [List.getElem?_set]
    by_cases a : p = k
    · subst a; simp [hdl, hx]
    · have b : p - count ≠ k := by omega
      simp only [a, b, if_false]
      exact e.done k (by omega) hk2
  · intro k hk
    simp only [List.getElem?_set]
    have a : p ≠ k := by omega
    have b : p - count ≠ k := by omega
    simp only [a, b, if_false]
    exact e.low k (by omega)
  · intro k hk
    simp only [List.getElem?_set]
    have a : p ≠ k := by omega
    have b : p - count ≠ k := by omega
    simp only [a, b, if_false]
    exact e.high k hk
  · intro k hk
    simp only [List.getElem?_set]
    by_cases a : p = k
    · subst a; exact ⟨x, by simp [hdl]⟩
    · by_cases b : p - count = k
      · subst b; exact ⟨c.mvA x old, by simp [a, hsl']⟩
      · simpa [a, b] using e.live k hk


/-! ### `prepare_for_insert` as a whole (for `count ≥ 1`; `count = 0` returns at once) -/

/-- the state `prepare_for_insert(index, count)` hands back to `insert`, relative to the state
`s1` after its `reserve` -/
structure PrepSpec (s1 t : RVec) (index count : Nat) : Prop where
  size : t.size = s1.size + count
  cap : t.cap = s1.cap
  len : t.slots.length = s1.slots.length
  cons : t.cons = s1.cons + (s1.size + count - max (index + count) s1.cons)
  low : ∀ k, k < index → t.slots[k]? = s1.slots[k]?
  shifted : ∀ k, index + count ≤ k → k < s1.size + count → t.slots[k]? = s1.slots[k - count]?
  liveHi : ∀ k, index + count ≤ k → k < max (max (index + count) s1.cons) (s1.size + count) →
    ∃ w, t.slots[k]? = some (Slot.live w)
  gapLive : ∀ k, index ≤ k → k < index + count → k < s1.cons → ∃ w, t.slots[k]? = some (Slot.live w)
  gapRaw : ∀ k, s1.cons ≤ k → k < index + count → t.slots[k]? = some Slot.raw
  high : ∀ k, max (max (index + count) s1.cons) (s1.size + count) ≤ k → t.slots[k]? = s1.slots[k]?
  bad : t.g.bad = s1.g.bad
  leaked : t.g.leaked = s1.g.leaked
  allocs : t.g.allocs = s1.g.allocs
  allocElems : t.g.allocElems = s1.g.allocElems
  dtor : t.g.dtor = s1.g.dtor
  ctor : t.g.ctor = s1.g.ctor + (s1.size + count - max (index + count) s1.cons)

/-- the two shifting loops of `prepare_for_insert` followed by `_size += count`, on the state
after the `reserve` -/
def prepLoops (c : Cfg) (s1 : RVec) (index count : Nat) : RVec :=
  let moveEnd := max (index + count) s1.cons
  let s := forDown (fun i s => { (s.moveConstruct c i (i - count)) with cons := s.cons + 1 })
             (s1.size + count) (s1.size + count - moveEnd) s1
  let s := forDown (fun i s => s.moveAssign c i (i - count)) moveEnd (moveEnd - (index + count)) s
  { s with size := s.size + count }

theorem prepareForInsert_eq (c : Cfg) (s : RVec) (index : Nat) {count : Nat} (hc : 1 ≤ count) :
    s.prepareForInsert c index count =
      (prepLoops c (s.reserve c (s.size + count)) index count,
        min (index + count) (s.reserve c (s.size + count)).cons) := by
  have hg : (zeroCountGuard && count == 0) = false := by
    have : count ≠ 0 := by omega
    simp [this]
  simp only [prepareForInsert, hg]
  rfl

theorem prep_loops_spec (c : Cfg) {s1 : RVec} (h : Inv s1) {index count : Nat} (hc : 1 ≤ count)
    (hi : index ≤ s1.size) (hcap : s1.size + count ≤ s1.cap) :
    PrepSpec s1 (prepLoops c s1 index count) index count := by
  simp only [prepLoops]
  have hsl := h.size_le
  have hcl := h.cons_le
  -- first loop, stopped at p1 = min M top
  have hn1 : s1.size + count - max (index + count) s1.cons
      = s1.size + count - min (max (index + count) s1.cons) (s1.size + count) := by omega
  have l1 := prep1_loop c h (m := min (max (index + count) s1.cons) (s1.size + count)) hc
    (by intro hlt; omega) hcap (by omega)
  rw [← hn1] at l1
  generalize forDown (fun i s => { (s.moveConstruct c i (i - count)) with cons := s.cons + 1 })
            (s1.size + count) (s1.size + count - max (index + count) s1.cons) s1 = u at l1
  by_cases hA : index + count ≤ s1.cons
  · -- M = cons0: the second loop shifts the live cells in [index, cons0 - count) up by `count`
    have hM : max (index + count) s1.cons = s1.cons := by omega
    rw [hM] at l1 ⊢
    have l2 := forDown_ind (fun i s => s.moveAssign c i (i - count))
      (fun p t => Prep2Inv s1 u count s1.cons p t) (s1.cons - (index + count)) s1.cons u (by omega)
      ⟨rfl, rfl, rfl, rfl, GSame.refl _, by intro k h1 h2; omega,
        by
          intro k hk
          apply l1.same
          omega,
        by intro k _; rfl,
        by
          intro k hk
          by_cases a : k < s1.size
          · exact l1.res k a
          · rw [l1.same k (by omega)]
            exact h.live k hk⟩
      (by
        intro i t h1 h2 hp
        exact prep2_step c h hc (Nat.le_refl _) h2 (by omega) hp)
    rw [show s1.cons - (s1.cons - (index + count)) = index + count by omega] at l2
    generalize forDown (fun i s => s.moveAssign c i (i - count)) s1.cons (s1.cons - (index + count)) u = t at l2
    refine ⟨by simp [l2.size, l1.size], by simp [l2.cap, l1.cap], by simp [l2.len, l1.len],
      by have := l1.cons; simp [l2.cons]; omega, ?_, ?_, ?_, ?_, ?_, ?_,
      by simp [l2.gs.bad, l1.bad], by simp [l2.gs.leaked, l1.leaked], by simp [l2.gs.allocs, l1.allocs],
      by simp [l2.gs.allocElems, l1.allocElems], by simp [l2.gs.dtor, l1.dtor],
      by have := l1.ctor; simp [l2.gs.ctor]; omega⟩
    · intro k hk; exact l2.low k (by omega)
    · intro k hk1 hk2
      by_cases a : k < s1.cons
      · exact l2.done k hk1 a
      · simp only
        rw [l2.high k (by omega), l1.done k (by omega) hk2]
    · intro k hk1 hk2
      by_cases a : k < s1.cons
      · exact l2.live k a
      · simp only
        rw [l2.high k (by omega), l1.done k (by omega) (by omega)]
        exact h.live (k - count) (by omega)
    · intro k hk1 hk2 hk3; exact l2.live k hk3
    · intro k hk1 hk2; omega
    · intro k hk
      simp only
      rw [l2.high k (by omega), l1.same k (by omega)]
  · -- M = index + count > cons0: nothing to shift by assignment
    have hM : max (index + count) s1.cons = index + count := by omega
    rw [hM] at l1 ⊢
    have hmin : min (index + count) (s1.size + count) = index + count := by omega
    rw [hmin] at l1
    simp only [Nat.sub_self, forDown]
    refine ⟨by simp [l1.size], by simp [l1.cap], by simp [l1.len], by have := l1.cons; simp; omega,
      ?_, ?_, ?_, ?_, ?_, ?_, by simp [l1.bad], by simp [l1.leaked], by simp [l1.allocs], by simp [l1.allocElems],
      by simp [l1.dtor], by have := l1.ctor; simp; omega⟩
    · intro k hk; exact l1.same k (by omega)
    · intro k hk1 hk2; exact l1.done k hk1 hk2
    · intro k hk1 hk2
      simp only
      rw [l1.done k hk1 (by omega)]
      exact h.live (k - count) (by omega)
    · intro k hk1 hk2 hk3
      by_cases a : k < s1.size
      · exact l1.res k a
      · simp only
        rw [l1.same k (by omega)]
        exact h.live k hk3
    · intro k hk1 hk2
      simp only
      rw [l1.same k (by omega)]
      exact h.raw k hk1 (by omega)
    · intro k hk
      exact l1.same k (by omega)


/-! ### `insert(pos, first, last)` / `insert(pos, count, value)` / `emplace` -/

theorem insertRange_spec (c : Cfg) {s : RVec} (h : Inv s) {xs : List Val} (x : Rep s xs) {index : Nat}
    (hi : index ≤ s.size) (ys : List Val) :
    OpSpec s (s.insertRange c index ys) (xs.take index ++ ys ++ xs.drop index) (s.size + ys.length) := by
  by_cases hz : ys.length = 0
  · -- nothing to insert: `prepare_for_insert` returns before touching anything
    have hnil : ys = [] := List.eq_nil_of_length_eq_zero hz
    subst hnil
    have : s.insertRange c index [] = s := by
      simp [insertRange, prepareForInsert, zeroGuard, reconFrom, consFrom]
    rw [this]
    simpa using OpSpec.refl h x _
  · have hc : 1 ≤ ys.length := by omega
    have hg : (zeroCountGuard && ys.length == 0) = false := by simp [hz]
    have r := reserve_spec c h (s.size + ys.length)
    generalize hs1 : s.reserve c (s.size + ys.length) = s1 at r
    have i1 := r.inv
    have x1 := r.rep h x
    have hcap : s1.size + ys.length ≤ s1.cap := by have := r.cap; have := r.size; omega
    have hi1 : index ≤ s1.size := by rw [r.size]; exact hi
    have ps := prep_loops_spec c i1 hc hi1 hcap
    have hprep := prepareForInsert_eq c s index hc
    rw [hs1] at hprep
    generalize prepLoops c s1 index ys.length = t at ps hprep
    have hsl := i1.size_le
    have hcl := i1.cons_le
    generalize hre : min (index + ys.length) s1.cons = re at hprep
    have hre1 : index ≤ re := by omega
    have hre2 : re ≤ index + ys.length := by omega
    have hunf : s.insertRange c index ys =
        consFrom (reconFrom c t index (ys.take (re - index))) re (ys.drop (re - index)) := by
      simp only [insertRange, hprep]
    rw [hunf]
    have f1 := reconFrom_spec c (ys.take (re - index)) t index (by
      intro k hk1 hk2
      simp [List.length_take] at hk2
      exact ps.gapLive k hk1 (by omega) (by omega))
    generalize reconFrom c t index (ys.take (re - index)) = t1 at f1
    have hlt : (ys.take (re - index)).length = re - index := by simp [List.length_take]; omega
    have hld : (ys.drop (re - index)).length = index + ys.length - re := by simp [List.length_drop]; omega
    have f2 := consFrom_spec (ys.drop (re - index)) t1 re (by
      intro k hk1 hk2
      rw [hld] at hk2
      rw [f1.cell k]
      have : ¬ (index ≤ k ∧ k < index + (ys.take (re - index)).length) := by rw [hlt]; omega
      simp only [this, if_false]
      exact ps.gapRaw k (by omega) (by omega))
    generalize consFrom t1 re (ys.drop (re - index)) = t2 at f2
    -- every cell of the result
    have hcell : ∀ k, t2.slots[k]? =
        if index ≤ k ∧ k < index + ys.length then (ys[k - index]?).map Slot.live else t.slots[k]? := by
      intro k
      rw [f2.cell k, f1.cell k, hlt, hld]
      by_cases a : re ≤ k ∧ k < re + (index + ys.length - re)
      · have b : index ≤ k ∧ k < index + ys.length := by omega
        simp only [a, b, and_self, if_true]
        rw [List.getElem?_drop]
        congr 2
        omega
      · by_cases b : index ≤ k ∧ k < index + (re - index)
        · have b' : index ≤ k ∧ k < index + ys.length := by omega
          simp only [a, b, b', and_self, if_true, if_false]
          rw [List.getElem?_take_of_lt (by omega)]
        · have b' : ¬ (index ≤ k ∧ k < index + ys.length) := by omega
          simp only [a, b, b', if_false]
    have hcons : t2.cons = max s1.cons (s1.size + ys.length) := by
      have := f2.cons; have := f1.cons; have := ps.cons
      rw [hld] at *
      omega
    have hcap2 : t2.cap = s1.cap := by rw [f2.cap, f1.cap, ps.cap]
    have hxl := x1.len
    refine ⟨?_, ?_, ?_, ?_⟩
    · constructor
      · rw [f2.size, f1.size, ps.size, hcons]; omega
      · rw [hcons, hcap2]; omega
      · rw [f2.len, f1.len, ps.len, hcap2]; exact i1.len
      · intro k hk
        rw [hcons] at hk
        rw [hcell k]
        by_cases a : index ≤ k ∧ k < index + ys.length
        · simp only [a, and_self, if_true]
          have : k - index < ys.length := by omega
          exact ⟨ys[k - index], by simp [List.getElem?_eq_getElem this]⟩
        · simp only [a, if_false]
          by_cases b : k < index
          · rw [ps.low k b]; exact i1.live k (by omega)
          · exact ps.liveHi k (by omega) (by omega)
      · intro k hk hk2
        rw [hcons] at hk
        rw [hcap2] at hk2
        rw [hcell k]
        have a : ¬ (index ≤ k ∧ k < index + ys.length) := by omega
        simp only [a, if_false]
        rw [ps.high k (by omega)]
        exact i1.raw k (by omega) hk2
    · refine ⟨by rw [f2.size, f1.size, ps.size]; simp; omega, ?_⟩
      intro k hk
      rw [f2.size, f1.size, ps.size] at hk
      rw [hcell k]
      by_cases a : index ≤ k ∧ k < index + ys.length
      · simp only [a, and_self, if_true]
        rw [List.append_assoc, List.getElem?_append_right (by simp [List.length_take]; omega),
          List.getElem?_append_left (by simp [List.length_take]; omega)]
        congr 2
        simp [List.length_take]; omega
      · simp only [a, if_false]
        by_cases b : k < index
        · rw [ps.low k b, x1.cell k (by omega), List.append_assoc,
            List.getElem?_append_left (by simp [List.length_take]; omega), List.getElem?_take_of_lt b]
        · rw [ps.shifted k (by omega) hk, x1.cell _ (by omega), List.getElem?_append_right (by simp [List.length_take]; omega)]
          rw [List.getElem?_drop]
          congr 2
          simp [List.length_take]; omega
    · refine r.gstep.trans ⟨?_, ?_, ?_⟩
      · rw [f2.bad, f1.bad, ps.bad]
      · rw [f2.leaked, f1.leaked, ps.leaked]
      · have := f2.bal; have := f1.bal; have := ps.ctor; have := ps.dtor; have := ps.cons
        rw [hld] at *
        omega
    · refine ⟨?_, ?_, ?_⟩
      · rw [hcap2]; exact r.cstep.cap_le
      · rw [hcons]; have := r.cons; omega
      · intro hf
        have := r.cstep.fit hf
        rw [hcap2, f2.allocs, f1.allocs, ps.allocs, f2.allocElems, f1.allocElems, ps.allocElems]
        exact this

theorem insertN_spec (c : Cfg) {s : RVec} (h : Inv s) {xs : List Val} (x : Rep s xs) {index : Nat}
    (hi : index ≤ s.size) (n : Nat) (v : Val) :
    OpSpec s (s.insertN c index n v) (xs.take index ++ List.replicate n v ++ xs.drop index) (s.size + n) := by
  have := insertRange_spec c h x hi (List.replicate n v)
  simpa [insertN] using this

/-- `emplace` is `insert` of a one-element range (the two branches of `emplace` are the two
loops of `insert` for `count = 1`) -/
theorem emplace_eq_insertRange (c : Cfg) {s : RVec} (h : Inv s) {index : Nat} (hi : index ≤ s.size) (v : Val) :
    s.emplace c index v = s.insertRange c index [v] := by
  have hg : (zeroCountGuard && (1 == 0)) = false := by simp
  have r := reserve_spec c h (s.size + 1)
  have hsl := h.size_le
  simp only [emplace, insertRange, List.length_singleton]
  generalize hp : s.prepareForInsert c index 1 = p
  obtain ⟨t, re⟩ := p
  have hre : re = min (index + 1) (s.reserve c (s.size + 1)).cons := by
    rw [prepareForInsert_eq c s index (Nat.le_refl 1)] at hp
    have := congrArg Prod.snd hp
    simpa using this.symm
  have hcons : (s.reserve c (s.size + 1)).cons = s.cons := r.cons
  rw [hcons] at hre
  simp only
  by_cases a : index < re
  · have : re - index = 1 := by omega
    simp [a, this, reconFrom, consFrom]
  · have e : re = index := by omega
    simp [a, e, reconFrom, consFrom]

theorem emplace_spec (c : Cfg) {s : RVec} (h : Inv s) {xs : List Val} (x : Rep s xs) {index : Nat}
    (hi : index ≤ s.size) (v : Val) :
    OpSpec s (s.emplace c index v) (xs.take index ++ [v] ++ xs.drop index) (s.size + 1) := by
  rw [emplace_eq_insertRange c h hi]
  simpa using insertRange_spec c h x hi [v]

end RVec
end Babylon.RVec
