/-
  Helper lemmas, part 3: the shifting loops — `erase`, `prepare_for_insert`, `insert`, `emplace`.
-/
import Babylon.RVec.Lemmas2

namespace Babylon.RVec
open Babylon.Gen.RVec
namespace RVec

/-! ### one move between two cells of the buffer -/

theorem moveAssign_live (c : Cfg) {s : RVec} {dst src : Nat} {old x : Val} (hne : dst ≠ src)
    (hd : s.slots[dst]? = some (Slot.live old)) (hs : s.slots[src]? = some (Slot.live x)) :
    s.moveAssign c dst src =
      { s with slots := (s.slots.set src (Slot.live (c.mvA x old))).set dst (Slot.live x),
               g := { s.g with asg := s.g.asg + 1 } } := by
  have h2 : (s.slots.set src (Slot.live (c.mvA x old)))[dst]? = some (Slot.live old) := by
    simp [List.getElem?_set, Ne.symm hne, hd]
  simp only [moveAssign, hd, hne, if_false, Buf.moveOut_live hs]
  exact assignOver_live (s := { s with slots := s.slots.set src (Slot.live (c.mvA x old)) }) h2

theorem moveConstruct_live (c : Cfg) {s : RVec} {dst src : Nat} {x : Val}
    (hd : s.slots[dst]? = some Slot.raw) (hs : s.slots[src]? = some (Slot.live x)) :
    s.moveConstruct c dst src =
      { s with slots := (s.slots.set src (Slot.live (c.mvC x))).set dst (Slot.live x),
               g := { s.g with ctor := s.g.ctor + 1 } } := by
  have hne : src ≠ dst := by intro e; rw [e, hd] at hs; simp at hs
  have h2 : (s.slots.set src (Slot.live (c.mvC x)))[dst]? = some Slot.raw := by
    simp [List.getElem?_set, hne, hd]
  simp only [moveConstruct, Buf.moveOut_live hs]
  exact constructIn_raw (s := { s with slots := s.slots.set src (Slot.live (c.mvC x)) }) h2

/-- ghost fields a pure assignment loop leaves alone -/
structure GSame (s t : RVec) : Prop where
  bad : t.g.bad = s.g.bad
  leaked : t.g.leaked = s.g.leaked
  allocs : t.g.allocs = s.g.allocs
  allocElems : t.g.allocElems = s.g.allocElems
  ctor : t.g.ctor = s.g.ctor
  dtor : t.g.dtor = s.g.dtor

theorem GSame.refl (s : RVec) : GSame s s := ⟨rfl, rfl, rfl, rfl, rfl, rfl⟩

/-! ### `erase` -/

/-- state of the `erase` loop when `src` has reached `j` -/
structure EraseInv (s : RVec) (first last j : Nat) (t : RVec) : Prop where
  size : t.size = s.size
  cons : t.cons = s.cons
  cap : t.cap = s.cap
  len : t.slots.length = s.slots.length
  gs : GSame s t
  live : ∀ k, k < s.cons → ∃ w, t.slots[k]? = some (Slot.live w)
  moved : ∀ k, first ≤ k → k + (last - first) < j → t.slots[k]? = s.slots[k + (last - first)]?
  same : ∀ k, (k < first ∨ j ≤ k) → t.slots[k]? = s.slots[k]?

theorem erase_step (c : Cfg) {s : RVec} (h : Inv s) {first last j : Nat} (hfl : first < last) (hj1 : last ≤ j)
    (hj2 : j < s.size) {t : RVec} (e : EraseInv s first last j t) :
    EraseInv s first last (j + 1) (t.moveAssign c (j - (last - first)) j) := by
  have hsl := h.size_le
  obtain ⟨x, hx⟩ := h.live j (by omega)
  have hsrc : t.slots[j]? = some (Slot.live x) := by rw [e.same j (Or.inr (Nat.le_refl _)), hx]
  obtain ⟨old, hold⟩ := e.live (j - (last - first)) (by omega)
  have hne : j - (last - first) ≠ j := by omega
  rw [moveAssign_live c hne hold hsrc]
  have hjl : j < t.slots.length := getElem?_lt_of_eq_some hsrc
  have hdl : j - (last - first) < t.slots.length := getElem?_lt_of_eq_some hold
  refine ⟨e.size, e.cons, e.cap, by simpa using e.len, ⟨e.gs.bad, e.gs.leaked, e.gs.allocs, e.gs.allocElems, e.gs.ctor, e.gs.dtor⟩, ?_, ?_, ?_⟩
  · intro k hk
    simp only [List.getElem?_set]
    by_cases a : j - (last - first) = k
    · subst a; exact ⟨x, by simp [hdl]⟩
    · by_cases b : j = k
      · subst b; exact ⟨c.mvA x old, by simp [a, hjl]⟩
      · simpa [a, b] using e.live k hk
  · intro k hk1 hk2
    simp only [List.getElem?_set]
    by_cases a : j - (last - first) = k
    · have : k + (last - first) = j := by omega
      subst a
      simp [this, hx, hdl]
    · have b : j ≠ k := by omega
      simp only [a, b, if_false]
      exact e.moved k hk1 (by omega)
  · intro k hk
    simp only [List.getElem?_set]
    have a : j - (last - first) ≠ k := by omega
    have b : j ≠ k := by omega
    simp only [a, b, if_false]
    exact e.same k (by omega)

theorem erase_spec (c : Cfg) {s : RVec} (h : Inv s) {xs : List Val} (x : Rep s xs) {first last : Nat}
    (hfl : first ≤ last) (hls : last ≤ s.size) :
    OpSpec s (s.erase c first last) (xs.take first ++ xs.drop last) 0 := by
  by_cases he : first = last
  · subst he
    have : s.erase c first first = s := by simp [erase]
    rw [this]
    have : xs.take first ++ xs.drop first = xs := List.take_append_drop _ _
    rw [this]
    exact OpSpec.refl h x 0
  · have hlt : first < last := by omega
    have hb : (first == last) = false := by simp [he]
    have hloop := forUp_ind (fun src s => s.moveAssign c (src - (last - first)) src)
      (fun j t => j ≤ s.size → EraseInv s first last j t) (s.size - last) last s
      (by
        intro _
        exact ⟨rfl, rfl, rfl, rfl, GSame.refl _, h.live, by intro k h1 h2; omega, by intro k _; rfl⟩)
      (by
        intro i t h1 h2 hp hle
        exact erase_step c h hlt h1 (by omega) (hp (by omega)))
    have e := hloop (by omega)
    rw [show last + (s.size - last) = s.size by omega] at e
    have hunf : s.erase c first last =
        { (forUp (fun src s => s.moveAssign c (src - (last - first)) src) last (s.size - last) s) with
          size := (forUp (fun src s => s.moveAssign c (src - (last - first)) src) last (s.size - last) s).size - (last - first) } := by
      simp only [erase, hb]
      rfl
    rw [hunf]
    generalize forUp (fun src s => s.moveAssign c (src - (last - first)) src) last (s.size - last) s = t at e
    have hsl := h.size_le
    have hxl := x.len
    refine ⟨?_, ?_, ?_, ?_⟩
    · exact ⟨by simp [e.size, e.cons]; omega, by rw [e.cons, e.cap]; exact h.cons_le, by rw [e.len, e.cap]; exact h.len,
        by intro k hk; exact e.live k (by simpa [e.cons] using hk),
        by
          intro k hk hk2
          simp [e.cons] at hk
          simp [e.cap] at hk2
          rw [e.same k (Or.inr (by omega))]
          exact h.raw k hk hk2⟩
    · refine ⟨by simp [e.size]; omega, ?_⟩
      intro k hk
      simp [e.size] at hk
      by_cases a : k < first
      · rw [e.same k (Or.inl a), x.cell k (by omega), List.getElem?_append_left (by simp; omega),
          List.getElem?_take_of_lt a]
      · rw [e.moved k (by omega) (by omega), x.cell _ (by omega),
          List.getElem?_append_right (by simp; omega)]
        rw [List.getElem?_drop, List.length_take]
        congr 2
        omega
    · exact ⟨e.gs.bad, e.gs.leaked, by have := e.gs.ctor; have := e.gs.dtor; simp [e.cons]; omega⟩
    · exact ⟨by simp [e.cap], by simp [e.cons], fun _ => ⟨by simp [e.cap], by simp [e.gs.allocs], by simp [e.gs.allocElems]⟩⟩


/-! ### `prepare_for_insert`: first loop (move-construct into raw cells, downwards) -/

/-- state of the first loop of `prepare_for_insert` when `i` has come down to `p`
(`s1` = state after the `reserve`, `top = s1.size + count`) -/
structure Prep1Inv (s1 : RVec) (count p : Nat) (t : RVec) : Prop where
  size : t.size = s1.size
  cap : t.cap = s1.cap
  len : t.slots.length = s1.slots.length
  cons : t.cons + p = s1.cons + (s1.size + count)
  done : ∀ k, p ≤ k → k < s1.size + count → t.slots[k]? = s1.slots[k - count]?
  same : ∀ k, (k + count < p ∨ (s1.size ≤ k ∧ k < p) ∨ s1.size + count ≤ k) → t.slots[k]? = s1.slots[k]?
  res : ∀ k, k < s1.size → ∃ w, t.slots[k]? = some (Slot.live w)
  bad : t.g.bad = s1.g.bad
  leaked : t.g.leaked = s1.g.leaked
  allocs : t.g.allocs = s1.g.allocs
  allocElems : t.g.allocElems = s1.g.allocElems
  dtor : t.g.dtor = s1.g.dtor
  ctor : t.g.ctor + p = s1.g.ctor + (s1.size + count)

theorem prep1_step (c : Cfg) {s1 : RVec} (h : Inv s1) {count p : Nat} (hc : 1 ≤ count)
    (hp1 : s1.cons ≤ p) (hp2 : p < s1.size + count) (hcap : s1.size + count ≤ s1.cap) (hpc : count ≤ p)
    {t : RVec} (e : Prep1Inv s1 count (p + 1) t) :
    Prep1Inv s1 count p { (t.moveConstruct c p (p - count)) with cons := t.cons + 1 } := by
  have hsl := h.size_le
  obtain ⟨x, hx⟩ := h.live (p - count) (by omega)
  have hsrc : t.slots[p - count]? = some (Slot.live x) := by
    rw [e.same (p - count) (Or.inl (by omega)), hx]
  have hdst : t.slots[p]? = some Slot.raw := by
    rw [e.same p (Or.inr (Or.inl (by omega)))]
    exact h.raw p hp1 (by omega)
  rw [moveConstruct_live c hdst hsrc]
  have hsl' : p - count < t.slots.length := getElem?_lt_of_eq_some hsrc
  have hdl : p < t.slots.length := getElem?_lt_of_eq_some hdst
  refine ⟨e.size, e.cap, by simpa using e.len, by have := e.cons; simp; omega, ?_, ?_, ?_, e.bad, e.leaked, e.allocs,
    e.allocElems, e.dtor, by have := e.ctor; simp; omega⟩
  · intro k hk1 hk2
    simp only [List.getElem?_set]
    by_cases a : p = k
    · subst a; simp [hdl, hx]
    · have b : p - count ≠ k := by omega
      simp only [a, b, if_false]
      exact e.done k (by omega) hk2
  · intro k hk
    simp only [List.getElem?_set]
    have a : p ≠ k := by omega
    have b : p - count ≠ k := by omega
    simp only [a, b, if_false]
    exact e.same k (by omega)
  · intro k hk
    simp only [List.getElem?_set]
    have a : p ≠ k := by omega
    by_cases b : p - count = k
    · subst b; exact ⟨c.mvC x, by simp [a, hsl']⟩
    · simpa [a, b] using e.res k hk

theorem prep1_loop (c : Cfg) {s1 : RVec} (h : Inv s1) {count m : Nat} (hc : 1 ≤ count)
    (hm1 : s1.cons ≤ m) (hm2 : count ≤ m) (hcap : s1.size + count ≤ s1.cap) (hm3 : m ≤ s1.size + count) :
    Prep1Inv s1 count m
      (forDown (fun i s => { (s.moveConstruct c i (i - count)) with cons := s.cons + 1 })
        (s1.size + count) (s1.size + count - m) s1) := by
  have := forDown_ind (fun i s => { (s.moveConstruct c i (i - count)) with cons := s.cons + 1 })
    (fun p t => Prep1Inv s1 count p t) (s1.size + count - m) (s1.size + count) s1 (by omega)
    ⟨rfl, rfl, rfl, rfl, by intro k h1 h2; omega, by intro k _; rfl,
      by intro k hk; exact h.live k (by have := h.size_le; omega), rfl, rfl, rfl, rfl, rfl, rfl⟩
    (by
      intro i t h1 h2 hp
      exact prep1_step c h hc (by omega) h2 hcap (by omega) hp)
  rwa [show s1.size + count - (s1.size + count - m) = m by omega] at this

/-! ### second loop (move-assign over live cells, downwards) -/

/-- state of the second loop when `i` has come down to `p`; `u` = state after the first loop,
`m = move_end_size` -/
structure Prep2Inv (s1 u : RVec) (count m p : Nat) (t : RVec) : Prop where
  size : t.size = u.size
  cap : t.cap = u.cap
  cons : t.cons = u.cons
  len : t.slots.length = u.slots.length
  gs : GSame u t
  done : ∀ k, p ≤ k → k < m → t.slots[k]? = s1.slots[k - count]?
  low : ∀ k, k + count < p → t.slots[k]? = s1.slots[k]?
  high : ∀ k, m ≤ k → t.slots[k]? = u.slots[k]?
  live : ∀ k, k < m → ∃ w, t.slots[k]? = some (Slot.live w)

theorem prep2_step (c : Cfg) {s1 u : RVec} (h : Inv s1) {count m p : Nat} (hc : 1 ≤ count)
    (hm : m ≤ s1.cons) (hp2 : p < m) (hpc : count ≤ p)
    {t : RVec} (e : Prep2Inv s1 u count m (p + 1) t) :
    Prep2Inv s1 u count m p (t.moveAssign c p (p - count)) := by
  obtain ⟨x, hx⟩ := h.live (p - count) (by omega)
  have hsrc : t.slots[p - count]? = some (Slot.live x) := by rw [e.low (p - count) (by omega), hx]
  obtain ⟨old, hold⟩ := e.live p hp2
  have hne : p ≠ p - count := by omega
  rw [moveAssign_live c hne hold hsrc]
  have hsl' : p - count < t.slots.length := getElem?_lt_of_eq_some hsrc
  have hdl : p < t.slots.length := getElem?_lt_of_eq_some hold
  refine ⟨e.size, e.cap, e.cons, by simpa using e.len,
    ⟨e.gs.bad, e.gs.leaked, e.gs.allocs, e.gs.allocElems, e.gs.ctor, e.gs.dtor⟩, ?_, ?_, ?_, ?_⟩
  · intro k hk1 hk2
    simp only [List.getElem?_set]
    by_cases a : p = k
    · subst a; simp [hdl, hx]
    · have b : p - count ≠ k := by omega
      simp only [a, b, if_false]
      exact e.done k (by omega) hk2
  · intro k hk
    simp only [List.getElem?_set]
    have a : p ≠ k := by omega
    have b : p - count ≠ k := by omega
    simp only [a, b, if_false]
    exact e.low k (by omega)
  · intro k hk
    simp only [List.getElem?_set]
    have a : p ≠ k := by omega
    have b : p - count ≠ k := by omega
    simp only [a, b, if_false]
    exact e.high k hk
  · intro k hk
    simp only [List.getElem?_set]
    by_cases a : p = k
    · subst a; exact ⟨x, by simp [hdl]⟩
    · by_cases b : p - count = k
      · subst b; exact ⟨c.mvA x old, by simp [a, hsl']⟩
      · simpa [a, b] using e.live k hk

end RVec
end Babylon.RVec
