/-
  Helper lemmas for the reusable-vector model, part 1: loop principles, the tagged primitives,
  the representation invariant `Inv`, the lifetime ghost invariant `GInv`, and `reserve`.
-/
import Babylon.RVec.Model

namespace Babylon.RVec
open Babylon.Gen.RVec

/-- Generated fact the proofs rely on: `prepare_for_insert` returns early when nothing is
inserted (the translator found the guard in the current source). -/
theorem zeroGuard : zeroCountGuard = true := by decide

theorem growInit_pos : 0 < growInit := by decide
theorem growFactor_ge : 2 ≤ growFactor := by decide

/-! ### loop principles -/

theorem forUp_ind {σ : Type} (f : Nat → σ → σ) (P : Nat → σ → Prop) :
    ∀ (n lo : Nat) (s : σ), P lo s →
      (∀ i t, lo ≤ i → i < lo + n → P i t → P (i + 1) (f i t)) →
      P (lo + n) (forUp f lo n s) := by
  intro n
  induction n with
  | zero => intro lo s h _; simpa [forUp] using h
  | succ n ih =>
    intro lo s h hs
    have h1 : P (lo + 1) (f lo s) := hs lo s (Nat.le_refl _) (by omega) h
    have := ih (lo + 1) (f lo s) h1 (fun i t hi hi' hp => hs i t (by omega) (by omega) hp)
    simpa [forUp, Nat.add_assoc, Nat.add_comm 1 n] using this

theorem forDown_ind {σ : Type} (f : Nat → σ → σ) (P : Nat → σ → Prop) :
    ∀ (n hi : Nat) (s : σ), n ≤ hi → P hi s →
      (∀ i t, hi - n ≤ i → i < hi → P (i + 1) t → P i (f i t)) →
      P (hi - n) (forDown f hi n s) := by
  intro n
  induction n with
  | zero => intro hi s _ h _; simpa [forDown] using h
  | succ n ih =>
    intro hi s hn h hs
    have h1 : P (hi - 1) (f (hi - 1) s) := by
      have := hs (hi - 1) s (by omega) (by omega) (by simpa [show hi - 1 + 1 = hi by omega] using h)
      exact this
    have := ih (hi - 1) (f (hi - 1) s) (by omega) h1
      (fun i t hi1 hi2 hp => hs i t (by omega) (by omega) hp)
    simpa [forDown, show hi - 1 - n = hi - (n + 1) by omega] using this

/-! ### primitives -/

@[simp] theorem Slot.isLive_live (v : Val) : (Slot.live v).isLive = true := rfl
@[simp] theorem Slot.isLive_raw : Slot.raw.isLive = false := rfl
@[simp] theorem Slot.val?_live (v : Val) : (Slot.live v).val? = some v := rfl
@[simp] theorem Slot.val?_raw : Slot.raw.val? = none := rfl

theorem Buf.constructIn_raw {b : Buf} {g : Ghost} {i : Nat} {v : Val} (h : b[i]? = some Slot.raw) :
    b.constructIn g i v = (b.set i (.live v), { g with ctor := g.ctor + 1 }) := by
  simp [Buf.constructIn, h]

theorem Buf.assignOver_live {b : Buf} {g : Ghost} {i : Nat} {v w : Val} (h : b[i]? = some (Slot.live w)) :
    b.assignOver g i v = (b.set i (.live v), { g with asg := g.asg + 1 }) := by
  simp [Buf.assignOver, h]

theorem Buf.destroy_live {b : Buf} {g : Ghost} {i : Nat} {w : Val} (h : b[i]? = some (Slot.live w)) :
    b.destroy g i = (b.set i .raw, { g with dtor := g.dtor + 1 }) := by
  simp [Buf.destroy, h]

theorem Buf.moveOut_live {b : Buf} {g : Ghost} {i : Nat} {w : Val} {r : Val → Val}
    (h : b[i]? = some (Slot.live w)) :
    b.moveOut g i r = (b.set i (.live (r w)), g, w) := by
  simp [Buf.moveOut, h]

namespace RVec

theorem constructIn_raw {s : RVec} {i : Nat} {v : Val} (h : s.slots[i]? = some Slot.raw) :
    s.constructIn i v = { s with slots := s.slots.set i (.live v), g := { s.g with ctor := s.g.ctor + 1 } } := by
  simp [constructIn, Buf.constructIn_raw h]

theorem assignOver_live {s : RVec} {i : Nat} {v w : Val} (h : s.slots[i]? = some (Slot.live w)) :
    s.assignOver i v = { s with slots := s.slots.set i (.live v), g := { s.g with asg := s.g.asg + 1 } } := by
  simp [assignOver, Buf.assignOver_live h]

theorem destroy_live {s : RVec} {i : Nat} {w : Val} (h : s.slots[i]? = some (Slot.live w)) :
    s.destroy i = { s with slots := s.slots.set i .raw, g := { s.g with dtor := s.g.dtor + 1 } } := by
  simp [destroy, Buf.destroy_live h]

/-- `reconstruct` on a live cell: the cell holds `v` afterwards; counters depend on the route -/
theorem reconstructWith_live {s : RVec} {i : Nat} {v w : Val} (rb : Bool) (h : s.slots[i]? = some (Slot.live w)) :
    s.reconstructWith rb i v =
      { s with slots := s.slots.set i (.live v),
               g := if rb then { s.g with dtor := s.g.dtor + 1, ctor := s.g.ctor + 1 }
                    else { s.g with asg := s.g.asg + 1 } } := by
  cases rb
  · simp [reconstructWith, assignOver_live h]
  · have hi : i < s.slots.length := by
      cases hh : s.slots[i]? with
      | none => simp [hh] at h
      | some x => exact (List.getElem?_eq_some_iff.mp hh).1
    have h2 : ({ s with slots := s.slots.set i Slot.raw, g := { s.g with dtor := s.g.dtor + 1 } } : RVec).slots[i]? = some Slot.raw := by
      simp [hi]
    simp [reconstructWith, destroy_live h, constructIn_raw h2]

/-! ### invariants -/

/-- representation invariant: `size ≤ constructed ≤ capacity = buffer length`, cells below
`constructed` hold live objects, cells above are raw storage -/
structure Inv (s : RVec) : Prop where
  size_le : s.size ≤ s.cons
  cons_le : s.cons ≤ s.cap
  len : s.slots.length = s.cap
  live : ∀ i, i < s.cons → ∃ v, s.slots[i]? = some (Slot.live v)
  raw : ∀ i, s.cons ≤ i → i < s.cap → s.slots[i]? = some Slot.raw

/-- lifetime ghost invariant: no primitive was applied to a cell in the wrong state, nothing
live was left behind in an abandoned buffer, and constructions balance destructions plus the
objects the buffer still holds -/
structure GInv (s : RVec) : Prop where
  bad : s.g.bad = 0
  leaked : s.g.leaked = 0
  bal : s.g.ctor = s.g.dtor + s.cons

theorem inv_fresh : Inv fresh := by
  constructor <;> simp [fresh]

theorem ginv_fresh : GInv fresh := by
  constructor <;> simp [fresh]

theorem Inv.lt_len {s : RVec} (h : Inv s) {i : Nat} (hi : i < s.cap) : i < s.slots.length := by
  rw [h.len]; exact hi


/-! ### `reserve` -/

/-- state of the migration loop after `j` iterations -/
structure MigInv (c : Cfg) (s : RVec) (n j : Nat) (st : Buf × Buf × Ghost) : Prop where
  olen : st.1.length = s.cap
  nlen : st.2.1.length = n
  old : ∀ k, st.1[k]? = if k < j then (if k < s.cap then some Slot.raw else none) else s.slots[k]?
  new : ∀ k, st.2.1[k]? = if k < j then s.slots[k]? else if k < n then some Slot.raw else none
  gh : st.2.2 = { s.g with allocs := s.g.allocs + 1, allocElems := s.g.allocElems + n,
                           ctor := s.g.ctor + j, dtor := s.g.dtor + j }

theorem migrate_step {c : Cfg} {s : RVec} (h : Inv s) {n j : Nat} (hn : s.cap < n) (hj : j < s.cons)
    {st : Buf × Buf × Ghost} (hst : MigInv c s n j st) : MigInv c s n (j + 1) (migrateStep c j st) := by
  obtain ⟨old, new, g⟩ := st
  obtain ⟨v, hv⟩ := h.live j hj
  have hcl := h.cons_le
  have hlen := h.len
  have ho : old[j]? = some (Slot.live v) := by have := hst.old j; simp at this; rw [this, hv]
  have hnw : new[j]? = some Slot.raw := by
    have := hst.new j; simp at this; rw [this]; simp; omega
  have hjo : j < old.length := by have := hst.olen; simp at this; omega
  have ho2 : (old.set j (Slot.live (c.mvC v)))[j]? = some (Slot.live (c.mvC v)) := by simp [hjo]
  simp only [migrateStep, Buf.moveOut_live ho, Buf.constructIn_raw hnw, Buf.destroy_live ho2]
  have hold := hst.old
  have hnew := hst.new
  have hol := hst.olen
  have hnl := hst.nlen
  have hg := hst.gh
  simp only at hold hnew hol hnl hg
  constructor
  · simp [hol]
  · simp [hnl]
  · intro k
    simp only [List.getElem?_set]
    by_cases hk : j = k
    · subst hk; simp [hjo]; omega
    · have := hold k
      simp [hk]
      rw [this]
      by_cases h1 : k < j
      · simp [h1, show k < j + 1 by omega]
      · simp [h1, show ¬ k < j + 1 by omega]
  · intro k
    simp only [List.getElem?_set]
    by_cases hk : j = k
    · subst hk
      have : j < new.length := by omega
      simp [this, hv]
    · have := hnew k
      simp [hk]
      rw [this]
      by_cases h1 : k < j
      · simp [h1, show k < j + 1 by omega]
      · simp [h1, show ¬ k < j + 1 by omega]
  · simp [hg]; omega

theorem migrate_loop {c : Cfg} {s : RVec} (h : Inv s) {n : Nat} (hn : s.cap < n) :
    MigInv c s n s.cons
      (forUp (migrateStep c) 0 s.cons
        (s.slots, List.replicate n Slot.raw,
          { s.g with allocs := s.g.allocs + 1, allocElems := s.g.allocElems + n })) := by
  have := forUp_ind (migrateStep c) (fun j st => j ≤ s.cons → MigInv c s n j st) s.cons 0
    (s.slots, List.replicate n Slot.raw,
      { s.g with allocs := s.g.allocs + 1, allocElems := s.g.allocElems + n })
    (by
      intro _
      constructor
      · simpa using h.len
      · simp
      · intro k; simp
      · intro k; simp [List.getElem?_replicate]
      · simp)
    (by
      intro i t _ hi hp hle
      exact migrate_step h hn (by omega) (hp (by omega)))
  simpa using this (by omega)

theorem liveCount_eq_zero {b : Buf} (h : ∀ k, k < b.length → b[k]? = some Slot.raw) : liveCount b = 0 := by
  unfold liveCount
  rw [List.countP_eq_zero]
  intro x hx
  obtain ⟨k, hk, rfl⟩ := List.getElem_of_mem hx
  have := h k hk
  rw [List.getElem?_eq_getElem hk] at this
  simp at this
  simp [this]

/-- what `reserve` does to a well-formed vector -/
structure ReserveSpec (s t : RVec) (n : Nat) : Prop where
  inv : Inv t
  size : t.size = s.size
  cons : t.cons = s.cons
  cap : t.cap = max s.cap n
  keep : ∀ k, k < s.cons → t.slots[k]? = s.slots[k]?
  bad : t.g.bad = s.g.bad
  leaked : t.g.leaked = s.g.leaked
  bal : t.g.ctor + s.g.dtor = s.g.ctor + t.g.dtor
  noalloc : n ≤ s.cap → t = s
  allocs : t.g.allocs = s.g.allocs + (if n ≤ s.cap then 0 else 1)

theorem reserve_spec (c : Cfg) {s : RVec} (h : Inv s) (n : Nat) : ReserveSpec s (s.reserve c n) n := by
  by_cases hn : s.cap ≥ n
  · have : s.reserve c n = s := by simp [reserve, hn]
    rw [this]
    constructor <;> simp_all
  · have hn' : s.cap < n := by omega
    have hm := migrate_loop (c := c) h hn'
    generalize hst : forUp (migrateStep c) 0 s.cons
        (s.slots, List.replicate n Slot.raw,
          { s.g with allocs := s.g.allocs + 1, allocElems := s.g.allocElems + n }) = st at hm
    obtain ⟨old, new, g⟩ := st
    have hres : s.reserve c n =
        { s with slots := new, cap := n, g := { g with leaked := g.leaked + liveCount old } } := by
      simp [reserve, hn, hst]
    have hold := hm.old
    have hnew := hm.new
    have hol := hm.olen
    have hnl := hm.nlen
    have hg := hm.gh
    simp only at hold hnew hol hnl hg
    have hlc : liveCount old = 0 := by
      apply liveCount_eq_zero
      intro k hk
      rw [hold k]
      by_cases h1 : k < s.cons
      · simp [h1]; omega
      · simp [h1]; exact h.raw k (by omega) (by omega)
    rw [hres, hlc]
    have hcl := h.cons_le
    constructor
    · constructor
      · exact h.size_le
      · simp; omega
      · simpa using hnl
      · intro i hi
        simp at hi
        obtain ⟨v, hv⟩ := h.live i hi
        exact ⟨v, by simp [hnew i, hi, hv]⟩
      · intro i hi hi2
        simp at hi hi2
        simp [hnew i, show ¬ i < s.cons by omega, hi2]
    · rfl
    · rfl
    · simp; omega
    · intro k hk; simp [hnew k, hk]
    · simp [hg]
    · simp [hg]
    · simp [hg]; omega
    · intro hle; omega
    · simp [hg, hn]

end RVec
end Babylon.RVec
