/-
  Helper lemmas, part 5: two vector objects — swap, copy and move between objects with equal
  and different allocators, construction from another object, metadata re-creation.
-/
import Babylon.RVec.Lemmas4

namespace Babylon.RVec
open Babylon.Gen.RVec Babylon.Core

/-! ### the abstract two-vector machine (`std::vector` semantics; a moved-from source on a
different allocator keeps its size and holds whatever `mvX` leaves) -/

structure AWorld where
  a : List Val := []
  b : List Val := []
  ra : Nat := 0
  rb : Nat := 0
  deriving Repr, DecidableEq

namespace AWorld

def get (w : AWorld) : Reg → List Val
  | .A => w.a
  | .B => w.b
def res (w : AWorld) : Reg → Nat
  | .A => w.ra
  | .B => w.rb
def set (w : AWorld) (r : Reg) (xs : List Val) : AWorld :=
  match r with
  | .A => { w with a := xs }
  | .B => { w with b := xs }
def setRes (w : AWorld) (r : Reg) (k : Nat) : AWorld :=
  match r with
  | .A => { w with ra := k }
  | .B => { w with rb := k }

open World in
def apply (c : Cfg) (w : AWorld) : WOp → AWorld
  | .on r o => w.set r (listApply (w.get r) o)
  | .new r k => (w.set r []).setRes r k
  | .newList r k xs => (w.set r xs).setRes r k
  | .swap => { w with a := w.b, b := w.a }
  | .copyAssign dst => w.set dst (w.get dst.other)
  | .moveAssign dst =>
    if w.res dst == w.res dst.other then (w.set dst (w.get dst.other)).set dst.other (w.get dst)
    else (w.set dst (w.get dst.other)).set dst.other ((w.get dst.other).map c.mvX)
  | .copyCtor dst k => (w.set dst (w.get dst.other)).setRes dst k
  | .moveCtor dst k =>
    if k == w.res dst.other then ((w.set dst (w.get dst.other)).set dst.other []).setRes dst k
    else ((w.set dst (w.get dst.other)).set dst.other ((w.get dst.other).map c.mvX)).setRes dst k

open World in
def pre (w : AWorld) : WOp → Bool
  | .on r o => o.pre (w.get r).length
  | .swap => w.ra == w.rb
  | _ => true

def step (c : Cfg) (w : AWorld) (o : World.WOp) : AWorld :=
  if w.pre o then w.apply c o else w

end AWorld

/-! ### ghost sums -/

@[simp] theorem Ghost.add_bad (a b : Ghost) : (a.add b).bad = a.bad + b.bad := rfl
@[simp] theorem Ghost.add_leaked (a b : Ghost) : (a.add b).leaked = a.leaked + b.leaked := rfl
@[simp] theorem Ghost.add_ctor (a b : Ghost) : (a.add b).ctor = a.ctor + b.ctor := rfl
@[simp] theorem Ghost.add_dtor (a b : Ghost) : (a.add b).dtor = a.dtor + b.dtor := rfl
@[simp] theorem Ghost.add_allocs (a b : Ghost) : (a.add b).allocs = a.allocs + b.allocs := rfl
@[simp] theorem Ghost.add_allocElems (a b : Ghost) : (a.add b).allocElems = a.allocElems + b.allocElems := rfl

namespace World
open RVec

/-- the concrete world `w` represents the abstract world `aw`, and its ghost totals are sound -/
structure WInv (w : World) (aw : AWorld) : Prop where
  ia : Inv w.a
  ib : Inv w.b
  xa : Rep w.a aw.a
  xb : Rep w.b aw.b
  ra : w.ra = aw.ra
  rb : w.rb = aw.rb
  bad : w.retired.bad + w.a.g.bad + w.b.g.bad = 0
  leaked : w.retired.leaked + w.a.g.leaked + w.b.g.leaked = 0
  bal : w.retired.ctor + w.a.g.ctor + w.b.g.ctor = w.retired.dtor + w.a.g.dtor + w.b.g.dtor + w.a.cons + w.b.cons

theorem winv_init : WInv {} {} :=
  ⟨inv_fresh, inv_fresh, rep_fresh, rep_fresh, rfl, rfl, rfl, rfl, rfl⟩

/-- replace the object in register `r` by `t` representing `ys`, given how its ghost relates -/
theorem WInv.set_reg {w : World} {aw : AWorld} (h : WInv w aw) (r : Reg) {t : RVec} {ys : List Val}
    (it : Inv t) (xt : Rep t ys) (g : GStep (w.get r) t) : WInv (w.set r t) (aw.set r ys) := by
  cases r
  · have hb := g.bad; have hl := g.leaked; have hc := g.bal
    simp only [World.get] at hb hl hc
    exact ⟨it, h.ib, xt, h.xb, h.ra, h.rb, by have := h.bad; simp [World.set]; omega,
      by have := h.leaked; simp [World.set]; omega, by have := h.bal; simp [World.set]; omega⟩
  · have hb := g.bad; have hl := g.leaked; have hc := g.bal
    simp only [World.get] at hb hl hc
    exact ⟨h.ia, it, h.xa, xt, h.ra, h.rb, by have := h.bad; simp [World.set]; omega,
      by have := h.leaked; simp [World.set]; omega, by have := h.bal; simp [World.set]; omega⟩

theorem WInv.inv_get {w : World} {aw : AWorld} (h : WInv w aw) (r : Reg) : Inv (w.get r) := by
  cases r <;> simp [World.get, h.ia, h.ib]

theorem WInv.rep_get {w : World} {aw : AWorld} (h : WInv w aw) (r : Reg) : Rep (w.get r) (aw.get r) := by
  cases r <;> simp [World.get, AWorld.get, h.xa, h.xb]

theorem WInv.res_get {w : World} {aw : AWorld} (h : WInv w aw) (r : Reg) : w.res r = aw.res r := by
  cases r <;> simp [World.res, AWorld.res, h.ra, h.rb]

/-- destroy the object in `r` and install a newly constructed `t` (sound ghost of its own) -/
theorem WInv.renew {w : World} {aw : AWorld} (h : WInv w aw) (r : Reg) (k : Nat) {t : RVec} {ys : List Val}
    (it : Inv t) (xt : Rep t ys) (gt : GInv t) : WInv (w.renew r k t) ((aw.set r ys).setRes r k) := by
  cases r
  · have d := destruct_eff h.ia
    refine ⟨it, h.ib, xt, h.xb, rfl, h.rb, ?_, ?_, ?_⟩
    · have := h.bad; have := gt.bad; simp [World.renew, World.set, World.setRes, World.get, d.1] ; omega
    · have := h.leaked; have := gt.leaked; simp [World.renew, World.set, World.setRes, World.get, d.2.1]; omega
    · have := h.bal; have := gt.bal
      simp [World.renew, World.set, World.setRes, World.get, d.2.2.1, d.2.2.2.1]; omega
  · have d := destruct_eff h.ib
    refine ⟨h.ia, it, h.xa, xt, h.ra, rfl, ?_, ?_, ?_⟩
    · have := h.bad; have := gt.bad; simp [World.renew, World.set, World.setRes, World.get, d.1] ; omega
    · have := h.leaked; have := gt.leaked; simp [World.renew, World.set, World.setRes, World.get, d.2.1]; omega
    · have := h.bal; have := gt.bal
      simp [World.renew, World.set, World.setRes, World.get, d.2.2.1, d.2.2.2.1]; omega


/-! ### reading another object, swapping buffers, element-wise move -/

theorem take_eq_map_live {s : RVec} {xs : List Val} (x : Rep s xs) :
    s.slots.take s.size = xs.map Slot.live := by
  apply List.ext_getElem?
  intro k
  simp only [List.getElem?_take, List.getElem?_map]
  by_cases a : k < s.size
  · simp [a, x.cell k a]
  · simp [a, List.getElem?_eq_none (show xs.length ≤ k by have := x.len; omega)]

theorem filterMap_val_live (xs : List Val) : List.filterMap Slot.val? (xs.map Slot.live) = xs := by
  induction xs with
  | nil => rfl
  | cons y ys ih => simp only [List.map_cons, List.filterMap_cons, Slot.val?_live, ih]

theorem countP_live (xs : List Val) : List.countP Slot.isLive (xs.map Slot.live) = xs.length := by
  induction xs with
  | nil => rfl
  | cons y ys ih => simp [List.countP_cons, ih]

theorem readAll_spec {s : RVec} {xs : List Val} (x : Rep s xs) : s.readAll = (xs, 0) := by
  have hl := x.len
  simp only [readAll, take_eq_map_live x, liveCount]
  rw [filterMap_val_live, countP_live, hl]
  simp

/-- state of the element-wise move loop after `j` elements; `d0` = destination after
`clear(); reserve(other.size())` -/
structure MoveInv (c : Cfg) (d0 src : RVec) (xs : List Val) (j : Nat) (p : RVec × RVec) : Prop where
  dinv : Inv p.1
  drep : Rep p.1 (xs.take j)
  dg : GStep d0 p.1
  ssize : p.2.size = src.size
  scons : p.2.cons = src.cons
  scap : p.2.cap = src.cap
  slen : p.2.slots.length = src.slots.length
  sg : p.2.g = src.g
  scell : ∀ k, p.2.slots[k]? = if k < j then (xs[k]?).map (fun v => Slot.live (c.mvX v)) else src.slots[k]?

theorem moveElems_spec (c : Cfg) {dst src : RVec} (hd : Inv dst) (hs : Inv src) {xs : List Val} (x : Rep src xs) :
    Inv (moveElems c dst src).1 ∧ Rep (moveElems c dst src).1 xs ∧ GStep dst (moveElems c dst src).1 ∧
      Inv (moveElems c dst src).2 ∧ Rep (moveElems c dst src).2 (xs.map c.mvX) ∧
      (moveElems c dst src).2.g = src.g ∧ (moveElems c dst src).2.cons = src.cons := by
  have a := clear_spec hd
  have r := reserve_spec c a.inv src.size
  generalize hd0 : dst.clear.reserve c src.size = d0 at r
  have hxl := x.len
  have hsl := hs.size_le
  have loop := forUp_ind
    (fun i (p : RVec × RVec) =>
      let (b, g, v) := p.2.slots.moveOut p.2.g i c.mvX
      (p.1.emplaceBackWith c c.rebuildMove v, { p.2 with slots := b, g := g }))
    (fun j p => j ≤ src.size → MoveInv c d0 src xs j p) src.size 0 (d0, src)
    (by
      intro _
      exact ⟨r.inv, by simpa using r.rep a.inv a.rep, GStep.refl _, rfl, rfl, rfl, rfl, rfl, by intro k; simp⟩)
    (by
      intro i p _ hi hp hle
      have e := hp (by omega)
      obtain ⟨p1, p2⟩ := p
      have hsrc : p2.slots[i]? = some (Slot.live xs[i]) := by
        have := e.scell i
        simp only [Nat.lt_irrefl, if_false] at this
        rw [this, x.cell i (by omega)]
        simp [List.getElem?_eq_getElem (show i < xs.length by omega)]
      have hil : i < p2.slots.length := getElem?_lt_of_eq_some hsrc
      simp only [Buf.moveOut_live hsrc]
      have eb := emplaceBackWith_spec c c.rebuildMove e.dinv e.drep xs[i]
      refine ⟨eb.inv, ?_, e.dg.trans eb.g, e.ssize, e.scons, e.scap, by simpa using e.slen, e.sg, ?_⟩
      · have : xs.take (i + 1) = xs.take i ++ [xs[i]] := by
          rw [List.take_succ, List.getElem?_eq_getElem (show i < xs.length by omega)]
          rfl
        rw [this]
        exact eb.rep
      · intro k
        simp only [List.getElem?_set]
        by_cases b : i = k
        · subst b
          simp [hil, List.getElem?_eq_getElem (show i < xs.length by omega)]
        · simp only [b, if_false]
          rw [e.scell k]
          by_cases b2 : k < i
          · simp [b2, show k < i + 1 by omega]
          · simp [b2, show ¬ k < i + 1 by omega])
  have e := loop (by omega)
  simp only [Nat.zero_add] at e
  have hme : moveElems c dst src = forUp
    (fun i (p : RVec × RVec) =>
      let (b, g, v) := p.2.slots.moveOut p.2.g i c.mvX
      (p.1.emplaceBackWith c c.rebuildMove v, { p.2 with slots := b, g := g })) 0 src.size (d0, src) := by
    simp only [moveElems, hd0]
  rw [hme]
  generalize forUp _ 0 src.size (d0, src) = p at e
  obtain ⟨p1, p2⟩ := p
  have hg0 : GStep dst d0 := a.g.trans r.gstep
  refine ⟨e.dinv, ?_, hg0.trans e.dg, ?_, ?_, e.sg, e.scons⟩
  · have := e.drep
    rwa [← hxl, List.take_length] at this
  · constructor
    · rw [e.ssize, e.scons]; exact hs.size_le
    · rw [e.scons, e.scap]; exact hs.cons_le
    · rw [e.slen, e.scap]; exact hs.len
    · intro k hk
      rw [e.scons] at hk
      rw [e.scell k]
      by_cases b : k < src.size
      · simp only [b, if_true]
        exact ⟨c.mvX xs[k], by simp [List.getElem?_eq_getElem (show k < xs.length by omega)]⟩
      · simp only [b, if_false]; exact hs.live k hk
    · intro k hk hk2
      rw [e.scons] at hk
      rw [e.scap] at hk2
      rw [e.scell k]
      have b : ¬ k < src.size := by omega
      simp only [b, if_false]; exact hs.raw k hk hk2
  · refine ⟨by rw [List.length_map, hxl]; exact e.ssize.symm, ?_⟩
    intro k hk
    rw [e.ssize] at hk
    rw [e.scell k]
    simp only [hk, if_true, List.getElem?_map]
    cases xs[k]? <;> rfl

theorem swapBufs_spec {x y : RVec} {xs ys : List Val} (ix : Inv x) (iy : Inv y) (rx : Rep x xs) (ry : Rep y ys) :
    Inv (swapBufs x y).1 ∧ Inv (swapBufs x y).2 ∧ Rep (swapBufs x y).1 ys ∧ Rep (swapBufs x y).2 xs ∧
      (swapBufs x y).1.g = x.g ∧ (swapBufs x y).2.g = y.g ∧ (swapBufs x y).1.cons = y.cons ∧
      (swapBufs x y).2.cons = x.cons :=
  ⟨⟨iy.size_le, iy.cons_le, iy.len, iy.live, iy.raw⟩, ⟨ix.size_le, ix.cons_le, ix.len, ix.live, ix.raw⟩,
    ⟨ry.len, ry.cell⟩, ⟨rx.len, rx.cell⟩, rfl, rfl, rfl, rfl⟩


/-! ### every two-object operation -/

theorem WInv.set_pair {w : World} {aw : AWorld} (h : WInv w aw) (r : Reg) {x y : RVec} {xs ys : List Val}
    (ix : Inv x) (iy : Inv y) (rx : Rep x xs) (ry : Rep y ys)
    (hb : x.g.bad + y.g.bad = (w.get r).g.bad + (w.get r.other).g.bad)
    (hl : x.g.leaked + y.g.leaked = (w.get r).g.leaked + (w.get r.other).g.leaked)
    (hc : x.g.ctor + y.g.ctor + (w.get r).g.dtor + (w.get r.other).g.dtor + (w.get r).cons + (w.get r.other).cons
        = (w.get r).g.ctor + (w.get r.other).g.ctor + x.g.dtor + y.g.dtor + x.cons + y.cons) :
    WInv ((w.set r x).set r.other y) ((aw.set r xs).set r.other ys) := by
  cases r
  · simp only [World.get, Reg.other] at hb hl hc
    exact ⟨ix, iy, rx, ry, h.ra, h.rb, by have := h.bad; simp [World.set, Reg.other]; omega,
      by have := h.leaked; simp [World.set, Reg.other]; omega, by have := h.bal; simp [World.set, Reg.other]; omega⟩
  · simp only [World.get, Reg.other] at hb hl hc
    exact ⟨iy, ix, ry, rx, h.ra, h.rb, by have := h.bad; simp [World.set, Reg.other]; omega,
      by have := h.leaked; simp [World.set, Reg.other]; omega, by have := h.bal; simp [World.set, Reg.other]; omega⟩

theorem pre_agree {w : World} {aw : AWorld} (h : WInv w aw) (o : WOp) : o.pre w = aw.pre o := by
  cases o with
  | on r o => cases r <;> simp [WOp.pre, AWorld.pre, World.get, AWorld.get, h.xa.len, h.xb.len]
  | swap => simp [WOp.pre, AWorld.pre, h.ra, h.rb]
  | _ => rfl

/-- the element-wise or swapping move of `other` into `dst` (shared by move assignment and the
allocator-extended move constructor) -/
theorem move_into {w : World} {aw : AWorld} (c : Cfg) (h : WInv w aw) (dst : Reg) :
    WInv
      (if w.res dst == w.res dst.other then
        ((w.set dst (swapBufs (w.get dst) (w.get dst.other)).1).set dst.other (swapBufs (w.get dst) (w.get dst.other)).2)
       else
        ((w.set dst (moveElems c (w.get dst) (w.get dst.other)).1).set dst.other (moveElems c (w.get dst) (w.get dst.other)).2))
      (if aw.res dst == aw.res dst.other then (aw.set dst (aw.get dst.other)).set dst.other (aw.get dst)
       else (aw.set dst (aw.get dst.other)).set dst.other ((aw.get dst.other).map c.mvX)) := by
  rw [h.res_get dst, h.res_get dst.other]
  by_cases e : (aw.res dst == aw.res dst.other) = true
  · simp only [e, if_true]
    have sp := swapBufs_spec (h.inv_get dst) (h.inv_get dst.other) (h.rep_get dst) (h.rep_get dst.other)
    exact h.set_pair dst sp.1 sp.2.1 sp.2.2.1 sp.2.2.2.1
      (by rw [sp.2.2.2.2.1, sp.2.2.2.2.2.1]) (by rw [sp.2.2.2.2.1, sp.2.2.2.2.2.1])
      (by rw [sp.2.2.2.2.1, sp.2.2.2.2.2.1, sp.2.2.2.2.2.2.1, sp.2.2.2.2.2.2.2]; omega)
  · simp only [e]
    have me := moveElems_spec c (h.inv_get dst) (h.inv_get dst.other) (h.rep_get dst.other)
    have g := me.2.2.1
    exact h.set_pair dst me.1 me.2.2.2.1 me.2.1 me.2.2.2.2.1
      (by rw [me.2.2.2.2.2.1, g.bad]) (by rw [me.2.2.2.2.2.1, g.leaked])
      (by have := g.bal; rw [me.2.2.2.2.2.1, me.2.2.2.2.2.2]; omega)

theorem apply_winv (c : Cfg) {w : World} {aw : AWorld} (h : WInv w aw) (o : WOp) (hp : o.pre w = true) :
    WInv (w.apply c o) (aw.apply c o) := by
  cases o with
  | on r o =>
    have a := apply_spec c (h.inv_get r) (h.rep_get r) o (by simpa [WOp.pre] using hp)
    exact h.set_reg r a.inv a.rep a.g
  | new r k => exact h.renew r k inv_fresh rep_fresh ginv_fresh
  | newList r k xs =>
    have a := ofList_spec xs
    exact h.renew r k a.1 a.2.1 a.2.2.1
  | swap =>
    have sp := swapBufs_spec h.ia h.ib h.xa h.xb
    simp only [World.apply, AWorld.apply]
    exact ⟨sp.1, sp.2.1, sp.2.2.1, sp.2.2.2.1, h.ra, h.rb,
      by have := h.bad; simp [swapBufs]; omega, by have := h.leaked; simp [swapBufs]; omega,
      by have := h.bal; simp [swapBufs]; omega⟩
  | copyAssign dst =>
    simp only [World.apply, AWorld.apply, readAll_spec (h.rep_get dst.other)]
    have a := assignRange_spec c (h.inv_get dst) (aw.get dst.other)
    refine h.set_reg dst (t := { (w.get dst).assignRange c (aw.get dst.other) with
        g := { ((w.get dst).assignRange c (aw.get dst.other)).g with
               bad := ((w.get dst).assignRange c (aw.get dst.other)).g.bad + 0 } })
      ⟨a.inv.size_le, a.inv.cons_le, a.inv.len, a.inv.live, a.inv.raw⟩ ⟨a.rep.len, a.rep.cell⟩
      ⟨by simpa using a.g.bad, a.g.leaked, a.g.bal⟩
  | moveAssign dst =>
    simp only [World.apply, AWorld.apply]
    have := move_into c h dst
    split <;> simp_all
  | copyCtor dst k =>
    simp only [World.apply, AWorld.apply, readAll_spec (h.rep_get dst.other)]
    have a := ofList_spec (aw.get dst.other)
    refine h.renew dst k (t := { ofList (aw.get dst.other) with
        g := { (ofList (aw.get dst.other)).g with bad := (ofList (aw.get dst.other)).g.bad + 0 } })
      ⟨a.1.size_le, a.1.cons_le, a.1.len, a.1.live, a.1.raw⟩ ⟨a.2.1.len, a.2.1.cell⟩
      ⟨by simpa using a.2.2.1.bad, a.2.2.1.leaked, a.2.2.1.bal⟩
  | moveCtor dst k =>
    have h1 := h.renew dst k inv_fresh rep_fresh ginv_fresh
    have := move_into c h1 dst
    cases dst <;>
      simpa [World.apply, AWorld.apply, World.renew, World.set, World.setRes, World.get, World.res, AWorld.set,
        AWorld.setRes, AWorld.get, AWorld.res, Reg.other] using this

theorem step_winv (c : Cfg) {w : World} {aw : AWorld} (h : WInv w aw) (o : WOp) :
    WInv (w.step c o) (aw.step c o) := by
  have hp := pre_agree h o
  by_cases e : o.pre w = true
  · have e' : aw.pre o = true := by rw [← hp]; exact e
    simp only [World.step, AWorld.step, e, e', if_true]
    exact apply_winv c h o e
  · have e' : ¬ aw.pre o = true := by rw [← hp]; exact e
    simp only [World.step, AWorld.step, e, e']
    exact h

theorem run_winv (c : Cfg) : ∀ (ops : List WOp) {w : World} {aw : AWorld}, WInv w aw →
    WInv (runOps (World.step c) w ops) (runOps (AWorld.step c) aw ops) := by
  intro ops
  induction ops with
  | nil => intro w aw h; exact h
  | cons o ops ih => intro w aw h; exact ih (step_winv c h o)

end World
end Babylon.RVec
