/-
  Preservation of the Epoch invariant, part 8: the end of `create_accessor` (after `ensure`) and the
  successful CAS that grows the block table.
-/
import Babylon.Epoch.Steps7

namespace Babylon.Epoch
open Babylon.Core Babylon.Core.MemView

/-- memory facts shared by the ways `ensure` can finish -/
structure EnsureMem (c : Cfg) (s : State) (m : Mem Loc) (t i : Nat) : Prop where
  ext : s.mem.Ext m
  wf : m.WF
  tv : ∀ t', t' ≠ t → m.tv t' = s.mem.tv t'
  hist : ∀ l, l ≠ Loc.tbl → m.hist l = s.mem.hist l
  mono : ∀ (a b : Nat) (ma mb : Msg Loc), a ≤ b → (m.hist .tbl)[a]? = some ma → (m.hist .tbl)[b]? = some mb → ma.val ≤ mb.val
  cap : CapOK c { s with mem := m } (m.tv t).cur i

theorem EnsureMem.of_read {c : Cfg} {o : Orders} {s : State} {m : Mem Loc} {t i ts nb : Nat} {oo : Core.Ord}
    (inv : Inv c o s) (hbs : 0 < c.bs) (hr : s.mem.read t .tbl oo ts = some (m, nb)) (hneed : c.need i ≤ nb) :
    EnsureMem c s m t i :=
  ⟨Mem.read_ext hr, Mem.read_wf hr inv.wf, fun t' e => Mem.read_tv_other hr t' e, fun l _ => by rw [Mem.read_hist hr],
   by rw [Mem.read_hist hr]; exact inv.tblMono, capOK_of_read inv hbs hr hneed rfl⟩

/-- the CAS of `ensure` installed a table with `need i` blocks -/
theorem EnsureMem.of_grow {c : Cfg} {o : Orders} {s : State} {m : Mem Loc} {t i seen obs : Nat} {so : Core.Ord}
    (inv : Inv c o s) (hbs : 0 < c.bs) (hseen : seen < c.need i)
    (hr : s.mem.rmw t .tbl so (fun _ => c.need i) = some (m, obs)) (hobs : obs = seen) :
    EnsureMem c s m t i := by
  obtain ⟨msg, W, hlast, hold, hh, hho, htv, hmW, hrelW, hcur, hacq, hts, hmacq, hmcur, hscf, hnsc⟩ := Mem.rmw_facts hr
  have hwf := Mem.rmw_wf hr inv.wf
  have hne := inv.wf.nonempty .tbl
  have hm : (s.mem.hist .tbl)[s.mem.len .tbl - 1]? = some msg := getLast?_getElem? _ _ hlast
  have hmono : ∀ (a b : Nat) (ma mb : Msg Loc), a ≤ b → (m.hist .tbl)[a]? = some ma → (m.hist .tbl)[b]? = some mb → ma.val ≤ mb.val := by
    intro a b ma mb hab ha hb
    rw [hh] at ha hb
    rcases getElem?_append_one hb with hb1 | ⟨hb1, hb2⟩
    · have hblt := getElem?_lt hb1
      rcases getElem?_append_one ha with ha1 | ⟨ha1, _⟩
      · exact inv.tblMono a b ma mb hab ha1 hb1
      · omega
    · subst hb2
      simp only
      rcases getElem?_append_one ha with ha1 | ⟨_, ha2⟩
      · have halt := getElem?_lt ha1
        have := inv.tblMono a (s.mem.len .tbl - 1) ma msg (by simp [Mem.len]; omega) ha1 hm
        omega
      · subst ha2; exact Nat.le_refl _
  refine ⟨Mem.rmw_ext hr, hwf, htv, hho, hmono, ?_⟩
  apply capOK_of_msg hbs (ts := s.mem.len .tbl) (msg := ⟨c.need i, W⟩) hmono
  · show (m.hist .tbl)[s.mem.len .tbl]? = some _
    rw [hh]; simp [Mem.len]
  · exact Nat.le_refl _
  · exact hts
  · exact hwf.cur t

/-- `create_accessor` returns (Accessor style): the accessor of slot `i` exists from here -/
theorem Inv.step_ensure_create {c : Cfg} {o : Orders} {s : State} {m : Mem Loc} {t i : Nat}
    (inv : Inv c o s) (hp : (∃ seen, s.pc t = .en1 i seen .kCreate) ∨ s.pc t = .en0 i .kCreate)
    (em : EnsureMem c s m t i) : Inv c o (finishCreate c s m t i) := by
  have hpc : s.own i = .held t ∧ c.tls = false := by
    have := inv.pcs t; unfold PcOK at this
    rcases hp with ⟨seen, hp⟩ | hp <;> rw [hp] at this
    · exact ⟨this.1, this.2.2 rfl⟩
    · exact ⟨this.1, this.2 rfl⟩
  obtain ⟨hown, htls⟩ := hpc
  have hnolk3 : ∀ t', (s.pc t').lk3At i = false := fun t' => by
    by_cases e : t' = t
    · subst e; rcases hp with ⟨seen, hp⟩ | hp <;> simp [hp, Pc.lk3At]
    · cases h : (s.pc t').lk3At i with
      | false => rfl
      | true => have := inv.not_uses hown e; rw [Pc.lk3At_uses h] at this; cases this
  have hnolk : ∀ t', (s.pc t').lkAt i = false := fun t' => by
    by_cases e : t' = t
    · subst e; rcases hp with ⟨seen, hp⟩ | hp <;> simp [hp, Pc.lkAt]
    · cases h : (s.pc t').lkAt i with
      | false => rfl
      | true => have := inv.not_uses hown e; rw [Pc.lkAt_uses h] at this; cases this
  have hav : s.av i ≤ (m.tv t).cur := View.le_trans (inv.acc i t hown).1 (em.ext.cur t)
  unfold finishCreate
  simp only [htls, Bool.false_eq_true, if_false]
  apply inv.slot_step (s' := { s with mem := m, pc := upd s.pc t .idle, ret := upd s.ret t (some i), av := upd s.av i (m.tv t).cur })
    (t := t) (i0 := i) hown em.ext em.wf em.tv (fun l _ hl => em.hist l hl) em.mono <;> try rfl
  · intro j _; rfl
  · intro j _; rfl
  · intro j _; rfl
  · intro j e; simp [e]
  · intro t' e; simp [e]
  · intro j e; rcases hp with ⟨seen, hp⟩ | hp <;> simp [hp, Pc.crAt] <;> exact fun h => e h.symm
  · intro j e; rcases hp with ⟨seen, hp⟩ | hp <;> simp [hp, Pc.lkAt]
  · intro j e; rcases hp with ⟨seen, hp⟩ | hp <;> simp [hp, Pc.lk3At]
  · simp only [upd_same, State.cur]; exact ⟨hav, View.le_refl _⟩
  · intro _ _; simp only [upd_same]; exact em.cap
  · intro V h
    exact (inv.region i V h).frame em.ext (em.hist _ (by simp)) (by simpa using hav) rfl (fun _ _ => rfl)
      (inv.region i V h).depth
  · intro V e W h1 h2; exact inv.dich i V e W h1 h2
  · intro hfv _
    obtain ⟨h1, h2⟩ := inv.closed i hfv hnolk3
    have hb := em.wf.cur t (.slot i)
    have hh := em.hist (.slot i) (by simp)
    have hl : m.len (.slot i) = s.mem.len (.slot i) := by simp [Mem.len, hh]
    refine ⟨?_, ?_⟩
    · show ∃ msg, (m.hist (.slot i))[m.len (.slot i) - 1]? = some msg ∧ msg.val = MAX
      rw [hl, hh]; exact h1
    · show ((upd s.av i (m.tv t).cur) i).get (.slot i) + 1 = m.len (.slot i)
      simp only [upd_same]
      have := hav (.slot i)
      omega
  · intro hfv _; exact inv.depth i hfv hnolk
  · intro e V h1 h2; exact (inv.recl e h1).2 i V h2
  · simp [PcOK]

/-- the CAS of `ensure` inside thread-local `lock()` succeeded: go on with `lock(index)` -/
theorem Inv.step_ensure_grow_lock {c : Cfg} {o : Orders} {s : State} {m : Mem Loc} {t i seen : Nat}
    (inv : Inv c o s) (hp : s.pc t = .en1 i seen .kLock) (em : EnsureMem c s m t i) :
    Inv c o { s with mem := m, pc := upd s.pc t (.lk0 i) } := by
  have hpc := inv.pcs t; unfold PcOK at hpc; rw [hp] at hpc
  obtain ⟨hown, _, _⟩ := hpc
  have hnolk3 : ∀ t', (s.pc t').lk3At i = false := fun t' => by
    by_cases e : t' = t
    · subst e; simp [hp, Pc.lk3At]
    · cases h : (s.pc t').lk3At i with
      | false => rfl
      | true => have := inv.not_uses hown e; rw [Pc.lk3At_uses h] at this; cases this
  have hnolk : ∀ t', (s.pc t').lkAt i = false := fun t' => by
    by_cases e : t' = t
    · subst e; simp [hp, Pc.lkAt]
    · cases h : (s.pc t').lkAt i with
      | false => rfl
      | true => have := inv.not_uses hown e; rw [Pc.lkAt_uses h] at this; cases this
  have hnc : ¬ creating s i t := by simp [creating, hp, Pc.crAt]
  apply inv.slot_step (s' := { s with mem := m, pc := upd s.pc t (.lk0 i) })
    (t := t) (i0 := i) hown em.ext em.wf em.tv (fun l _ hl => em.hist l hl) em.mono <;> try rfl
  · intro j _; rfl
  · intro j _; rfl
  · intro j _; rfl
  · intro j _; rfl
  · intro t' e; simp [e]
  · intro j e; simp [hp, Pc.crAt]
  · intro j e; simp [hp, Pc.lkAt]
  · intro j e; simp [hp, Pc.lk3At]
  · exact ⟨View.le_refl _, View.le_trans (inv.acc i t hown).1 (em.ext.cur t)⟩
  · intro ht _; exact (inv.accCap i t hown ht hnc).ext em.ext
  · intro V h
    exact (inv.region i V h).frame em.ext (em.hist _ (by simp)) (View.le_refl _) rfl (fun _ _ => rfl)
      (inv.region i V h).depth
  · intro V e W h1 h2; exact inv.dich i V e W h1 h2
  · intro hfv _
    obtain ⟨h1, h2⟩ := inv.closed i hfv hnolk3
    have hh := em.hist (.slot i) (by simp)
    have hl : m.len (.slot i) = s.mem.len (.slot i) := by simp [Mem.len, hh]
    refine ⟨?_, ?_⟩
    · show ∃ msg, (m.hist (.slot i))[m.len (.slot i) - 1]? = some msg ∧ msg.val = MAX
      rw [hl, hh]; exact h1
    · show (s.av i).get (.slot i) + 1 = m.len (.slot i)
      rw [hl]; exact h2
  · intro hfv _; exact inv.depth i hfv hnolk
  · intro e V h1 h2; exact (inv.recl e h1).2 i V h2
  · simp only [PcOK, upd_same]; exact ⟨hown, fun _ => em.cap⟩

end Babylon.Epoch
