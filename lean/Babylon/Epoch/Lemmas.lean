/-
  The Epoch invariant holds in every reachable state of the view-memory model: assembly of the
  per-step lemmas (Steps1 … Steps10) and the initial state.
-/
import Babylon.Epoch.Steps10
import Babylon.Core.Reach

namespace Babylon.Epoch
open Babylon.Core Babylon.Core.MemView

theorem Inv.stepThread {c : Cfg} {o : Orders} {s s' : State} {t ch : Nat} {l : Label} (inv : Inv c o s)
    (hbs : 0 < c.bs) (ho : o.Safe) (h : stepThread c o s t ch = some (s', l)) : Inv c o s' := by
  unfold Epoch.stepThread at h
  split at h
  · cases h
  · -- cr0
    rename_i hp
    split at h
    · split at h
      · cases h
      · rename_i m old hr
        cases h
        exact inv.step_cr0_mint hp hr
    · split at h
      · rename_i hfree
        split at h
        · cases h
        · rename_i m old hr
          cases h
          exact inv.step_cr0_pop ho hp hfree hr
      · cases h
  · -- en0
    rename_i i k hp
    split at h
    · cases h
    · rename_i m nb hr
      cases h
      split
      · rename_i hneed
        cases k with
        | kCreate => exact inv.step_ensure_create (Or.inr hp) (EnsureMem.of_read inv hbs hr hneed)
        | kLock => exact inv.step_ensure_lock (Or.inr hp) (QuietMem.of_read inv.wf hr) (capOK_of_read inv hbs hr hneed rfl)
      · rename_i hneed
        exact inv.step_ensure_retry (Or.inr hp) (QuietMem.of_read inv.wf hr) (by omega)
  · -- en1
    rename_i i seen k hp
    split at h
    · cases h
    · rename_i m ok obs hr
      cases h
      have hpc := inv.pcs t; unfold PcOK at hpc; rw [hp] at hpc
      rcases Mem.cas_spec hr with ⟨hok, hobs, hrmw⟩ | ⟨hok, hobs, hread⟩
      · subst hok
        simp only [true_or, if_true]
        have em := EnsureMem.of_grow inv hbs hpc.2.1 hrmw hobs
        cases k with
        | kCreate => exact inv.step_ensure_create (Or.inl ⟨seen, hp⟩) em
        | kLock => exact inv.step_ensure_grow_lock hp em
      · subst hok
        simp only [Bool.false_eq_true, false_or]
        split
        · rename_i hneed
          cases k with
          | kCreate => exact inv.step_ensure_create (Or.inl ⟨seen, hp⟩) (EnsureMem.of_read inv hbs hread hneed)
          | kLock => exact inv.step_ensure_lock (Or.inl ⟨seen, hp⟩) (QuietMem.of_read inv.wf hread) (capOK_of_read inv hbs hread hneed rfl)
        · rename_i hneed
          exact inv.step_ensure_retry (Or.inl ⟨seen, hp⟩) (QuietMem.of_read inv.wf hread) (by omega)
  · -- lk0
    rename_i i hp
    split at h
    · cases h
    · rename_i m nb hr
      cases h
      split
      · rename_i hd; exact inv.step_lk0_first hp hr hd
      · rename_i hd; exact inv.step_lk0_nested hp hr hd
  · -- lk1
    rename_i i hp
    split at h
    · cases h
    · rename_i m v hr
      cases h
      exact inv.step_lk1 hp hr
  · -- lk2
    rename_i i v hp
    cases h
    exact inv.step_lk2 hp
  · -- lk3
    rename_i i v hp
    cases h
    exact inv.step_lk3 ho hp
  · -- ul0
    rename_i i hp
    split at h
    · cases h
    · rename_i m nb hr
      cases h
      split
      · rename_i hd; exact inv.step_ul0_last hp (QuietMem.of_read inv.wf hr) hd
      · rename_i hd; exact inv.step_ul0_nested hp hr hd
  · -- ul1
    rename_i i hp
    cases h
    exact inv.step_ul1 hp
  · -- rl0
    rename_i i hp
    split at h
    · cases h
    · rename_i m nb hr
      cases h
      exact inv.step_rl0 hp (QuietMem.of_read inv.wf hr)
  · -- rl1
    rename_i i hp
    cases h
    exact inv.step_rl1 hp
  · -- rl2
    rename_i i hp
    split at h
    · cases h
    · rename_i m old hr
      cases h
      exact inv.step_rl2 ho hp hr
  · -- tk0
    rename_i hp
    split at h
    · cases h
    · rename_i m old hr
      cases h
      rcases ho.tick with ⟨hsc, hnone⟩ | ⟨hrel, hf⟩
      · rw [hnone]; exact inv.step_tk0_sc hsc hp hr
      · rw [hf]; exact inv.step_tk0_fence hrel hf hp hr
  · -- tk1
    rename_i e hp
    rcases ho.tick with ⟨_, hnone⟩ | ⟨_, hf⟩
    · rw [hnone] at h; cases h
    · rw [hf] at h
      cases h
      exact inv.step_tk1 hf hp
  · -- sc0
    rename_i hp
    split at h
    · cases h
    · rename_i m nb hr
      cases h
      exact inv.step_sc0 hp hr
  · -- sc1
    rename_i S hp
    split at h
    · cases h
    · rename_i m n hr
      cases h
      exact inv.step_sc1 hp hr
  · -- sc2
    rename_i S hp
    split at h
    · cases h
    · rename_i m n hr
      cases h
      exact inv.step_sc2 hp hr
  · -- sc3
    rename_i B j mn hp
    split at h
    · cases h
    · rename_i m v hr
      cases h
      exact inv.step_sc3 hp hr

theorem Inv.step {c : Cfg} {o : Orders} {s s' : State} (inv : Inv c o s) (hbs : 0 < c.bs) (ho : o.Safe)
    (h : Step c o s s') : Inv c o s' := by
  cases h
  case act hst => exact inv.stepThread hbs ho hst
  case create hidle hg => exact inv.callCreate hidle hg
  case lock hidle htls hown => exact inv.callLock hidle htls hown
  case lockT hidle _ hts => exact inv.callLockT hidle hts
  case unlock hidle hown hlt => exact inv.callUnlock hidle hown hlt
  case release hidle _ hown => exact inv.callRelease hidle hown
  case releaseT hidle _ hown hlt => exact inv.callReleaseT hidle hown hlt
  case tick hidle => exact inv.callTick hidle
  case scan hidle => exact inv.callScan hidle
  case move htls hown hnu hidle hle => exact inv.step_move htls hown hnu hidle hle
  case cload hidle hl => exact inv.clientLoad hidle hl
  case cstore hidle => exact inv.clientStore hidle
  case cxchg hidle hx => exact inv.clientXchg hidle hx
  case cfence hidle => exact inv.clientFence hidle

end Babylon.Epoch

namespace Babylon.Epoch
open Babylon.Core Babylon.Core.MemView

/-- memory of the initial state -/
def initMem (c : Cfg) : Mem Loc := (State.init c).mem

theorem initMem_hist (c : Cfg) (l : Loc) :
    (initMem c).hist l =
      if c.tls = true then
        (match l with
          | .ntid => (List.range (c.n0 + 1)).map (fun k => (⟨k, View.bot⟩ : Msg Loc))
          | .fl i => if i < c.n0 then [⟨0, View.bot.bump .ntid c.n0⟩] else [⟨0, View.bot⟩]
          | l => [⟨initVal c l, View.bot⟩])
      else [⟨initVal c l, View.bot⟩] := by
  unfold initMem State.init
  cases c.tls <;> simp [Mem.init]
  cases l <;> simp

theorem initMem_tv (c : Cfg) (t : Nat) : (initMem c).tv t = TView.bot := by
  unfold initMem State.init; cases c.tls <;> simp [Mem.init]
theorem initMem_sc (c : Cfg) : (initMem c).sc = View.bot := by
  unfold initMem State.init; cases c.tls <;> simp [Mem.init]

theorem initMem_hist_simple (c : Cfg) (l : Loc) (h1 : l ≠ .ntid) (h2 : ∀ i, l ≠ .fl i) :
    (initMem c).hist l = [⟨initVal c l, View.bot⟩] := by
  rw [initMem_hist]
  split
  · cases l <;> simp_all
  · rfl

theorem initMem_len_pos (c : Cfg) (l : Loc) : 0 < (initMem c).len l := by
  unfold Mem.len; rw [initMem_hist]
  split
  · cases l <;> simp
    split <;> simp
  · simp

theorem initMem_ntid_len (c : Cfg) : (initMem c).len .ntid = if c.tls = true then c.n0 + 1 else 1 := by
  unfold Mem.len; rw [initMem_hist]; split <;> simp

theorem bot_bounded (c : Cfg) : View.Bounded (initMem c) (View.bot : View Loc) := fun l => by
  simpa using initMem_len_pos c l

theorem initMem_wf (c : Cfg) : (initMem c).WF := by
  have hb := bot_bounded c
  constructor
  · exact initMem_len_pos c
  · intro t; rw [initMem_tv]; exact hb
  · intro t; rw [initMem_tv]; exact hb
  · intro t; rw [initMem_tv]; exact hb
  · rw [initMem_sc]; exact hb
  · intro l ts mg hm
    rw [initMem_hist] at hm
    split at hm
    · rename_i htls
      cases l with
      | ntid =>
        simp only [List.getElem?_map] at hm
        cases hk : (List.range (c.n0 + 1))[ts]? with
        | none => rw [hk] at hm; cases hm
        | some k => rw [hk] at hm; cases hm; exact hb
      | fl i =>
        simp only at hm
        split at hm
        · rcases ts with _ | ts
          · simp at hm; subst hm
            apply hb.bump
            rw [initMem_ntid_len]; simp [htls]
          · simp at hm
        · rcases ts with _ | ts
          · simp at hm; subst hm; exact hb
          · simp at hm
      | gver | nacc | tbl | slot _ | cl _ =>
        rcases ts with _ | ts
        · simp at hm; subst hm; exact hb
        · simp at hm
    · rcases ts with _ | ts
      · simp at hm; subst hm; exact hb
      · simp at hm
  · intro t; rw [initMem_tv]; exact View.le_refl _
  · intro t; rw [initMem_tv]; exact View.le_refl _

theorem single_get {α : Type} {a b : α} {k : Nat} (h : [a][k]? = some b) : k = 0 ∧ b = a := by
  rcases k with _ | k
  · simp at h; exact ⟨rfl, h.symm⟩
  · simp at h

theorem Inv.init (c : Cfg) (o : Orders) : Inv c o (State.init c) := by
  have hmem : (State.init c).mem = initMem c := rfl
  have hpc : ∀ t, (State.init c).pc t = .idle := fun _ => rfl
  have hfv : ∀ i, (State.init c).fv i = none := fun _ => rfl
  have hlt : ∀ i, (State.init c).lt i = 0 := fun _ => rfl
  have hav : ∀ i, (State.init c).av i = View.bot := fun _ => rfl
  have hown : ∀ i, (State.init c).own i = if c.tls ∧ i < c.n0 then .free else .unalloc := fun _ => rfl
  have hcounter0 : ∀ l, l ≠ .ntid → (∀ i, l ≠ .fl i) → initVal c l = 0 → CounterOK (State.init c) l := by
    intro l h1 h2 h0 k msg hk
    rw [hmem, initMem_hist_simple c l h1 h2] at hk
    obtain ⟨rfl, rfl⟩ := single_get hk
    exact h0
  constructor
  · exact initMem_wf c
  · exact hcounter0 .gver (by simp) (by simp) rfl
  · exact hcounter0 .nacc (by simp) (by simp) rfl
  · intro k msg hk
    rw [hmem, initMem_hist] at hk
    split at hk
    · simp only [List.getElem?_map] at hk
      cases hr : (List.range (c.n0 + 1))[k]? with
      | none => rw [hr] at hk; cases hk
      | some j =>
        rw [hr] at hk; cases hk
        have hlt' : k < c.n0 + 1 := by have := getElem?_lt hr; simpa using this
        have := List.getElem?_range hlt'
        rw [hr] at this; cases this; rfl
    · obtain ⟨rfl, rfl⟩ := single_get hk; rfl
  · intro _; rw [hmem]; unfold Mem.len; rw [initMem_hist_simple c .nacc (by simp) (by simp)]; rfl
  · intro k msg e hk h1 h2
    rw [hmem, initMem_hist_simple c .gver (by simp) (by simp)] at hk
    obtain ⟨rfl, _⟩ := single_get hk
    omega
  · intro a b ma mb _ ha hb
    rw [hmem, initMem_hist_simple c .tbl (by simp) (by simp)] at ha hb
    obtain ⟨_, rfl⟩ := single_get ha
    obtain ⟨_, rfl⟩ := single_get hb
    exact Nat.le_refl _
  · intro e W h; cases h
  · intro i V h; rw [hfv] at h; cases h
  · intro i V e W h; rw [hfv] at h; cases h
  · intro i h ho; rw [hown] at ho; split at ho <;> cases ho
  · intro i h ho; rw [hown] at ho; split at ho <;> cases ho
  · intro i ho
    rw [hown] at ho
    split at ho
    · rename_i hc
      refine ⟨⟨0, View.bot.bump .ntid c.n0⟩, ?_, ?_, ?_, hlt i, hfv i⟩
      · rw [hmem, initMem_hist]; simp [hc.1, hc.2]
      · rw [hav]; exact View.bot_le _
      · have : c.cnt = .ntid := by simp [Cfg.cnt, hc.1]
        rw [this]; simp; exact hc.2
    · cases ho
  · intro i
    rw [hown, hmem]
    cases htls : c.tls with
    | false =>
      have : c.cnt = .nacc := by simp [Cfg.cnt, htls]
      rw [this]; unfold Mem.len; rw [initMem_hist_simple c .nacc (by simp) (by simp)]
      simp
    | true =>
      have : c.cnt = .ntid := by simp [Cfg.cnt, htls]
      rw [this, initMem_ntid_len]
      simp [htls]
  · intro i _; exact ⟨hlt i, hfv i, fun l => by rw [hav]; rfl⟩
  · intro t i h; cases h
  · intro i _ _
    rw [hmem, hav]
    have : (initMem c).hist (.slot i) = [⟨MAX, View.bot⟩] := initMem_hist_simple c (.slot i) (by simp) (by simp)
    unfold Mem.len
    rw [this]
    exact ⟨⟨_, rfl, rfl⟩, rfl⟩
  · intro i _ _; exact hlt i
  · intro e h; cases h
  · intro t; unfold PcOK; rw [hpc]; trivial

/-- **The invariant holds in every reachable state** of the view-memory model, for every program,
thread count, interleaving and choice of stale reads. -/
theorem inv_reachable (c : Cfg) (o : Orders) (hbs : 0 < c.bs) (ho : o.Safe) :
    ∀ s, Reachable (· = State.init c) (Step c o) s → Inv c o s :=
  Reachable.invariant (Inv c o) (fun s h => by subst h; exact Inv.init c o) (fun _ _ inv h => inv.step hbs ho h)

end Babylon.Epoch
