/-
  The Epoch invariant holds in every reachable state of the view-memory model: assembly of the
  per-step lemmas (Steps1 … Steps10) and the initial state.
-/
import Babylon.Epoch.Steps10
import Babylon.Core.Reach

namespace Babylon.Epoch
open Babylon.Core Babylon.Core.MemView

theorem Inv.stepThread {c : Cfg} {o : Orders} {s s' : State} {t ch : Nat} {l : Label} (inv : Inv c o s)
    (hbs : 0 < c.bs) (ho : o.Safe) (h : stepThread c o s t ch = some (s', l)) : Inv c o s' := by
  unfold Epoch.stepThread at h
  split at h
  · cases h
  · -- cr0
    rename_i hp
    split at h
    · split at h
      · cases h
      · rename_i m old hr
        cases h
        exact inv.step_cr0_mint hp hr
    · split at h
      · rename_i hfree
        split at h
        · cases h
        · rename_i m old hr
          cases h
          exact inv.step_cr0_pop ho hp hfree hr
      · cases h
  · -- en0
    rename_i i k hp
    split at h
    · cases h
    · rename_i m nb hr
      cases h
      split
      · rename_i hneed
        cases k with
        | kCreate => exact inv.step_ensure_create (Or.inr hp) (EnsureMem.of_read inv hbs hr hneed)
        | kLock => exact inv.step_ensure_lock (Or.inr hp) (QuietMem.of_read inv.wf hr) (capOK_of_read inv hbs hr hneed rfl)
      · rename_i hneed
        exact inv.step_ensure_retry (Or.inr hp) (QuietMem.of_read inv.wf hr) (by omega)
  · -- en1
    rename_i i seen k hp
    split at h
    · cases h
    · rename_i m ok obs hr
      cases h
      have hpc := inv.pcs t; unfold PcOK at hpc; rw [hp] at hpc
      rcases Mem.cas_spec hr with ⟨hok, hobs, hrmw⟩ | ⟨hok, hobs, hread⟩
      · subst hok
        simp only [true_or, if_true]
        have em := EnsureMem.of_grow inv hbs hpc.2.1 hrmw hobs
        cases k with
        | kCreate => exact inv.step_ensure_create (Or.inl ⟨seen, hp⟩) em
        | kLock => exact inv.step_ensure_grow_lock hp em
      · subst hok
        simp only [Bool.false_eq_true, false_or]
        split
        · rename_i hneed
          cases k with
          | kCreate => exact inv.step_ensure_create (Or.inl ⟨seen, hp⟩) (EnsureMem.of_read inv hbs hread hneed)
          | kLock => exact inv.step_ensure_lock (Or.inl ⟨seen, hp⟩) (QuietMem.of_read inv.wf hread) (capOK_of_read inv hbs hread hneed rfl)
        · rename_i hneed
          exact inv.step_ensure_retry (Or.inl ⟨seen, hp⟩) (QuietMem.of_read inv.wf hread) (by omega)
  · -- lk0
    rename_i i hp
    split at h
    · cases h
    · rename_i m nb hr
      cases h
      split
      · rename_i hd; exact inv.step_lk0_first hp hr hd
      · rename_i hd; exact inv.step_lk0_nested hp hr hd
  · -- lk1
    rename_i i hp
    split at h
    · cases h
    · rename_i m v hr
      cases h
      exact inv.step_lk1 hp hr
  · -- lk2
    rename_i i v hp
    cases h
    exact inv.step_lk2 hp
  · -- lk3
    rename_i i v hp
    cases h
    exact inv.step_lk3 ho hp
  · -- ul0
    rename_i i hp
    split at h
    · cases h
    · rename_i m nb hr
      cases h
      split
      · rename_i hd; exact inv.step_ul0_last hp (QuietMem.of_read inv.wf hr) hd
      · rename_i hd; exact inv.step_ul0_nested hp hr hd
  · -- ul1
    rename_i i hp
    cases h
    exact inv.step_ul1 hp
  · -- rl0
    rename_i i hp
    split at h
    · cases h
    · rename_i m old hr
      cases h
      exact inv.step_rl0 ho hp hr
  · -- tk0
    rename_i hp
    split at h
    · cases h
    · rename_i m old hr
      cases h
      rcases ho.tick with ⟨hsc, hnone⟩ | ⟨hrel, hf⟩
      · rw [hnone]; exact inv.step_tk0_sc hsc hp hr
      · rw [hf]; exact inv.step_tk0_fence hrel hf hp hr
  · -- tk1
    rename_i e hp
    rcases ho.tick with ⟨_, hnone⟩ | ⟨_, hf⟩
    · rw [hnone] at h; cases h
    · rw [hf] at h
      cases h
      exact inv.step_tk1 hf hp
  · -- sc0
    rename_i hp
    split at h
    · cases h
    · rename_i m nb hr
      cases h
      exact inv.step_sc0 hp hr
  · -- sc1
    rename_i S hp
    split at h
    · cases h
    · rename_i m n hr
      cases h
      exact inv.step_sc1 hp hr
  · -- sc2
    rename_i S hp
    split at h
    · cases h
    · rename_i m n hr
      cases h
      exact inv.step_sc2 hp hr
  · -- sc3
    rename_i B j mn hp
    split at h
    · cases h
    · rename_i m v hr
      cases h
      exact inv.step_sc3 hp hr

theorem Inv.step {c : Cfg} {o : Orders} {s s' : State} (inv : Inv c o s) (hbs : 0 < c.bs) (ho : o.Safe)
    (h : Step c o s s') : Inv c o s' := by
  cases h
  case act hst => exact inv.stepThread hbs ho hst
  case create hidle hg => exact inv.callCreate hidle hg
  case lock hidle htls hown => exact inv.callLock hidle htls hown
  case lockT hidle _ hts => exact inv.callLockT hidle hts
  case unlock hidle hown hlt => exact inv.callUnlock hidle hown hlt
  case release hidle hown hlt => exact inv.callRelease hidle hown hlt
  case tick hidle => exact inv.callTick hidle
  case scan hidle => exact inv.callScan hidle
  case move htls hown hnu hidle hle => exact inv.step_move htls hown hnu hidle hle
  case cload hidle hl => exact inv.clientLoad hidle hl
  case cstore hidle => exact inv.clientStore hidle
  case cxchg hidle hx => exact inv.clientXchg hidle hx
  case cfence hidle => exact inv.clientFence hidle

end Babylon.Epoch
