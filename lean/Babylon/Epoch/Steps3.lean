/-
  Preservation of the Epoch invariant, part 3: the steps of the holder of a slot that touch that
  slot's plain / ghost state or its version (lock's counter bump, store and fence; unlock).
-/
import Babylon.Epoch.Steps2

namespace Babylon.Epoch
open Babylon.Core Babylon.Core.MemView

theorem Pc.lkAt_uses {p : Pc} {i : Nat} (h : p.lkAt i = true) : p.uses i = true := by
  cases p <;> simp_all [Pc.lkAt, Pc.uses]
theorem Pc.lk3At_uses {p : Pc} {i : Nat} (h : p.lk3At i = true) : p.uses i = true := by
  cases p <;> simp_all [Pc.lk3At, Pc.uses]
theorem Pc.crAt_uses {p : Pc} {i : Nat} (h : p.crAt i = true) : p.uses i = true := by
  cases p with
  | en0 j k => cases k <;> simp_all [Pc.crAt, Pc.uses]
  | en1 j seen k => cases k <;> simp_all [Pc.crAt, Pc.uses]
  | _ => simp_all [Pc.crAt]

/-- nobody but the holder is inside an operation on the slot -/
theorem Inv.not_uses {c : Cfg} {o : Orders} {s : State} {t t' i : Nat} (inv : Inv c o s) (ho : s.own i = .held t)
    (hne : t' ≠ t) : (s.pc t').uses i = false := by
  cases h : (s.pc t').uses i with
  | false => rfl
  | true =>
    have := uses_own (inv.pcs t') h
    rw [ho] at this
    cases this
    exact absurd rfl hne

/-- A step of the holder `t` of slot `i0` that changes nothing outside that slot. -/
theorem Inv.slot_step {c : Cfg} {o : Orders} {s s' : State} {t i0 : Nat} (inv : Inv c o s) (hown0 : s.own i0 = .held t)
    (hext : s.mem.Ext s'.mem) (hwf : s'.mem.WF)
    (htv : ∀ t', t' ≠ t → s'.mem.tv t' = s.mem.tv t')
    (hhist : ∀ l, l ≠ .slot i0 → l ≠ .tbl → s'.mem.hist l = s.mem.hist l)
    (hmono : ∀ (a b : Nat) (ma mb : Msg Loc), a ≤ b → (s'.mem.hist .tbl)[a]? = some ma → (s'.mem.hist .tbl)[b]? = some mb → ma.val ≤ mb.val)
    (hown : s'.own = s.own) (htslot : s'.tslot = s.tslot) (hpv : s'.pv = s.pv) (htkv : s'.tkv = s.tkv)
    (hrecl : s'.recl = s.recl) (hsv : s'.sv = s.sv)
    (hlt : ∀ i, i ≠ i0 → s'.lt i = s.lt i) (hfv : ∀ i, i ≠ i0 → s'.fv i = s.fv i)
    (hpub : ∀ i, i ≠ i0 → s'.pub i = s.pub i) (hav : ∀ i, i ≠ i0 → s'.av i = s.av i)
    (hpcs : ∀ t', t' ≠ t → s'.pc t' = s.pc t')
    (hcr : ∀ i, i ≠ i0 → (s'.pc t).crAt i = (s.pc t).crAt i)
    (hlk : ∀ i, i ≠ i0 → (s'.pc t).lkAt i = (s.pc t).lkAt i)
    (hlk3 : ∀ i, i ≠ i0 → (s'.pc t).lk3At i = (s.pc t).lk3At i)
    (hav0 : s.av i0 ≤ s'.av i0 ∧ s'.av i0 ≤ s'.cur t)
    (hcap0 : c.tls = false → ¬ creating s' i0 t → CapOK c s' (s'.av i0) i0)
    (hregion0 : ∀ V, s'.fv i0 = some V → RegionOK c s' i0 V)
    (hdich0 : ∀ V e W, s'.fv i0 = some V → s.tkv e = some W → V ≤ W ∨ W ≤ V)
    (hclosed0 : s'.fv i0 = none → (s'.pc t).lk3At i0 = false →
      (∃ msg, (s'.mem.hist (.slot i0))[s'.mem.len (.slot i0) - 1]? = some msg ∧ msg.val = MAX) ∧
      (s'.av i0).get (.slot i0) + 1 = s'.mem.len (.slot i0))
    (hdepth0 : s'.fv i0 = none → (s'.pc t).lkAt i0 = false → s'.lt i0 = 0)
    (hrecl0 : ∀ e V, s.recl e = true → s'.fv i0 = some V → s.pv e ≤ V)
    (hpc : PcOK c o s' t) : Inv c o s' := by
  have hlen : ∀ l, l ≠ .slot i0 → l ≠ .tbl → s'.mem.len l = s.mem.len l := fun l hl hl2 => by simp [Mem.len, hhist l hl hl2]
  have hcnt2 : c.cnt ≠ .tbl := by unfold Cfg.cnt; split <;> simp
  have hcnt : c.cnt ≠ .slot i0 := by unfold Cfg.cnt; split <;> simp
  have others : ∀ t', t' ≠ t → (s.pc t').uses i0 = false := fun t' e => inv.not_uses hown0 e
  constructor
  · exact hwf
  · exact inv.gverVal.same (hhist _ (by simp) (by simp))
  · exact inv.naccVal.same (hhist _ (by simp) (by simp))
  · exact inv.ntidVal.same (hhist _ (by simp) (by simp))
  · intro h; rw [hlen _ (by simp) (by simp)]; exact inv.naccTls h
  · intro k msg e hk; rw [hhist _ (by simp) (by simp)] at hk; rw [hpv]; exact inv.gverView k msg e hk
  · exact hmono
  · intro e W h
    rw [htkv] at h
    obtain ⟨h1, h2, h3, h4⟩ := inv.tick e W h
    rw [hpv]
    exact ⟨h1, View.le_trans h2 hext.sc, h3, Nat.lt_of_lt_of_le h4 (hext.len_le _)⟩
  · intro i V h
    by_cases e : i = i0
    · subst e; exact hregion0 V h
    · rw [hfv i e] at h
      exact (inv.region i V h).frame hext (hhist _ (by simp [e]) (by simp)) (by rw [hav i e]; exact View.le_refl _)
        (hpub i e) (fun e _ => by rw [hpv]) (by rw [hlt i e]; exact (inv.region i V h).depth)
  · intro i V e W h1 h2
    rw [htkv] at h2
    by_cases ei : i = i0
    · subst ei; exact hdich0 V e W h1 h2
    · rw [hfv i ei] at h1; exact inv.dich i V e W h1 h2
  · intro i h ho
    rw [hown] at ho
    obtain ⟨h1, h2⟩ := inv.acc i h ho
    by_cases ei : i = i0
    · subst ei
      rw [hown0] at ho; cases ho
      exact ⟨hav0.2, Nat.lt_of_lt_of_le h2 (hav0.1 _)⟩
    · rw [hav i ei]
      exact ⟨View.le_trans h1 (hext.cur h), h2⟩
  · intro i h ho ht hc
    rw [hown] at ho
    by_cases ei : i = i0
    · subst ei
      rw [hown0] at ho; cases ho
      exact hcap0 ht hc
    · have hc' : ¬ creating s i h := by
        intro hc'
        apply hc
        unfold creating at hc' ⊢
        by_cases e : h = t
        · subst e; rw [hcr i ei]; exact hc'
        · rw [hpcs h e]; exact hc'
      rw [hav i ei]
      exact (inv.accCap i h ho ht hc').ext hext
  · intro i ho
    rw [hown] at ho
    have ei : i ≠ i0 := by intro e; subst e; rw [hown0] at ho; cases ho
    obtain ⟨msg, h1, h2, h3, h4, h5⟩ := inv.free i ho
    exact ⟨msg, by rw [hhist _ (by simp) (by simp)]; exact h1, by rw [hav i ei]; exact h2, h3, by rw [hlt i ei]; exact h4,
      by rw [hfv i ei]; exact h5⟩
  · intro i; rw [hown, hlen _ hcnt hcnt2]; exact inv.unalloc i
  · intro i ho
    rw [hown] at ho
    have ei : i ≠ i0 := by intro e; subst e; rw [hown0] at ho; cases ho
    rw [hlt i ei, hfv i ei, hav i ei]; exact inv.unalloc2 i ho
  · intro t' i h; rw [htslot] at h; rw [hown]; exact inv.tslotOK t' i h
  · intro i h1 h2
    by_cases ei : i = i0
    · subst ei; exact hclosed0 h1 (h2 t)
    · rw [hfv i ei] at h1
      have := inv.closed i h1 (fun t' => by
        by_cases e : t' = t
        · subst e; rw [← hlk3 i ei]; exact h2 t'
        · rw [← hpcs t' e]; exact h2 t')
      rw [hhist _ (by simp [ei]) (by simp), hlen _ (by simp [ei]) (by simp), hav i ei]
      exact this
  · intro i h1 h2
    by_cases ei : i = i0
    · subst ei; exact hdepth0 h1 (h2 t)
    · rw [hfv i ei] at h1
      rw [hlt i ei]
      exact inv.depth i h1 (fun t' => by
        by_cases e : t' = t
        · subst e; rw [← hlk i ei]; exact h2 t'
        · rw [← hpcs t' e]; exact h2 t')
  · intro e h
    rw [hrecl] at h
    obtain ⟨h1, h2⟩ := inv.recl e h
    rw [htkv, hpv]
    refine ⟨h1, fun i V hv => ?_⟩
    by_cases ei : i = i0
    · subst ei; exact hrecl0 e V h hv
    · rw [hfv i ei] at hv; exact h2 i V hv
  · intro t'
    by_cases e : t' = t
    · subst e; exact hpc
    · refine (inv.pcs t').frame inv.wf (hpcs t' e) (htv t' e) hext (fun i hu => ?_) (fun e _ => by rw [hpv])
        (by rw [hsv]) (by rw [htslot])
      have ei : i ≠ i0 := by
        intro ei; subst ei
        rw [others t' e] at hu; cases hu
      exact ⟨by rw [hown], hlt i ei, hfv i ei, hhist _ (by simp [ei]) (by simp)⟩

end Babylon.Epoch
