/-
  Frame lemmas for the Epoch invariant: each field of `Inv` survives a step that leaves the state
  components it reads unchanged (or only grows them the right way).
-/
import Babylon.Epoch.Inv

namespace Babylon.Epoch
open Babylon.Core Babylon.Core.MemView

theorem uses_own {c : Cfg} {o : Orders} {s : State} {t i : Nat} (h : PcOK c o s t) (hu : (s.pc t).uses i = true) :
    s.own i = .held t := by
  unfold PcOK at h
  cases hp : s.pc t <;> rw [hp] at h hu <;> simp [Pc.uses] at hu <;> subst hu
  · exact h.1
  · exact h.1
  · exact h.1
  · exact h.1
  · exact h.1
  · exact h.1
  · exact h.1
  · exact h.1
  · exact h
  · exact h.1
  · exact h.1

theorem CounterOK.same {s s' : State} {l : Loc} (h : CounterOK s l) (e : s'.mem.hist l = s.mem.hist l) :
    CounterOK s' l := by
  intro k msg hk; rw [e] at hk; exact h k msg hk

/-- appending the next number keeps a counter a counter -/
theorem CounterOK.push {s s' : State} {l : Loc} {W : View Loc} (h : CounterOK s l)
    (e : s'.mem.hist l = s.mem.hist l ++ [⟨s.mem.len l, W⟩]) : CounterOK s' l := by
  intro k msg hk
  rw [e] at hk
  rcases getElem?_append_one hk with h1 | ⟨h1, h2⟩
  · exact h k msg h1
  · subst h2; simpa [Mem.len] using h1.symm

theorem CapS.ext {c : Cfg} {s s' : State} {t S : Nat} (h : CapS c s t S) (hext : s.mem.Ext s'.mem)
    (hsv : s'.sv t = s.sv t) (hb : View.Bounded s.mem (s.sv t)) : CapS c s' t S := by
  intro ts msg hts hm
  rw [hsv] at hts
  exact h ts msg hts (ext_get? hext hm (Nat.lt_of_le_of_lt hts (hb .tbl)))

theorem ScanBound.ext {c : Cfg} {s s' : State} {t B : Nat} (h : ScanBound c s t B) (hext : s.mem.Ext s'.mem)
    (hsv : s'.sv t = s.sv t) (hb : View.Bounded s.mem (s.sv t)) : ScanBound c s' t B := by
  intro i hi ⟨ts, msg, hts, hm, hcap⟩
  rw [hsv] at hi hts
  exact h i hi ⟨ts, msg, hts, ext_get? hext hm (Nat.lt_of_le_of_lt hts (hb .tbl)), hcap⟩

theorem ScanMin.ext {s s' : State} {t j mn : Nat} (h : ScanMin s t j mn) (hext : s.mem.Ext s'.mem)
    (hsv : s'.sv t = s.sv t) (hb : View.Bounded s.mem (s.sv t)) : ScanMin s' t j mn := by
  intro i msg hi hlen hm
  rw [hsv] at hlen
  have h1 := hext.len_le (.slot i)
  have h2 := hb (.slot i)
  have hl : s'.mem.len (.slot i) = s.mem.len (.slot i) := by omega
  rw [hl] at hm
  exact h i msg hi (by omega) (ext_get? hext hm (by omega))

theorem RegionOK.frame {c : Cfg} {s s' : State} {i : Nat} {V : View Loc} (h : RegionOK c s i V)
    (hext : s.mem.Ext s'.mem)
    (hslot : s'.mem.hist (.slot i) = s.mem.hist (.slot i))
    (hav : s.av i ≤ s'.av i) (hpub : s'.pub i = s.pub i)
    (hpv : ∀ e, e < s.mem.len .gver → s'.pv e = s.pv e)
    (hlt : 1 ≤ s'.lt i) : RegionOK c s' i V where
  sc := View.le_trans h.sc hext.sc
  av := View.le_trans h.av hav
  last := by rw [h.last]; simp [Mem.len, hslot]
  val := by rw [hslot, hpub]; exact h.val
  pvs := fun e h1 h2 => by
    rw [hpub] at h2
    rw [hpv e (by have := h.pubLt; omega)]
    exact h.pvs e h1 h2
  depth := hlt
  pubLt := by rw [hpub]; exact Nat.lt_of_lt_of_le h.pubLt (hext.len_le _)
  cnt := h.cnt
  cap := h.cap.ext hext

/-- Per-thread invariant of a thread that does not move, across a step of somebody else. -/
theorem PcOK.frame {c : Cfg} {o : Orders} {s s' : State} {t : Nat} (h : PcOK c o s t) (hwf : s.mem.WF)
    (hpc : s'.pc t = s.pc t) (htv : s'.mem.tv t = s.mem.tv t) (hext : s.mem.Ext s'.mem)
    (hown : ∀ i, (s.pc t).uses i = true →
      s'.own i = s.own i ∧ s'.lt i = s.lt i ∧ s'.fv i = s.fv i ∧ s'.mem.hist (.slot i) = s.mem.hist (.slot i))
    (hpv : ∀ e, e < s.mem.len .gver → s'.pv e = s.pv e)
    (hsv : s'.sv t = s.sv t) (htslot : s'.tslot t = s.tslot t) : PcOK c o s' t := by
  have hcur : s'.cur t = s.cur t := by simp [State.cur, htv]
  have hbsv : s.sv t ≤ s.cur t → View.Bounded s.mem (s.sv t) := fun hle => View.Bounded.of_le hle (hwf.cur t)
  have hlen := hext.len_le
  unfold PcOK at h ⊢
  rw [hpc]
  cases hp : s.pc t <;> rw [hp] at h hown <;> simp only [] at h ⊢
  case cr0 => rw [htslot]; exact h
  case en0 i k =>
    obtain ⟨e1, _, _, _⟩ := hown i (by simp [Pc.uses]); rw [e1]; exact h
  case en1 i seen k =>
    obtain ⟨e1, _, _, _⟩ := hown i (by simp [Pc.uses]); rw [e1]; exact h
  case lk0 i =>
    obtain ⟨e1, _, _, _⟩ := hown i (by simp [Pc.uses]); rw [e1, hcur]
    exact ⟨h.1, fun ht => (h.2 ht).ext hext⟩
  case lk1 i =>
    obtain ⟨e1, e2, e3, _⟩ := hown i (by simp [Pc.uses]); rw [e1, e2, e3, hcur]
    exact ⟨h.1, h.2.1, h.2.2.1, h.2.2.2.ext hext⟩
  case lk2 i v =>
    obtain ⟨e1, e2, e3, _⟩ := hown i (by simp [Pc.uses]); rw [e1, e2, e3, hcur, htv]
    obtain ⟨h1, h2, h3, h4, h5, h6⟩ := h
    refine ⟨h1, h2, h3, h4.ext hext, Nat.lt_of_lt_of_le h5 (hlen _), fun e he1 he2 => ?_⟩
    rw [hpv e (by omega)]; exact h6 e he1 he2
  case lk3 i v =>
    obtain ⟨e1, e2, e3, e4⟩ := hown i (by simp [Pc.uses]); rw [e1, e2, e3, hcur, htv]
    obtain ⟨h1, h2, h3, h4, h5, h6, h7, h8⟩ := h
    have hl : s'.mem.len (.slot i) = s.mem.len (.slot i) := by simp [Mem.len, e4]
    refine ⟨h1, h2, h3, h4.ext hext, Nat.lt_of_lt_of_le h5 (hlen _), fun e he1 he2 => ?_, ?_, ?_⟩
    · rw [hpv e (by omega)]; exact h6 e he1 he2
    · rw [hl]; exact h7
    · rw [hl, e4]; exact h8
  case ul0 i =>
    obtain ⟨e1, e2, _, _⟩ := hown i (by simp [Pc.uses]); rw [e1, e2]; exact h
  case ul1 i =>
    obtain ⟨e1, e2, _, _⟩ := hown i (by simp [Pc.uses]); rw [e1, e2]; exact h
  case rl0 i =>
    obtain ⟨e1, _, _, _⟩ := hown i (by simp [Pc.uses]); rw [e1]; exact h
  case rl1 i =>
    obtain ⟨e1, e2, _, _⟩ := hown i (by simp [Pc.uses]); rw [e1, e2]; exact h
  case rl2 i =>
    obtain ⟨e1, e2, e3, _⟩ := hown i (by simp [Pc.uses]); rw [e1, e2, e3]; exact h
  case tk1 e =>
    obtain ⟨h1, h2, h3, h4⟩ := h
    rw [hcur, hpv e h3]
    exact ⟨h1, h2, Nat.lt_of_lt_of_le h3 (hlen _), h4⟩
  case sc0 => rw [hsv, hcur]; exact h
  case sc1 S => rw [hsv, hcur]; exact ⟨h.1, h.2.ext hext hsv (hbsv h.1)⟩
  case sc2 S => rw [hsv, hcur]; exact ⟨h.1, h.2.1.ext hext hsv (hbsv h.1), h.2.2⟩
  case sc3 B j mn =>
    rw [hsv, hcur]; exact ⟨h.1, h.2.1.ext hext hsv (hbsv h.1), h.2.2.ext hext hsv (hbsv h.1)⟩

end Babylon.Epoch
