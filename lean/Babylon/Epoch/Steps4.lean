/-
  Preservation of the Epoch invariant, part 4: lock / unlock steps of the slot holder.
-/
import Babylon.Epoch.Steps3

namespace Babylon.Epoch
open Babylon.Core Babylon.Core.MemView

/-- the holder's view covers its slot in the block table, once `create` is over -/
theorem Inv.holder_cap {c : Cfg} {o : Orders} {s : State} {t i : Nat} (inv : Inv c o s) (ho : s.own i = .held t)
    (hnc : ¬ creating s i t) (htls : c.tls = true → CapOK c s (s.cur t) i) : CapOK c s (s.cur t) i := by
  cases h : c.tls with
  | true => exact htls h
  | false =>
    exact (inv.accCap i t ho h hnc).mono (Mem.Ext.refl _) (inv.acc i t ho).1 (inv.wf.cur t) inv.tblMono

theorem tblMono_of_hist {s s' : State} (h : s'.mem.hist .tbl = s.mem.hist .tbl)
    (hm : ∀ (a b : Nat) (ma mb : Msg Loc), a ≤ b → (s.mem.hist .tbl)[a]? = some ma → (s.mem.hist .tbl)[b]? = some mb → ma.val ≤ mb.val) :
    ∀ (a b : Nat) (ma mb : Msg Loc), a ≤ b → (s'.mem.hist .tbl)[a]? = some ma → (s'.mem.hist .tbl)[b]? = some mb → ma.val ≤ mb.val := by
  rw [h]; exact hm

/-- lock(i): table load, nesting counter 0 → 1 -/
theorem Inv.step_lk0_first {c : Cfg} {o : Orders} {s : State} {m : Mem Loc} {t i ch nb : Nat}
    (inv : Inv c o s) (hp : s.pc t = .lk0 i) (hr : s.mem.read t .tbl o.tblIndex ch = some (m, nb))
    (hd : s.lt i + Gen.Epoch.lockDepthStep = Gen.Epoch.lockPublishDepth) :
    Inv c o { s with mem := m, lt := upd s.lt i (s.lt i + Gen.Epoch.lockDepthStep), pc := upd s.pc t (.lk1 i) } := by
  have hpc := inv.pcs t; unfold PcOK at hpc; rw [hp] at hpc
  obtain ⟨hown, hcapT⟩ := hpc
  have q := QuietMem.of_read inv.wf hr
  have hlt0 : s.lt i = 0 := by simp [Gen.Epoch.lockDepthStep, Gen.Epoch.lockPublishDepth] at hd; exact hd
  have hfv : s.fv i = none := by
    cases h : s.fv i with
    | none => rfl
    | some V => have := (inv.region i V h).depth; omega
  have hnc : ¬ creating s i t := by simp [creating, hp, Pc.crAt]
  have hcap := inv.holder_cap hown hnc hcapT
  have hhist : m.hist = s.mem.hist := Mem.read_hist hr
  apply inv.slot_step (s' := { s with mem := m, lt := upd s.lt i (s.lt i + Gen.Epoch.lockDepthStep), pc := upd s.pc t (.lk1 i) })
    (t := t) (i0 := i) hown q.ext q.wf q.tv (fun l _ _ => by simp [hhist])
    (tblMono_of_hist (by simp [hhist]) inv.tblMono) <;> try rfl
  · intro j e; simp [e]
  · intro j _; rfl
  · intro j _; rfl
  · intro j _; rfl
  · intro t' e; simp [e]
  · intro j _; simp [hp, Pc.crAt]
  · intro j e; simp [hp, Pc.lkAt]; exact fun h => e h.symm
  · intro j e; simp [hp, Pc.lk3At]
  · exact ⟨View.le_refl _, View.le_trans (inv.acc i t hown).1 (q.ext.cur t)⟩
  · intro ht _; exact (inv.accCap i t hown ht hnc).ext q.ext
  · intro V h; rw [show s.fv i = some V from h] at hfv; cases hfv
  · intro V e W h; rw [show s.fv i = some V from h] at hfv; cases hfv
  · intro _ _
    have := inv.closed i hfv (fun t' => by
      by_cases e : t' = t
      · subst e; simp [hp, Pc.lk3At]
      · cases h : (s.pc t').lk3At i with
        | false => rfl
        | true => have := inv.not_uses hown e; rw [Pc.lk3At_uses h] at this; cases this)
    simpa [hhist, Mem.len] using this
  · intro _ h; simp [Pc.lkAt] at h
  · intro e V _ h; rw [show s.fv i = some V from h] at hfv; cases hfv
  · simp only [PcOK, upd_same]
    refine ⟨hown, by simp [hlt0, Gen.Epoch.lockDepthStep], hfv, ?_⟩
    exact CapOK.mono (s := s) hcap q.ext (q.ext.cur t) (q.wf.cur t) (tblMono_of_hist (by simp [hhist]) inv.tblMono)

/-- lock(i) at depth ≥ 1: only the counter moves -/
theorem Inv.step_lk0_nested {c : Cfg} {o : Orders} {s : State} {m : Mem Loc} {t i ch nb : Nat}
    (inv : Inv c o s) (hp : s.pc t = .lk0 i) (hr : s.mem.read t .tbl o.tblIndex ch = some (m, nb))
    (hd : ¬ s.lt i + Gen.Epoch.lockDepthStep = Gen.Epoch.lockPublishDepth) :
    Inv c o { s with mem := m, lt := upd s.lt i (s.lt i + Gen.Epoch.lockDepthStep), pc := upd s.pc t .idle,
                     av := upd s.av i (m.tv t).cur } := by
  have hpc := inv.pcs t; unfold PcOK at hpc; rw [hp] at hpc
  obtain ⟨hown, hcapT⟩ := hpc
  have q := QuietMem.of_read inv.wf hr
  have hlt1 : 1 ≤ s.lt i := by simp [Gen.Epoch.lockDepthStep, Gen.Epoch.lockPublishDepth] at hd; omega
  have hnolk : ∀ t', (s.pc t').lkAt i = false := fun t' => by
    by_cases e : t' = t
    · subst e; simp [hp, Pc.lkAt]
    · cases h : (s.pc t').lkAt i with
      | false => rfl
      | true => have := inv.not_uses hown e; rw [Pc.lkAt_uses h] at this; cases this
  have hfv : s.fv i ≠ none := fun h => by have := inv.depth i h hnolk; omega
  have hnc : ¬ creating s i t := by simp [creating, hp, Pc.crAt]
  have hcap := inv.holder_cap hown hnc hcapT
  have hhist : m.hist = s.mem.hist := Mem.read_hist hr
  have hav : s.av i ≤ (m.tv t).cur := View.le_trans (inv.acc i t hown).1 (q.ext.cur t)
  apply inv.slot_step (s' := { s with mem := m, lt := upd s.lt i (s.lt i + Gen.Epoch.lockDepthStep), pc := upd s.pc t .idle, av := upd s.av i (m.tv t).cur })
    (t := t) (i0 := i) hown q.ext q.wf q.tv (fun l _ _ => by simp [hhist])
    (tblMono_of_hist (by simp [hhist]) inv.tblMono) <;> try rfl
  · intro j e; simp [e]
  · intro j _; rfl
  · intro j _; rfl
  · intro j e; simp [e]
  · intro t' e; simp [e]
  · intro j _; simp [hp, Pc.crAt]
  · intro j e; simp [hp, Pc.lkAt]
  · intro j e; simp [hp, Pc.lk3At]
  · simp only [upd_same, State.cur]; exact ⟨hav, View.le_refl _⟩
  · intro ht _
    simp only [upd_same]
    exact CapOK.mono (s := s) hcap q.ext (q.ext.cur t) (q.wf.cur t) (tblMono_of_hist (by simp [hhist]) inv.tblMono)
  · intro V h
    exact (inv.region i V h).frame q.ext (by simp [hhist]) (by simpa using hav) rfl (fun _ _ => rfl) (by simp; omega)
  · intro V e W h1 h2; exact inv.dich i V e W h1 h2
  · intro h _; exact absurd h hfv
  · intro h _; exact absurd h hfv
  · intro e V h1 h2; exact (inv.recl e h1).2 i V h2
  · simp [PcOK]

/-- lock(i): the relaxed store of the loaded version into the slot -/
theorem Inv.step_lk2 {c : Cfg} {o : Orders} {s : State} {t i v : Nat} (inv : Inv c o s) (hp : s.pc t = .lk2 i v) :
    Inv c o { s with mem := s.mem.write t (.slot i) o.lockStore v, pc := upd s.pc t (.lk3 i v) } := by
  have hpc := inv.pcs t; unfold PcOK at hpc; rw [hp] at hpc
  obtain ⟨hown, hlt, hfv, hcap, hv, hpva⟩ := hpc
  have hext := Mem.write_ext s.mem t (.slot i) o.lockStore v
  have hwf := Mem.write_wf s.mem t (.slot i) o.lockStore v inv.wf
  have hnc : ¬ creating s i t := by simp [creating, hp, Pc.crAt]
  apply inv.slot_step (s' := { s with mem := s.mem.write t (.slot i) o.lockStore v, pc := upd s.pc t (.lk3 i v) })
    (t := t) (i0 := i) hown hext hwf (fun t' e => Mem.write_tv_other _ _ _ _ _ _ e)
    (fun l hl _ => Mem.write_hist_other _ _ _ _ _ _ hl)
    (tblMono_of_hist (Mem.write_hist_other _ _ _ _ _ _ (by simp)) inv.tblMono) <;> try rfl
  · intro j _; rfl
  · intro j _; rfl
  · intro j _; rfl
  · intro j _; rfl
  · intro t' e; simp [e]
  · intro j _; simp [hp, Pc.crAt]
  · intro j e; simp [hp, Pc.lkAt]
  · intro j e; simp [hp, Pc.lk3At]; exact fun h => e h.symm
  · exact ⟨View.le_refl _, View.le_trans (inv.acc i t hown).1 (hext.cur t)⟩
  · intro ht _; exact (inv.accCap i t hown ht hnc).ext hext
  · intro V h; rw [show s.fv i = some V from h] at hfv; cases hfv
  · intro V e W h; rw [show s.fv i = some V from h] at hfv; cases hfv
  · intro _ h; simp [Pc.lk3At] at h
  · intro _ h; simp [Pc.lkAt] at h
  · intro e V _ h; rw [show s.fv i = some V from h] at hfv; cases hfv
  · simp only [PcOK, upd_same]
    have hb := inv.wf.cur t (.slot i)
    refine ⟨hown, hlt, hfv, ?_, ?_, ?_, ?_, ?_⟩
    · exact CapOK.mono (s := s) hcap hext (hext.cur t) (hwf.cur t)
        (tblMono_of_hist (Mem.write_hist_other _ _ _ _ _ _ (by simp)) inv.tblMono)
    · show v < (s.mem.write t (.slot i) o.lockStore v).len .gver
      rw [Mem.write_len_other _ _ _ _ _ _ (by simp)]; exact hv
    · intro e h1 h2
      show s.pv e ≤ ((s.mem.write t (.slot i) o.lockStore v).tv t).acq
      exact View.le_trans (hpva e h1 h2) (hext.acq t)
    · show (((s.mem.write t (.slot i) o.lockStore v).tv t).cur).get (.slot i) + 1 = (s.mem.write t (.slot i) o.lockStore v).len (.slot i)
      simp [TView.wrote]
      omega
    · show ∃ msg, ((s.mem.write t (.slot i) o.lockStore v).hist (.slot i))[(s.mem.write t (.slot i) o.lockStore v).len (.slot i) - 1]? = some msg ∧ msg.val = v
      simp [Mem.len]

/-- unlock(i) at depth ≥ 2: only the counter moves -/
theorem Inv.step_ul0_nested {c : Cfg} {o : Orders} {s : State} {m : Mem Loc} {t i ch nb : Nat}
    (inv : Inv c o s) (hp : s.pc t = .ul0 i) (hr : s.mem.read t .tbl o.tblIndex ch = some (m, nb))
    (hd : ¬ s.lt i = Gen.Epoch.unlockClearDepth) :
    Inv c o { s with mem := m, lt := upd s.lt i (s.lt i - Gen.Epoch.unlockDepthStep), pc := upd s.pc t .idle,
                     av := upd s.av i (m.tv t).cur } := by
  have hpc := inv.pcs t; unfold PcOK at hpc; rw [hp] at hpc
  obtain ⟨hown, hlt1⟩ := hpc
  have q := QuietMem.of_read inv.wf hr
  have hlt2 : 2 ≤ s.lt i := by simp [Gen.Epoch.unlockClearDepth] at hd; omega
  have hnolk : ∀ t', (s.pc t').lkAt i = false := fun t' => by
    by_cases e : t' = t
    · subst e; simp [hp, Pc.lkAt]
    · cases h : (s.pc t').lkAt i with
      | false => rfl
      | true => have := inv.not_uses hown e; rw [Pc.lkAt_uses h] at this; cases this
  have hfv : s.fv i ≠ none := fun h => by have := inv.depth i h hnolk; omega
  have hnc : ¬ creating s i t := by simp [creating, hp, Pc.crAt]
  have hhist : m.hist = s.mem.hist := Mem.read_hist hr
  have hav : s.av i ≤ (m.tv t).cur := View.le_trans (inv.acc i t hown).1 (q.ext.cur t)
  apply inv.slot_step (s' := { s with mem := m, lt := upd s.lt i (s.lt i - Gen.Epoch.unlockDepthStep), pc := upd s.pc t .idle, av := upd s.av i (m.tv t).cur })
    (t := t) (i0 := i) hown q.ext q.wf q.tv (fun l _ _ => by simp [hhist])
    (tblMono_of_hist (by simp [hhist]) inv.tblMono) <;> try rfl
  · intro j e; simp [e]
  · intro j _; rfl
  · intro j _; rfl
  · intro j e; simp [e]
  · intro t' e; simp [e]
  · intro j _; simp [hp, Pc.crAt]
  · intro j e; simp [hp, Pc.lkAt]
  · intro j e; simp [hp, Pc.lk3At]
  · simp only [upd_same, State.cur]; exact ⟨hav, View.le_refl _⟩
  · intro ht _
    simp only [upd_same]
    exact CapOK.mono (s := s) (inv.accCap i t hown ht hnc) q.ext hav (q.wf.cur t)
      (tblMono_of_hist (by simp [hhist]) inv.tblMono)
  · intro V h
    exact (inv.region i V h).frame q.ext (by simp [hhist]) (by simpa using hav) rfl (fun _ _ => rfl)
      (by simp [Gen.Epoch.unlockDepthStep]; omega)
  · intro V e W h1 h2; exact inv.dich i V e W h1 h2
  · intro h _; exact absurd h hfv
  · intro h _; exact absurd h hfv
  · intro e V h1 h2; exact (inv.recl e h1).2 i V h2
  · simp [PcOK]

/-- unlock(i) at depth 1: the release store of UINT64_MAX closes the region -/
theorem Inv.step_ul1 {c : Cfg} {o : Orders} {s : State} {t i : Nat} (inv : Inv c o s) (hp : s.pc t = .ul1 i) :
    Inv c o { s with mem := s.mem.write t (.slot i) o.unlockStore MAX,
                     lt := upd s.lt i (s.lt i - Gen.Epoch.unlockDepthStep), pc := upd s.pc t .idle,
                     fv := upd s.fv i none,
                     av := upd s.av i ((s.mem.write t (.slot i) o.unlockStore MAX).tv t).cur } := by
  have hpc := inv.pcs t; unfold PcOK at hpc; rw [hp] at hpc
  obtain ⟨hown, hlt⟩ := hpc
  have hext := Mem.write_ext s.mem t (.slot i) o.unlockStore MAX
  have hwf := Mem.write_wf s.mem t (.slot i) o.unlockStore MAX inv.wf
  have hnc : ¬ creating s i t := by simp [creating, hp, Pc.crAt]
  have hav : s.av i ≤ ((s.mem.write t (.slot i) o.unlockStore MAX).tv t).cur :=
    View.le_trans (inv.acc i t hown).1 (hext.cur t)
  apply inv.slot_step (s' := { s with mem := s.mem.write t (.slot i) o.unlockStore MAX, lt := upd s.lt i (s.lt i - Gen.Epoch.unlockDepthStep), pc := upd s.pc t .idle, fv := upd s.fv i none, av := upd s.av i ((s.mem.write t (.slot i) o.unlockStore MAX).tv t).cur })
    (t := t) (i0 := i) hown hext hwf (fun t' e => Mem.write_tv_other _ _ _ _ _ _ e)
    (fun l hl _ => Mem.write_hist_other _ _ _ _ _ _ hl)
    (tblMono_of_hist (Mem.write_hist_other _ _ _ _ _ _ (by simp)) inv.tblMono) <;> try rfl
  · intro j e; simp [e]
  · intro j e; simp [e]
  · intro j _; rfl
  · intro j e; simp [e]
  · intro t' e; simp [e]
  · intro j _; simp [hp, Pc.crAt]
  · intro j e; simp [hp, Pc.lkAt]
  · intro j e; simp [hp, Pc.lk3At]
  · simp only [upd_same, State.cur]; exact ⟨hav, View.le_refl _⟩
  · intro ht _
    simp only [upd_same]
    exact CapOK.mono (s := s) (inv.accCap i t hown ht hnc) hext hav (hwf.cur t)
      (tblMono_of_hist (Mem.write_hist_other _ _ _ _ _ _ (by simp)) inv.tblMono)
  · intro V h; simp at h
  · intro V e W h; simp at h
  · intro _ _
    have hb := inv.wf.cur t (.slot i)
    refine ⟨?_, ?_⟩
    · simp [Mem.len]
    · simp [TView.wrote]; omega
  · intro _ _; simp [hlt, Gen.Epoch.unlockDepthStep]
  · intro e V _ h; simp at h
  · simp [PcOK]

/-- Accessor::release with a region still open: the release store of UINT64_MAX closes it -/
theorem Inv.step_rl1 {c : Cfg} {o : Orders} {s : State} {t i : Nat} (inv : Inv c o s) (hp : s.pc t = .rl1 i) :
    Inv c o { s with mem := s.mem.write t (.slot i) o.releaseStore MAX,
                     lt := upd s.lt i Gen.Epoch.unregisterDepthAfter, pc := upd s.pc t (.rl2 i),
                     fv := upd s.fv i none,
                     av := upd s.av i ((s.mem.write t (.slot i) o.releaseStore MAX).tv t).cur } := by
  have hpc := inv.pcs t; unfold PcOK at hpc; rw [hp] at hpc
  obtain ⟨hown, hlt⟩ := hpc
  have hext := Mem.write_ext s.mem t (.slot i) o.releaseStore MAX
  have hwf := Mem.write_wf s.mem t (.slot i) o.releaseStore MAX inv.wf
  have hnc : ¬ creating s i t := by simp [creating, hp, Pc.crAt]
  have hav : s.av i ≤ ((s.mem.write t (.slot i) o.releaseStore MAX).tv t).cur :=
    View.le_trans (inv.acc i t hown).1 (hext.cur t)
  apply inv.slot_step (s' := { s with mem := s.mem.write t (.slot i) o.releaseStore MAX, lt := upd s.lt i Gen.Epoch.unregisterDepthAfter, pc := upd s.pc t (.rl2 i), fv := upd s.fv i none, av := upd s.av i ((s.mem.write t (.slot i) o.releaseStore MAX).tv t).cur })
    (t := t) (i0 := i) hown hext hwf (fun t' e => Mem.write_tv_other _ _ _ _ _ _ e)
    (fun l hl _ => Mem.write_hist_other _ _ _ _ _ _ hl)
    (tblMono_of_hist (Mem.write_hist_other _ _ _ _ _ _ (by simp)) inv.tblMono) <;> try rfl
  · intro j e; simp [e]
  · intro j e; simp [e]
  · intro j _; rfl
  · intro j e; simp [e]
  · intro t' e; simp [e]
  · intro j _; simp [hp, Pc.crAt]
  · intro j e; simp [hp, Pc.lkAt]
  · intro j e; simp [hp, Pc.lk3At]
  · simp only [upd_same, State.cur]; exact ⟨hav, View.le_refl _⟩
  · intro ht _
    simp only [upd_same]
    exact CapOK.mono (s := s) (inv.accCap i t hown ht hnc) hext hav (hwf.cur t)
      (tblMono_of_hist (Mem.write_hist_other _ _ _ _ _ _ (by simp)) inv.tblMono)
  · intro V h; simp at h
  · intro V e W h; simp at h
  · intro _ _
    have hb := inv.wf.cur t (.slot i)
    refine ⟨?_, ?_⟩
    · simp [Mem.len]
    · simp [TView.wrote]; omega
  · intro _ _; simp [Gen.Epoch.unregisterDepthAfter]
  · intro e V _ h; simp at h
  · simp [PcOK, Gen.Epoch.unregisterDepthAfter]; exact hown

end Babylon.Epoch
