/-
  The inductive invariant of the Epoch model over view memory (C09) and the facts that do not
  depend on a particular step.  See Babylon/Epoch/Model.lean for the state and ghost variables.

  Shape of the safety argument (DESIGN §6 C09), in view terms:
    * `tick`/`region`: the view `W` of a completed tick and the view `V` of an open region are both
      produced by an SC event (SC fence, or the `seq_cst` RMW of the x86 branch), hence both are
      below the global SC view afterwards and every later SC event's view includes them;
    * `dich`: therefore any two of them are comparable (`V ≤ W ∨ W ≤ V`) — `sc_fence_dekker`;
    * a scan that started with a view `sv ⊇ W` and an open region with `V ≤ W`: the scan's view of
      the region's slot is the region's own (still latest) store, so the minimum it computes is at
      most the published version (`PcOK … sc3`: S1), and the slot is inside the scanned range (S2);
      a region that published `v ≥ e` has acquired, through its relaxed load of the global version
      and its SC fence, the views released by ticks `1 … v` (`gverView`, `RegionOK.pvs`);
    * a region with `W ≤ V` sees everything the ticker saw.
-/
import Babylon.Epoch.Model

namespace Babylon.Epoch
open Babylon.Core Babylon.Core.MemView

/-- what the theorems need from the memory orders -/
structure Orders.Safe (o : Orders) : Prop where
  /-- the reader's fence after publishing its version is `seq_cst` -/
  lockFence : o.lockFence = .sc
  /-- `tick` is one `seq_cst` RMW (x86 branch), or a *releasing* RMW followed by a `seq_cst` fence -/
  tick : (o.tickRmw = .sc ∧ o.tickFence = none) ∨ (o.tickRmw.releases = true ∧ o.tickFence = some .sc)
  /-- the id allocator's free list hands an id over with release / acquire -/
  push : o.freePush.releases = true
  pop : o.freePop.acquires = true

/-- every message of a counter location holds its own timestamp (only `fetch_add(1)` writes it) -/
def CounterOK (s : State) (l : Loc) : Prop := ∀ (k : Nat) (msg : Msg Loc), (s.mem.hist l)[k]? = some msg → msg.val = k

/-- the block table message the view `V` knows covers slot `i` -/
def CapOK (c : Cfg) (s : State) (V : View Loc) (i : Nat) : Prop :=
  ∃ msg, (s.mem.hist .tbl)[V.get .tbl]? = some msg ∧ i < msg.val * c.bs

/-- the thread is inside `create_accessor` for slot `i` (after `allocate`, inside `ensure`) -/
def Pc.crAt : Pc → Nat → Bool
  | .en0 j .kCreate, i | .en1 j _ .kCreate, i => j == i
  | _, _ => false
/-- the thread is opening a region on slot `i` (between the 0 → 1 increment and the fence) -/
def Pc.lkAt : Pc → Nat → Bool
  | .lk1 j, i | .lk2 j _, i | .lk3 j _, i => j == i
  | _, _ => false
/-- the thread has stored its version into slot `i` and not fenced yet -/
def Pc.lk3At : Pc → Nat → Bool
  | .lk3 j _, i => j == i
  | _, _ => false

def creating (s : State) (i h : Nat) : Prop := (s.pc h).crAt i = true

structure RegionOK (c : Cfg) (s : State) (i : Nat) (V : View Loc) : Prop where
  sc : V ≤ s.mem.sc
  av : V ≤ s.av i
  last : V.get (.slot i) + 1 = s.mem.len (.slot i)
  val : ∃ msg, (s.mem.hist (.slot i))[V.get (.slot i)]? = some msg ∧ msg.val = s.pub i
  pvs : ∀ e, 1 ≤ e → e ≤ s.pub i → s.pv e ≤ V
  depth : 1 ≤ s.lt i
  pubLt : s.pub i < s.mem.len .gver
  cnt : i < V.get c.cnt
  cap : CapOK c s V i

/-- the scan's block bound covers every table message its start view knows -/
def CapS (c : Cfg) (s : State) (t S : Nat) : Prop :=
  ∀ (ts : Nat) (msg : Msg Loc), ts ≤ (s.sv t).get .tbl → (s.mem.hist .tbl)[ts]? = some msg → msg.val * c.bs ≤ S

/-- S1: a slot already passed that has not been written since the scan started bounds the minimum -/
def ScanMin (s : State) (t j mn : Nat) : Prop :=
  ∀ (i : Nat) (msg : Msg Loc), i < j → s.mem.len (.slot i) ≤ (s.sv t).get (.slot i) + 1 →
    (s.mem.hist (.slot i))[s.mem.len (.slot i) - 1]? = some msg → mn ≤ msg.val

/-- S2: every slot the scan's start view knows to exist (counter and table) is inside the bound -/
def ScanBound (c : Cfg) (s : State) (t B : Nat) : Prop :=
  ∀ i, i < (s.sv t).get c.cnt →
    (∃ (ts : Nat) (msg : Msg Loc), ts ≤ (s.sv t).get .tbl ∧ (s.mem.hist .tbl)[ts]? = some msg ∧ i < msg.val * c.bs) → i < B

/-- per-thread invariant, by program counter -/
def PcOK (c : Cfg) (o : Orders) (s : State) (t : Nat) : Prop :=
  match s.pc t with
  | .idle => True
  | .cr0 => c.tls = true → s.tslot t = none
  | .en0 i k => s.own i = .held t ∧ (k = .kCreate → c.tls = false)
  | .en1 i seen k => s.own i = .held t ∧ seen < c.need i ∧ (k = .kCreate → c.tls = false)
  | .lk0 i => s.own i = .held t ∧ (c.tls = true → CapOK c s (s.cur t) i)
  | .lk1 i => s.own i = .held t ∧ s.lt i = 1 ∧ s.fv i = none ∧ CapOK c s (s.cur t) i
  | .lk2 i v => s.own i = .held t ∧ s.lt i = 1 ∧ s.fv i = none ∧ CapOK c s (s.cur t) i ∧
      v < s.mem.len .gver ∧ (∀ e, 1 ≤ e → e ≤ v → s.pv e ≤ (s.mem.tv t).acq)
  | .lk3 i v => s.own i = .held t ∧ s.lt i = 1 ∧ s.fv i = none ∧ CapOK c s (s.cur t) i ∧
      v < s.mem.len .gver ∧ (∀ e, 1 ≤ e → e ≤ v → s.pv e ≤ (s.mem.tv t).acq) ∧
      (s.cur t).get (.slot i) + 1 = s.mem.len (.slot i) ∧
      (∃ msg, (s.mem.hist (.slot i))[s.mem.len (.slot i) - 1]? = some msg ∧ msg.val = v)
  | .ul0 i => s.own i = .held t ∧ 1 ≤ s.lt i
  | .ul1 i => s.own i = .held t ∧ s.lt i = 1
  | .rl0 i => s.own i = .held t
  | .rl1 i => s.own i = .held t ∧ 1 ≤ s.lt i
  | .rl2 i => s.own i = .held t ∧ s.lt i = 0 ∧ s.fv i = none
  | .tk0 => True
  | .tk1 e => (∃ f, o.tickFence = some f) ∧ 1 ≤ e ∧ e < s.mem.len .gver ∧ s.pv e ≤ s.cur t
  | .sc0 => s.sv t ≤ s.cur t
  | .sc1 S => s.sv t ≤ s.cur t ∧ CapS c s t S
  | .sc2 S => s.sv t ≤ s.cur t ∧ CapS c s t S ∧ (c.tls = false → (s.sv t).get .nacc = 0)
  | .sc3 B j mn => s.sv t ≤ s.cur t ∧ ScanMin s t j mn ∧ ScanBound c s t B

structure Inv (c : Cfg) (o : Orders) (s : State) : Prop where
  wf : s.mem.WF
  gverVal : CounterOK s .gver
  naccVal : CounterOK s .nacc
  ntidVal : CounterOK s .ntid
  naccTls : c.tls = true → s.mem.len .nacc = 1
  gverView : ∀ (k : Nat) (msg : Msg Loc) (e : Nat), (s.mem.hist .gver)[k]? = some msg → 1 ≤ e → e ≤ k → s.pv e ≤ msg.view
  tblMono : ∀ (a b : Nat) (ma mb : Msg Loc), a ≤ b → (s.mem.hist .tbl)[a]? = some ma → (s.mem.hist .tbl)[b]? = some mb → ma.val ≤ mb.val
  tick : ∀ e W, s.tkv e = some W → s.pv e ≤ W ∧ W ≤ s.mem.sc ∧ 1 ≤ e ∧ e < s.mem.len .gver
  region : ∀ i V, s.fv i = some V → RegionOK c s i V
  dich : ∀ i V e W, s.fv i = some V → s.tkv e = some W → V ≤ W ∨ W ≤ V
  acc : ∀ i h, s.own i = .held h → s.av i ≤ s.cur h ∧ i < (s.av i).get c.cnt
  accCap : ∀ i h, s.own i = .held h → c.tls = false → ¬ creating s i h → CapOK c s (s.av i) i
  free : ∀ i, s.own i = .free → ∃ msg, (s.mem.hist (.fl i)).getLast? = some msg ∧ s.av i ≤ msg.view ∧
      i < msg.view.get c.cnt ∧ s.lt i = 0 ∧ s.fv i = none
  unalloc : ∀ i, s.own i = .unalloc ↔ s.mem.len c.cnt ≤ i + 1
  unalloc2 : ∀ i, s.own i = .unalloc → s.lt i = 0 ∧ s.fv i = none ∧ ∀ l, (s.av i).get l = 0
  tslotOK : ∀ t i, s.tslot t = some i → c.tls = true ∧ s.own i = .held t
  closed : ∀ i, s.fv i = none → (∀ t, (s.pc t).lk3At i = false) →
      (∃ msg, (s.mem.hist (.slot i))[s.mem.len (.slot i) - 1]? = some msg ∧ msg.val = MAX) ∧
      (s.av i).get (.slot i) + 1 = s.mem.len (.slot i)
  depth : ∀ i, s.fv i = none → (∀ t, (s.pc t).lkAt i = false) → s.lt i = 0
  recl : ∀ e, s.recl e = true → (∃ W, s.tkv e = some W) ∧ ∀ i V, s.fv i = some V → s.pv e ≤ V
  pcs : ∀ t, PcOK c o s t

/-! ### helpers on histories -/

theorem getElem?_lt {α : Type} {xs : List α} {k : Nat} {a : α} (h : xs[k]? = some a) : k < xs.length := by
  rcases Nat.lt_or_ge k xs.length with h1 | h1
  · exact h1
  · rw [List.getElem?_eq_none h1] at h; cases h

/-- an element of `xs ++ [a]` is an element of `xs` or is `a` at index `xs.length` -/
theorem getElem?_append_one {α : Type} {xs : List α} {a b : α} {k : Nat} (h : (xs ++ [a])[k]? = some b) :
    xs[k]? = some b ∨ (k = xs.length ∧ b = a) := by
  rcases Nat.lt_or_ge k xs.length with h1 | h1
  · rw [List.getElem?_append_left h1] at h; exact Or.inl h
  · rw [List.getElem?_append_right h1] at h
    have : k - xs.length = 0 := by
      rcases Nat.eq_zero_or_pos (k - xs.length) with h0 | h0
      · exact h0
      · rw [List.getElem?_eq_none (by simp; omega)] at h; cases h
    rw [this] at h
    simp at h
    exact Or.inr ⟨by omega, h.symm⟩

theorem ext_get? {m m' : Mem Loc} (h : m.Ext m') {l : Loc} {k : Nat} {msg : Msg Loc}
    (hk : (m'.hist l)[k]? = some msg) (hlt : k < m.len l) : (m.hist l)[k]? = some msg := by
  obtain ⟨sfx, e⟩ := h.hist l
  rw [e, List.getElem?_append_left (by simpa [Mem.len] using hlt)] at hk
  exact hk

theorem CapOK.mono {c : Cfg} {s s' : State} {V V' : View Loc} {i : Nat}
    (h : CapOK c s V i) (hext : s.mem.Ext s'.mem) (hV : V ≤ V') (hb : View.Bounded s'.mem V')
    (hm : ∀ (a b : Nat) (ma mb : Msg Loc), a ≤ b → (s'.mem.hist .tbl)[a]? = some ma → (s'.mem.hist .tbl)[b]? = some mb → ma.val ≤ mb.val) :
    CapOK c s' V' i := by
  obtain ⟨msg, hmsg, hcap⟩ := h
  have h1 := hext.get? .tbl _ _ hmsg
  have hlt : V'.get .tbl < (s'.mem.hist .tbl).length := hb .tbl
  obtain ⟨msg', hmsg'⟩ : ∃ msg', (s'.mem.hist .tbl)[V'.get .tbl]? = some msg' :=
    ⟨_, List.getElem?_eq_getElem hlt⟩
  refine ⟨msg', hmsg', ?_⟩
  have := hm _ _ _ _ (hV .tbl) h1 hmsg'
  have hbs : msg.val * c.bs ≤ msg'.val * c.bs := Nat.mul_le_mul_right _ this
  omega

/-- `CapOK` of the same view survives any extension of memory -/
theorem CapOK.ext {c : Cfg} {s s' : State} {V : View Loc} {i : Nat}
    (h : CapOK c s V i) (hext : s.mem.Ext s'.mem) : CapOK c s' V i := by
  obtain ⟨msg, hmsg, hcap⟩ := h
  exact ⟨msg, hext.get? .tbl _ _ hmsg, hcap⟩

end Babylon.Epoch
