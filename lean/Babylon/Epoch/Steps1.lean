/-
  Preservation of the Epoch invariant, part 1: calls, client accesses, and the steps inside
  Epoch operations that only read.
-/
import Babylon.Epoch.Quiet

namespace Babylon.Epoch
open Babylon.Core Babylon.Core.MemView

/-! ### memory facts in the shape `Inv.quiet_step` wants -/

structure QuietMem (m m' : Mem Loc) (t : Nat) : Prop where
  ext : m.Ext m'
  wf : m'.WF
  tv : ∀ t', t' ≠ t → m'.tv t' = m.tv t'
  hist : ∀ l, (∀ k, l ≠ Loc.cl k) → m'.hist l = m.hist l

theorem QuietMem.refl {m : Mem Loc} (w : m.WF) (t : Nat) : QuietMem m m t :=
  ⟨Mem.Ext.refl m, w, fun _ _ => rfl, fun _ _ => rfl⟩

theorem QuietMem.of_read {m m' : Mem Loc} {t : Nat} {l : Loc} {o : Core.Ord} {ts v : Nat} (w : m.WF)
    (h : m.read t l o ts = some (m', v)) : QuietMem m m' t :=
  ⟨Mem.read_ext h, Mem.read_wf h w, fun t' e => Mem.read_tv_other h t' e, fun l _ => by rw [Mem.read_hist h]⟩

theorem QuietMem.of_fence {m : Mem Loc} (t : Nat) (o : Core.Ord) (w : m.WF) : QuietMem m (m.fence t o) t :=
  ⟨Mem.fence_ext m t o, Mem.fence_wf m t o w, fun t' e => Mem.fence_tv_other m t o t' e, fun l _ => by simp⟩

theorem QuietMem.of_cl_write {m : Mem Loc} (t k : Nat) (o : Core.Ord) (v : Nat) (w : m.WF) :
    QuietMem m (m.write t (.cl k) o v) t :=
  ⟨Mem.write_ext m t _ o v, Mem.write_wf m t _ o v w, fun t' e => Mem.write_tv_other m t _ o v t' e,
   fun l hl => Mem.write_hist_other m t _ o v l (hl k)⟩

theorem QuietMem.of_cl_rmw {m m' : Mem Loc} {t k : Nat} {o : Core.Ord} {f : Nat → Nat} {old : Nat} (w : m.WF)
    (h : m.rmw t (.cl k) o f = some (m', old)) : QuietMem m m' t := by
  obtain ⟨msg, W, _, _, _, hho, htv, _⟩ := Mem.rmw_facts h
  exact ⟨Mem.rmw_ext h, Mem.rmw_wf h w, htv, fun l hl => hho l (hl k)⟩

/-- a quiet step in the common case where only `mem`, the thread's `pc` (and possibly `ret`, `sv`) change -/
theorem Inv.quiet_pc {c : Cfg} {o : Orders} {s s' : State} {t : Nat} (inv : Inv c o s)
    (q : QuietMem s.mem s'.mem t)
    (hlt : s'.lt = s.lt) (hown : s'.own = s.own) (htslot : s'.tslot = s.tslot) (hfv : s'.fv = s.fv)
    (hpub : s'.pub = s.pub) (hav : s'.av = s.av) (hpv : s'.pv = s.pv) (htkv : s'.tkv = s.tkv)
    (hrecl : s'.recl = s.recl)
    (hsv : ∀ t', t' ≠ t → s'.sv t' = s.sv t') (hpcs : ∀ t', t' ≠ t → s'.pc t' = s.pc t')
    (hcr : ∀ i, (s'.pc t).crAt i = (s.pc t).crAt i) (hlk : ∀ i, (s'.pc t).lkAt i = (s.pc t).lkAt i)
    (hlk3 : ∀ i, (s'.pc t).lk3At i = (s.pc t).lk3At i)
    (hpc : PcOK c o s' t) : Inv c o s' :=
  inv.quiet_step q.ext q.wf q.tv q.hist hlt hown htslot hfv hpub hav hpv htkv
    (fun e h => Or.inl (by rw [← hrecl]; exact h)) hsv hpcs hcr hlk hlk3 hpc

/-! ### calls -/

theorem Inv.callCreate {c : Cfg} {o : Orders} {s : State} {t : Nat} (inv : Inv c o s) (hidle : s.pc t = .idle)
    (hg : c.tls = true → s.tslot t = none) : Inv c o (callCreate s t) := by
  apply inv.quiet_pc (s' := Epoch.callCreate s t) (t := t) (QuietMem.refl inv.wf t) <;> try rfl
  · intro t' e; rfl
  · intro t' e; simp [Epoch.callCreate, e]
  · intro i; simp [Epoch.callCreate, hidle, Pc.crAt]
  · intro i; simp [Epoch.callCreate, hidle, Pc.lkAt]
  · intro i; simp [Epoch.callCreate, hidle, Pc.lk3At]
  · simp [PcOK, Epoch.callCreate]; exact hg

theorem Inv.callLock {c : Cfg} {o : Orders} {s : State} {t i : Nat} (inv : Inv c o s) (hidle : s.pc t = .idle)
    (htls : c.tls = false) (hown : s.own i = .held t) : Inv c o (callLock s t i) := by
  apply inv.quiet_pc (s' := Epoch.callLock s t i) (t := t) (QuietMem.refl inv.wf t) <;> try rfl
  · intro t' e; rfl
  · intro t' e; simp [Epoch.callLock, e]
  · intro i; simp [Epoch.callLock, hidle, Pc.crAt]
  · intro i; simp [Epoch.callLock, hidle, Pc.lkAt]
  · intro i; simp [Epoch.callLock, hidle, Pc.lk3At]
  · simp [PcOK, Epoch.callLock, htls]; exact hown

theorem Inv.callLockT {c : Cfg} {o : Orders} {s : State} {t i : Nat} (inv : Inv c o s) (hidle : s.pc t = .idle)
    (hts : s.tslot t = some i) : Inv c o (callLockT s t i) := by
  apply inv.quiet_pc (s' := Epoch.callLockT s t i) (t := t) (QuietMem.refl inv.wf t) <;> try rfl
  · intro t' e; rfl
  · intro t' e; simp [Epoch.callLockT, e]
  · intro i; simp [Epoch.callLockT, hidle, Pc.crAt]
  · intro i; simp [Epoch.callLockT, hidle, Pc.lkAt]
  · intro i; simp [Epoch.callLockT, hidle, Pc.lk3At]
  · simp [PcOK, Epoch.callLockT]; exact (inv.tslotOK t i hts).2

theorem Inv.callUnlock {c : Cfg} {o : Orders} {s : State} {t i : Nat} (inv : Inv c o s) (hidle : s.pc t = .idle)
    (hown : s.own i = .held t) (hlt : 1 ≤ s.lt i) : Inv c o (callUnlock s t i) := by
  apply inv.quiet_pc (s' := Epoch.callUnlock s t i) (t := t) (QuietMem.refl inv.wf t) <;> try rfl
  · intro t' e; rfl
  · intro t' e; simp [Epoch.callUnlock, e]
  · intro i; simp [Epoch.callUnlock, hidle, Pc.crAt]
  · intro i; simp [Epoch.callUnlock, hidle, Pc.lkAt]
  · intro i; simp [Epoch.callUnlock, hidle, Pc.lk3At]
  · simp [PcOK, Epoch.callUnlock]; exact ⟨hown, hlt⟩

theorem Inv.callRelease {c : Cfg} {o : Orders} {s : State} {t i : Nat} (inv : Inv c o s) (hidle : s.pc t = .idle)
    (hown : s.own i = .held t) : Inv c o (callRelease s t i) := by
  apply inv.quiet_pc (s' := Epoch.callRelease s t i) (t := t) (QuietMem.refl inv.wf t) <;> try rfl
  · intro t' e; rfl
  · intro t' e; simp [Epoch.callRelease, e]
  · intro i; simp [Epoch.callRelease, hidle, Pc.crAt]
  · intro i; simp [Epoch.callRelease, hidle, Pc.lkAt]
  · intro i; simp [Epoch.callRelease, hidle, Pc.lk3At]
  · simp [PcOK, Epoch.callRelease]; exact hown

theorem Inv.callReleaseT {c : Cfg} {o : Orders} {s : State} {t i : Nat} (inv : Inv c o s) (hidle : s.pc t = .idle)
    (hown : s.own i = .held t) (hlt : s.lt i = 0) : Inv c o (callReleaseT s t i) := by
  have hfv : s.fv i = none := by
    cases h : s.fv i with
    | none => rfl
    | some V => have := (inv.region i V h).depth; omega
  apply inv.quiet_pc (s' := Epoch.callReleaseT s t i) (t := t) (QuietMem.refl inv.wf t) <;> try rfl
  · intro t' e; rfl
  · intro t' e; simp [Epoch.callReleaseT, e]
  · intro i; simp [Epoch.callReleaseT, hidle, Pc.crAt]
  · intro i; simp [Epoch.callReleaseT, hidle, Pc.lkAt]
  · intro i; simp [Epoch.callReleaseT, hidle, Pc.lk3At]
  · simp [PcOK, Epoch.callReleaseT]; exact ⟨hown, hlt, hfv⟩

theorem Inv.callTick {c : Cfg} {o : Orders} {s : State} {t : Nat} (inv : Inv c o s) (hidle : s.pc t = .idle) :
    Inv c o (callTick s t) := by
  apply inv.quiet_pc (s' := Epoch.callTick s t) (t := t) (QuietMem.refl inv.wf t) <;> try rfl
  · intro t' e; rfl
  · intro t' e; simp [Epoch.callTick, e]
  · intro i; simp [Epoch.callTick, hidle, Pc.crAt]
  · intro i; simp [Epoch.callTick, hidle, Pc.lkAt]
  · intro i; simp [Epoch.callTick, hidle, Pc.lk3At]
  · simp [PcOK, Epoch.callTick]

theorem Inv.callScan {c : Cfg} {o : Orders} {s : State} {t : Nat} (inv : Inv c o s) (hidle : s.pc t = .idle) :
    Inv c o (callScan s t) := by
  apply inv.quiet_pc (s' := Epoch.callScan s t) (t := t) (QuietMem.refl inv.wf t) <;> try rfl
  · intro t' e; simp [Epoch.callScan, e]
  · intro t' e; simp [Epoch.callScan, e]
  · intro i; simp [Epoch.callScan, hidle, Pc.crAt]
  · intro i; simp [Epoch.callScan, hidle, Pc.lkAt]
  · intro i; simp [Epoch.callScan, hidle, Pc.lk3At]
  · simp [PcOK, Epoch.callScan, State.cur]; exact View.le_refl _

/-! ### client accesses -/

theorem Inv.client {c : Cfg} {o : Orders} {s : State} {t : Nat} {m : Mem Loc} (inv : Inv c o s) (hidle : s.pc t = .idle)
    (q : QuietMem s.mem m t) : Inv c o { s with mem := m } := by
  apply inv.quiet_pc (s' := { s with mem := m }) (t := t) q <;> try rfl
  · intro t' e; rfl
  · intro t' e; rfl
  · intro i; rfl
  · intro i; rfl
  · intro i; rfl
  · simp [PcOK, hidle]

theorem Inv.clientLoad {c : Cfg} {o : Orders} {s s' : State} {t k : Nat} {oo : Core.Ord} {ts : Nat} {l : Label}
    (inv : Inv c o s) (hidle : s.pc t = .idle) (h : clientLoad s t k oo ts = some (s', l)) : Inv c o s' := by
  unfold Epoch.clientLoad at h
  split at h
  · cases h
  · rename_i m v hr
    cases h
    exact inv.client hidle (QuietMem.of_read inv.wf hr)

theorem Inv.clientStore {c : Cfg} {o : Orders} {s : State} {t k : Nat} {oo : Core.Ord} {v : Nat}
    (inv : Inv c o s) (hidle : s.pc t = .idle) : Inv c o (clientStore s t k oo v).1 :=
  inv.client hidle (QuietMem.of_cl_write t k oo v inv.wf)

theorem Inv.clientXchg {c : Cfg} {o : Orders} {s s' : State} {t k : Nat} {oo : Core.Ord} {v : Nat} {l : Label}
    (inv : Inv c o s) (hidle : s.pc t = .idle) (h : clientXchg s t k oo v = some (s', l)) : Inv c o s' := by
  unfold Epoch.clientXchg at h
  split at h
  · cases h
  · rename_i m old hr
    cases h
    exact inv.client hidle (QuietMem.of_cl_rmw inv.wf hr)

theorem Inv.clientFence {c : Cfg} {o : Orders} {s : State} {t : Nat} {oo : Core.Ord}
    (inv : Inv c o s) (hidle : s.pc t = .idle) : Inv c o (clientFence s t oo).1 :=
  inv.client hidle (QuietMem.of_fence t oo inv.wf)

end Babylon.Epoch
