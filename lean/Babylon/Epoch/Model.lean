/-
  Atomic-granularity model of `babylon::Epoch` (src/babylon/concurrent/epoch.h) over the
  release/acquire view memory model `Babylon.Core.MemView` (DESIGN.md §3.4, §6 C09).

  One model step = one atomic operation of the real code (what VRT observes), with the memory
  orders taken from the generated file `Babylon.Gen.Epoch` through `genOrders`; the same
  `stepThread` serves the theorems (every interleaving *and every admissible stale read*: a load
  takes the timestamp it reads as the nondeterministic choice `ch`) and the lock-step replay of
  real executions (`Drivers/C09.lean`, restricted to `ch` = latest message because VRT runs
  sequentially consistent interleavings).

  Locations
    gver            `Epoch::_version`
    nacc            `Epoch::_id_allocator._next_value`      (accessor style: slots minted here)
    ntid            `ThreadId`'s allocator `_next_value` for tag `Epoch` (thread-local style)
    tbl             `Epoch::_slots._block_table`; value = number of blocks (capacity = blocks * bs)
    slot i          `_slots[i].version`   (initially UINT64_MAX = outside)
    fl i            specification-level hand-over cell of the id allocator's free list for id `i`:
                    `deallocate(i)` is a release RMW on it, the `allocate()` that returns `i` again an
                    acquire RMW (the free-list protocol itself is property C14; only its
                    happens-before guarantee is used here)
    cl c            client locations: `cl 0` is the shared cell `ptr` whose old contents get
                    reclaimed, the others are whatever the client synchronises with (hand-over
                    channels, retire lists); any thread may load / store / exchange / fence on them
                    with any order at any time it is not inside an Epoch call.

  Plain (non-atomic) state: `lt i` = `Slot::lock_times` of slot `i`.

  Ghost state (never read by the code, written only to state the theorems):
    own i           who holds slot `i` (accessor / thread id): unallocated, free, held by thread `t`
    av i            `cur` view of the holder right after its last Epoch operation on slot `i`
                    (moving an Accessor to another thread requires the receiver's view to include it:
                    the data-race-freedom contract of handing over a C++ object)
    fv i            `some V` while the region of slot `i` is open: `V` = the holder's `cur` view right
                    after the fence that ends `lock` (0 → 1); `none` otherwise
    pub i           the version that region published
    pv e            view of the ticking thread just *before* the RMW of the tick that returned `e`
                    (contains every unlink that precedes the tick in program order)
    tkv e           `some V`: the tick that returned `e` is complete, `V` = the ticker's view after it
    sv t            `cur` view of thread `t` when it called its last `low_water_mark`
    recl e          some `low_water_mark` that started with a view containing `tkv e`
                    ("happens after tick e") has returned a value `≥ e`: epoch `e` is reclaimable.
  Core Lean only.
-/
import Babylon.Gen.Epoch
import Babylon.Core.Trace
import Babylon.Core.MemView

namespace Babylon.Epoch
open Babylon.Core Babylon.Core.MemView

inductive Loc
  | gver | nacc | ntid | tbl
  | slot (i : Nat)
  | fl (i : Nat)
  | cl (c : Nat)
  deriving DecidableEq, Repr

def Loc.name : Loc → String × Nat
  | .gver => ("gver", 0) | .nacc => ("nacc", 0) | .ntid => ("ntid", 0) | .tbl => ("tbl", 0)
  | .slot i => ("slot", i) | .fl i => ("fl", i) | .cl c => ("cl", c)

/-- memory orders of the modelled operations -/
structure Orders where
  lockLoad : Core.Ord
  lockStore : Core.Ord
  lockFence : Core.Ord
  unlockStore : Core.Ord
  releaseStore : Core.Ord
  tickRmw : Core.Ord
  tickFence : Option Core.Ord
  scanTbl : Core.Ord
  scanCount : Core.Ord
  scanSlot : Core.Ord
  mint : Core.Ord
  freePush : Core.Ord
  freePop : Core.Ord
  tblIndex : Core.Ord
  ensureLoad : Core.Ord
  ensureCas : Core.Ord
  ensureCasFail : Core.Ord
  deriving DecidableEq, Repr

/-- the orders written in the source being checked (regenerated on every run) -/
def genOrders : Orders :=
  { lockLoad := Gen.Epoch.lockLoadOrd, lockStore := Gen.Epoch.lockStoreOrd, lockFence := Gen.Epoch.lockFenceOrd,
    unlockStore := Gen.Epoch.unlockStoreOrd, releaseStore := Gen.Epoch.releaseStoreOrd, tickRmw := Gen.Epoch.tickRmwOrd, tickFence := Gen.Epoch.tickFenceOrd,
    scanTbl := Gen.Epoch.tableLoadOrd, scanCount := Gen.Epoch.countLoadOrd, scanSlot := Gen.Epoch.scanSlotOrd,
    mint := Gen.Epoch.mintOrd, freePush := Gen.Epoch.freePushOrd, freePop := Gen.Epoch.freePopOrd,
    tblIndex := Gen.Epoch.tableIndexLoadOrd, ensureLoad := Gen.Epoch.ensureLoadOrd,
    ensureCas := Gen.Epoch.ensureCasOrd, ensureCasFail := Gen.Epoch.ensureCasFailOrd }

/-- the same with the `tick` branch this build's preprocessor did NOT select -/
def altOrders : Orders :=
  { genOrders with tickRmw := Gen.Epoch.tickAltRmwOrd, tickFence := Gen.Epoch.tickAltFenceOrd }

structure Cfg where
  tls : Bool        -- thread-local style (slots = thread ids) or Accessor style; the two cannot be mixed
  bs : Nat          -- slots per block of `_slots`
  n0 : Nat          -- thread ids minted (and all released again) before the execution starts (tls only)
  nb0 : Nat         -- blocks `_slots` holds initially

def MAX : Nat := Gen.Epoch.maxVersion

/-- the counter slots are minted from -/
def Cfg.cnt (c : Cfg) : Loc := if c.tls then .ntid else .nacc
/-- blocks needed so that slot `i` exists: `block_index(i) + 1` -/
def Cfg.need (c : Cfg) (i : Nat) : Nat := i / c.bs + 1

inductive K | kCreate | kLock
  deriving DecidableEq, Repr

/-- program counter of a thread inside an Epoch call (arguments = the locals the C++ keeps) -/
inductive Pc
  | idle
  | cr0                             -- create_accessor / first thread id: `allocate()`: pop a free id or mint
  | en0 (i : Nat) (k : K)           -- `_slots.ensure(i)`: `_block_table.load(acquire)`
  | en1 (i seen : Nat) (k : K)      --   slow path: `compare_exchange_strong(block_table, new, acq_rel, acquire)`
  | lk0 (i : Nat)                   -- lock(i): `_slots[i]` (`_block_table.load(acquire)`), `lock_times += 1`
  | lk1 (i : Nat)                   --   `_version.load(relaxed)`
  | lk2 (i v : Nat)                 --   `slot.version.store(v, relaxed)`
  | lk3 (i v : Nat)                 --   `atomic_thread_fence(seq_cst)`
  | ul0 (i : Nat)                   -- unlock(i): `_slots[i]`
  | ul1 (i : Nat)                   --   `slot.version.store(UINT64_MAX, release)`, `lock_times -= 1`
  | rl0 (i : Nat)                   -- Accessor::release → unregister_accessor(i): `_slots[i]`
  | rl1 (i : Nat)                   --   region still open: `lock_times = 0; slot.version.store(UINT64_MAX, release)`
  | rl2 (i : Nat)                   --   `deallocate(i)` (also: thread exit returning its thread id)
  | tk0                             -- tick: `_version.fetch_add(1, …)`
  | tk1 (e : Nat)                   --   non-x86 branch: `atomic_thread_fence(seq_cst)`
  | sc0                             -- low_water_mark: `_slots.snapshot()`
  | sc1 (S : Nat)                   --   `accessor_number()`
  | sc2 (S : Nat)                   --   `ThreadId::end<Epoch>()` when the former returned 0
  | sc3 (B j mn : Nat)              --   `slot[j].version.load(acquire)`, `j < B = min(number, size)`
  deriving DecidableEq, Repr

/-- the call the thread is in operates on slot `i` -/
def Pc.uses : Pc → Nat → Bool
  | .en0 j _, i | .en1 j _ _, i | .lk0 j, i | .lk1 j, i | .lk2 j _, i | .lk3 j _, i
  | .ul0 j, i | .ul1 j, i | .rl0 j, i | .rl1 j, i | .rl2 j, i => j == i
  | _, _ => false

inductive Own | unalloc | free | held (t : Nat)
  deriving DecidableEq, Repr

structure State where
  mem : Mem Loc
  pc : Nat → Pc
  lt : Nat → Nat
  own : Nat → Own
  tslot : Nat → Option Nat
  ret : Nat → Option Nat
  fv : Nat → Option (View Loc)
  pub : Nat → Nat
  av : Nat → View Loc
  pv : Nat → View Loc
  tkv : Nat → Option (View Loc)
  sv : Nat → View Loc
  recl : Nat → Bool

def initVal (c : Cfg) : Loc → Nat
  | .slot _ => MAX
  | .tbl => c.nb0
  | _ => 0

/-- Initial state.  In thread-local style the process may already have minted `n0` thread ids for
tag `Epoch` (earlier threads, all exited): `ntid` then holds the messages `0 … n0` and every id below
`n0` is free, its hand-over cell carrying the knowledge that `n0` ids exist. -/
def State.init (c : Cfg) : State :=
  let m0 : Mem Loc := Mem.init (initVal c)
  let seen : View Loc := View.bot.bump .ntid c.n0
  { mem := if c.tls then
        { m0 with hist := fun l => match l with
            | .ntid => (List.range (c.n0 + 1)).map (fun k => ⟨k, View.bot⟩)
            | .fl i => if i < c.n0 then [⟨0, seen⟩] else [⟨0, View.bot⟩]
            | l => m0.hist l }
      else m0,
    pc := fun _ => .idle, lt := fun _ => 0,
    own := fun i => if c.tls ∧ i < c.n0 then .free else .unalloc,
    tslot := fun _ => none, ret := fun _ => none,
    fv := fun _ => none, pub := fun _ => 0, av := fun _ => View.bot, pv := fun _ => View.bot,
    tkv := fun _ => none, sv := fun _ => View.bot, recl := fun _ => false }

abbrev Label := Act

def actLd (l : Loc) (o : Core.Ord) (v : Nat) : Act := .ld l.name.1 l.name.2 o v
def actSt (l : Loc) (o : Core.Ord) (v : Nat) : Act := .st l.name.1 l.name.2 o v

/-- `cur` view of thread `t` -/
def State.cur (s : State) (t : Nat) : View Loc := (s.mem.tv t).cur

/-- the id `i` has been obtained and is returned to the caller -/
def finishCreate (c : Cfg) (s : State) (m : Mem Loc) (t i : Nat) : State :=
  { s with mem := m, pc := upd s.pc t .idle, ret := upd s.ret t (some i), av := upd s.av i (m.tv t).cur,
           tslot := if c.tls then upd s.tslot t (some i) else s.tslot }

/-- after `allocate()` returned `i`: `create_accessor` goes on with `_slots.ensure(i)`; a thread id
(thread-local style) is complete — there `ensure` is part of every `lock()` -/
def afterAlloc (c : Cfg) (s : State) (m : Mem Loc) (t i : Nat) : State :=
  if c.tls then finishCreate c s m t i
  else { s with mem := m, pc := upd s.pc t (.en0 i .kCreate), av := upd s.av i (m.tv t).cur }

/-- what happens when `ensure(i)` is done -/
def afterEnsure (c : Cfg) (s : State) (m : Mem Loc) (t i : Nat) (k : K) : State :=
  match k with
  | .kCreate => finishCreate c s m t i
  | .kLock => { s with mem := m, pc := upd s.pc t (.lk0 i) }

/-- end of `low_water_mark` with result `mn`: every completed tick `e ≤ mn` whose view the scan
started with becomes reclaimable -/
def finishScan (s : State) (m : Mem Loc) (t mn : Nat) : State :=
  { s with mem := m, pc := upd s.pc t .idle, ret := upd s.ret t (some mn),
           recl := fun e => s.recl e ||
             (decide (1 ≤ e ∧ e ≤ mn) && match s.tkv e with
               | some V => decide (V ≤ s.sv t)
               | none => false) }

/-- loop head of the slot scan -/
def scanNext (s : State) (m : Mem Loc) (t B j mn : Nat) : State :=
  if j < B then { s with mem := m, pc := upd s.pc t (.sc3 B j mn) } else finishScan s m t mn

/-- One atomic action of thread `t`; `ch` = timestamp of the message a load (or a failing CAS) reads. -/
def stepThread (c : Cfg) (o : Orders) (s : State) (t : Nat) (ch : Nat) : Option (State × Label) :=
  match s.pc t with
  | .idle => none
  | .cr0 =>
    -- `allocate()`: `ch = 0` mints a new id, `ch = i + 1` pops the free id `i`
    if ch = 0 then
      match s.mem.rmw t c.cnt o.mint (· + 1) with
      | none => none
      | some (m, old) =>
        some (afterAlloc c { s with own := upd s.own old (.held t) } m t old,
              .rmw "add" c.cnt.name.1 c.cnt.name.2 o.mint old 1)
    else if s.own (ch - 1) = .free then
      match s.mem.rmw t (.fl (ch - 1)) o.freePop id with
      | none => none
      | some (m, old) =>
        some (afterAlloc c { s with own := upd s.own (ch - 1) (.held t) } m t (ch - 1),
              .rmw "pop" "fl" (ch - 1) o.freePop old 0)
    else none
  | .en0 i k =>
    match s.mem.read t .tbl o.ensureLoad ch with
    | none => none
    | some (m, nb) =>
      some (if c.need i ≤ nb then afterEnsure c s m t i k else { s with mem := m, pc := upd s.pc t (.en1 i nb k) },
            actLd .tbl o.ensureLoad nb)
  | .en1 i seen k =>
    match s.mem.cas t .tbl o.ensureCas o.ensureCasFail seen (c.need i) ch with
    | none => none
    | some (m, ok, obs) =>
      some (if ok ∨ c.need i ≤ obs then afterEnsure c s m t i k else { s with mem := m, pc := upd s.pc t (.en1 i obs k) },
            .cas "tbl" 0 false o.ensureCas o.ensureCasFail seen (c.need i) ok obs)
  | .lk0 i =>
    match s.mem.read t .tbl o.tblIndex ch with
    | none => none
    | some (m, nb) =>
      let d := s.lt i + Gen.Epoch.lockDepthStep
      some (if d = Gen.Epoch.lockPublishDepth then { s with mem := m, lt := upd s.lt i d, pc := upd s.pc t (.lk1 i) }
            else { s with mem := m, lt := upd s.lt i d, pc := upd s.pc t .idle, av := upd s.av i (m.tv t).cur },
            actLd .tbl o.tblIndex nb)
  | .lk1 i =>
    match s.mem.read t .gver o.lockLoad ch with
    | none => none
    | some (m, v) => some ({ s with mem := m, pc := upd s.pc t (.lk2 i v) }, actLd .gver o.lockLoad v)
  | .lk2 i v =>
    some ({ s with mem := s.mem.write t (.slot i) o.lockStore v, pc := upd s.pc t (.lk3 i v) },
          actSt (.slot i) o.lockStore v)
  | .lk3 i v =>
    let m := s.mem.fence t o.lockFence
    some ({ s with mem := m, pc := upd s.pc t .idle, fv := upd s.fv i (some (m.tv t).cur), pub := upd s.pub i v,
                   av := upd s.av i (m.tv t).cur },
          .fence o.lockFence)
  | .ul0 i =>
    match s.mem.read t .tbl o.tblIndex ch with
    | none => none
    | some (m, nb) =>
      some (if s.lt i = Gen.Epoch.unlockClearDepth then { s with mem := m, pc := upd s.pc t (.ul1 i) }
            else { s with mem := m, lt := upd s.lt i (s.lt i - Gen.Epoch.unlockDepthStep), pc := upd s.pc t .idle,
                          av := upd s.av i (m.tv t).cur },
            actLd .tbl o.tblIndex nb)
  | .ul1 i =>
    let m := s.mem.write t (.slot i) o.unlockStore MAX
    some ({ s with mem := m, lt := upd s.lt i (s.lt i - Gen.Epoch.unlockDepthStep), pc := upd s.pc t .idle,
                   fv := upd s.fv i none, av := upd s.av i (m.tv t).cur },
          actSt (.slot i) o.unlockStore MAX)
  | .rl0 i =>
    match s.mem.read t .tbl o.tblIndex ch with
    | none => none
    | some (m, nb) =>
      some (if s.lt i ≠ 0 then { s with mem := m, pc := upd s.pc t (.rl1 i) }
            else { s with mem := m, pc := upd s.pc t (.rl2 i) },
            actLd .tbl o.tblIndex nb)
  | .rl1 i =>
    let m := s.mem.write t (.slot i) o.releaseStore MAX
    some ({ s with mem := m, lt := upd s.lt i Gen.Epoch.unregisterDepthAfter, pc := upd s.pc t (.rl2 i),
                   fv := upd s.fv i none, av := upd s.av i (m.tv t).cur },
          actSt (.slot i) o.releaseStore MAX)
  | .rl2 i =>
    match s.mem.rmw t (.fl i) o.freePush id with
    | none => none
    | some (m, old) =>
      some ({ s with mem := m, own := upd s.own i .free, pc := upd s.pc t .idle,
                     tslot := if c.tls then upd s.tslot t none else s.tslot },
            .rmw "push" "fl" i o.freePush old 0)
  | .tk0 =>
    match s.mem.rmw t .gver o.tickRmw (· + Gen.Epoch.tickIncrement) with
    | none => none
    | some (m, old) =>
      let e := Gen.Epoch.tickReturnPlus + old
      some (match o.tickFence with
            | none => { s with mem := m, pv := upd s.pv e (s.mem.tv t).cur, tkv := upd s.tkv e (some (m.tv t).cur),
                               ret := upd s.ret t (some e), pc := upd s.pc t .idle }
            | some _ => { s with mem := m, pv := upd s.pv e (s.mem.tv t).cur, pc := upd s.pc t (.tk1 e) },
            .rmw "add" "gver" 0 o.tickRmw old Gen.Epoch.tickIncrement)
  | .tk1 e =>
    match o.tickFence with
    | none => none
    | some f =>
      let m := s.mem.fence t f
      some ({ s with mem := m, tkv := upd s.tkv e (some (m.tv t).cur), ret := upd s.ret t (some e),
                     pc := upd s.pc t .idle },
            .fence f)
  | .sc0 =>
    match s.mem.read t .tbl o.scanTbl ch with
    | none => none
    | some (m, nb) => some ({ s with mem := m, pc := upd s.pc t (.sc1 (nb * c.bs)) }, actLd .tbl o.scanTbl nb)
  | .sc1 S =>
    match s.mem.read t .nacc o.scanCount ch with
    | none => none
    | some (m, n) =>
      some (if n = 0 then { s with mem := m, pc := upd s.pc t (.sc2 S) } else scanNext s m t (min n S) 0 MAX,
            actLd .nacc o.scanCount n)
  | .sc2 S =>
    match s.mem.read t .ntid o.scanCount ch with
    | none => none
    | some (m, n) => some (scanNext s m t (min n S) 0 MAX, actLd .ntid o.scanCount n)
  | .sc3 B j mn =>
    match s.mem.read t (.slot j) o.scanSlot ch with
    | none => none
    | some (m, v) => some (scanNext s m t B (j + 1) (min mn v), actLd (.slot j) o.scanSlot v)

/-! ### Calls (an idle thread starts an operation) and client actions -/

def callCreate (s : State) (t : Nat) : State := { s with pc := upd s.pc t .cr0 }
def callLock (s : State) (t i : Nat) : State := { s with pc := upd s.pc t (.lk0 i) }
/-- thread-local style `Epoch::lock()`: `_slots.ensure(index)` then `lock(index)` -/
def callLockT (s : State) (t i : Nat) : State := { s with pc := upd s.pc t (.en0 i .kLock) }
def callUnlock (s : State) (t i : Nat) : State := { s with pc := upd s.pc t (.ul0 i) }
def callRelease (s : State) (t i : Nat) : State := { s with pc := upd s.pc t (.rl0 i) }
/-- thread exit (thread-local style): the thread id goes back to its allocator; `Epoch` is not involved -/
def callReleaseT (s : State) (t i : Nat) : State := { s with pc := upd s.pc t (.rl2 i) }
def callTick (s : State) (t : Nat) : State := { s with pc := upd s.pc t .tk0 }
def callScan (s : State) (t : Nat) : State := { s with pc := upd s.pc t .sc0, sv := upd s.sv t (s.cur t) }
/-- the Accessor of slot `i` changes hands -/
def move (s : State) (i t2 : Nat) : State := { s with own := upd s.own i (.held t2) }

def clientLoad (s : State) (t c : Nat) (o : Core.Ord) (ts : Nat) : Option (State × Label) :=
  match s.mem.read t (.cl c) o ts with
  | none => none
  | some (m, v) => some ({ s with mem := m }, actLd (.cl c) o v)
def clientStore (s : State) (t c : Nat) (o : Core.Ord) (v : Nat) : State × Label :=
  ({ s with mem := s.mem.write t (.cl c) o v }, actSt (.cl c) o v)
def clientXchg (s : State) (t c : Nat) (o : Core.Ord) (v : Nat) : Option (State × Label) :=
  match s.mem.rmw t (.cl c) o (fun _ => v) with
  | none => none
  | some (m, old) => some ({ s with mem := m }, .xchg "cl" c o old v)
def clientFence (s : State) (t : Nat) (o : Core.Ord) : State × Label :=
  ({ s with mem := s.mem.fence t o }, .fence o)

/-- The transition relation: a thread inside a call performs its next atomic action (reading any
admissible message), or an idle thread starts a call allowed by the client contract, hands an
Accessor over, or accesses client memory. -/
inductive Step (c : Cfg) (o : Orders) : State → State → Prop
  | act (s : State) (t ch : Nat) (s' : State) (l : Label) : stepThread c o s t ch = some (s', l) → Step c o s s'
  /-- Accessor style `create_accessor()` / thread-local style first use of the thread's id -/
  | create (s : State) (t : Nat) :
      s.pc t = .idle → (c.tls = true → s.tslot t = none) → Step c o s (callCreate s t)
  | lock (s : State) (t i : Nat) : s.pc t = .idle → c.tls = false → s.own i = .held t → Step c o s (callLock s t i)
  | lockT (s : State) (t i : Nat) : s.pc t = .idle → c.tls = true → s.tslot t = some i → Step c o s (callLockT s t i)
  /-- `unlock` needs a matching `lock` (BasicLockable) -/
  | unlock (s : State) (t i : Nat) : s.pc t = .idle → s.own i = .held t → 1 ≤ s.lt i → Step c o s (callUnlock s t i)
  /-- `Accessor::release` / `~Accessor`: by the holder, at any time (an open region is closed) -/
  | release (s : State) (t i : Nat) : s.pc t = .idle → c.tls = false → s.own i = .held t → Step c o s (callRelease s t i)
  /-- thread exit in thread-local style: outside any region -/
  | releaseT (s : State) (t i : Nat) : s.pc t = .idle → c.tls = true → s.own i = .held t → s.lt i = 0 →
      Step c o s (callReleaseT s t i)
  | tick (s : State) (t : Nat) : s.pc t = .idle → Step c o s (callTick s t)
  | scan (s : State) (t : Nat) : s.pc t = .idle → Step c o s (callScan s t)
  /-- moving an Accessor (with or without an open region) to thread `t2`: the receiver must have
  synchronised with the previous holder's last use (its view includes `av i`), and the previous
  holder is not in the middle of an operation on that Accessor -/
  | move (s : State) (i t1 t2 : Nat) : c.tls = false → s.own i = .held t1 → (s.pc t1).uses i = false →
      s.pc t2 = .idle → s.av i ≤ s.cur t2 → Step c o s (move s i t2)
  | cload (s : State) (t cc : Nat) (oo : Core.Ord) (ts : Nat) (s' : State) (l : Label) :
      s.pc t = .idle → clientLoad s t cc oo ts = some (s', l) → Step c o s s'
  | cstore (s : State) (t cc : Nat) (oo : Core.Ord) (v : Nat) : s.pc t = .idle → Step c o s (clientStore s t cc oo v).1
  | cxchg (s : State) (t cc : Nat) (oo : Core.Ord) (v : Nat) (s' : State) (l : Label) :
      s.pc t = .idle → clientXchg s t cc oo v = some (s', l) → Step c o s s'
  | cfence (s : State) (t : Nat) (oo : Core.Ord) : s.pc t = .idle → Step c o s (clientFence s t oo).1

/-- sequentially consistent executions: every load reads the latest message -/
def latest (s : State) (l : Loc) : Nat := s.mem.len l - 1

/-- location the next action of thread `t` reads (for the SC restriction / the replay driver) -/
def nextLoc (c : Cfg) (s : State) (t : Nat) : Loc :=
  match s.pc t with
  | .en0 _ _ | .en1 _ _ _ | .lk0 _ | .ul0 _ | .rl0 _ | .sc0 => .tbl
  | .lk1 _ => .gver
  | .sc1 _ => .nacc
  | .sc2 _ => .ntid
  | .sc3 _ j _ => .slot j
  | _ => c.cnt

inductive StepSC (c : Cfg) (o : Orders) : State → State → Prop
  | act (s : State) (t : Nat) (s' : State) (l : Label) :
      stepThread c o s t (latest s (nextLoc c s t)) = some (s', l) → StepSC c o s s'
  | other (s s' : State) : Step c o s s' → (∀ t ch l, stepThread c o s t ch ≠ some (s', l)) →
      (∀ t cc oo ts l, clientLoad s t cc oo ts = some (s', l) → ts = latest s (.cl cc)) → StepSC c o s s'

/-! ### Skeletons this model was written against (compared with the generated ones in Properties/C09) -/

def Skel.lock : List Site := [.load "_version" .rlx, .store "slot.version" .rlx, .fence .sc]
def Skel.unlock : List Site := [.store "slot.version" .rel]
def Skel.lock_tls : List Site := [.call "current_thread_id", .call "ensure", .call "lock"]
def Skel.unlock_tls : List Site := [.call "current_thread_id", .call "unlock"]
def Skel.create_accessor : List Site := [.call "allocate", .call "ensure"]
def Skel.accessor_number : List Site := [.call "end"]
def Skel.unregister_accessor : List Site := [.store "slot.version" .rel, .call "deallocate"]
def Skel.accessor_lock : List Site := [.call "lock"]
def Skel.accessor_unlock : List Site := [.call "unlock"]
def Skel.accessor_release : List Site := [.call "unregister_accessor"]
def Skel.tick_x86 : List Site := [.rmw "fetch_add" "_version" .sc]
def Skel.low_water_mark : List Site := [
  .call "snapshot", .call "accessor_number", .call "ThreadId::end", .call "for_each", .call "std::min",
  .load "version" .acq]
def Skel.ensure_slow : List Site := [.cas "_block_table" true .acqrel .acq]

end Babylon.Epoch
