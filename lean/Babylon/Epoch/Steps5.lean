/-
  Preservation of the Epoch invariant, part 5: the SC fence that opens a region (the heart of the
  Dekker argument on the reader's side).
-/
import Babylon.Epoch.Steps4

namespace Babylon.Epoch
open Babylon.Core Babylon.Core.MemView

/-- lock(i): the `seq_cst` fence after the version store; the region is open from here -/
theorem Inv.step_lk3 {c : Cfg} {o : Orders} {s : State} {t i v : Nat} (inv : Inv c o s) (ho : o.Safe)
    (hp : s.pc t = .lk3 i v) :
    Inv c o { s with mem := s.mem.fence t o.lockFence, pc := upd s.pc t .idle,
                     fv := upd s.fv i (some ((s.mem.fence t o.lockFence).tv t).cur), pub := upd s.pub i v,
                     av := upd s.av i ((s.mem.fence t o.lockFence).tv t).cur } := by
  rw [ho.lockFence]
  have hpc := inv.pcs t; unfold PcOK at hpc; rw [hp] at hpc
  obtain ⟨hown, hlt, hfv, hcap, hv, hpva, hlast, hval⟩ := hpc
  have q := QuietMem.of_fence (m := s.mem) t .sc inv.wf
  have hnc : ¬ creating s i t := by simp [creating, hp, Pc.crAt]
  have hV : ((s.mem.fence t .sc).tv t).cur = s.mem.scView t := by simp
  have hcurV : s.cur t ≤ s.mem.scView t := Mem.cur_le_scView s.mem t
  have hacqV : (s.mem.tv t).acq ≤ s.mem.scView t := Mem.acq_le_scView s.mem t
  have hscV : s.mem.sc ≤ s.mem.scView t := Mem.sc_le_scView s.mem t
  have hbV : View.Bounded s.mem (s.mem.scView t) := by
    have := q.wf.cur t; rw [hV] at this
    intro l; have := this l; simpa using this
  have hcapV : ∀ s' : State, s'.mem = s.mem.fence t .sc → CapOK c s' (s.mem.scView t) i := by
    intro s' hs'
    refine CapOK.mono (s := s) hcap (by rw [hs']; exact q.ext) hcurV ?_ (tblMono_of_hist (by rw [hs']; simp) inv.tblMono)
    rw [hs']; intro l; simpa using hbV l
  rw [hV]
  apply inv.slot_step (s' := { s with mem := s.mem.fence t .sc, pc := upd s.pc t .idle, fv := upd s.fv i (some (s.mem.scView t)), pub := upd s.pub i v, av := upd s.av i (s.mem.scView t) })
    (t := t) (i0 := i) hown q.ext q.wf q.tv (fun l _ _ => by simp)
    (tblMono_of_hist (by simp) inv.tblMono) <;> try rfl
  · intro j _; rfl
  · intro j e; simp [e]
  · intro j e; simp [e]
  · intro j e; simp [e]
  · intro t' e; simp [e]
  · intro j _; simp [hp, Pc.crAt]
  · intro j e; simp [hp, Pc.lkAt]; exact fun h => e h.symm
  · intro j e; simp [hp, Pc.lk3At]; exact fun h => e h.symm
  · simp only [upd_same, State.cur, Mem.fence_sc_tv]
    exact ⟨View.le_trans (inv.acc i t hown).1 hcurV, View.le_refl _⟩
  · intro _ _; simp only [upd_same]; exact hcapV _ rfl
  · intro V h
    simp only [upd_same] at h
    cases h
    have hget : (s.mem.scView t).get (.slot i) + 1 = s.mem.len (.slot i) := by
      have h1 := hcurV (.slot i)
      have h2 := hbV (.slot i)
      simp only [State.cur] at hlast h1
      omega
    constructor
    · show s.mem.scView t ≤ (s.mem.fence t .sc).sc
      simp; exact View.le_refl _
    · simp only [upd_same]; exact View.le_refl _
    · show (s.mem.scView t).get (.slot i) + 1 = (s.mem.fence t .sc).len (.slot i)
      simp; exact hget
    · obtain ⟨msg, hm, hmv⟩ := hval
      refine ⟨msg, ?_, by simpa using hmv⟩
      show ((s.mem.fence t .sc).hist (.slot i))[(s.mem.scView t).get (.slot i)]? = some msg
      have : (s.mem.scView t).get (.slot i) = s.mem.len (.slot i) - 1 := by omega
      simp [this]; exact hm
    · intro e h1 h2
      simp only [upd_same] at h2
      exact View.le_trans (hpva e h1 h2) hacqV
    · show 1 ≤ s.lt i; omega
    · simp only [upd_same]
      show v < (s.mem.fence t .sc).len .gver
      simpa using hv
    · exact Nat.lt_of_lt_of_le (inv.acc i t hown).2 (View.le_trans (inv.acc i t hown).1 hcurV _)
    · exact hcapV _ rfl
  · intro V e W h1 h2
    simp only [upd_same] at h1
    cases h1
    exact Or.inr (View.le_trans (inv.tick e W h2).2.1 hscV)
  · intro h _; simp at h
  · intro h _; simp at h
  · intro e V h1 h2
    simp only [upd_same] at h2
    cases h2
    obtain ⟨⟨W, hW⟩, _⟩ := inv.recl e h1
    obtain ⟨h3, h4, _, _⟩ := inv.tick e W hW
    exact View.le_trans h3 (View.le_trans h4 hscV)
  · simp [PcOK]

end Babylon.Epoch
