/-
  Executable schedules for the Epoch model: a list of moves is run from the initial state, every
  guard of `Step` is checked on the way, and the result is a reachable state.  Used for the
  counterexample theorems (a weakened fence / the non-x86 tick branch) and the non-vacuity examples.
-/
import Babylon.Epoch.Model
import Babylon.Core.Reach

namespace Babylon.Epoch
open Babylon.Core Babylon.Core.MemView

inductive Mv
  | act (t ch : Nat)                      -- next atomic action of `t`, reading timestamp `ch`
  | create (t : Nat)
  | lock (t i : Nat)
  | lockT (t i : Nat)
  | unlock (t i : Nat)
  | release (t i : Nat)
  | releaseT (t i : Nat)
  | tick (t : Nat)
  | scan (t : Nat)
  | move (i t1 t2 : Nat)
  | cload (t c : Nat) (o : Core.Ord) (ts : Nat)
  | cstore (t c : Nat) (o : Core.Ord) (v : Nat)
  | cfence (t : Nat) (o : Core.Ord)

def applyMv (c : Cfg) (o : Orders) (s : State) : Mv → Option State
  | .act t ch => (stepThread c o s t ch).map (·.1)
  | .create t => if s.pc t = .idle ∧ (c.tls = true → s.tslot t = none) then some (callCreate s t) else none
  | .lock t i => if s.pc t = .idle ∧ c.tls = false ∧ s.own i = .held t then some (callLock s t i) else none
  | .lockT t i => if s.pc t = .idle ∧ c.tls = true ∧ s.tslot t = some i then some (callLockT s t i) else none
  | .unlock t i => if s.pc t = .idle ∧ s.own i = .held t ∧ 1 ≤ s.lt i then some (callUnlock s t i) else none
  | .release t i => if s.pc t = .idle ∧ c.tls = false ∧ s.own i = .held t then some (callRelease s t i) else none
  | .releaseT t i => if s.pc t = .idle ∧ c.tls = true ∧ s.own i = .held t ∧ s.lt i = 0 then some (callReleaseT s t i) else none
  | .tick t => if s.pc t = .idle then some (callTick s t) else none
  | .scan t => if s.pc t = .idle then some (callScan s t) else none
  | .move i t1 t2 =>
    if c.tls = false ∧ s.own i = .held t1 ∧ (s.pc t1).uses i = false ∧ s.pc t2 = .idle ∧ s.av i ≤ s.cur t2
    then some (move s i t2) else none
  | .cload t k oo ts => if s.pc t = .idle then (clientLoad s t k oo ts).map (·.1) else none
  | .cstore t k oo v => if s.pc t = .idle then some (clientStore s t k oo v).1 else none
  | .cfence t oo => if s.pc t = .idle then some (clientFence s t oo).1 else none

theorem applyMv_step {c : Cfg} {o : Orders} {s s' : State} {mv : Mv} (h : applyMv c o s mv = some s') :
    Step c o s s' := by
  cases mv with
  | act t ch =>
    simp only [applyMv, Option.map_eq_some_iff] at h
    obtain ⟨⟨s1, l⟩, h1, h2⟩ := h
    cases h2
    exact Step.act s t ch s1 l h1
  | create t =>
    simp only [applyMv] at h
    split at h
    · rename_i g; cases h; exact Step.create s t g.1 g.2
    · cases h
  | lock t i =>
    simp only [applyMv] at h
    split at h
    · rename_i g; cases h; exact Step.lock s t i g.1 g.2.1 g.2.2
    · cases h
  | lockT t i =>
    simp only [applyMv] at h
    split at h
    · rename_i g; cases h; exact Step.lockT s t i g.1 g.2.1 g.2.2
    · cases h
  | unlock t i =>
    simp only [applyMv] at h
    split at h
    · rename_i g; cases h; exact Step.unlock s t i g.1 g.2.1 g.2.2
    · cases h
  | release t i =>
    simp only [applyMv] at h
    split at h
    · rename_i g; cases h; exact Step.release s t i g.1 g.2.1 g.2.2
    · cases h
  | releaseT t i =>
    simp only [applyMv] at h
    split at h
    · rename_i g; cases h; exact Step.releaseT s t i g.1 g.2.1 g.2.2.1 g.2.2.2
    · cases h
  | tick t =>
    simp only [applyMv] at h
    split at h
    · rename_i g; cases h; exact Step.tick s t g
    · cases h
  | scan t =>
    simp only [applyMv] at h
    split at h
    · rename_i g; cases h; exact Step.scan s t g
    · cases h
  | move i t1 t2 =>
    simp only [applyMv] at h
    split at h
    · rename_i g; cases h; exact Step.move s i t1 t2 g.1 g.2.1 g.2.2.1 g.2.2.2.1 g.2.2.2.2
    · cases h
  | cload t k oo ts =>
    simp only [applyMv] at h
    split at h
    · rename_i g
      simp only [Option.map_eq_some_iff] at h
      obtain ⟨⟨s1, l⟩, h1, h2⟩ := h
      cases h2
      exact Step.cload s t k oo ts s1 l g h1
    · cases h
  | cstore t k oo v =>
    simp only [applyMv] at h
    split at h
    · rename_i g; cases h; exact Step.cstore s t k oo v g
    · cases h
  | cfence t oo =>
    simp only [applyMv] at h
    split at h
    · rename_i g; cases h; exact Step.cfence s t oo g
    · cases h

def run (c : Cfg) (o : Orders) : State → List Mv → Option State
  | s, [] => some s
  | s, mv :: rest =>
    match applyMv c o s mv with
    | none => none
    | some s' => run c o s' rest

theorem run_reachable {c : Cfg} {o : Orders} {init : State → Prop} {s s' : State} {mvs : List Mv}
    (hs : Reachable init (Step c o) s) (h : run c o s mvs = some s') : Reachable init (Step c o) s' := by
  induction mvs generalizing s with
  | nil => simp [run] at h; subst h; exact hs
  | cons mv rest ih =>
    simp only [run] at h
    split at h
    · cases h
    · rename_i s1 h1
      exact ih (Reachable.tail hs (applyMv_step h1)) h

/-- a Boolean observation of the state reached by a schedule from the initial state -/
def observe (c : Cfg) (o : Orders) (mvs : List Mv) (p : State → Bool) : Bool :=
  match run c o (State.init c) mvs with
  | none => false
  | some s => p s

theorem observe_sound {c : Cfg} {o : Orders} {mvs : List Mv} {p : State → Bool} (h : observe c o mvs p = true) :
    ∃ s, Reachable (· = State.init c) (Step c o) s ∧ p s = true := by
  unfold observe at h
  split at h
  · cases h
  · rename_i s hs
    exact ⟨s, run_reachable (Reachable.base rfl) hs, h⟩

end Babylon.Epoch
