/-
  Preservation of the Epoch invariant, part 7: `low_water_mark` — the counter loads, the slot
  loads and the moment the result makes epochs reclaimable.
-/
import Babylon.Epoch.Steps6

namespace Babylon.Epoch
open Babylon.Core Babylon.Core.MemView

/-- the scan moves to the next slot or finishes; `j`, `mn`, `B` are the new loop variables -/
theorem Inv.scanNext {c : Cfg} {o : Orders} {s : State} {m : Mem Loc} {t B j mn : Nat} (inv : Inv c o s)
    (hcr : ∀ i, (s.pc t).crAt i = false) (hlk : ∀ i, (s.pc t).lkAt i = false) (hlk3 : ∀ i, (s.pc t).lk3At i = false)
    (q : QuietMem s.mem m t) (hsv : s.sv t ≤ (m.tv t).cur)
    (hmin : ScanMin { s with mem := m } t j mn) (hbound : ScanBound c { s with mem := m } t B) :
    Inv c o (scanNext s m t B j mn) := by
  unfold Epoch.scanNext
  split
  · -- another slot to read
    apply inv.quiet_pc (s' := { s with mem := m, pc := upd s.pc t (.sc3 B j mn) }) (t := t) q <;> try rfl
    · intro t' e; rfl
    · intro t' e; simp [e]
    · intro i; rw [hcr i]; simp [Pc.crAt]
    · intro i; rw [hlk i]; simp [Pc.lkAt]
    · intro i; rw [hlk3 i]; simp [Pc.lk3At]
    · simp only [PcOK, upd_same]; exact ⟨hsv, hmin, hbound⟩
  · -- done: the result is `mn`
    rename_i hjB
    unfold Epoch.finishScan
    apply inv.quiet_step (s' := { s with mem := m, pc := upd s.pc t .idle, ret := upd s.ret t (some mn), recl := fun e => s.recl e || (decide (1 ≤ e ∧ e ≤ mn) && match s.tkv e with | some V => decide (V ≤ s.sv t) | none => false) })
      (t := t) q.ext q.wf q.tv q.hist <;> try rfl
    · intro e he
      simp only [Bool.or_eq_true, Bool.and_eq_true, decide_eq_true_eq] at he
      rcases he with he | ⟨⟨he1, he2⟩, he3⟩
      · exact Or.inl he
      · right
        cases hW : s.tkv e with
        | none => rw [hW] at he3; cases he3
        | some W =>
          rw [hW] at he3
          simp only [decide_eq_true_eq] at he3
          refine ⟨⟨W, rfl⟩, fun i V hV => ?_⟩
          have R := inv.region i V hV
          by_cases hle : V ≤ s.sv t
          · -- the scan started after the region's fence: it saw the region's slot
            have hiB : i < B := by
              apply hbound i (Nat.lt_of_lt_of_le R.cnt (hle _))
              obtain ⟨msg, hmsg, hcap⟩ := R.cap
              exact ⟨V.get .tbl, msg, hle _, by
                show (m.hist .tbl)[V.get .tbl]? = some msg
                rw [q.hist (.tbl) (by intro k; simp)]; exact hmsg, hcap⟩
            obtain ⟨msg, hmsg, hval⟩ := R.val
            have hh := q.hist (.slot i) (by intro k; simp)
            have hlen : m.len (.slot i) = s.mem.len (.slot i) := by simp [Mem.len, hh]
            have hlast := R.last
            have h1 : mn ≤ msg.val := by
              apply hmin i msg (by omega)
              · show m.len (.slot i) ≤ (s.sv t).get (.slot i) + 1
                have := hle (.slot i); omega
              · show (m.hist (.slot i))[m.len (.slot i) - 1]? = some msg
                rw [hlen, hh]
                have : s.mem.len (.slot i) - 1 = V.get (.slot i) := by omega
                rw [this]; exact hmsg
            exact R.pvs e he1 (by omega)
          · -- the region's fence came after the tick: the region sees what the ticker saw
            rcases inv.dich i V e W hV hW with h | h
            · exact absurd (View.le_trans h he3) hle
            · exact View.le_trans (inv.tick e W hW).1 h
    · intro t' e; rfl
    · intro t' e; simp [e]
    · intro i; rw [hcr i]; simp [Pc.crAt]
    · intro i; rw [hlk i]; simp [Pc.lkAt]
    · intro i; rw [hlk3 i]; simp [Pc.lk3At]
    · simp [PcOK]

/-- low_water_mark: `accessor_number()` -/
theorem Inv.step_sc1 {c : Cfg} {o : Orders} {s : State} {m : Mem Loc} {t S ch n : Nat}
    (inv : Inv c o s) (hp : s.pc t = .sc1 S) (hr : s.mem.read t .nacc o.scanCount ch = some (m, n)) :
    Inv c o (if n = 0 then { s with mem := m, pc := upd s.pc t (.sc2 S) } else Epoch.scanNext s m t (min n S) 0 MAX) := by
  have hpc := inv.pcs t; unfold PcOK at hpc; rw [hp] at hpc
  obtain ⟨hsv, hcapS⟩ := hpc
  have q := QuietMem.of_read inv.wf hr
  have hts := Mem.read_ts_lt hr
  obtain ⟨msg, hmsg, hv, hle, hm⟩ := Mem.read_spec hr
  have hval := inv.naccVal ch msg hmsg
  have hsvb : View.Bounded s.mem (s.sv t) := View.Bounded.of_le hsv (inv.wf.cur t)
  have hcapS' : CapS c { s with mem := m } t S := hcapS.ext (s' := { s with mem := m }) q.ext rfl hsvb
  split
  · rename_i hn
    apply inv.quiet_pc (s' := { s with mem := m, pc := upd s.pc t (.sc2 S) }) (t := t) q <;> try rfl
    · intro t' e; rfl
    · intro t' e; simp [e]
    · intro i; simp [hp, Pc.crAt]
    · intro i; simp [hp, Pc.lkAt]
    · intro i; simp [hp, Pc.lk3At]
    · simp only [PcOK, upd_same]
      refine ⟨View.le_trans hsv (q.ext.cur t), hcapS.ext (s' := { s with mem := m, pc := upd s.pc t (.sc2 S) }) q.ext rfl hsvb, fun _ => ?_⟩
      have := hsv .nacc
      simp only [State.cur] at this
      show (s.sv t).get .nacc = 0
      omega
  · rename_i hn
    apply inv.scanNext (by simp [hp, Pc.crAt]) (by simp [hp, Pc.lkAt]) (by simp [hp, Pc.lk3At]) q
      (View.le_trans hsv (q.ext.cur t))
    · intro i msg hi; omega
    · intro i hi hcap
      obtain ⟨ts, msg', hts', hmsg', hcap'⟩ := hcap
      have h1 : msg'.val * c.bs ≤ S := hcapS' ts msg' hts' hmsg'
      have h2 : i < n := by
        cases htls : c.tls with
        | true =>
          have := inv.naccTls htls
          exfalso; apply hn; omega
        | false =>
          have hcnt : c.cnt = .nacc := by simp [Cfg.cnt, htls]
          have hi' : i < (s.sv t).get c.cnt := hi
          rw [hcnt] at hi'
          have := hsv .nacc
          simp only [State.cur] at this
          omega
      exact Nat.lt_min.mpr ⟨h2, by omega⟩

/-- low_water_mark: `ThreadId::end<Epoch>()` after `accessor_number()` returned 0 -/
theorem Inv.step_sc2 {c : Cfg} {o : Orders} {s : State} {m : Mem Loc} {t S ch n : Nat}
    (inv : Inv c o s) (hp : s.pc t = .sc2 S) (hr : s.mem.read t .ntid o.scanCount ch = some (m, n)) :
    Inv c o (Epoch.scanNext s m t (min n S) 0 MAX) := by
  have hpc := inv.pcs t; unfold PcOK at hpc; rw [hp] at hpc
  obtain ⟨hsv, hcapS, hnacc⟩ := hpc
  have q := QuietMem.of_read inv.wf hr
  obtain ⟨msg, hmsg, hv, hle, hm⟩ := Mem.read_spec hr
  have hval := inv.ntidVal ch msg hmsg
  have hsvb : View.Bounded s.mem (s.sv t) := View.Bounded.of_le hsv (inv.wf.cur t)
  have hcapS' : CapS c { s with mem := m } t S := hcapS.ext (s' := { s with mem := m }) q.ext rfl hsvb
  apply inv.scanNext (by simp [hp, Pc.crAt]) (by simp [hp, Pc.lkAt]) (by simp [hp, Pc.lk3At]) q
    (View.le_trans hsv (q.ext.cur t))
  · intro i msg hi; omega
  · intro i hi hcap
    obtain ⟨ts, msg', hts', hmsg', hcap'⟩ := hcap
    have h1 : msg'.val * c.bs ≤ S := hcapS' ts msg' hts' hmsg'
    have h2 : i < n := by
      have hi' : i < (s.sv t).get c.cnt := hi
      cases htls : c.tls with
      | true =>
        have hcnt : c.cnt = .ntid := by simp [Cfg.cnt, htls]
        rw [hcnt] at hi'
        have := hsv .ntid
        simp only [State.cur] at this
        omega
      | false =>
        have hcnt : c.cnt = .nacc := by simp [Cfg.cnt, htls]
        rw [hcnt, hnacc htls] at hi'
        omega
    exact Nat.lt_min.mpr ⟨h2, by omega⟩

/-- low_water_mark: the acquire load of one slot -/
theorem Inv.step_sc3 {c : Cfg} {o : Orders} {s : State} {m : Mem Loc} {t B j mn ch v : Nat}
    (inv : Inv c o s) (hp : s.pc t = .sc3 B j mn) (hr : s.mem.read t (.slot j) o.scanSlot ch = some (m, v)) :
    Inv c o (Epoch.scanNext s m t B (j + 1) (min mn v)) := by
  have hpc := inv.pcs t; unfold PcOK at hpc; rw [hp] at hpc
  obtain ⟨hsv, hmin, hbound⟩ := hpc
  have q := QuietMem.of_read inv.wf hr
  have hts := Mem.read_ts_lt hr
  obtain ⟨msg, hmsg, hv, hle, hm⟩ := Mem.read_spec hr
  have hsvb : View.Bounded s.mem (s.sv t) := View.Bounded.of_le hsv (inv.wf.cur t)
  have hhist : m.hist = s.mem.hist := Mem.read_hist hr
  apply inv.scanNext (by simp [hp, Pc.crAt]) (by simp [hp, Pc.lkAt]) (by simp [hp, Pc.lk3At]) q
    (View.le_trans hsv (q.ext.cur t))
  · intro i msg' hi hlen hmsg'
    have hlen' : s.mem.len (.slot i) ≤ (s.sv t).get (.slot i) + 1 := by simpa [Mem.len, hhist] using hlen
    have hmsg'' : (s.mem.hist (.slot i))[s.mem.len (.slot i) - 1]? = some msg' := by simpa [Mem.len, hhist] using hmsg'
    by_cases e : i = j
    · subst e
      have h1 := hsv (.slot i)
      simp only [State.cur] at h1
      have : ch = s.mem.len (.slot i) - 1 := by omega
      rw [this] at hmsg
      rw [hmsg] at hmsg''
      cases hmsg''
      rw [hv]; exact Nat.min_le_right _ _
    · exact Nat.le_trans (Nat.min_le_left _ _) (hmin i msg' (by omega) hlen' hmsg'')
  · exact hbound.ext (s' := { s with mem := m }) q.ext rfl hsvb

end Babylon.Epoch
