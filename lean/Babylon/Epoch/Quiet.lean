/-
  Preservation of the Epoch invariant by "quiet" steps: a thread reads, fences or accesses client
  memory; no ghost / plain variable other than its own program counter, result register, scan
  start view changes, and no history of an Epoch location grows.
-/
import Babylon.Epoch.Frame

namespace Babylon.Epoch
open Babylon.Core Babylon.Core.MemView

theorem Cfg.cnt_ne_cl (c : Cfg) (k : Nat) : c.cnt ≠ .cl k := by
  unfold Cfg.cnt; split <;> simp

theorem Inv.quiet_step {c : Cfg} {o : Orders} {s s' : State} {t : Nat} (inv : Inv c o s)
    (hext : s.mem.Ext s'.mem) (hwf : s'.mem.WF)
    (htv : ∀ t', t' ≠ t → s'.mem.tv t' = s.mem.tv t')
    (hhist : ∀ l, (∀ k, l ≠ .cl k) → s'.mem.hist l = s.mem.hist l)
    (hlt : s'.lt = s.lt) (hown : s'.own = s.own) (htslot : s'.tslot = s.tslot) (hfv : s'.fv = s.fv)
    (hpub : s'.pub = s.pub) (hav : s'.av = s.av) (hpv : s'.pv = s.pv) (htkv : s'.tkv = s.tkv)
    (hrecl : ∀ e, s'.recl e = true → s.recl e = true ∨
      ((∃ W, s.tkv e = some W) ∧ ∀ i V, s.fv i = some V → s.pv e ≤ V))
    (hsv : ∀ t', t' ≠ t → s'.sv t' = s.sv t') (hpcs : ∀ t', t' ≠ t → s'.pc t' = s.pc t')
    (hcr : ∀ i, (s'.pc t).crAt i = (s.pc t).crAt i) (hlk : ∀ i, (s'.pc t).lkAt i = (s.pc t).lkAt i)
    (hlk3 : ∀ i, (s'.pc t).lk3At i = (s.pc t).lk3At i)
    (hpc : PcOK c o s' t) : Inv c o s' := by
  have hlen : ∀ l, (∀ k, l ≠ .cl k) → s'.mem.len l = s.mem.len l := fun l hl => by simp [Mem.len, hhist l hl]
  have pcAll : ∀ (f : Pc → Nat → Bool) i, (∀ j, f (s'.pc t) j = f (s.pc t) j) →
      (∀ t', f (s'.pc t') i = false) → ∀ t', f (s.pc t') i = false := by
    intro f i hf h t'
    by_cases e : t' = t
    · subst e; rw [← hf]; exact h t'
    · rw [← hpcs t' e]; exact h t'
  constructor
  · exact hwf
  · exact inv.gverVal.same (hhist _ (by intro k; simp))
  · exact inv.naccVal.same (hhist _ (by intro k; simp))
  · exact inv.ntidVal.same (hhist _ (by intro k; simp))
  · intro h; rw [hlen _ (by intro k; simp)]; exact inv.naccTls h
  · intro k msg e hk; rw [hhist _ (by intro k; simp)] at hk; rw [hpv]; exact inv.gverView k msg e hk
  · intro a b ma mb; rw [hhist _ (by intro k; simp)]; exact inv.tblMono a b ma mb
  · intro e W h
    rw [htkv] at h
    obtain ⟨h1, h2, h3, h4⟩ := inv.tick e W h
    rw [hpv]
    exact ⟨h1, View.le_trans h2 hext.sc, h3, Nat.lt_of_lt_of_le h4 (hext.len_le _)⟩
  · intro i V h
    rw [hfv] at h
    exact (inv.region i V h).frame hext (hhist _ (by intro k; simp)) (by rw [hav]; exact View.le_refl _)
      (by rw [hpub]) (fun e _ => by rw [hpv]) (by rw [hlt]; exact (inv.region i V h).depth)
  · intro i V e W h1 h2; rw [hfv] at h1; rw [htkv] at h2; exact inv.dich i V e W h1 h2
  · intro i h ho
    rw [hown] at ho
    obtain ⟨h1, h2⟩ := inv.acc i h ho
    rw [hav]
    exact ⟨View.le_trans h1 (hext.cur h), h2⟩
  · intro i h ho ht hc
    rw [hown] at ho
    rw [hav]
    refine (inv.accCap i h ho ht ?_).ext hext
    intro hc'
    apply hc
    unfold creating at hc' ⊢
    by_cases e : h = t
    · subst e; rw [hcr]; exact hc'
    · rw [hpcs h e]; exact hc'
  · intro i ho
    rw [hown] at ho
    obtain ⟨msg, h1, h2, h3, h4, h5⟩ := inv.free i ho
    exact ⟨msg, by rw [hhist _ (by intro k; simp)]; exact h1, by rw [hav]; exact h2, h3, by rw [hlt]; exact h4,
      by rw [hfv]; exact h5⟩
  · intro i; rw [hown, hlen _ (c.cnt_ne_cl)]; exact inv.unalloc i
  · intro i ho; rw [hown] at ho; rw [hlt, hfv, hav]; exact inv.unalloc2 i ho
  · intro t' i h; rw [htslot] at h; rw [hown]; exact inv.tslotOK t' i h
  · intro i h1 h2
    rw [hfv] at h1
    have := inv.closed i h1 (pcAll Pc.lk3At i hlk3 h2)
    rw [hhist _ (by intro k; simp), hlen _ (by intro k; simp), hav]
    exact this
  · intro i h1 h2
    rw [hfv] at h1
    rw [hlt]
    exact inv.depth i h1 (pcAll Pc.lkAt i hlk h2)
  · intro e h
    rw [htkv, hfv, hpv]
    rcases hrecl e h with h | h
    · exact inv.recl e h
    · exact h
  · intro t'
    by_cases e : t' = t
    · subst e; exact hpc
    · exact (inv.pcs t').frame inv.wf (hpcs t' e) (htv t' e) hext
        (fun i _ => ⟨by rw [hown], by rw [hlt], by rw [hfv], hhist _ (by intro k; simp)⟩)
        (fun e _ => by rw [hpv]) (hsv t' e) (by rw [htslot])

end Babylon.Epoch
