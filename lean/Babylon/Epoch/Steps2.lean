/-
  Preservation of the Epoch invariant, part 2: steps inside Epoch operations that only read and
  move the program counter (ensure's load / failed CAS, lock's version load, unlock's table
  load at depth 1, the scan's table load).
-/
import Babylon.Epoch.Steps1

namespace Babylon.Epoch
open Babylon.Core Babylon.Core.MemView

theorem need_covers (c : Cfg) (hbs : 0 < c.bs) (i : Nat) : i < c.need i * c.bs := by
  unfold Cfg.need
  have h1 := Nat.div_add_mod i c.bs
  have h2 := Nat.mod_lt i hbs
  have h3 : (i / c.bs + 1) * c.bs = c.bs * (i / c.bs) + c.bs := by
    rw [Nat.add_mul, Nat.one_mul, Nat.mul_comm]
  omega

/-- a view that knows a table message with enough blocks covers the slot -/
theorem capOK_of_msg {c : Cfg} {s' : State} {V : View Loc} {i ts : Nat} {msg : Msg Loc} (hbs : 0 < c.bs)
    (hmono : ∀ (a b : Nat) (ma mb : Msg Loc), a ≤ b → (s'.mem.hist .tbl)[a]? = some ma → (s'.mem.hist .tbl)[b]? = some mb → ma.val ≤ mb.val)
    (hmsg : (s'.mem.hist .tbl)[ts]? = some msg) (hneed : c.need i ≤ msg.val)
    (hts : ts ≤ V.get .tbl) (hb : View.Bounded s'.mem V) : CapOK c s' V i := by
  have hlt : V.get .tbl < (s'.mem.hist .tbl).length := hb .tbl
  refine ⟨_, List.getElem?_eq_getElem hlt, ?_⟩
  have h1 := hmono _ _ _ _ hts hmsg (List.getElem?_eq_getElem hlt)
  have h2 := need_covers c hbs i
  have h3 : c.need i * c.bs ≤ msg.val * c.bs := Nat.mul_le_mul_right _ hneed
  have h4 : msg.val * c.bs ≤ ((s'.mem.hist .tbl)[V.get .tbl]).val * c.bs := Nat.mul_le_mul_right _ h1
  omega

/-- after a load of the block table that found enough blocks, the thread's view covers the slot -/
theorem capOK_of_read {c : Cfg} {o : Orders} {s s' : State} {m : Mem Loc} {t i ts nb : Nat} {oo : Core.Ord}
    (inv : Inv c o s) (hbs : 0 < c.bs) (hr : s.mem.read t .tbl oo ts = some (m, nb)) (hneed : c.need i ≤ nb)
    (hm : s'.mem = m) : CapOK c s' (m.tv t).cur i := by
  have hwf := Mem.read_wf hr inv.wf
  obtain ⟨msg, hmsg, hv, _, rfl⟩ := Mem.read_spec hr
  subst hv
  apply capOK_of_msg hbs (ts := ts) (msg := msg)
  · rw [hm]; exact inv.tblMono
  · rw [hm]; exact hmsg
  · exact hneed
  · simp only [upd_same]; exact TView.read_cur_ts _ _ _ _ _
  · rw [hm]; exact hwf.cur t

/-- `ensure` (load or failed CAS) found the table too small: go on to the CAS -/
theorem Inv.step_ensure_retry {c : Cfg} {o : Orders} {s : State} {m : Mem Loc} {t i nb : Nat} {k : K}
    (inv : Inv c o s) (hp : (∃ seen, s.pc t = .en1 i seen k) ∨ s.pc t = .en0 i k) (q : QuietMem s.mem m t)
    (hnb : nb < c.need i) : Inv c o { s with mem := m, pc := upd s.pc t (.en1 i nb k) } := by
  have hown : s.own i = .held t ∧ (k = .kCreate → c.tls = false) := by
    have := inv.pcs t; unfold PcOK at this
    rcases hp with ⟨seen, hp⟩ | hp <;> rw [hp] at this
    · exact ⟨this.1, this.2.2⟩
    · exact this
  apply inv.quiet_pc (s' := { s with mem := m, pc := upd s.pc t (.en1 i nb k) }) (t := t) q <;> try rfl
  · intro t' e; rfl
  · intro t' e; simp [e]
  · intro j; rcases hp with ⟨seen, hp⟩ | hp <;> simp [hp] <;> cases k <;> simp [Pc.crAt]
  · intro j; rcases hp with ⟨seen, hp⟩ | hp <;> simp [hp, Pc.lkAt]
  · intro j; rcases hp with ⟨seen, hp⟩ | hp <;> simp [hp, Pc.lk3At]
  · simp [PcOK]; exact ⟨hown.1, hnb, hown.2⟩

/-- `ensure` inside thread-local `lock()` is done: go on with `lock(index)` -/
theorem Inv.step_ensure_lock {c : Cfg} {o : Orders} {s : State} {m : Mem Loc} {t i : Nat}
    (inv : Inv c o s) (hp : (∃ seen, s.pc t = .en1 i seen .kLock) ∨ s.pc t = .en0 i .kLock) (q : QuietMem s.mem m t)
    (hcap : CapOK c { s with mem := m } (m.tv t).cur i) : Inv c o { s with mem := m, pc := upd s.pc t (.lk0 i) } := by
  have hown : s.own i = .held t := by
    have := inv.pcs t; unfold PcOK at this
    rcases hp with ⟨seen, hp⟩ | hp <;> rw [hp] at this
    · exact this.1
    · exact this.1
  apply inv.quiet_pc (s' := { s with mem := m, pc := upd s.pc t (.lk0 i) }) (t := t) q <;> try rfl
  · intro t' e; rfl
  · intro t' e; simp [e]
  · intro j; rcases hp with ⟨seen, hp⟩ | hp <;> simp [hp, Pc.crAt]
  · intro j; rcases hp with ⟨seen, hp⟩ | hp <;> simp [hp, Pc.lkAt]
  · intro j; rcases hp with ⟨seen, hp⟩ | hp <;> simp [hp, Pc.lk3At]
  · simp [PcOK]; exact ⟨hown, fun _ => hcap⟩

/-- lock: the relaxed load of the global version -/
theorem Inv.step_lk1 {c : Cfg} {o : Orders} {s : State} {m : Mem Loc} {t i ch v : Nat}
    (inv : Inv c o s) (hp : s.pc t = .lk1 i) (hr : s.mem.read t .gver o.lockLoad ch = some (m, v)) :
    Inv c o { s with mem := m, pc := upd s.pc t (.lk2 i v) } := by
  have hpc := inv.pcs t; unfold PcOK at hpc; rw [hp] at hpc
  obtain ⟨h1, h2, h3, h4⟩ := hpc
  have q := QuietMem.of_read inv.wf hr
  apply inv.quiet_pc (s' := { s with mem := m, pc := upd s.pc t (.lk2 i v) }) (t := t) q <;> try rfl
  · intro t' e; rfl
  · intro t' e; simp [e]
  · intro j; simp [hp, Pc.crAt]
  · intro j; simp [hp, Pc.lkAt]
  · intro j; simp [hp, Pc.lk3At]
  · have hts := Mem.read_ts_lt hr
    obtain ⟨msg, hmsg, hv, _, hm⟩ := Mem.read_spec hr
    have hval := inv.gverVal ch msg hmsg
    simp only [PcOK, upd_same]
    refine ⟨h1, h2, h3, ?_, ?_, ?_⟩
    · exact CapOK.mono (s := s) h4 q.ext (q.ext.cur t) (q.wf.cur t) (by
        show ∀ (a b : Nat) (ma mb : Msg Loc), a ≤ b → (m.hist .tbl)[a]? = some ma → (m.hist .tbl)[b]? = some mb → ma.val ≤ mb.val
        rw [Mem.read_hist hr]; exact inv.tblMono)
    · show v < m.len .gver
      rw [Mem.read_len hr]; omega
    · intro e he1 he2
      show s.pv e ≤ (m.tv t).acq
      subst hm
      simp only [upd_same]
      exact View.le_trans (inv.gverView ch msg e hmsg he1 (by omega)) (TView.read_acq_view _ _ _ _ _)

/-- unlock at depth 1: after the table load comes the store -/
theorem Inv.step_ul0_last {c : Cfg} {o : Orders} {s : State} {m : Mem Loc} {t i : Nat}
    (inv : Inv c o s) (hp : s.pc t = .ul0 i) (q : QuietMem s.mem m t) (hlt : s.lt i = 1) :
    Inv c o { s with mem := m, pc := upd s.pc t (.ul1 i) } := by
  have hpc := inv.pcs t; unfold PcOK at hpc; rw [hp] at hpc
  apply inv.quiet_pc (s' := { s with mem := m, pc := upd s.pc t (.ul1 i) }) (t := t) q <;> try rfl
  · intro t' e; rfl
  · intro t' e; simp [e]
  · intro j; simp [hp, Pc.crAt]
  · intro j; simp [hp, Pc.lkAt]
  · intro j; simp [hp, Pc.lk3At]
  · simp [PcOK]; exact ⟨hpc.1, hlt⟩

/-- low_water_mark: the snapshot of the block table -/
theorem Inv.step_sc0 {c : Cfg} {o : Orders} {s : State} {m : Mem Loc} {t ch nb : Nat}
    (inv : Inv c o s) (hp : s.pc t = .sc0) (hr : s.mem.read t .tbl o.scanTbl ch = some (m, nb)) :
    Inv c o { s with mem := m, pc := upd s.pc t (.sc1 (nb * c.bs)) } := by
  have hpc := inv.pcs t; unfold PcOK at hpc; rw [hp] at hpc
  have q := QuietMem.of_read inv.wf hr
  apply inv.quiet_pc (s' := { s with mem := m, pc := upd s.pc t (.sc1 (nb * c.bs)) }) (t := t) q <;> try rfl
  · intro t' e; rfl
  · intro t' e; simp [e]
  · intro j; simp [hp, Pc.crAt]
  · intro j; simp [hp, Pc.lkAt]
  · intro j; simp [hp, Pc.lk3At]
  · obtain ⟨msg, hmsg, hv, hle, hm⟩ := Mem.read_spec hr
    simp only [PcOK, upd_same]
    refine ⟨View.le_trans hpc (q.ext.cur t), ?_⟩
    intro ts msg' hts hmsg'
    have e1 : ({ s with mem := m, pc := upd s.pc t (.sc1 (nb * c.bs)) } : State).mem.hist = s.mem.hist := Mem.read_hist hr
    rw [e1] at hmsg'
    have h1 : ts ≤ ch := by
      have := hpc .tbl
      simp only [State.cur] at this
      have hts' : ts ≤ (s.sv t).get .tbl := hts
      omega
    have := inv.tblMono ts ch msg' msg h1 hmsg' hmsg
    subst hv
    exact Nat.mul_le_mul_right _ this

/-- Accessor::release: the table load of `unregister_accessor`; an open region is closed next -/
theorem Inv.step_rl0 {c : Cfg} {o : Orders} {s : State} {m : Mem Loc} {t i : Nat}
    (inv : Inv c o s) (hp : s.pc t = .rl0 i) (q : QuietMem s.mem m t) :
    Inv c o (if s.lt i ≠ 0 then { s with mem := m, pc := upd s.pc t (.rl1 i) }
             else { s with mem := m, pc := upd s.pc t (.rl2 i) }) := by
  have hpc := inv.pcs t; unfold PcOK at hpc; rw [hp] at hpc
  split
  · rename_i hlt
    apply inv.quiet_pc (s' := { s with mem := m, pc := upd s.pc t (.rl1 i) }) (t := t) q <;> try rfl
    · intro t' e; rfl
    · intro t' e; simp [e]
    · intro j; simp [hp, Pc.crAt]
    · intro j; simp [hp, Pc.lkAt]
    · intro j; simp [hp, Pc.lk3At]
    · simp [PcOK]; exact ⟨hpc, by omega⟩
  · rename_i hlt
    have hlt0 : s.lt i = 0 := by omega
    have hfv : s.fv i = none := by
      cases h : s.fv i with
      | none => rfl
      | some V => have := (inv.region i V h).depth; omega
    apply inv.quiet_pc (s' := { s with mem := m, pc := upd s.pc t (.rl2 i) }) (t := t) q <;> try rfl
    · intro t' e; rfl
    · intro t' e; simp [e]
    · intro j; simp [hp, Pc.crAt]
    · intro j; simp [hp, Pc.lkAt]
    · intro j; simp [hp, Pc.lk3At]
    · simp [PcOK]; exact ⟨hpc, hlt0, hfv⟩

end Babylon.Epoch
