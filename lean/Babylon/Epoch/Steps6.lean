/-
  Preservation of the Epoch invariant, part 6: `tick` (the Dekker argument on the writer's side).
-/
import Babylon.Epoch.Steps5

namespace Babylon.Epoch
open Babylon.Core Babylon.Core.MemView

/-- A step of thread `t` that may append to the history of the global version only, may set
`pv` at the index of the new message, and may complete tick `e0`. -/
theorem Inv.tick_step {c : Cfg} {o : Orders} {s s' : State} {t e0 : Nat} (inv : Inv c o s)
    (hext : s.mem.Ext s'.mem) (hwf : s'.mem.WF)
    (htv : ∀ t', t' ≠ t → s'.mem.tv t' = s.mem.tv t')
    (hhist : ∀ l, l ≠ .gver → s'.mem.hist l = s.mem.hist l)
    (hg : CounterOK s' .gver)
    (hgv : ∀ (k : Nat) (msg : Msg Loc) (e : Nat), (s'.mem.hist .gver)[k]? = some msg → 1 ≤ e → e ≤ k → s'.pv e ≤ msg.view)
    (hlt : s'.lt = s.lt) (hown : s'.own = s.own) (htslot : s'.tslot = s.tslot) (hfv : s'.fv = s.fv)
    (hpub : s'.pub = s.pub) (hav : s'.av = s.av) (hrecl : s'.recl = s.recl) (hsv : s'.sv = s.sv)
    (hpv : ∀ e, e < s.mem.len .gver → s'.pv e = s.pv e)
    (htkv : ∀ e, e ≠ e0 → s'.tkv e = s.tkv e)
    (htkv0 : ∀ W, s'.tkv e0 = some W → s'.pv e0 ≤ W ∧ W ≤ s'.mem.sc ∧ 1 ≤ e0 ∧ e0 < s'.mem.len .gver ∧
      ∀ i V, s.fv i = some V → V ≤ W)
    (hrecl0 : s.recl e0 = true → (∃ W, s'.tkv e0 = some W) ∧ s'.pv e0 = s.pv e0)
    (hpcs : ∀ t', t' ≠ t → s'.pc t' = s.pc t')
    (hcr : ∀ i, (s'.pc t).crAt i = (s.pc t).crAt i) (hlk : ∀ i, (s'.pc t).lkAt i = (s.pc t).lkAt i)
    (hlk3 : ∀ i, (s'.pc t).lk3At i = (s.pc t).lk3At i)
    (hpc : PcOK c o s' t) : Inv c o s' := by
  have hlen : ∀ l, l ≠ .gver → s'.mem.len l = s.mem.len l := fun l hl => by simp [Mem.len, hhist l hl]
  have hcnt : c.cnt ≠ .gver := by unfold Cfg.cnt; split <;> simp
  have pcAll : ∀ (f : Pc → Nat → Bool) i, (∀ j, f (s'.pc t) j = f (s.pc t) j) →
      (∀ t', f (s'.pc t') i = false) → ∀ t', f (s.pc t') i = false := by
    intro f i hf h t'
    by_cases e : t' = t
    · subst e; rw [← hf]; exact h t'
    · rw [← hpcs t' e]; exact h t'
  constructor
  · exact hwf
  · exact hg
  · exact inv.naccVal.same (hhist _ (by simp))
  · exact inv.ntidVal.same (hhist _ (by simp))
  · intro h; rw [hlen _ (by simp)]; exact inv.naccTls h
  · exact hgv
  · intro a b ma mb; rw [hhist _ (by simp)]; exact inv.tblMono a b ma mb
  · intro e W h
    by_cases ee : e = e0
    · subst ee
      obtain ⟨h1, h2, h3, h4, _⟩ := htkv0 W h
      exact ⟨h1, h2, h3, h4⟩
    · rw [htkv e ee] at h
      obtain ⟨h1, h2, h3, h4⟩ := inv.tick e W h
      rw [hpv e h4]
      exact ⟨h1, View.le_trans h2 hext.sc, h3, Nat.lt_of_lt_of_le h4 (hext.len_le _)⟩
  · intro i V h
    rw [hfv] at h
    exact (inv.region i V h).frame hext (hhist _ (by simp)) (by rw [hav]; exact View.le_refl _)
      (by rw [hpub]) hpv (by rw [hlt]; exact (inv.region i V h).depth)
  · intro i V e W h1 h2
    rw [hfv] at h1
    by_cases ee : e = e0
    · subst ee; exact Or.inl ((htkv0 W h2).2.2.2.2 i V h1)
    · rw [htkv e ee] at h2; exact inv.dich i V e W h1 h2
  · intro i h ho
    rw [hown] at ho
    obtain ⟨h1, h2⟩ := inv.acc i h ho
    rw [hav]
    exact ⟨View.le_trans h1 (hext.cur h), h2⟩
  · intro i h ho ht hc
    rw [hown] at ho
    rw [hav]
    refine (inv.accCap i h ho ht ?_).ext hext
    intro hc'
    apply hc
    unfold creating at hc' ⊢
    by_cases e : h = t
    · subst e; rw [hcr]; exact hc'
    · rw [hpcs h e]; exact hc'
  · intro i ho
    rw [hown] at ho
    obtain ⟨msg, h1, h2, h3, h4, h5⟩ := inv.free i ho
    exact ⟨msg, by rw [hhist _ (by simp)]; exact h1, by rw [hav]; exact h2, h3, by rw [hlt]; exact h4,
      by rw [hfv]; exact h5⟩
  · intro i; rw [hown, hlen _ hcnt]; exact inv.unalloc i
  · intro i ho; rw [hown] at ho; rw [hlt, hfv, hav]; exact inv.unalloc2 i ho
  · intro t' i h; rw [htslot] at h; rw [hown]; exact inv.tslotOK t' i h
  · intro i h1 h2
    rw [hfv] at h1
    have := inv.closed i h1 (pcAll Pc.lk3At i hlk3 h2)
    rw [hhist _ (by simp), hlen _ (by simp), hav]
    exact this
  · intro i h1 h2
    rw [hfv] at h1
    rw [hlt]
    exact inv.depth i h1 (pcAll Pc.lkAt i hlk h2)
  · intro e h
    rw [hrecl] at h
    obtain ⟨⟨W, hW⟩, h2⟩ := inv.recl e h
    have helt := (inv.tick e W hW).2.2.2
    rw [hfv]
    by_cases ee : e = e0
    · subst ee
      obtain ⟨h3, h4⟩ := hrecl0 h
      rw [h4]; exact ⟨h3, h2⟩
    · rw [htkv e ee, hpv e helt]; exact ⟨⟨W, hW⟩, h2⟩
  · intro t'
    by_cases e : t' = t
    · subst e; exact hpc
    · exact (inv.pcs t').frame inv.wf (hpcs t' e) (htv t' e) hext
        (fun i _ => ⟨by rw [hown], by rw [hlt], by rw [hfv], hhist _ (by simp)⟩)
        hpv (by rw [hsv]) (by rw [htslot])

/-- facts about the RMW of `tick` -/
theorem tick_rmw_facts {c : Cfg} {o : Orders} {s : State} {m : Mem Loc} {t old : Nat} (inv : Inv c o s)
    (hrel : o.tickRmw.releases = true)
    (hr : s.mem.rmw t .gver o.tickRmw (· + Gen.Epoch.tickIncrement) = some (m, old)) :
    old + 1 = s.mem.len .gver ∧
    (∀ s' : State, s'.mem = m → CounterOK s' .gver) ∧
    (∀ (pv' : Nat → View Loc), pv' (s.mem.len .gver) = s.cur t → (∀ e, e < s.mem.len .gver → pv' e = s.pv e) →
      ∀ (k : Nat) (msg : Msg Loc) (e : Nat), (m.hist .gver)[k]? = some msg → 1 ≤ e → e ≤ k → pv' e ≤ msg.view) ∧
    m.len .gver = s.mem.len .gver + 1 := by
  obtain ⟨msg, W, hlast, hold, hh, hho, htv, hmW, hrelW, hcur, hacq, hts, hmacq, hmcur, hsc, hnsc⟩ := Mem.rmw_facts hr
  have hne := inv.wf.nonempty .gver
  have hm : (s.mem.hist .gver)[s.mem.len .gver - 1]? = some msg := getLast?_getElem? _ _ hlast
  have hval := inv.gverVal _ msg hm
  have hold1 : old + 1 = s.mem.len .gver := by omega
  have hh' : m.hist .gver = s.mem.hist .gver ++ [⟨s.mem.len .gver, W⟩] := by
    rw [hh]; simp [Gen.Epoch.tickIncrement]; omega
  refine ⟨hold1, ?_, ?_, by simp [Mem.len, hh]⟩
  · intro s' hs'
    exact CounterOK.push (s := s) inv.gverVal (by rw [hs']; exact hh')
  · intro pv' hpv0 hpv k msg' e hk he1 he2
    rw [hh'] at hk
    rcases getElem?_append_one hk with h1 | ⟨h1, h2⟩
    · have hk' := getElem?_lt h1
      rw [hpv e (by simp [Mem.len]; omega)]
      exact inv.gverView k msg' e h1 he1 he2
    · subst h2
      simp only
      by_cases ee : e = s.mem.len .gver
      · rw [ee, hpv0]; exact hrelW hrel
      · have hk : k = s.mem.len .gver := h1
        have : e ≤ s.mem.len .gver - 1 := by omega
        rw [hpv e (by omega)]
        exact View.le_trans (inv.gverView _ msg e hm he1 this) hmW

/-- tick, x86 branch: one `seq_cst` RMW -/
theorem Inv.step_tk0_sc {c : Cfg} {o : Orders} {s : State} {m : Mem Loc} {t old : Nat} (inv : Inv c o s)
    (hsc : o.tickRmw = .sc) (hp : s.pc t = .tk0)
    (hr : s.mem.rmw t .gver o.tickRmw (· + Gen.Epoch.tickIncrement) = some (m, old)) :
    Inv c o { s with mem := m, pv := upd s.pv (Gen.Epoch.tickReturnPlus + old) (s.mem.tv t).cur, tkv := upd s.tkv (Gen.Epoch.tickReturnPlus + old) (some (m.tv t).cur), ret := upd s.ret t (some (Gen.Epoch.tickReturnPlus + old)), pc := upd s.pc t .idle } := by
  have hrel : o.tickRmw.releases = true := by rw [hsc]; rfl
  obtain ⟨hold1, hcounter, hview, hlen'⟩ := tick_rmw_facts inv hrel hr
  obtain ⟨msg, W, hlast, hold, hh, hho, htv, hmW, hrelW, hcur, hacq, hts, hmacq, hmcur, hscf, hnsc⟩ := Mem.rmw_facts hr
  obtain ⟨hsc1, hsc2, hsc3⟩ := hscf hsc
  have he : Gen.Epoch.tickReturnPlus + old = s.mem.len .gver := by simp [Gen.Epoch.tickReturnPlus]; omega
  rw [he]
  apply inv.tick_step (s' := { s with mem := m, pv := upd s.pv (s.mem.len .gver) (s.mem.tv t).cur, tkv := upd s.tkv (s.mem.len .gver) (some (m.tv t).cur), ret := upd s.ret t (some (s.mem.len .gver)), pc := upd s.pc t .idle })
    (t := t) (e0 := s.mem.len .gver) (Mem.rmw_ext hr) (Mem.rmw_wf hr inv.wf) htv hho (hcounter _ rfl) <;> try rfl
  · exact hview _ (by simp [State.cur]) (fun e he => upd_other _ _ _ _ (by omega))
  · intro e he; exact upd_other _ _ _ _ (by omega)
  · intro e he; simp [he]
  · intro W' hW'
    simp only [upd_same] at hW'
    cases hW'
    refine ⟨by simpa using hcur, by rw [← hsc1]; exact View.le_refl _, by have := inv.wf.nonempty .gver; omega,
      by show s.mem.len .gver < m.len .gver; omega, fun i V hV => ?_⟩
    rw [← hsc1]
    exact View.le_trans (inv.region i V hV).sc hsc2
  · intro h
    obtain ⟨⟨W', hW'⟩, _⟩ := inv.recl _ h
    have := (inv.tick _ W' hW').2.2.2
    omega
  · intro t' e; simp [e]
  · intro j; simp [hp, Pc.crAt]
  · intro j; simp [hp, Pc.lkAt]
  · intro j; simp [hp, Pc.lk3At]
  · simp [PcOK]

/-- tick, other branch: the releasing RMW; the SC fence follows -/
theorem Inv.step_tk0_fence {c : Cfg} {o : Orders} {s : State} {m : Mem Loc} {t old : Nat} {f : Core.Ord} (inv : Inv c o s)
    (hrel : o.tickRmw.releases = true) (hf : o.tickFence = some f) (hp : s.pc t = .tk0)
    (hr : s.mem.rmw t .gver o.tickRmw (· + Gen.Epoch.tickIncrement) = some (m, old)) :
    Inv c o { s with mem := m, pv := upd s.pv (Gen.Epoch.tickReturnPlus + old) (s.mem.tv t).cur, pc := upd s.pc t (.tk1 (Gen.Epoch.tickReturnPlus + old)) } := by
  obtain ⟨hold1, hcounter, hview, hlen'⟩ := tick_rmw_facts inv hrel hr
  obtain ⟨msg, W, hlast, hold, hh, hho, htv, hmW, hrelW, hcur, hacq, hts, hmacq, hmcur, hscf, hnsc⟩ := Mem.rmw_facts hr
  have he : Gen.Epoch.tickReturnPlus + old = s.mem.len .gver := by simp [Gen.Epoch.tickReturnPlus]; omega
  rw [he]
  have hnone : s.tkv (s.mem.len .gver) = none := by
    cases h : s.tkv (s.mem.len .gver) with
    | none => rfl
    | some W' => have := (inv.tick _ W' h).2.2.2; omega
  apply inv.tick_step (s' := { s with mem := m, pv := upd s.pv (s.mem.len .gver) (s.mem.tv t).cur, pc := upd s.pc t (.tk1 (s.mem.len .gver)) })
    (t := t) (e0 := s.mem.len .gver) (Mem.rmw_ext hr) (Mem.rmw_wf hr inv.wf) htv hho (hcounter _ rfl) <;> try rfl
  · exact hview _ (by simp [State.cur]) (fun e he => upd_other _ _ _ _ (by omega))
  · intro e he; exact upd_other _ _ _ _ (by omega)
  · intro e _; rfl
  · intro W' hW'; rw [show s.tkv (s.mem.len .gver) = some W' from hW'] at hnone; cases hnone
  · intro h
    obtain ⟨⟨W', hW'⟩, _⟩ := inv.recl _ h
    rw [hW'] at hnone; cases hnone
  · intro t' e; simp [e]
  · intro j; simp [hp, Pc.crAt]
  · intro j; simp [hp, Pc.lkAt]
  · intro j; simp [hp, Pc.lk3At]
  · simp only [PcOK, upd_same]
    refine ⟨⟨f, hf⟩, by have := inv.wf.nonempty .gver; omega, by show s.mem.len .gver < m.len .gver; omega, ?_⟩
    simpa [State.cur] using hcur

/-- tick, other branch: the `seq_cst` fence completes the tick -/
theorem Inv.step_tk1 {c : Cfg} {o : Orders} {s : State} {t e : Nat} (inv : Inv c o s)
    (hf : o.tickFence = some .sc) (hp : s.pc t = .tk1 e) :
    Inv c o { s with mem := s.mem.fence t .sc, tkv := upd s.tkv e (some ((s.mem.fence t .sc).tv t).cur), ret := upd s.ret t (some e), pc := upd s.pc t .idle } := by
  have hpc := inv.pcs t; unfold PcOK at hpc; rw [hp] at hpc
  obtain ⟨_, he1, he2, hpve⟩ := hpc
  have q := QuietMem.of_fence (m := s.mem) t .sc inv.wf
  have hV : ((s.mem.fence t .sc).tv t).cur = s.mem.scView t := by simp
  rw [hV]
  apply inv.tick_step (s' := { s with mem := s.mem.fence t .sc, tkv := upd s.tkv e (some (s.mem.scView t)), ret := upd s.ret t (some e), pc := upd s.pc t .idle })
    (t := t) (e0 := e) q.ext q.wf q.tv (fun l _ => by simp) (inv.gverVal.same (by simp)) <;> try rfl
  · intro k msg e' hk; simp at hk; exact inv.gverView k msg e' hk
  · intro e' _; rfl
  · intro e' he'; simp [he']
  · intro W' hW'
    simp only [upd_same] at hW'
    cases hW'
    refine ⟨View.le_trans hpve (Mem.cur_le_scView _ _), by simp; exact View.le_refl _, he1, by simpa using he2, fun i V hV' => ?_⟩
    exact View.le_trans (inv.region i V hV').sc (Mem.sc_le_scView _ _)
  · intro _; exact ⟨⟨_, upd_same _ _ _⟩, rfl⟩
  · intro t' e'; simp [e']
  · intro j; simp [hp, Pc.crAt]
  · intro j; simp [hp, Pc.lkAt]
  · intro j; simp [hp, Pc.lk3At]
  · simp [PcOK]

end Babylon.Epoch
