/-
  Preservation of the Epoch invariant, part 9: steps that change who holds a slot — `allocate()`
  (mint or pop), `deallocate()`, and moving an Accessor to another thread.
-/
import Babylon.Epoch.Steps8

namespace Babylon.Epoch
open Babylon.Core Babylon.Core.MemView

theorem Cfg.cnt_cases (c : Cfg) : (c.tls = true ∧ c.cnt = .ntid) ∨ (c.tls = false ∧ c.cnt = .nacc) := by
  unfold Cfg.cnt; cases c.tls <;> simp

/-- A step of thread `t` that changes the ownership of slot `i0`, which has no region open, and
appends at most to the minting counter and to the hand-over cell of `i0`. -/
theorem Inv.own_step {c : Cfg} {o : Orders} {s s' : State} {t i0 : Nat} (inv : Inv c o s)
    (hext : s.mem.Ext s'.mem) (hwf : s'.mem.WF)
    (htv : ∀ t', t' ≠ t → s'.mem.tv t' = s.mem.tv t')
    (hhist : ∀ l, l ≠ c.cnt → l ≠ .fl i0 → s'.mem.hist l = s.mem.hist l)
    (hnacc : CounterOK s' .nacc) (hntid : CounterOK s' .ntid) (hnaccTls : c.tls = true → s'.mem.len .nacc = 1)
    (hlt : s'.lt = s.lt) (hfv : s'.fv = s.fv) (hpub : s'.pub = s.pub) (hpv : s'.pv = s.pv) (htkv : s'.tkv = s.tkv)
    (hrecl : s'.recl = s.recl) (hsv : s'.sv = s.sv)
    (hown : ∀ i, i ≠ i0 → s'.own i = s.own i) (hav : ∀ i, i ≠ i0 → s'.av i = s.av i)
    (hpcs : ∀ t', t' ≠ t → s'.pc t' = s.pc t')
    (hlk : ∀ i, (s'.pc t).lkAt i = (s.pc t).lkAt i) (hlk3 : ∀ i, (s'.pc t).lk3At i = (s.pc t).lk3At i)
    (hcr : ∀ i, i ≠ i0 → (s'.pc t).crAt i = (s.pc t).crAt i)
    (hnouse : ∀ t', t' ≠ t → (s.pc t').uses i0 = false)
    (hfv0 : s.fv i0 = none) (hlt0 : s.lt i0 = 0)
    (hacc0 : ∀ h, s'.own i0 = .held h → s'.av i0 ≤ s'.cur h ∧ i0 < (s'.av i0).get c.cnt)
    (hcap0 : ∀ h, s'.own i0 = .held h → c.tls = false → ¬ creating s' i0 h → CapOK c s' (s'.av i0) i0)
    (hfree0 : s'.own i0 = .free → ∃ msg, (s'.mem.hist (.fl i0)).getLast? = some msg ∧ s'.av i0 ≤ msg.view ∧
      i0 < msg.view.get c.cnt)
    (hunalloc : ∀ i, s'.own i = .unalloc ↔ s'.mem.len c.cnt ≤ i + 1)
    (hunalloc0 : s'.own i0 = .unalloc → ∀ l, (s'.av i0).get l = 0)
    (htslot : ∀ t' i, s'.tslot t' = some i → c.tls = true ∧ s'.own i = .held t')
    (htslot' : ∀ t', t' ≠ t → s'.tslot t' = s.tslot t')
    (hclosed0 : (∃ msg, (s'.mem.hist (.slot i0))[s'.mem.len (.slot i0) - 1]? = some msg ∧ msg.val = MAX) ∧
      (s'.av i0).get (.slot i0) + 1 = s'.mem.len (.slot i0))
    (hpc : PcOK c o s' t) : Inv c o s' := by
  have hc1 : c.cnt ≠ .gver := by unfold Cfg.cnt; split <;> simp
  have hc2 : c.cnt ≠ .tbl := by unfold Cfg.cnt; split <;> simp
  have hc3 : ∀ i, c.cnt ≠ .slot i := by intro i; unfold Cfg.cnt; split <;> simp
  have hc4 : ∀ i, c.cnt ≠ .fl i := by intro i; unfold Cfg.cnt; split <;> simp
  have hlen : ∀ l, l ≠ c.cnt → l ≠ .fl i0 → s'.mem.len l = s.mem.len l := fun l h1 h2 => by simp [Mem.len, hhist l h1 h2]
  have pcAll : ∀ (f : Pc → Nat → Bool) i, (∀ j, f (s'.pc t) j = f (s.pc t) j) →
      (∀ t', f (s'.pc t') i = false) → ∀ t', f (s.pc t') i = false := by
    intro f i hf h t'
    by_cases e : t' = t
    · subst e; rw [← hf]; exact h t'
    · rw [← hpcs t' e]; exact h t'
  constructor
  · exact hwf
  · exact inv.gverVal.same (hhist _ hc1.symm (by simp))
  · exact hnacc
  · exact hntid
  · exact hnaccTls
  · intro k msg e hk; rw [hhist _ hc1.symm (by simp)] at hk; rw [hpv]; exact inv.gverView k msg e hk
  · intro a b ma mb; rw [hhist _ hc2.symm (by simp)]; exact inv.tblMono a b ma mb
  · intro e W h
    rw [htkv] at h
    obtain ⟨h1, h2, h3, h4⟩ := inv.tick e W h
    rw [hpv]
    exact ⟨h1, View.le_trans h2 hext.sc, h3, Nat.lt_of_lt_of_le h4 (hext.len_le _)⟩
  · intro i V h
    rw [hfv] at h
    have ei : i ≠ i0 := by intro e; subst e; rw [hfv0] at h; cases h
    exact (inv.region i V h).frame hext (hhist _ (hc3 i).symm (by simp)) (by rw [hav i ei]; exact View.le_refl _)
      (by rw [hpub]) (fun e _ => by rw [hpv]) (by rw [hlt]; exact (inv.region i V h).depth)
  · intro i V e W h1 h2; rw [hfv] at h1; rw [htkv] at h2; exact inv.dich i V e W h1 h2
  · intro i h ho
    by_cases ei : i = i0
    · subst ei; exact hacc0 h ho
    · rw [hown i ei] at ho
      obtain ⟨h1, h2⟩ := inv.acc i h ho
      rw [hav i ei]
      exact ⟨View.le_trans h1 (hext.cur h), h2⟩
  · intro i h ho ht hc
    by_cases ei : i = i0
    · subst ei; exact hcap0 h ho ht hc
    · rw [hown i ei] at ho
      rw [hav i ei]
      refine (inv.accCap i h ho ht ?_).ext hext
      intro hc'
      apply hc
      unfold creating at hc' ⊢
      by_cases e : h = t
      · subst e; rw [hcr i ei]; exact hc'
      · rw [hpcs h e]; exact hc'
  · intro i ho
    by_cases ei : i = i0
    · subst ei
      obtain ⟨msg, h1, h2, h3⟩ := hfree0 ho
      exact ⟨msg, h1, h2, h3, by rw [hlt]; exact hlt0, by rw [hfv]; exact hfv0⟩
    · rw [hown i ei] at ho
      obtain ⟨msg, h1, h2, h3, h4, h5⟩ := inv.free i ho
      exact ⟨msg, by rw [hhist _ (hc4 i).symm (by simp [ei])]; exact h1, by rw [hav i ei]; exact h2, h3,
        by rw [hlt]; exact h4, by rw [hfv]; exact h5⟩
  · exact hunalloc
  · intro i ho
    by_cases ei : i = i0
    · subst ei; exact ⟨by rw [hlt]; exact hlt0, by rw [hfv]; exact hfv0, hunalloc0 ho⟩
    · rw [hown i ei] at ho; rw [hlt, hfv, hav i ei]; exact inv.unalloc2 i ho
  · exact htslot
  · intro i h1 h2
    by_cases ei : i = i0
    · subst ei; exact hclosed0
    · rw [hfv] at h1
      have := inv.closed i h1 (pcAll Pc.lk3At i hlk3 h2)
      rw [hhist _ (hc3 i).symm (by simp), hlen _ (hc3 i).symm (by simp), hav i ei]
      exact this
  · intro i h1 h2
    rw [hfv] at h1
    rw [hlt]
    exact inv.depth i h1 (pcAll Pc.lkAt i hlk h2)
  · intro e h
    rw [hrecl] at h
    rw [htkv, hfv, hpv]
    exact inv.recl e h
  · intro t'
    by_cases e : t' = t
    · subst e; exact hpc
    · refine (inv.pcs t').frame inv.wf (hpcs t' e) (htv t' e) hext (fun i hu => ?_) (fun e _ => by rw [hpv])
        (by rw [hsv]) (htslot' t' e)
      have ei : i ≠ i0 := by intro ei; subst ei; rw [hnouse t' e] at hu; cases hu
      exact ⟨hown i ei, by rw [hlt], by rw [hfv], hhist _ (hc3 i).symm (by simp)⟩

end Babylon.Epoch
