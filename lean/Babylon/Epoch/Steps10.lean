/-
  Preservation of the Epoch invariant, part 10: `allocate()` (mint / pop), `deallocate()`, Accessor move.
-/
import Babylon.Epoch.Steps9

namespace Babylon.Epoch
open Babylon.Core Babylon.Core.MemView

/-- `allocate()` returned slot `i0` (which nobody held); Accessor style goes on with `ensure`,
thread-local style is done. -/
theorem Inv.alloc_done {c : Cfg} {o : Orders} {s : State} {m : Mem Loc} {t i0 : Nat} (inv : Inv c o s)
    (hp : s.pc t = .cr0)
    (hext : s.mem.Ext m) (hwf : m.WF) (htv : ∀ t', t' ≠ t → m.tv t' = s.mem.tv t')
    (hhist : ∀ l, l ≠ c.cnt → l ≠ .fl i0 → m.hist l = s.mem.hist l)
    (hnacc : CounterOK { s with mem := m } .nacc) (hntid : CounterOK { s with mem := m } .ntid)
    (hnaccTls : c.tls = true → m.len .nacc = 1)
    (hnot : ∀ h, s.own i0 ≠ .held h) (hfv0 : s.fv i0 = none) (hlt0 : s.lt i0 = 0)
    (hcur : s.av i0 ≤ (m.tv t).cur) (hcnt : i0 < (m.tv t).cur.get c.cnt)
    (hunalloc : ∀ i, (upd s.own i0 (.held t)) i = .unalloc ↔ m.len c.cnt ≤ i + 1)
    (pc' : Pc) (ret' : Nat → Option Nat) (tslot' : Nat → Option Nat)
    (hshape : (c.tls = false ∧ pc' = .en0 i0 .kCreate ∧ tslot' = s.tslot) ∨
              (c.tls = true ∧ pc' = .idle ∧ tslot' = upd s.tslot t (some i0))) :
    Inv c o { s with mem := m, own := upd s.own i0 (.held t), pc := upd s.pc t pc', ret := ret',
                     av := upd s.av i0 (m.tv t).cur, tslot := tslot' } := by
  have hnouse : ∀ t', (s.pc t').uses i0 = false := fun t' => by
    cases h : (s.pc t').uses i0 with
    | false => rfl
    | true => exact absurd (uses_own (inv.pcs t') h) (hnot t')
  have hc3 : ∀ i, c.cnt ≠ .slot i := by intro i; unfold Cfg.cnt; split <;> simp
  obtain ⟨hcl1, hcl2⟩ := inv.closed i0 hfv0 (fun t' => by
    cases h : (s.pc t').lk3At i0 with
    | false => rfl
    | true => have := hnouse t'; rw [Pc.lk3At_uses h] at this; cases this)
  have hpcfalse : (∀ i, pc'.lkAt i = false) ∧ (∀ i, pc'.lk3At i = false) ∧ (∀ i, i ≠ i0 → pc'.crAt i = false) := by
    rcases hshape with ⟨_, h, _⟩ | ⟨_, h, _⟩ <;> subst h <;> simp [Pc.lkAt, Pc.lk3At, Pc.crAt]
    intro i hi h; exact hi h.symm
  apply inv.own_step (s' := { s with mem := m, own := upd s.own i0 (.held t), pc := upd s.pc t pc', ret := ret', av := upd s.av i0 (m.tv t).cur, tslot := tslot' })
    (t := t) (i0 := i0) hext hwf htv hhist hnacc hntid hnaccTls <;> try rfl
  · intro i e; simp [e]
  · intro i e; simp [e]
  · intro t' e; simp [e]
  · intro i
    show (upd s.pc t pc' t).lkAt i = (s.pc t).lkAt i
    rw [upd_same, hpcfalse.1 i, hp]; rfl
  · intro i
    show (upd s.pc t pc' t).lk3At i = (s.pc t).lk3At i
    rw [upd_same, hpcfalse.2.1 i, hp]; rfl
  · intro i e
    show (upd s.pc t pc' t).crAt i = (s.pc t).crAt i
    rw [upd_same, hpcfalse.2.2 i e, hp]; rfl
  · intro t' _; exact hnouse t'
  · exact hfv0
  · exact hlt0
  · intro h ho
    simp only [upd_same] at ho
    cases ho
    simp only [upd_same, State.cur]
    exact ⟨View.le_refl _, hcnt⟩
  · intro h ho htls hnc
    simp only [upd_same] at ho
    cases ho
    rcases hshape with ⟨_, hpc', _⟩ | ⟨htls', _, _⟩
    · exfalso; apply hnc; simp [creating, hpc', Pc.crAt]
    · rw [htls] at htls'; cases htls'
  · intro ho; simp at ho
  · exact hunalloc
  · intro ho; simp at ho
  · intro t' i hts
    rcases hshape with ⟨htls, _, hts'⟩ | ⟨htls, _, hts'⟩
    · subst hts'
      have := (inv.tslotOK t' i hts).1
      rw [htls] at this; cases this
    · subst hts'
      refine ⟨htls, ?_⟩
      by_cases e : t' = t
      · subst e
        simp only [upd_same] at hts
        cases hts
        simp
      · simp only [upd_other _ _ _ _ e] at hts
        have ho := (inv.tslotOK t' i hts).2
        have ei : i ≠ i0 := by intro ei; subst ei; exact hnot t' ho
        simp [ei]; exact ho
  · intro t' e
    rcases hshape with ⟨_, _, hts'⟩ | ⟨_, _, hts'⟩ <;> subst hts'
    · rfl
    · simp [e]
  · have hh := hhist (.slot i0) (hc3 i0).symm (by simp)
    have hl : m.len (.slot i0) = s.mem.len (.slot i0) := by simp [Mem.len, hh]
    have hb := hwf.cur t (.slot i0)
    refine ⟨?_, ?_⟩
    · show ∃ msg, (m.hist (.slot i0))[m.len (.slot i0) - 1]? = some msg ∧ msg.val = MAX
      rw [hl, hh]; exact hcl1
    · show ((upd s.av i0 (m.tv t).cur) i0).get (.slot i0) + 1 = m.len (.slot i0)
      simp only [upd_same]
      have := hcur (.slot i0)
      omega
  · simp only [PcOK, upd_same]
    rcases hshape with ⟨htls, hpc', _⟩ | ⟨_, hpc', _⟩ <;> subst hpc' <;> simp
    exact htls

/-- `allocate()` mints a new id -/
theorem Inv.step_cr0_mint {c : Cfg} {o : Orders} {s : State} {m : Mem Loc} {t old : Nat} (inv : Inv c o s)
    (hp : s.pc t = .cr0) (hr : s.mem.rmw t c.cnt o.mint (· + 1) = some (m, old)) :
    Inv c o (afterAlloc c { s with own := upd s.own old (.held t) } m t old) := by
  obtain ⟨msg, W, hlast, hold, hh, hho, htv, hmW, hrelW, hcur, hacq, hts, hmacq, hmcur, hscf, hnsc⟩ := Mem.rmw_facts hr
  have hne := inv.wf.nonempty c.cnt
  have hm : (s.mem.hist c.cnt)[s.mem.len c.cnt - 1]? = some msg := getLast?_getElem? _ _ hlast
  have hcounter : CounterOK s c.cnt := by
    rcases c.cnt_cases with ⟨_, h⟩ | ⟨_, h⟩ <;> rw [h]
    · exact inv.ntidVal
    · exact inv.naccVal
  have hval := hcounter _ msg hm
  have hold1 : old + 1 = s.mem.len c.cnt := by omega
  have hh' : m.hist c.cnt = s.mem.hist c.cnt ++ [⟨s.mem.len c.cnt, W⟩] := by
    rw [hh]; simp; omega
  have hlen' : m.len c.cnt = s.mem.len c.cnt + 1 := by simp [Mem.len, hh]
  have hun : s.own old = .unalloc := (inv.unalloc old).mpr (by omega)
  obtain ⟨hlt0, hfv0, hav0⟩ := inv.unalloc2 old hun
  have hcnt' : CounterOK { s with mem := m } c.cnt := CounterOK.push (s := s) hcounter hh'
  have key := inv.alloc_done (m := m) (i0 := old) hp (Mem.rmw_ext hr) (Mem.rmw_wf hr inv.wf) htv
    (fun l h1 _ => hho l h1)
    (by
      rcases c.cnt_cases with ⟨_, h⟩ | ⟨_, h⟩
      · exact inv.naccVal.same (hho _ (by rw [h]; simp))
      · rw [h] at hcnt'; exact hcnt')
    (by
      rcases c.cnt_cases with ⟨_, h⟩ | ⟨_, h⟩
      · rw [h] at hcnt'; exact hcnt'
      · exact inv.ntidVal.same (hho _ (by rw [h]; simp)))
    (by
      intro htls
      rcases c.cnt_cases with ⟨_, h⟩ | ⟨h', _⟩
      · have : m.len .nacc = s.mem.len .nacc := by simp [Mem.len, hho .nacc (by rw [h]; simp)]
        rw [this]; exact inv.naccTls htls
      · rw [htls] at h'; cases h')
    (by intro h; rw [hun]; simp) hfv0 hlt0
    (by intro l; rw [hav0 l]; exact Nat.zero_le _) (by omega)
    (by
      intro i
      by_cases e : i = old
      · subst e; simp; omega
      · simp only [upd_other _ _ _ _ e]
        rw [inv.unalloc i, hlen']; omega)
  unfold afterAlloc finishCreate
  cases htls : c.tls
  · simp only [Bool.false_eq_true, if_false]
    exact key (.en0 old .kCreate) s.ret s.tslot (Or.inl ⟨htls, rfl, rfl⟩)
  · simp only [if_true]
    exact key .idle (upd s.ret t (some old)) (upd s.tslot t (some old)) (Or.inr ⟨htls, rfl, rfl⟩)

/-- `allocate()` pops the free id `i` -/
theorem Inv.step_cr0_pop {c : Cfg} {o : Orders} {s : State} {m : Mem Loc} {t i old : Nat} (inv : Inv c o s)
    (ho : o.Safe) (hp : s.pc t = .cr0) (hfree : s.own i = .free)
    (hr : s.mem.rmw t (.fl i) o.freePop id = some (m, old)) :
    Inv c o (afterAlloc c { s with own := upd s.own i (.held t) } m t i) := by
  obtain ⟨msg, W, hlast, hold, hh, hho, htv, hmW, hrelW, hcur, hacq, hts, hmacq, hmcur, hscf, hnsc⟩ := Mem.rmw_facts hr
  obtain ⟨msg', hlast', hav, hcntv, hlt0, hfv0⟩ := inv.free i hfree
  rw [hlast] at hlast'; cases hlast'
  have hview : msg.view ≤ (m.tv t).cur := hmcur ho.pop
  have hc4 : c.cnt ≠ .fl i := by unfold Cfg.cnt; split <;> simp
  have hlenc : m.len c.cnt = s.mem.len c.cnt := by simp [Mem.len, hho _ hc4]
  have key := inv.alloc_done (m := m) (i0 := i) hp (Mem.rmw_ext hr) (Mem.rmw_wf hr inv.wf) htv
    (fun l _ h2 => hho l h2)
    (inv.naccVal.same (hho _ (by simp))) (inv.ntidVal.same (hho _ (by simp)))
    (by intro htls
        have : m.len .nacc = s.mem.len .nacc := by simp [Mem.len, hho .nacc (by simp)]
        rw [this]; exact inv.naccTls htls)
    (by intro h; rw [hfree]; simp) hfv0 hlt0
    (View.le_trans hav hview) (Nat.lt_of_lt_of_le hcntv (hview _))
    (by
      intro j
      by_cases e : j = i
      · subst e
        have := inv.unalloc j
        rw [hfree] at this
        simp only [upd_same, hlenc]
        constructor
        · intro h; cases h
        · intro h; exact absurd (this.mpr h) (by simp)
      · simp only [upd_other _ _ _ _ e, hlenc]; exact inv.unalloc j)
  unfold afterAlloc finishCreate
  cases htls : c.tls
  · simp only [Bool.false_eq_true, if_false]
    exact key (.en0 i .kCreate) s.ret s.tslot (Or.inl ⟨htls, rfl, rfl⟩)
  · simp only [if_true]
    exact key .idle (upd s.ret t (some i)) (upd s.tslot t (some i)) (Or.inr ⟨htls, rfl, rfl⟩)

/-- `deallocate(i)`: Accessor::release / thread exit -/
theorem Inv.step_rl2 {c : Cfg} {o : Orders} {s : State} {m : Mem Loc} {t i old : Nat} (inv : Inv c o s)
    (ho : o.Safe) (hp : s.pc t = .rl2 i) (hr : s.mem.rmw t (.fl i) o.freePush id = some (m, old)) :
    Inv c o { s with mem := m, own := upd s.own i .free, pc := upd s.pc t .idle,
                     tslot := if c.tls then upd s.tslot t none else s.tslot } := by
  have hpc := inv.pcs t; unfold PcOK at hpc; rw [hp] at hpc
  obtain ⟨hown, hlt0, hfv0⟩ := hpc
  obtain ⟨msg, W, hlast, hold, hh, hho, htv, hmW, hrelW, hcur, hacq, hts, hmacq, hmcur, hscf, hnsc⟩ := Mem.rmw_facts hr
  have hc3 : ∀ j, c.cnt ≠ .slot j := by intro j; unfold Cfg.cnt; split <;> simp
  have hc4 : c.cnt ≠ .fl i := by unfold Cfg.cnt; split <;> simp
  have hlenc : m.len c.cnt = s.mem.len c.cnt := by simp [Mem.len, hho _ hc4]
  obtain ⟨hcl1, hcl2⟩ := inv.closed i hfv0 (fun t' => by
    by_cases e : t' = t
    · subst e; simp [hp, Pc.lk3At]
    · cases h : (s.pc t').lk3At i with
      | false => rfl
      | true => have := inv.not_uses hown e; rw [Pc.lk3At_uses h] at this; cases this)
  apply inv.own_step (s' := { s with mem := m, own := upd s.own i .free, pc := upd s.pc t .idle, tslot := if c.tls then upd s.tslot t none else s.tslot })
    (t := t) (i0 := i) (Mem.rmw_ext hr) (Mem.rmw_wf hr inv.wf) htv (fun l _ h2 => hho l h2)
    (inv.naccVal.same (hho _ (by simp))) (inv.ntidVal.same (hho _ (by simp)))
    (by intro htls
        have : m.len .nacc = s.mem.len .nacc := by simp [Mem.len, hho .nacc (by simp)]
        show m.len .nacc = 1
        rw [this]; exact inv.naccTls htls) <;> try rfl
  · intro j e; simp [e]
  · intro j _; rfl
  · intro t' e; simp [e]
  · intro j; simp [hp, Pc.lkAt]
  · intro j; simp [hp, Pc.lk3At]
  · intro j _; simp [hp, Pc.crAt]
  · intro t' e; exact inv.not_uses hown e
  · exact hfv0
  · exact hlt0
  · intro h hh'; simp at hh'
  · intro h hh'; simp at hh'
  · intro _
    refine ⟨⟨id msg.val, W⟩, by show (m.hist (.fl i)).getLast? = _; rw [hh]; simp, ?_, ?_⟩
    · exact View.le_trans (inv.acc i t hown).1 (hrelW ho.push)
    · exact Nat.lt_of_lt_of_le (inv.acc i t hown).2 (View.le_trans (inv.acc i t hown).1 (hrelW ho.push) _)
  · intro j
    show (upd s.own i .free) j = .unalloc ↔ m.len c.cnt ≤ j + 1
    rw [hlenc]
    by_cases e : j = i
    · subst e
      have := inv.unalloc j
      rw [hown] at this
      simp only [upd_same]
      constructor
      · intro h; cases h
      · intro h; exact absurd (this.mpr h) (by simp)
    · simp only [upd_other _ _ _ _ e]; exact inv.unalloc j
  · intro hh'; simp at hh'
  · intro t' j hts
    cases htls : c.tls with
    | false =>
      simp only [htls, Bool.false_eq_true, if_false] at hts
      have := (inv.tslotOK t' j hts).1
      rw [htls] at this; cases this
    | true =>
      simp only [htls, if_true] at hts
      refine ⟨rfl, ?_⟩
      by_cases e : t' = t
      · subst e; simp at hts
      · simp only [upd_other _ _ _ _ e] at hts
        have hoj := (inv.tslotOK t' j hts).2
        have ej : j ≠ i := by intro ej; subst ej; rw [hown] at hoj; cases hoj; exact e rfl
        simp [ej]; exact hoj
  · intro t' e
    show (if c.tls then upd s.tslot t none else s.tslot) t' = s.tslot t'
    split
    · simp [e]
    · rfl
  · have hh' := hho (.slot i) (by simp)
    have hl : m.len (.slot i) = s.mem.len (.slot i) := by simp [Mem.len, hh']
    refine ⟨?_, ?_⟩
    · show ∃ msg, (m.hist (.slot i))[m.len (.slot i) - 1]? = some msg ∧ msg.val = MAX
      rw [hl, hh']; exact hcl1
    · show (s.av i).get (.slot i) + 1 = m.len (.slot i)
      rw [hl]; exact hcl2
  · simp [PcOK]

/-- moving the Accessor of slot `i` from thread `t1` to thread `t2` -/
theorem Inv.step_move {c : Cfg} {o : Orders} {s : State} {i t1 t2 : Nat} (inv : Inv c o s)
    (htls : c.tls = false) (hown : s.own i = .held t1) (hnu : (s.pc t1).uses i = false)
    (hidle : s.pc t2 = .idle) (hle : s.av i ≤ s.cur t2) : Inv c o (move s i t2) := by
  have hnouse : ∀ t', (s.pc t').uses i = false := fun t' => by
    by_cases e : t' = t1
    · subst e; exact hnu
    · exact inv.not_uses hown e
  have hnc : ¬ creating s i t1 := by
    intro h
    have := Pc.crAt_uses h
    rw [hnu] at this; cases this
  constructor
  · exact inv.wf
  · exact inv.gverVal
  · exact inv.naccVal
  · exact inv.ntidVal
  · exact inv.naccTls
  · exact inv.gverView
  · exact inv.tblMono
  · exact inv.tick
  · intro j V h; exact (inv.region j V h).frame (Mem.Ext.refl _) rfl (View.le_refl _) rfl (fun _ _ => rfl) (inv.region j V h).depth
  · exact inv.dich
  · intro j h hoj
    by_cases e : j = i
    · subst e
      simp only [Epoch.move, upd_same] at hoj
      cases hoj
      exact ⟨hle, (inv.acc j t1 hown).2⟩
    · simp only [Epoch.move, upd_other _ _ _ _ e] at hoj
      exact inv.acc j h hoj
  · intro j h hoj ht hc
    by_cases e : j = i
    · subst e
      exact (inv.accCap j t1 hown ht hnc).ext (Mem.Ext.refl _)
    · simp only [Epoch.move, upd_other _ _ _ _ e] at hoj
      exact (inv.accCap j h hoj ht hc).ext (Mem.Ext.refl _)
  · intro j hoj
    by_cases e : j = i
    · subst e; simp [Epoch.move] at hoj
    · simp only [Epoch.move, upd_other _ _ _ _ e] at hoj
      exact inv.free j hoj
  · intro j
    by_cases e : j = i
    · subst e
      have := inv.unalloc j
      rw [hown] at this
      simp only [Epoch.move, upd_same]
      constructor
      · intro h; cases h
      · intro h; exact absurd (this.mpr h) (by simp)
    · simp only [Epoch.move, upd_other _ _ _ _ e]; exact inv.unalloc j
  · intro j hoj
    by_cases e : j = i
    · subst e; simp [Epoch.move] at hoj
    · simp only [Epoch.move, upd_other _ _ _ _ e] at hoj
      exact inv.unalloc2 j hoj
  · intro t' j hts
    have := (inv.tslotOK t' j hts).1
    rw [htls] at this; cases this
  · exact inv.closed
  · exact inv.depth
  · exact inv.recl
  · intro t'
    refine (inv.pcs t').frame inv.wf rfl rfl (Mem.Ext.refl _) (fun j hu => ?_) (fun _ _ => rfl) rfl rfl
    have ej : j ≠ i := by intro ej; subst ej; rw [hnouse t'] at hu; cases hu
    exact ⟨by simp [Epoch.move, ej], rfl, rfl, rfl⟩

end Babylon.Epoch
