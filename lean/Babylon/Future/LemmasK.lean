/-
  Callbacks: every registered callback is, at any moment, in exactly one place — still being
  registered, in the open list, in the setter's detached list, or already run (once).
-/
import Babylon.Future.LemmasS

namespace Babylon.Future
open Babylon.Core Babylon.Gen.Future

/-- thread is inside `on_finish(id)` and has neither pushed nor run the callback yet -/
def holds (p : Pc) (id : Nat) : Bool :=
  match p with
  | .r0 i => i == id
  | .r1 i _ => i == id
  | .rRun i => i == id
  | _ => false

/-- the callbacks waiting to be run by the setter -/
def lists (s : State) : List Nat := s.head.getD [] ++ s.det

structure InvK (s : State) : Prop where
  own : ∀ t id, (holds (s.pc t) id = true ∨ s.pc t = .ret (.reg id)) → s.regOwner id = some t
  fresh : ∀ id, s.regStarted id = false → s.runs id = [] ∧ id ∉ lists s ∧ s.regDone id = false ∧ s.regOwner id = none
  started : ∀ id, s.regStarted id = true → (s.regOwner id).isSome = true
  tokA : ∀ id t, s.regOwner id = some t → holds (s.pc t) id = true → s.runs id = [] ∧ id ∉ lists s ∧ s.regDone id = false
  tokB : ∀ id t, s.regOwner id = some t → holds (s.pc t) id = false → (s.runs id).length + (lists s).count id = 1
  seen : ∀ id x, x ∈ s.runs id → x = s.storage ∧ s.storage.isSome = true
  rrun : ∀ t id, s.pc t = .rRun id → s.head = none

theorem InvK.init (n : Option Nat) : InvK (State.init n) := by
  constructor <;> intros <;> (cases n <;> simp_all [State.init, holds, lists] <;> try grind [holds])

/-- a step that neither touches a registration in progress nor the lists / run records -/
theorem InvK.frame {s s' : State} (hi : InvK s) (t : Nat) (p' : Pc)
    (hpc : s'.pc = upd s.pc t p')
    (hp' : ∀ id, holds p' id = false ∧ p' ≠ .ret (.reg id)) (hold : ∀ id, holds (s.pc t) id = false ∧ s.pc t ≠ .ret (.reg id))
    (h1 : s'.head = s.head) (h2 : s'.det = s.det) (h3 : s'.runs = s.runs) (h4 : s'.regStarted = s.regStarted)
    (h5 : s'.regDone = s.regDone) (h6 : s'.regOwner = s.regOwner) (h7 : s'.storage = s.storage) : InvK s' := by
  obtain ⟨own, fresh, started, tokA, tokB, seen, rrun⟩ := hi
  have hl : lists s' = lists s := by simp [lists, h1, h2]
  have hne : ∀ id, p' ≠ .rRun id := fun id h => by have := (hp' id).1; simp [h, holds] at this
  have hne0 : ∀ id, p' ≠ .r0 id := fun id h => by have := (hp' id).1; simp [h, holds] at this
  have hne1 : ∀ id e, p' ≠ .r1 id e := fun id e h => by have := (hp' id).1; simp [h, holds] at this
  have hh' : ∀ id, holds p' id = false := fun id => (hp' id).1
  have hh : ∀ id, holds (s.pc t) id = false := fun id => (hold id).1
  constructor <;> intros <;> simp only [hpc, hl, h1, h3, h4, h5, h6, h7] at * <;> grind [upd_apply, holds]

set_option maxHeartbeats 2000000 in
theorem InvK.step {s s' : State} (h : Step s s') (hP : InvP s) (hS : InvS s) (hi : InvK s) : InvK s' := by
  have hi' := hi
  obtain ⟨own, fresh, started, tokA, tokB, seen, rrun⟩ := hi
  have hS' := hS
  obtain ⟨cons_le, seals_le, xchg_seal, storage_none, storage_some, head_none, none_fired, latch_val, at_p0, at_s0, at_s1, at_s2, at_s3, at_s4, done, open_det⟩ := hS
  have hempty : s.storage = none → ∀ id, s.runs id = [] := by
    intro hn id
    cases hr : s.runs id with
    | nil => rfl
    | cons x xs => have := (seen id x (by simp [hr])).2; simp [hn] at this
  cases h with
  | act addr t h x l hst =>
    cases hpc : s.pc t <;> simp only [stepThread, waitLoop, hpc] at hst
    all_goals (try split at hst)
    all_goals (try split at hst)
    all_goals (try split at hst)
    all_goals (try simp only [Option.some.injEq, Prod.mk.injEq, reduceCtorEq] at hst)
    all_goals (try (obtain ⟨rfl, rfl⟩ := hst))
    all_goals (first
      | (refine InvK.frame hi' t _ rfl ?_ ?_ rfl rfl rfl rfl rfl rfl rfl <;> (simp [hpc, holds]; done))
      | (exfalso; assumption)
      | (constructor <;> intros <;> (try dsimp only at *) <;> first | assumption | grind [upd_apply, holds, lists, setRet]))
  | tick d => constructor <;> intros <;> (try dsimp only at *) <;> first | assumption | grind [lists]
  | set t v hidle hl hsc => refine InvK.frame hi' t _ rfl ?_ ?_ rfl rfl rfl rfl rfl rfl rfl <;> simp [hidle, holds]
  | down t d hidle hl h1 hb => refine InvK.frame hi' t _ rfl ?_ ?_ rfl rfl rfl rfl rfl rfl rfl <;> simp [hidle, holds]
  | get t hidle => refine InvK.frame hi' t _ rfl ?_ ?_ rfl rfl rfl rfl rfl rfl rfl <;> simp [hidle, holds]
  | waitFor t tau hidle h1 h2 => refine InvK.frame hi' t _ rfl ?_ ?_ rfl rfl rfl rfl rfl rfl rfl <;> simp [hidle, holds]
  | reg t id hidle hs =>
    constructor <;> intros <;> (try dsimp only [callReg] at *) <;> first | assumption | grind [upd_apply, holds, lists]
  | ready t hidle => refine InvK.frame hi' t _ rfl ?_ ?_ rfl rfl rfl rfl rfl rfl rfl <;> simp [hidle, holds]

theorem InvK.reach {s : State} (h : Reachable Init Step s) : InvK s := by
  induction h with
  | base hi => obtain ⟨n, hn, rfl⟩ := hi; exact InvK.init n
  | tail hr hst ih => exact InvK.step hst (InvP.reach hr) (InvS.reach hr) ih

end Babylon.Future
